/-
  C20 helper lemmas (core Lean only).
-/
import GojaModel.C20.Model
namespace GojaModel.C20

/-! ### decode / encode round trip -/

theorem encodeRune_small {c : Nat} (h : c < 0x10000) : encodeRune c = [c] := by
  simp [encodeRune, h]

theorem encodeRune_combine {c d : Nat} (hc : isHi c = true) (hd : isLo d = true) :
    encodeRune (combine c d) = [c, d] := by
  simp only [isHi, isLo, Bool.and_eq_true, decide_eq_true_eq] at hc hd
  have h1 : ¬ combine c d < 0x10000 := by unfold combine; omega
  have h2 : combine c d - 0x10000 = (c - 0xD800) * 0x400 + (d - 0xDC00) := by unfold combine; omega
  have h3 : d - 0xDC00 < 0x400 := by omega
  simp only [encodeRune, h1, if_false, h2]
  have e1 : ((c - 0xD800) * 0x400 + (d - 0xDC00)) / 0x400 = c - 0xD800 := by omega
  have e2 : ((c - 0xD800) * 0x400 + (d - 0xDC00)) % 0x400 = d - 0xDC00 := by omega
  rw [e1, e2]
  have a1 : 0xD800 + (c - 0xD800) = c := by omega
  have a2 : 0xDC00 + (d - 0xDC00) = d := by omega
  rw [a1, a2]

theorem decode_lossless_aux : ∀ (units : List Nat), (∀ u ∈ units, u < 0x10000) →
    encodeAll ((decode units).map Prod.fst) = units := by
  intro units
  fun_induction decode units with
  | case1 => intro _; rfl
  | case2 c => intro h; simp [encodeAll, encodeRune_small (h c (by simp))]
  | case3 c d rest hp ih =>
    intro h
    simp only [Bool.and_eq_true] at hp
    have ih' := ih (fun u hu => h u (by simp [hu]))
    simp only [encodeAll, List.map_cons, List.flatMap_cons] at ih' ⊢
    rw [encodeRune_combine hp.1 hp.2, ih']
    rfl
  | case4 c d rest hp ih =>
    intro h
    have ih' := ih (fun u hu => h u (by simp at hu ⊢; rcases hu with hu | hu <;> simp [hu]))
    simp only [encodeAll, List.map_cons, List.flatMap_cons] at ih' ⊢
    rw [encodeRune_small (h c (by simp)), ih']
    rfl

theorem decode_size_ok : ∀ (units : List Nat), (∀ u ∈ units, u < 0x10000) →
    ∀ p ∈ decode units, p.2 = (encodeRune p.1).length ∧ (p.2 = 1 ∨ p.2 = 2) := by
  intro units
  fun_induction decode units with
  | case1 => intro _ p hp; simp at hp
  | case2 c =>
    intro h p hp
    simp at hp; subst hp
    simp [encodeRune_small (h c (by simp))]
  | case3 c d rest hp ih =>
    intro h p hmem
    simp only [Bool.and_eq_true] at hp
    simp only [List.mem_cons] at hmem
    rcases hmem with hmem | hmem
    · subst hmem; simp [encodeRune_combine hp.1 hp.2]
    · exact ih (fun u hu => h u (by simp [hu])) p hmem
  | case4 c d rest hp ih =>
    intro h p hmem
    simp only [List.mem_cons] at hmem
    rcases hmem with hmem | hmem
    · subst hmem; simp [encodeRune_small (h c (by simp))]
    · exact ih (fun u hu => h u (by simp at hu ⊢; rcases hu with hu | hu <;> simp [hu])) p hmem

theorem totalSize_nil : totalSize [] = 0 := rfl
theorem totalSize_cons (r sz : Nat) (l : List (Nat × Nat)) : totalSize ((r, sz) :: l) = sz + totalSize l := by
  simp [totalSize]

theorem totalSize_decode : ∀ (units : List Nat), totalSize (decode units) = units.length := by
  intro units
  fun_induction decode units with
  | case1 => rfl
  | case2 c => simp [totalSize]
  | case3 c d rest hp ih => rw [totalSize_cons, ih]; simp; omega
  | case4 c d rest hp ih => rw [totalSize_cons, ih]; simp; omega

theorem totalSize_eq_encode_len : ∀ (l : List (Nat × Nat)), (∀ p ∈ l, p.2 = (encodeRune p.1).length) →
    totalSize l = (encodeAll (l.map Prod.fst)).length := by
  intro l
  induction l with
  | nil => intro _; rfl
  | cons p l ih =>
    intro h
    obtain ⟨r, sz⟩ := p
    have h1 := h (r, sz) (by simp)
    have ih' := ih (fun q hq => h q (by simp [hq]))
    simp only [encodeAll, List.map_cons, List.flatMap_cons, List.length_append] at ih' ⊢
    rw [totalSize_cons, ih']
    simp at h1
    omega

/-! ### buildLoop = prefix sums -/

theorem checkStart_posMap (start : Nat) (st : PM) : (checkStart start st).posMap = st.posMap := by
  unfold checkStart; split <;> (try rfl); split <;> (try rfl); split <;> rfl
theorem checkStart_runes (start : Nat) (st : PM) : (checkStart start st).runes = st.runes := by
  unfold checkStart; split <;> (try rfl); split <;> (try rfl); split <;> rfl
theorem checkStart_curPos (start : Nat) (st : PM) : (checkStart start st).curPos = st.curPos := by
  unfold checkStart; split <;> (try rfl); split <;> (try rfl); split <;> rfl

theorem buildLoop_posMap (start : Nat) : ∀ (l : List (Nat × Nat)) (st : PM),
    (buildLoop start l st).posMap = st.posMap ++ bounds st.curPos l ∧
    (buildLoop start l st).runes = st.runes ++ l.map Prod.fst := by
  intro l
  induction l with
  | nil =>
    intro st
    simp [buildLoop, bounds, checkStart_posMap, checkStart_runes, checkStart_curPos]
  | cons p l ih =>
    intro st
    obtain ⟨r, sz⟩ := p
    simp only [buildLoop]
    have := ih { checkStart start st with
      runes := (checkStart start st).runes ++ [r],
      posMap := (checkStart start st).posMap ++ [(checkStart start st).curPos],
      curPos := (checkStart start st).curPos + sz }
    rw [this.1, this.2]
    simp [bounds, checkStart_posMap, checkStart_runes, checkStart_curPos]

theorem bounds_length (b : Nat) (l : List (Nat × Nat)) : (bounds b l).length = l.length + 1 := by
  induction l generalizing b with
  | nil => rfl
  | cons p l ih => obtain ⟨r, sz⟩ := p; simp [bounds, ih]

theorem bounds_get : ∀ (l : List (Nat × Nat)) (b k : Nat), k ≤ l.length →
    (bounds b l)[k]? = some (b + totalSize (l.take k)) := by
  intro l
  induction l with
  | nil => intro b k hk; simp at hk; subst hk; simp [bounds, totalSize]
  | cons p l ih =>
    intro b k hk
    obtain ⟨r, sz⟩ := p
    cases k with
    | zero => simp [bounds, totalSize]
    | succ k =>
      simp only [List.length_cons] at hk
      simp only [bounds, List.getElem?_cons_succ, List.take_succ_cons]
      rw [ih (b + sz) k (by omega), totalSize_cons]
      congr 1; omega

theorem totalSize_take_le (l : List (Nat × Nat)) (k : Nat) : totalSize (l.take k) ≤ totalSize l := by
  induction l generalizing k with
  | nil => simp [totalSize]
  | cons p l ih =>
    obtain ⟨r, sz⟩ := p
    cases k with
    | zero => simp [totalSize]
    | succ k => simp only [List.take_succ_cons, totalSize_cons]; have := ih k; omega

theorem totalSize_take_mono (l : List (Nat × Nat)) {a b : Nat} (h : a ≤ b) :
    totalSize (l.take a) ≤ totalSize (l.take b) := by
  induction l generalizing a b with
  | nil => simp [totalSize]
  | cons p l ih =>
    obtain ⟨r, sz⟩ := p
    cases a with
    | zero => simp [totalSize]
    | succ a =>
      cases b with
      | zero => omega
      | succ b =>
        simp only [List.take_succ_cons, totalSize_cons]
        have := ih (a := a) (b := b) (by omega); omega

/-- All elements of `bounds b l` are ≥ b, and strictly increasing when every size is positive. -/
theorem bounds_ge (l : List (Nat × Nat)) (b : Nat) : ∀ x ∈ bounds b l, b ≤ x := by
  induction l generalizing b with
  | nil => intro x hx; simp [bounds] at hx; omega
  | cons p l ih =>
    obtain ⟨r, sz⟩ := p
    intro x hx
    simp only [bounds, List.mem_cons] at hx
    rcases hx with hx | hx
    · omega
    · have := ih (b + sz) x hx; omega

theorem bounds_pairwise (l : List (Nat × Nat)) (b : Nat) (hpos : ∀ p ∈ l, 1 ≤ p.2) :
    List.Pairwise (· < ·) (bounds b l) := by
  induction l generalizing b with
  | nil => simp [bounds]
  | cons p l ih =>
    obtain ⟨r, sz⟩ := p
    simp only [bounds, List.pairwise_cons]
    refine ⟨?_, ih (b + sz) (fun q hq => hpos q (by simp [hq]))⟩
    intro x hx
    have h1 := bounds_ge l (b + sz) x hx
    have h2 := hpos (r, sz) (by simp)
    simp at h2
    omega

/-! ### locating the start position -/

/-- Declarative reading of the `startFound` logic of `buildPosMap`. -/
def locate (start : Nat) : List (Nat × Nat) → Nat → Nat → Nat × Bool
  | [], cur, idx => if cur == start then (idx, false) else if cur > start then (idx - 1, true) else (0, false)
  | (_, sz) :: rest, cur, idx =>
    if cur == start then (idx, false) else if cur > start then (idx - 1, true)
    else locate start rest (cur + sz) (idx + 1)

theorem buildLoop_found (start : Nat) : ∀ (l : List (Nat × Nat)) (st : PM), st.startFound = true →
    (buildLoop start l st).mappedStart = st.mappedStart ∧ (buildLoop start l st).splitPair = st.splitPair := by
  intro l
  induction l with
  | nil => intro st h; simp [buildLoop, checkStart, h]
  | cons p l ih =>
    intro st h
    obtain ⟨r, sz⟩ := p
    simp only [buildLoop]
    have hc : checkStart start st = st := by simp [checkStart, h]
    rw [hc]
    have := ih { st with runes := st.runes ++ [r], posMap := st.posMap ++ [st.curPos], curPos := st.curPos + sz } h
    exact this

theorem buildLoop_locate (start : Nat) : ∀ (l : List (Nat × Nat)) (st : PM), st.startFound = false →
    st.mappedStart = 0 → st.splitPair = false →
    ((buildLoop start l st).mappedStart, (buildLoop start l st).splitPair) = locate start l st.curPos st.runes.length := by
  intro l
  induction l with
  | nil =>
    intro st h hm hs
    obtain ⟨pm, rn, cp, sf, ms, sp⟩ := st
    simp only at h hm hs
    subst h hm hs
    simp only [buildLoop, locate, checkStart]
    by_cases h1 : cp = start
    · simp [h1]
    · by_cases h2 : cp > start
      · simp [h1, h2]
      · simp [h1, h2]
  | cons p l ih =>
    intro st h hm hs
    obtain ⟨r, sz⟩ := p
    obtain ⟨pm, rn, cp, sf, ms, sp⟩ := st
    simp only at h hm hs
    subst h hm hs
    simp only [buildLoop, locate]
    by_cases h1 : cp = start
    · subst h1
      have hc : checkStart cp ⟨pm, rn, cp, false, 0, false⟩ = ⟨pm, rn, cp, true, rn.length, false⟩ := by
        simp [checkStart]
      rw [hc]
      have := buildLoop_found cp l ⟨pm ++ [cp], rn ++ [r], cp + sz, true, rn.length, false⟩ rfl
      simp only at this
      simp [this.1, this.2]
    · by_cases h2 : cp > start
      · have hc : checkStart start ⟨pm, rn, cp, false, 0, false⟩ = ⟨pm, rn, cp, true, rn.length - 1, true⟩ := by
          simp [checkStart, h1, h2]
        rw [hc]
        have := buildLoop_found start l ⟨pm ++ [cp], rn ++ [r], cp + sz, true, rn.length - 1, true⟩ rfl
        simp only at this
        simp [h1, h2, this.1, this.2]
      · have hc : checkStart start ⟨pm, rn, cp, false, 0, false⟩ = ⟨pm, rn, cp, false, 0, false⟩ := by
          simp [checkStart, h1, h2]
        rw [hc]
        have := ih ⟨pm ++ [cp], rn ++ [r], cp + sz, false, 0, false⟩ rfl rfl rfl
        simp only [List.length_append, List.length_cons, List.length_nil] at this
        simp [h1, h2, this]

/-- `locate` is the first index of `bounds` whose value is ≥ start (exact hit ⇒ no split). -/
theorem locate_eq_search (start : Nat) : ∀ (l : List (Nat × Nat)) (cur idx : Nat),
    start ≤ cur + totalSize l →
    locate start l cur idx =
      (let j := searchInts (bounds cur l) start
       if (bounds cur l).getD j 0 == start then (idx + j, false) else (idx + j - 1, true)) := by
  intro l
  induction l with
  | nil =>
    intro cur idx h
    simp only [totalSize_nil, Nat.add_zero] at h
    have hge : cur ≥ start := h
    simp only [locate, bounds, searchInts, hge, if_true]
    by_cases h1 : cur = start
    · simp [h1]
    · have h2 : cur > start := by omega
      simp [h1, h2]
  | cons p l ih =>
    intro cur idx h
    obtain ⟨r, sz⟩ := p
    rw [totalSize_cons] at h
    simp only [locate, bounds, searchInts]
    by_cases h1 : cur = start
    · subst h1; simp
    · by_cases h2 : cur > start
      · have hge : cur ≥ start := by omega
        simp [h1, h2, hge]
      · have hlt : ¬ cur ≥ start := by omega
        rw [ih (cur + sz) (idx + 1) (by omega)]
        simp only [h1, h2, hlt, if_false, beq_iff_eq]
        have hget : ∀ (L : List Nat) (j : Nat), (cur :: L).getD (1 + j) 0 = L.getD j 0 := by
          intro L j; rw [Nat.add_comm 1 j]; rfl
        rw [hget]
        split
        · congr 1; omega
        · congr 1; omega

theorem searchInts_lt (start : Nat) : ∀ (l : List (Nat × Nat)) (cur : Nat), start ≤ cur + totalSize l →
    searchInts (bounds cur l) start < (bounds cur l).length := by
  intro l
  induction l with
  | nil => intro cur h; simp [totalSize] at h; simp [bounds, searchInts, h]
  | cons p l ih =>
    intro cur h
    obtain ⟨r, sz⟩ := p
    rw [totalSize_cons] at h
    simp only [bounds, searchInts, List.length_cons]
    split
    · omega
    · have := ih (cur + sz) (by omega); omega

/-- Characterisation of `searchInts` on any list: the element found is ≥ x and all earlier ones are < x. -/
theorem searchInts_spec : ∀ (a : List Nat) (x : Nat), searchInts a x < a.length →
    a.getD (searchInts a x) 0 ≥ x ∧ ∀ i, i < searchInts a x → a.getD i 0 < x := by
  intro a
  induction a with
  | nil => intro x h; simp at h
  | cons y ys ih =>
    intro x h
    simp only [searchInts] at h ⊢
    by_cases hy : y ≥ x
    · simp [hy]
    · simp only [hy, if_false] at h ⊢
      simp only [List.length_cons] at h
      have := ih x (by omega)
      constructor
      · rw [Nat.add_comm]; exact this.1
      · intro i hi
        cases i with
        | zero => simp; omega
        | succ i => simp only [List.getD_cons_succ]; exact this.2 i (by omega)

/-! ### flags -/

theorem flagStep_none_of_not_alpha (st : FlagSt) (c : Char) (h : c ∉ flagAlphabet) : flagStep st c = none := by
  simp only [flagAlphabet, List.mem_cons, List.not_mem_nil, or_false, not_or] at h
  obtain ⟨h1, h2, h3, h4, h5, h6⟩ := h
  simp [flagStep, h1, h2, h3, h4, h5, h6]

/-- Which characters have been seen, read off the state. -/
def seen (st : FlagSt) (c : Char) : Bool :=
  (c == 'g' && st.global) || (c == 'i' && st.ignoreCase) || (c == 'm' && st.multiline) ||
  (c == 's' && st.dotAll) || (c == 'u' && st.unicode) || (c == 'y' && st.sticky)

theorem flagStep_spec (st : FlagSt) (c : Char) :
    (flagStep st c = none ↔ (c ∉ flagAlphabet ∨ seen st c = true)) ∧
    (∀ st', flagStep st c = some st' →
        st'.err = st.err ∧ ∀ d, seen st' d = (seen st d || d == c)) := by
  by_cases hg : c = 'g'
  · subst hg; cases hb : st.global <;> simp [flagStep, seen, flagAlphabet, hb] <;>
      (try (intro d; ac_rfl))
  by_cases hm : c = 'm'
  · subst hm; cases hb : st.multiline <;> simp [flagStep, seen, flagAlphabet, hb] <;>
      (try (intro d; ac_rfl))
  by_cases hs : c = 's'
  · subst hs; cases hb : st.dotAll <;> simp [flagStep, seen, flagAlphabet, hb] <;>
      (try (intro d; ac_rfl))
  by_cases hi : c = 'i'
  · subst hi; cases hb : st.ignoreCase <;> simp [flagStep, seen, flagAlphabet, hb] <;>
      (try (intro d; ac_rfl))
  by_cases hy : c = 'y'
  · subst hy; cases hb : st.sticky <;> simp [flagStep, seen, flagAlphabet, hb] <;>
      (try (intro d; ac_rfl))
  by_cases hu : c = 'u'
  · subst hu; cases hb : st.unicode <;> simp [flagStep, seen, flagAlphabet, hb] <;>
      (try (intro d; ac_rfl))
  · have : c ∉ flagAlphabet := by simp [flagAlphabet, hg, hm, hs, hi, hy, hu]
    simp [flagStep_none_of_not_alpha st c this, this]


theorem decode_size_pos : ∀ (units : List Nat), ∀ p ∈ decode units, 1 ≤ p.2 := by
  intro units
  fun_induction decode units with
  | case1 => intro p hp; simp at hp
  | case2 c => intro p hp; simp at hp; subst hp; simp
  | case3 c d rest hp ih =>
    intro p hmem
    simp only [List.mem_cons] at hmem
    rcases hmem with hmem | hmem
    · subst hmem; simp
    · exact ih p hmem
  | case4 c d rest hp ih =>
    intro p hmem
    simp only [List.mem_cons] at hmem
    rcases hmem with hmem | hmem
    · subst hmem; simp
    · exact ih p hmem

theorem getD_of_lt (a : List Nat) (j : Nat) (h : j < a.length) : a[j]? = some (a.getD j 0) := by
  simp [List.getD, List.getElem?_eq_getElem h]

theorem flagLoop_spec : ∀ (fs : List Char) (st : FlagSt),
    ((flagLoop fs st).isSome = true ↔ (fs.Nodup ∧ ∀ c ∈ fs, c ∈ flagAlphabet ∧ seen st c = false)) ∧
    (∀ st', flagLoop fs st = some st' → st'.err = st.err ∧ ∀ d, seen st' d = (seen st d || decide (d ∈ fs))) := by
  intro fs
  induction fs with
  | nil => intro st; simp [flagLoop]
  | cons c cs ih =>
    intro st
    have hs := flagStep_spec st c
    cases hstep : flagStep st c with
    | none =>
      have hbad := hs.1.mp hstep
      simp only [flagLoop, hstep]
      refine ⟨?_, by intro st' h; simp at h⟩
      constructor
      · intro h; simp at h
      · intro h
        have := h.2 c (by simp)
        rcases hbad with hbad | hbad
        · exact absurd this.1 hbad
        · rw [hbad] at this; simp at this
    | some st1 =>
      have hok : ¬ (c ∉ flagAlphabet ∨ seen st c = true) := by
        intro hbad; rw [hs.1.mpr hbad] at hstep; simp at hstep
      have hc1 : c ∈ flagAlphabet := by
        by_cases h : c ∈ flagAlphabet
        · exact h
        · exact absurd (Or.inl h) hok
      have hc2 : seen st c = false := by
        cases h : seen st c
        · rfl
        · exact absurd (Or.inr h) hok
      obtain ⟨herr, hseen⟩ := hs.2 st1 hstep
      obtain ⟨ih1, ih2⟩ := ih st1
      simp only [flagLoop, hstep]
      constructor
      · rw [ih1]
        constructor
        · intro ⟨hnd, hall⟩
          refine ⟨?_, ?_⟩
          · rw [List.nodup_cons]
            refine ⟨?_, hnd⟩
            intro hmem
            have := (hall c hmem).2
            rw [hseen] at this
            simp at this
          · intro x hx
            simp only [List.mem_cons] at hx
            rcases hx with hx | hx
            · subst hx; exact ⟨hc1, hc2⟩
            · have := hall x hx
              refine ⟨this.1, ?_⟩
              have h2 := this.2
              rw [hseen] at h2
              simp only [Bool.or_eq_false_iff] at h2
              exact h2.1
        · intro ⟨hnd, hall⟩
          rw [List.nodup_cons] at hnd
          refine ⟨hnd.2, ?_⟩
          intro x hx
          have := hall x (by simp [hx])
          refine ⟨this.1, ?_⟩
          rw [hseen, this.2]
          have hne : x ≠ c := by intro h; subst h; exact hnd.1 hx
          simp [hne]
      · intro st' h
        obtain ⟨e1, e2⟩ := ih2 st' h
        refine ⟨by rw [e1, herr], ?_⟩
        intro d
        rw [e2, hseen]
        by_cases hd : d = c
        · subst hd; simp
        · have : (d == c) = false := by simp [hd]
          simp [this, hd]

/-! ### finder well-formedness -/

/-- What the protocol theorems assume about the opaque engine: matches lie inside the subject and
`f i` is the leftmost match at or after `i` (so it does not change while `i` moves up to its start). -/
structure Leftmost (f : Finder) (n : Nat) : Prop where
  ge : ∀ i r, f i = some r → i ≤ r.start
  inside : ∀ i r, f i = some r → r.start ≤ r.stop ∧ r.stop ≤ n
  stable : ∀ i r j, f i = some r → i ≤ j → j ≤ r.start → f j = some r
  none_up : ∀ i j, f i = none → i ≤ j → j ≤ n → f j = none

theorem specScan_nonsticky (f : Finder) (n : Nat) (hf : Leftmost f n) : ∀ (fuel i : Nat), i + fuel = n + 1 →
    specScan f false n fuel i = if i ≤ n then f i else none := by
  intro fuel
  induction fuel with
  | zero => intro i h; have : ¬ i ≤ n := by omega
            simp [specScan, this]
  | succ fuel ih =>
    intro i h
    have hin : i ≤ n := by omega
    have hnot : ¬ i > n := by omega
    simp only [specScan, hnot, if_false, hin, if_true]
    cases hfi : f i with
    | none =>
      simp only [matchAt, hfi]
      rw [ih (i + 1) (by omega)]
      simp only [Bool.false_eq_true, if_false]
      by_cases h2 : i + 1 ≤ n
      · simp only [h2, if_true]; exact hf.none_up i (i + 1) hfi (by omega) h2
      · simp [h2]
    | some r =>
      simp only [matchAt, hfi]
      by_cases hs : r.start = i
      · simp [hs]
      · have hge := hf.ge i r hfi
        have hin2 := hf.inside i r hfi
        have : (r.start == i) = false := by simp [hs]
        simp only [this]
        rw [ih (i + 1) (by omega)]
        have h3 : i + 1 ≤ n := by omega
        simp only [h3, if_true, Bool.false_eq_true, if_false]
        exact hf.stable i r (i + 1) hfi (by omega) (by omega)


/-- The match-and-filter core of `execRegexp`. -/
def execCore (sticky : Bool) (f : Finder) (n index : Nat) : Option MatchR :=
  match (if index ≤ n then f index else none) with
  | some r => if !sticky || r.start == index then some r else none
  | none => none

theorem execRegexp_core (fl : RFlags) (f : Finder) (n li : Nat) :
    execRegexp fl f n li =
      (execCore fl.sticky f n (getLastIndex fl li),
       if fl.global || fl.sticky then
         (match execCore fl.sticky f n (getLastIndex fl li) with | some r => r.stop | none => 0) else li) := rfl

theorem getLastIndex_eq (fl : RFlags) (li : Nat) :
    getLastIndex fl li = if fl.global || fl.sticky then li else 0 := by
  obtain ⟨g, y, u⟩ := fl
  cases g <;> cases y <;> simp [getLastIndex]

theorem execCore_eq_specScan (y : Bool) (f : Finder) (n : Nat) (hf : Leftmost f n) (index : Nat) :
    execCore y f n index = specScan f y n (n + 1 - index) index := by
  by_cases hin : index ≤ n
  · cases y with
    | false =>
      rw [specScan_nonsticky f n hf (n + 1 - index) index (by omega)]
      simp only [execCore, hin, if_true]
      cases hfi : f index <;> simp
    | true =>
      have hfuel : n + 1 - index = (n - index) + 1 := by omega
      have hnot : ¬ index > n := by omega
      rw [hfuel]
      simp only [execCore, specScan, hnot, if_false, hin, if_true, matchAt]
      cases hfi : f index with
      | none => simp
      | some r => by_cases hs : r.start = index <;> simp [hs]
  · have hfuel : n + 1 - index = 0 := by omega
    rw [hfuel]
    simp [execCore, hin, specScan]

/-! ### UTF-8 position map -/

/-- UTF-8 offset of the boundary after the first k runes. -/
def pre8 (l : List (Nat × Nat)) (k : Nat) : Nat := ((l.take k).map (fun p => utf8Len p.1)).sum

theorem utf8Len_pos (r : Nat) : 1 ≤ utf8Len r := by
  unfold utf8Len; split <;> (try omega); split <;> (try omega); split <;> omega

theorem pre8_cons (r sz : Nat) (l : List (Nat × Nat)) (k : Nat) :
    pre8 ((r, sz) :: l) (k + 1) = utf8Len r + pre8 l k := by
  simp [pre8]

theorem pre8_pos : ∀ (l : List (Nat × Nat)) (k : Nat), 1 ≤ k → k ≤ l.length → 1 ≤ pre8 l k := by
  intro l
  induction l with
  | nil => intro k h1 h2; simp at h2; omega
  | cons p l ih =>
    intro k h1 h2
    obtain ⟨r, sz⟩ := p
    cases k with
    | zero => omega
    | succ k => rw [pre8_cons]; have := utf8Len_pos r; omega

theorem searchSrc_utf8Loop : ∀ (l : List (Nat × Nat)) (s u k : Nat), 1 ≤ k → k ≤ l.length →
    searchSrc (utf8Loop l s u) (u + pre8 l k) = some (u + pre8 l k, s + totalSize (l.take k)) := by
  intro l
  induction l with
  | nil => intro s u k h1 h2; simp at h2; omega
  | cons p l ih =>
    intro s u k h1 h2
    obtain ⟨r, sz⟩ := p
    cases k with
    | zero => omega
    | succ k =>
      simp only [utf8Loop, searchSrc, pre8_cons, List.take_succ_cons, totalSize_cons]
      cases k with
      | zero =>
        have h0 : pre8 l 0 = 0 := by simp [pre8]
        simp [h0, totalSize]
      | succ k =>
        simp only [List.length_cons] at h2
        have hpos := pre8_pos l (k + 1) (by omega) (by omega)
        have hlt : ¬ (u + utf8Len r ≥ u + (utf8Len r + pre8 l (k + 1))) := by omega
        simp only [hlt, if_false]
        have := ih (s + sz) (u + utf8Len r) (k + 1) (by omega) (by omega)
        have e1 : u + utf8Len r + pre8 l (k + 1) = u + (utf8Len r + pre8 l (k + 1)) := by omega
        have e2 : s + sz + totalSize (l.take (k + 1)) = s + (sz + totalSize (l.take (k + 1))) := by omega
        rw [e1, e2] at this
        exact this

theorem strictDecode_eq_decode : ∀ (units : List Nat) (l : List (Nat × Nat)),
    strictDecode units = some l → l = decode units := by
  intro units
  fun_induction decode units with
  | case1 => intro l h; simp [strictDecode] at h; first | exact h | exact h.symm
  | case2 c =>
    intro l h
    simp only [strictDecode] at h
    split at h
    · simp at h
    · split at h
      · simp at h
      · simp [strictDecode] at h; first | exact h | exact h.symm
  | case3 c d rest hp ih =>
    intro l h
    simp only [Bool.and_eq_true] at hp
    simp only [strictDecode, hp.1, hp.2, if_true] at h
    cases hr : strictDecode rest with
    | none => rw [hr] at h; simp at h
    | some l' =>
      rw [hr] at h; simp at h
      rw [← h, ih l' hr]
  | case4 c d rest hp ih =>
    intro l h
    simp only [strictDecode] at h
    by_cases hc : isHi c = true
    · have hd : isLo d = false := by
        cases hd : isLo d
        · rfl
        · exact absurd (by simp [hc, hd]) hp
      simp [hc, hd] at h
    · simp only [hc, Bool.false_eq_true, if_false] at h
      split at h
      · simp at h
      · cases hr : strictDecode (d :: rest) with
        | none => rw [hr] at h; simp at h
        | some l' =>
          rw [hr] at h; simp at h
          rw [← h, ih l' hr]

/-! ### replace: fast accumulation = generic accumulation -/

def rS (r : List Int) : Nat := (r.getD 0 0).toNat
def rE (r : List Int) : Nat := (r.getD 1 0).toNat

/-- raw results are in order, non-overlapping and inside the subject. -/
def Ordered (n : Nat) : List (List Int) → Nat → Prop
  | [], li => li ≤ n
  | r :: rest, li => li ≤ rS r ∧ rS r ≤ rE r ∧ Ordered n rest (rE r)

theorem sub_self (units : List Nat) (a : Nat) : sub units a a = [] := by simp [sub]

theorem sub_all (units : List Nat) : sub units 0 units.length = units := by simp [sub]

theorem copy_piece (units : List Nat) (x li : Nat) (buf : List Nat) :
    (if (x != li) = true then buf ++ sub units li x else buf) = buf ++ sub units li x := by
  by_cases he : x = li
  · subst he; simp [sub_self]
  · simp [he]

theorem fastReplaceLoop_eq (units : List Nat) (repl : List Int → List Nat) (n : Nat) :
    ∀ (raw : List (List Int)) (li : Nat) (buf : List Nat), Ordered n raw li →
      fastReplaceLoop units repl raw li buf =
        genericReplaceLoop units (raw.map (fun r => (rS r, rE r - rS r, repl r))) li buf ∧
      (fastReplaceLoop units repl raw li buf).2 ≤ n := by
  intro raw
  induction raw with
  | nil => intro li buf h; simp [fastReplaceLoop, genericReplaceLoop]; exact h
  | cons r rest ih =>
    intro li buf h
    obtain ⟨h1, h2, h3⟩ := h
    simp only [fastReplaceLoop, List.map_cons, genericReplaceLoop]
    have hge : rS r ≥ li := h1
    have hsum : rS r + (rE r - rS r) = rE r := by omega
    simp only [hge, if_true, hsum]
    have hbuf := copy_piece units (r.getD 0 0).toNat li buf
    rw [hbuf]
    have := ih (rE r) (buf ++ sub units li (rS r) ++ repl r) h3
    exact this


/-! ### Go's FindAll sweep vs the protocol's sweep; exec's lowerBound rule -/


/-- no empty match starts exactly where the previous match ended -/
def NoAdjEmpty : List MatchR → Option Nat → Prop
  | [], _ => True
  | r :: rest, prev => ¬ (r.stop = r.start ∧ prev = some r.start) ∧ NoAdjEmpty rest (some r.stop)

theorem goAllLoop_eq_ideal (fl : RFlags) (f : Finder) (units : List Nat) : ∀ (fuel pos : Nat) (prev : Option Nat),
    NoAdjEmpty (idealAllLoop fl f units false fuel pos none) prev →
    goAllLoopU fl f units fuel pos prev = idealAllLoop fl f units false fuel pos none := by
  intro fuel
  induction fuel with
  | zero => intro pos prev _; rfl
  | succ fuel ih =>
    intro pos prev h
    simp only [goAllLoopU, idealAllLoop] at h ⊢
    by_cases hp : pos > units.length
    · simp [hp]
    · simp only [hp, if_false] at h ⊢
      cases hf : f pos with
      | none => rfl
      | some r =>
        rw [hf] at h
        have h12 : ((none : Option Nat) == some 1) = false := rfl
        simp only [Bool.false_and, Bool.false_eq_true, if_false, Option.map_none, h12, NoAdjEmpty] at h ⊢
        obtain ⟨h1, h2⟩ := h
        have hacc : (!(r.stop == r.start && prev == some r.start)) = true := by
          cases he : (r.stop == r.start) <;> cases hq : (prev == some r.start) <;> simp
          exact h1 ⟨by simpa using he, by simpa using hq⟩
        simp only [hacc, if_true]
        rw [ih _ _ h2]



/-- captures are unset (−1) or listed in order: each defined capture ends at or after the start of the previous
defined one — the situation in which exec's `lowerBound` rule (regexp.go execResultToArray) hides nothing -/
def CapsWF : List Int → Nat → Prop
  | s :: e :: rest, lower => (s = -1 ∧ CapsWF rest lower) ∨ (0 ≤ s ∧ (lower : Int) ≤ e ∧ CapsWF rest s.toNat)
  | _, _ => True

theorem captureVals_eq_plain (units : List Nat) : ∀ (idx : List Int) (lower : Nat), CapsWF idx lower →
    captureVals units idx lower = captureValsPlain units idx := by
  intro idx
  fun_induction captureValsPlain units idx with
  | case1 s e rest ih =>
    intro lower h
    simp only [CapsWF] at h
    rcases h with ⟨h1, h2⟩ | ⟨h1, h2, h3⟩
    · subst h1
      simp [captureVals, ih lower h2]
    · have hne : s ≠ -1 := by omega
      have hc : (decide (s ≥ 0) && decide (e ≥ (lower : Int))) = true := by simp [h1, h2]
      simp [captureVals, hc, hne, ih s.toNat h3]
  | case2 idx hnot =>
    intro lower _
    cases idx with
    | nil => simp [captureVals]
    | cons a t =>
      cases t with
      | nil => simp [captureVals]
      | cons b t' => exact absurd rfl (hnot a b t')


end GojaModel.C20
