/-
  C20 — `writeSubstitution` (index loop over the replacement template, builtin_regexp.go) refines
  GetSubstitution (ECMA-262 22.1.3.19.1, prefix consumption of templateRemainder).
-/
import GojaModel.C20.Lemmas
namespace GojaModel.C20

theorem drop_cons_getD (l : List Nat) (i : Nat) (h : i < l.length) : l.drop i = l.getD i 0 :: l.drop (i + 1) := by
  rw [List.drop_eq_getElem_cons h]
  simp [List.getD, List.getElem?_eq_getElem h]

theorem drop_nil_of_ge (l : List Nat) (i : Nat) (h : i ≥ l.length) : l.drop i = [] := by
  simp [List.drop_eq_nil_iff, h]

theorem getSub_nil (units position matched captures named) (fuel : Nat) :
    getSubstitution units position matched captures named fuel [] = [] := by
  cases fuel <;> rfl

/-- how the mechanism's callback sees the spec's namedCaptures -/
def mechNamed (ns : Option (List Nat → Option (List Nat))) : List Nat → Option (List Nat) :=
  fun ref => match ns with
    | none => none
    | some lk => some ((lk ref).getD [])

theorem findGt_spec (repl : List Nat) : ∀ (fuel j : Nat), repl.length - j + 1 ≤ fuel →
    findGt repl fuel j = (indexOfGt (repl.drop j)).map (· + j) := by
  intro fuel
  induction fuel with
  | zero => intro j h; omega
  | succ fuel ih =>
    intro j h
    simp only [findGt]
    by_cases hj : j ≥ repl.length
    · simp [hj, drop_nil_of_ge repl j hj, indexOfGt]
    · have hlt : j < repl.length := by omega
      rw [drop_cons_getD repl j hlt]
      simp only [hj, if_false, indexOfGt]
      generalize repl.getD j 0 = c
      by_cases hc : c = 62
      · subst hc; simp
      · have : (c == 62) = false := by simp [hc]
        simp only [this, Bool.false_eq_true, if_false]
        rw [ih (j + 1) (by omega)]
        cases indexOfGt (repl.drop (j + 1)) with
        | none => rfl
        | some g => simp; omega

theorem indexOfGt_lt : ∀ (l : List Nat) (g : Nat), indexOfGt l = some g → g < l.length := by
  intro l
  induction l with
  | nil => intro g h; simp [indexOfGt] at h
  | cons c rest ih =>
    intro g h
    simp only [indexOfGt] at h
    split at h
    · simp at h; subst h; simp
    · cases hr : indexOfGt rest with
      | none => rw [hr] at h; simp at h
      | some g' => rw [hr] at h; simp at h; subst h; have := ih g' hr; simp; omega

theorem cap_succ (matched : List Nat) (captures : List (Option (List Nat))) (k : Nat) (hk : 1 ≤ k) :
    ((some matched :: captures).getD k none) = captures.getD (k - 1) none := by
  obtain ⟨j, rfl⟩ : ∃ j, k = j + 1 := ⟨k - 1, by omega⟩
  simp


theorem twoDigits_drop (repl : List Nat) (i : Nat) :
    (match repl.drop i with | d :: _ => isDigit d | [] => false) = (decide (i < repl.length) && isDigit (repl.getD i 0)) := by
  by_cases h : i < repl.length
  · rw [drop_cons_getD repl i h]; simp [h]
  · rw [drop_nil_of_ge repl i (by omega)]; simp [h]

theorem headD_drop (repl : List Nat) (i : Nat) : (repl.drop i).headD 0 = repl.getD i 0 := by
  by_cases h : i < repl.length
  · rw [drop_cons_getD repl i h]; rfl
  · rw [drop_nil_of_ge repl i (by omega)]
    simp [List.getD, List.getElem?_eq_none (by omega : repl.length ≤ i)]

theorem drop1_drop (repl : List Nat) (i : Nat) : (repl.drop i).drop 1 = repl.drop (i + 1) := by
  rw [List.drop_drop]

theorem isDigit_ne36 (d : Nat) (h : isDigit d = true) : (d != 36) = true := by
  simp only [isDigit, Bool.and_eq_true, decide_eq_true_eq] at h
  simp; omega

theorem ble_false {a b : Nat} (h : ¬ a ≤ b) : Nat.ble a b = false := by
  cases h' : Nat.ble a b
  · rfl
  · exact absurd (Nat.le_of_ble_eq_true h') h

theorem ble_true {a b : Nat} (h : a ≤ b) : Nat.ble a b = true := Nat.ble_eq_true_of_le h

theorem getSub_lit (units : List Nat) (position : Nat) (matched : List Nat) (captures : List (Option (List Nat)))
    (ns : Option (List Nat → Option (List Nat))) (fuel c : Nat) (rest : List Nat) (h : (c != 36) = true) :
    getSubstitution units position matched captures ns (fuel + 1) (c :: rest) =
      c :: getSubstitution units position matched captures ns fuel rest := by
  simp [getSubstitution, h]

theorem subst_main (units : List Nat) (position : Nat) (matched : List Nat) (captures : List (Option (List Nat)))
    (ns : Option (List Nat → Option (List Nat))) (repl : List Nat) :
    ∀ (k i : Nat) (buf : List Nat) (fm fs : Nat), repl.length - i ≤ k → repl.length - i + 1 ≤ fm →
      repl.length - i + 1 ≤ fs →
      substLoop units position (some matched :: captures) (mechNamed ns) repl fm i buf =
        buf ++ getSubstitution units position matched captures ns fs (repl.drop i) := by
  intro k
  induction k with
  | zero =>
    intro i buf fm fs hk hfm hfs
    obtain ⟨f, rfl⟩ : ∃ f, fm = f + 1 := ⟨fm - 1, by omega⟩
    have hge : i ≥ repl.length := by omega
    simp [substLoop, hge, drop_nil_of_ge repl i hge, getSub_nil]
  | succ k ih =>
    intro i buf fm fs hk hfm hfs
    obtain ⟨f, rfl⟩ : ∃ f, fm = f + 1 := ⟨fm - 1, by omega⟩
    obtain ⟨s, rfl⟩ : ∃ s, fs = s + 1 := ⟨fs - 1, by omega⟩
    by_cases hge : i ≥ repl.length
    · simp [substLoop, hge, drop_nil_of_ge repl i hge, getSub_nil]
    · have hlt : i < repl.length := by omega
      rw [drop_cons_getD repl i hlt]
      simp only [substLoop, hge, if_false]
      generalize repl.getD i 0 = c
      by_cases h36 : c = 36
      · subst h36
        by_cases h1 : i + 1 < repl.length
        · -- "$" followed by at least one character
          rw [drop_cons_getD repl (i + 1) h1]
          have hc1 : ((36 : Nat) == 36 && decide (i + 1 < repl.length)) = true := by simp [h1]
          simp only [hc1, if_true, getSubstitution, bne_self_eq_false, Bool.false_eq_true, if_false]
          generalize repl.getD (i + 1) 0 = ch
          have IH2 := fun (b : List Nat) (fs' : Nat) (h : repl.length - (i + 2) + 1 ≤ fs') =>
            ih (i + 2) b f fs' (by omega) (by omega) h
          by_cases e1 : ch = 36
          · subst e1; simp only [beq_self_eq_true, if_true]
            rw [IH2 _ s (by omega)]; simp
          · have n1 : (ch == 36) = false := by simp [e1]
            simp only [n1, Bool.false_eq_true, if_false]
            by_cases e2 : ch = 96
            · subst e2; simp only [beq_self_eq_true, if_true]
              rw [IH2 _ s (by omega)]; simp
            · have n2 : (ch == 96) = false := by simp [e2]
              simp only [n2, Bool.false_eq_true, if_false]
              by_cases e3 : ch = 39
              · subst e3
                simp only [beq_self_eq_true, if_true, show ((39 : Nat) == 38) = false by decide, Bool.false_eq_true, if_false]
                rw [IH2 _ s (by omega)]
                simp only [List.getD_cons_zero, Option.getD_some]
                by_cases ht : position + matched.length < units.length
                · have : min (position + matched.length) units.length = position + matched.length := by omega
                  simp [ht, this]
                · have : min (position + matched.length) units.length = units.length := by omega
                  simp [ht, this, sub_self]
              · have n3 : (ch == 39) = false := by simp [e3]
                simp only [n3, Bool.false_eq_true, if_false]
                by_cases e4 : ch = 38
                · subst e4; simp only [beq_self_eq_true, if_true]
                  rw [IH2 _ s (by omega)]; simp
                · have n4 : (ch == 38) = false := by simp [e4]
                  simp only [n4, Bool.false_eq_true, if_false]
                  by_cases e5 : ch = 60
                  · -- "$<"
                    subst e5
                    have nd : isDigit 60 = false := by decide
                    simp only [beq_self_eq_true, if_true, nd, Bool.false_eq_true, if_false]
                    rw [findGt_spec repl (repl.length + 1) (i + 2) (by omega)]
                    cases hg : indexOfGt (repl.drop (i + 2)) with
                    | none =>
                      cases ns with
                      | none => simp only [Option.map_none]; rw [IH2 _ s (by omega)]; simp
                      | some lk => simp only [Option.map_none]; rw [IH2 _ s (by omega)]; simp
                    | some g =>
                      have hglt := indexOfGt_lt _ g hg
                      simp only [List.length_drop] at hglt
                      cases ns with
                      | none => simp only [Option.map_some, mechNamed]; rw [IH2 _ s (by omega)]; simp
                      | some lk =>
                        simp only [Option.map_some, mechNamed]
                        rw [ih (g + (i + 2) + 1) _ f s (by omega) (by omega) (by omega)]
                        have e1' : sub repl (i + 2) (g + (i + 2)) = (repl.drop (i + 2)).take g := by simp [sub]
                        have e2' : (repl.drop (i + 2)).drop (g + 1) = repl.drop (g + (i + 2) + 1) := by
                          rw [List.drop_drop]; congr 1; omega
                        rw [e1', e2']; simp
                  · have n5 : (ch == 60) = false := by simp [e5]
                    simp only [n5, Bool.false_eq_true, if_false]
                    rw [show i + 1 + 1 = i + 2 from rfl]
                    by_cases hd : isDigit ch = true
                    · -- "$n" / "$nn"
                      simp only [hd, Bool.true_and, if_true, List.length_cons, digitVal]
                      by_cases h2 : i + 2 < repl.length
                      · rw [drop_cons_getD repl (i + 2) h2]
                        have hfold : repl.getD (i + 2) 0 :: repl.drop (i + 2 + 1) = repl.drop (i + 2) :=
                          (drop_cons_getD repl (i + 2) h2).symm
                        generalize repl.getD (i + 2) 0 = d2 at hfold ⊢
                        simp only [h2, decide_true, Bool.true_and, List.headD_cons, List.drop_succ_cons, List.drop_zero]
                        have h12 : ((1 : Nat) == 2) = false := by decide
                        by_cases hv : ch - 48 < captures.length + 1
                        · simp only [hv, decide_true, if_true]
                          by_cases htwo : (isDigit d2 && Nat.ble ((ch - 48) * 10 + (d2 - 48)) captures.length) = true
                          · have htwo' : (isDigit d2 && decide ((ch - 48) * 10 + (d2 - 48) < captures.length + 1)) = true := by
                              simp only [Bool.and_eq_true, decide_eq_true_eq, Nat.ble_eq] at htwo ⊢
                              exact ⟨htwo.1, by omega⟩
                            have hdd : isDigit d2 = true := by
                              simp only [Bool.and_eq_true] at htwo; exact htwo.1
                            have hle : (ch - 48) * 10 + (d2 - 48) ≤ captures.length := by
                              simp only [Bool.and_eq_true, decide_eq_true_eq, Nat.ble_eq] at htwo; exact htwo.2
                            simp only [htwo, htwo', if_true, beq_self_eq_true]
                            by_cases hpos : (ch - 48) * 10 + (d2 - 48) > 0
                            · simp only [hpos, if_true]
                              rw [ih (i + 3) _ f s (by omega) (by omega) (by omega)]
                              have hin : (Nat.ble 1 ((ch - 48) * 10 + (d2 - 48)) && Nat.ble ((ch - 48) * 10 + (d2 - 48)) captures.length) = true := by
                                rw [ble_true (by omega), ble_true (by omega)]; rfl
                              simp only [hin, if_true]
                              rw [cap_succ matched captures _ (by omega)]
                              simp
                            · simp only [hpos, if_false]
                              have hne := isDigit_ne36 d2 hdd
                              rw [ih (i + 2) _ f (s + 1) (by omega) (by omega) (by omega), ← hfold,
                                getSub_lit units position matched captures ns s d2 _ hne]
                              have hin : (Nat.ble 1 ((ch - 48) * 10 + (d2 - 48)) && Nat.ble ((ch - 48) * 10 + (d2 - 48)) captures.length) = false := by
                                rw [ble_false (a := 1) (by omega)]; rfl
                              simp only [hin, Bool.false_eq_true, if_false]
                              simp
                          · have htwo' : (isDigit d2 && decide ((ch - 48) * 10 + (d2 - 48) < captures.length + 1)) = false := by
                              cases hdd : isDigit d2
                              · simp
                              · simp only [hdd, Bool.true_and, Nat.ble_eq] at htwo ⊢
                                simp only [decide_eq_false_iff_not]; omega
                            have htwo2 : (isDigit d2 && Nat.ble ((ch - 48) * 10 + (d2 - 48)) captures.length) = false :=
                              Bool.eq_false_iff.mpr htwo
                            simp only [htwo2, htwo', Bool.false_eq_true, if_false, h12]
                            rw [hfold]
                            by_cases hpos : ch - 48 > 0
                            · simp only [hpos, if_true]
                              rw [ih (i + 2) _ f s (by omega) (by omega) (by omega)]
                              have hin : (Nat.ble 1 (ch - 48) && Nat.ble (ch - 48) captures.length) = true := by
                                rw [ble_true (by omega), ble_true (by omega)]; rfl
                              simp only [hin, if_true]
                              rw [cap_succ matched captures _ (by omega)]
                              simp
                            · simp only [hpos, if_false]
                              rw [ih (i + 2) _ f s (by omega) (by omega) (by omega)]
                              have hin : (Nat.ble 1 (ch - 48) && Nat.ble (ch - 48) captures.length) = false := by
                                rw [ble_false (a := 1) (by omega)]; rfl
                              simp only [hin, Bool.false_eq_true, if_false]
                              simp
                        · -- digit larger than the number of captures: "$d" stays
                          simp only [hv, decide_false, Bool.false_eq_true, if_false]
                          have htwo2 : (isDigit d2 && Nat.ble ((ch - 48) * 10 + (d2 - 48)) captures.length) = false := by
                            rw [ble_false (a := (ch - 48) * 10 + (d2 - 48)) (by omega)]; simp
                          simp only [htwo2, Bool.false_eq_true, if_false, h12]
                          rw [hfold, ih (i + 2) _ f s (by omega) (by omega) (by omega)]
                          have hin : (Nat.ble 1 (ch - 48) && Nat.ble (ch - 48) captures.length) = false := by
                            rw [ble_false (a := ch - 48) (b := captures.length) (by omega)]; simp
                          simp only [hin, Bool.false_eq_true, if_false]
                          simp
                      · rw [drop_nil_of_ge repl (i + 2) (by omega)]
                        simp only [h2, decide_false, Bool.false_and, Bool.false_eq_true, if_false, List.headD_nil]
                        have h12 : ((1 : Nat) == 2) = false := by decide
                        simp only [h12, Bool.false_eq_true, if_false, getSub_nil, List.append_nil]
                        have hend : ∀ b, substLoop units position (some matched :: captures) (mechNamed ns) repl f (i + 2) b = b := by
                          intro b
                          rw [ih (i + 2) b f 1 (by omega) (by omega) (by omega), drop_nil_of_ge repl (i + 2) (by omega), getSub_nil]
                          simp
                        by_cases hv : ch - 48 < captures.length + 1
                        · simp only [hv, decide_true, if_true]
                          by_cases hpos : ch - 48 > 0
                          · simp only [hpos, if_true, hend]
                            have hin : (Nat.ble 1 (ch - 48) && Nat.ble (ch - 48) captures.length) = true := by
                              rw [ble_true (by omega), ble_true (by omega)]; rfl
                            simp only [hin, if_true]
                            rw [cap_succ matched captures _ (by omega)]
                          · simp only [hpos, if_false, hend]
                            have hin : (Nat.ble 1 (ch - 48) && Nat.ble (ch - 48) captures.length) = false := by
                              rw [ble_false (a := 1) (by omega)]; rfl
                            simp only [hin, Bool.false_eq_true, if_false]
                        · simp only [hv, decide_false, Bool.false_eq_true, if_false, hend]
                          have hin : (Nat.ble 1 (ch - 48) && Nat.ble (ch - 48) captures.length) = false := by
                            rw [ble_false (a := ch - 48) (b := captures.length) (by omega)]; simp
                          simp only [hin, Bool.false_eq_true, if_false]
                    · -- any other character: "$" stays, the character is copied
                      have hd' : isDigit ch = false := by simpa using hd
                      simp only [hd', Bool.false_and, Bool.false_eq_true, if_false]
                      obtain ⟨s', rfl⟩ : ∃ s', s = s' + 1 := ⟨s - 1, by omega⟩
                      have hne : (ch != 36) = true := by simp [e1]
                      simp only [getSubstitution, hne, if_true]
                      rw [IH2 _ s' (by omega)]; simp
        · -- "$" is the last character
          have hc1 : ((36 : Nat) == 36 && decide (i + 1 < repl.length)) = false := by simp [h1]
          simp only [hc1, Bool.false_eq_true, if_false]
          rw [ih (i + 1) _ f s (by omega) (by omega) (by omega)]
          simp [drop_nil_of_ge repl (i + 1) (by omega), getSub_nil, getSubstitution]
      · have hc1 : (c == 36 && decide (i + 1 < repl.length)) = false := by simp [h36]
        have hne : (c != 36) = true := by simp [h36]
        simp only [hc1, Bool.false_eq_true, if_false, getSubstitution, hne, if_true]
        rw [ih (i + 1) _ f s (by omega) (by omega) (by omega)]
        simp

end GojaModel.C20
