/-
  C20 — the conversion of astral characters (without the prevRune special case) preserves the code units a literal
  pattern matches.  (New in deepening round 2; imported by PreProps only when it builds.)
-/
import GojaModel.C20.PreLemmas
namespace GojaModel.C20.Pre

theorem denote_plain (c : Nat) (rest : List Nat) (h : c ≠ 92) :
    denote (c :: rest) = (denote rest).map (fun l => units c ++ l) := by
  rw [denote.eq_def]; simp [h]

theorem denote_bs_nil : denote [92] = none := by
  rw [denote.eq_def]; simp

theorem denote_esc (e : Nat) (rest : List Nat) (h : e ≠ 117) :
    denote (92 :: e :: rest) =
      if e = 92 ∨ e = 45 ∨ e > 0xFFFF then (denote rest).map (fun l => units e ++ l) else none := by
  rw [denote.eq_def]; simp [h]

theorem denote_hex (a b c d : Nat) (rest : List Nat) :
    (∃ x y z w, hexVal a = some x ∧ hexVal b = some y ∧ hexVal c = some z ∧ hexVal d = some w ∧
      denote (92 :: 117 :: a :: b :: c :: d :: rest) = (denote rest).map (fun l => (((x * 16 + y) * 16 + z) * 16 + w) :: l)) ∨
    denote (92 :: 117 :: a :: b :: c :: d :: rest) = none := by
  rw [denote.eq_def]
  simp only [ne_eq, not_true_eq_false, if_false, if_true]
  cases ha : hexVal a <;> cases hb : hexVal b <;> cases hc : hexVal c <;> cases hd : hexVal d <;> simp

theorem denote_u_short (rest : List Nat) (h : rest.length < 4) : denote (92 :: 117 :: rest) = none := by
  rw [denote.eq_def]
  simp only [ne_eq, not_true_eq_false, if_false, if_true]
  match rest, h with
  | [], _ => rfl
  | [_], _ => rfl
  | [_, _], _ => rfl
  | [_, _, _], _ => rfl
  | _ :: _ :: _ :: _ :: _, h => simp at h; omega

theorem hexVal_le (a x : Nat) (h : hexVal a = some x) : a ≤ 102 := by
  unfold hexVal at h
  split at h
  · omega
  · split at h
    · omega
    · split at h
      · omega
      · simp at h

theorem convSimple_small (c : Nat) (rest : List Nat) (h : c ≤ 0xFFFF) : convSimple (c :: rest) = c :: convSimple rest := by
  have : ¬ c > 0xFFFF := by omega
  simp [convSimple, this]

theorem denote_hex_some (a b c d x y z w : Nat) (rest : List Nat)
    (ha : hexVal a = some x) (hb : hexVal b = some y) (hc : hexVal c = some z) (hd : hexVal d = some w) :
    denote (92 :: 117 :: a :: b :: c :: d :: rest) = (denote rest).map (fun l => (((x * 16 + y) * 16 + z) * 16 + w) :: l) := by
  rw [denote.eq_def]
  simp [ha, hb, hc, hd]

theorem map_ne_none {α β : Type} (f : α → β) (o : Option α) (h : o.map f ≠ none) : o ≠ none := by
  cases o with
  | none => simp at h
  | some v => simp

theorem convSimple_denote : ∀ (n : Nat) (p : List Nat), p.length ≤ n → NoEscAstral p → (∀ r ∈ p, r ≤ 0x10FFFF) →
    denote p ≠ none → denote (convSimple p) = denote p := by
  intro n
  induction n with
  | zero =>
    intro p hl _ _ _
    have : p = [] := List.eq_nil_of_length_eq_zero (by omega)
    subst this; rfl
  | succ n ih =>
    intro p hl hne hmax hden
    cases p with
    | nil => rfl
    | cons c rest =>
      have hrest_max : ∀ r ∈ rest, r ≤ 0x10FFFF := fun r hr => hmax r (by simp [hr])
      have hrest_ne : NoEscAstral rest := noEsc_tail c rest hne
      simp only [List.length_cons] at hl
      by_cases hc : c = 92
      · subst hc
        cases rest with
        | nil => exact absurd denote_bs_nil hden
        | cons e rest2 =>
          have hr2_max : ∀ r ∈ rest2, r ≤ 0x10FFFF := fun r hr => hrest_max r (by simp [hr])
          have hr2_ne : NoEscAstral rest2 := noEsc_tail e rest2 hrest_ne
          have hhead := noEsc_head e 92 rest2 hne
          simp only [List.length_cons] at hl
          by_cases he : e = 117
          · subst he
            by_cases hshort : rest2.length < 4
            · exact absurd (denote_u_short rest2 hshort) hden
            · match rest2, hshort, hr2_max, hr2_ne, hl, hden, hne with
              | a :: b :: c' :: d :: rest3, _, hr2_max, hr2_ne, hl, hden, hne =>
                rcases denote_hex a b c' d rest3 with ⟨x, y, z, w, ha, hb, hcc, hd, heq⟩ | hnone
                · have la := hexVal_le a x ha
                  have lb := hexVal_le b y hb
                  have lc := hexVal_le c' z hcc
                  have ld := hexVal_le d w hd
                  have e3_ne : NoEscAstral rest3 :=
                    noEsc_tail d rest3 (noEsc_tail c' _ (noEsc_tail b _ (noEsc_tail a _ hr2_ne)))
                  have e3_max : ∀ r ∈ rest3, r ≤ 0x10FFFF := fun r hr => hr2_max r (by simp [hr])
                  rw [convSimple_small 92 _ (by omega), convSimple_small 117 _ (by omega), convSimple_small a _ (by omega),
                    convSimple_small b _ (by omega), convSimple_small c' _ (by omega), convSimple_small d _ (by omega)]
                  rw [denote_hex_some a b c' d x y z w _ ha hb hcc hd, heq]
                  rw [heq] at hden
                  simp only [List.length_cons] at hl
                  rw [ih rest3 (by omega) e3_ne e3_max (map_ne_none _ _ hden)]
                · exact absurd hnone hden
              | [], h, _, _, _, _, _ => simp at h
              | [_], h, _, _, _, _, _ => simp at h
              | [_, _], h, _, _, _, _, _ => simp at h
              | [_, _, _], h, _, _, _, _, _ => simp at h
          · rw [denote_esc e rest2 he] at hden ⊢
            by_cases hcond : e = 92 ∨ e = 45 ∨ e > 0xFFFF
            · have hsmall : e ≤ 0xFFFF := by
                rcases hcond with h | h | h
                · omega
                · omega
                · exact absurd ⟨rfl, h⟩ hhead
              simp only [hcond, if_true] at hden ⊢
              rw [convSimple_small 92 _ (by omega), convSimple_small e _ hsmall, denote_esc e _ he]
              simp only [hcond, if_true]
              rw [ih rest2 (by omega) hr2_ne hr2_max (map_ne_none _ _ hden)]
            · simp [hcond] at hden
      · rw [denote_plain c rest hc] at hden ⊢
        have ihr := ih rest (by omega) hrest_ne hrest_max (map_ne_none _ _ hden)
        by_cases hca : c > 0xFFFF
        · have : convSimple (c :: rest) = escText c ++ convSimple rest := by simp [convSimple, hca]
          rw [this, denote_escText c hca (hmax c (by simp)), ihr]
        · rw [convSimple_small c rest (by omega), denote_plain c _ hc, ihr]

end GojaModel.C20.Pre
