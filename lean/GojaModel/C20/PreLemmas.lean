/-
  C20 — lemmas about the pattern pre-processing model (Pre.lean).
-/
import GojaModel.C20.Pre
namespace GojaModel.C20.Pre

theorem hexDigitChar_le (d : Nat) (h : d < 16) : hexDigitChar d ≤ 0xFFFF := by
  unfold hexDigitChar; split <;> omega

theorem hexVal_hexDigitChar (d : Nat) (h : d < 16) : hexVal (hexDigitChar d) = some d := by
  unfold hexDigitChar hexVal
  by_cases h10 : d < 10
  · have : 48 ≤ 48 + d ∧ 48 + d ≤ 57 := by omega
    simp [h10, this]
  · have h1 : ¬ (48 ≤ 87 + d ∧ 87 + d ≤ 57) := by omega
    have h2 : 97 ≤ 87 + d ∧ 87 + d ≤ 102 := by omega
    simp [h10, h1, h2]

theorem writeHex4_le (v : Nat) : ∀ x ∈ writeHex4 v, x ≤ 0xFFFF := by
  intro x hx
  simp only [writeHex4, List.mem_cons, List.not_mem_nil, or_false] at hx
  rcases hx with h | h | h | h <;> subst h <;> exact hexDigitChar_le _ (Nat.mod_lt _ (by omega))

theorem bu_le : ∀ x ∈ ([92, 117] : List Nat), x ≤ 0xFFFF := by
  intro x hx
  simp only [List.mem_cons, List.not_mem_nil, or_false] at hx
  rcases hx with h | h <;> omega

theorem escText_le (r : Nat) : ∀ x ∈ escText r, x ≤ 0xFFFF := by
  intro x hx
  unfold escText at hx
  rw [List.mem_append, List.mem_append, List.mem_append] at hx
  rcases hx with ((h | h) | h) | h
  · exact bu_le x h
  · exact writeHex4_le _ x h
  · exact bu_le x h
  · exact writeHex4_le _ x h

/-- the converted pattern contains no character above U+FFFF -/
theorem convertLoop_bmp : ∀ (p : List Nat) (prev : Nat), ∀ x ∈ convertLoop p prev, x ≤ 0xFFFF := by
  intro p
  induction p with
  | nil => intro prev x hx; simp [convertLoop] at hx
  | cons r rest ih =>
    intro prev x hx
    simp only [convertLoop] at hx
    split at hx
    · simp only [List.mem_append] at hx
      rcases hx with (hx | hx) | hx
      · split at hx
        · simp at hx; omega
        · simp at hx
      · exact escText_le r x hx
      · exact ih r x hx
    · simp only [List.mem_cons] at hx
      rcases hx with hx | hx
      · omega
      · exact ih r x hx

/-- on a pattern without characters above U+FFFF the conversion is the identity -/
theorem convertLoop_id : ∀ (p : List Nat) (prev : Nat), (∀ x ∈ p, x ≤ 0xFFFF) → convertLoop p prev = p := by
  intro p
  induction p with
  | nil => intro _ _; rfl
  | cons r rest ih =>
    intro prev h
    have hr : ¬ r > 0xFFFF := by have := h r (by simp); omega
    simp only [convertLoop, hr, if_false]
    rw [ih r (fun x hx => h x (by simp [hx]))]

theorem noEsc_tail (a : Nat) (l : List Nat) (h : NoEscAstral (a :: l)) : NoEscAstral l := by
  cases l with
  | nil => simp [NoEscAstral]
  | cons b rest => simp only [NoEscAstral] at h; exact h.2

theorem noEsc_head (r prev : Nat) (rest : List Nat) (h : NoEscAstral (prev :: r :: rest)) :
    ¬ (prev = 92 ∧ r > 0xFFFF) := by
  simp only [NoEscAstral] at h
  exact h.1

theorem convertLoop_cons (r prev : Nat) (rest : List Nat) :
    convertLoop (r :: rest) prev =
      (if r > 0xFFFF then (if prev = 92 then [92] else []) ++ escText r ++ convertLoop rest r else r :: convertLoop rest r) := by
  simp only [convertLoop]

theorem convSimple_cons (r : Nat) (rest : List Nat) :
    convSimple (r :: rest) = (if r > 0xFFFF then escText r else [r]) ++ convSimple rest := by
  simp only [convSimple]

/-- without a backslash directly before an astral character the `prevRune` special case never fires -/
theorem convertLoop_eq_simple : ∀ (p : List Nat) (prev : Nat), NoEscAstral (prev :: p) →
    convertLoop p prev = convSimple p := by
  intro p
  induction p with
  | nil => intro _ _; rfl
  | cons r rest ih =>
    intro prev h
    have h1 := noEsc_head r prev rest h
    have h2 := noEsc_tail prev (r :: rest) h
    rw [convertLoop_cons, convSimple_cons, ih r h2]
    by_cases hr : r > 0xFFFF
    · have hp : ¬ prev = 92 := fun e => h1 ⟨e, hr⟩
      rw [if_pos hr, if_pos hr, if_neg hp, List.nil_append]
    · rw [if_neg hr, if_neg hr]
      rfl

theorem hex4_roundtrip (v : Nat) (hv : v < 65536) :
    ((((v / 4096 % 16) * 16 + v / 256 % 16) * 16 + v / 16 % 16) * 16 + v % 16) = v := by omega

/-- reading back one `\uXXXX` written by `writeHex4` -/
theorem denote_u (v : Nat) (hv : v < 65536) (rest : List Nat) :
    denote ([92, 117] ++ writeHex4 v ++ rest) = (denote rest).map (fun l => v :: l) := by
  have h1 := hexVal_hexDigitChar (v / 4096 % 16) (Nat.mod_lt _ (by omega))
  have h2 := hexVal_hexDigitChar (v / 256 % 16) (Nat.mod_lt _ (by omega))
  have h3 := hexVal_hexDigitChar (v / 16 % 16) (Nat.mod_lt _ (by omega))
  have h4 := hexVal_hexDigitChar (v % 16) (Nat.mod_lt _ (by omega))
  simp only [writeHex4, List.cons_append, List.nil_append]
  rw [denote]
  simp only [ne_eq, not_true_eq_false, if_false, if_true, h1, h2, h3, h4, hex4_roundtrip v hv]

theorem hi_lt (r : Nat) (h : r ≤ 0x10FFFF) : hi r < 65536 := by unfold hi; omega
theorem lo_lt (r : Nat) : lo r < 65536 := by unfold lo; omega

theorem denote_escText (r : Nat) (hr : r > 0xFFFF) (hmax : r ≤ 0x10FFFF) (rest : List Nat) :
    denote (escText r ++ rest) = (denote rest).map (fun l => units r ++ l) := by
  have e : escText r ++ rest = [92, 117] ++ writeHex4 (hi r) ++ ([92, 117] ++ writeHex4 (lo r) ++ rest) := by
    simp [escText]
  rw [e, denote_u _ (hi_lt r hmax), denote_u _ (lo_lt r)]
  cases denote rest <;> simp [units, hr]

end GojaModel.C20.Pre
