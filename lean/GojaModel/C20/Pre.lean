/-
  C20 — pattern pre-processing for non-unicode regexps: `convertRegexpToUtf16` (builtin_regexp.go:101-127).
  A pattern source is a list of runes (code points of the UTF-8 Go string).  Core Lean only (used by the driver).

  Mechanism: every rune above U+FFFF is replaced by the text `\uHHHH\uLLLL` of its surrogate pair, and a second
  backslash is inserted when the previous rune was a backslash (`prevRune == '\\'`).
  Spec side: `denote`, the code-unit sequence a LITERAL pattern (plain characters, `\\`, `\-`, `\uXXXX`, and — per
  ECMA-262 without the u flag, where the pattern is a sequence of code units — a backslash before an astral
  character = identity escape of its high surrogate followed by the literal low surrogate) matches.
-/
import GojaModel.Base.Proto
namespace GojaModel.C20.Pre

def hexDigitChar (d : Nat) : Nat := if d < 10 then 48 + d else 87 + d        -- '0'..'9', 'a'..'f'  (var hex = "0123456789abcdef")

/-- `writeHex4` (builtin_regexp.go:57) -/
def writeHex4 (v : Nat) : List Nat :=
  [hexDigitChar (v / 4096 % 16), hexDigitChar (v / 256 % 16), hexDigitChar (v / 16 % 16), hexDigitChar (v % 16)]

def hi (r : Nat) : Nat := 0xD800 + (r - 0x10000) / 0x400
def lo (r : Nat) : Nat := 0xDC00 + (r - 0x10000) % 0x400

/-- the text `\uHHHH\uLLLL` -/
def escText (r : Nat) : List Nat := [92, 117] ++ writeHex4 (hi r) ++ [92, 117] ++ writeHex4 (lo r)

/-- `convertRegexpToUtf16`, rune by rune, `prev` = prevRune (0 initially) -/
def convertLoop : List Nat → Nat → List Nat
  | [], _ => []
  | r :: rest, prev =>
    if r > 0xFFFF then (if prev = 92 then [92] else []) ++ escText r ++ convertLoop rest r
    else r :: convertLoop rest r

def convert16 (p : List Nat) : List Nat := convertLoop p 0

/-- the conversion without the `prevRune` special case -/
def convSimple : List Nat → List Nat
  | [] => []
  | r :: rest => (if r > 0xFFFF then escText r else [r]) ++ convSimple rest

def hexVal (c : Nat) : Option Nat :=
  if 48 ≤ c ∧ c ≤ 57 then some (c - 48)
  else if 97 ≤ c ∧ c ≤ 102 then some (c - 87)
  else if 65 ≤ c ∧ c ≤ 70 then some (c - 55)
  else none

def units (r : Nat) : List Nat := if r > 0xFFFF then [hi r, lo r] else [r]

/-- Code units matched by a literal pattern (no u flag); `none` = not in the literal fragment. -/
def denote : List Nat → Option (List Nat)
  | [] => some []
  | c :: rest =>
    if c ≠ 92 then (denote rest).map (fun l => units c ++ l)                    -- plain character
    else match rest with
      | [] => none                                                               -- trailing backslash
      | e :: rest2 =>
        if e = 117 then                                                          -- \uXXXX
          match rest2 with
          | a :: b :: c' :: d :: rest3 =>
            (match hexVal a, hexVal b, hexVal c', hexVal d with
             | some x, some y, some z, some w => (denote rest3).map (fun l => (((x * 16 + y) * 16 + z) * 16 + w) :: l)
             | _, _, _, _ => none)
          | _ => none
        else if e = 92 ∨ e = 45 ∨ e > 0xFFFF then (denote rest2).map (fun l => units e ++ l)   -- \\  \-  identity escape of an astral character
        else none

/-- no backslash stands directly before a rune above U+FFFF -/
def NoEscAstral : List Nat → Prop
  | [] => True
  | [_] => True
  | a :: b :: rest => ¬ (a = 92 ∧ b > 0xFFFF) ∧ NoEscAstral (b :: rest)

end GojaModel.C20.Pre
