/-
  C20 — property theorems about the pattern pre-processing for non-unicode regexps (`convertRegexpToUtf16`).
  Audited like Props.lean (run/c20.py audits both modules).
-/
import GojaModel.C20.PreLemmas
import GojaModel.C20.PreDenote
namespace GojaModel.C20.Pre

/-- The converted pattern never contains a character above U+FFFF: what reaches the engines in non-unicode mode is a
pattern over UTF-16 code units (for every input pattern). -/
theorem convert16_bmp (p : List Nat) : ∀ x ∈ convert16 p, x ≤ 0xFFFF :=
  convertLoop_bmp p 0

/-- Idempotence: converting a converted pattern changes nothing. -/
theorem convert16_idempotent (p : List Nat) : convert16 (convert16 p) = convert16 p :=
  convertLoop_id _ 0 (convert16_bmp p)

/-- When no backslash stands directly before an astral character the conversion is exactly "replace each astral
character by the text \uHHHH\uLLLL of its surrogate pair" … -/
theorem convert16_eq_simple (p : List Nat) (h : NoEscAstral (0 :: p)) : convert16 p = convSimple p :=
  convertLoop_eq_simple p 0 h

/-- … and that text denotes exactly the two code units of the character (the hex digits written by `writeHex4` read
back to the surrogate values), in front of any remaining pattern. -/
theorem escText_denotes_pair (r : Nat) (hr : r > 0xFFFF) (hmax : r ≤ 0x10FFFF) (rest : List Nat) :
    denote (escText r ++ rest) = (denote rest).map (fun l => units r ++ l) :=
  denote_escText r hr hmax rest

/-- Main statement: for every literal pattern (plain characters, `\\\\`, `\\-`, `\\uXXXX`, astral characters) in which
no backslash stands directly before an astral character, the pattern that reaches the engines denotes EXACTLY the same
UTF-16 code-unit sequence as the source (unbounded: every length, every mix; induction on the pattern with the hex
digits of `writeHex4` read back). The excluded case is precisely the known finding below. -/
theorem convert16_preserves_denotation (p : List Nat) (h : NoEscAstral (0 :: p)) (hmax : ∀ r ∈ p, r ≤ 0x10FFFF)
    (hd : denote p ≠ none) : denote (convert16 p) = denote p := by
  rw [convert16_eq_simple p h]
  exact convSimple_denote p.length p (Nat.le_refl _) (noEsc_tail 0 p h) hmax hd

/-- DEFECT witness (known finding `pre:escaped-astral-nonunicode`): an escaped astral character. By ECMA-262 (no u flag:
the pattern is a sequence of code units) /\😀/ is an identity escape of the high surrogate followed by the low one and
matches "😀"; the converted pattern is `\\` `😀` and matches a backslash followed by "😀". -/
theorem convert16_escaped_astral_witness :
    denote [92, 0x1F600] = some [0xD83D, 0xDE00] ∧
    denote (convert16 [92, 0x1F600]) = some [92, 0xD83D, 0xDE00] := by
  constructor <;> decide

/-- DEFECT witness, other parity: /\\😀/ (escaped backslash, then the character) should match "\😀"; the converted
pattern is `\\` `\\` `uD83D` `\uDE00` and matches the text "\\uD83D" followed by the low surrogate. -/
theorem convert16_backslash_astral_witness :
    denote [92, 92, 0x1F600] = some [92, 0xD83D, 0xDE00] ∧
    denote (convert16 [92, 92, 0x1F600]) = some [92, 92, 117, 100, 56, 51, 100, 0xDE00] := by
  constructor <;> decide

end GojaModel.C20.Pre
