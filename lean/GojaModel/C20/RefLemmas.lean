/-
  C20 — lemmas about the reference matcher (Ref.lean): the three engine-forcing rewrites are neutral, and every
  match lies inside the input.
-/
import GojaModel.C20.Ref
import GojaModel.C20.Lemmas
namespace GojaModel.C20.Ref
open GojaModel.C20

def emptyNode : Node := .seq []

/-- `(?=)(?:P)` -/
def variant1 (p : Node) : Node := .seq [.la false emptyNode, .grp 0 p]
/-- `(?:P)(?=)` -/
def variant2 (p : Node) : Node := .seq [.grp 0 p, .la false emptyNode]
/-- `(?:P|(?!))` -/
def variant3 (p : Node) : Node := .grp 0 (.alt [p, .la true emptyNode])

theorem run_empty (o : Opts) (inp : Array Nat) (n : Nat) (st : St) (k : St → Option St) :
    run o inp (n + 1) emptyNode st k = k st := by
  simp [run, emptyNode]

theorem run_la_empty (o : Opts) (inp : Array Nat) (n : Nat) (st : St) (k : St → Option St) :
    run o inp (n + 2) (.la false emptyNode) st k = k st := by
  simp [run, emptyNode]

theorem run_grp0 (o : Opts) (inp : Array Nat) (n : Nat) (p : Node) (st : St) (k : St → Option St) :
    run o inp (n + 1) (.grp 0 p) st k = run o inp n p st k := by
  simp [run]

theorem run_seq2 (o : Opts) (inp : Array Nat) (n : Nat) (a b : Node) (st : St) (k : St → Option St) :
    run o inp (n + 1) (.seq [a, b]) st k = run o inp n a st (fun s => run o inp n b s k) := by
  rw [run]; rfl

theorem run_alt2 (o : Opts) (inp : Array Nat) (n : Nat) (a b : Node) (st : St) (k : St → Option St) :
    run o inp (n + 1) (.alt [a, b]) st k =
      (match run o inp n a st k with | some r => some r | none => (match run o inp n b st k with | some r => some r | none => none)) := by
  rw [run]
  simp only [firstSome]
  cases run o inp n a st k <;> simp
  cases run o inp n b st k <;> rfl

theorem run_la_neg_empty (o : Opts) (inp : Array Nat) (n : Nat) (st : St) (k : St → Option St) :
    run o inp (n + 2) (.la true emptyNode) st k = none := by
  simp [run, emptyNode]

theorem neutral_v1 (o : Opts) (inp : Array Nat) (n : Nat) (p : Node) (st : St) (k : St → Option St) :
    run o inp (n + 3) (variant1 p) st k = run o inp (n + 1) p st k := by
  rw [variant1, run_seq2, run_la_empty, run_grp0]

theorem neutral_v2 (o : Opts) (inp : Array Nat) (n : Nat) (p : Node) (st : St) (k : St → Option St) :
    run o inp (n + 3) (variant2 p) st k = run o inp (n + 1) p st k := by
  rw [variant2, run_seq2, run_grp0]
  have : (fun s => run o inp (n + 2) (.la false emptyNode) s k) = k := by
    funext s; exact run_la_empty o inp n s k
  rw [this]

theorem neutral_v3 (o : Opts) (inp : Array Nat) (n : Nat) (p : Node) (st : St) (k : St → Option St) :
    run o inp (n + 4) (variant3 p) st k = run o inp (n + 2) p st k := by
  rw [variant3, run_grp0, run_alt2, run_la_neg_empty]
  cases run o inp (n + 2) p st k <;> rfl

/-- what a continuation-passing run guarantees about the state its continuation finally accepted -/
def Reaches (inp : Array Nat) (st : St) (k : St → Option St) (r : St) : Prop :=
  ∃ s', st.pos ≤ s'.pos ∧ s'.pos ≤ inp.size ∧ k s' = some r

theorem reaches_trans {inp : Array Nat} {st s1 : St} {k : St → Option St} {r : St}
    (h1 : st.pos ≤ s1.pos) (h : Reaches inp s1 k r) : Reaches inp st k r := by
  obtain ⟨s', a, b, c⟩ := h
  exact ⟨s', by omega, b, c⟩

theorem foldr_reaches (o : Opts) (inp : Array Nat) (fuel : Nat)
    (ih : ∀ (node : Node) (st : St) (k : St → Option St) (r : St), st.pos ≤ inp.size →
      run o inp fuel node st k = some r → Reaches inp st k r) :
    ∀ (ns : List Node) (st : St) (k : St → Option St) (r : St), st.pos ≤ inp.size →
      (ns.foldr (fun n kont => fun s => run o inp fuel n s kont) k) st = some r → Reaches inp st k r := by
  intro ns
  induction ns with
  | nil => intro st k r hp h; exact ⟨st, Nat.le_refl _, hp, h⟩
  | cons n ns ihn =>
    intro st k r hp h
    simp only [List.foldr] at h
    obtain ⟨s1, a, b, c⟩ := ih n st _ r hp h
    exact reaches_trans a (ihn s1 k r b c)

theorem firstSome_reaches (o : Opts) (inp : Array Nat) (fuel : Nat)
    (ih : ∀ (node : Node) (st : St) (k : St → Option St) (r : St), st.pos ≤ inp.size →
      run o inp fuel node st k = some r → Reaches inp st k r) :
    ∀ (ns : List Node) (st : St) (k : St → Option St) (r : St), st.pos ≤ inp.size →
      firstSome ns (fun n => run o inp fuel n st k) = some r → Reaches inp st k r := by
  intro ns
  induction ns with
  | nil => intro st k r hp h; simp [firstSome] at h
  | cons n ns ihn =>
    intro st k r hp h
    simp only [firstSome] at h
    cases hn : run o inp fuel n st k with
    | some r' => rw [hn] at h; simp at h; subst h; exact ih n st k r' hp hn
    | none => rw [hn] at h; exact ihn st k r hp h

theorem one_reaches (inp : Array Nat) (st : St) (k : St → Option St) (r : St) (test : Nat → Bool)
    (h : (if st.pos < inp.size && test inp[st.pos]! then k { st with pos := st.pos + 1 } else none) = some r) :
    Reaches inp st k r := by
  split at h
  · rename_i hc
    simp only [Bool.and_eq_true, decide_eq_true_eq] at hc
    exact ⟨{ st with pos := st.pos + 1 }, by simp, by simp; omega, h⟩
  · simp at h

/-- Every successful run hands its continuation a state whose position lies between the starting position and
the end of the input. -/
theorem run_reaches (o : Opts) (inp : Array Nat) : ∀ (fuel : Nat) (node : Node) (st : St) (k : St → Option St) (r : St),
    st.pos ≤ inp.size → run o inp fuel node st k = some r → Reaches inp st k r := by
  intro fuel
  induction fuel with
  | zero => intro node st k r _ h; simp [run] at h
  | succ fuel ih =>
    intro node st k r hp h
    cases node with
    | chr cp => simp only [run] at h; exact one_reaches inp st k r _ h
    | dot => simp only [run] at h; exact one_reaches inp st k r (fun c => o.dotAll || !isLineTerm c) h
    | esc x => simp only [run] at h; exact one_reaches inp st k r _ h
    | cls neg items =>
      simp only [run] at h
      exact one_reaches inp st k r (fun c => (setMatch o (fun d => items.any (fun it => itemMatch it d)) c) != neg) h
    | wb neg =>
      simp only [run] at h
      split at h
      · exact ⟨st, Nat.le_refl _, hp, h⟩
      · simp at h
    | bol =>
      simp only [run] at h
      split at h
      · exact ⟨st, Nat.le_refl _, hp, h⟩
      · simp at h
    | eol =>
      simp only [run] at h
      split at h
      · exact ⟨st, Nat.le_refl _, hp, h⟩
      · simp at h
    | grp idx n =>
      simp only [run] at h
      obtain ⟨s2, a, b, c⟩ := ih n st _ r hp h
      refine ⟨_, ?_, ?_, c⟩
      · split <;> simpa using a
      · split <;> simpa using b
    | seq ns => simp only [run] at h; exact foldr_reaches o inp fuel ih ns st k r hp h
    | alt ns => simp only [run] at h; exact firstSome_reaches o inp fuel ih ns st k r hp h
    | la neg n =>
      simp only [run] at h
      cases hn : run o inp fuel n st (fun s => some s) with
      | some r0 =>
        rw [hn] at h
        simp only at h
        split at h
        · simp at h
        · exact ⟨{ st with caps := r0.caps }, by simp, by simpa using hp, h⟩
      | none =>
        rw [hn] at h
        simp only at h
        split at h
        · exact ⟨st, Nat.le_refl _, hp, h⟩
        · simp at h
    | q min max lazy firstCap nCaps n =>
      simp only [run] at h
      split at h
      · exact ⟨st, Nat.le_refl _, hp, h⟩
      · -- the iteration continuation
        have hd : ∀ (st' : St), st'.pos = st.pos → ∀ r', run o inp fuel n st'
            (fun st2 =>
              if (!o.perlLoops && min == 0 && st2.pos == st.pos) = true then none
              else if (o.perlLoops && st2.pos == st.pos) = true then k st2
              else run o inp fuel (.q (min - 1) (max.map (· - 1)) lazy firstCap nCaps n) st2 k) = some r' →
            Reaches inp st k r' := by
          intro st' hst r' hr
          obtain ⟨s2, a, b, c⟩ := ih n st' _ r' (by omega) hr
          simp only at c
          split at c
          · simp at c
          · split at c
            · exact ⟨s2, by omega, b, c⟩
            · exact reaches_trans (by omega) (ih _ s2 k r' b c)
        split at h
        · exact hd _ (by split <;> rfl) r h
        · split at h
          · split at h
            · rename_i r1 hk; simp at h; subst h; exact ⟨st, Nat.le_refl _, hp, hk⟩
            · exact hd _ (by split <;> rfl) r h
          · split at h
            · rename_i r1 hk; simp at h; subst h; exact hd _ (by split <;> rfl) r1 hk
            · exact ⟨st, Nat.le_refl _, hp, h⟩

/-- Bounds of the reference matcher's own matches: a match found from input position `i` starts at some
`j ≥ i` and ends at `e` with `j ≤ e ≤ |input|`. -/
theorem findFrom_bounds (o : Opts) (inp : Array Nat) (ncaps : Nat) (node : Node) :
    ∀ (fuel i j : Nat) (r : St), findFrom o inp ncaps node fuel i = some (j, r) →
      i ≤ j ∧ j ≤ r.pos ∧ r.pos ≤ inp.size := by
  intro fuel
  induction fuel with
  | zero => intro i j r h; simp [findFrom] at h
  | succ fuel ih =>
    intro i j r h
    simp only [findFrom] at h
    split at h
    · simp at h
    · rename_i hi
      split at h
      · rename_i r0 hr
        simp at h
        obtain ⟨h1, h2⟩ := h
        subst h1 h2
        obtain ⟨s', a, b, c⟩ := run_reaches o inp _ node _ _ r0 (by simp; omega) hr
        simp at c; subst c
        exact ⟨Nat.le_refl _, by simpa using a, b⟩
      · have := ih (i + 1) j r h
        omega


/-! ### captures stay inside the input -/


/-- every recorded capture is a span inside the input -/
def CapsIn (inp : Array Nat) (caps : List (Option (Nat × Nat))) : Prop :=
  ∀ c ∈ caps, ∀ a b, c = some (a, b) → a ≤ b ∧ b ≤ inp.size

theorem capsIn_set (inp : Array Nat) (caps : List (Option (Nat × Nat))) (i : Nat) (v : Option (Nat × Nat))
    (h : CapsIn inp caps) (hv : ∀ a b, v = some (a, b) → a ≤ b ∧ b ≤ inp.size) : CapsIn inp (caps.set i v) := by
  intro c hc a b hcab
  rcases List.mem_or_eq_of_mem_set hc with h1 | h1
  · exact h c h1 a b hcab
  · subst h1; exact hv a b hcab

theorem capsIn_clear (inp : Array Nat) (first : Nat) : ∀ (n : Nat) (caps : List (Option (Nat × Nat))),
    CapsIn inp caps → CapsIn inp (clearCaps caps first n) := by
  intro n caps h
  unfold clearCaps
  generalize List.range n = l
  induction l generalizing caps with
  | nil => simpa using h
  | cons j l ih =>
    simp only [List.foldl]
    exact ih _ (capsIn_set inp caps _ none h (by intro a b hh; simp at hh))

def Reaches2 (inp : Array Nat) (st : St) (k : St → Option St) (r : St) : Prop :=
  ∃ s', st.pos ≤ s'.pos ∧ s'.pos ≤ inp.size ∧ CapsIn inp s'.caps ∧ k s' = some r

theorem reaches2_trans {inp : Array Nat} {st s1 : St} {k : St → Option St} {r : St}
    (h1 : st.pos ≤ s1.pos) (h : Reaches2 inp s1 k r) : Reaches2 inp st k r := by
  obtain ⟨s', a, b, c, d⟩ := h
  exact ⟨s', by omega, b, c, d⟩

abbrev IH2 (o : Opts) (inp : Array Nat) (fuel : Nat) : Prop :=
  ∀ (node : Node) (st : St) (k : St → Option St) (r : St), st.pos ≤ inp.size → CapsIn inp st.caps →
      run o inp fuel node st k = some r → Reaches2 inp st k r

theorem foldr_reaches2 (o : Opts) (inp : Array Nat) (fuel : Nat) (ih : IH2 o inp fuel) :
    ∀ (ns : List Node) (st : St) (k : St → Option St) (r : St), st.pos ≤ inp.size → CapsIn inp st.caps →
      (ns.foldr (fun n kont => fun s => run o inp fuel n s kont) k) st = some r → Reaches2 inp st k r := by
  intro ns
  induction ns with
  | nil => intro st k r hp hc h; exact ⟨st, Nat.le_refl _, hp, hc, h⟩
  | cons n ns ihn =>
    intro st k r hp hc h
    simp only [List.foldr] at h
    obtain ⟨s1, a, b, c, d⟩ := ih n st _ r hp hc h
    exact reaches2_trans a (ihn s1 k r b c d)

theorem firstSome_reaches2 (o : Opts) (inp : Array Nat) (fuel : Nat) (ih : IH2 o inp fuel) :
    ∀ (ns : List Node) (st : St) (k : St → Option St) (r : St), st.pos ≤ inp.size → CapsIn inp st.caps →
      firstSome ns (fun n => run o inp fuel n st k) = some r → Reaches2 inp st k r := by
  intro ns
  induction ns with
  | nil => intro st k r hp hc h; simp [firstSome] at h
  | cons n ns ihn =>
    intro st k r hp hc h
    simp only [firstSome] at h
    cases hn : run o inp fuel n st k with
    | some r' => rw [hn] at h; simp at h; subst h; exact ih n st k r' hp hc hn
    | none => rw [hn] at h; exact ihn st k r hp hc h

theorem one_reaches2 (inp : Array Nat) (st : St) (k : St → Option St) (r : St) (test : Nat → Bool) (hc : CapsIn inp st.caps)
    (h : (if st.pos < inp.size && test inp[st.pos]! then k { st with pos := st.pos + 1 } else none) = some r) :
    Reaches2 inp st k r := by
  split at h
  · rename_i hcond
    simp only [Bool.and_eq_true, decide_eq_true_eq] at hcond
    exact ⟨{ st with pos := st.pos + 1 }, by simp, by simp; omega, hc, h⟩
  · simp at h

theorem run_reaches2 (o : Opts) (inp : Array Nat) : ∀ (fuel : Nat), IH2 o inp fuel := by
  intro fuel
  induction fuel with
  | zero => intro node st k r _ _ h; simp [run] at h
  | succ fuel ih =>
    intro node st k r hp hc h
    cases node with
    | chr cp => simp only [run] at h; exact one_reaches2 inp st k r _ hc h
    | dot => simp only [run] at h; exact one_reaches2 inp st k r (fun c => o.dotAll || !isLineTerm c) hc h
    | esc x => simp only [run] at h; exact one_reaches2 inp st k r _ hc h
    | cls neg items =>
      simp only [run] at h
      exact one_reaches2 inp st k r (fun c => (setMatch o (fun d => items.any (fun it => itemMatch it d)) c) != neg) hc h
    | wb neg =>
      simp only [run] at h
      split at h
      · exact ⟨st, Nat.le_refl _, hp, hc, h⟩
      · simp at h
    | bol =>
      simp only [run] at h
      split at h
      · exact ⟨st, Nat.le_refl _, hp, hc, h⟩
      · simp at h
    | eol =>
      simp only [run] at h
      split at h
      · exact ⟨st, Nat.le_refl _, hp, hc, h⟩
      · simp at h
    | grp idx n =>
      simp only [run] at h
      obtain ⟨s2, a, b, c, d⟩ := ih n st _ r hp hc h
      refine ⟨_, ?_, ?_, ?_, d⟩
      · split <;> simpa using a
      · split <;> simpa using b
      · split
        · exact capsIn_set inp s2.caps idx _ c (by intro x y hxy; simp at hxy; omega)
        · exact c
    | seq ns => simp only [run] at h; exact foldr_reaches2 o inp fuel ih ns st k r hp hc h
    | alt ns => simp only [run] at h; exact firstSome_reaches2 o inp fuel ih ns st k r hp hc h
    | la neg n =>
      simp only [run] at h
      cases hn : run o inp fuel n st (fun s => some s) with
      | some r0 =>
        rw [hn] at h
        simp only at h
        split at h
        · simp at h
        · obtain ⟨s0, _, _, c0, d0⟩ := ih n st _ r0 hp hc hn
          simp at d0; subst d0
          exact ⟨{ st with caps := s0.caps }, by simp, by simpa using hp, c0, h⟩
      | none =>
        rw [hn] at h
        simp only at h
        split at h
        · exact ⟨st, Nat.le_refl _, hp, hc, h⟩
        · simp at h
    | q min max lazy firstCap nCaps n =>
      simp only [run] at h
      split at h
      · exact ⟨st, Nat.le_refl _, hp, hc, h⟩
      · have hd : ∀ (st' : St), st'.pos = st.pos → CapsIn inp st'.caps → ∀ r', run o inp fuel n st'
            (fun st2 =>
              if (!o.perlLoops && min == 0 && st2.pos == st.pos) = true then none
              else if (o.perlLoops && st2.pos == st.pos) = true then k st2
              else run o inp fuel (.q (min - 1) (max.map (· - 1)) lazy firstCap nCaps n) st2 k) = some r' →
            Reaches2 inp st k r' := by
          intro st' hst hc' r' hr
          obtain ⟨s2, a, b, c2, c⟩ := ih n st' _ r' (by omega) hc' hr
          simp only at c
          split at c
          · simp at c
          · split at c
            · exact ⟨s2, by omega, b, c2, c⟩
            · exact reaches2_trans (by omega) (ih _ s2 k r' b c2 c)
        have hclear : CapsIn inp (if o.perlLoops = true then st else { st with caps := clearCaps st.caps firstCap nCaps }).caps := by
          split
          · exact hc
          · exact capsIn_clear inp firstCap nCaps st.caps hc
        split at h
        · exact hd _ (by split <;> rfl) hclear r h
        · split at h
          · split at h
            · rename_i r1 hk; simp at h; subst h; exact ⟨st, Nat.le_refl _, hp, hc, hk⟩
            · exact hd _ (by split <;> rfl) hclear r h
          · split at h
            · rename_i r1 hk; simp at h; subst h; exact hd _ (by split <;> rfl) hclear r1 hk
            · exact ⟨st, Nat.le_refl _, hp, hc, h⟩

/-- Every capture of a match found by the reference matcher is a span a ≤ b ≤ |input|. -/
theorem findFrom_caps (o : Opts) (inp : Array Nat) (ncaps : Nat) (node : Node) :
    ∀ (fuel i j : Nat) (r : St), findFrom o inp ncaps node fuel i = some (j, r) → CapsIn inp r.caps := by
  intro fuel
  induction fuel with
  | zero => intro i j r h; simp [findFrom] at h
  | succ fuel ih =>
    intro i j r h
    simp only [findFrom] at h
    split at h
    · simp at h
    · rename_i hi
      split at h
      · rename_i r0 hr
        simp at h
        obtain ⟨h1, h2⟩ := h
        subst h1 h2
        have hinit : CapsIn inp (List.replicate (ncaps + 1) (none : Option (Nat × Nat))) := by
          intro c hcm a b hcab
          have := List.eq_of_mem_replicate hcm
          rw [this] at hcab; simp at hcab
        obtain ⟨s', _, _, c, d⟩ := run_reaches2 o inp _ node _ _ r0 (by simp; omega) hinit hr
        simp at d; subst d
        exact c
      · exact ih (i + 1) j r h



/-! ### the reference finder is leftmost-consistent -/


/-- one attempt at position i (the `run` call of `findFrom`) -/
def tryAt (o : Opts) (inp : Array Nat) (ncaps : Nat) (node : Node) (i : Nat) : Option St :=
  run o inp 100000 node { pos := i, caps := List.replicate (ncaps + 1) none } (fun s => some s)

theorem findFrom_step (o : Opts) (inp : Array Nat) (ncaps : Nat) (node : Node) (F i : Nat) :
    findFrom o inp ncaps node (F + 1) i =
      if i > inp.size then none
      else match tryAt o inp ncaps node i with
        | some r => some (i, r)
        | none => findFrom o inp ncaps node F (i + 1) := by
  simp only [findFrom, tryAt]
  split
  · rfl
  · split <;> simp_all

/-- with enough fuel to reach the end of the input the amount of fuel is irrelevant -/
theorem findFrom_enough (o : Opts) (inp : Array Nat) (ncaps : Nat) (node : Node) : ∀ (F F' i : Nat),
    inp.size + 2 - i ≤ F → inp.size + 2 - i ≤ F' →
    findFrom o inp ncaps node F i = findFrom o inp ncaps node F' i := by
  intro F
  induction F with
  | zero =>
    intro F' i h h'
    have hi : i > inp.size := by omega
    cases F' with
    | zero => rfl
    | succ k => rw [findFrom_step]; simp [hi, findFrom]
  | succ F ih =>
    intro F' i h h'
    cases F' with
    | zero =>
      have hi : i > inp.size := by omega
      rw [findFrom_step]; simp [hi, findFrom]
    | succ k =>
      rw [findFrom_step, findFrom_step]
      by_cases hi : i > inp.size
      · simp [hi]
      · simp only [hi, if_false]
        cases tryAt o inp ncaps node i with
        | some r => rfl
        | none => exact ih k (i + 1) (by omega) (by omega)

/-- the reference matcher's finder, as `Ref.table` uses it -/
def refFind (o : Opts) (inp : Array Nat) (ncaps : Nat) (node : Node) (i : Nat) : Option (Nat × St) :=
  findFrom o inp ncaps node (inp.size + 2) i

theorem refFind_unfold (o : Opts) (inp : Array Nat) (ncaps : Nat) (node : Node) (i : Nat) (hi : i ≤ inp.size) :
    refFind o inp ncaps node i =
      match tryAt o inp ncaps node i with
      | some r => some (i, r)
      | none => refFind o inp ncaps node (i + 1) := by
  have hnot : ¬ i > inp.size := by omega
  simp only [refFind]
  rw [show inp.size + 2 = (inp.size + 1) + 1 from rfl, findFrom_step]
  simp only [hnot, if_false]
  cases tryAt o inp ncaps node i with
  | some r => rfl
  | none => exact findFrom_enough o inp ncaps node _ _ (i + 1) (by omega) (by omega)

/-- the finder does not change while the start moves up to the match it found -/
theorem refFind_stable (o : Opts) (inp : Array Nat) (ncaps : Nat) (node : Node) : ∀ (d i j : Nat) (r : St),
    refFind o inp ncaps node i = some (j, r) → i + d ≤ j → refFind o inp ncaps node (i + d) = some (j, r) := by
  intro d
  induction d with
  | zero => intro i j r h _; exact h
  | succ d ih =>
    intro i j r h hd
    have hb := findFrom_bounds o inp ncaps node _ i j r h
    have hi : i ≤ inp.size := by omega
    rw [refFind_unfold o inp ncaps node i hi] at h
    cases ht : tryAt o inp ncaps node i with
    | some r0 => rw [ht] at h; simp at h; omega
    | none =>
      rw [ht] at h
      have := ih (i + 1) j r h (by omega)
      rw [show i + (d + 1) = i + 1 + d by omega]
      exact this

/-- nothing found from i ⇒ nothing found from any later start -/
theorem refFind_none_up (o : Opts) (inp : Array Nat) (ncaps : Nat) (node : Node) : ∀ (d i : Nat),
    refFind o inp ncaps node i = none → refFind o inp ncaps node (i + d) = none := by
  intro d
  induction d with
  | zero => intro i h; exact h
  | succ d ih =>
    intro i h
    by_cases hi : i ≤ inp.size
    · rw [refFind_unfold o inp ncaps node i hi] at h
      cases ht : tryAt o inp ncaps node i with
      | some r0 => rw [ht] at h; simp at h
      | none =>
        rw [ht] at h
        have := ih (i + 1) h
        rw [show i + (d + 1) = i + 1 + d by omega]
        exact this
    · have : i + (d + 1) > inp.size := by omega
      simp only [refFind]
      rw [show inp.size + 2 = (inp.size + 1) + 1 from rfl, findFrom_step]
      simp [this]



/-! ### the reference matcher as an engine (`Finder`) -/

/-- a reference match as an engine result (code-unit mode: input positions are UTF-16 indices) -/
def toMatchR (j : Nat) (st : St) : MatchR :=
  { idx := [Int.ofNat j, Int.ofNat st.pos] ++ (st.caps.drop 1).flatMap (fun c => match c with
      | some (a, b) => [Int.ofNat a, Int.ofNat b]
      | none => [-1, -1]),
    names := none }

theorem toMatchR_start (j : Nat) (st : St) : (toMatchR j st).start = j := by
  simp [toMatchR, MatchR.start]

theorem toMatchR_stop (j : Nat) (st : St) : (toMatchR j st).stop = st.pos := by
  simp [toMatchR, MatchR.stop]

/-- the reference matcher as a `Finder` over a subject given as UTF-16 code units (no u flag) -/
def refFinderCU (o : Opts) (ncaps : Nat) (node : Node) (units : List Nat) : Finder :=
  fun i => (refFind o units.toArray ncaps node i).map (fun p => toMatchR p.1 p.2)

theorem refFinderCU_leftmost (o : Opts) (ncaps : Nat) (node : Node) (units : List Nat) :
    Leftmost (refFinderCU o ncaps node units) units.length := by
  have hsz : units.toArray.size = units.length := by simp
  constructor
  · intro i r h
    simp only [refFinderCU] at h
    cases hf : refFind o units.toArray ncaps node i with
    | none => rw [hf] at h; simp at h
    | some p =>
      rw [hf] at h; simp at h; subst h
      obtain ⟨j, st⟩ := p
      have := findFrom_bounds o units.toArray ncaps node _ i j st hf
      rw [toMatchR_start]; exact this.1
  · intro i r h
    simp only [refFinderCU] at h
    cases hf : refFind o units.toArray ncaps node i with
    | none => rw [hf] at h; simp at h
    | some p =>
      rw [hf] at h; simp at h; subst h
      obtain ⟨j, st⟩ := p
      have := findFrom_bounds o units.toArray ncaps node _ i j st hf
      rw [toMatchR_start, toMatchR_stop]
      have h3 : st.pos ≤ units.toArray.size := this.2.2
      have h4 : j ≤ st.pos := this.2.1
      exact ⟨h4, by omega⟩
  · intro i r j' h h1 h2
    simp only [refFinderCU] at h ⊢
    cases hf : refFind o units.toArray ncaps node i with
    | none => rw [hf] at h; simp at h
    | some p =>
      rw [hf] at h; simp at h; subst h
      obtain ⟨j, st⟩ := p
      rw [toMatchR_start] at h2
      have := refFind_stable o units.toArray ncaps node (j' - i) i j st hf (by omega)
      rw [show i + (j' - i) = j' by omega] at this
      rw [this]; rfl
  · intro i j' h h1 _
    simp only [refFinderCU] at h ⊢
    cases hf : refFind o units.toArray ncaps node i with
    | some p => rw [hf] at h; simp at h
    | none =>
      have := refFind_none_up o units.toArray ncaps node (j' - i) i hf
      rw [show i + (j' - i) = j' by omega] at this
      rw [this]; rfl



/-! ### unicode mode: indices through the position map -/

/-- positions of the lenient decoding: `bounds 0 (decode units)` has one entry per rune boundary -/
theorem bounds_getD_le (units : List Nat) (x : Nat) (hx : x ≤ (decode units).length) :
    (bounds 0 (decode units)).getD x 0 ≤ units.length := by
  have h := bounds_get (decode units) 0 x hx
  have h2 := totalSize_take_le (decode units) x
  rw [totalSize_decode] at h2
  simp [List.getD, h]; omega

theorem bounds_getD_mono (units : List Nat) (a b : Nat) (hab : a ≤ b) (hb : b ≤ (decode units).length) :
    (bounds 0 (decode units)).getD a 0 ≤ (bounds 0 (decode units)).getD b 0 := by
  have h1 := bounds_get (decode units) 0 a (by omega)
  have h2 := bounds_get (decode units) 0 b hb
  have h3 := totalSize_take_mono (decode units) hab
  simp [List.getD, h1, h2]; omega

/-- Unicode mode: a match of the reference matcher found from the rune position whose UTF-16 index is `start`,
reported through the position map, satisfies start ≤ s ≤ e ≤ |units| in UTF-16 code units. -/
theorem refFind_unicode_indices (o : Opts) (ncaps : Nat) (node : Node) (units : List Nat) (i j : Nat) (st : St)
    (h : refFind o ((decode units).map Prod.fst).toArray ncaps node i = some (j, st)) :
    let pm := bounds 0 (decode units)
    pm.getD i 0 ≤ pm.getD j 0 ∧ pm.getD j 0 ≤ pm.getD st.pos 0 ∧ pm.getD st.pos 0 ≤ units.length := by
  intro pm
  have hb := findFrom_bounds o _ ncaps node _ i j st h
  have hsz : ((decode units).map Prod.fst).toArray.size = (decode units).length := by simp
  rw [hsz] at hb
  exact ⟨bounds_getD_mono units i j hb.1 (by omega), bounds_getD_mono units j st.pos hb.2.1 hb.2.2,
    bounds_getD_le units st.pos hb.2.2⟩


end GojaModel.C20.Ref
