/-
  C20 — RegExp results independent of engine and fast path; indices UTF-16 exact.
  Executable model (core Lean only).  Three mechanisms of /repo are transcribed here:

  (1) PosMap: `lenientUtf16Decoder.ReadRune` (string_unicode.go:82), `buildPosMap` (regexp.go:395),
      `posMapReverseLookup` (regexp.go:425), `buildUTF8PosMap` (regexp.go:123), `positionMap.get`
      (regexp.go:34): the translation between UTF-8 byte offsets / rune offsets and UTF-16 indices.
  (2) the flag loop of `compileRegexp` (builtin_regexp.go:193-240).
  (3) `regexpObject.getLastIndex/execRegexp` (regexp.go:614-638), `getGlobalRegexpMatches`
      (builtin_regexp.go:702), `stdMatcher` / `stdSearch` / `stdReplacer` / `stdSplitter` fast paths and their
      generic counterparts, `advanceStringIndex` (builtin_regexp.go:970), with the regex engine as an
      opaque *finder* `Nat → Option MatchR` (start position ↦ leftmost match at or after it).
  The two regex engines themselves are NOT modelled.
-/
namespace GojaModel.C20

/-! ## 1. PosMap -/

def isHi (c : Nat) : Bool := 0xD800 ≤ c && c ≤ 0xDBFF      -- isUTF16FirstSurrogate  (string.go:80)
def isLo (c : Nat) : Bool := 0xDC00 ≤ c && c ≤ 0xDFFF      -- isUTF16SecondSurrogate (string.go:84)

/-- utf16.DecodeRune on a valid pair. -/
def combine (hi lo : Nat) : Nat := (hi - 0xD800) * 0x400 + (lo - 0xDC00) + 0x10000

/-- `lenientUtf16Decoder.ReadRune` iterated to EOF: the list of (rune, size in code units).
A high surrogate followed by a low one is one rune of size 2; every other unit (lone surrogates
included) is passed through as a rune of size 1 (the `prev/prevSet` push-back of the Go code is the
`decode rest` call on the un-consumed unit). -/
def decode : List Nat → List (Nat × Nat)
  | [] => []
  | [c] => [(c, 1)]
  | c :: d :: rest' =>
    if isHi c && isLo d then (combine c d, 2) :: decode rest'
    else (c, 1) :: decode (d :: rest')

/-- utf16.EncodeRune / identity on the BMP (a lone surrogate is "encoded" as itself: lenient). -/
def encodeRune (r : Nat) : List Nat :=
  if r < 0x10000 then [r] else [0xD800 + (r - 0x10000) / 0x400, 0xDC00 + (r - 0x10000) % 0x400]

def encodeAll (rs : List Nat) : List Nat := rs.flatMap encodeRune

/-- Loop state of `buildPosMap` (regexp.go:395-423). -/
structure PM where
  posMap : List Nat := []
  runes : List Nat := []
  curPos : Nat := 0
  startFound : Bool := false
  mappedStart : Nat := 0
  splitPair : Bool := false
  deriving Repr, DecidableEq

/-- regexp.go:401-412 (the two `if`s are mutually exclusive, so `else if` is the same function). -/
def checkStart (start : Nat) (st : PM) : PM :=
  if st.startFound then st
  else if st.curPos == start then { st with mappedStart := st.runes.length, startFound := true }
  else if st.curPos > start then
    { st with mappedStart := st.runes.length - 1, splitPair := true, startFound := true }
  else st

/-- The `for` loop of `buildPosMap` over the runes still to be read. -/
def buildLoop (start : Nat) : List (Nat × Nat) → PM → PM
  | [], st =>
    let st := checkStart start st                            -- the check precedes the failing ReadRune
    { st with posMap := st.posMap ++ [st.curPos] }           -- regexp.go:421
  | (r, sz) :: rest, st =>
    let st := checkStart start st
    buildLoop start rest
      { st with runes := st.runes ++ [r], posMap := st.posMap ++ [st.curPos], curPos := st.curPos + sz }

def buildPosMap (units : List Nat) (start : Nat) : PM := buildLoop start (decode units) {}

/-- `sort.SearchInts` on an ascending slice: smallest index whose element is ≥ x (length if none).
(Specification of the library call; ascending-ness of posMap is theorem `posmap_strict_mono`.) -/
def searchInts : List Nat → Nat → Nat
  | [], _ => 0
  | a :: as, x => if a ≥ x then 0 else 1 + searchInts as x

/-- `posMapReverseLookup` (regexp.go:425). -/
def reverseLookup (pm : List Nat) (pos : Nat) : Nat × Bool :=
  let mapped := searchInts pm pos
  if mapped < pm.length && pm.getD mapped 0 != pos then (mapped - 1, true) else (mapped, false)

/-- Prefix sums: UTF-16 index of every rune boundary, starting at `base`. (spec side) -/
def bounds (base : Nat) : List (Nat × Nat) → List Nat
  | [] => [base]
  | (_, sz) :: rest => base :: bounds (base + sz) rest

def totalSize (l : List (Nat × Nat)) : Nat := (l.map Prod.snd).sum

/-! ### UTF-8 map -/

/-- `unicodeRuneReader.ReadRune` iterated (string_unicode.go:117): strict — `none` on a lone surrogate. -/
def strictDecode : List Nat → Option (List (Nat × Nat))
  | [] => some []
  | c :: rest =>
    if isHi c then
      match rest with
      | d :: rest' => if isLo d then (strictDecode rest').map (fun l => (combine c d, 2) :: l) else none
      | [] => none
    else if isLo c then none
    else (strictDecode rest).map (fun l => (c, 1) :: l)

/-- Number of bytes `strings.Builder.WriteRune` writes. -/
def utf8Len (r : Nat) : Nat := if r < 0x80 then 1 else if r < 0x800 then 2 else if r < 0x10000 then 3 else 4

/-- Loop of `buildUTF8PosMap` (regexp.go:128-141): items (src = UTF-8 offset, dst = UTF-16 offset)
after each rune. -/
def utf8Loop : List (Nat × Nat) → Nat → Nat → List (Nat × Nat)
  | [], _, _ => []
  | (r, sz) :: rest, sPos, u8 =>
    let sPos := sPos + sz
    let u8 := u8 + utf8Len r
    (u8, sPos) :: utf8Loop rest sPos u8

def buildUTF8PosMap (units : List Nat) : Option (List (Nat × Nat)) :=
  (strictDecode units).map (fun l => utf8Loop l 0 0)

/-- `sort.Search(len(m), m[n].src >= src)` on ascending src. -/
def searchSrc : List (Nat × Nat) → Nat → Option (Nat × Nat)
  | [], _ => none
  | (s, d) :: rest, x => if s ≥ x then some (s, d) else searchSrc rest x

/-- `positionMap.get` (regexp.go:34); `none` = the Go code panics ("index not found"). -/
def pmGet (m : List (Nat × Nat)) (src : Nat) : Option Nat :=
  if src = 0 then some 0
  else match searchSrc m src with
    | some (s, d) => if s = src then some d else none
    | none => none

/-! ## 2. Flag loop of compileRegexp -/

/-- The six booleans declared at builtin_regexp.go:189 plus "err was set by invalidFlags()". -/
structure FlagSt where
  global : Bool := false
  ignoreCase : Bool := false
  multiline : Bool := false
  dotAll : Bool := false
  sticky : Bool := false
  unicode : Bool := false
  err : Bool := false
  deriving Repr, DecidableEq

/-- One iteration of `for _, chr := range flags { switch chr {…} }` (builtin_regexp.go:197-239).
`none` = `return` (always with the error set).  Written in the shape the extractor emits, so the
Tie theorem is by unfolding. -/
def flagStep (st : FlagSt) (chr : Char) : Option FlagSt :=
  if chr = 'g' then
    (if st.global then none else some { st with global := true })
  else if chr = 'm' then
    (if st.multiline then none else some { st with multiline := true })
  else if chr = 's' then
    (if st.dotAll then none else some { st with dotAll := true })
  else if chr = 'i' then
    (if st.ignoreCase then none else some { st with ignoreCase := true })
  else if chr = 'y' then
    (if st.sticky then none else some { st with sticky := true })
  else if chr = 'u' then
    (if st.unicode then none else some { st with unicode := true })
  else none

def flagLoop : List Char → FlagSt → Option FlagSt
  | [], st => some st
  | c :: cs, st => match flagStep st c with
    | some st' => flagLoop cs st'
    | none => none

/-- Acceptance of a flags string by the constructor: the loop ran to completion with no error. -/
def parseFlags (fs : List Char) : Option FlagSt :=
  match flagLoop fs {} with
  | some st => if st.err then none else some st
  | none => none

def flagAlphabet : List Char := ['g', 'i', 'm', 's', 'u', 'y']

/-! ## 3. exec / lastIndex protocol with an opaque finder -/

/-- A raw engine result: `regexpResult.indexes` (2 entries per group, −1 = did not participate) and
`regexpResult.groups` (`none` = nil slice). -/
structure MatchR where
  idx : List Int
  names : Option (List String) := none
  deriving Repr, DecidableEq, Inhabited

def MatchR.start (r : MatchR) : Nat := (r.idx.getD 0 0).toNat
def MatchR.stop (r : MatchR) : Nat := (r.idx.getD 1 0).toNat

/-- `pattern.findSubmatchIndex(s, start)` for a fixed pattern and subject. -/
abbrev Finder := Nat → Option MatchR

structure RFlags where
  global : Bool := false
  sticky : Bool := false
  unicode : Bool := false
  deriving Repr, DecidableEq

/-- regexp.go:614 -/
def getLastIndex (fl : RFlags) (li : Nat) : Nat :=
  if !fl.global && !fl.sticky then 0 else li

/-- `regexpObject.execRegexp` (regexp.go:622-638): result and the new value of `lastIndex`.
`n` = length of the subject in code units. -/
def execRegexp (fl : RFlags) (f : Finder) (n li : Nat) : Option MatchR × Nat :=
  let index := getLastIndex fl li
  let result := if index ≤ n then f index else none
  let res := match result with
    | some r => if !fl.sticky || r.start == index then some r else none
    | none => none
  let li' := if fl.global || fl.sticky then (match res with | some r => r.stop | none => 0) else li
  (res, li')

/-- The ECMA-262 matcher at one position, derived from the finder. -/
def matchAt (f : Finder) (i : Nat) : Option MatchR :=
  match f i with
  | some r => if r.start == i then some r else none
  | none => none

/-- ECMA-262 22.2.7.2 RegExpBuiltinExec steps 9-12 as a scan over candidate positions
`lastIndex, lastIndex+1, …, n` (fuel = number of candidates left). -/
def specScan (f : Finder) (sticky : Bool) (n : Nat) : Nat → Nat → Option MatchR
  | 0, _ => none
  | fuel + 1, i =>
    if i > n then none
    else match matchAt f i with
      | some r => some r
      | none => if sticky then none else specScan f sticky n fuel (i + 1)

def specExec (fl : RFlags) (f : Finder) (n li : Nat) : Option MatchR × Nat :=
  let lastIndex := if fl.global || fl.sticky then li else 0
  let res := specScan f fl.sticky n (n + 1 - lastIndex) lastIndex
  let li' := if fl.global || fl.sticky then (match res with | some r => r.stop | none => 0) else li
  (res, li')

/-- builtin_regexp.go:970 `advanceStringIndex` (and ECMA-262 AdvanceStringIndex). -/
def advance (units : List Nat) (pos : Nat) (unicode : Bool) : Nat :=
  let next := pos + 1
  if !unicode then next
  else if next ≥ units.length then next
  else if !isHi (units.getD pos 0) then next
  else if !isLo (units.getD next 0) then next
  else next + 1

/-- `getGlobalRegexpMatches` (builtin_regexp.go:702-722) — the generic global loop: exec until null,
stepping `lastIndex` with AdvanceStringIndex after an empty match.  Returns matches and final lastIndex. -/
def globalLoop (fl : RFlags) (f : Finder) (units : List Nat) : Nat → Nat → List MatchR × Nat
  | 0, li => ([], li)
  | fuel + 1, li =>
    match execRegexp fl f units.length li with
    | (none, li') => ([], li')
    | (some r, li') =>
      let li'' := if r.stop == r.start then advance units li' fl.unicode else li'
      let (rest, fin) := globalLoop fl f units fuel li''
      (r :: rest, fin)

def genericGlobalMatches (fl : RFlags) (f : Finder) (units : List Nat) : List MatchR × Nat :=
  globalLoop fl f units (units.length + 2) 0

/-- The engines' "find all" iteration as goja uses it (regexp2 `FindNextMatch`: continue at the end of
the previous match, one position further after an empty match; position = code unit, or code point
in unicode mode) with goja's sticky filter (regexp.go:375-380 / 461-466 / 498-507). -/
def findAllLoop (fl : RFlags) (f : Finder) (units : List Nat) (sticky : Bool) : Nat → Nat → Nat → List MatchR
  | 0, _, _ => []
  | fuel + 1, pos, expect =>
    if pos > units.length then []
    else match f pos with
      | none => []
      | some r =>
        if sticky && r.start != expect then []
        else
          let next := if r.stop == r.start then advance units r.stop fl.unicode else r.stop
          r :: findAllLoop fl f units sticky fuel next r.stop

def findAll (fl : RFlags) (f : Finder) (units : List Nat) (start : Nat) (sticky : Bool) : List MatchR :=
  findAllLoop fl f units sticky (units.length + 2) start start

/-- `stdSearch` fast path (builtin_regexp.go:900-909) and generic (791-813): index of the first match
from position 0 (sticky: at 0), `lastIndex` restored. -/
def fastSearch (fl : RFlags) (f : Finder) (n li : Nat) : Int × Nat :=
  match (execRegexp fl f n 0).1 with
  | some r => (r.start, li)
  | none => (-1, li)

def genericSearch (fl : RFlags) (f : Finder) (n li : Nat) : Int × Nat :=
  -- lastIndex := 0 (if different); exec; lastIndex := previous (if different)
  match (specExec fl f n 0).1 with
  | some r => (r.start, li)
  | none => (-1, li)

/-! ### result array construction -/

def sub (units : List Nat) (a b : Nat) : List Nat := (units.drop a).take (b - a)

/-- `execResultToArray` (regexp.go:577-590): capture i is `undefined` unless its start is ≥ 0 and its
end is ≥ the start of the last defined capture (`lowerBound`). -/
def captureVals (units : List Nat) : List Int → Nat → List (Option (List Nat))
  | s :: e :: rest, lower =>
    if s ≥ 0 && e ≥ (lower : Int) then some (sub units s.toNat e.toNat) :: captureVals units rest s.toNat
    else none :: captureVals units rest lower
  | _, _ => []

def resultArray (units : List Nat) (r : MatchR) : List (Option (List Nat)) :=
  some (sub units r.start r.stop) :: captureVals units (r.idx.drop 2) 0

/-- Plain capture extraction used by the fast replace / split paths (`!= -1` test only). -/
def captureValsPlain (units : List Nat) : List Int → List (Option (List Nat))
  | s :: e :: rest => (if s != -1 then some (sub units s.toNat e.toNat) else none) :: captureValsPlain units rest
  | _ => []

/-- Generic `Symbol.split` (ECMA-262 22.2.6.14 / builtin_regexp.go:912-968) with a sticky splitter whose
exec at position q is `matchAt f q`.  `lim = none` ⇔ no limit given (the Go code uses maxInt−1, unreachable).
Output: list of pieces (`none` = undefined capture). -/
def splitLoop (f : Finder) (units : List Nat) (unicode : Bool) (lim : Option Nat) :
    Nat → Nat → Nat → List (Option (List Nat)) → List (Option (List Nat))
  | 0, _, _, acc => acc
  | fuel + 1, p, q, acc =>
    let size := units.length
    if q ≥ size then acc ++ [some (sub units p size)]
    else match matchAt f q with
      | none => splitLoop f units unicode lim fuel p (advance units q unicode) acc
      | some r =>
        let e := min r.stop size
        if e == p then splitLoop f units unicode lim fuel p (advance units q unicode) acc
        else
          let acc := acc ++ [some (sub units p q)]
          if lim == some acc.length then acc
          else
            let caps := (resultArray units r).drop 1
            let room := match lim with | some l => l - acc.length | none => caps.length + 1
            if caps.length ≥ room then acc ++ caps.take room
            else splitLoop f units unicode lim fuel e e (acc ++ caps)

def genericSplit (f : Finder) (units : List Nat) (unicode : Bool) (lim : Option Nat) : List (Option (List Nat)) :=
  if lim == some 0 then []
  else if units.length == 0 then
    (match matchAt f 0 with | none => [some []] | some _ => [])
  else splitLoop f units unicode lim (2 * units.length + 4) 0 0 []

/-! ## 4. fast paths as coded: post-processing of raw `findAllSubmatchIndex` results

`raw` below is what `regexpPattern.findAllSubmatchIndex` returned (a list of index arrays); how the
engines and goja's wrappers produce it is a separate question (see `findAll`, `goAllMatches`). -/

/-- `stdSplitter` fast loop as it was BEFORE /repo 5a3ab73 (kept only for the regression lemma
`fastSplit_prefix_witness`): an empty match was skipped only at index 0 or at the end. `lim = none` ⇔ limit −1. -/
def fastSplitLoopOld (units : List Nat) (lim : Option Nat) :
    List (List Int) → Nat → Nat → List (Option (List Nat)) → List (Option (List Nat)) × Bool
  -- returns (valueArray, reachedLimit); `found` is tracked separately as in the Go code
  | [], _, _, acc => (acc, false)
  | r :: rest, lastIndex, found, acc =>
    let s := (r.getD 0 0).toNat
    let e := (r.getD 1 0).toNat
    let n := units.length
    if s == e && (s == 0 || s == n) then fastSplitLoopOld units lim rest lastIndex found acc
    else
      -- both branches of the Go `if lastIndex != idx0 … else if lastIndex == idx0` push exactly s[lastIndex:idx0]
      let acc := acc ++ [some (sub units lastIndex s)]
      let found := found + 1
      if lim == some found then (acc, true)
      else
        let caps := captureValsPlain units (r.drop 2)
        let room := match lim with | some l => l - found | none => caps.length + 1
        if caps.length ≥ room then (acc ++ caps.take room, true)
        else fastSplitLoopOld units lim rest e (found + caps.length) (acc ++ caps)

/-- the tail of `stdSplitter` needs the last `lastIndex`; recomputed from the consumed matches. -/
def fastSplitLastOld (units : List Nat) : List (List Int) → Nat → Nat
  | [], lastIndex => lastIndex
  | r :: rest, lastIndex =>
    let s := (r.getD 0 0).toNat
    let e := (r.getD 1 0).toNat
    if s == e && (s == 0 || s == units.length) then fastSplitLastOld units rest lastIndex
    else fastSplitLastOld units rest e

def fastSplitOld (units : List Nat) (raw : List (List Int)) (lim : Option Nat) : List (Option (List Nat)) :=
  if lim == some 0 then []
  else if units.length == 0 then (if raw.isEmpty then [some []] else [])
  else
    let (acc, hit) := fastSplitLoopOld units lim raw 0 0 []
    if hit then acc
    else acc ++ [some (sub units (fastSplitLastOld units raw 0) units.length)]

/-- `stdMatcher`, global branch: the matched substrings (`none` = the method returns null). -/
def fastMatchStrings (units : List Nat) (raw : List (List Int)) : Option (List (List Nat)) :=
  if raw.isEmpty then none
  else some (raw.map (fun r => sub units (r.getD 0 0).toNat (r.getD 1 0).toNat))

/-- `stdReplacer`'s lastIndex write-back (builtin_regexp.go:1283-1290). -/
def fastReplaceLastIndex (fl : RFlags) (raw : List (List Int)) (li : Nat) : Nat :=
  if fl.global || fl.sticky then
    (if !fl.global then (match raw.getLast? with | some r => (r.getD 1 0).toNat | none => 0) else 0)
  else li

/-- `stringReplace` (builtin_string.go:596) with a replacer: `repl i r` is the replacement text of
match number i.  Pieces between matches are copied when `idx0 != lastIndex` (sic). -/
def fastReplaceLoop (units : List Nat) (repl : List Int → List Nat) : List (List Int) → Nat → List Nat → List Nat × Nat
  | [], lastIndex, buf => (buf, lastIndex)
  | r :: rest, lastIndex, buf =>
    let s := (r.getD 0 0).toNat
    let buf := if s != lastIndex then buf ++ sub units lastIndex s else buf
    fastReplaceLoop units repl rest (r.getD 1 0).toNat (buf ++ repl r)

def fastReplace (units : List Nat) (repl : List Int → List Nat) (raw : List (List Int)) : List Nat :=
  if raw.isEmpty then units
  else
    let (buf, lastIndex) := fastReplaceLoop units repl raw 0 []
    if lastIndex != units.length then buf ++ sub units lastIndex units.length else buf

/-- Generic `Symbol.replace` accumulation (builtin_regexp.go:1117-1186): `results` are (position, matchLength,
replacement) in order; a result whose position lies before `nextSourcePosition` is ignored. -/
def genericReplaceLoop (units : List Nat) : List (Nat × Nat × List Nat) → Nat → List Nat → List Nat × Nat
  | [], next, buf => (buf, next)
  | (pos, mlen, rep) :: rest, next, buf =>
    if pos ≥ next then genericReplaceLoop units rest (pos + mlen) (buf ++ sub units next pos ++ rep)
    else genericReplaceLoop units rest next buf

def genericReplace (units : List Nat) (results : List (Nat × Nat × List Nat)) : List Nat :=
  let (buf, next) := genericReplaceLoop units results 0 []
  if next < units.length then buf ++ sub units next units.length else buf

/-! ### `$` templates: `writeSubstitution` (builtin_regexp.go:1188-1260) -/

def isDigit (c : Nat) : Bool := 48 ≤ c && c ≤ 57

/-- position of the first '>' at or after j (`none` if there is none). -/
def findGt (repl : List Nat) : Nat → Nat → Option Nat
  | 0, _ => none
  | fuel + 1, j => if j ≥ repl.length then none else if repl.getD j 0 == 62 then some j else findGt repl fuel (j + 1)

/-- `caps` are the captures as the caller sees them (index 0 = matched text, `none` = undefined);
`named ref` = `none` when there is no groups object / map, else the text to insert. -/
def substLoop (units : List Nat) (position : Nat) (caps : List (Option (List Nat)))
    (named : List Nat → Option (List Nat)) (repl : List Nat) : Nat → Nat → List Nat → List Nat
  | 0, _, buf => buf
  | fuel + 1, i, buf =>
    let rl := repl.length
    if i ≥ rl then buf
    else
      let c := repl.getD i 0
      let matched := (caps.getD 0 none).getD []
      let cap := fun (k : Nat) => (caps.getD k none).getD []
      if c == 36 && i + 1 < rl then
        let ch := repl.getD (i + 1) 0
        if ch == 36 then substLoop units position caps named repl fuel (i + 2) (buf ++ [36])
        else if ch == 96 then substLoop units position caps named repl fuel (i + 2) (buf ++ sub units 0 position)
        else if ch == 39 then
          let tailPos := position + matched.length
          substLoop units position caps named repl fuel (i + 2)
            (if tailPos < units.length then buf ++ sub units tailPos units.length else buf)
        else if ch == 38 then substLoop units position caps named repl fuel (i + 2) (buf ++ matched)
        else if ch == 60 then
          match findGt repl (rl + 1) (i + 2) with
          | some j =>
            (match named (sub repl (i + 2) j) with
             | some t => substLoop units position caps named repl fuel (j + 1) (buf ++ t)
             | none => substLoop units position caps named repl fuel (i + 2) (buf ++ [36, 60]))
          | none => substLoop units position caps named repl fuel (i + 2) (buf ++ [36, 60])
        else
          -- up to two digits, longest prefix whose value is a valid capture number
          let d1 := repl.getD (i + 1) 0
          let v1 := if isDigit d1 && d1 - 48 < caps.length then some (d1 - 48) else none
          match v1 with
          | none => substLoop units position caps named repl fuel (i + 2) (buf ++ [36, ch])
          | some a =>
            let d2 := repl.getD (i + 2) 0
            let two := i + 2 < rl && isDigit d2 && a * 10 + (d2 - 48) < caps.length
            let index := if two then a * 10 + (d2 - 48) else a
            let j := if two then i + 3 else i + 2
            if index > 0 then substLoop units position caps named repl fuel j (buf ++ cap index)
            else substLoop units position caps named repl fuel (i + 2) (buf ++ [36, ch])
      else substLoop units position caps named repl fuel (i + 1) (buf ++ [c])

def substitute (units : List Nat) (position : Nat) (caps : List (Option (List Nat)))
    (named : List Nat → Option (List Nat)) (repl : List Nat) : List Nat :=
  substLoop units position caps named repl (repl.length + 1) 0 []

/-! ### the engines' own "find all" iterations -/

/-- Go `regexp.(*Regexp).allMatches`: continue at the end of the match, one position further after an
empty match, and **drop an empty match that starts where the previous match ended**.  `f` is the
linear-time engine's finder, positions are code units (ASCII / UTF-16-as-runes input). -/
def goAllLoop (f : Finder) (n : Nat) : Nat → Nat → Option Nat → List MatchR
  | 0, _, _ => []
  | fuel + 1, pos, prevEnd =>
    if pos > n then []
    else match f pos with
      | none => []
      | some r =>
        let empty := r.stop == r.start
        let accept := !(empty && prevEnd == some r.start)
        let next := if empty then r.stop + 1 else r.stop
        let rest := goAllLoop f n fuel next (some r.stop)
        if accept then r :: rest else rest

def goAllMatches (f : Finder) (n : Nat) : List MatchR := goAllLoop f n (n + 2) 0 none

/-- goja's sticky post-filter over a complete list (regexp.go:498-507). -/
def stickyPrefix : List MatchR → Nat → List MatchR
  | [], _ => []
  | r :: rest, pos => if r.start != pos then [] else r :: stickyPrefix rest r.stop

/-- The wrapper loops `findAllSubmatchIndexUTF16/Unicode` (regexp.go:347-393, 433-479) over regexp2's
FindRunesMatchStartingAt / FindNextMatch, exactly as coded: `limit` (none = −1), and the sticky filter that
compares the match start with the END of the previous match (`expect`). -/
def r2AllLoop (fl : RFlags) (f : Finder) (units : List Nat) (sticky : Bool) :
    Nat → Nat → Nat → Option Nat → List MatchR
  | 0, _, _, _ => []
  | fuel + 1, pos, expect, limit =>
    if pos > units.length then []
    else match f pos with
      | none => []
      | some r =>
        if sticky && r.start != expect then []
        else if limit == some 1 then [r]
        else
          let next := if r.stop == r.start then advance units r.stop fl.unicode else r.stop
          r :: r2AllLoop fl f units sticky fuel next r.stop (limit.map (· - 1))

def r2All (fl : RFlags) (f : Finder) (units : List Nat) (start : Nat) (limit : Option Nat) (sticky : Bool) : List MatchR :=
  r2AllLoop fl f units sticky (units.length + 2) start start limit

/-- The same sweep with the sticky test the generic protocol implies: a match must start exactly where the
search resumed (`pos`), not where the previous match ended.  (The coded test is no longer reachable from the built-ins since /repo 15617dc.) -/
def idealAllLoop (fl : RFlags) (f : Finder) (units : List Nat) (sticky : Bool) :
    Nat → Nat → Option Nat → List MatchR
  | 0, _, _ => []
  | fuel + 1, pos, limit =>
    if pos > units.length then []
    else match f pos with
      | none => []
      | some r =>
        if sticky && r.start != pos then []
        else if limit == some 1 then [r]
        else
          let next := if r.stop == r.start then advance units r.stop fl.unicode else r.stop
          r :: idealAllLoop fl f units sticky fuel next (limit.map (· - 1))

def idealAll (fl : RFlags) (f : Finder) (units : List Nat) (start : Nat) (limit : Option Nat) (sticky : Bool) : List MatchR :=
  idealAllLoop fl f units sticky (units.length + 2) start limit

/-- `stdMatcher`, global branch (builtin_regexp.go; /repo 15617dc): a sticky RegExp is handed to the generic
protocol; otherwise lastIndex := 0 and one sweep `findAllSubmatchIndex(s, 0, -1, false)` — here over the regexp2
wrapper loops as coded. -/
def fastGlobalMatches (fl : RFlags) (f : Finder) (units : List Nat) : List MatchR × Nat :=
  if fl.sticky then genericGlobalMatches fl f units
  else (r2All fl f units 0 none false, 0)

/-- Go's allMatches with code-point steps (UTF-8 input in unicode mode). -/
def goAllLoopU (fl : RFlags) (f : Finder) (units : List Nat) : Nat → Nat → Option Nat → List MatchR
  | 0, _, _ => []
  | fuel + 1, pos, prevEnd =>
    if pos > units.length then []
    else match f pos with
      | none => []
      | some r =>
        let empty := r.stop == r.start
        let accept := !(empty && prevEnd == some r.start)
        let next := if empty then advance units r.stop fl.unicode else r.stop
        let rest := goAllLoopU fl f units fuel next (some r.stop)
        if accept then r :: rest else rest

def goAll (fl : RFlags) (f : Finder) (units : List Nat) : List MatchR := goAllLoopU fl f units (units.length + 2) 0 none

/-- `stdSplitter` fast path (builtin_regexp.go, loop over `findAllSubmatchIndex(s,0,-1,false)`; /repo 5a3ab73): an
empty match located where the previous piece ended (`lastIndex`, initially 0) or at the end of the subject is
skipped — ECMA-262's `e = p` test. `lim = none` ⇔ limit −1 (undefined). -/
def fastSplitLoop (units : List Nat) (lim : Option Nat) :
    List (List Int) → Nat → Nat → List (Option (List Nat)) → List (Option (List Nat)) × Bool × Nat
  | [], lastIndex, _, acc => (acc, false, lastIndex)
  | r :: rest, lastIndex, found, acc =>
    let s := (r.getD 0 0).toNat
    let e := (r.getD 1 0).toNat
    let n := units.length
    if s == e && (s == lastIndex || s == n) then fastSplitLoop units lim rest lastIndex found acc
    else
      let acc := acc ++ [some (sub units lastIndex s)]
      let found := found + 1
      if lim == some found then (acc, true, e)
      else
        let caps := captureValsPlain units (r.drop 2)
        let room := match lim with | some l => l - found | none => caps.length + 1
        if caps.length ≥ room then (acc ++ caps.take room, true, e)
        else fastSplitLoop units lim rest e (found + caps.length) (acc ++ caps)

def fastSplit (units : List Nat) (raw : List (List Int)) (lim : Option Nat) : List (Option (List Nat)) :=
  if lim == some 0 then []
  else if units.length == 0 then (if raw.isEmpty then [some []] else [])
  else
    let (acc, hit, last) := fastSplitLoop units lim raw 0 0 []
    if hit then acc else acc ++ [some (sub units last units.length)]

/-! ### GetSubstitution, spec side (ECMA-262 22.1.3.19.1, ES2024 wording)

`templateRemainder` is consumed from the front ("starts with …").  `captures` does NOT contain the whole match
(captures[0] is group 1), `named = none` ⇔ namedCaptures is undefined, a lookup yielding `none` ⇔ the property is
undefined (replaced by the empty string). -/

def digitVal (c : Nat) : Nat := c - 48

/-- StringIndexOf(templateRemainder, ">", 0) -/
def indexOfGt : List Nat → Option Nat
  | [] => none
  | c :: rest => if c == 62 then some 0 else (indexOfGt rest).map (· + 1)

def getSubstitution (units : List Nat) (position : Nat) (matched : List Nat) (captures : List (Option (List Nat)))
    (named : Option (List Nat → Option (List Nat))) : Nat → List Nat → List Nat
  | 0, _ => []
  | _ + 1, [] => []
  | fuel + 1, c :: rest =>
    if c != 36 then c :: getSubstitution units position matched captures named fuel rest       -- step 5.h: any other char
    else match rest with
      | [] => [36]
      | ch :: rest2 =>
        if ch == 36 then 36 :: getSubstitution units position matched captures named fuel rest2            -- "$$"
        else if ch == 96 then                                                                               -- "$`"
          sub units 0 position ++ getSubstitution units position matched captures named fuel rest2
        else if ch == 38 then matched ++ getSubstitution units position matched captures named fuel rest2   -- "$&"
        else if ch == 39 then                                                                               -- "$'"
          sub units (min (position + matched.length) units.length) units.length ++
            getSubstitution units position matched captures named fuel rest2
        else if isDigit ch then                                                                             -- "$n", "$nn"
          let captureLen := captures.length
          let twoDigits := match rest2 with | d2 :: _ => isDigit d2 | [] => false
          let idx2 := digitVal ch * 10 + digitVal (rest2.headD 0)
          -- "If index > captureLen and digitCount = 2, set digitCount to 1"
          let digitCount := if twoDigits && Nat.ble idx2 captureLen then 2 else 1
          let index := if digitCount == 2 then idx2 else digitVal ch
          let after := if digitCount == 2 then rest2.drop 1 else rest2
          let ref := 36 :: ch :: (if digitCount == 2 then [rest2.headD 0] else [])
          (if Nat.ble 1 index && Nat.ble index captureLen then (captures.getD (index - 1) none).getD [] else ref) ++
            getSubstitution units position matched captures named fuel after
        else if ch == 60 then                                                                               -- "$<"
          match named with
          | none => 36 :: 60 :: getSubstitution units position matched captures named fuel rest2
          | some lookup =>
            match indexOfGt rest2 with
            | none => 36 :: 60 :: getSubstitution units position matched captures named fuel rest2
            | some g => (lookup (rest2.take g)).getD [] ++
                getSubstitution units position matched captures named fuel (rest2.drop (g + 1))
        else 36 :: getSubstitution units position matched captures named fuel rest                          -- lone "$"

/-! ## 5. engine routing (regexp.go `findSubmatchIndex`, `findAllSubmatchIndex`)

The decision structure of the two routing functions is regenerated from the Go source on every run
(extract/c20.go → Generated/C20_Routing.lean) as a tree over the vocabulary below and proved equal to the hand
model by the Tie theorems. -/

inductive RCond where
  | noLinear        -- p.regexpWrapper == nil
  | startZero       -- start == 0
  | startNonZero    -- start != 0
  | asciiSubject    -- u == nil  (after devirtualizeString)
  | limitOne        -- limit == 1
  | unicodeFlag     -- p.unicode
  | pmOk            -- pm != nil  (buildUTF8PosMap succeeded: no lone surrogate)
  | noMatch         -- result.indexes == nil
  deriving DecidableEq, Repr

inductive RCall where
  | r2All           -- p.regexp2Wrapper.findAllSubmatchIndex(s, start, limit, sticky, p.unicode)
  | goAllAscii      -- p.regexpWrapper.findAllSubmatchIndex(string(a), limit, sticky)
  | linearSingle    -- [p.regexpWrapper.findSubmatchIndexUnicode(u, p.unicode)]
  | goAllUtf8       -- p.regexpWrapper.findAllSubmatchIndex(str, limit, sticky)  + position map
  | r2Find          -- p.regexp2Wrapper.findSubmatchIndex(s, start, p.unicode, p.global || p.sticky)
  | linearFind      -- p.regexpWrapper.findSubmatchIndex(s, p.unicode)
  | nilResult
  | other (text : String)
  deriving DecidableEq, Repr

inductive RNode where
  | ret (c : RCall)
  | ite (c : RCond) (t e : RNode)
  | bad (why : String)
  deriving Repr

def evalNode (env : RCond → Bool) : RNode → RCall
  | .ret c => c
  | .ite c t e => if env c then evalNode env t else evalNode env e
  | .bad why => .other why

structure RouteIn where
  hasLinear : Bool
  startZero : Bool
  ascii : Bool
  limitOne : Bool
  unicode : Bool
  pmOk : Bool
  noMatch : Bool := false

def RouteIn.env (x : RouteIn) : RCond → Bool
  | .noLinear => !x.hasLinear
  | .startZero => x.startZero
  | .startNonZero => !x.startZero
  | .asciiSubject => x.ascii
  | .limitOne => x.limitOne
  | .unicodeFlag => x.unicode
  | .pmOk => x.pmOk
  | .noMatch => x.noMatch

/-- hand model of `regexpPattern.findAllSubmatchIndex` routing (what run/c20.py `find_path` and the raw-list
correspondence assume) -/
def findAllRoute (x : RouteIn) : RCall :=
  if !x.hasLinear then .r2All
  else if !x.startZero then .r2All
  else if x.ascii then .goAllAscii
  else if x.limitOne then (if x.noMatch then .nilResult else .linearSingle)
  else if x.unicode && x.pmOk then .goAllUtf8
  else .r2All

/-- hand model of `regexpPattern.findSubmatchIndex` routing: linear engine only from start 0 -/
def findRoute (x : RouteIn) : RCall :=
  if !x.hasLinear then .r2Find else if !x.startZero then .r2Find else .linearFind

end GojaModel.C20
