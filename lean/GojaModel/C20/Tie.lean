/-
  C20 tie: the flag loop of compileRegexp, regenerated from /repo's builtin_regexp.go on every run by
  extract/c20.go (GojaModel/Generated/C20_Flags.lean), is the function the model and `parseFlags_spec`
  talk about.
-/
import GojaModel.C20.Model
import GojaModel.Generated.C20_Flags
import GojaModel.Generated.C20_Routing
import GojaModel.Generated.C20_Guards
namespace GojaModel.C20

/-- generated = model, for every state and every character. -/
theorem tie_flagStep : GojaModel.Generated.C20.flagStep = flagStep := by
  funext st chr; rfl

/-- the switch has exactly one case per letter of the flag alphabet (plus `default`). -/
theorem tie_caseCount : GojaModel.Generated.C20.caseCount = flagAlphabet.length := by decide

/-- `regexpPattern.findAllSubmatchIndex` as regenerated from regexp.go decides exactly like the hand model
`findAllRoute` (which the raw-list correspondence and the theorems about sweeps assume), for all 128 inputs. -/
theorem tie_findAllRoute : ∀ (a b c d e f g : Bool),
    evalNode (RouteIn.env ⟨a, b, c, d, e, f, g⟩) GojaModel.Generated.C20.findAllTree = findAllRoute ⟨a, b, c, d, e, f, g⟩ := by
  intro a b c d e f g
  cases a <;> cases b <;> cases c <;> cases d <;> cases e <;> cases f <;> cases g <;> rfl

/-- `regexpPattern.findSubmatchIndex`: the linear engine is used only from start 0. -/
theorem tie_findRoute : ∀ (a b c d e f g : Bool),
    evalNode (RouteIn.env ⟨a, b, c, d, e, f, g⟩) GojaModel.Generated.C20.findTree = findRoute ⟨a, b, c, d, e, f, g⟩ := by
  intro a b c d e f g
  cases a <;> cases b <;> rfl

/-- The guard expressions the protocol / fast-path models were transcribed from (Model.lean: `getLastIndex`,
`execRegexp` — range test `index ≤ n`, match test incl. the sticky position test, write-back under g ∨ y of the
match END —, `fastGlobalMatches` / replace (sticky ⇒ generic), `fastSearch` (lastIndex restored on every path),
`fastSplitLoop` (which empty matches do not split)). -/
def expectedGuards : List (String × String) := [
  ("getLastIndex.zero", "!r.pattern.global && !r.pattern.sticky"),
  ("execRegexp.range", "index >= 0 && index <= int64(target.Length())"),
  ("execRegexp.writeBack", "r.pattern.global || r.pattern.sticky"),
  ("execRegexp.ifMatch", "match"),
  ("execRegexp.newLastIndex", "newLastIndex = int64(result.indexes[1])"),
  ("execRegexp.match", "len(result.indexes) > 0 && (!r.pattern.sticky || int64(result.indexes[0]) == index)"),
  ("stdMatcher.generic", "rx == nil || (rx.pattern.global && rx.pattern.sticky)"),
  ("stdReplacer.generic", "rx == nil || rx.pattern.sticky"),
  ("stdSearch.generic", "rx == nil"),
  ("stdSearch.restoreBeforeNoMatchReturn", "true"),
  ("stdSplitter.skipEmpty", "result.indexes[0] == lastIndex || result.indexes[0] == targetLength")
]

/-- the guards regenerated from the Go source are the ones the model transcribes -/
theorem tie_guards : GojaModel.Generated.C20.guards = expectedGuards := by decide

end GojaModel.C20
