/-
  C20 tie: the flag loop of compileRegexp, regenerated from /repo's builtin_regexp.go on every run by
  extract/c20.go (GojaModel/Generated/C20_Flags.lean), is the function the model and `parseFlags_spec`
  talk about.
-/
import GojaModel.C20.Model
import GojaModel.Generated.C20_Flags
namespace GojaModel.C20

/-- generated = model, for every state and every character. -/
theorem tie_flagStep : GojaModel.Generated.C20.flagStep = flagStep := by
  funext st chr; rfl

/-- the switch has exactly one case per letter of the flag alphabet (plus `default`). -/
theorem tie_caseCount : GojaModel.Generated.C20.caseCount = flagAlphabet.length := by decide

end GojaModel.C20
