/-
  C20 — reference backtracking matcher for the syntax shared by both engines, written from the
  continuation semantics of ECMA-262 §22.2.2 (CompileSubpattern / RepeatMatcher / CharacterSetMatcher /
  BackreferenceMatcher is not needed).  It is the third party of the three-way comparison: when the
  linear-time engine and the backtracking engine disagree, the one that differs from this matcher is the
  deviating one.  Core Lean only; executed by the driver (`ref` op), fuel-bounded (subjects are short).

  Input characters are UTF-16 code units, or code points in unicode mode (lenient decoding, `decode` of
  Model.lean); reported indices are translated back to UTF-16 with the position map of `buildPosMap`.
-/
import GojaModel.C20.Model
namespace GojaModel.C20.Ref

inductive CItem where
  | c (cp : Nat)
  | r (lo hi : Nat)
  | e (x : Char)
  deriving Repr, Inhabited

inductive Node where
  | chr (cp : Nat)
  | dot
  | esc (x : Char)
  | cls (neg : Bool) (items : List CItem)
  | wb (neg : Bool)
  | bol
  | eol
  | grp (idx : Nat) (n : Node)                                   -- idx 0: non-capturing
  | q (min : Nat) (max : Option Nat) (lazy : Bool) (firstCap nCaps : Nat) (n : Node)
  | seq (ns : List Node)
  | alt (ns : List Node)
  | la (neg : Bool) (n : Node)
  deriving Inhabited

structure Opts where
  ignoreCase : Bool := false
  multiline : Bool := false
  dotAll : Bool := false
  unicode : Bool := false
  /-- deviation switch: `\b`/`\B` use Unicode letters/digits as word characters (what regexp2 does) -/
  wbUnicode : Bool := false
  /-- deviation switch: no empty-iteration check and no capture reset in quantifiers (Perl/RE2-like) -/
  perlLoops : Bool := false

structure St where
  pos : Nat
  caps : List (Option (Nat × Nat))
  deriving Inhabited

def isLineTerm (c : Nat) : Bool := c == 10 || c == 13 || c == 0x2028 || c == 0x2029

def isAsciiWord (c : Nat) : Bool :=
  (48 ≤ c && c ≤ 57) || (65 ≤ c && c ≤ 90) || (97 ≤ c && c ≤ 122) || c == 95

/-- Unicode categories L / Mn / Nd / Pc restricted to the blocks the generator's alphabets use. -/
def isUnicodeWord (c : Nat) : Bool :=
  isAsciiWord c || c == 0xAA || c == 0xB5 || c == 0xBA ||
  (0xC0 ≤ c && c ≤ 0x24F && c != 0xD7 && c != 0xF7) ||
  (0x400 ≤ c && c ≤ 0x481) || (0x48A ≤ c && c ≤ 0x52F) ||
  (0x1D400 ≤ c && c ≤ 0x1D7FF)

/-- parser.WhitespaceChars (ECMA-262 WhiteSpace ∪ LineTerminator). -/
def isSpace (c : Nat) : Bool :=
  c == 32 || c == 12 || c == 10 || c == 13 || c == 9 || c == 11 || c == 0xA0 || c == 0x1680 ||
  (0x2000 ≤ c && c ≤ 0x200A) || c == 0x2028 || c == 0x2029 || c == 0x202F || c == 0x205F || c == 0x3000 || c == 0xFEFF

def isDigitC (c : Nat) : Bool := 48 ≤ c && c ≤ 57

/-- simple upper-casing for ASCII, Latin-1 and basic Cyrillic (Canonicalize of the generated alphabets). -/
def upper (c : Nat) : Nat :=
  if 97 ≤ c && c ≤ 122 then c - 32
  else if 0xE0 ≤ c && c ≤ 0xFE && c != 0xF7 then c - 32
  else if 0x430 ≤ c && c ≤ 0x44F then c - 32
  else if 0x450 ≤ c && c ≤ 0x45F then c - 80
  else c

def lower (c : Nat) : Nat :=
  if 65 ≤ c && c ≤ 90 then c + 32
  else if 0xC0 ≤ c && c ≤ 0xDE && c != 0xD7 then c + 32
  else if 0x410 ≤ c && c ≤ 0x42F then c + 32
  else if 0x400 ≤ c && c ≤ 0x40F then c + 80
  else c

def escMatch (x : Char) (c : Nat) : Bool :=
  match x with
  | 'd' => isDigitC c
  | 'D' => !isDigitC c
  | 'w' => isAsciiWord c
  | 'W' => !isAsciiWord c
  | 's' => isSpace c
  | 'S' => !isSpace c
  | _ => false

def itemMatch (it : CItem) (c : Nat) : Bool :=
  match it with
  | .c cp => cp == c
  | .r lo hi => lo ≤ c && c ≤ hi
  | .e x => escMatch x c

/-- membership with the case-insensitive reading "some member canonicalises like c". -/
def setMatch (o : Opts) (test : Nat → Bool) (c : Nat) : Bool :=
  if o.ignoreCase then test c || test (upper c) || test (lower c) else test c

def setCap (caps : List (Option (Nat × Nat))) (i : Nat) (v : Option (Nat × Nat)) : List (Option (Nat × Nat)) :=
  caps.set i v

def clearCaps (caps : List (Option (Nat × Nat))) (first n : Nat) : List (Option (Nat × Nat)) :=
  (List.range n).foldl (fun cs j => cs.set (first + j) none) caps

def firstSome {α β : Type} : List α → (α → Option β) → Option β
  | [], _ => none
  | a :: as, f => match f a with
    | some r => some r
    | none => firstSome as f

def wordAt (o : Opts) (inp : Array Nat) (i : Nat) : Bool :=
  if i < inp.size then (if o.wbUnicode then isUnicodeWord inp[i]! else isAsciiWord inp[i]!) else false

/-- m(x, c) of ECMA-262: run node `n` at state `st` with continuation `k`. -/
def run (o : Opts) (inp : Array Nat) : Nat → Node → St → (St → Option St) → Option St
  | 0, _, _, _ => none
  | fuel + 1, node, st, k =>
    let one (test : Nat → Bool) : Option St :=
      if st.pos < inp.size && test inp[st.pos]! then k { st with pos := st.pos + 1 } else none
    match node with
    | .chr cp => one (setMatch o (fun c => c == cp))
    | .dot => one (fun c => o.dotAll || !isLineTerm c)
    | .esc x => one (setMatch o (escMatch x))
    | .cls neg items =>
      one (fun c => (setMatch o (fun d => items.any (fun it => itemMatch it d)) c) != neg)
    | .wb neg =>
      let a := st.pos > 0 && wordAt o inp (st.pos - 1)
      let b := wordAt o inp st.pos
      if (a != b) != neg then k st else none
    | .bol =>
      if st.pos == 0 || (o.multiline && isLineTerm inp[st.pos - 1]!) then k st else none
    | .eol =>
      if st.pos == inp.size || (o.multiline && isLineTerm inp[st.pos]!) then k st else none
    | .grp idx n =>
      run o inp fuel n st (fun st2 =>
        k (if idx > 0 then { st2 with caps := setCap st2.caps idx (some (st.pos, st2.pos)) } else st2))
    | .seq ns =>
      (ns.foldr (fun n kont => fun s => run o inp fuel n s kont) k) st
    | .alt ns => firstSome ns (fun n => run o inp fuel n st k)
    | .la neg n =>
      match run o inp fuel n st (fun s => some s) with
      | some r => if neg then none else k { st with caps := r.caps }
      | none => if neg then k st else none
    | .q min max lazy firstCap nCaps n =>
      if max == some 0 then k st
      else
        let d : St → Option St := fun st2 =>
          if !o.perlLoops && min == 0 && st2.pos == st.pos then none     -- RepeatMatcher step 2.b: empty iteration
          else if o.perlLoops && st2.pos == st.pos then k st2             -- Perl-like: accept it once and leave the loop
          else run o inp fuel (.q (min - 1) (max.map (· - 1)) lazy firstCap nCaps n) st2 k
        let st' := if o.perlLoops then st else { st with caps := clearCaps st.caps firstCap nCaps }
        if min > 0 then run o inp fuel n st' d
        else if lazy then
          match k st with
          | some r => some r
          | none => run o inp fuel n st' d
        else
          match run o inp fuel n st' d with
          | some r => some r
          | none => k st

/-- leftmost match at or after input position `i` (scan of RegExpBuiltinExec). -/
def findFrom (o : Opts) (inp : Array Nat) (ncaps : Nat) (node : Node) : Nat → Nat → Option (Nat × St)
  | 0, _ => none
  | fuel + 1, i =>
    if i > inp.size then none
    else match run o inp 100000 node { pos := i, caps := List.replicate (ncaps + 1) none } (fun s => some s) with
      | some r => some (i, r)
      | none => findFrom o inp ncaps node fuel (i + 1)

/-! ### token parser for the AST sent by run/c20.py (`render_lean`) -/

def parseItems : Nat → List String → List CItem × List String
  | 0, ts => ([], ts)
  | n + 1, ts =>
    match ts with
    | "c" :: cp :: rest => let (l, r) := parseItems n rest; (.c (cp.toNat?.getD 0) :: l, r)
    | "r" :: lo :: hi :: rest => let (l, r) := parseItems n rest; (.r (lo.toNat?.getD 0) (hi.toNat?.getD 0) :: l, r)
    | "e" :: x :: rest => let (l, r) := parseItems n rest; (.e (x.toList.getD 0 'd') :: l, r)
    | _ => ([], ts)

def parseNode : Nat → List String → Node × List String
  | 0, ts => (.seq [], ts)
  | fuel + 1, ts =>
    let many (cnt : Nat) (ts : List String) : List Node × List String :=
      (List.range cnt).foldl (fun (acc : List Node × List String) _ =>
        let (n, r) := parseNode fuel acc.2
        (acc.1 ++ [n], r)) ([], ts)
    match ts with
    | "chr" :: cp :: rest => (.chr (cp.toNat?.getD 0), rest)
    | "dot" :: rest => (.dot, rest)
    | "esc" :: x :: rest => (.esc (x.toList.getD 0 'd'), rest)
    | "cls" :: neg :: cnt :: rest =>
      let (items, r) := parseItems (cnt.toNat?.getD 0) rest
      (.cls (neg == "1") items, r)
    | "wb" :: neg :: rest => (.wb (neg == "1"), rest)
    | "bol" :: rest => (.bol, rest)
    | "eol" :: rest => (.eol, rest)
    | "grp" :: idx :: rest => let (n, r) := parseNode fuel rest; (.grp (idx.toNat?.getD 0) n, r)
    | "q" :: mn :: mx :: lz :: fc :: nc :: rest =>
      let (n, r) := parseNode fuel rest
      (.q (mn.toNat?.getD 0) (mx.toNat?) (lz == "1") (fc.toNat?.getD 0) (nc.toNat?.getD 0) n, r)
    | "seq" :: cnt :: rest => let (ns, r) := many (cnt.toNat?.getD 0) rest; (.seq ns, r)
    | "alt" :: cnt :: rest => let (ns, r) := many (cnt.toNat?.getD 0) rest; (.alt ns, r)
    | "la" :: neg :: rest => let (n, r) := parseNode fuel rest; (.la (neg == "1") n, r)
    | _ => (.seq [], ts)

/-- All rows of the finder table (one per start 0..|units|): UTF-16 indices, −1 for unset captures;
`none` = no match; `some none` = not applicable (unicode-mode start inside a surrogate pair). -/
def table (o : Opts) (ncaps : Nat) (node : Node) (units : List Nat) : List (Option (Option (List Int))) :=
  let dec := GojaModel.C20.decode units
  let inpL := if o.unicode then dec.map Prod.fst else units
  let pm := if o.unicode then GojaModel.C20.bounds 0 dec else List.range (units.length + 1)
  let inp := inpL.toArray
  (List.range (units.length + 1)).map (fun start =>
    match pm.idxOf? start with
    | none => some none
    | some i =>
      match findFrom o inp ncaps node (inp.size + 2) i with
      | none => none
      | some (s, st) =>
        let tr := fun (x : Nat) => Int.ofNat (pm.getD x 0)
        let whole := [tr s, tr st.pos]
        let caps := (st.caps.drop 1).flatMap (fun c => match c with
          | some (a, b) => [tr a, tr b]
          | none => [-1, -1])
        some (some (whole ++ caps)))

end GojaModel.C20.Ref
