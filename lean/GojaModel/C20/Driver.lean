/-
  C20 model driver: same line protocol as harness/cmd/c20 (see its header).  Core Lean only.
    posmap / utf8map / flags / adv   — mechanism models of Model.lean, printed like the harness prints them
    pred <flags> <subject> <starts> <limit> <rows>
        spec-level prediction (ECMA-262 generic protocol over the finder table `rows`) of the structural
        dump produced by harness/cmd/c20/dump.js for the ops E T M A S F P PL.
-/
import GojaModel.Base.Proto
import GojaModel.C20.Model
namespace GojaModel.C20.Driver
open GojaModel.Proto GojaModel.C20

def parseUnits (h : String) : List Nat :=
  if h == "-" || h == "" then [] else
  let cs := h.toList
  let rec go (cs : List Char) (fuel : Nat) : List Nat :=
    match fuel with
    | 0 => []
    | fuel + 1 =>
      match cs with
      | a :: b :: c :: d :: rest => ((parseHex? (String.ofList [a, b, c, d])).getD 0) :: go rest fuel
      | _ => []
  go cs cs.length

def hx (u : List Nat) : String :=
  if u.isEmpty then "-" else String.join (u.map (toHexW 4))

def hxo : Option (List Nat) → String
  | none => "u"
  | some u => hx u

def joinWith (sep : String) (l : List String) : String := sep.intercalate l

def natList (s : String) : List Nat :=
  if s == "-" || s == "" then [] else (s.splitOn ",").map (fun x => x.toNat?.getD 0)

def b2s (b : Bool) : String := if b then "1" else "0"

def hexOf (n : Nat) : String :=
  if n == 0 then "0" else
  let rec go (n fuel : Nat) (acc : List Char) : List Char :=
    match fuel with
    | 0 => acc
    | fuel + 1 => if n == 0 then acc else go (n / 16) fuel (hexChar (n % 16) :: acc)
  String.ofList (go n 16 [])

def opPosmap (f : List String) : String :=
  let units := parseUnits (f.getD 1 "-")
  let start := (f.getD 2 "0").toNat?.getD 0
  let r := buildPosMap units start
  let rl := reverseLookup r.posMap start
  s!"posmap pm={joinWith "," (r.posMap.map toString)} runes={joinWith "," (r.runes.map hexOf)} ms={r.mappedStart} sp={b2s r.splitPair} rl={rl.1},{b2s rl.2}"

def opUtf8map (f : List String) : String :=
  let units := parseUnits (f.getD 1 "-")
  match buildUTF8PosMap units with
  | none => "utf8map ok=0"
  | some m =>
    let qs := natList (f.getD 2 "-")
    let gets := qs.map (fun q => match pmGet m q with | some d => toString d | none => "x")
    let len := match m.getLast? with | some (s, _) => s | none => 0
    s!"utf8map ok=1 src={joinWith "," (m.map (fun p => toString p.1))} dst={joinWith "," (m.map (fun p => toString p.2))} len={len} get={joinWith "," gets}"

def opFlags (f : List String) : String :=
  let fs := (parseUnits (f.getD 1 "-")).map Char.ofNat
  match parseFlags fs with
  | none => "flags ok=0"
  | some st => s!"flags ok=1 bits={b2s st.global}{b2s st.ignoreCase}{b2s st.multiline}{b2s st.dotAll}{b2s st.unicode}{b2s st.sticky}"

def opAdv (f : List String) : String :=
  let units := parseUnits (f.getD 1 "-")
  s!"adv {advance units ((f.getD 2 "0").toNat?.getD 0) (f.getD 3 "0" == "1")}"

/-! ### pred -/

def parseRow (s : String) : Option MatchR :=
  if s == "x" then none else
  match s.splitOn ":" with
  | ints :: rest =>
    let idx := (ints.splitOn ".").map (fun x => x.toInt?.getD 0)
    let nm := ":".intercalate rest
    some { idx := idx, names := if nm == "!" then none else some (nm.splitOn ",") }
  | [] => none

/-- `createRegexpGroupsObj` (regexp.go:543): named captures, `none` when there is no named group. -/
def groupsOf (vals : List (Option (List Nat))) (names : Option (List String)) : Option (List (String × Option (List Nat))) :=
  match names with
  | none => none
  | some ns =>
    let pairs := (List.range vals.length).filterMap (fun i =>
      if i == 0 then none else
      match ns[i]? with
      | some nm => if nm == "" then none else some (nm, vals.getD i none)
      | none => none)
    if pairs.isEmpty then none else some pairs

def grp : Option (List (String × Option (List Nat))) → String
  | none => "{u}"
  | some ps => "{" ++ joinWith "," (ps.map (fun p => p.1 ++ "=" ++ hxo p.2)) ++ "}"

def mr (units : List Nat) (r : MatchR) : String :=
  let vals := resultArray units r
  s!"{r.start}[{joinWith "," (vals.map hxo)}]" ++ grp (groupsOf vals r.names)

def mro (units : List Nat) : Option MatchR → String
  | none => "n"
  | some r => mr units r

structure Cx where
  fl : RFlags
  f : Finder
  units : List Nat

/-- exec as goja's `execRegexp`; by `exec_lastIndex_protocol` this IS RegExpBuiltinExec whenever the finder is
leftmost (the check validates that on every table; the only exception seen is a unicode-mode lastIndex that splits
a surrogate pair, where goja — like V8 — snaps back to the start of the pair). -/
def Cx.exec (c : Cx) (li : Nat) : Option MatchR × Nat := execRegexp c.fl c.f c.units.length li

def execChain (c : Cx) : Nat → Nat → List String
  | 0, _ => []
  | fuel + 1, li =>
    let (r, li') := c.exec li
    let s := mro c.units r ++ s!"@{li'}"
    match r with
    | none => [s]
    | some _ => s :: execChain c fuel li'

def testChain (c : Cx) : Nat → Nat → List String
  | 0, _ => []
  | fuel + 1, li =>
    let (r, li') := c.exec li
    (b2s r.isSome ++ s!"@{li'}") :: testChain c fuel li'

/-- generic global loop (getGlobalRegexpMatches) over the spec-level exec. -/
def gloop (c : Cx) : Nat → Nat → List MatchR × Nat
  | 0, li => ([], li)
  | fuel + 1, li =>
    match c.exec li with
    | (none, li') => ([], li')
    | (some r, li') =>
      let li'' := if r.stop == r.start then advance c.units li' c.fl.unicode else li'
      let (rest, fin) := gloop c fuel li''
      (r :: rest, fin)

def opM (c : Cx) (k : Nat) : String :=
  if c.fl.global then
    let (ms, fin) := gloop c (c.units.length + 3) 0
    if ms.isEmpty then s!"n@{fin}"
    else "g[" ++ joinWith "," (ms.map (fun r => hx (sub c.units r.start r.stop))) ++ s!"]@{fin}"
  else
    let (r, li') := c.exec k
    mro c.units r ++ s!"@{li'}"

/-- RegExpStringIterator over a clone whose lastIndex starts at k. -/
def opA (c : Cx) (k : Nat) : String :=
  let recs :=
    if c.fl.global then ((gloop c 40 k).1.take 40).map (mr c.units)
    else match (c.exec k).1 with
      | some r => [mr c.units r]
      | none => []
  joinWith ">" recs ++ s!"@{k}"

def opS (c : Cx) (k : Nat) : String :=
  match (c.exec 0).1 with
  | some r => s!"{r.start}@{k}"
  | none => s!"-1@{k}"

def strUnits (s : String) : List Nat := s.toList.map Char.toNat

/-- generic Symbol.replace with a function replacer returning "<position>". -/
def opF (c : Cx) (k : Nat) : String :=
  let (results, fin) :=
    if c.fl.global then gloop c (c.units.length + 3) 0
    else match c.exec k with
      | (some r, li') => ([r], li')
      | (none, li') => ([], li')
  let n := c.units.length
  let step := fun (acc : List Nat × Nat) (r : MatchR) =>
    let (buf, next) := acc
    let position := min r.start n
    if position ≥ next then
      (buf ++ sub c.units next position ++ strUnits s!"<{position}>", position + (r.stop - r.start))
    else (buf, next)
  let (buf, next) := results.foldl step ([], 0)
  let buf := if next < n then buf ++ sub c.units next n else buf
  let calls := results.map (fun r =>
    let vals := resultArray c.units r
    s!"{r.start}[{joinWith "," (vals.map hxo)}]" ++ grp (groupsOf vals r.names))
  hx buf ++ "|" ++ joinWith ">" calls ++ s!"@{fin}"

def opP (c : Cx) (lim : Option Nat) : String :=
  let l := match lim with | some l => l | none => 4294967295
  "[" ++ joinWith "," ((genericSplit c.f c.units c.fl.unicode l).map hxo) ++ "]@0"

def opPred (f : List String) : String :=
  let flags := f.getD 1 "-"
  let units := parseUnits (f.getD 2 "-")
  let starts := natList (f.getD 3 "-")
  let limit := (f.getD 4 "0").toNat?.getD 0
  let rows := ((f.getD 5 "x").splitOn "|").map parseRow
  let fl : RFlags := { global := flags.contains 'g', sticky := flags.contains 'y', unicode := flags.contains 'u' }
  let c : Cx := { fl := fl, f := fun i => (rows.getD i none), units := units }
  let per := starts.flatMap (fun k => [
    s!"E{k}=" ++ joinWith ">" (execChain c 3 k),
    s!"T{k}=" ++ joinWith ">" (testChain c 2 k),
    s!"M{k}=" ++ opM c k,
    s!"A{k}=" ++ opA c k,
    s!"S{k}=" ++ opS c k,
    s!"F{k}=" ++ opF c k])
  joinWith ";" (per ++ ["P=" ++ opP c none, s!"PL{limit}=" ++ opP c (some limit)])

def step (line : String) : String :=
  let f := words line
  match f.getD 0 "" with
  | "posmap" => opPosmap f
  | "utf8map" => opUtf8map f
  | "flags" => opFlags f
  | "adv" => opAdv f
  | "pred" => opPred f
  | _ => "unknown-op"

def main : IO Unit := lineMap step

end GojaModel.C20.Driver
