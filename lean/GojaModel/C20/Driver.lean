/-
  C20 model driver: same line protocol as harness/cmd/c20 (see its header).  Core Lean only.
    posmap / utf8map / flags / adv   — mechanism models of Model.lean, printed like the harness prints them
    pred <flags> <subject> <starts> <limit> <rows>
        spec-level prediction (ECMA-262 generic protocol over the finder table `rows`) of the structural
        dump produced by harness/cmd/c20/dump.js for the ops E T M A S F P PL.
-/
import GojaModel.Base.Proto
import GojaModel.C20.Model
import GojaModel.C20.Ref
import GojaModel.C20.Pre
namespace GojaModel.C20.Driver
open GojaModel.Proto GojaModel.C20

def parseUnits (h : String) : List Nat :=
  if h == "-" || h == "" then [] else
  let cs := h.toList
  let rec go (cs : List Char) (fuel : Nat) : List Nat :=
    match fuel with
    | 0 => []
    | fuel + 1 =>
      match cs with
      | a :: b :: c :: d :: rest => ((parseHex? (String.ofList [a, b, c, d])).getD 0) :: go rest fuel
      | _ => []
  go cs cs.length

def hx (u : List Nat) : String :=
  if u.isEmpty then "-" else String.join (u.map (toHexW 4))

def hxo : Option (List Nat) → String
  | none => "u"
  | some u => hx u

def joinWith (sep : String) (l : List String) : String := sep.intercalate l

def natList (s : String) : List Nat :=
  if s == "-" || s == "" then [] else (s.splitOn ",").map (fun x => x.toNat?.getD 0)

def b2s (b : Bool) : String := if b then "1" else "0"

def hexOf (n : Nat) : String :=
  if n == 0 then "0" else
  let rec go (n fuel : Nat) (acc : List Char) : List Char :=
    match fuel with
    | 0 => acc
    | fuel + 1 => if n == 0 then acc else go (n / 16) fuel (hexChar (n % 16) :: acc)
  String.ofList (go n 16 [])

def opPosmap (f : List String) : String :=
  let units := parseUnits (f.getD 1 "-")
  let start := (f.getD 2 "0").toNat?.getD 0
  let r := buildPosMap units start
  let rl := reverseLookup r.posMap start
  s!"posmap pm={joinWith "," (r.posMap.map toString)} runes={joinWith "," (r.runes.map hexOf)} ms={r.mappedStart} sp={b2s r.splitPair} rl={rl.1},{b2s rl.2}"

def opUtf8map (f : List String) : String :=
  let units := parseUnits (f.getD 1 "-")
  match buildUTF8PosMap units with
  | none => "utf8map ok=0"
  | some m =>
    let qs := natList (f.getD 2 "-")
    let gets := qs.map (fun q => match pmGet m q with | some d => toString d | none => "x")
    let len := match m.getLast? with | some (s, _) => s | none => 0
    s!"utf8map ok=1 src={joinWith "," (m.map (fun p => toString p.1))} dst={joinWith "," (m.map (fun p => toString p.2))} len={len} get={joinWith "," gets}"

def opFlags (f : List String) : String :=
  let fs := (parseUnits (f.getD 1 "-")).map Char.ofNat
  match parseFlags fs with
  | none => "flags ok=0"
  | some st => s!"flags ok=1 bits={b2s st.global}{b2s st.ignoreCase}{b2s st.multiline}{b2s st.dotAll}{b2s st.unicode}{b2s st.sticky}"

def opAdv (f : List String) : String :=
  let units := parseUnits (f.getD 1 "-")
  s!"adv {advance units ((f.getD 2 "0").toNat?.getD 0) (f.getD 3 "0" == "1")}"

/-! ### pred -/

def parseRow (s : String) : Option MatchR :=
  if s == "x" then none else
  match s.splitOn ":" with
  | ints :: rest =>
    let idx := (ints.splitOn ".").map (fun x => x.toInt?.getD 0)
    let nm := ":".intercalate rest
    some { idx := idx, names := if nm == "!" then none else some (nm.splitOn ",") }
  | [] => none

/-- `createRegexpGroupsObj` (regexp.go:543): named captures, `none` when there is no named group. -/
def groupsOf (vals : List (Option (List Nat))) (names : Option (List String)) : Option (List (String × Option (List Nat))) :=
  match names with
  | none => none
  | some ns =>
    let pairs := (List.range vals.length).filterMap (fun i =>
      if i == 0 then none else
      match ns[i]? with
      | some nm => if nm == "" then none else some (nm, vals.getD i none)
      | none => none)
    if pairs.isEmpty then none else some pairs

def grp : Option (List (String × Option (List Nat))) → String
  | none => "{u}"
  | some ps => "{" ++ joinWith "," (ps.map (fun p => p.1 ++ "=" ++ hxo p.2)) ++ "}"

def mr (units : List Nat) (r : MatchR) : String :=
  let vals := resultArray units r
  s!"{r.start}[{joinWith "," (vals.map hxo)}]" ++ grp (groupsOf vals r.names)

def mro (units : List Nat) : Option MatchR → String
  | none => "n"
  | some r => mr units r

structure Cx where
  fl : RFlags
  f : Finder
  units : List Nat

/-- exec as goja's `execRegexp`; by `exec_lastIndex_protocol` this IS RegExpBuiltinExec whenever the finder is
leftmost (the check validates that on every table; the only exception seen is a unicode-mode lastIndex that splits
a surrogate pair, where goja — like V8 — snaps back to the start of the pair). -/
def Cx.exec (c : Cx) (li : Nat) : Option MatchR × Nat := execRegexp c.fl c.f c.units.length li

def execChain (c : Cx) : Nat → Nat → List String
  | 0, _ => []
  | fuel + 1, li =>
    let (r, li') := c.exec li
    let s := mro c.units r ++ s!"@{li'}"
    match r with
    | none => [s]
    | some _ => s :: execChain c fuel li'

def testChain (c : Cx) : Nat → Nat → List String
  | 0, _ => []
  | fuel + 1, li =>
    let (r, li') := c.exec li
    (b2s r.isSome ++ s!"@{li'}") :: testChain c fuel li'

/-- generic global loop (getGlobalRegexpMatches) over the spec-level exec. -/
def gloop (c : Cx) : Nat → Nat → List MatchR × Nat
  | 0, li => ([], li)
  | fuel + 1, li =>
    match c.exec li with
    | (none, li') => ([], li')
    | (some r, li') =>
      let li'' := if r.stop == r.start then advance c.units li' c.fl.unicode else li'
      let (rest, fin) := gloop c fuel li''
      (r :: rest, fin)

def opM (c : Cx) (k : Nat) : String :=
  if c.fl.global then
    let (ms, fin) := gloop c (c.units.length + 3) 0
    if ms.isEmpty then s!"n@{fin}"
    else "g[" ++ joinWith "," (ms.map (fun r => hx (sub c.units r.start r.stop))) ++ s!"]@{fin}"
  else
    let (r, li') := c.exec k
    mro c.units r ++ s!"@{li'}"

/-- RegExpStringIterator over a clone whose lastIndex starts at k. -/
def opA (c : Cx) (k : Nat) : String :=
  let recs :=
    if c.fl.global then ((gloop c 40 k).1.take 40).map (mr c.units)
    else match (c.exec k).1 with
      | some r => [mr c.units r]
      | none => []
  joinWith ">" recs ++ s!"@{k}"

def opS (c : Cx) (k : Nat) : String :=
  match (c.exec 0).1 with
  | some r => s!"{r.start}@{k}"
  | none => s!"-1@{k}"

def strUnits (s : String) : List Nat := s.toList.map Char.toNat

/-- results of the generic protocol for replace: global loop or one exec. -/
def genResults (c : Cx) (k : Nat) : List MatchR × Nat :=
  if c.fl.global then gloop c (c.units.length + 3) 0
  else match c.exec k with
    | (some r, li') => ([r], li')
    | (none, li') => ([], li')

def callRec (vals : List (Option (List Nat))) (pos : Nat) (names : Option (List String)) : String :=
  s!"{pos}[{joinWith "," (vals.map hxo)}]" ++ grp (groupsOf vals names)

/-- generic Symbol.replace with a function replacer returning "<position>". -/
def opF (c : Cx) (k : Nat) : String :=
  let (results, fin) := genResults c k
  let n := c.units.length
  let buf := genericReplace c.units (results.map (fun r =>
    let position := min r.start n
    (position, r.stop - r.start, strUnits s!"<{position}>")))
  let calls := results.map (fun r => callRec (resultArray c.units r) r.start r.names)
  hx buf ++ "|" ++ joinWith ">" calls ++ s!"@{fin}"

/-- generic replace-with-function where exec's captures are taken as reported by the engine (no `lowerBound`
rule): used only to attribute a fast ≠ generic difference to that rule. -/
def opFplain (c : Cx) (k : Nat) : String :=
  let (results, fin) := genResults c k
  let n := c.units.length
  let buf := genericReplace c.units (results.map (fun r =>
    let position := min r.start n
    (position, r.stop - r.start, strUnits s!"<{position}>")))
  let calls := results.map (fun r =>
    callRec (some (sub c.units r.start r.stop) :: captureValsPlain c.units (r.idx.drop 2)) r.start r.names)
  hx buf ++ "|" ++ joinWith ">" calls ++ s!"@{fin}"

def namedLookup (groups : Option (List (String × Option (List Nat)))) (ref : List Nat) : Option (List Nat) :=
  match groups with
  | none => none
  | some ps =>
    match ps.find? (fun p => strUnits p.1 == ref) with
    | some (_, some v) => some v
    | _ => some []

/-- generic Symbol.replace with a `$` template. -/
def opR (c : Cx) (k : Nat) (tmpl : List Nat) : String :=
  let (results, fin) := genResults c k
  let n := c.units.length
  let buf := genericReplace c.units (results.map (fun r =>
    let position := min r.start n
    let vals := resultArray c.units r
    (position, r.stop - r.start, substitute c.units position vals (namedLookup (groupsOf vals r.names)) tmpl)))
  hx buf ++ s!"@{fin}"

def opRplain (c : Cx) (k : Nat) (tmpl : List Nat) : String :=
  let (results, fin) := genResults c k
  let n := c.units.length
  let buf := genericReplace c.units (results.map (fun r =>
    let position := min r.start n
    let vals := some (sub c.units r.start r.stop) :: captureValsPlain c.units (r.idx.drop 2)
    (position, r.stop - r.start, substitute c.units position vals (namedLookup (groupsOf vals r.names)) tmpl)))
  hx buf ++ s!"@{fin}"

def opP (c : Cx) (lim : Option Nat) : String :=
  "[" ++ joinWith "," ((genericSplit c.f c.units c.fl.unicode lim).map hxo) ++ "]@0"

/-! ### fast paths: post-processing of the raw findAll lists -/

def parseRaw (s : String) : List (List Int) :=
  if s == "-" || s == "" then [] else (s.splitOn "|").map (fun r => (r.splitOn ".").map (fun x => x.toInt?.getD 0))

def plainVals (units : List Nat) (r : List Int) : List (Option (List Nat)) :=
  some (sub units (r.getD 0 0).toNat (r.getD 1 0).toNat) :: captureValsPlain units (r.drop 2)

def fastM (c : Cx) (raw : List (List Int)) : String :=
  match fastMatchStrings c.units raw with
  | none => "n@0"
  | some l => "g[" ++ joinWith "," (l.map hx) ++ "]@0"

def fastF (c : Cx) (k : Nat) (raw : List (List Int)) (names : Option (List String)) : String :=
  let buf := fastReplace c.units (fun r => strUnits s!"<{(r.getD 0 0).toNat}>") raw
  let calls := raw.map (fun r => callRec (plainVals c.units r) (r.getD 0 0).toNat names)
  hx buf ++ "|" ++ joinWith ">" calls ++ s!"@{fastReplaceLastIndex c.fl raw k}"

/-- `createRegexpGroupsMap` (regexp.go:562) + the named-capture callback of `stringReplace`. -/
def fastNamed (r : List Int) (names : Option (List String)) (units : List Nat) (ref : List Nat) : Option (List Nat) :=
  match names with
  | none => none
  | some ns =>
    if ns.isEmpty then none else
    let entries := (List.range ns.length).filterMap (fun i =>
      if i == 0 then none else
      let nm := ns.getD i ""
      if nm != "" && i * 2 + 1 < r.length then some (nm, i * 2) else none)
    if entries.isEmpty then none else
    match entries.find? (fun p => strUnits p.1 == ref) with
    | some (_, idx) =>
      if r.getD idx 0 != -1 then some (sub units (r.getD idx 0).toNat (r.getD (idx + 1) 0).toNat) else some []
    | none => some []

def fastR (c : Cx) (k : Nat) (raw : List (List Int)) (names : Option (List String)) (tmpl : List Nat) : String :=
  let buf := fastReplace c.units (fun r =>
    substitute c.units (r.getD 0 0).toNat (plainVals c.units r) (fastNamed r names c.units) tmpl) raw
  hx buf ++ s!"@{fastReplaceLastIndex c.fl raw k}"

def fastP (c : Cx) (raw : List (List Int)) (lim : Option Nat) : String :=
  "[" ++ joinWith "," ((fastSplit c.units raw lim).map hxo) ++ "]@0"

def opPred (f : List String) : String :=
  let flags := f.getD 1 "-"
  let units := parseUnits (f.getD 2 "-")
  let starts := natList (f.getD 3 "-")
  let limit := (f.getD 4 "0").toNat?.getD 0
  let tmpl := parseUnits (f.getD 5 "-")
  let rows := ((f.getD 6 "x").splitOn "|").map parseRow
  let allm := parseRaw (f.getD 7 "-")
  let alls := parseRaw (f.getD 8 "-")
  let allr := ((f.getD 9 "").splitOn ";").filterMap (fun e =>
    match e.splitOn ":" with
    | [k, l] => some (k.toNat?.getD 0, l)
    | _ => none)
  let names := match rows.find? (fun r => r.isSome) with
    | some (some r) => r.names
    | _ => none
  let fl : RFlags := { global := flags.contains 'g', sticky := flags.contains 'y', unicode := flags.contains 'u' }
  let c : Cx := { fl := fl, f := fun i => (rows.getD i none), units := units }
  let per := starts.flatMap (fun k => [
    s!"E{k}=" ++ joinWith ">" (execChain c 3 k),
    s!"T{k}=" ++ joinWith ">" (testChain c 2 k),
    s!"M{k}=" ++ opM c k,
    s!"A{k}=" ++ opA c k,
    s!"S{k}=" ++ opS c k,
    s!"F{k}=" ++ opF c k,
    s!"R{k}=" ++ opR c k tmpl])
  let gen := joinWith ";" (per ++ ["P=" ++ opP c none, s!"PL{limit}=" ++ opP c (some limit)])
  let fper := starts.flatMap (fun k =>
    let rawk := match allr.find? (fun p => p.1 == k) with
      | some (_, l) => if l == "beyond" then [] else parseRaw l
      | none => []
    [ s!"M{k}=" ++ (if fl.global then fastM c allm else opM c k),
      s!"F{k}=" ++ fastF c k rawk names,
      s!"R{k}=" ++ fastR c k rawk names tmpl ])
  let fast := joinWith ";" (fper ++ ["P=" ++ fastP c alls none, s!"PL{limit}=" ++ fastP c alls (some limit)])
  let plain := joinWith ";" (starts.flatMap (fun k => [s!"F{k}=" ++ opFplain c k, s!"R{k}=" ++ opRplain c k tmpl]))
  gen ++ "\t" ++ fast ++ "\t" ++ plain

def fmtList (l : List MatchR) : String :=
  if l.isEmpty then "-" else joinWith "|" (l.map (fun r => joinWith "." (r.idx.map toString)))

/-- iter <flags> <subject> <start> <limit|-1> <sticky 0|1> <rows>: the "find all" iterations over a finder table:
coded = regexp2 wrapper loops as coded; ideal = with the protocol's sticky test; go = Go allMatches (limit, then
goja's sticky prefix filter). -/
def opIter (f : List String) : String :=
  let flags := f.getD 1 "-"
  let units := parseUnits (f.getD 2 "-")
  let start := (f.getD 3 "0").toNat?.getD 0
  let limit : Option Nat := match (f.getD 4 "-1").toNat? with | some l => some l | none => none
  let sticky := f.getD 5 "0" == "1"
  let rows := ((f.getD 6 "x").splitOn "|").map (fun r => if r == "na" then none else parseRow r)
  let fl : RFlags := { global := flags.contains 'g', sticky := flags.contains 'y', unicode := flags.contains 'u' }
  let fn : Finder := fun i => rows.getD i none
  let go0 := goAll fl fn units
  let go1 := match limit with | some l => go0.take l | none => go0
  let go2 := if sticky then stickyPrefix go1 0 else go1
  s!"coded={fmtList (r2All fl fn units start limit sticky)};ideal={fmtList (idealAll fl fn units start limit sticky)};go={fmtList go2}"

/-- ref <flags> <subject> <ncaps> <wbUnicode> <perlLoops> <ast>: finder table of the reference matcher. -/
def opRef (f : List String) : String :=
  let flags := f.getD 1 "-"
  let units := parseUnits (f.getD 2 "-")
  let ncaps := (f.getD 3 "0").toNat?.getD 0
  let o : Ref.Opts := { ignoreCase := flags.contains 'i', multiline := flags.contains 'm', dotAll := flags.contains 's',
                        unicode := flags.contains 'u', wbUnicode := f.getD 4 "0" == "1", perlLoops := f.getD 5 "0" == "1" }
  let toks := (f.getD 6 "").splitOn ","
  let (node, _) := Ref.parseNode 200 toks
  let rows := Ref.table o ncaps node units
  joinWith "|" (rows.map (fun r => match r with
    | none => "x"
    | some none => "na"
    | some (some l) => joinWith "." (l.map toString)))

/-- routes: `findAllRoute` (Tie-proved equal to the tree regenerated from regexp.go) on all 64 inputs, in the order
hasLinear, startZero, ascii, limitOne, unicode, pmOk (most significant first): r = regexp2 sweep, g = Go FindAll,
s = single-match shortcut. -/
def opRoutes : String :=
  let bs := [false, true]
  String.ofList (bs.flatMap fun a => bs.flatMap fun b => bs.flatMap fun c => bs.flatMap fun d => bs.flatMap fun e => bs.map fun f =>
    match findAllRoute ⟨a, b, c, d, e, f, false⟩ with
    | .r2All => 'r'
    | .goAllAscii => 'g'
    | .goAllUtf8 => 'g'
    | .linearSingle => 's'
    | _ => '?')

/-- pre16 <runes as dot-separated hex>: `convertRegexpToUtf16` of a pattern source, the code units the converted
literal pattern matches (mechanism) and the code units the original one matches per ECMA-262 (spec); "x" = outside
the literal fragment. -/
def opPre16 (f : List String) : String :=
  let runes := if f.getD 1 "-" == "-" then [] else ((f.getD 1 "").splitOn ".").map (fun x => (parseHex? x).getD 0)
  let conv := Pre.convert16 runes
  let show_ := fun (o : Option (List Nat)) => match o with | some l => hx l | none => "x"
  s!"pre16 conv={joinWith "." (conv.map hexOf)} mech={show_ (Pre.denote conv)} spec={show_ (Pre.denote runes)}"

def step (line : String) : String :=
  let f := words line
  match f.getD 0 "" with
  | "posmap" => opPosmap f
  | "utf8map" => opUtf8map f
  | "flags" => opFlags f
  | "adv" => opAdv f
  | "pred" => opPred f
  | "iter" => opIter f
  | "routes" => opRoutes
  | "pre16" => opPre16 f
  | "ref" => opRef f
  | _ => "unknown-op"

def main : IO Unit := lineMap step

end GojaModel.C20.Driver
