/-
  C20 — the fast `Symbol.split` loop over the complete sweep of the finder simulates the generic algorithm
  (ECMA-262 22.2.6.14), with or without a limit, in code-unit and in code-point (unicode) mode.
-/
import GojaModel.C20.Lemmas
namespace GojaModel.C20

abbrev G (f : Finder) (units : List Nat) (u : Bool) (lim : Option Nat) := splitLoop f units u lim

theorem advance_ge (units : List Nat) (q : Nat) (u : Bool) : q + 1 ≤ advance units q u := by
  unfold advance
  dsimp only
  repeat' split
  all_goals omega

/-- d-fold AdvanceStringIndex -/
def iterAdv (units : List Nat) (u : Bool) : Nat → Nat → Nat
  | 0, q => q
  | d + 1, q => iterAdv units u d (advance units q u)

theorem iterAdv_ge (units : List Nat) (u : Bool) : ∀ (d q : Nat), q + d ≤ iterAdv units u d q := by
  intro d
  induction d with
  | zero => intro q; simp [iterAdv]
  | succ d ih =>
    intro q
    have h1 := advance_ge units q u
    have h2 := ih (advance units q u)
    simp only [iterAdv]; omega

theorem iterAdv_false (units : List Nat) : ∀ (d q : Nat), iterAdv units false d q = q + d := by
  intro d
  induction d with
  | zero => intro q; rfl
  | succ d ih => intro q; simp only [iterAdv]; rw [ih]; simp [advance]; omega

theorem G_ge (f : Finder) (units : List Nat) (u : Bool) (lim) (fuel p q : Nat) (acc) (h : q ≥ units.length) :
    G f units u lim (fuel + 1) p q acc = acc ++ [some (sub units p units.length)] := by
  simp [G, splitLoop, h]

theorem G_none (f : Finder) (units : List Nat) (u : Bool) (lim) (fuel p q : Nat) (acc) (h : q < units.length)
    (hm : matchAt f q = none) : G f units u lim (fuel + 1) p q acc = G f units u lim fuel p (advance units q u) acc := by
  have : ¬ q ≥ units.length := by omega
  simp [G, splitLoop, this, hm]

theorem G_eqp (f : Finder) (units : List Nat) (u : Bool) (lim) (fuel p q : Nat) (acc) (r : MatchR) (h : q < units.length)
    (hm : matchAt f q = some r) (he : min r.stop units.length = p) :
    G f units u lim (fuel + 1) p q acc = G f units u lim fuel p (advance units q u) acc := by
  have : ¬ q ≥ units.length := by omega
  simp [G, splitLoop, this, hm, he]

/-- one splitting step of the generic loop, limit handling included (pure unfolding) -/
theorem G_split (f : Finder) (units : List Nat) (u : Bool) (lim : Option Nat) (fuel p q : Nat) (acc) (r : MatchR)
    (h : q < units.length) (hm : matchAt f q = some r) (he : min r.stop units.length ≠ p) :
    G f units u lim (fuel + 1) p q acc =
      (if lim == some (acc ++ [some (sub units p q)]).length then acc ++ [some (sub units p q)]
       else if ((resultArray units r).drop 1).length ≥
            (match lim with | some l => l - (acc ++ [some (sub units p q)]).length | none => ((resultArray units r).drop 1).length + 1)
         then (acc ++ [some (sub units p q)]) ++ ((resultArray units r).drop 1).take
            (match lim with | some l => l - (acc ++ [some (sub units p q)]).length | none => ((resultArray units r).drop 1).length + 1)
         else G f units u lim fuel (min r.stop units.length) (min r.stop units.length)
            ((acc ++ [some (sub units p q)]) ++ (resultArray units r).drop 1)) := by
  have : ¬ q ≥ units.length := by omega
  have hne : (min r.stop units.length == p) = false := by simp [he]
  simp only [G, splitLoop, this, if_false, hm, hne, Bool.false_eq_true]
  rfl

/-- skipping chain positions where nothing matches -/
theorem G_skip (f : Finder) (units : List Nat) (u : Bool) (lim) (p : Nat) (acc) : ∀ (d fuel q : Nat),
    (∀ i, i < d → iterAdv units u i q < units.length ∧ matchAt f (iterAdv units u i q) = none) →
    G f units u lim (fuel + d) p q acc = G f units u lim fuel p (iterAdv units u d q) acc := by
  intro d
  induction d with
  | zero => intro fuel q _; rfl
  | succ d ih =>
    intro fuel q hnone
    have h0 := hnone 0 (by omega)
    simp only [iterAdv] at h0
    have h1 : fuel + (d + 1) = (fuel + d) + 1 := by omega
    rw [h1, G_none f units u lim (fuel + d) p q acc h0.1 h0.2]
    simp only [iterAdv]
    exact ih fuel (advance units q u) (fun i hi => by
      have := hnone (i + 1) (by omega)
      simpa [iterAdv] using this)

/-- nothing matches from q on: the loop only appends the tail piece -/
theorem G_all_none (f : Finder) (units : List Nat) (u : Bool) (lim) (p : Nat) (acc) : ∀ (m fuel q : Nat),
    units.length + 1 - q ≤ m → units.length - q + 1 ≤ fuel →
    (∀ j, q ≤ j → j ≤ units.length → matchAt f j = none) →
    G f units u lim fuel p q acc = acc ++ [some (sub units p units.length)] := by
  intro m
  induction m with
  | zero =>
    intro fuel q hm hf _
    obtain ⟨k, rfl⟩ : ∃ k, fuel = k + 1 := ⟨fuel - 1, by omega⟩
    exact G_ge f units u lim k p q acc (by omega)
  | succ m ih =>
    intro fuel q hm hf hnone
    obtain ⟨k, rfl⟩ : ∃ k, fuel = k + 1 := ⟨fuel - 1, by omega⟩
    by_cases hq : q ≥ units.length
    · exact G_ge f units u lim k p q acc hq
    · have hlt : q < units.length := by omega
      rw [G_none f units u lim k p q acc hlt (hnone q (Nat.le_refl _) (by omega))]
      have hadv := advance_ge units q u
      exact ih k (advance units q u) (by omega) (by omega)
        (fun j hj1 hj2 => hnone j (by omega) hj2)

/-! fast loop -/
abbrev F (units : List Nat) (lim : Option Nat) := fastSplitLoop units lim

theorem F_nil (units : List Nat) (lim) (li found : Nat) (acc) : F units lim [] li found acc = (acc, false, li) := by
  simp [F, fastSplitLoop]

theorem F_skip (units : List Nat) (lim) (r : List Int) (rest) (li found : Nat) (acc)
    (h : rS r = rE r ∧ (rS r = li ∨ rS r = units.length)) :
    F units lim (r :: rest) li found acc = F units lim rest li found acc := by
  obtain ⟨h1, h2⟩ := h
  simp only [F, fastSplitLoop]
  have e1 : (r.getD 0 0).toNat = rS r := rfl
  have e2 : (r.getD 1 0).toNat = rE r := rfl
  rw [e1, e2]
  have : (rS r == rE r && (rS r == li || rS r == units.length)) = true := by
    rcases h2 with h2 | h2 <;> simp [h1, h2]
    · rw [← h1, h2]; simp
    · rw [← h1, h2]; simp
  simp [this]

theorem F_take (units : List Nat) (lim : Option Nat) (r : List Int) (rest) (li found : Nat) (acc)
    (h : ¬ (rS r = rE r ∧ (rS r = li ∨ rS r = units.length))) :
    F units lim (r :: rest) li found acc =
      (if lim == some (found + 1) then (acc ++ [some (sub units li (rS r))], true, rE r)
       else if (captureValsPlain units (r.drop 2)).length ≥
            (match lim with | some l => l - (found + 1) | none => (captureValsPlain units (r.drop 2)).length + 1)
         then ((acc ++ [some (sub units li (rS r))]) ++ (captureValsPlain units (r.drop 2)).take
            (match lim with | some l => l - (found + 1) | none => (captureValsPlain units (r.drop 2)).length + 1), true, rE r)
         else F units lim rest (rE r) (found + 1 + (captureValsPlain units (r.drop 2)).length)
            ((acc ++ [some (sub units li (rS r))]) ++ captureValsPlain units (r.drop 2))) := by
  simp only [F, fastSplitLoop]
  have e1 : (r.getD 0 0).toNat = rS r := rfl
  have e2 : (r.getD 1 0).toNat = rE r := rfl
  rw [e1, e2]
  have : (rS r == rE r && (rS r == li || rS r == units.length)) = false := by
    by_cases a : rS r = rE r
    · by_cases b : rS r = li
      · exact absurd ⟨a, Or.inl b⟩ h
      · by_cases c : rS r = units.length
        · exact absurd ⟨a, Or.inr c⟩ h
        · simp [a, b, c]
          constructor
          · rw [← a]; exact b
          · rw [← a]; exact c
    · simp [a]
  simp only [this, Bool.false_eq_true, if_false]
  rfl

/-! the sweep (non-sticky, unlimited) -/
abbrev S (fl : RFlags) (f : Finder) (units : List Nat) (fuel q : Nat) : List MatchR :=
  idealAllLoop fl f units false fuel q none

theorem S_gt (fl : RFlags) (f : Finder) (units : List Nat) (fuel q : Nat) (h : q > units.length) : S fl f units fuel q = [] := by
  cases fuel with
  | zero => rfl
  | succ k => simp [S, idealAllLoop, h]

theorem S_none (fl : RFlags) (f : Finder) (units : List Nat) (fuel q : Nat) (h : f q = none) : S fl f units (fuel + 1) q = [] := by
  simp only [S, idealAllLoop, h]
  split <;> rfl

theorem S_some (fl : RFlags) (f : Finder) (units : List Nat) (fuel q : Nat) (r : MatchR) (hq : q ≤ units.length) (h : f q = some r) :
    S fl f units (fuel + 1) q = r :: S fl f units fuel (if r.stop = r.start then advance units r.stop fl.unicode else r.stop) := by
  have : ¬ q > units.length := by omega
  simp only [S, idealAllLoop, this, if_false, h]
  simp

def finish (units : List Nat) (x : List (Option (List Nat)) × Bool × Nat) : List (Option (List Nat)) :=
  if x.2.1 then x.1 else x.1 ++ [some (sub units x.2.2 units.length)]

/-- what the theorem needs from captures: exec's `lowerBound` rule changes nothing (captures in order) -/
def CapsAgree (f : Finder) (units : List Nat) : Prop :=
  ∀ i r, f i = some r → captureVals units (r.idx.drop 2) 0 = captureValsPlain units (r.idx.drop 2)

/-- matches start on the AdvanceStringIndex chain of the position they were searched from (code point
boundaries in unicode mode; trivial in code-unit mode, see `onChain_false`). -/
def OnChain (f : Finder) (units : List Nat) (u : Bool) : Prop :=
  ∀ q r, f q = some r → ∃ d, iterAdv units u d q = r.start ∧ ∀ i, i < d → iterAdv units u i q < r.start

theorem onChain_false (f : Finder) (units : List Nat) (hf : Leftmost f units.length) : OnChain f units false := by
  intro q r h
  have := hf.ge q r h
  refine ⟨r.start - q, ?_, ?_⟩
  · rw [iterAdv_false]; omega
  · intro i hi; rw [iterAdv_false]; omega

theorem split_main (fl : RFlags) (f : Finder) (units : List Nat) (lim : Option Nat)
    (hf : Leftmost f units.length) (hc : CapsAgree f units) (hch : OnChain f units fl.unicode) :
    ∀ (m q p : Nat) (acc : List (Option (List Nat))) (fuelG fuelS : Nat),
      units.length + 1 - q ≤ m → p ≤ q → units.length + 2 - q ≤ fuelS → 2 * (units.length + 1 - q) + 2 ≤ fuelG →
      G f units fl.unicode lim fuelG p q acc =
        finish units (F units lim ((S fl f units fuelS q).map (·.idx)) p acc.length acc) := by
  intro m
  induction m with
  | zero =>
    intro q p acc fuelG fuelS hm hpq hS hG
    have hq : q > units.length := by omega
    obtain ⟨fg, rfl⟩ : ∃ k, fuelG = k + 1 := ⟨fuelG - 1, by omega⟩
    rw [G_ge f units _ lim fg p q acc (by omega), S_gt fl f units fuelS q hq]
    simp [F_nil, finish]
  | succ m ih =>
    intro q p acc fuelG fuelS hm hpq hS hG
    by_cases hq : q > units.length
    · obtain ⟨fg, rfl⟩ : ∃ k, fuelG = k + 1 := ⟨fuelG - 1, by omega⟩
      rw [G_ge f units _ lim fg p q acc (by omega), S_gt fl f units fuelS q hq]
      simp [F_nil, finish]
    · have hqn : q ≤ units.length := by omega
      obtain ⟨fs, rfl⟩ : ∃ k, fuelS = k + 1 := ⟨fuelS - 1, by omega⟩
      cases hfq : f q with
      | none =>
        rw [S_none fl f units fs q hfq]
        simp only [List.map_nil, F_nil, finish, Bool.false_eq_true, if_false]
        exact G_all_none f units _ lim p acc (units.length + 1 - q) fuelG q (Nat.le_refl _) (by omega)
          (fun j h1 h2 => by
            have := hf.none_up q j hfq h1 h2
            simp [matchAt, this])
      | some r =>
        have hge := hf.ge q r hfq
        have hin := hf.inside q r hfq
        rw [S_some fl f units fs q r hqn hfq]
        obtain ⟨d, hd1, hd2⟩ := hch q r hfq
        have hdle : q + d ≤ r.start := by have := iterAdv_ge units fl.unicode d q; omega
        have hat : matchAt f r.start = some r := by
          have := hf.stable q r r.start hfq hge (Nat.le_refl _)
          simp [matchAt, this]
        have hS : rS r.idx = r.start := rfl
        have hE : rE r.idx = r.stop := rfl
        simp only [List.map_cons]
        by_cases hend : r.start = units.length
        · -- a match at the very end never splits: nothing matches before it on the chain, then q reaches the end
          have hemp : r.stop = r.start := by omega
          rw [F_skip units lim r.idx _ p acc.length acc ⟨by rw [hS, hE, hemp], Or.inr (by rw [hS, hend])⟩]
          simp only [hemp, if_true]
          rw [S_gt fl f units fs _ (by have := advance_ge units r.start fl.unicode; omega)]
          simp only [List.map_nil, F_nil, finish, Bool.false_eq_true, if_false]
          have hskip := G_skip f units fl.unicode lim p acc d (fuelG - d) q (fun i hi => by
            have h1 := hd2 i hi
            have h2 := iterAdv_ge units fl.unicode i q
            have hj := hf.stable q r (iterAdv units fl.unicode i q) hfq (by omega) (by omega)
            have : r.start ≠ iterAdv units fl.unicode i q := by omega
            exact ⟨by omega, by simp [matchAt, hj, this]⟩)
          have e1 : fuelG - d + d = fuelG := by omega
          rw [e1, hd1] at hskip
          rw [hskip]
          obtain ⟨fg, hfg⟩ : ∃ k, fuelG - d = k + 1 := ⟨fuelG - d - 1, by omega⟩
          rw [hfg, G_ge f units _ lim fg p r.start acc (by omega)]
        · have hlt : r.start < units.length := by omega
          have hmin : min r.stop units.length = r.stop := by omega
          have hskip := G_skip f units fl.unicode lim p acc d (fuelG - d) q (fun i hi => by
            have h1 := hd2 i hi
            have h2 := iterAdv_ge units fl.unicode i q
            have hj := hf.stable q r (iterAdv units fl.unicode i q) hfq (by omega) (by omega)
            have : r.start ≠ iterAdv units fl.unicode i q := by omega
            exact ⟨by omega, by simp [matchAt, hj, this]⟩)
          have e1 : fuelG - d + d = fuelG := by omega
          rw [e1, hd1] at hskip
          rw [hskip]
          have hadv := advance_ge units r.start fl.unicode
          by_cases hsk : r.stop = r.start ∧ r.start = p
          · obtain ⟨hemp, hp⟩ := hsk
            obtain ⟨fg, hfg⟩ : ∃ k, fuelG - d = k + 1 := ⟨fuelG - d - 1, by omega⟩
            rw [hfg, G_eqp f units _ lim fg p r.start acc r hlt hat (by omega)]
            rw [F_skip units lim r.idx _ p acc.length acc ⟨by rw [hS, hE, hemp], Or.inl (by rw [hS, hp])⟩]
            simp only [hemp, if_true]
            exact ih (advance units r.start fl.unicode) p acc fg fs (by omega) (by omega) (by omega) (by omega)
          · have hne : min r.stop units.length ≠ p := by
              intro h; apply hsk; omega
            obtain ⟨fg, hfg⟩ : ∃ k, fuelG - d = k + 1 := ⟨fuelG - d - 1, by omega⟩
            rw [hfg, G_split f units _ lim fg p r.start acc r hlt hat hne, hmin]
            have hnotskip : ¬ (rS r.idx = rE r.idx ∧ (rS r.idx = p ∨ rS r.idx = units.length)) := by
              rw [hS, hE]; intro ⟨a, b⟩
              rcases b with b | b
              · exact hsk ⟨a.symm, b⟩
              · exact hend b
            rw [F_take units lim r.idx _ p acc.length acc hnotskip, hS, hE]
            have hcaps : (resultArray units r).drop 1 = captureValsPlain units (r.idx.drop 2) := by
              simp [resultArray, hc q r hfq]
            rw [hcaps]
            have hlen : (acc ++ [some (sub units p r.start)]).length = acc.length + 1 := by simp
            rw [hlen]
            by_cases hl1 : (lim == some (acc.length + 1)) = true
            · simp [hl1, finish]
            · simp only [hl1, Bool.false_eq_true, if_false]
              generalize hroom : (match lim with
                | some l => l - (acc.length + 1)
                | none => (captureValsPlain units (r.idx.drop 2)).length + 1) = room
              by_cases hr : (captureValsPlain units (r.idx.drop 2)).length ≥ room
              · simp [hr, finish]
              · simp only [hr, if_false]
                have hlen2 : acc.length + 1 + (captureValsPlain units (r.idx.drop 2)).length =
                    ((acc ++ [some (sub units p r.start)]) ++ captureValsPlain units (r.idx.drop 2)).length := by
                  simp; omega
                rw [hlen2]
                by_cases hemp : r.stop = r.start
                · simp only [hemp, if_true]
                  obtain ⟨fg2, hfg2⟩ : ∃ k, fg = k + 1 := ⟨fg - 1, by omega⟩
                  rw [hfg2, G_eqp f units _ lim fg2 r.start r.start _ r hlt hat (by omega)]
                  exact ih (advance units r.start fl.unicode) r.start _ fg2 fs (by omega) (by omega) (by omega) (by omega)
                · simp only [hemp, if_false]
                  exact ih r.stop r.stop _ fg fs (by omega) (by omega) (by omega) (by omega)

end GojaModel.C20
