/-
  C08 — model `TryFin`, part (i): a structured control language with a completion-record
  reference semantics (ECMA-262 style: normal / break / continue / return / throw records,
  UpdateEmpty, LoopContinues, IteratorClose) that produces an event log and a final completion.

  Core Lean only (linked into the driver exe).  Everything is total and structurally recursive:
  loops iterate over a literal bound, for-of over an instrumented iterator of `n` items.

  Events are what the instrumented JavaScript program writes with `log(...)`:
    log k      user effect                                   JS: log(k)
    tryE i     entering try statement i that HAS a finally   JS: first statement of the try block
    finE i     entering the finally block of try i           JS: first statement of the finally block
    caught i v catch clause of try i received v              JS: first statement of the catch block
    itOpen j   [Symbol.iterator]() of iterator j called
    itNext j   next() of iterator j called
    itDone j   next() reports done:true (exhaustion)
    itFail j   next() throws
    itRet j    return() of iterator j called
    fatal      an uncatchable error (stack overflow / interrupt) is raised here
-/
namespace GojaModel.C08

abbrev Label := Nat
abbrev Val := Nat

/-- canonical stand-in for a TypeError thrown by the engine (IteratorClose on a non-object). -/
def TE : Val := 999

inductive RetMode | ok | thr | nonobj
  deriving DecidableEq, Repr

/-- instrumented iterator: yields 0..n-1; the `nextThrow`-th call (0-based) of next() throws
`100+id`; return() logs and then behaves per `ret` (`thr` throws `200+id`, `nonobj` returns 1). -/
structure IterSpec where
  id : Nat
  n : Nat
  nextThrow : Option Nat
  ret : RetMode
  lex : Bool := false     -- `for (let x of ..)` with a closure capturing x (head scope + per-iteration scope)
  deriving DecidableEq, Repr

/-- `forlet` = `for (let q = 0; q < n; q++)` with a closure capturing `q` (per-iteration scope) -/
inductive LoopKind | while_ | do_ | for_ | forin | forlet
  deriving DecidableEq, Repr

inductive Stmt
  | skip
  | log (k : Nat)
  | seq (a b : Stmt)
  | brk (l : Option Label)
  | cont (l : Option Label)
  | ret (v : Val)
  | thr (v : Val)
  | fatal
  | tryS (i : Nat) (b : Stmt) (hasC : Bool) (c : Stmt) (hasF : Bool) (f : Stmt)
  | loop (k : LoopKind) (id n : Nat) (body : Stmt)
  | forOf (sp : IterSpec) (body : Stmt)
  | lbl (l : Label) (s : Stmt)
  | sw (useEnv : Bool) (k : Nat) (s0 s1 : Stmt)
  | withS (s : Stmt)
  | blk (s : Stmt)
  | ifIter (m : Nat) (s : Stmt)
  deriving DecidableEq, Repr

inductive Ev
  | log (k : Nat)
  | tryE (i : Nat)
  | finE (i : Nat)
  | caught (i : Nat) (v : Val)
  | itOpen (j : Nat)
  | itNext (j : Nat)
  | itDone (j : Nat)
  | itFail (j : Nat)
  | itRet (j : Nat)
  | fatal
  deriving DecidableEq, Repr

/-- Completion records (ECMA-262 6.2.4) + `fatal` for the uncatchable errors of the engine. -/
inductive Compl
  | normal (v : Option Val)
  | brk (l : Option Label) (v : Option Val)
  | cont (l : Option Label) (v : Option Val)
  | ret (v : Val)
  | thr (v : Val)
  | fatal
  deriving DecidableEq, Repr

abbrev Res := Compl × List Ev

namespace Compl

def value : Compl → Option Val
  | normal v => v
  | brk _ v => v
  | cont _ v => v
  | ret v => some v
  | thr v => some v
  | fatal => none

/-- UpdateEmpty(completionRecord, value) -/
def updateEmpty (c : Compl) (v : Val) : Compl :=
  match c with
  | normal none => normal (some v)
  | brk l none => brk l (some v)
  | cont l none => cont l (some v)
  | c => c

def isNormal : Compl → Bool
  | normal _ => true
  | _ => false

def isFatal : Compl → Bool
  | fatal => true
  | _ => false

/-- LoopContinues(completion, labelSet) (ECMA-262 14.7.1.1) -/
def loopContinues (c : Compl) (ls : List Label) : Bool :=
  match c with
  | normal _ => true
  | cont none _ => true
  | cont (some l) _ => ls.contains l
  | _ => false

/-- BreakableStatement LabelledEvaluation: an unlabelled break is consumed by the loop / switch. -/
def exitBreakable (c : Compl) : Compl :=
  match c with
  | brk none v => normal (some (v.getD 0))
  | c => c

end Compl

open Compl

/-- IteratorClose(iteratorRecord, completion) (ECMA-262 7.4.11), plus: `fatal` closes nothing. -/
def iteratorClose (sp : IterSpec) (status : Compl) : Res :=
  match status with
  | .fatal => (.fatal, [])
  | .thr v => (.thr v, [Ev.itRet sp.id])
  | st =>
    match sp.ret with
    | .ok => (st, [Ev.itRet sp.id])
    | .thr => (.thr (200 + sp.id), [Ev.itRet sp.id])
    | .nonobj => (.thr TE, [Ev.itRet sp.id])

/-- body of the iteration statements `while`, `do`, `for`, `for-in` (14.7.2-14.7.5): `r` remaining
iterations, `i` the current index, `V` the running completion value. -/
def loopFrom (run : Nat → Res) (ls : List Label) : Nat → Nat → Val → Res
  | 0, _, V => (.normal (some V), [])
  | r + 1, i, V =>
    let (c, l) := run i
    if c.loopContinues ls then
      let (c2, l2) := loopFrom run ls r (i + 1) (c.value.getD V)
      (c2, l ++ l2)
    else
      ((c.updateEmpty V).exitBreakable, l)

/-- ForIn/OfBodyEvaluation for `for-of` (14.7.5.7): `r` = remaining calls of next(). -/
def forOfFrom (run : Nat → Res) (sp : IterSpec) (ls : List Label) : Nat → Nat → Val → Res
  | 0, _, V => (.normal (some V), [Ev.itNext sp.id, Ev.itDone sp.id])  -- unreachable: fuel is n+1
  | r + 1, i, V =>
    if sp.nextThrow = some i then
      (.thr (100 + sp.id), [Ev.itNext sp.id, Ev.itFail sp.id])
    else if sp.n ≤ i then
      (.normal (some V), [Ev.itNext sp.id, Ev.itDone sp.id])
    else
      let (c, l) := run i
      if c.loopContinues ls then
        let (c2, l2) := forOfFrom run sp ls r (i + 1) (c.value.getD V)
        (c2, Ev.itNext sp.id :: (l ++ l2))
      else
        let (c3, l3) := iteratorClose sp (c.updateEmpty V)
        (c3.exitBreakable, Ev.itNext sp.id :: (l ++ l3))

def iterations (k : LoopKind) (n : Nat) : Nat :=
  match k with
  | .do_ => if n = 0 then 1 else n
  | _ => n

/-- `a; b` as a StatementList (14.2.2): UpdateEmpty(b's completion, a's value). -/
def seqRes (ra : Res) (rb : Unit → Res) : Res :=
  match ra with
  | (.normal va, la) =>
    let (cb, lb) := rb ()
    (match va with | some v => cb.updateEmpty v | none => cb, la ++ lb)
  | r => r

/-- tail of the two-clause switch: clause 1 with running value `V`. -/
def swTail (V : Val) (r1 : Res) : Res :=
  match r1.1 with
  | .normal v => (.normal (some (v.getD V)), r1.2)
  | c => ((c.updateEmpty V).exitBreakable, r1.2)

/-- the two-clause switch: clauses from `sel` on, falling through (14.12.2 CaseBlockEvaluation). -/
def swRes (sel : Nat) (r0 r1 : Unit → Res) : Res :=
  if sel = 0 then
    match (r0 ()).1 with
    | .normal v => ((swTail (v.getD 0) (r1 ())).1, (r0 ()).2 ++ (swTail (v.getD 0) (r1 ())).2)
    | c => ((c.updateEmpty 0).exitBreakable, (r0 ()).2)
  else if sel = 1 then swTail 0 (r1 ())
  else (.normal (some 0), [])

/-- try block followed by the catch clause (if any, and if the block threw). -/
def catchPart (i : Nat) (rb : Res) (hasC : Bool) (rc : Unit → Res) : Res :=
  match rb.1, hasC with
  | .thr v, true => ((rc ()).1, rb.2 ++ Ev.caught i v :: (rc ()).2)
  | _, _ => rb

/-- `finally` after the try/catch part `rbc` (14.15.3): runs exactly once unless `rbc` is fatal;
a non-normal completion of the finally block overrides. -/
def finPart (i : Nat) (rbc : Res) (rf : Unit → Res) : Res :=
  match rbc.1 with
  | .fatal => (.fatal, Ev.tryE i :: rbc.2)
  | cc => ((match (rf ()).1 with | .normal _ => cc | c => c).updateEmpty 0,   -- 14.15.3 step 4: UpdateEmpty(F, undefined)
           Ev.tryE i :: (rbc.2 ++ Ev.finE i :: (rf ()).2))

/-- try / catch / finally (14.15.3).  `rb` body, `rc` catch clause, `rf` finally block. -/
def tryRes (i : Nat) (rb : Res) (hasC : Bool) (rc : Unit → Res) (hasF : Bool) (rf : Unit → Res) : Res :=
  if hasF then finPart i (catchPart i rb hasC rc) rf
  else ((catchPart i rb hasC rc).1.updateEmpty 0, (catchPart i rb hasC rc).2)

/-- The reference semantics.  `env` = index of the current iteration of the innermost enclosing
loop (what `ifIter` / `sw` look at), `ls` = label set of the statement (LabelledEvaluation). -/
def exec (env : Nat) (ls : List Label) : Stmt → Res
  | .skip => (.normal none, [])
  | .log k => (.normal (some k), [Ev.log k])
  | .seq a b => seqRes (exec env [] a) (fun _ => exec env [] b)
  | .brk l => (.brk l none, [])
  | .cont l => (.cont l none, [])
  | .ret v => (.ret v, [])
  | .thr v => (.thr v, [])
  | .fatal => (.fatal, [Ev.fatal])
  | .tryS i b hasC c hasF f =>
    tryRes i (exec env [] b) hasC (fun _ => exec env [] c) hasF (fun _ => exec env [] f)
  | .loop k _ n body => loopFrom (fun i => exec i [] body) ls (iterations k n) 0 0
  | .forOf sp body =>
    let (c, l) := forOfFrom (fun i => exec i [] body) sp ls (sp.n + 1) 0 0
    (c, Ev.itOpen sp.id :: l)
  | .lbl l s =>
    let (c, lg) := exec env (l :: ls) s
    (match c with
     | .brk (some l') v => if l' = l then .normal v else c
     | c => c, lg)
  | .sw u k s0 s1 => swRes (if u then env else k) (fun _ => exec env [] s0) (fun _ => exec env [] s1)
  | .withS s =>
    let (c, lg) := exec env [] s
    (c.updateEmpty 0, lg)
  | .blk s => exec env [] s
  | .ifIter m s =>
    if env = m then
      let (c, lg) := exec env [] s
      (c.updateEmpty 0, lg)
    else (.normal (some 0), [])

/-- whole program run as a function body / script: leftover completion as observed by the caller. -/
def refSem (p : Stmt) : Res := exec 0 [] p

/-! ### bracket discipline of the event log -/

inductive Fr
  | tr (i : Nat)
  | it (j : Nat)
  deriving DecidableEq, Repr

def closeTop (st : List Fr) (f : Fr) : Option (List Fr) :=
  match st with
  | g :: r => if g = f then some r else none
  | [] => none

/-- one event against the stack of pending finally blocks / open iterators -/
def stepEv (st : List Fr) : Ev → Option (List Fr)
  | .tryE i => some (Fr.tr i :: st)
  | .finE i => closeTop st (Fr.tr i)
  | .itOpen j => some (Fr.it j :: st)
  | .itDone j => closeTop st (Fr.it j)
  | .itFail j => closeTop st (Fr.it j)
  | .itRet j => closeTop st (Fr.it j)
  | _ => some st

def scan (st : List Fr) : List Ev → Option (List Fr)
  | [] => some st
  | e :: es => match stepEv st e with
    | some st' => scan st' es
    | none => none

end GojaModel.C08
