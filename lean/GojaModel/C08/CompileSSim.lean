/-
  C08 — the simulation theorem `sim` (statement level) for the stage-1 fragment.
-/
import GojaModel.C08.CompileSLemmas

namespace GojaModel.C08
open Compl

attribute [local simp] VM.step VM.next VM.out VM.pushV VM.popV VM.top VM.jmp VM.setCnt VM.getCnt VM.boolV

/-- one ordinary instruction: the successor state and what it preserves -/
theorem one_step {C : Code} {σ : VM} {i : Instr} {l : List Ev} {I : List Nat} {rf : Bool}
    (hh : σ.halted = none) (hi : C[σ.pc]? = some i)
    (hc : Common σ (VM.step σ i) l I rf) : Reach C σ (VM.step σ i) ∧ Common σ (VM.step σ i) l I rf :=
  ⟨Reach.one hh hi, hc⟩

theorem findBrk_try {l : Option Label} {b : Bool} {ctx : List BI} {ex : List Instr} {t : Nat}
    (h : findBrk l b (BI.try_ :: ctx) = some (ex, t)) :
    ∃ ex', ex = Instr.leaveTry :: ex' ∧ findBrk l b ctx = some (ex', t) := by
  simp only [findBrk] at h
  cases h' : findBrk l b ctx with
  | none => simp [h'] at h
  | some p =>
    obtain ⟨ex', t'⟩ := p
    simp [h'] at h
    exact ⟨ex', h.1.symm, by rw [h.2]⟩

theorem findBrk_scope {l : Option Label} {b : Bool} {ctx : List BI} {n : Nat} {ex : List Instr} {t : Nat}
    (h : findBrk l b (BI.scope n :: ctx) = some (ex, t)) :
    ∃ ex', ex = Instr.leaveBlock n :: ex' ∧ findBrk l b ctx = some (ex', t) := by
  simp only [findBrk] at h
  cases h' : findBrk l b ctx with
  | none => simp [h'] at h
  | some p =>
    obtain ⟨ex', t'⟩ := p
    simp [h'] at h
    exact ⟨ex', h.1.symm, by rw [h.2]⟩

theorem findBrk_with {l : Option Label} {b : Bool} {ctx : List BI} {ex : List Instr} {t : Nat}
    (h : findBrk l b (BI.with_ :: ctx) = some (ex, t)) :
    ∃ ex', ex = Instr.leaveWith :: ex' ∧ findBrk l b ctx = some (ex', t) := by
  simp only [findBrk] at h
  cases h' : findBrk l b ctx with
  | none => simp [h'] at h
  | some p =>
    obtain ⟨ex', t'⟩ := p
    simp [h'] at h
    exact ⟨ex', h.1.symm, by rw [h.2]⟩

/-- an exit point in `x :: ctx` whose first exit instruction `i` is an ordinary one-step
instruction: after executing it the VM is at the exit point of `ctx` -/
theorem exitPt_peel {C : Code} {ctx : List BI} {τ : VM} {lb : Option Label} {b : Bool} {i : Instr}
    {ex' : List Instr} {t : Nat} (hf : findBrk lb b ctx = some (ex', t))
    (hc : CodeAt C τ.pc ((i :: ex') ++ [Instr.jump (CS.rel t (τ.pc + (i :: ex').length))])) (τ' : VM)
    (hpc : τ'.pc = τ.pc + 1) : ExitPt C ctx τ' lb b := by
  refine ⟨ex', t, hf, ?_⟩
  have := codeAt_tail hc
  rw [hpc]
  have e : τ.pc + (i :: ex').length = τ.pc + 1 + ex'.length := by simp; omega
  rw [e] at this
  exact this

/-- leaving a block scope (`blk`, catch parameter scope): the inner statement ran with `n` extra
stack slots in context `scope n :: ctx`; the code `leaveBlock n` follows it at `e1`. -/
theorem wrapScope {C : Code} {ctx : List BI} {σ σ1 : VM} {n e1 : Nat} {I : List Nat} {rf : Bool}
    {l0 l : List Ev} {k : K} (ys : List Val) (hn : ys.length = n)
    (hr0 : Reach C σ σ1) (hc0 : Common σ σ1 l0 I rf) (hs : σ1.stack = ys ++ σ.stack)
    (hleave : C[e1]? = some (Instr.leaveBlock n))
    (hsim : SimK C (BI.scope n :: ctx) σ1 e1 I rf l k) : SimK C ctx σ (e1 + 1) I rf (l0 ++ l) k := by
  cases k with
  | normal =>
    obtain ⟨τ, h1, h2, h3, h4⟩ := hsim
    refine ⟨VM.step τ (.leaveBlock n), hr0.trans (h1.trans (Reach.one h2.halted (by rw [h3]; exact hleave))), ?_, ?_, ?_⟩
    · have : Common τ (VM.step τ (.leaveBlock n)) [] I rf :=
        ⟨by simp, by simp, by simpa using h2.iters, by simpa using h2.halted, fun _ _ => by simp, fun _ => by simp⟩
      simpa using hc0.trans (h2.trans this)
    · simp [h3]
    · simp [h4, hs, ← hn]
  | brk lb =>
    obtain ⟨τ, h1, h2, h3, ex, t, hf, hcd⟩ := hsim
    obtain ⟨ex', rfl, hf'⟩ := findBrk_scope hf
    have hi : C[τ.pc]? = some (Instr.leaveBlock n) := codeAt_head hcd
    refine ⟨VM.step τ (.leaveBlock n), hr0.trans (h1.trans (Reach.one h2.halted hi)), ?_, ?_, ?_⟩
    · have : Common τ (VM.step τ (.leaveBlock n)) [] I rf :=
        ⟨by simp, by simp, by simpa using h2.iters, by simpa using h2.halted, fun _ _ => by simp, fun _ => by simp⟩
      simpa using hc0.trans (h2.trans this)
    · simp [h3, hs, ← hn]
    · exact exitPt_peel hf' hcd _ (by simp)
  | cont lb =>
    obtain ⟨τ, h1, h2, h3, ex, t, hf, hcd⟩ := hsim
    obtain ⟨ex', rfl, hf'⟩ := findBrk_scope hf
    have hi : C[τ.pc]? = some (Instr.leaveBlock n) := codeAt_head hcd
    refine ⟨VM.step τ (.leaveBlock n), hr0.trans (h1.trans (Reach.one h2.halted hi)), ?_, ?_, ?_⟩
    · have : Common τ (VM.step τ (.leaveBlock n)) [] I rf :=
        ⟨by simp, by simp, by simpa using h2.iters, by simpa using h2.halted, fun _ _ => by simp, fun _ => by simp⟩
      simpa using hc0.trans (h2.trans this)
    · simp [h3, hs, ← hn]
    · exact exitPt_peel hf' hcd _ (by simp)
  | ret v =>
    obtain ⟨τ, h1, h2, ⟨xs, h3⟩, h4⟩ := hsim
    exact ⟨τ, hr0.trans h1, hc0.trans h2, ⟨xs ++ ys, by rw [h3, hs]; simp⟩, h4⟩
  | thr v =>
    obtain ⟨τ, h2, ⟨xs, h3⟩, h4⟩ := hsim
    exact ⟨τ, hc0.trans h2, ⟨xs ++ ys, by rw [h3, hs]; simp⟩, hr0.trans h4⟩
  | fatal => exact hsim

/-- leaving a `with` statement -/
theorem wrapWith {C : Code} {ctx : List BI} {σ σ1 : VM} {e1 : Nat} {I : List Nat} {rf : Bool}
    {l0 l : List Ev} {k : K}
    (hr0 : Reach C σ σ1) (hc0 : Common σ σ1 l0 I rf) (hs : σ1.stack = σ.stack)
    (hleave : C[e1]? = some Instr.leaveWith)
    (hsim : SimK C (BI.with_ :: ctx) σ1 e1 I rf l k) : SimK C ctx σ (e1 + 1) I rf (l0 ++ l) k := by
  cases k with
  | normal =>
    obtain ⟨τ, h1, h2, h3, h4⟩ := hsim
    refine ⟨VM.step τ .leaveWith, hr0.trans (h1.trans (Reach.one h2.halted (by rw [h3]; exact hleave))), ?_, ?_, ?_⟩
    · have : Common τ (VM.step τ .leaveWith) [] I rf :=
        ⟨by simp, by simp, by simpa using h2.iters, by simpa using h2.halted, fun _ _ => by simp, fun _ => by simp⟩
      simpa using hc0.trans (h2.trans this)
    · simp [h3]
    · simp [h4, hs]
  | brk lb =>
    obtain ⟨τ, h1, h2, h3, ex, t, hf, hcd⟩ := hsim
    obtain ⟨ex', rfl, hf'⟩ := findBrk_with hf
    have hi : C[τ.pc]? = some Instr.leaveWith := codeAt_head hcd
    refine ⟨VM.step τ .leaveWith, hr0.trans (h1.trans (Reach.one h2.halted hi)), ?_, ?_, ?_⟩
    · have : Common τ (VM.step τ .leaveWith) [] I rf :=
        ⟨by simp, by simp, by simpa using h2.iters, by simpa using h2.halted, fun _ _ => by simp, fun _ => by simp⟩
      simpa using hc0.trans (h2.trans this)
    · simp [h3, hs]
    · exact exitPt_peel hf' hcd _ (by simp)
  | cont lb =>
    obtain ⟨τ, h1, h2, h3, ex, t, hf, hcd⟩ := hsim
    obtain ⟨ex', rfl, hf'⟩ := findBrk_with hf
    have hi : C[τ.pc]? = some Instr.leaveWith := codeAt_head hcd
    refine ⟨VM.step τ .leaveWith, hr0.trans (h1.trans (Reach.one h2.halted hi)), ?_, ?_, ?_⟩
    · have : Common τ (VM.step τ .leaveWith) [] I rf :=
        ⟨by simp, by simp, by simpa using h2.iters, by simpa using h2.halted, fun _ _ => by simp, fun _ => by simp⟩
      simpa using hc0.trans (h2.trans this)
    · simp [h3, hs]
    · exact exitPt_peel hf' hcd _ (by simp)
  | ret v =>
    obtain ⟨τ, h1, h2, ⟨xs, h3⟩, h4⟩ := hsim
    exact ⟨τ, hr0.trans h1, hc0.trans h2, ⟨xs, by rw [h3, hs]⟩, h4⟩
  | thr v =>
    obtain ⟨τ, h2, ⟨xs, h3⟩, h4⟩ := hsim
    exact ⟨τ, hc0.trans h2, ⟨xs, by rw [h3, hs]⟩, hr0.trans h4⟩
  | fatal => exact hsim

theorem SimK.end_irrel {C : Code} {ctx : List BI} {σ : VM} {e e' : Nat} {I : List Nat} {rf : Bool}
    {l : List Ev} {k : K} (hk : k ≠ K.normal) (h : SimK C ctx σ e I rf l k) : SimK C ctx σ e' I rf l k := by
  cases k with
  | normal => exact absurd rfl hk
  | _ => exact h

/-- sequencing -/
theorem simSeq {C : Code} {ctx : List BI} {σ : VM} {e1 e2 : Nat} {I : List Nat} {rf : Bool}
    {ra : Res} {rb : Unit → Res}
    (ha : SimK C ctx σ e1 I rf ra.2 (kind ra.1))
    (hb : ∀ τ, Reach C σ τ → Common σ τ ra.2 I rf → τ.pc = e1 → τ.stack = σ.stack →
        SimK C ctx τ e2 I rf (rb ()).2 (kind (rb ()).1)) :
    SimK C ctx σ e2 I rf (seqRes ra rb).2 (kind (seqRes ra rb).1) := by
  obtain ⟨ca, la⟩ := ra
  cases ca with
  | normal va =>
    obtain ⟨τ, h1, h2, h3, h4⟩ := ha
    have hb' := hb τ h1 h2 h3 h4
    simp only [seqRes]
    cases hrb : rb () with
    | mk cb lb =>
      rw [hrb] at hb'
      cases va with
      | none => exact SimK.prepend h1 h2 h4 hb'
      | some v =>
        show SimK C ctx σ e2 I rf (la ++ lb) (kind (cb.updateEmpty v))
        rw [kind_updateEmpty]
        exact SimK.prepend h1 h2 h4 hb'
  | brk l v => exact SimK.end_irrel (k := K.brk l) (by simp) ha
  | cont l v => exact SimK.end_irrel (k := K.cont l) (by simp) ha
  | ret v => exact SimK.end_irrel (k := K.ret v) (by simp) ha
  | thr v => exact SimK.end_irrel (k := K.thr v) (by simp) ha
  | fatal => exact SimK.end_irrel (k := K.fatal) (by simp) ha

/-- what a labelled statement does to the kind of its body's completion -/
def lblK (l : Label) : K → K
  | .brk (some l') => if l' = l then .normal else .brk (some l')
  | k => k

theorem exec_lbl_kind (env : Nat) (ls : List Label) (l : Label) (s : Stmt) :
    kind (exec env ls (Stmt.lbl l s)).1 = lblK l (kind (exec env (l :: ls) s).1) ∧
    (exec env ls (Stmt.lbl l s)).2 = (exec env (l :: ls) s).2 := by
  simp only [exec]
  cases h : exec env (l :: ls) s with
  | mk c lg =>
    cases c with
    | brk lb v =>
      cases lb with
      | none => simp [kind, lblK]
      | some l' => by_cases h : l' = l <;> simp [h, kind, lblK]
    | _ => simp [kind, lblK]

/-- leaving a labelled (non-loop) statement: `break l` jumps to the end of the statement -/
theorem wrapLabel {C : Code} {ctx : List BI} {σ : VM} {l : Label} {bp : Nat} {I : List Nat} {rf : Bool}
    {lg : List Ev} {k : K}
    (hsim : SimK C (BI.label l bp :: ctx) σ bp I rf lg k) : SimK C ctx σ bp I rf lg (lblK l k) := by
  cases k with
  | normal => exact hsim
  | brk lb =>
    obtain ⟨τ, h1, h2, h3, ex, t, hf, hcd⟩ := hsim
    cases lb with
    | none =>
      simp only [findBrk] at hf
      exact ⟨τ, h1, h2, h3, ex, t, by simpa using hf, hcd⟩
    | some l' =>
      by_cases hl : l' = l
      · subst hl
        have hf2 : ex = [] ∧ t = bp := by simpa [findBrk, eq_comm] using hf
        obtain ⟨hex, ht⟩ := hf2
        subst hex
        subst ht
        have hi : C[τ.pc]? = some (Instr.jump (CS.rel t (τ.pc + 0))) := codeAt_head hcd
        simp only [lblK, if_true]
        refine ⟨VM.step τ (.jump (CS.rel t (τ.pc + 0))), h1.trans (Reach.one h2.halted hi), ?_, ?_, ?_⟩
        · have : Common τ (VM.step τ (.jump (CS.rel t (τ.pc + 0)))) [] I rf :=
            ⟨by simp, by simp, by simpa using h2.iters, by simpa using h2.halted, fun _ _ => by simp, fun _ => by simp⟩
          simpa using h2.trans this
        · have := jmp_rel τ.pc t
          simpa using this
        · simpa using h3
      · have hne : ¬ (l' = l) := hl
        simp only [lblK, hl, if_false]
        simp only [findBrk] at hf
        have hf' : findBrk (some l') true ctx = some (ex, t) := by
          simpa [hl] using hf
        exact ⟨τ, h1, h2, h3, ex, t, hf', hcd⟩
  | cont lb =>
    obtain ⟨τ, h1, h2, h3, ex, t, hf, hcd⟩ := hsim
    simp only [findBrk, Bool.and_false] at hf
    exact ⟨τ, h1, h2, h3, ex, t, by simpa using hf, hcd⟩
  | ret v => exact hsim
  | thr v => exact hsim
  | fatal => exact hsim

theorem exec_lbl_adj (env : Nat) (l : Label) (s : Stmt) :
    exec env [] (Stmt.lbl l s) = adj (some l) (exec env [l] s) := by
  simp only [exec, adj]
  cases h : exec env [l] s with
  | mk c lg =>
    cases c with
    | brk lb v =>
      cases lb with
      | none => rfl
      | some l' =>
        by_cases hl : l' = l
        · subst hl; simp
        · have : ¬ (l = l') := fun h => hl h.symm
          simp [hl, this]
    | _ => rfl

/-- `adj` on kinds -/
def adjK (lab : Option Label) : K → K
  | .brk (some l') => if lab = some l' then .normal else .brk (some l')
  | k => k

theorem kind_adj (lab : Option Label) (r : Res) : kind (adj lab r).1 = adjK lab (kind r.1) := by
  obtain ⟨c, l⟩ := r
  cases c with
  | brk lb v =>
    cases lb with
    | none => rfl
    | some l' => by_cases h : lab = some l' <;> simp [adj, adjK, kind, h]
  | _ => rfl

theorem adj_snd (lab : Option Label) (r : Res) : (adj lab r).2 = r.2 := rfl

theorem labMatch_toList (lab : Option Label) (x : Label) :
    lab.toList.contains x = labMatch (some x) lab := by
  cases lab with
  | none => simp [labMatch]
  | some y =>
    simp only [Option.toList, labMatch]
    by_cases h : y = x
    · subst h; simp
    · have h' : ¬ (x = y) := fun hh => h hh.symm
      simp [h, h']

def exitK : K → K
  | .brk none => .normal
  | k => k

theorem kind_exitBreakable (c : Compl) : kind c.exitBreakable = exitK (kind c) := by
  cases c with
  | brk lb v => cases lb <;> rfl
  | _ => rfl

theorem loopFrom_succ (run : Nat → Res) (ls : List Label) (r i : Nat) (V : Val) :
    loopFrom run ls (r + 1) i V =
      if (run i).1.loopContinues ls = true then
        ((loopFrom run ls r (i + 1) ((run i).1.value.getD V)).1,
         (run i).2 ++ (loopFrom run ls r (i + 1) ((run i).1.value.getD V)).2)
      else (((run i).1.updateEmpty V).exitBreakable, (run i).2) := by
  cases h : run i with
  | mk c l =>
    by_cases hc : c.loopContinues ls = true <;> simp [loopFrom, h, hc]

/-- generic loop: `bodyPc` = first instruction of the body, `bEnd` = pc after the body's code,
`contPc` = continue target, `e` = pc after the loop; `hnext` = what the code between the end of an
iteration and the next body start (or the exit) does. -/
theorem loopSim {C : Code} {ctx : List BI} {lab : Option Label} {e contPc bodyPc bEnd N id : Nat}
    {I Ib : List Nat} {rf : Bool} (run : Nat → Res)
    (hbody : ∀ i τ, τ.pc = bodyPc → τ.halted = none → τ.iters = [] → τ.cnt id = some i →
        SimK C (BI.loop lab e contPc :: ctx) τ bEnd Ib rf (run i).2 (kind (run i).1))
    (hnext : ∀ i τ, (τ.pc = bEnd ∨ τ.pc = contPc) → τ.halted = none → τ.iters = [] → τ.cnt id = some i →
        ∃ τ', Reach C τ τ' ∧ Common τ τ' [] I rf ∧ τ'.stack = τ.stack ∧
          (if i + 1 < N then τ'.pc = bodyPc ∧ τ'.cnt id = some (i + 1) else τ'.pc = e))
    (hidb : id ∉ Ib) (hsub : ∀ x, x ∈ Ib → x ∈ I) :
    ∀ r i V τ, r + i = N → 0 < r → τ.pc = bodyPc → τ.halted = none → τ.iters = [] → τ.cnt id = some i →
      SimK C ctx τ e I rf (loopFrom run lab.toList r i V).2
        (adjK lab (kind (loopFrom run lab.toList r i V).1)) := by
  intro r
  induction r with
  | zero => intro i V τ _ h0; exact absurd h0 (Nat.lt_irrefl 0)
  | succ r ih =>
    intro i V τ hN _ hpc hh hit hcnt
    have hb := hbody i τ hpc hh hit hcnt
    -- continuing with the next iteration (or leaving the loop normally) from a state at bEnd / contPc
    have cont_from : ∀ (τ1 : VM) (l1 : List Ev) (V' : Val), Reach C τ τ1 → Common τ τ1 l1 I rf → τ1.stack = τ.stack →
        (τ1.pc = bEnd ∨ τ1.pc = contPc) → τ1.cnt id = some i →
        SimK C ctx τ e I rf (l1 ++ (loopFrom run lab.toList r (i + 1) V').2)
          (adjK lab (kind (loopFrom run lab.toList r (i + 1) V').1)) := by
      intro τ1 l1 V' hr1 hc1 hs1 hp1 hcnt1
      obtain ⟨τ', hr', hc', hs', hif⟩ := hnext i τ1 hp1 hc1.halted hc1.iters hcnt1
      by_cases hlt : i + 1 < N
      · simp only [hlt, if_true] at hif
        have hr0 : 0 < r := by omega
        have A := ih (i + 1) V' τ' (by omega) hr0 hif.1 hc'.halted hc'.iters hif.2
        have := SimK.prepend (hr1.trans hr') (by simpa using hc1.trans hc') (by rw [hs', hs1]) A
        simpa using this
      · simp only [hlt, if_false] at hif
        have hr0 : r = 0 := by omega
        subst hr0
        simp only [loopFrom, kind, adjK, List.append_nil]
        exact ⟨τ', hr1.trans hr', by simpa using hc1.trans hc', hif, by rw [hs', hs1]⟩
    rw [loopFrom_succ]
    cases hri : run i with
    | mk c l =>
      rw [hri] at hb
      simp only at hb ⊢
      cases c with
      | normal v =>
        obtain ⟨τ1, h1, h2, h3, h4⟩ := hb
        have := cont_from τ1 l ((Compl.normal v).value.getD V) h1 (h2.mono hsub (fun h => h)) h4 (Or.inl h3)
          (by rw [h2.cnt id hidb]; exact hcnt)
        simpa [loopContinues] using this
      | cont lb v =>
        obtain ⟨τ1, h1, h2, h3, ex, t, hf, hcd⟩ := hb
        have hlc : (Compl.cont lb v).loopContinues lab.toList = labMatch lb lab := by
          cases lb with
          | none => simp [loopContinues, labMatch]
          | some x => simp only [loopContinues]; exact labMatch_toList lab x
        by_cases hm : labMatch lb lab = true
        · -- continue of this loop: jump to the continue target
          simp only [findBrk, hm, if_true] at hf
          have hf2 : ex = [] ∧ t = contPc := by simpa [eq_comm] using hf
          obtain ⟨hex, ht⟩ := hf2
          subst hex
          subst ht
          have hi : C[τ1.pc]? = some (Instr.jump (CS.rel t (τ1.pc + 0))) := codeAt_head hcd
          let τ2 := VM.step τ1 (.jump (CS.rel t (τ1.pc + 0)))
          have hc2 : Common τ1 τ2 [] Ib rf :=
            ⟨by simp [τ2], by simp [τ2], by simpa [τ2] using h2.iters, by simpa [τ2] using h2.halted,
             fun _ _ => by simp [τ2], fun _ => by simp [τ2]⟩
          have hp2 : τ2.pc = t := by
            have := jmp_rel τ1.pc t
            simpa [τ2] using this
          have hcc : Common τ τ2 l Ib rf := by simpa using h2.trans hc2
          have := cont_from τ2 l ((Compl.cont lb v).value.getD V) (h1.trans (Reach.one h2.halted hi))
            (hcc.mono hsub (fun h => h)) (by simpa [τ2] using h3) (Or.inr hp2)
            (by rw [hcc.cnt id hidb]; exact hcnt)
          simpa [hlc, hm] using this
        · -- continue of an outer loop
          have hm' : labMatch lb lab = false := by simpa using hm
          simp only [findBrk, hm', Bool.false_eq_true, if_false] at hf
          have hk : adjK lab (kind ((Compl.cont lb v).updateEmpty V).exitBreakable) = K.cont lb := by
            rw [kind_exitBreakable, kind_updateEmpty]; rfl
          simp only [hlc, hm', Bool.false_eq_true, if_false]
          rw [hk]
          exact ⟨τ1, h1, h2.mono hsub (fun h => h), h3, ex, t, hf, hcd⟩
      | brk lb v =>
        obtain ⟨τ1, h1, h2, h3, ex, t, hf, hcd⟩ := hb
        simp only [loopContinues, Bool.false_eq_true, if_false]
        have hk0 : kind ((Compl.brk lb v).updateEmpty V).exitBreakable = exitK (K.brk lb) := by
          rw [kind_exitBreakable, kind_updateEmpty]; rfl
        rw [hk0]
        by_cases hm : labMatch lb lab = true
        · -- break of this loop: jump to the end
          simp only [findBrk, hm, if_true] at hf
          have hf2 : ex = [] ∧ t = e := by simpa [eq_comm] using hf
          obtain ⟨hex, ht⟩ := hf2
          subst hex
          subst ht
          have hi : C[τ1.pc]? = some (Instr.jump (CS.rel t (τ1.pc + 0))) := codeAt_head hcd
          let τ2 := VM.step τ1 (.jump (CS.rel t (τ1.pc + 0)))
          have hc2 : Common τ1 τ2 [] Ib rf :=
            ⟨by simp [τ2], by simp [τ2], by simpa [τ2] using h2.iters, by simpa [τ2] using h2.halted,
             fun _ _ => by simp [τ2], fun _ => by simp [τ2]⟩
          have hp2 : τ2.pc = t := by
            have := jmp_rel τ1.pc t
            simpa [τ2] using this
          have hcc : Common τ τ2 l Ib rf := by simpa using h2.trans hc2
          have hk : adjK lab (exitK (K.brk lb)) = K.normal := by
            cases lb with
            | none => rfl
            | some x =>
              have : lab = some x := by
                cases lab with
                | none => simp [labMatch] at hm
                | some y => simp [labMatch] at hm; rw [hm]
              simp [exitK, adjK, this]
          rw [hk]
          exact ⟨τ2, h1.trans (Reach.one h2.halted hi), hcc.mono hsub (fun h => h), hp2, by simpa [τ2] using h3⟩
        · have hm' : labMatch lb lab = false := by simpa using hm
          simp only [findBrk, hm', Bool.false_eq_true, if_false] at hf
          have hk : adjK lab (exitK (K.brk lb)) = K.brk lb := by
            cases lb with
            | none => simp [labMatch] at hm'
            | some x =>
              have : ¬ (lab = some x) := by
                intro h; subst h; simp [labMatch] at hm'
              simp [exitK, adjK, this]
          rw [hk]
          exact ⟨τ1, h1, h2.mono hsub (fun h => h), h3, ex, t, hf, hcd⟩
      | ret v =>
        obtain ⟨τ1, h1, h2, h3, h4⟩ := hb
        simp only [loopContinues, Bool.false_eq_true, if_false]
        have hk0 : adjK lab (kind ((Compl.ret v).updateEmpty V).exitBreakable) = K.ret v := by
          rw [kind_exitBreakable, kind_updateEmpty]; rfl
        rw [hk0]
        exact ⟨τ1, h1, h2.mono hsub (fun h => h), h3, by simpa [retExitsS] using h4⟩
      | thr v =>
        obtain ⟨τ1, h2, h3, h4⟩ := hb
        simp only [loopContinues, Bool.false_eq_true, if_false]
        have hk0 : adjK lab (kind ((Compl.thr v).updateEmpty V).exitBreakable) = K.thr v := by
          rw [kind_exitBreakable, kind_updateEmpty]; rfl
        rw [hk0]
        exact ⟨τ1, h2.mono hsub (fun h => h), h3, h4⟩
      | fatal => exact hb.elim

theorem common_step {σ : VM} {i : Instr} {l : List Ev} {I : List Nat} {rf : Bool}
    (h1 : (VM.step σ i).log = σ.log ++ l) (h2 : (VM.step σ i).tries = σ.tries)
    (h3 : (VM.step σ i).iters = []) (h4 : (VM.step σ i).halted = none)
    (h5 : ∀ x, x ∉ I → (VM.step σ i).cnt x = σ.cnt x) (h6 : rf = true → (VM.step σ i).result = σ.result) :
    Common σ (VM.step σ i) l I rf := ⟨h1, h2, h3, h4, h5, h6⟩

/-- THE SIMULATION THEOREM (statement level). -/
theorem sim (s : Stmt) : ∀ (cur : Nat) (lab : Option Label) (ls : List Label) (ctx : List BI) (pc : Nat)
    (C : Code) (σ : VM) (env : Nat),
    stage1 s = true → ls = lab.toList → (isLoop s = false → lab = none) → cur ∉ ids s →
    Instr.nop ∉ gen s cur lab ctx pc → CodeAt C pc (gen s cur lab ctx pc) →
    σ.pc = pc → σ.halted = none → σ.iters = [] → σ.cnt cur = some env →
    Sim C ctx σ (pc + glen s lab (ctx.map BI.shape)) (ids s) (retFree s) (adj lab (exec env ls s)) := by
  induction s with
  | skip =>
    intro cur lab ls ctx pc C σ env hst hls hlab hcur hnop hC hpc hh hit hcnt
    have hl : lab = none := hlab rfl
    subst hl
    rw [adj_none]
    exact ⟨σ, Reach.refl σ, Common.rfl' hit hh, by simp [glen, hpc], rfl⟩
  | log k =>
    intro cur lab ls ctx pc C σ env hst hls hlab hcur hnop hC hpc hh hit hcnt
    have hl : lab = none := hlab rfl
    subst hl
    rw [adj_none]
    have hi : C[σ.pc]? = some (Instr.emit (Ev.log k)) := by rw [hpc]; exact codeAt_head hC
    refine ⟨VM.step σ (.emit (.log k)), Reach.one hh hi, ?_, ?_, ?_⟩
    · exact common_step (by simp [exec]) (by simp) (by simpa using hit) (by simpa using hh)
        (fun _ _ => by simp) (fun _ => by simp)
    · simp [glen, hpc]
    · simp
  | seq a b iha ihb =>
    intro cur lab ls ctx pc C σ env hst hls hlab hcur hnop hC hpc hh hit hcnt
    have hl : lab = none := hlab rfl
    subst hl
    rw [adj_none]
    simp only [stage1, Bool.and_eq_true] at hst
    simp only [ids, List.mem_append, not_or] at hcur
    simp only [gen] at hnop hC
    rw [codeAt_append, gen_length] at hC
    have hna : Instr.nop ∉ gen a cur none ctx pc := fun h => hnop (List.mem_append_left _ h)
    have hnb : Instr.nop ∉ gen b cur none ctx (pc + glen a none (ctx.map BI.shape)) :=
      fun h => hnop (List.mem_append_right _ h)
    have A := iha cur none [] ctx pc C σ env hst.1 rfl (fun _ => rfl) hcur.1 hna hC.1 hpc hh hit hcnt
    rw [adj_none] at A
    have hIa : ∀ x, x ∈ ids a → x ∈ ids (Stmt.seq a b) := fun x hx => by simp [ids, hx]
    have hIb : ∀ x, x ∈ ids b → x ∈ ids (Stmt.seq a b) := fun x hx => by simp [ids, hx]
    have hra : retFree (Stmt.seq a b) = true → retFree a = true := fun h => by
      simp [retFree] at h; exact h.1
    have hrb : retFree (Stmt.seq a b) = true → retFree b = true := fun h => by
      simp [retFree] at h; exact h.2
    have := simSeq (e2 := pc + glen (Stmt.seq a b) none (ctx.map BI.shape))
      (ra := exec env [] a) (rb := fun _ => exec env [] b) (SimK.mono A hIa hra)
      (fun τ hr hc hp hs => by
        have hcn : τ.cnt cur = some env := by
          rw [hc.cnt cur (by simp [ids, hcur.1, hcur.2])]; exact hcnt
        have B := ihb cur none [] ctx _ C τ env hst.2 rfl (fun _ => rfl) hcur.2 hnb hC.2 hp hc.halted hc.iters hcn
        rw [adj_none] at B
        have e : pc + glen (Stmt.seq a b) none (ctx.map BI.shape)
            = pc + glen a none (ctx.map BI.shape) + glen b none (ctx.map BI.shape) := by
          simp [glen, Nat.add_assoc]
        rw [e]
        exact SimK.mono B hIb hrb)
    simpa [Sim, exec] using this
  | brk l =>
    intro cur lab ls ctx pc C σ env hst hls hlab hcur hnop hC hpc hh hit hcnt
    have hl : lab = none := hlab rfl
    subst hl
    rw [adj_none]
    simp only [gen] at hnop hC
    cases hf : findBrk l true ctx with
    | none => simp [hf] at hnop
    | some p =>
      obtain ⟨ex, t⟩ := p
      simp only [hf] at hC
      refine ⟨σ, Reach.refl σ, Common.rfl' hit hh, rfl, ex, t, hf, ?_⟩
      rw [hpc]; exact hC
  | cont l =>
    intro cur lab ls ctx pc C σ env hst hls hlab hcur hnop hC hpc hh hit hcnt
    have hl : lab = none := hlab rfl
    subst hl
    rw [adj_none]
    simp only [gen] at hnop hC
    cases hf : findBrk l false ctx with
    | none => simp [hf] at hnop
    | some p =>
      obtain ⟨ex, t⟩ := p
      simp only [hf] at hC
      refine ⟨σ, Reach.refl σ, Common.rfl' hit hh, rfl, ex, t, hf, ?_⟩
      rw [hpc]; exact hC
  | ret v =>
    intro cur lab ls ctx pc C σ env hst hls hlab hcur hnop hC hpc hh hit hcnt
    have hl : lab = none := hlab rfl
    subst hl
    rw [adj_none]
    simp only [gen, List.singleton_append, List.cons_append] at hC
    have hi : C[σ.pc]? = some (Instr.loadVal v) := by rw [hpc]; exact codeAt_head hC
    refine ⟨VM.step σ (.loadVal v), Reach.one hh hi, ?_, ⟨[], by simp⟩, ?_⟩
    · exact common_step (by simp [exec]) (by simp) (by simpa using hit) (by simpa using hh)
        (fun _ _ => by simp) (fun h => by simp [retFree] at h)
    · have := codeAt_tail hC
      simpa [hpc] using this
  | thr v =>
    intro cur lab ls ctx pc C σ env hst hls hlab hcur hnop hC hpc hh hit hcnt
    have hl : lab = none := hlab rfl
    subst hl
    rw [adj_none]
    simp only [gen] at hC
    have hi : C[σ.pc]? = some (Instr.loadVal v) := by rw [hpc]; exact codeAt_head hC
    have hi2 : C[(VM.step σ (.loadVal v)).pc]? = some Instr.throw := by
      have := codeAt_head (codeAt_tail hC)
      simpa [hpc] using this
    refine ⟨VM.step σ (.loadVal v), ?_, ⟨[v], by simp⟩, ?_⟩
    · exact common_step (by simp [exec]) (by simp) (by simpa using hit) (by simpa using hh)
        (fun _ _ => by simp) (fun _ => by simp)
    · refine Reach.step hh hi ?_
      have := Reach.one (C := C) (σ := VM.step σ (.loadVal v)) (by simpa using hh) hi2
      simpa using this
  | fatal =>
    intro cur lab ls ctx pc C σ env hst
    simp [stage1] at hst
  | tryS i b hasC c hasF f ihb ihc ihf =>
    intro cur lab ls ctx pc C σ env hst hls hlab hcur hnop hC hpc hh hit hcnt
    sorry
  | loop k id n body ih =>
    intro cur lab ls ctx pc C σ env hst hls hlab hcur hnop hC hpc hh hit hcnt
    subst hls
    simp only [stage1, Bool.and_eq_true, Bool.not_eq_true', bne_iff_ne, ne_eq] at hst
    obtain ⟨⟨hk, hstb⟩, hidc⟩ := hst
    have hidb : id ∉ ids body := by simpa using hidc
    have hIsub : ∀ x, x ∈ ids body → x ∈ ids (Stmt.loop k id n body) := fun x hx => by simp [ids, hx]
    have hidI : id ∈ ids (Stmt.loop k id n body) := by simp [ids]
    unfold Sim
    rw [kind_adj, adj_snd]
    simp only [exec]
    -- Common for a single instruction that may only change the loop's own counter
    have cstep : ∀ (τ : VM) (ins : Instr), τ.halted = none → τ.iters = [] →
        (VM.step τ ins).log = τ.log → (VM.step τ ins).tries = τ.tries → (VM.step τ ins).iters = τ.iters →
        (VM.step τ ins).halted = τ.halted → (∀ x, x ≠ id → (VM.step τ ins).cnt x = τ.cnt x) →
        (VM.step τ ins).result = τ.result →
        Common τ (VM.step τ ins) [] (ids (Stmt.loop k id n body)) (retFree (Stmt.loop k id n body)) := by
      intro τ ins h1 h2 h3 h4 h5 h6 h7 h8
      exact ⟨by rw [h3, List.append_nil], h4, by rw [h5, h2], by rw [h6, h1],
        fun x hx => h7 x (fun hxe => hx (by rw [hxe]; exact hidI)), fun _ => h8⟩
    cases k with
    | forin => exact absurd rfl hk
    | while_ =>
      simp only [gen] at hnop hC
      rw [codeAt_append, codeAt_append] at hC
      obtain ⟨⟨hC0, hC1⟩, hC2⟩ := hC
      simp only [List.length_append, List.length_cons, List.length_nil, gen_length, List.map_cons, BI.shape] at hC1 hC2
      generalize hlb : glen body none (BS.loop lab :: ctx.map BI.shape) = lb at *
      have hnb : Instr.nop ∉ gen body id none (BI.loop lab (pc + 1 + 3 + lb + 1) (pc + 1) :: ctx) (pc + 1 + 3) :=
        fun h => hnop (List.mem_append_left _ (List.mem_append_right _ h))
      have hI0 := codeAt_head hC0
      have hI1 := codeAt_head (codeAt_tail hC0)
      have hI2 := codeAt_head (codeAt_tail (codeAt_tail hC0))
      have hI3 := codeAt_head (codeAt_tail (codeAt_tail (codeAt_tail hC0)))
      have hJ : C[pc + 1 + 3 + lb]? = some (Instr.jump (CS.rel (pc + 1) (pc + 1 + 3 + lb))) := by
        have := codeAt_head hC2
        simpa [Nat.add_assoc] using this
      -- the loop head: increment, test, conditional jump
      have head : ∀ (τ : VM) (i' : Nat), τ.pc = pc + 1 → τ.halted = none → τ.iters = [] →
          (VM.step τ (.cntInc id)).cnt id = some i' →
          ∃ τ', Reach C τ τ' ∧ Common τ τ' [] (ids (Stmt.loop .while_ id n body)) (retFree (Stmt.loop .while_ id n body)) ∧
            τ'.stack = τ.stack ∧
            (if i' < n then τ'.pc = pc + 1 + 3 ∧ τ'.cnt id = some i' else τ'.pc = pc + 1 + 3 + lb + 1) := by
        intro τ i' hp hhh hii hv
        let τ1 := VM.step τ (.cntInc id)
        let τ2 := VM.step τ1 (.cntLt id n)
        let τ3 := VM.step τ2 (.jneP (CS.rel (pc + 1 + 3 + lb + 1) (pc + 1 + 2)))
        have hv1 : τ1.cnt id = some i' := hv
        have e1 : C[τ.pc]? = some (Instr.cntInc id) := by rw [hp]; simpa using hI1
        have e2 : C[τ1.pc]? = some (Instr.cntLt id n) := by
          have : τ1.pc = pc + 1 + 1 := by simp [τ1, hp]
          rw [this]; simpa [Nat.add_assoc] using hI2
        have e3 : C[τ2.pc]? = some (Instr.jneP (CS.rel (pc + 1 + 3 + lb + 1) (pc + 1 + 2))) := by
          have : τ2.pc = pc + 1 + 1 + 1 := by simp [τ2, τ1, hp]
          rw [this]; simpa [Nat.add_assoc] using hI3
        have c1 := cstep τ (.cntInc id) hhh hii (by simp) (by simp) (by simp) (by simp)
          (fun x hx => by simp [hx]) (by simp)
        have c2 := cstep τ1 (.cntLt id n) c1.halted c1.iters (by simp) (by simp) (by simp) (by simp)
          (fun x hx => by simp) (by simp)
        have hr : Reach C τ τ3 := Reach.step hhh e1 (Reach.step c1.halted e2 (Reach.one c2.halted e3))
        have ht2 : τ2.stack = (if i' < n then 1 else 0) :: τ.stack := by
          simp [τ2, τ1] at hv1 ⊢
          simp [hv1]
        by_cases hlt : i' < n
        · have hstep : τ3 = { τ2 with stack := τ.stack, pc := τ2.pc + 1 } := by
            simp [τ3, ht2, hlt]
          have c3 : Common τ2 τ3 [] (ids (Stmt.loop .while_ id n body)) (retFree (Stmt.loop .while_ id n body)) := by
            rw [hstep]
            exact ⟨by simp, rfl, c2.iters, c2.halted, fun _ _ => rfl, fun _ => rfl⟩
          refine ⟨τ3, hr, by simpa using (c1.trans c2).trans c3, by rw [hstep], ?_⟩
          simp only [hlt, if_true]
          refine ⟨by rw [hstep]; simp [τ2, τ1, hp], ?_⟩
          have : τ3.cnt id = τ1.cnt id := by rw [hstep]; simp [τ2]
          rw [this, hv1]
        · have hstep : τ3 = { τ2 with stack := τ.stack, pc := ((τ2.pc : Int) + CS.rel (pc + 1 + 3 + lb + 1) (pc + 1 + 2)).toNat } := by
            simp [τ3, ht2, hlt]
          have c3 : Common τ2 τ3 [] (ids (Stmt.loop .while_ id n body)) (retFree (Stmt.loop .while_ id n body)) := by
            rw [hstep]
            exact ⟨by simp, rfl, c2.iters, c2.halted, fun _ _ => rfl, fun _ => rfl⟩
          refine ⟨τ3, hr, by simpa using (c1.trans c2).trans c3, by rw [hstep], ?_⟩
          simp only [hlt, if_false]
          have hp2 : τ2.pc = pc + 1 + 2 := by simp [τ2, τ1, hp]
          rw [hstep]
          simp only [hp2]
          exact jmp_rel (pc + 1 + 2) (pc + 1 + 3 + lb + 1)
      have hbody : ∀ (i : Nat) (τ : VM), τ.pc = pc + 1 + 3 → τ.halted = none → τ.iters = [] → τ.cnt id = some i →
          SimK C (BI.loop lab (pc + 1 + 3 + lb + 1) (pc + 1) :: ctx) τ (pc + 1 + 3 + lb) (ids body)
            (retFree (Stmt.loop .while_ id n body)) (exec i [] body).2 (kind (exec i [] body).1) := by
        intro i τ hp hhh hii hcc
        have A := ih id none [] (BI.loop lab (pc + 1 + 3 + lb + 1) (pc + 1) :: ctx) (pc + 1 + 3) C τ i hstb rfl
          (fun _ => rfl) hidb hnb hC1 hp hhh hii hcc
        rw [adj_none] at A
        simp only [List.map_cons, BI.shape, hlb] at A
        exact A
      have hnext : ∀ (i : Nat) (τ : VM), (τ.pc = pc + 1 + 3 + lb ∨ τ.pc = pc + 1) → τ.halted = none → τ.iters = [] →
          τ.cnt id = some i →
          ∃ τ', Reach C τ τ' ∧ Common τ τ' [] (ids (Stmt.loop .while_ id n body)) (retFree (Stmt.loop .while_ id n body)) ∧
            τ'.stack = τ.stack ∧
            (if i + 1 < n then τ'.pc = pc + 1 + 3 ∧ τ'.cnt id = some (i + 1) else τ'.pc = pc + 1 + 3 + lb + 1) := by
        intro i τ hp hhh hii hcc
        rcases hp with hp | hp
        · let τj := VM.step τ (.jump (CS.rel (pc + 1) (pc + 1 + 3 + lb)))
          have ej : C[τ.pc]? = some (Instr.jump (CS.rel (pc + 1) (pc + 1 + 3 + lb))) := by rw [hp]; exact hJ
          have cj := cstep τ (.jump (CS.rel (pc + 1) (pc + 1 + 3 + lb))) hhh hii (by simp) (by simp) (by simp) (by simp)
            (fun x hx => by simp) (by simp)
          have hpj : τj.pc = pc + 1 := by
            have := jmp_rel (pc + 1 + 3 + lb) (pc + 1)
            simpa [τj, hp] using this
          obtain ⟨τ', h1, h2, h3, h4⟩ := head τj (i + 1) hpj cj.halted cj.iters (by simp [τj, hcc])
          exact ⟨τ', (Reach.one hhh ej).trans h1, by simpa using cj.trans h2, by rw [h3]; simp [τj], h4⟩
        · exact head τ (i + 1) hp hhh hii (by simp [hcc])
      -- entry: reset the counter, then the loop head
      let σ0 := VM.step σ (.cntReset id)
      have hI0' : C[σ.pc]? = some (Instr.cntReset id) := by rw [hpc]; simpa using hI0
      have c0 := cstep σ (.cntReset id) hh hit (by simp) (by simp) (by simp) (by simp)
        (fun x hx => by simp [hx]) (by simp)
      obtain ⟨τh, hrh, hch, hsh, hif⟩ := head σ0 0 (by simp [σ0, hpc]) c0.halted c0.iters (by simp [σ0])
      have e : pc + glen (Stmt.loop .while_ id n body) lab (ctx.map BI.shape) = pc + 1 + 3 + lb + 1 := by
        simp [glen, hlb]; omega
      rw [e]
      simp only [iterations]
      have hr0 : Reach C σ τh := (Reach.one hh hI0').trans hrh
      have hc0 : Common σ τh [] (ids (Stmt.loop .while_ id n body)) (retFree (Stmt.loop .while_ id n body)) := by
        simpa using c0.trans hch
      have hs0 : τh.stack = σ.stack := by rw [hsh]; simp [σ0]
      by_cases hn : 0 < n
      · simp only [hn, if_true] at hif
        have L := loopSim (C := C) (ctx := ctx) (lab := lab) (fun i => exec i [] body) hbody hnext hidb hIsub
          n 0 0 τh (by omega) hn hif.1 hch.halted hch.iters hif.2
        have := SimK.prepend (l1 := []) hr0 hc0 hs0 L
        simpa using this
      · simp only [hn, if_false] at hif
        have hn0 : n = 0 := by omega
        subst hn0
        simp only [loopFrom, kind, adjK]
        exact ⟨τh, hr0, hc0, hif, hs0⟩
    | do_ =>
      simp only [gen] at hnop hC
      rw [codeAt_append, codeAt_append] at hC
      obtain ⟨⟨hC0, hC1⟩, hC2⟩ := hC
      simp only [List.length_append, List.length_cons, List.length_nil, gen_length, List.map_cons, BI.shape] at hC1 hC2
      generalize hlb : glen body none (BS.loop lab :: ctx.map BI.shape) = lb at *
      have hnb : Instr.nop ∉ gen body id none (BI.loop lab (pc + 1 + lb + 3) (pc + 1 + lb) :: ctx) (pc + 1) :=
        fun h => hnop (List.mem_append_left _ (List.mem_append_right _ h))
      have hI0 := codeAt_head hC0
      have hT0 : C[pc + 1 + lb]? = some (Instr.cntInc id) := by
        have := codeAt_head hC2
        simpa [Nat.add_assoc] using this
      have hT1 : C[pc + 1 + lb + 1]? = some (Instr.cntLt id n) := by
        have := codeAt_head (codeAt_tail hC2)
        simpa [Nat.add_assoc] using this
      have hT2 : C[pc + 1 + lb + 2]? = some (Instr.jeqP (CS.rel (pc + 1) (pc + 1 + lb + 2))) := by
        have := codeAt_head (codeAt_tail (codeAt_tail hC2))
        simpa [Nat.add_assoc] using this
      have hbody : ∀ (i : Nat) (τ : VM), τ.pc = pc + 1 → τ.halted = none → τ.iters = [] → τ.cnt id = some i →
          SimK C (BI.loop lab (pc + 1 + lb + 3) (pc + 1 + lb) :: ctx) τ (pc + 1 + lb) (ids body)
            (retFree (Stmt.loop .do_ id n body)) (exec i [] body).2 (kind (exec i [] body).1) := by
        intro i τ hp hhh hii hcc
        have A := ih id none [] (BI.loop lab (pc + 1 + lb + 3) (pc + 1 + lb) :: ctx) (pc + 1) C τ i hstb rfl
          (fun _ => rfl) hidb hnb hC1 hp hhh hii hcc
        rw [adj_none] at A
        simp only [List.map_cons, BI.shape, hlb] at A
        exact A
      have hnext : ∀ (i : Nat) (τ : VM), (τ.pc = pc + 1 + lb ∨ τ.pc = pc + 1 + lb) → τ.halted = none → τ.iters = [] →
          τ.cnt id = some i →
          ∃ τ', Reach C τ τ' ∧ Common τ τ' [] (ids (Stmt.loop .do_ id n body)) (retFree (Stmt.loop .do_ id n body)) ∧
            τ'.stack = τ.stack ∧
            (if i + 1 < iterations .do_ n then τ'.pc = pc + 1 ∧ τ'.cnt id = some (i + 1) else τ'.pc = pc + 1 + lb + 3) := by
        intro i τ hp hhh hii hcc
        have hp : τ.pc = pc + 1 + lb := by rcases hp with h | h <;> exact h
        let τ1 := VM.step τ (.cntInc id)
        let τ2 := VM.step τ1 (.cntLt id n)
        let τ3 := VM.step τ2 (.jeqP (CS.rel (pc + 1) (pc + 1 + lb + 2)))
        have hv1 : τ1.cnt id = some (i + 1) := by simp [τ1, hcc]
        have e1 : C[τ.pc]? = some (Instr.cntInc id) := by rw [hp]; exact hT0
        have e2 : C[τ1.pc]? = some (Instr.cntLt id n) := by
          have : τ1.pc = pc + 1 + lb + 1 := by simp [τ1, hp]
          rw [this]; exact hT1
        have e3 : C[τ2.pc]? = some (Instr.jeqP (CS.rel (pc + 1) (pc + 1 + lb + 2))) := by
          have : τ2.pc = pc + 1 + lb + 2 := by simp [τ2, τ1, hp]
          rw [this]; exact hT2
        have c1 := cstep τ (.cntInc id) hhh hii (by simp) (by simp) (by simp) (by simp)
          (fun x hx => by simp [hx]) (by simp)
        have c2 := cstep τ1 (.cntLt id n) c1.halted c1.iters (by simp) (by simp) (by simp) (by simp)
          (fun x hx => by simp) (by simp)
        have hr : Reach C τ τ3 := Reach.step hhh e1 (Reach.step c1.halted e2 (Reach.one c2.halted e3))
        have ht2 : τ2.stack = (if i + 1 < n then 1 else 0) :: τ.stack := by
          simp [τ2, τ1] at hv1 ⊢
          simp [hv1]
        have hiter : (i + 1 < iterations .do_ n) ↔ (i + 1 < n) := by
          simp only [iterations]
          by_cases h0 : n = 0
          · simp [h0]
          · simp [h0]
        by_cases hlt : i + 1 < n
        · have hstep : τ3 = { τ2 with stack := τ.stack, pc := ((τ2.pc : Int) + CS.rel (pc + 1) (pc + 1 + lb + 2)).toNat } := by
            simp [τ3, ht2, hlt]
          have c3 : Common τ2 τ3 [] (ids (Stmt.loop .do_ id n body)) (retFree (Stmt.loop .do_ id n body)) := by
            rw [hstep]
            exact ⟨by simp, rfl, c2.iters, c2.halted, fun _ _ => rfl, fun _ => rfl⟩
          refine ⟨τ3, hr, by simpa using (c1.trans c2).trans c3, by rw [hstep], ?_⟩
          simp only [hiter.2 hlt, if_true]
          have hp2 : τ2.pc = pc + 1 + lb + 2 := by simp [τ2, τ1, hp]
          refine ⟨?_, ?_⟩
          · rw [hstep]; simp only [hp2]; exact jmp_rel (pc + 1 + lb + 2) (pc + 1)
          · have : τ3.cnt id = τ1.cnt id := by rw [hstep]; simp [τ2]
            rw [this, hv1]
        · have hstep : τ3 = { τ2 with stack := τ.stack, pc := τ2.pc + 1 } := by
            simp [τ3, ht2, hlt]
          have c3 : Common τ2 τ3 [] (ids (Stmt.loop .do_ id n body)) (retFree (Stmt.loop .do_ id n body)) := by
            rw [hstep]
            exact ⟨by simp, rfl, c2.iters, c2.halted, fun _ _ => rfl, fun _ => rfl⟩
          refine ⟨τ3, hr, by simpa using (c1.trans c2).trans c3, by rw [hstep], ?_⟩
          have hnl : ¬ (i + 1 < iterations .do_ n) := fun h => hlt (hiter.1 h)
          simp only [hnl, if_false]
          rw [hstep]; simp [τ2, τ1, hp]
      -- entry: zero the counter, fall into the body
      let σ0 := VM.step σ (.cntZero id)
      have hI0' : C[σ.pc]? = some (Instr.cntZero id) := by rw [hpc]; simpa using hI0
      have c0 := cstep σ (.cntZero id) hh hit (by simp) (by simp) (by simp) (by simp)
        (fun x hx => by simp [hx]) (by simp)
      have e : pc + glen (Stmt.loop .do_ id n body) lab (ctx.map BI.shape) = pc + 1 + lb + 3 := by
        simp [glen, hlb]; omega
      rw [e]
      have hN : 0 < iterations .do_ n := by
        simp only [iterations]; by_cases h0 : n = 0 <;> simp [h0]; omega
      have L := loopSim (C := C) (ctx := ctx) (lab := lab) (fun i => exec i [] body) hbody hnext hidb hIsub
        (iterations .do_ n) 0 0 σ0 (by omega) hN (by simp [σ0, hpc]) c0.halted c0.iters (by simp [σ0])
      have := SimK.prepend (l1 := []) (Reach.one hh hI0') c0 (by simp [σ0]) L
      simpa using this
    | for_ =>
      simp only [gen] at hnop hC
      rw [codeAt_append, codeAt_append] at hC
      obtain ⟨⟨hC0, hC1⟩, hC2⟩ := hC
      simp only [List.length_append, List.length_cons, List.length_nil, gen_length, List.map_cons, BI.shape] at hC1 hC2
      generalize hlb : glen body none (BS.loop lab :: ctx.map BI.shape) = lb at *
      have hnb : Instr.nop ∉ gen body id none (BI.loop lab (pc + 1 + 2 + lb + 2) (pc + 1 + 2 + lb) :: ctx) (pc + 1 + 2) :=
        fun h => hnop (List.mem_append_left _ (List.mem_append_right _ h))
      have hI0 := codeAt_head hC0
      have hI1 := codeAt_head (codeAt_tail hC0)
      have hI2 := codeAt_head (codeAt_tail (codeAt_tail hC0))
      have hT0 : C[pc + 1 + 2 + lb]? = some (Instr.cntInc id) := by
        have := codeAt_head hC2
        simpa [Nat.add_assoc] using this
      have hT1 : C[pc + 1 + 2 + lb + 1]? = some (Instr.jump (CS.rel (pc + 1) (pc + 1 + 2 + lb + 1))) := by
        have := codeAt_head (codeAt_tail hC2)
        simpa [Nat.add_assoc] using this
      have head : ∀ (τ : VM) (i' : Nat), τ.pc = pc + 1 → τ.halted = none → τ.iters = [] → τ.cnt id = some i' →
          ∃ τ', Reach C τ τ' ∧ Common τ τ' [] (ids (Stmt.loop .for_ id n body)) (retFree (Stmt.loop .for_ id n body)) ∧
            τ'.stack = τ.stack ∧
            (if i' < n then τ'.pc = pc + 1 + 2 ∧ τ'.cnt id = some i' else τ'.pc = pc + 1 + 2 + lb + 2) := by
        intro τ i' hp hhh hii hv
        let τ2 := VM.step τ (.cntLt id n)
        let τ3 := VM.step τ2 (.jneP (CS.rel (pc + 1 + 2 + lb + 2) (pc + 1 + 1)))
        have e2 : C[τ.pc]? = some (Instr.cntLt id n) := by rw [hp]; simpa using hI1
        have e3 : C[τ2.pc]? = some (Instr.jneP (CS.rel (pc + 1 + 2 + lb + 2) (pc + 1 + 1))) := by
          have : τ2.pc = pc + 1 + 1 := by simp [τ2, hp]
          rw [this]; simpa [Nat.add_assoc] using hI2
        have c2 := cstep τ (.cntLt id n) hhh hii (by simp) (by simp) (by simp) (by simp)
          (fun x hx => by simp) (by simp)
        have hr : Reach C τ τ3 := Reach.step hhh e2 (Reach.one c2.halted e3)
        have ht2 : τ2.stack = (if i' < n then 1 else 0) :: τ.stack := by
          simp [τ2, hv]
        by_cases hlt : i' < n
        · have hstep : τ3 = { τ2 with stack := τ.stack, pc := τ2.pc + 1 } := by
            simp [τ3, ht2, hlt]
          have c3 : Common τ2 τ3 [] (ids (Stmt.loop .for_ id n body)) (retFree (Stmt.loop .for_ id n body)) := by
            rw [hstep]
            exact ⟨by simp, rfl, c2.iters, c2.halted, fun _ _ => rfl, fun _ => rfl⟩
          refine ⟨τ3, hr, by simpa using c2.trans c3, by rw [hstep], ?_⟩
          simp only [hlt, if_true]
          refine ⟨by rw [hstep]; simp [τ2, hp], ?_⟩
          have : τ3.cnt id = τ.cnt id := by rw [hstep]; simp [τ2]
          rw [this, hv]
        · have hstep : τ3 = { τ2 with stack := τ.stack, pc := ((τ2.pc : Int) + CS.rel (pc + 1 + 2 + lb + 2) (pc + 1 + 1)).toNat } := by
            simp [τ3, ht2, hlt]
          have c3 : Common τ2 τ3 [] (ids (Stmt.loop .for_ id n body)) (retFree (Stmt.loop .for_ id n body)) := by
            rw [hstep]
            exact ⟨by simp, rfl, c2.iters, c2.halted, fun _ _ => rfl, fun _ => rfl⟩
          refine ⟨τ3, hr, by simpa using c2.trans c3, by rw [hstep], ?_⟩
          simp only [hlt, if_false]
          have hp2 : τ2.pc = pc + 1 + 1 := by simp [τ2, hp]
          rw [hstep]
          simp only [hp2]
          exact jmp_rel (pc + 1 + 1) (pc + 1 + 2 + lb + 2)
      have hbody : ∀ (i : Nat) (τ : VM), τ.pc = pc + 1 + 2 → τ.halted = none → τ.iters = [] → τ.cnt id = some i →
          SimK C (BI.loop lab (pc + 1 + 2 + lb + 2) (pc + 1 + 2 + lb) :: ctx) τ (pc + 1 + 2 + lb) (ids body)
            (retFree (Stmt.loop .for_ id n body)) (exec i [] body).2 (kind (exec i [] body).1) := by
        intro i τ hp hhh hii hcc
        have A := ih id none [] (BI.loop lab (pc + 1 + 2 + lb + 2) (pc + 1 + 2 + lb) :: ctx) (pc + 1 + 2) C τ i hstb rfl
          (fun _ => rfl) hidb hnb hC1 hp hhh hii hcc
        rw [adj_none] at A
        simp only [List.map_cons, BI.shape, hlb] at A
        exact A
      have hnext : ∀ (i : Nat) (τ : VM), (τ.pc = pc + 1 + 2 + lb ∨ τ.pc = pc + 1 + 2 + lb) → τ.halted = none → τ.iters = [] →
          τ.cnt id = some i →
          ∃ τ', Reach C τ τ' ∧ Common τ τ' [] (ids (Stmt.loop .for_ id n body)) (retFree (Stmt.loop .for_ id n body)) ∧
            τ'.stack = τ.stack ∧
            (if i + 1 < n then τ'.pc = pc + 1 + 2 ∧ τ'.cnt id = some (i + 1) else τ'.pc = pc + 1 + 2 + lb + 2) := by
        intro i τ hp hhh hii hcc
        have hp : τ.pc = pc + 1 + 2 + lb := by rcases hp with h | h <;> exact h
        let τ1 := VM.step τ (.cntInc id)
        let τj := VM.step τ1 (.jump (CS.rel (pc + 1) (pc + 1 + 2 + lb + 1)))
        have e1 : C[τ.pc]? = some (Instr.cntInc id) := by rw [hp]; exact hT0
        have ej : C[τ1.pc]? = some (Instr.jump (CS.rel (pc + 1) (pc + 1 + 2 + lb + 1))) := by
          have : τ1.pc = pc + 1 + 2 + lb + 1 := by simp [τ1, hp]
          rw [this]; exact hT1
        have c1 := cstep τ (.cntInc id) hhh hii (by simp) (by simp) (by simp) (by simp)
          (fun x hx => by simp [hx]) (by simp)
        have cj := cstep τ1 (.jump (CS.rel (pc + 1) (pc + 1 + 2 + lb + 1))) c1.halted c1.iters (by simp) (by simp) (by simp) (by simp)
          (fun x hx => by simp) (by simp)
        have hpj : τj.pc = pc + 1 := by
          have := jmp_rel (pc + 1 + 2 + lb + 1) (pc + 1)
          simpa [τj, τ1, hp] using this
        obtain ⟨τ', h1, h2, h3, h4⟩ := head τj (i + 1) hpj cj.halted cj.iters (by simp [τj, τ1, hcc])
        exact ⟨τ', (Reach.step hhh e1 (Reach.one c1.halted ej)).trans h1, by simpa using (c1.trans cj).trans h2,
          by rw [h3]; simp [τj, τ1], h4⟩
      -- entry: zero the counter, then the loop head
      let σ0 := VM.step σ (.cntZero id)
      have hI0' : C[σ.pc]? = some (Instr.cntZero id) := by rw [hpc]; simpa using hI0
      have c0 := cstep σ (.cntZero id) hh hit (by simp) (by simp) (by simp) (by simp)
        (fun x hx => by simp [hx]) (by simp)
      obtain ⟨τh, hrh, hch, hsh, hif⟩ := head σ0 0 (by simp [σ0, hpc]) c0.halted c0.iters (by simp [σ0])
      have e : pc + glen (Stmt.loop .for_ id n body) lab (ctx.map BI.shape) = pc + 1 + 2 + lb + 2 := by
        simp [glen, hlb]; omega
      rw [e]
      simp only [iterations]
      have hr0 : Reach C σ τh := (Reach.one hh hI0').trans hrh
      have hc0 : Common σ τh [] (ids (Stmt.loop .for_ id n body)) (retFree (Stmt.loop .for_ id n body)) := by
        simpa using c0.trans hch
      have hs0 : τh.stack = σ.stack := by rw [hsh]; simp [σ0]
      by_cases hn : 0 < n
      · simp only [hn, if_true] at hif
        have L := loopSim (C := C) (ctx := ctx) (lab := lab) (fun i => exec i [] body) hbody hnext hidb hIsub
          n 0 0 τh (by omega) hn hif.1 hch.halted hch.iters hif.2
        have := SimK.prepend (l1 := []) hr0 hc0 hs0 L
        simpa using this
      · simp only [hn, if_false] at hif
        have hn0 : n = 0 := by omega
        subst hn0
        simp only [loopFrom, kind, adjK]
        exact ⟨τh, hr0, hc0, hif, hs0⟩
  | forOf sp body ih =>
    intro cur lab ls ctx pc C σ env hst
    simp [stage1] at hst
  | lbl l s ih =>
    intro cur lab ls ctx pc C σ env hst hls hlab hcur hnop hC hpc hh hit hcnt
    have hl : lab = none := hlab rfl
    subst hl
    rw [adj_none]
    have hls' : ls = [] := hls
    subst hls'
    simp only [stage1, Bool.and_eq_true, Bool.or_eq_true] at hst
    simp only [ids] at hcur
    by_cases hlo : isLoop s = true
    · -- a labelled loop: the loop block carries the label
      simp only [gen, hlo, if_true] at hnop hC
      have A := ih cur (some l) [l] ctx pc C σ env hst.1 rfl (fun h => by simp [hlo] at h) hcur hnop hC hpc hh hit hcnt
      rw [exec_lbl_adj]
      have e : glen (Stmt.lbl l s) none (ctx.map BI.shape) = glen s (some l) (ctx.map BI.shape) := by
        simp [glen, hlo]
      rw [e]
      exact SimK.mono A (fun x hx => by simpa [ids] using hx) (fun h => by simpa [retFree] using h)
    · -- a labelled statement
      have hlo' : isLoop s = false := by simpa using hlo
      have hlb : isLbl s = false := by
        rcases hst.2 with h | h
        · exact absurd h hlo
        · simpa using h
      simp only [gen, hlo', Bool.false_eq_true, if_false] at hnop hC
      have e : glen (Stmt.lbl l s) none (ctx.map BI.shape) = glen s none (BS.label l :: ctx.map BI.shape) := by
        simp [glen, hlo']
      rw [e]
      have A := ih cur none [] (BI.label l (pc + glen s none (BS.label l :: ctx.map BI.shape)) :: ctx) pc C σ env
        hst.1 rfl (fun _ => rfl) hcur hnop hC hpc hh hit hcnt
      rw [adj_none] at A
      have W := wrapLabel (SimK.mono A (I' := ids (Stmt.lbl l s)) (rf' := retFree (Stmt.lbl l s))
        (fun x hx => by simpa [ids] using hx) (fun h => by simpa [retFree] using h))
      have hx : exec env [l] s = exec env [] s := exec_ls_irrel s env [l] hlo' hlb
      obtain ⟨hk, hlg⟩ := exec_lbl_kind env [] l s
      unfold Sim
      rw [hk, hlg, hx]
      exact W
  | sw u k a b _ _ =>
    intro cur lab ls ctx pc C σ env hst
    simp [stage1] at hst
  | withS s ih =>
    intro cur lab ls ctx pc C σ env hst hls hlab hcur hnop hC hpc hh hit hcnt
    have hl : lab = none := hlab rfl
    subst hl
    rw [adj_none]
    simp only [stage1] at hst
    simp only [ids] at hcur
    simp only [gen] at hnop hC
    rw [codeAt_append, codeAt_append] at hC
    obtain ⟨⟨hC0, hC1⟩, hC2⟩ := hC
    simp only [List.length_append, List.length_cons, List.length_nil, gen_length, List.map_cons, BI.shape] at hC1 hC2
    have hns : Instr.nop ∉ gen s cur none (BI.with_ :: ctx) (pc + 2) :=
      fun h => hnop (List.mem_append_left _ (List.mem_append_right _ h))
    have hi : C[σ.pc]? = some (Instr.loadVal 0) := by rw [hpc]; exact codeAt_head hC0
    let σ0 := VM.step σ (.loadVal 0)
    have hi2 : C[σ0.pc]? = some Instr.enterWith := by
      have := codeAt_head (codeAt_tail hC0)
      simpa [σ0, hpc] using this
    let σ1 := VM.step σ0 .enterWith
    have hc0 : Common σ σ1 [] (ids (Stmt.withS s)) (retFree (Stmt.withS s)) :=
      ⟨by simp [σ1, σ0], by simp [σ1, σ0], by simpa [σ1, σ0] using hit, by simpa [σ1, σ0] using hh,
       fun _ _ => by simp [σ1, σ0], fun _ => by simp [σ1, σ0]⟩
    have hr0 : Reach C σ σ1 := Reach.step hh hi (Reach.one (by simpa [σ0] using hh) hi2)
    have A := ih cur none [] (BI.with_ :: ctx) (pc + 2) C σ1 env hst rfl (fun _ => rfl) hcur hns hC1
      (by simp [σ1, σ0, hpc]) (by simpa [σ1, σ0] using hh) (by simpa [σ1, σ0] using hit) (by simpa [σ1, σ0] using hcnt)
    rw [adj_none] at A
    have hleave : C[pc + 2 + glen s none (BS.with_ :: ctx.map BI.shape)]? = some Instr.leaveWith := by
      have := codeAt_head hC2
      simpa [Nat.add_assoc] using this
    have W := wrapWith (l0 := []) hr0 hc0 (by simp [σ1, σ0]) hleave
      (SimK.mono A (fun x hx => by simpa [ids] using hx) (fun h => by simpa [retFree] using h))
    have e : pc + glen (Stmt.withS s) none (ctx.map BI.shape)
        = pc + 2 + glen s none (BS.with_ :: ctx.map BI.shape) + 1 := by simp [glen]; omega
    rw [e]
    cases hex : exec env [] s with
    | mk c lg =>
      rw [hex] at W
      simpa [Sim, exec, hex, kind_updateEmpty] using W
  | blk s ih =>
    intro cur lab ls ctx pc C σ env hst hls hlab hcur hnop hC hpc hh hit hcnt
    have hl : lab = none := hlab rfl
    subst hl
    rw [adj_none]
    simp only [stage1] at hst
    simp only [ids] at hcur
    simp only [gen] at hnop hC
    rw [codeAt_append, codeAt_append] at hC
    obtain ⟨⟨hC0, hC1⟩, hC2⟩ := hC
    simp only [List.length_append, List.length_singleton, gen_length, List.map_cons, BI.shape] at hC1 hC2
    have hns : Instr.nop ∉ gen s cur none (BI.scope 1 :: ctx) (pc + 1) :=
      fun h => hnop (List.mem_append_left _ (List.mem_append_right _ h))
    have hi : C[σ.pc]? = some (Instr.enterBlock 1) := by rw [hpc]; exact codeAt_head hC0
    let σ1 := VM.step σ (.enterBlock 1)
    have hc0 : Common σ σ1 [] (ids (Stmt.blk s)) (retFree (Stmt.blk s)) :=
      common_step (by simp) (by simp) (by simpa using hit) (by simpa using hh) (fun _ _ => by simp) (fun _ => by simp)
    have A := ih cur none [] (BI.scope 1 :: ctx) (pc + 1) C σ1 env hst rfl (fun _ => rfl) hcur hns hC1
      (by simp [σ1, hpc]) (by simpa [σ1] using hh) (by simpa [σ1] using hit) (by simpa [σ1] using hcnt)
    rw [adj_none] at A
    have hleave : C[pc + 1 + glen s none (BS.scope :: ctx.map BI.shape)]? = some (Instr.leaveBlock 1) := by
      have := codeAt_head hC2
      simpa [Nat.add_assoc] using this
    have W := wrapScope (l0 := []) [0] rfl (Reach.one hh hi) hc0 (by simp [σ1]) hleave
      (SimK.mono A (fun x hx => by simpa [ids] using hx) (fun h => by simpa [retFree] using h))
    have e : pc + glen (Stmt.blk s) none (ctx.map BI.shape)
        = pc + 1 + glen s none (BS.scope :: ctx.map BI.shape) + 1 := by simp [glen]; omega
    rw [e]
    simpa [Sim, exec] using W
  | ifIter m s ih =>
    intro cur lab ls ctx pc C σ env hst hls hlab hcur hnop hC hpc hh hit hcnt
    have hl : lab = none := hlab rfl
    subst hl
    rw [adj_none]
    simp only [stage1] at hst
    simp only [ids] at hcur
    simp only [gen] at hnop hC
    rw [codeAt_append] at hC
    obtain ⟨hC0, hC1⟩ := hC
    simp only [List.length_cons, List.length_nil] at hC1
    have hns : Instr.nop ∉ gen s cur none ctx (pc + 2) := fun h => hnop (List.mem_append_right _ h)
    have hi : C[σ.pc]? = some (Instr.cntEq cur m) := by rw [hpc]; exact codeAt_head hC0
    let σ0 := VM.step σ (.cntEq cur m)
    have hi2 : C[σ0.pc]? = some (Instr.jneP (CS.rel (pc + 2 + glen s none (ctx.map BI.shape)) (pc + 1))) := by
      have := codeAt_head (codeAt_tail hC0)
      simpa [σ0, hpc] using this
    let σ1 := VM.step σ0 (.jneP (CS.rel (pc + 2 + glen s none (ctx.map BI.shape)) (pc + 1)))
    have hr0 : Reach C σ σ1 := Reach.step hh hi (Reach.one (by simpa [σ0] using hh) hi2)
    have e : pc + glen (Stmt.ifIter m s) none (ctx.map BI.shape) = pc + 2 + glen s none (ctx.map BI.shape) := by
      simp [glen]; omega
    rw [e]
    by_cases hem : env = m
    · -- condition true: fall through into the body
      subst hem
      have hc0 : Common σ σ1 [] (ids (Stmt.ifIter env s)) (retFree (Stmt.ifIter env s)) :=
        ⟨by simp [σ1, σ0, hcnt], by simp [σ1, σ0, hcnt], by simpa [σ1, σ0, hcnt] using hit,
         by simpa [σ1, σ0, hcnt] using hh, fun _ _ => by simp [σ1, σ0, hcnt], fun _ => by simp [σ1, σ0, hcnt]⟩
      have A := ih cur none [] ctx (pc + 2) C σ1 env hst rfl (fun _ => rfl) hcur hns hC1
        (by simp [σ1, σ0, hcnt, hpc]) (by simpa [σ1, σ0, hcnt] using hh)
        (by simpa [σ1, σ0, hcnt] using hit) (by simpa [σ1, σ0, hcnt] using hcnt)
      rw [adj_none] at A
      have P := SimK.prepend (l1 := []) hr0 hc0 (by simp [σ1, σ0, hcnt])
        (SimK.mono A (fun x hx => by simpa [ids] using hx) (fun h => by simpa [retFree] using h))
      cases hex : exec env [] s with
      | mk c lg =>
        rw [hex] at P
        simpa [Sim, exec, hex, kind_updateEmpty] using P
    · -- condition false: jump over the body
      have hpc1 : σ1.pc = pc + 2 + glen s none (ctx.map BI.shape) := by
        have := jmp_rel (pc + 1) (pc + 2 + glen s none (ctx.map BI.shape))
        simpa [σ1, σ0, hcnt, hem, hpc] using this
      have hc0 : Common σ σ1 [] (ids (Stmt.ifIter m s)) (retFree (Stmt.ifIter m s)) :=
        ⟨by simp [σ1, σ0, hcnt, hem], by simp [σ1, σ0, hcnt, hem], by simpa [σ1, σ0, hcnt, hem] using hit,
         by simpa [σ1, σ0, hcnt, hem] using hh, fun _ _ => by simp [σ1, σ0, hcnt, hem], fun _ => by simp [σ1, σ0, hcnt, hem]⟩
      have : SimK C ctx σ (pc + 2 + glen s none (ctx.map BI.shape)) (ids (Stmt.ifIter m s)) (retFree (Stmt.ifIter m s)) [] K.normal :=
        ⟨σ1, hr0, hc0, hpc1, by simp [σ1, σ0, hcnt, hem]⟩
      simpa [Sim, exec, hem, kind] using this

end GojaModel.C08
