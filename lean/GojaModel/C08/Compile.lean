/-
  C08 — model `TryFin`, parts (ii) and (iii):
  (ii)  `compileCF`: the control-flow code emission of /repo/compiler_stmt.go for function bodies
        (needResult = false everywhere), mirroring compileTryStatement (:105), loop emission
        (:217 do, :252 for, :407 for-in/of, :499 while), findBreakBlock (:572, incl. the `breaking`
        block of a finally that itself exits), emitBlockExitCode (:618), compileReturnStatement (:730),
        compileGenericLabeledStatement (:947), compileBlockStatement (:958), compileWithStatement (:993),
        compileSwitchStatement (:1013), leaveScopeBlock / leaveBlock (compiler.go:326/340).
  (iii) a mini-VM with the instructions of /repo/vm.go: try (:4760), leaveTry (:4776), enterFinally
        (:4792), leaveFinally (:4800), jump/jneP/jeqP, iterateP (:5104), iterNext (:5123), enumPop
        (:5078), enumPopClose (:5089), enumerate/enumNext, leaveWith, leaveBlock, ret, throw and
        handleThrow (:800) incl. restoreStacks (:777) closing iterators and discarding their errors.
  Core Lean only.
-/
import GojaModel.C08.Model

namespace GojaModel.C08

inductive Instr
  -- non-control (erased in the skeleton correspondence): expression code
  | emit (e : Ev)
  | loadVal (v : Val) | saveResult | loadResult | pop | dup | strictEq
  | cntReset (id : Nat) | cntZero (id : Nat) | cntInc (id : Nat)
  | cntLt (id n : Nat) | cntEq (id m : Nat) | loadSel (useEnv : Bool) (k cur : Nat)
  | enumGet (id : Nat) | catchLog (i : Nat) | fatal
  -- control
  | try_ (catchOff finOff : Nat)
  | leaveTry | enterFinally | leaveFinally
  | jump (off : Int) | jneP (off : Int) | jeqP (off : Int)
  | iterateP (sp : IterSpec) | iterNext (off : Int) | enumPop | enumPopClose
  | enumerate (n : Nat) | enumNext (off : Int)
  | enterWith | leaveWith | enterBlock (n : Nat) | leaveBlock (n : Nat) | copyStash
  | ret | throw
  | nop   -- placeholder `nil` that was never patched (ill-formed program)
  deriving DecidableEq, Repr

inductive BT | loop | loopEnum | try_ | label | switch_ | with_ | scope | iterScope
  deriving DecidableEq, Repr

/-- compiler.go:315 `type block struct` (needResult omitted: always false in function bodies);
`breaking` is the height (distance from the bottom of the block stack) of the target block. -/
structure Block where
  typ : BT
  label : Option Label := none
  cont : Nat := 0
  breaks : List Nat := []
  conts : List Nat := []
  breaking : Option Nat := none
  deriving Repr

structure CS where
  code : Array Instr := #[]
  blocks : List Block := []      -- head = c.block (innermost)
  deriving Repr

namespace CS

def size (cs : CS) : Nat := cs.code.size
def emit (cs : CS) (i : Instr) : CS := { cs with code := cs.code.push i }
def patch (cs : CS) (pc : Nat) (i : Instr) : CS := { cs with code := cs.code.setIfInBounds pc i }
def push (cs : CS) (b : Block) : CS := { cs with blocks := b :: cs.blocks }
def modTop (cs : CS) (f : Block → Block) : CS :=
  match cs.blocks with
  | b :: r => { cs with blocks := f b :: r }
  | [] => cs

def rel (target src : Nat) : Int := (target : Int) - (src : Int)

/-- compiler.go:340 leaveBlock -/
def leaveBlock (cs : CS) : CS :=
  match cs.blocks with
  | [] => cs
  | b :: r =>
    let lbl := cs.size
    let code := b.breaks.foldl (fun c item => c.setIfInBounds item (Instr.jump (rel lbl item))) cs.code
    let code := if b.typ = BT.loop ∨ b.typ = BT.loopEnum then
        b.conts.foldl (fun c item => c.setIfInBounds item (Instr.jump (rel b.cont item))) code
      else code
    { code := code, blocks := r }

/-- compiler.go:326 leaveScopeBlock -/
def leaveScopeBlock (cs : CS) (n : Nat) : CS :=
  let cs := cs.emit (Instr.leaveBlock n)
  match cs.blocks with
  | [] => cs
  | b :: r =>
    let code := b.breaks.foldl (fun c pc => c.setIfInBounds pc (Instr.leaveBlock n)) cs.code
    leaveBlock { code := code, blocks := { b with breaks := [] } :: r }

end CS

/-- compiler_stmt.go:572 findBreakBlock, labelled branch; walks from the innermost block.
Returns the height of the block. `res` = already chosen `breaking` target. -/
def findLabelled (label : Label) (isBreak : Bool) : List Block → Option Nat → Option Nat
  | [], res => res
  | b :: rest, res =>
    let res' := match res with
      | some r => some r
      | none => b.breaking
    if res.isNone ∧ b.breaking.isSome ∧ isBreak then res'
    else if b.label = some label then
      (match res' with | some r => some r | none => some rest.length)
    else findLabelled label isBreak rest res'

/-- compiler_stmt.go:572 findBreakBlock, unlabelled branch -/
def findUnlabelled (isBreak : Bool) : List Block → Option Nat
  | [] => none
  | b :: rest =>
    match b.breaking with
    | some bb => some bb
    | none =>
      if b.typ = BT.loop ∨ b.typ = BT.loopEnum then some rest.length
      else if b.typ = BT.switch_ ∧ isBreak then some rest.length
      else findUnlabelled isBreak rest

def findBreakBlock (label : Option Label) (isBreak : Bool) (blocks : List Block) : Option Nat :=
  match label with
  | some l => findLabelled l isBreak blocks none
  | none => findUnlabelled isBreak blocks

/-- compiler_stmt.go:618 emitBlockExitCode: walk from the innermost block to the block of height `t`.
`cfl` = contForLoop (`continue` targeting a plain loop): the walk then stops at the target loop's own
per-iteration scope (`b.typ == blockIterScope && b.outer == block`), which `continue` must not leave. -/
def exitWalk (t : Nat) (cfl : Bool) : List Block → Array Instr → List Block × Array Instr
  | [], code => ([], code)
  | b :: rest, code =>
    if rest.length = t then (b :: rest, code)
    else if b.typ = BT.iterScope ∧ cfl ∧ rest.length = t + 1 then (b :: rest, code)
    else
      let (b', code') : Block × Array Instr := match b.typ with
        | BT.scope => ({ b with breaks := b.breaks ++ [code.size] }, code.push Instr.nop)
        | BT.iterScope => ({ b with breaks := b.breaks ++ [code.size] }, code.push Instr.nop)
        | BT.try_ => (b, code.push Instr.leaveTry)
        | BT.with_ => (b, code.push Instr.leaveWith)
        | BT.loopEnum => (b, code.push Instr.enumPopClose)
        | _ => (b, code)
      let (rest', code'') := exitWalk t cfl rest code'
      (b' :: rest', code'')

def typAtHeight (t : Nat) : List Block → Option BT
  | [] => none
  | b :: rest => if rest.length = t then some b.typ else typAtHeight t rest

def modAtHeight (t : Nat) (f : Block → Block) : List Block → List Block
  | [] => []
  | b :: rest => if rest.length = t then f b :: rest else b :: modAtHeight t f rest

/-- compiler_stmt.go:649/655 compileBreak / compileContinue -/
def compileBranch (label : Option Label) (isBreak : Bool) (cs : CS) : CS :=
  match findBreakBlock label isBreak cs.blocks with
  | none => cs.emit Instr.nop        -- "Could not find block" (syntax error in goja)
  | some t =>
    let cfl := !isBreak && typAtHeight t cs.blocks == some BT.loop
    let (blocks, code) := exitWalk t cfl cs.blocks cs.code
    let pc := code.size
    let blocks := modAtHeight t (fun b =>
      if isBreak then { b with breaks := b.breaks ++ [pc] } else { b with conts := b.conts ++ [pc] }) blocks
    { code := code.push Instr.nop, blocks := blocks }

/-- compiler_stmt.go:739 the loop of compileReturnStatement -/
def returnExits : List Block → Array Instr → Array Instr
  | [], code => code
  | b :: rest, code =>
    let code := match b.typ with
      | BT.try_ => ((code.push Instr.saveResult).push Instr.leaveTry).push Instr.loadResult
      | BT.loopEnum => code.push Instr.enumPopClose
      | _ => code
    returnExits rest code

/-- statement list of a block as the JS translation prints it (`seq` is juxtaposition, `skip` nothing) -/
def flatten : Stmt → List Stmt
  | .seq a b => flatten a ++ flatten b
  | .skip => []
  | s => [s]

/-- compiler_stmt.go:885 scanStatements (only the breaking-block part): first top-level branch statement -/
def firstBranch : List Stmt → Option (Option Label × Bool)
  | [] => none
  | .brk l :: _ => some (l, true)
  | .cont l :: _ => some (l, false)
  | _ :: r => firstBranch r

/-- The code emission.  `cur` = id of the counter variable of the innermost enclosing loop,
`lab` = label attached directly to this statement (compileLabeledStatement passes it to loops). -/
def compileCF (cur : Nat) (lab : Option Label) : Stmt → CS → CS
  | .skip, cs => cs
  | .log k, cs => cs.emit (.emit (.log k))
  | .seq a b, cs => compileCF cur none b (compileCF cur none a cs)
  | .brk l, cs => compileBranch l true cs
  | .cont l, cs => compileBranch l false cs
  | .ret v, cs =>
    let cs := cs.emit (.loadVal v)
    { cs with code := (returnExits cs.blocks cs.code).push Instr.ret }
  | .thr v, cs => (cs.emit (.loadVal v)).emit .throw
  | .fatal, cs => cs.emit .fatal
  | .tryS i b hasC c hasF f, cs =>
    -- compiler_stmt.go:105 compileTryStatement
    let cs := cs.push { typ := BT.try_ }
    let fb : Option Nat := if hasF then
        (match firstBranch (flatten f) with
         | some (l, isBreak) => findBreakBlock l isBreak cs.blocks
         | none => none)
      else none
    let cs := cs.modTop (fun blk => { blk with breaking := fb })
    let lbl := cs.size
    let cs := cs.emit .nop
    let cs := if hasF then cs.emit (.emit (.tryE i)) else cs
    let cs := compileCF cur none b cs
    let (cs, catchOff) : CS × Nat := if hasC then
        let lbl2 := cs.size
        let cs := cs.emit .nop
        let catchOff := cs.size - lbl
        let cs := cs.push { typ := BT.scope }
        let cs := cs.emit (.enterBlock 0)
        let cs := cs.emit (.catchLog i)
        let cs := compileCF cur none c cs
        let cs := cs.leaveScopeBlock 1
        (cs.patch lbl2 (.jump (CS.rel cs.size lbl2)), catchOff)
      else (cs, 0)
    let (cs, finOff) : CS × Nat := if hasF then
        let cs := cs.emit .enterFinally
        let finOff := cs.size - lbl
        let cs := cs.emit (.emit (.finE i))
        -- compiler_stmt.go (7631e60): the override applies to the try block and the catch clause only
        let cs := cs.modTop (fun blk => { blk with breaking := none })
        let cs := compileCF cur none f cs
        (cs.emit .leaveFinally, finOff)
      else (cs.emit .leaveTry, 0)
    (cs.patch lbl (.try_ catchOff finOff)).leaveBlock
  | .loop .while_ id n body, cs =>
    -- compiler_stmt.go:499 compileLabeledWhileStatement;  JS: c=-1; while(++c<n) body
    let cs := cs.emit (.cntReset id)
    let cs := cs.push { typ := BT.loop, label := lab }
    let start := cs.size
    let cs := cs.modTop (fun b => { b with cont := start })
    let cs := (cs.emit (.cntInc id)).emit (.cntLt id n)
    let j := cs.size
    let cs := cs.emit .nop
    let cs := compileCF id none body cs
    let cs := cs.emit (.jump (CS.rel start cs.size))
    (cs.patch j (.jneP (CS.rel cs.size j))).leaveBlock
  | .loop .do_ id n body, cs =>
    -- compiler_stmt.go:217 compileLabeledDoWhileStatement;  JS: c=0; do body while(++c<n)
    let cs := cs.emit (.cntZero id)
    let cs := cs.push { typ := BT.loop, label := lab }
    let start := cs.size
    let cs := compileCF id none body cs
    let cs := cs.modTop (fun b => { b with cont := cs.size })
    let cs := (cs.emit (.cntInc id)).emit (.cntLt id n)
    (cs.emit (.jeqP (CS.rel start cs.size))).leaveBlock
  | .loop .for_ id n body, cs =>
    -- compiler_stmt.go:252 compileLabeledForStatement;  JS: for(c=0;c<n;c++) body
    let cs := cs.push { typ := BT.loop, label := lab }
    let cs := cs.emit (.cntZero id)
    let start := cs.size
    let cs := cs.emit (.cntLt id n)
    let j := cs.size
    let cs := cs.emit .nop
    let cs := compileCF id none body cs
    let cs := cs.modTop (fun b => { b with cont := cs.size })
    let cs := cs.emit (.cntInc id)
    let cs := cs.emit (.jump (CS.rel start cs.size))
    (cs.patch j (.jneP (CS.rel cs.size j))).leaveBlock
  | .loop .forlet id n body, cs =>
    -- compiler_stmt.go:252 compileLabeledForStatement with a lexical head declaration captured by a closure:
    -- JS: for (let q = 0; q < n; q++) { var c = q; var _f = function(){ return q }; body }
    let cs := cs.push { typ := BT.loop, label := lab }
    let cs := cs.push { typ := BT.iterScope }            -- compileForHeadLexDecl (:237)
    let cs := cs.emit (.enterBlock 1)
    let cs := cs.emit (.cntZero id)
    let cs := cs.emit .copyStash                         -- code[start-1] (jump(1) replaced: the scope needs a stash)
    let start := cs.size
    let cs := cs.emit (.cntLt id n)
    let j := cs.size
    let cs := cs.emit .nop
    let cs := compileCF id none body cs
    let contPc := cs.size
    let cs : CS := { cs with blocks := match cs.blocks with
                                      | sb :: lb :: r => sb :: { lb with cont := contPc } :: r
                                      | bs => bs }
    let cs := cs.emit .copyStash                         -- code[loopBlock.cont]
    let cs := cs.emit (.cntInc id)
    let cs := cs.emit (.jump (CS.rel start cs.size))
    let cs := cs.patch j (.jneP (CS.rel cs.size j))
    (cs.leaveScopeBlock 1).leaveBlock
  | .loop .forin id n body, cs =>
    -- compiler_stmt.go:407 compileLabeledForInOfStatement, iter = false
    let cs := cs.push { typ := BT.loopEnum, label := lab }
    let cs := cs.emit (.enumerate n)
    let start := cs.size
    let cs := cs.modTop (fun b => { b with cont := start })
    let cs := cs.emit .nop
    let cs := cs.emit (.enumGet id)
    let cs := compileCF id none body cs
    let cs := cs.emit (.jump (CS.rel start cs.size))
    let cs := cs.patch start (.enumNext (CS.rel cs.size start))
    let cs := (cs.emit .enumPop).emit (.jump 2)
    cs.leaveBlock.emit .enumPopClose
  | .forOf sp body, cs =>
    -- compiler_stmt.go:407 compileLabeledForInOfStatement, iter = true
    let cs := cs.push { typ := BT.loopEnum, label := lab }
    -- `for (let x of ..)`: head scope for the TDZ of x; the source does not use x, so the scope is dropped
    -- again and its placeholder stays a `jump 1`
    let cs := if sp.lex then cs.emit (.jump 1) else cs
    let cs := cs.emit (.iterateP sp)
    let start := cs.size
    let cs := cs.modTop (fun b => { b with cont := start })
    let cs := cs.emit .nop
    let cs := if sp.lex then (cs.push { typ := BT.iterScope }).emit (.enterBlock 1) else cs   -- compileForInto, ForDeclaration (:374)
    let cs := cs.emit (.enumGet sp.id)
    let cs := compileCF sp.id none body cs
    let cs := if sp.lex then cs.leaveScopeBlock 1 else cs
    let cs := cs.emit (.jump (CS.rel start cs.size))
    let cs := cs.patch start (.iterNext (CS.rel cs.size start))
    let cs := (cs.emit .enumPop).emit (.jump 2)
    cs.leaveBlock.emit .enumPopClose
  | .lbl l s, cs =>
    match s with
    | .loop _ _ _ _ => compileCF cur (some l) s cs      -- compileLabeledStatement: loops take the label
    | .forOf _ _ => compileCF cur (some l) s cs
    | _ =>
      -- compiler_stmt.go:947 compileGenericLabeledStatement
      let cs := cs.push { typ := BT.label, label := some l }
      (compileCF cur none s cs).leaveBlock
  | .sw u k s0 s1, cs =>
    -- compiler_stmt.go:1013 compileSwitchStatement (no lexical declarations, no default clause)
    let cs := cs.push { typ := BT.switch_ }
    let cs := cs.emit (.loadSel u k cur)
    let cs := ((((cs.emit .dup).emit (.loadVal 0)).emit .strictEq).emit (.jneP 3)).emit .pop
    let j0 := cs.size
    let cs := cs.emit .nop
    let cs := ((((cs.emit .dup).emit (.loadVal 1)).emit .strictEq).emit (.jneP 3)).emit .pop
    let j1 := cs.size
    let cs := cs.emit .nop
    let cs := cs.emit .pop
    let jn := cs.size
    let cs := cs.emit .nop
    let cs := cs.patch j0 (.jump (CS.rel cs.size j0))
    let cs := compileCF cur none s0 cs
    let cs := cs.patch j1 (.jump (CS.rel cs.size j1))
    let cs := compileCF cur none s1 cs
    let cs := cs.patch jn (.jump (CS.rel cs.size jn))
    cs.leaveBlock
  | .withS s, cs =>
    -- compiler_stmt.go:993 compileWithStatement
    let cs := (cs.emit (.loadVal 0)).emit .enterWith
    let cs := cs.push { typ := BT.with_ }
    let cs := compileCF cur none s cs
    (cs.emit .leaveWith).leaveBlock
  | .blk s, cs =>
    -- compiler_stmt.go:958 compileBlockStatement with a lexical declaration
    let cs := cs.push { typ := BT.scope }
    let cs := cs.emit (.enterBlock 1)
    (compileCF cur none s cs).leaveScopeBlock 1
  | .ifIter m s, cs =>
    -- compiler_stmt.go:680 compileIfStatement, no else, needResult = false
    let cs := cs.emit (.cntEq cur m)
    let jmp := cs.size
    let cs := cs.emit .nop
    let cs := compileCF cur none s cs
    cs.patch jmp (.jneP (CS.rel cs.size jmp))

/-- compiler_expr.go:1546: the implicit `return undefined` is emitted unless the last statement of the
function body is a return statement -/
def endsWithReturn (p : Stmt) : Bool :=
  match (flatten p).getLast? with
  | some (.ret _) => true
  | _ => false

/-- whole function body: `var c0 = 0; <body>; [return undefined]` -/
def compileProgram (p : Stmt) : Array Instr :=
  let cs : CS := {}
  let cs := cs.emit (.cntZero 0)
  let cs := compileCF 0 none p cs
  if endsWithReturn p then cs.code else ((cs.emit (.loadVal 0)).emit .ret).code

/-! ### mini-VM -/

/-- vm.go:47 tryFrame (fields that matter here) -/
structure TryFrame where
  exc : Option Val := none
  iterLen : Nat
  sp : Nat
  catchPos : Option Nat
  finallyPos : Option Nat
  finallyRet : Option Nat := none
  /-- vm.result at the time leaveTry entered the finally block (921daaa): the parked value of a pending return -/
  result : Val := 0
  deriving Repr

/-- vm.go:111 iterStackItem: `sp = none` is `iter == nil` (for-in enumeration, or a closed record) -/
structure IterItem where
  sp : Option IterSpec
  idx : Nat := 0
  n : Nat := 0
  val : Nat := 0
  deriving Repr

structure VM where
  pc : Nat := 0
  stack : List Val := []          -- head = top
  result : Val := 0
  tries : List TryFrame := []     -- head = top
  iters : List IterItem := []     -- head = top
  cnt : Nat → Option Nat := fun _ => none   -- loop counter variables c<id>
  log : List Ev := []             -- in order
  halted : Option Compl := none

namespace VM

def getCnt (vm : VM) (id : Nat) : Option Nat := vm.cnt id

def setCnt (vm : VM) (id : Nat) (v : Option Nat) : VM :=
  { vm with cnt := fun x => if x = id then v else vm.cnt x }

def out (vm : VM) (e : Ev) : VM := { vm with log := vm.log ++ [e] }
def next (vm : VM) : VM := { vm with pc := vm.pc + 1 }
def jmp (vm : VM) (off : Int) : VM := { vm with pc := ((vm.pc : Int) + off).toNat }
def pushV (vm : VM) (v : Val) : VM := { vm with stack := v :: vm.stack }
def top (vm : VM) : Val := vm.stack.headD 0
def popV (vm : VM) : VM := { vm with stack := vm.stack.tail }
def setSp (vm : VM) (sp : Nat) : VM := { vm with stack := vm.stack.drop (vm.stack.length - sp) }

/-- vm.go:777 restoreStacks: close the iterators above `len` from the top, errors of return() are
collected but discarded by the caller (vm.go:818 `_ = vm.restoreStacks`). `call` = whether
return() is actually invoked. -/
def closeIters (len : Nat) (call : Bool) (vm : VM) : VM :=
  let rec go : List IterItem → List Ev → List IterItem × List Ev
    | [], acc => ([], acc)
    | it :: rest, acc =>
      if rest.length + 1 ≤ len then (it :: rest, acc)
      else
        let acc := match it.sp with
          | some s => if call then acc ++ [Ev.itRet s.id] else acc
          | none => acc
        go rest acc
  let (its, evs) := go vm.iters []
  { vm with iters := its, log := vm.log ++ evs }

/-- vm.go handleThrow.  `ex = none` is an uncatchable payload (exceptionFromValue returned nil):
ordinary frames are skipped, and the tryPanicMarker frame truncates the iterator stack WITHOUT
calling return() (`_restoreStacks(tf.iterLen, tf.refLen, ex != nil)`). -/
def handleThrow (ex : Option Val) : List TryFrame → VM → VM
  | [], vm =>
    -- the tryPanicMarker frame pushed by runTry: restoreStacks, then the error leaves run()
    let vm := closeIters 0 ex.isSome { vm with tries := [] }
    { vm with halted := some (match ex with | some v => Compl.thr v | none => Compl.fatal) }
  | tf :: rest, vm =>
    if (tf.catchPos.isNone ∧ tf.finallyPos.isNone) ∨ ex.isNone then
      handleThrow ex rest vm
    else
      let vm := closeIters tf.iterLen true (vm.setSp tf.sp)
      match tf.catchPos, ex with
      | some p, some v =>
        let vm' := vm.pushV v
        { vm' with pc := p, tries := { tf with catchPos := none } :: rest }
      | _, _ =>
        match tf.finallyPos with
        | some p => { vm with pc := p, tries := { tf with exc := ex, finallyPos := none, finallyRet := none } :: rest }
        | none => { vm with tries := rest }  -- unreachable

def throwV (ex : Option Val) (vm : VM) : VM := handleThrow ex vm.tries vm

def boolV (b : Bool) : Val := if b then 1 else 0

/-- one instruction -/
def step (vm : VM) : Instr → VM
  | .emit e => (vm.out e).next
  | .loadVal v => (vm.pushV v).next
  | .saveResult =>
    let vm' := vm.popV
    { vm' with result := vm.top }.next
  | .loadResult => (vm.pushV vm.result).next
  | .pop => vm.popV.next
  | .dup => (vm.pushV vm.top).next
  | .strictEq =>
    let b := vm.top; let a := vm.popV.top
    ((vm.popV.popV).pushV (boolV (a == b))).next
  | .cntReset id => (vm.setCnt id none).next
  | .cntZero id => (vm.setCnt id (some 0)).next
  | .cntInc id => (vm.setCnt id (match vm.getCnt id with | none => some 0 | some c => some (c + 1))).next
  | .cntLt id n => (vm.pushV (boolV ((vm.getCnt id).getD 0 < n))).next
  | .cntEq id m => (vm.pushV (boolV ((vm.getCnt id).getD 0 == m))).next
  | .loadSel u k cur => (vm.pushV (if u then (vm.getCnt cur).getD 0 else k)).next
  | .enumGet id =>
    match vm.iters with
    | it :: _ => (vm.setCnt id (some it.val)).next
    | [] => vm.next
  | .catchLog i => (vm.out (Ev.caught i vm.top)).next
  | .fatal => throwV none (vm.out Ev.fatal)
  | .try_ c f =>
    -- vm.go:4760
    { vm with tries := { iterLen := vm.iters.length, sp := vm.stack.length,
                         catchPos := if c > 0 then some (vm.pc + c) else none,
                         finallyPos := if f > 0 then some (vm.pc + f) else none } :: vm.tries }.next
  | .leaveTry =>
    -- vm.go:4776
    match vm.tries with
    | tf :: rest =>
      match tf.finallyPos with
      | some p =>
        let tf' : TryFrame := { tf with finallyRet := some (vm.pc + 1), finallyPos := none, catchPos := none,
                                        result := vm.result }
        let vm' := vm.setSp tf.sp
        { vm' with pc := p, tries := tf' :: rest }
      | none => { vm with tries := rest }.next
    | [] => vm.next
  | .enterFinally =>
    match vm.tries with
    | tf :: rest =>
      -- vm.go enterFinally: finallyPos = -1; catchPos = -1 (an exception thrown inside 'finally' must
      -- not be caught by this statement's own 'catch')
      { vm with tries := { tf with finallyPos := none, catchPos := none } :: rest }.next
    | [] => vm.next
  | .leaveFinally =>
    -- vm.go:4800
    match vm.tries with
    | tf :: rest =>
      let vm := { vm with tries := rest }
      match tf.exc with
      | some v => throwV (some v) vm
      | none => match tf.finallyRet with
        | some r => { vm with pc := r, result := tf.result }   -- `if ret >= 0 { vm.result = res }`
        | none => vm.next
    | [] => vm.next
  | .jump off => vm.jmp off
  | .jneP off => if vm.top == 0 then vm.popV.jmp off else vm.popV.next
  | .jeqP off => if vm.top != 0 then vm.popV.jmp off else vm.popV.next
  | .iterateP sp => ({ vm with iters := { sp := some sp } :: vm.iters }.out (Ev.itOpen sp.id)).next
  | .iterNext off =>
    -- vm.go:5123
    match vm.iters with
    | it :: rest =>
      match it.sp with
      | some s =>
        let vm := vm.out (Ev.itNext s.id)
        if s.nextThrow = some it.idx then
          throwV (some (100 + s.id)) ({ vm with iters := rest }.out (Ev.itFail s.id))
        else if s.n ≤ it.idx then
          ({ vm with iters := { it with sp := none } :: rest }.out (Ev.itDone s.id)).jmp off
        else { vm with iters := { it with val := it.idx, idx := it.idx + 1 } :: rest }.next
      | none => vm.jmp off
    | [] => vm.next
  | .enumPop => { vm with iters := vm.iters.tail }.next
  | .enumPopClose =>
    -- vm.go:5089
    match vm.iters with
    | it :: rest =>
      let vm := { vm with iters := rest }
      match it.sp with
      | some s =>
        let vm := vm.out (Ev.itRet s.id)
        match s.ret with
        | .ok => vm.next
        | .thr => throwV (some (200 + s.id)) vm
        | .nonobj => throwV (some TE) vm
      | none => vm.next
    | [] => vm.next
  | .enumerate n => { vm with iters := { sp := none, n := n } :: vm.iters }.next
  | .enumNext off =>
    match vm.iters with
    | it :: rest =>
      if it.idx < it.n then { vm with iters := { it with val := it.idx, idx := it.idx + 1 } :: rest }.next
      else vm.jmp off
    | [] => vm.next
  | .enterWith => vm.popV.next
  | .leaveWith => vm.next
  | .copyStash => vm.next
  | .enterBlock n => { vm with stack := List.replicate n 0 ++ vm.stack }.next
  | .leaveBlock n => { vm with stack := vm.stack.drop n }.next
  | .ret => { vm with halted := some (Compl.ret vm.top) }
  | .throw => throwV (some vm.top) vm
  | .nop => { vm with halted := some (Compl.thr 998) }   -- executing an unpatched placeholder

def run (code : Array Instr) : Nat → VM → VM
  | 0, vm => vm
  | fuel + 1, vm =>
    match vm.halted with
    | some _ => vm
    | none =>
      if h : vm.pc < code.size then run code fuel (step vm code[vm.pc])
      else { vm with halted := some (Compl.normal none) }

end VM

/-- the observable result of running the compiled function body: the implicit `return undefined`
at the end of a function is a normal completion for the caller. -/
def runProgramWith (fuel : Nat) (p : Stmt) : Res × Nat × Nat :=
  let code := compileProgram p
  let vm := VM.run code fuel {}
  let endPc := code.size - 1
  let c : Compl := match vm.halted with
    | some (Compl.ret v) => if vm.pc = endPc ∧ !endsWithReturn p then Compl.normal none else Compl.ret v
    | some c => c
    | none => Compl.thr 997       -- out of fuel
  ((c, vm.log), vm.tries.length, vm.iters.length)

def runProgram (p : Stmt) : Res := (runProgramWith 200000 p).1

/-! ### listing -/

def showInstr : Instr → String
  | .emit _ => ".emit" | .loadVal _ => ".loadVal" | .saveResult => ".saveResult" | .loadResult => ".loadResult"
  | .pop => ".pop" | .dup => ".dup" | .strictEq => ".strictEq"
  | .cntReset _ => ".cntReset" | .cntZero _ => ".cntZero" | .cntInc _ => ".cntInc"
  | .cntLt _ _ => ".cntLt" | .cntEq _ _ => ".cntEq" | .loadSel _ _ _ => ".loadSel"
  | .enumGet _ => ".enumGet" | .catchLog _ => ".catchLog" | .fatal => ".fatal"
  | .try_ c f => s!"try {c} {f}"
  | .leaveTry => "leaveTry" | .enterFinally => "enterFinally" | .leaveFinally => "leaveFinally"
  | .jump o => s!"jump {o}" | .jneP o => s!"jneP {o}" | .jeqP o => s!"jeqP {o}"
  | .iterateP _ => "iterateP" | .iterNext o => s!"iterNext {o}"
  | .enumPop => "enumPop" | .enumPopClose => "enumPopClose"
  | .enumerate _ => "enumerate" | .enumNext o => s!"enumNext {o}"
  | .enterWith => "enterWith" | .leaveWith => "leaveWith"
  | .enterBlock _ => "enterBlock" | .leaveBlock _ => "leaveBlock" | .copyStash => "copyStash"
  | .ret => "ret" | .throw => "throw" | .nop => "NOP"

def showCode (code : Array Instr) : String := ";".intercalate (code.toList.map showInstr)

end GojaModel.C08
