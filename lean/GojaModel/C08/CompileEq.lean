/-
  C08 — `compileS p = compileCF p` for the stage-1 fragment, as a theorem.

  The back-patching compiler keeps, per open block, the positions of placeholders that will be patched when
  the block is left (`breaks`, `conts`).  `RL ctx cs` is the code of `cs` as it will read once every open
  block has been left, given the final targets `ctx` of the open blocks: a pending position reads as the
  instruction it will be patched with (the OUTERMOST block that lists it wins, as it is patched last).
  Each emission step of compiler_stmt.go is characterised on `RL` (emit = append, patch = set, leaveBlock =
  dropping the head of `ctx`, break/continue = append exit code + resolved jump); the main theorem is then
  list algebra, by structural induction on the statement.
-/
import GojaModel.C08.CompileSLemmas

namespace GojaModel.C08

/-- what a pending position of block `b` will be patched with when the block is left (conts are patched
after breaks: compiler.go:340) -/
def resolveHere (c : BI) (b : Block) (k : Nat) : Option Instr :=
  match c with
  | .loop _ bp cp =>
    if k ∈ b.conts then some (Instr.jump (CS.rel cp k))
    else if k ∈ b.breaks then some (Instr.jump (CS.rel bp k)) else none
  | .label _ bp => if k ∈ b.breaks then some (Instr.jump (CS.rel bp k)) else none
  | .scope n => if k ∈ b.breaks then some (Instr.leaveBlock n) else none
  | .try_ => none
  | .with_ => none

def pend : List BI → List Block → Nat → Option Instr
  | c :: ctx, b :: bs, k =>
    match pend ctx bs k with
    | some i => some i
    | none => resolveHere c b k
  | _, _, _ => none

/-- resolved listing -/
def RL (ctx : List BI) (cs : CS) : List Instr :=
  (List.range cs.code.size).map (fun k => (pend ctx cs.blocks k).getD (cs.code[k]?.getD Instr.nop))

def pendAll (bs : List Block) : List Nat := bs.flatMap (fun b => b.breaks ++ b.conts)

def MatchB (c : BI) (b : Block) : Prop :=
  b.breaking = none ∧
  match c with
  | .loop lab _ _ => b.typ = BT.loop ∧ b.label = lab
  | .label l _ => b.typ = BT.label ∧ b.label = some l ∧ b.conts = []
  | .try_ => b.typ = BT.try_ ∧ b.label = none ∧ b.breaks = [] ∧ b.conts = []
  | .scope _ => b.typ = BT.scope ∧ b.label = none ∧ b.conts = []
  | .with_ => b.typ = BT.with_ ∧ b.label = none ∧ b.breaks = [] ∧ b.conts = []

def Match : List BI → List Block → Prop
  | [], [] => True
  | c :: cs, b :: bs => MatchB c b ∧ Match cs bs
  | _, _ => False

structure Inv (ctx : List BI) (cs : CS) : Prop where
  m : Match ctx cs.blocks
  p : ∀ k, k ∈ pendAll cs.blocks → k < cs.code.size

theorem RL_length (ctx : List BI) (cs : CS) : (RL ctx cs).length = cs.code.size := by simp [RL]

theorem pend_none {ctx : List BI} {bs : List Block} {k : Nat} (h : k ∉ pendAll bs) : pend ctx bs k = none := by
  induction bs generalizing ctx with
  | nil => cases ctx <;> rfl
  | cons b rest ih =>
    cases ctx with
    | nil => rfl
    | cons c ctx =>
      simp only [pendAll, List.flatMap_cons, List.mem_append, not_or] at h
      have hr : pend ctx rest k = none := ih (by simpa [pendAll] using h.2)
      simp only [pend, hr]
      cases c <;> simp [resolveHere, h.1.1, h.1.2]

theorem RL_ext {ctx ctx' : List BI} {cs cs' : CS} (hs : cs'.code.size = cs.code.size)
    (h : ∀ k, k < cs.code.size →
      (pend ctx' cs'.blocks k).getD (cs'.code[k]?.getD Instr.nop) = (pend ctx cs.blocks k).getD (cs.code[k]?.getD Instr.nop)) :
    RL ctx' cs' = RL ctx cs := by
  simp only [RL, hs]
  apply List.map_congr_left
  intro k hk
  exact h k (by simpa using hk)

theorem RL_emit {ctx : List BI} {cs : CS} (hi : Inv ctx cs) (i : Instr) : RL ctx (cs.emit i) = RL ctx cs ++ [i] := by
  simp only [RL, CS.emit, Array.size_push, List.range_succ, List.map_append, List.map_cons, List.map_nil]
  congr 1
  · apply List.map_congr_left
    intro k hk
    have hk' : k < cs.code.size := by simpa using hk
    simp [Array.getElem?_push, Nat.ne_of_lt hk']
  · have hn : cs.code.size ∉ pendAll cs.blocks := fun h => Nat.lt_irrefl _ (hi.p _ h)
    simp [pend_none hn]

theorem Inv_emit {ctx : List BI} {cs : CS} (hi : Inv ctx cs) (i : Instr) : Inv ctx (cs.emit i) :=
  ⟨hi.m, fun k hk => by simp only [CS.emit, Array.size_push]; exact Nat.lt_succ_of_lt (hi.p k hk)⟩

theorem RL_patch {ctx : List BI} {cs : CS} {q : Nat} (i : Instr) (hq : q ∉ pendAll cs.blocks) :
    RL ctx (cs.patch q i) = (RL ctx cs).set q i := by
  apply List.ext_getElem?
  intro k
  simp only [RL, CS.patch, Array.size_setIfInBounds, List.getElem?_set, List.getElem?_map, List.length_map, List.length_range]
  by_cases hk : k < cs.code.size
  · by_cases hqk : q = k
    · subst hqk
      simp [hk, pend_none hq, Array.getElem?_setIfInBounds]
    · simp [hk, hqk, Array.getElem?_setIfInBounds]
  · have : ¬ (k < cs.code.size) := hk
    by_cases hqk : q = k
    · subst hqk; simp [hk]
    · simp [hk, hqk]

theorem Inv_patch {ctx : List BI} {cs : CS} (hi : Inv ctx cs) (q : Nat) (i : Instr) : Inv ctx (cs.patch q i) :=
  ⟨hi.m, fun k hk => by simp only [CS.patch, Array.size_setIfInBounds]; exact hi.p k hk⟩

theorem foldl_set_size (l : List Nat) (f : Nat → Instr) (code : Array Instr) :
    (l.foldl (fun a item => a.setIfInBounds item (f item)) code).size = code.size := by
  induction l generalizing code with
  | nil => rfl
  | cons x xs ih => simp [List.foldl_cons, ih]

theorem foldl_set_getElem? (l : List Nat) (f : Nat → Instr) (code : Array Instr) (k : Nat) :
    (l.foldl (fun a item => a.setIfInBounds item (f item)) code)[k]? =
      if k ∈ l ∧ k < code.size then some (f k) else code[k]? := by
  induction l generalizing code with
  | nil => simp
  | cons x xs ih =>
    simp only [List.foldl_cons, ih, Array.size_setIfInBounds, List.mem_cons]
    by_cases hk : k < code.size
    · by_cases hx : k ∈ xs
      · simp [hx, hk]
      · by_cases hxk : x = k
        · subst hxk; simp [hx, hk, Array.getElem?_setIfInBounds]
        · have : ¬ (k = x) := fun h => hxk h.symm
          simp [hx, hk, this, hxk, Array.getElem?_setIfInBounds]
    · have hn : code[k]? = none := by simp [Array.getElem?_eq_none (Nat.le_of_not_lt hk)]
      by_cases hxk : x = k
      · subst hxk; simp [hk, hn, Array.getElem?_setIfInBounds]
      · simp [hk, hn, hxk, Array.getElem?_setIfInBounds]

theorem RL_push {c : BI} {ctx : List BI} {cs : CS} {b : Block} (hbr : b.breaks = []) (hco : b.conts = []) :
    RL (c :: ctx) (cs.push b) = RL ctx cs := by
  apply RL_ext rfl
  intro k _
  simp only [CS.push, pend]
  cases hp : pend ctx cs.blocks k with
  | some i => rfl
  | none => cases c <;> simp [resolveHere, hbr, hco]

theorem Inv_push {c : BI} {ctx : List BI} {cs : CS} {b : Block} (hi : Inv ctx cs) (hm : MatchB c b)
    (hbr : b.breaks = []) (hco : b.conts = []) : Inv (c :: ctx) (cs.push b) :=
  ⟨⟨hm, hi.m⟩, fun k hk => by
    simp only [CS.push, pendAll, List.flatMap_cons, hbr, hco, List.append_nil, List.nil_append] at hk
    exact hi.p k hk⟩

/-- changing only the `cont` field of the innermost block (do / for loops set it after the body) -/
theorem RL_modTop_cont {ctx : List BI} {cs : CS} (n : Nat) :
    RL ctx (cs.modTop (fun b => { b with cont := n })) = RL ctx cs := by
  cases hb : cs.blocks with
  | nil => simp [CS.modTop, hb, RL]
  | cons b r =>
    apply RL_ext (by simp [CS.modTop, hb])
    intro k _
    simp only [CS.modTop, hb]
    cases ctx with
    | nil => rfl
    | cons c ctx =>
      simp only [pend]
      cases hp : pend ctx r k with
      | some i => rfl
      | none => cases c <;> rfl

theorem Inv_modTop_cont {ctx : List BI} {cs : CS} (hi : Inv ctx cs) (n : Nat) :
    Inv ctx (cs.modTop (fun b => { b with cont := n })) := by
  cases hb : cs.blocks with
  | nil => simpa [CS.modTop, hb] using hi
  | cons b r =>
    have hm := hi.m
    have hp := hi.p
    rw [hb] at hm hp
    cases ctx with
    | nil => exact absurd hm (by simp [Match])
    | cons c ctx =>
      refine ⟨?_, ?_⟩
      · simp only [CS.modTop, hb, Match]
        refine ⟨?_, hm.2⟩
        obtain ⟨h1, h2⟩ := hm.1
        exact ⟨h1, by cases c <;> exact h2⟩
      · intro k hk
        simp only [CS.modTop, hb, pendAll, List.flatMap_cons] at hk ⊢
        exact hp k (by simpa [pendAll] using hk)

/-- compiler.go:340 leaveBlock: patching the head block's placeholders = dropping the head of `ctx` -/
theorem RL_leaveBlock {c : BI} {ctx : List BI} {cs : CS} {b : Block} {r : List Block}
    (hb : cs.blocks = b :: r) (hm : MatchB c b)
    (hc : match c with
          | .loop _ bp cp => bp = cs.code.size ∧ cp = b.cont
          | .label _ bp => bp = cs.code.size
          | .scope _ => b.breaks = []
          | _ => True) :
    RL ctx cs.leaveBlock = RL (c :: ctx) cs := by
  have hsz : cs.leaveBlock.code.size = cs.code.size := by
    simp only [CS.leaveBlock, hb]
    split <;> simp [foldl_set_size]
  apply RL_ext hsz
  intro k hk
  simp only [hb, pend]
  have hbl : cs.leaveBlock.blocks = r := by simp [CS.leaveBlock, hb]
  rw [hbl]
  cases hp : pend ctx r k with
  | some i => rfl
  | none =>
    simp only [Option.getD_none]
    obtain ⟨_, hm2⟩ := hm
    cases c with
    | loop lab bp cp =>
      obtain ⟨rfl, rfl⟩ := hc
      have ht : b.typ = BT.loop := hm2.1
      simp only [CS.leaveBlock, hb, ht, true_or, if_true, resolveHere, CS.size]
      rw [foldl_set_getElem?, foldl_set_getElem?, foldl_set_size]
      by_cases h1 : k ∈ b.conts
      · simp [h1, hk]
      · by_cases h2 : k ∈ b.breaks
        · simp [h1, h2, hk]
        · simp [h1, h2]
    | label l bp =>
      subst hc
      have ht : b.typ = BT.label := hm2.1
      simp only [CS.leaveBlock, hb, ht, resolveHere, CS.size]
      simp only [reduceCtorEq, or_self, if_false]
      rw [foldl_set_getElem?]
      by_cases h2 : k ∈ b.breaks
      · simp [h2, hk]
      · simp [h2]
    | scope n =>
      have ht : b.typ = BT.scope := hm2.1
      simp only [CS.leaveBlock, hb, ht, resolveHere, hc]
      simp
    | try_ =>
      have ht : b.typ = BT.try_ := hm2.1
      simp only [CS.leaveBlock, hb, ht, resolveHere, hm2.2.2.1]
      simp
    | with_ =>
      have ht : b.typ = BT.with_ := hm2.1
      simp only [CS.leaveBlock, hb, ht, resolveHere, hm2.2.2.1]
      simp

theorem pendAll_tail {b : Block} {r : List Block} {k : Nat} (h : k ∈ pendAll r) : k ∈ pendAll (b :: r) := by
  simp only [pendAll, List.flatMap_cons, List.mem_append]; right; exact h

theorem Inv_leaveBlock {c : BI} {ctx : List BI} {cs : CS} {b : Block} {r : List Block}
    (hb : cs.blocks = b :: r) (hi : Inv (c :: ctx) cs) : Inv ctx cs.leaveBlock := by
  have hbl : cs.leaveBlock.blocks = r := by simp [CS.leaveBlock, hb]
  have hsz : cs.leaveBlock.code.size = cs.code.size := by
    simp only [CS.leaveBlock, hb]
    split <;> simp [foldl_set_size]
  have hm := hi.m
  rw [hb] at hm
  refine ⟨by rw [hbl]; exact hm.2, fun k hk => ?_⟩
  rw [hbl] at hk
  rw [hsz]
  exact hi.p k (by rw [hb]; exact pendAll_tail hk)

end GojaModel.C08
