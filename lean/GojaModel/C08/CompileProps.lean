/-
  C08 — theorems about the mechanism model (compileCF + mini-VM).

  `CompileCFCorrect` is the full compiler-correctness statement.  It is NOT proved here (no stage of
  it, not even `_partial₁`): it is checked differentially on every generated program by the
  driver's `V` op (obligation corr:vm-vs-ref).  What IS proved, for all block stacks / VM states:
  the compile-time half of "exactly once, inner to outer" (exit-code emission) and the run-time
  single-shot behaviour of leaveTry / restoreStacks / handleThrow, plus concrete witnesses that
  today's code (quirks on) deviates from the reference semantics.
-/
import GojaModel.C08.Compile

namespace GojaModel.C08

/-- Full statement of compiler correctness for the modelled fragment (same log, same completion).
`WF` = the syntactic side conditions under which goja accepts the program (every break/continue
has a target; ids unique).  Left unproved; see the header. -/
def CompileCFCorrect (WF : Stmt → Prop) : Prop :=
  ∀ p : Stmt, WF p → ∃ fuel, (runProgramWith {} fuel p).1 = ((match (refSem p).1 with
      | .normal _ => Compl.normal none
      | c => c), (refSem p).2)

/-- what compileReturnStatement emits for one enclosing block -/
def retExit (b : Block) : List Instr :=
  match b.typ with
  | BT.try_ => [Instr.saveResult, Instr.leaveTry, Instr.loadResult]
  | BT.loopEnum => [Instr.enumPopClose]
  | _ => []

/-- what emitBlockExitCode emits for one block strictly between source and target -/
def brkExit (b : Block) : List Instr :=
  match b.typ with
  | BT.scope => [Instr.nop]          -- placeholder later patched with that scope's leaveBlock
  | BT.try_ => [Instr.leaveTry]
  | BT.with_ => [Instr.leaveWith]
  | BT.loopEnum => [Instr.enumPopClose]
  | _ => []

/-- return_exits_each_block_once: for EVERY block stack, `return` emits exactly one
saveResult/leaveTry/loadResult per enclosing try block and exactly one enumPopClose per enclosing
for-in/of loop, from the innermost block to the outermost, and nothing else. -/
theorem return_exits_each_block_once (blocks : List Block) (code : Array Instr) :
    (returnExits blocks code).toList = code.toList ++ blocks.flatMap retExit := by
  induction blocks generalizing code with
  | nil => simp [returnExits]
  | cons b rest ih =>
    simp only [returnExits, List.flatMap_cons]
    rw [ih]
    cases h : b.typ <;> simp [retExit, h]

/-- branch_exits_each_block_once: for EVERY block stack and target height `t` inside it,
break/continue emits exactly one exit instruction per try / with / for-in-of / scope block
strictly between the current block and the target block, innermost first, none for the target. -/
theorem branch_exits_each_block_once (t : Nat) (blocks : List Block) (code : Array Instr)
    (ht : t < blocks.length) :
    (exitWalk t blocks code).2.toList =
      code.toList ++ (blocks.take (blocks.length - 1 - t)).flatMap brkExit := by
  induction blocks generalizing code with
  | nil => simp at ht
  | cons b rest ih =>
    simp only [exitWalk]
    by_cases h : rest.length = t
    · simp [h]
    · simp only [h, if_false]
      have ht' : t < rest.length := by simp at ht; omega
      have hlen : (b :: rest).length - 1 - t = (rest.length - 1 - t) + 1 := by simp; omega
      rw [hlen, List.take_succ_cons, List.flatMap_cons]
      cases hb : b.typ <;> simp [brkExit, hb, ih _ ht', List.append_assoc]

/-- the blocks below the target are never touched by the walk -/
theorem exitWalk_length (t : Nat) (blocks : List Block) (code : Array Instr) :
    (exitWalk t blocks code).1.length = blocks.length := by
  induction blocks generalizing code with
  | nil => simp [exitWalk]
  | cons b rest ih =>
    simp only [exitWalk]
    by_cases h : rest.length = t
    · simp [h]
    · simp only [h, if_false]
      cases hb : b.typ <;> simp [hb, ih]

/-- leaveTry_single_shot: leaveTry on a frame whose finally block has not run yet transfers to it
and disarms the frame (finallyPos = none, catchPos = none, finallyRet = pc+1); on a frame whose
finally block is running or absent it just pops the frame.  Hence two leaveTry in a row can never
run the same finally block twice. -/
theorem leaveTry_single_shot (q : Quirks) (vm : VM) (tf : TryFrame) (rest : List TryFrame)
    (h : vm.tries = tf :: rest) :
    (∀ p, tf.finallyPos = some p →
        (VM.step q vm .leaveTry).pc = p ∧
        (VM.step q vm .leaveTry).tries =
          { tf with finallyRet := some (vm.pc + 1), finallyPos := none, catchPos := none } :: rest) ∧
    (tf.finallyPos = none →
        (VM.step q vm .leaveTry).tries = rest ∧ (VM.step q vm .leaveTry).pc = vm.pc + 1) := by
  constructor
  · intro p hp
    simp [VM.step, h, hp, VM.setSp]
  · intro hp
    simp [VM.step, h, hp, VM.next]

/-- the return() events restoreStacks produces: one per still-open iterator above `len`, top first -/
def closeEvents (len : Nat) : List IterItem → List Ev
  | [] => []
  | it :: rest =>
    if rest.length + 1 ≤ len then []
    else (match it.sp with | some s => [Ev.itRet s.id] | none => []) ++ closeEvents len rest

theorem closeIters_go (len : Nat) (its : List IterItem) (acc : List Ev) :
    (VM.closeIters.go len true its acc).2 = acc ++ closeEvents len its ∧
    (VM.closeIters.go len true its acc).1 = its.drop (its.length - len) := by
  induction its generalizing acc with
  | nil => simp [VM.closeIters.go, closeEvents]
  | cons it rest ih =>
    simp only [VM.closeIters.go, closeEvents]
    by_cases h : rest.length + 1 ≤ len
    · simp only [h, if_true, List.append_nil, true_and]
      have : (it :: rest).length - len = 0 := by simp; omega
      rw [this]; rfl
    · simp only [h, if_false]
      have hd : (it :: rest).length - len = (rest.length - len) + 1 := by simp; omega
      rw [hd, List.drop_succ_cons]
      cases hs : it.sp with
      | none => simpa using ih acc
      | some s =>
        have := ih (acc ++ [Ev.itRet s.id])
        simpa [List.append_assoc] using this

/-- restoreStacks_closes_each_once: restoreStacks(len) calls return() exactly once on every
still-open iterator above `len`, innermost first, appends nothing else to the log, and leaves
exactly the `len` bottom entries of the iterator stack. -/
theorem restoreStacks_closes_each_once (len : Nat) (vm : VM) :
    (VM.closeIters len true vm).log = vm.log ++ closeEvents len vm.iters ∧
    (VM.closeIters len true vm).iters = vm.iters.drop (vm.iters.length - len) := by
  have := closeIters_go len vm.iters []
  simp only [VM.closeIters]
  constructor
  · simp [this.1]
  · simp [this.2]

theorem closeIters_go_nocall (len : Nat) (its : List IterItem) (acc : List Ev) :
    (VM.closeIters.go len false its acc).2 = acc := by
  induction its generalizing acc with
  | nil => simp [VM.closeIters.go]
  | cons it rest ih =>
    simp only [VM.closeIters.go]
    by_cases h : rest.length + 1 ≤ len
    · simp [h]
    · simp only [h, if_false]
      cases hs : it.sp <;> simp [ih]

/-- uncatchable_unwinds_silently (intended mechanism, quirks off): handleThrow with an uncatchable
payload appends NOTHING to the log — no catch, no finally, no return() — for every try stack and
every VM state, and halts the run with the fatal completion. -/
theorem uncatchable_unwinds_silently (tries : List TryFrame) (vm : VM) :
    (VM.handleThrow {} none tries vm).log = vm.log ∧
    (VM.handleThrow {} none tries vm).halted = some Compl.fatal := by
  induction tries generalizing vm with
  | nil =>
    simp only [VM.handleThrow, VM.closeIters]
    constructor
    · simp [closeIters_go_nocall]
    · simp
  | cons tf rest ih =>
    simp only [VM.handleThrow]
    simp [ih]

/-! ### witnesses: today's code (quirks on) deviates from the reference semantics.
These are proofs of a NEGATION on a concrete program, as required for statements the current
code violates (defects reported in design/C08.md, patches under /verif/fixes/). -/

/-- `try { log 1 } catch { log 2 } finally { throw 8 }` -/
def witnessQ1 : Stmt := .tryS 1 (.log 1) true (.log 2) true (.thr 8)

/-- `for (x of it) { <stack overflow> }` -/
def witnessQ2 : Stmt := .forOf ⟨1, 2, none, .ok⟩ .fatal

/-- with enterFinally keeping catchPos armed (vm.go:4794 today) the finally's throw is caught by
the statement's own catch clause and the finally block runs twice -/
theorem vm_keepCatch_witness :
    (runProgramWith { keepCatch := true } 100 witnessQ1).1.2 =
      [.tryE 1, .log 1, .finE 1, .caught 1 8, .log 2, .finE 1] ∧
    (refSem witnessQ1).2 = [.tryE 1, .log 1, .finE 1] := by
  decide

/-- with the marker frame closing iterators for uncatchable payloads (vm.go:818 today) return() is
called after the fatal event -/
theorem vm_closeOnFatal_witness :
    (runProgramWith { cof := true } 100 witnessQ2).1.2 = [.itOpen 1, .itNext 1, .fatal, .itRet 1] ∧
    (refSem witnessQ2).2 = [.itOpen 1, .itNext 1, .fatal] := by
  decide

/-- and with the quirks off the mini-VM agrees with the reference semantics on both witnesses
(test on literals) -/
theorem vm_intended_on_witnesses :
    (runProgramWith {} 100 witnessQ1).1 = (.thr 8, (refSem witnessQ1).2) ∧
    (runProgramWith {} 100 witnessQ2).1 = (.fatal, (refSem witnessQ2).2) := by
  decide

end GojaModel.C08
