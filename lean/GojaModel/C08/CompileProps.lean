/-
  C08 — theorems about the mechanism model (compileCF + mini-VM).

  `CompileCFCorrect` is the full compiler-correctness statement; its stage-1 instance is proved in
  GojaModel.C08.CompileSProps (compileCF_correct_partial₁, for the compositional presentation
  `compileS`).  Here: for all block stacks / VM states, the compile-time half of "exactly once, inner
  to outer" (exit-code emission) and the run-time single-shot behaviour of leaveTry / enterFinally /
  restoreStacks / handleThrow, plus regression lemmas about the mechanism before the repairs.
-/
import GojaModel.C08.Compile

namespace GojaModel.C08

/-- Full statement of compiler correctness for the modelled fragment (same log, same completion).
`WF` = the syntactic side conditions under which goja accepts the program (every break/continue
has a target; ids unique).  Left unproved; see the header. -/
def CompileCFCorrect (WF : Stmt → Prop) : Prop :=
  ∀ p : Stmt, WF p → ∃ fuel, (runProgramWith fuel p).1 = ((match (refSem p).1 with
      | .normal _ => Compl.normal none
      | c => c), (refSem p).2)

/-- what compileReturnStatement emits for one enclosing block -/
def retExit (b : Block) : List Instr :=
  match b.typ with
  | BT.try_ => [Instr.saveResult, Instr.leaveTry, Instr.loadResult]
  | BT.loopEnum => [Instr.enumPopClose]
  | _ => []

/-- what emitBlockExitCode emits for one block strictly between source and target -/
def brkExit (b : Block) : List Instr :=
  match b.typ with
  | BT.scope => [Instr.nop]          -- placeholder later patched with that scope's leaveBlock
  | BT.iterScope => [Instr.nop]
  | BT.try_ => [Instr.leaveTry]
  | BT.with_ => [Instr.leaveWith]
  | BT.loopEnum => [Instr.enumPopClose]
  | _ => []

/-- return_exits_each_block_once: for EVERY block stack, `return` emits exactly one
saveResult/leaveTry/loadResult per enclosing try block and exactly one enumPopClose per enclosing
for-in/of loop, from the innermost block to the outermost, and nothing else. -/
theorem return_exits_each_block_once (blocks : List Block) (code : Array Instr) :
    (returnExits blocks code).toList = code.toList ++ blocks.flatMap retExit := by
  induction blocks generalizing code with
  | nil => simp [returnExits]
  | cons b rest ih =>
    simp only [returnExits, List.flatMap_cons]
    rw [ih]
    cases h : b.typ <;> simp [retExit, h]

/-- branch_exits_each_block_once: for EVERY block stack and target height `t` inside it,
break/continue emits exactly one exit instruction per try / with / for-in-of / scope block
strictly between the current block and the target block, innermost first, none for the target
(`cfl = false`: break, or continue of a for-in/of loop; a `continue` of a plain loop additionally stops
at that loop's own per-iteration scope). -/
theorem branch_exits_each_block_once (t : Nat) (blocks : List Block) (code : Array Instr)
    (ht : t < blocks.length) :
    (exitWalk t false blocks code).2.toList =
      code.toList ++ (blocks.take (blocks.length - 1 - t)).flatMap brkExit := by
  induction blocks generalizing code with
  | nil => simp at ht
  | cons b rest ih =>
    simp only [exitWalk]
    by_cases h : rest.length = t
    · simp [h]
    · simp only [h, if_false]
      have ht' : t < rest.length := by simp at ht; omega
      have hlen : (b :: rest).length - 1 - t = (rest.length - 1 - t) + 1 := by simp; omega
      rw [hlen, List.take_succ_cons, List.flatMap_cons]
      cases hb : b.typ <;> simp [brkExit, hb, ih _ ht', List.append_assoc]

/-- the blocks below the target are never touched by the walk -/
theorem exitWalk_length (t : Nat) (blocks : List Block) (code : Array Instr) :
    (exitWalk t false blocks code).1.length = blocks.length := by
  induction blocks generalizing code with
  | nil => simp [exitWalk]
  | cons b rest ih =>
    simp only [exitWalk]
    by_cases h : rest.length = t
    · simp [h]
    · simp only [h, if_false]
      cases hb : b.typ <;> simp [hb, ih]

/-- leaveTry_single_shot: leaveTry on a frame whose finally block has not run yet transfers to it
and disarms the frame (finallyPos = none, catchPos = none, finallyRet = pc+1); on a frame whose
finally block is running or absent it just pops the frame.  Hence two leaveTry in a row can never
run the same finally block twice. -/
theorem leaveTry_single_shot (vm : VM) (tf : TryFrame) (rest : List TryFrame)
    (h : vm.tries = tf :: rest) :
    (∀ p, tf.finallyPos = some p →
        (VM.step vm .leaveTry).pc = p ∧
        (VM.step vm .leaveTry).tries =
          { tf with finallyRet := some (vm.pc + 1), finallyPos := none, catchPos := none, result := vm.result } :: rest) ∧
    (tf.finallyPos = none →
        (VM.step vm .leaveTry).tries = rest ∧ (VM.step vm .leaveTry).pc = vm.pc + 1) := by
  constructor
  · intro p hp
    simp [VM.step, h, hp, VM.setSp]
  · intro hp
    simp [VM.step, h, hp, VM.next]

/-- the return() events restoreStacks produces: one per still-open iterator above `len`, top first -/
def closeEvents (len : Nat) : List IterItem → List Ev
  | [] => []
  | it :: rest =>
    if rest.length + 1 ≤ len then []
    else (match it.sp with | some s => [Ev.itRet s.id] | none => []) ++ closeEvents len rest

theorem closeIters_go (len : Nat) (its : List IterItem) (acc : List Ev) :
    (VM.closeIters.go len true its acc).2 = acc ++ closeEvents len its ∧
    (VM.closeIters.go len true its acc).1 = its.drop (its.length - len) := by
  induction its generalizing acc with
  | nil => simp [VM.closeIters.go, closeEvents]
  | cons it rest ih =>
    simp only [VM.closeIters.go, closeEvents]
    by_cases h : rest.length + 1 ≤ len
    · simp only [h, if_true, List.append_nil, true_and]
      have : (it :: rest).length - len = 0 := by simp; omega
      rw [this]; rfl
    · simp only [h, if_false]
      have hd : (it :: rest).length - len = (rest.length - len) + 1 := by simp; omega
      rw [hd, List.drop_succ_cons]
      cases hs : it.sp with
      | none => simpa using ih acc
      | some s =>
        have := ih (acc ++ [Ev.itRet s.id])
        simpa [List.append_assoc] using this

/-- restoreStacks_closes_each_once: restoreStacks(len) calls return() exactly once on every
still-open iterator above `len`, innermost first, appends nothing else to the log, and leaves
exactly the `len` bottom entries of the iterator stack. -/
theorem restoreStacks_closes_each_once (len : Nat) (vm : VM) :
    (VM.closeIters len true vm).log = vm.log ++ closeEvents len vm.iters ∧
    (VM.closeIters len true vm).iters = vm.iters.drop (vm.iters.length - len) := by
  have := closeIters_go len vm.iters []
  simp only [VM.closeIters]
  constructor
  · simp [this.1]
  · simp [this.2]

theorem closeIters_go_nocall (len : Nat) (its : List IterItem) (acc : List Ev) :
    (VM.closeIters.go len false its acc).2 = acc := by
  induction its generalizing acc with
  | nil => simp [VM.closeIters.go]
  | cons it rest ih =>
    simp only [VM.closeIters.go]
    by_cases h : rest.length + 1 ≤ len
    · simp [h]
    · simp only [h, if_false]
      cases hs : it.sp <;> simp [ih]

/-- uncatchable_unwinds_silently: handleThrow with an uncatchable
payload appends NOTHING to the log — no catch, no finally, no return() — for every try stack and
every VM state, and halts the run with the fatal completion. -/
theorem uncatchable_unwinds_silently (tries : List TryFrame) (vm : VM) :
    (VM.handleThrow none tries vm).log = vm.log ∧
    (VM.handleThrow none tries vm).halted = some Compl.fatal := by
  induction tries generalizing vm with
  | nil =>
    simp only [VM.handleThrow, VM.closeIters]
    constructor
    · simp [closeIters_go_nocall]
    · simp
  | cons tf rest ih =>
    simp only [VM.handleThrow]
    simp [ih]

/-- enterFinally_disarms_frame: after enterFinally neither the catch clause nor the finally block of
the statement can be entered again by an exception or a leaveTry (vm.go enterFinally, as repaired
by 379f30d). -/
theorem enterFinally_disarms_frame (vm : VM) (tf : TryFrame) (rest : List TryFrame)
    (h : vm.tries = tf :: rest) :
    (VM.step vm .enterFinally).tries = { tf with finallyPos := none, catchPos := none } :: rest := by
  simp [VM.step, h, VM.next]

/-! ### regression lemmas about the mechanism BEFORE the repairs (kept as named witnesses) -/

/-- keepCatch_prefix_witness: had enterFinally reset only `finallyPos` (the code before 379f30d), a
frame whose try block completed normally would still deliver an exception thrown inside its
finally block to its own catch clause at `p`. -/
theorem keepCatch_prefix_witness (p : Nat) (v : Val) :
    let tf : TryFrame := { iterLen := 0, sp := 0, catchPos := some p, finallyPos := some 9 }
    let old : TryFrame := { tf with finallyPos := none }          -- pre-fix enterFinally
    (VM.handleThrow (some v) [old] {}).pc = p ∧ (VM.handleThrow (some v) [old] {}).halted = none := by
  simp [VM.handleThrow, VM.closeIters, VM.closeIters.go, VM.setSp, VM.pushV]

/-- closeOnFatal_prefix_witness: closing the iterator stack WITH calls (what the marker frame did
for uncatchable payloads before 5d979ec) logs a return() event for an open iterator, whereas
handleThrow now logs nothing (uncatchable_unwinds_silently). -/
theorem closeOnFatal_prefix_witness (sp : IterSpec) :
    (VM.closeIters 0 true { iters := [{ sp := some sp }] }).log = [Ev.itRet sp.id] ∧
    (VM.handleThrow none [] { iters := [{ sp := some sp }] }).log = [] := by
  simp [VM.closeIters, VM.closeIters.go, VM.handleThrow]

/-- `try { log 1 } catch { log 2 } finally { throw 8 }` and `for (x of it) { <stack overflow> }`:
the mini-VM agrees with the reference semantics on the original failing inputs (test on literals) -/
def witnessQ1 : Stmt := .tryS 1 (.log 1) true (.log 2) true (.thr 8)
def witnessQ2 : Stmt := .forOf ⟨1, 2, none, .ok, false⟩ .fatal

theorem vm_on_repaired_inputs :
    (runProgramWith 100 witnessQ1).1 = (.thr 8, (refSem witnessQ1).2) ∧
    (runProgramWith 100 witnessQ2).1 = (.fatal, (refSem witnessQ2).2) := by
  decide

end GojaModel.C08
