/-
  C08 — `compileS`: a compositional presentation of the code emission for the STAGE-1 fragment
  (try/catch/finally, while/do/for loops, `for (let …;;)` with its per-iteration scope, two-clause switch,
  break/continue [label], return, throw, uncatchable error, labelled statements, if, block scope, with;
  no for-in/of; no finally block that starts with a top-level break/continue).  It produces the same
  instruction list as the back-patching `compileCF` (theorem compileS_eq_compileCF in CompileSProps; the driver
  still evaluates the equality on every generated stage-1 program, op `A`, field S1), but jump targets are
  computed up front from statement lengths, so that it can be reasoned about by structural induction
  (GojaModel.C08.CompileSSim, theorem compileS_correct).  Core Lean only.
-/
import GojaModel.C08.Compile

namespace GojaModel.C08.S2

/-- static context entry (innermost first): what compiler.go's block stack knows, with the absolute
break / continue targets that back-patching will eventually produce -/
inductive BI
  | loop (lab : Option Label) (brkPc contPc : Nat)
  | label (l : Label) (brkPc : Nat)
  | try_
  | scope (n : Nat)
  | with_
  /-- per-iteration scope of a `for (let …;;)` loop (blockIterScope); always directly above its loop entry -/
  | iscope
  | switch_ (brkPc : Nat)
  /-- for-of loop (blockLoopEnum): break target = the trailing enumPopClose, continue target = the iterNext -/
  | forof (lab : Option Label) (brkPc contPc : Nat)
  deriving DecidableEq, Repr

/-- shape of a context entry (no positions) -/
inductive BS
  | loop (lab : Option Label)
  | label (l : Label)
  | try_
  | scope
  | with_
  | iscope
  | switch_
  | forof (lab : Option Label)
  deriving DecidableEq, Repr

def BI.shape : BI → BS
  | .loop lab _ _ => .loop lab
  | .label l _ => .label l
  | .try_ => .try_
  | .scope _ => .scope
  | .with_ => .with_
  | .iscope => .iscope
  | .switch_ _ => .switch_
  | .forof lab _ _ => .forof lab

def labMatch (l : Option Label) (lab : Option Label) : Bool :=
  match l with
  | none => true
  | some x => lab == some x

/-- the branch targets the loop whose entry is at the head of the context -/
def hitsHead (l : Option Label) : List BI → Bool
  | .loop lab _ _ :: _ => labMatch l lab
  | _ => false

def hitsHeadS (l : Option Label) : List BS → Bool
  | .loop lab :: _ => labMatch l lab
  | _ => false

/-- findBreakBlock + emitBlockExitCode (compiler_stmt.go:572/618) without `breaking`: the exit
instructions from the innermost block up to (excluding) the target block, and the target pc -/
def findBrk (l : Option Label) (isBreak : Bool) : List BI → Option (List Instr × Nat)
  | [] => none
  | .loop lab bp cp :: rest =>
    if labMatch l lab then some ([], if isBreak then bp else cp) else findBrk l isBreak rest
  | .label x bp :: rest =>
    -- findBreakBlock stops at the FIRST block carrying the label; `continue` to a non-loop is then an error
    if l == some x then (if isBreak then some ([], bp) else none) else findBrk l isBreak rest
  | .try_ :: rest =>
    match findBrk l isBreak rest with
    | some (ex, t) => some (Instr.leaveTry :: ex, t)
    | none => none
  | .scope n :: rest =>
    match findBrk l isBreak rest with
    | some (ex, t) => some (Instr.leaveBlock n :: ex, t)
    | none => none
  | .with_ :: rest =>
    match findBrk l isBreak rest with
    | some (ex, t) => some (Instr.leaveWith :: ex, t)
    | none => none
  | .forof lab bp cp :: rest =>
    -- leaving a for-of loop pops and closes its iterator (emitBlockExitCode: blockLoopEnum → enumPopClose)
    if labMatch l lab then some ([], if isBreak then bp else cp)
    else match findBrk l isBreak rest with
      | some (ex, t) => some (Instr.enumPopClose :: ex, t)
      | none => none
  | .switch_ bp :: rest =>
    -- an unlabelled `break` targets the innermost loop OR switch; `continue` and labelled branches pass through
    if isBreak && l.isNone then some ([], bp) else findBrk l isBreak rest
  | .iscope :: rest =>
    -- emitBlockExitCode:618: `continue` of the loop that owns this per-iteration scope does not leave it
    match findBrk l isBreak rest with
    | some (ex, t) => if !isBreak && hitsHead l rest then some (ex, t) else some (Instr.leaveBlock 1 :: ex, t)
    | none => none

/-- number of exit instructions, on shapes -/
def exitLen (l : Option Label) (isBreak : Bool) : List BS → Option Nat
  | [] => none
  | .loop lab :: rest => if labMatch l lab then some 0 else exitLen l isBreak rest
  | .label x :: rest => if l == some x then (if isBreak then some 0 else none) else exitLen l isBreak rest
  | .try_ :: rest => (exitLen l isBreak rest).map (· + 1)
  | .scope :: rest => (exitLen l isBreak rest).map (· + 1)
  | .with_ :: rest => (exitLen l isBreak rest).map (· + 1)
  | .iscope :: rest => (exitLen l isBreak rest).map (fun k => if !isBreak && hitsHeadS l rest then k else k + 1)
  | .switch_ :: rest => if isBreak && l.isNone then some 0 else exitLen l isBreak rest
  | .forof lab :: rest => if labMatch l lab then some 0 else (exitLen l isBreak rest).map (· + 1)

/-- compileReturnStatement's exit code (compiler_stmt.go:739), stage 1 (no for-in/of) -/
def retExitsS : List BI → List Instr
  | [] => []
  | .try_ :: rest => [Instr.saveResult, Instr.leaveTry, Instr.loadResult] ++ retExitsS rest
  | .forof _ _ _ :: rest => Instr.enumPopClose :: retExitsS rest
  | _ :: rest => retExitsS rest

def retLen : List BS → Nat
  | [] => 0
  | .try_ :: rest => 3 + retLen rest
  | .forof _ :: rest => 1 + retLen rest
  | _ :: rest => retLen rest

def isLoop : Stmt → Bool
  | .loop _ _ _ _ => true
  | .forOf _ _ => true
  | _ => false

def isLbl : Stmt → Bool
  | .lbl _ _ => true
  | _ => false

/-- length of the code of a statement; depends on the context only through its shape.
`lab` = label attached directly to a loop (as in `gen`). -/
def glen : Stmt → Option Label → List BS → Nat
  | .skip, _, _ => 0
  | .log _, _, _ => 1
  | .seq a b, _, sh => glen a none sh + glen b none sh
  | .brk l, _, sh => match exitLen l true sh with | some k => k + 1 | none => 1
  | .cont l, _, sh => match exitLen l false sh with | some k => k + 1 | none => 1
  | .ret _, _, sh => 1 + retLen sh + 1
  | .thr _, _, _ => 2
  | .fatal, _, _ => 1
  | .tryS _ b hasC c hasF f, _, sh =>
    1 + (if hasF then 1 else 0) + glen b none (.try_ :: sh)
      + (if hasC then 3 + glen c none (.scope :: .try_ :: sh) + 1 else 0)
      + (if hasF then 2 + glen f none (.try_ :: sh) + 1 else 1)
  | .loop .while_ _ _ body, lab, sh => 4 + glen body none (.loop lab :: sh) + 1
  | .loop .do_ _ _ body, lab, sh => 1 + glen body none (.loop lab :: sh) + 3
  | .loop .for_ _ _ body, lab, sh => 3 + glen body none (.loop lab :: sh) + 2
  | .loop .forin _ _ _, _, _ => 0
  | .loop .forlet _ _ body, lab, sh => 5 + glen body none (.iscope :: .loop lab :: sh) + 4
  | .forOf _ body, lab, sh => 3 + glen body none (.forof lab :: sh) + 4
  | .lbl l s, _, sh => if isLoop s then glen s (some l) sh else glen s none (.label l :: sh)
  | .sw _ _ a b, _, sh => 15 + glen a none (.switch_ :: sh) + glen b none (.switch_ :: sh)
  | .withS s, _, sh => 2 + glen s none (.with_ :: sh) + 1
  | .blk s, _, sh => 1 + glen s none (.scope :: sh) + 1
  | .ifIter _ s, _, sh => 2 + glen s none sh

/-- the code of a statement laid out at absolute position `pc` in context `ctx`.
`cur` = counter id of the innermost enclosing loop, `lab` = label attached directly to a loop. -/
def gen : Stmt → Nat → Option Label → List BI → Nat → List Instr
  | .skip, _, _, _, _ => []
  | .log k, _, _, _, _ => [.emit (.log k)]
  | .seq a b, cur, _, ctx, pc =>
    gen a cur none ctx pc ++ gen b cur none ctx (pc + glen a none (ctx.map BI.shape))
  | .brk l, _, _, ctx, pc =>
    (match findBrk l true ctx with
     | some (ex, t) => ex ++ [.jump (CS.rel t (pc + ex.length))]
     | none => [.nop])
  | .cont l, _, _, ctx, pc =>
    (match findBrk l false ctx with
     | some (ex, t) => ex ++ [.jump (CS.rel t (pc + ex.length))]
     | none => [.nop])
  | .ret v, _, _, ctx, _ => [.loadVal v] ++ retExitsS ctx ++ [.ret]
  | .thr v, _, _, _, _ => [.loadVal v, .throw]
  | .fatal, _, _, _, _ => [.fatal]
  | .tryS i b hasC c hasF f, cur, _, ctx, pc =>
    let sh := ctx.map BI.shape
    let pre := 1 + (if hasF then 1 else 0)
    let lb := glen b none (.try_ :: sh)
    let lc := glen c none (.scope :: .try_ :: sh)
    let catchLen := if hasC then 3 + lc + 1 else 0
    let co := if hasC then pre + lb + 1 else 0
    let fo := if hasF then pre + lb + catchLen + 1 else 0
    [.try_ co fo] ++ (if hasF then [.emit (.tryE i)] else [])
      ++ gen b cur none (.try_ :: ctx) (pc + pre)
      ++ (if hasC then
            [.jump (Int.ofNat (3 + lc + 1)), .enterBlock 0, .catchLog i]
              ++ gen c cur none (.scope 1 :: .try_ :: ctx) (pc + pre + lb + 3) ++ [.leaveBlock 1]
          else [])
      ++ (if hasF then
            [.enterFinally, .emit (.finE i)]
              ++ gen f cur none (.try_ :: ctx) (pc + pre + lb + catchLen + 2) ++ [.leaveFinally]
          else [.leaveTry])
  | .loop .while_ id n body, _, lab, ctx, pc =>
    let lb := glen body none (.loop lab :: ctx.map BI.shape)
    let start := pc + 1
    let e := start + 3 + lb + 1
    [.cntReset id, .cntInc id, .cntLt id n, .jneP (CS.rel e (start + 2))]
      ++ gen body id none (.loop lab e start :: ctx) (start + 3)
      ++ [.jump (CS.rel start (start + 3 + lb))]
  | .loop .do_ id n body, _, lab, ctx, pc =>
    let lb := glen body none (.loop lab :: ctx.map BI.shape)
    let start := pc + 1
    let contPc := start + lb
    let e := contPc + 3
    [.cntZero id] ++ gen body id none (.loop lab e contPc :: ctx) start
      ++ [.cntInc id, .cntLt id n, .jeqP (CS.rel start (contPc + 2))]
  | .loop .for_ id n body, _, lab, ctx, pc =>
    let lb := glen body none (.loop lab :: ctx.map BI.shape)
    let start := pc + 1
    let contPc := start + 2 + lb
    let e := contPc + 2
    [.cntZero id, .cntLt id n, .jneP (CS.rel e (start + 1))]
      ++ gen body id none (.loop lab e contPc :: ctx) (start + 2)
      ++ [.cntInc id, .jump (CS.rel start (contPc + 1))]
  | .loop .forin _ _ _, _, _, _, _ => []
  | .loop .forlet id n body, _, lab, ctx, pc =>
    -- enterBlock 1; c = 0; copyStash; [start] c < n; jneP L; body; [cont] copyStash; c++; jump start; [L] leaveBlock 1; [e]
    let lb := glen body none (.iscope :: .loop lab :: ctx.map BI.shape)
    let start := pc + 3
    let contPc := start + 2 + lb
    let L := contPc + 3
    [.enterBlock 1, .cntZero id, .copyStash, .cntLt id n, .jneP (CS.rel L (start + 1))]
      ++ gen body id none (.iscope :: .loop lab (L + 1) contPc :: ctx) (start + 2)
      ++ [.copyStash, .cntInc id, .jump (CS.rel start (contPc + 2)), .leaveBlock 1]
  | .forOf sp body, _, lab, ctx, pc =>
    -- iterateP; [start] iterNext →L1; enumGet; body; jump start; [L1] enumPop; jump 2; [bp] enumPopClose; [e]
    let lb := glen body none (.forof lab :: ctx.map BI.shape)
    let start := pc + 1
    let L1 := start + 2 + lb + 1
    [.iterateP sp, .iterNext (CS.rel L1 start), .enumGet sp.id]
      ++ gen body sp.id none (.forof lab (L1 + 2) start :: ctx) (start + 2)
      ++ [.jump (CS.rel start (start + 2 + lb)), .enumPop, .jump 2, .enumPopClose]
  | .lbl l s, cur, _, ctx, pc =>
    if isLoop s then gen s cur (some l) ctx pc
    else gen s cur none (.label l (pc + glen s none (.label l :: ctx.map BI.shape)) :: ctx) pc
  | .sw u k a b, cur, _, ctx, pc =>
    -- compiler_stmt.go:1013: selector; per clause `dup; <test>; strictEq; jneP 3; pop; jump body`; `pop; jump end`; bodies
    let la := glen a none (.switch_ :: ctx.map BI.shape)
    let lb := glen b none (.switch_ :: ctx.map BI.shape)
    let e := pc + 15 + la + lb
    [.loadSel u k cur,
     .dup, .loadVal 0, .strictEq, .jneP 3, .pop, .jump (CS.rel (pc + 15) (pc + 6)),
     .dup, .loadVal 1, .strictEq, .jneP 3, .pop, .jump (CS.rel (pc + 15 + la) (pc + 12)),
     .pop, .jump (CS.rel e (pc + 14))]
      ++ gen a cur none (.switch_ e :: ctx) (pc + 15)
      ++ gen b cur none (.switch_ e :: ctx) (pc + 15 + la)
  | .withS s, cur, _, ctx, pc =>
    [.loadVal 0, .enterWith] ++ gen s cur none (.with_ :: ctx) (pc + 2) ++ [.leaveWith]
  | .blk s, cur, _, ctx, pc =>
    [.enterBlock 1] ++ gen s cur none (.scope 1 :: ctx) (pc + 1) ++ [.leaveBlock 1]
  | .ifIter m s, cur, _, ctx, pc =>
    [.cntEq cur m, .jneP (CS.rel (pc + 2 + glen s none (ctx.map BI.shape)) (pc + 1))]
      ++ gen s cur none ctx (pc + 2)

/-- whole function body, as compileProgram -/
def compileS (p : Stmt) : List Instr :=
  [.cntZero 0] ++ gen p 0 none [] 1 ++ (if endsWithReturn p then [] else [.loadVal 0, .ret])

/-- loop counter ids used by a statement -/
def ids : Stmt → List Nat
  | .seq a b => ids a ++ ids b
  | .tryS _ b _ c _ f => ids b ++ ids c ++ ids f
  | .loop _ id _ body => id :: ids body
  | .forOf sp body => sp.id :: ids body
  | .lbl _ s => ids s
  | .sw _ _ a b => ids a ++ ids b
  | .withS s => ids s
  | .blk s => ids s
  | .ifIter _ s => ids s
  | _ => []

/-- no `return` statement inside -/
def retFree : Stmt → Bool
  | .ret _ => false
  | .seq a b => retFree a && retFree b
  | .tryS _ b _ c _ f => retFree b && retFree c && retFree f
  | .loop _ _ _ body => retFree body
  | .forOf _ body => retFree body
  | .lbl _ s => retFree s
  | .sw _ _ a b => retFree a && retFree b
  | .withS s => retFree s
  | .blk s => retFree s
  | .ifIter _ s => retFree s
  | _ => true

/-- the stage-1 fragment (see the header), with the side conditions under which goja accepts and
the mechanism is correct: loop counters of nested loops are distinct, a label is attached to a loop
or to a non-labelled statement, every try has a catch or a finally, a finally block has no
top-level break/continue (no `breaking` block). -/
def stage1 : Stmt → Bool
  | .skip | .log _ | .brk _ | .cont _ | .ret _ | .thr _ | .fatal => true
  | .seq a b => stage1 a && stage1 b
  | .tryS _ b hasC c hasF f =>
    (hasC || hasF) && stage1 b && (if hasC then stage1 c else c == .skip)
      && (if hasF then stage1 f && (firstBranch (flatten f)).isNone else f == .skip)
  | .loop k id _ body => k != .forin && stage1 body && !(ids body).contains id
  | .forOf sp body => !sp.lex && stage1 body && !(ids body).contains sp.id
  | .lbl _ s => stage1 s && (isLoop s || !isLbl s)
  | .sw _ _ a b => stage1 a && stage1 b
  | .withS s => stage1 s
  | .blk s => stage1 s
  | .ifIter _ s => stage1 s

/-- every break / continue of the statement has a target in the (shape of the) static context: the source-level
condition under which goja's compiler does not report "Could not find block" -/
def targetsOK : Stmt → Option Label → List BS → Bool
  | .brk l, _, sh => (exitLen l true sh).isSome
  | .cont l, _, sh => (exitLen l false sh).isSome
  | .seq a b, _, sh => targetsOK a none sh && targetsOK b none sh
  | .tryS _ b hasC c hasF f, _, sh =>
    targetsOK b none (.try_ :: sh) && (!hasC || targetsOK c none (.scope :: .try_ :: sh)) && (!hasF || targetsOK f none (.try_ :: sh))
  | .loop .forlet _ _ body, lab, sh => targetsOK body none (.iscope :: .loop lab :: sh)
  | .loop .forin _ _ _, _, _ => true
  | .loop _ _ _ body, lab, sh => targetsOK body none (.loop lab :: sh)
  | .forOf _ body, lab, sh => targetsOK body none (.forof lab :: sh)
  | .lbl l s, _, sh => if isLoop s then targetsOK s (some l) sh else targetsOK s none (.label l :: sh)
  | .sw _ _ a b, _, sh => targetsOK a none (.switch_ :: sh) && targetsOK b none (.switch_ :: sh)
  | .withS s, _, sh => targetsOK s none (.with_ :: sh)
  | .blk s, _, sh => targetsOK s none (.scope :: sh)
  | .ifIter _ s, _, sh => targetsOK s none sh
  | _, _, _ => true

/-- executable check that the compositional emission and the back-patching mirror of compiler_stmt.go
produce the same instruction list for `p` (the driver evaluates it for every generated stage-1 program) -/
def sameCode (p : Stmt) : Bool := (compileS p).toArray == compileProgram p

end GojaModel.C08.S2
