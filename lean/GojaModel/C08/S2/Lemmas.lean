/-
  C08 — correctness of the stage-1 code emission `compileS` w.r.t. the reference semantics:
  a forward simulation, by structural induction on the statement, between `exec` and the mini-VM
  running the laid-out code.  Abrupt completions are described by "exit points": the VM has reached
  the first instruction of the exit sequence that the compiler emitted for that completion in the
  current static context (break/continue: emitBlockExitCode + jump; return: the saveResult/leaveTry/
  loadResult chain + ret; throw: the state handed to handleThrow).
-/
import GojaModel.C08.S2.CompileS
import GojaModel.C08.CompileProps

namespace GojaModel.C08.S2
open Compl

abbrev Code := Array Instr

/-- the VM reaches τ from σ by executing instructions of C -/
inductive Reach (C : Code) : VM → VM → Prop
  | refl (σ : VM) : Reach C σ σ
  | step {σ τ : VM} {i : Instr} : σ.halted = none → C[σ.pc]? = some i → Reach C (VM.step σ i) τ → Reach C σ τ

theorem Reach.trans {C : Code} {a b c : VM} (h1 : Reach C a b) (h2 : Reach C b c) : Reach C a c := by
  induction h1 with
  | refl => exact h2
  | step hh hi _ ih => exact Reach.step hh hi (ih h2)

theorem Reach.one {C : Code} {σ : VM} {i : Instr} (hh : σ.halted = none) (hi : C[σ.pc]? = some i) :
    Reach C σ (VM.step σ i) := Reach.step hh hi (Reach.refl _)

/-- a halted state reached by `Reach` is what `VM.run` computes with enough fuel -/
theorem reach_run {C : Code} {σ τ : VM} (h : Reach C σ τ) (ht : τ.halted.isSome) :
    ∃ fuel, VM.run C fuel σ = τ := by
  induction h with
  | refl σ =>
    refine ⟨1, ?_⟩
    cases hh : σ.halted with
    | none => simp [hh] at ht
    | some c => simp [VM.run, hh]
  | @step σ τ i hh hi _ ih =>
    obtain ⟨fuel, hf⟩ := ih ht
    refine ⟨fuel + 1, ?_⟩
    have hlt : σ.pc < C.size := by
      rcases Nat.lt_or_ge σ.pc C.size with h | h
      · exact h
      · simp [Array.getElem?_eq_none h] at hi
    have hget : C[σ.pc] = i := by
      have := Array.getElem?_eq_getElem hlt
      rw [this] at hi
      exact Option.some.inj hi
    simp [VM.run, hh, hlt, hget, hf]

/-- the instruction list `is` sits at position `pc` of C -/
def CodeAt (C : Code) (pc : Nat) (is : List Instr) : Prop :=
  ∀ k (h : k < is.length), C[pc + k]? = some is[k]

theorem CodeAt.nil (C : Code) (pc : Nat) : CodeAt C pc [] := by
  intro k h; simp at h

theorem codeAt_cons {C : Code} {pc : Nat} {i : Instr} {is : List Instr} :
    CodeAt C pc (i :: is) ↔ C[pc]? = some i ∧ CodeAt C (pc + 1) is := by
  constructor
  · intro h
    refine ⟨?_, ?_⟩
    · have := h 0 (by simp)
      simpa only [Nat.add_zero, List.getElem_cons_zero] using this
    intro k hk
    have := h (k + 1) (by simp; omega)
    simpa [Nat.add_assoc, Nat.add_comm 1 k] using this
  · intro ⟨h0, h1⟩ k hk
    cases k with
    | zero => simpa using h0
    | succ k =>
      have := h1 k (by simpa using hk)
      simpa [Nat.add_assoc, Nat.add_comm 1 k] using this

theorem codeAt_append {C : Code} {pc : Nat} {a b : List Instr} :
    CodeAt C pc (a ++ b) ↔ CodeAt C pc a ∧ CodeAt C (pc + a.length) b := by
  induction a generalizing pc with
  | nil => simp [CodeAt.nil]
  | cons i is ih =>
    simp only [List.cons_append, codeAt_cons, ih, List.length_cons]
    have : pc + 1 + is.length = pc + (is.length + 1) := by omega
    rw [this]
    constructor
    · intro ⟨h0, h1, h2⟩; exact ⟨⟨h0, h1⟩, h2⟩
    · intro ⟨⟨h0, h1⟩, h2⟩; exact ⟨h0, h1, h2⟩

/-! ### lengths -/

theorem hitsHead_shape (l : Option Label) (rest : List BI) : hitsHeadS l (rest.map BI.shape) = hitsHead l rest := by
  cases rest with
  | nil => rfl
  | cons y ys => cases y <;> rfl

theorem findBrk_exitLen (l : Option Label) (b : Bool) (ctx : List BI) :
    exitLen l b (ctx.map BI.shape) = (findBrk l b ctx).map (fun p => p.1.length) := by
  induction ctx with
  | nil => rfl
  | cons x rest ih =>
    cases x with
    | loop lab bp cp =>
      simp only [List.map_cons, BI.shape, exitLen, findBrk]
      by_cases h : labMatch l lab = true
      · simp [h]
      · simp [h, ih]
    | label y bp =>
      simp only [List.map_cons, BI.shape, exitLen, findBrk]
      by_cases h : l = some y
      · cases b <;> simp [h]
      · simp [h, ih]
    | try_ =>
      simp only [List.map_cons, BI.shape, exitLen, findBrk, ih]
      cases findBrk l b rest with
      | none => rfl
      | some p => simp
    | scope n =>
      simp only [List.map_cons, BI.shape, exitLen, findBrk, ih]
      cases findBrk l b rest with
      | none => rfl
      | some p => simp
    | with_ =>
      simp only [List.map_cons, BI.shape, exitLen, findBrk, ih]
      cases findBrk l b rest with
      | none => rfl
      | some p => simp
    | switch_ bp =>
      simp only [List.map_cons, BI.shape, exitLen, findBrk]
      by_cases h : (b && l.isNone) = true
      · simp [h]
      · simp [h, ih]
    | forof lab bp cp =>
      simp only [List.map_cons, BI.shape, exitLen, findBrk]
      by_cases h : labMatch l lab = true
      · simp [h]
      · simp only [h, Bool.false_eq_true, if_false, ih]
        cases findBrk l b rest with
        | none => rfl
        | some p => simp
    | iscope =>
      have hh : hitsHeadS l (rest.map BI.shape) = hitsHead l rest := by
        cases rest with
        | nil => rfl
        | cons y ys => cases y <;> rfl
      simp only [List.map_cons, BI.shape, exitLen, findBrk, ih, hh]
      cases findBrk l b rest with
      | none => rfl
      | some p =>
        by_cases hc : (!b && hitsHead l rest) = true
        · simp [hc]
        · simp [hc]

theorem retExitsS_length (ctx : List BI) : (retExitsS ctx).length = retLen (ctx.map BI.shape) := by
  induction ctx with
  | nil => rfl
  | cons x rest ih =>
    cases x <;> simp [retExitsS, retLen, BI.shape, ih] <;> omega

theorem gen_length (s : Stmt) : ∀ (cur : Nat) (lab : Option Label) (ctx : List BI) (pc : Nat),
    (gen s cur lab ctx pc).length = glen s lab (ctx.map BI.shape) := by
  induction s with
  | skip => intros; rfl
  | log k => intros; rfl
  | seq a b iha ihb => intro cur lab ctx pc; simp [gen, glen, iha, ihb]
  | brk l =>
    intro cur lab ctx pc
    simp only [gen, glen, findBrk_exitLen]
    cases findBrk l true ctx with
    | none => rfl
    | some p => simp
  | cont l =>
    intro cur lab ctx pc
    simp only [gen, glen, findBrk_exitLen]
    cases findBrk l false ctx with
    | none => rfl
    | some p => simp
  | ret v => intro cur lab ctx pc; simp [gen, glen, retExitsS_length]; omega
  | thr v => intros; rfl
  | fatal => intros; rfl
  | tryS i b hasC c hasF f ihb ihc ihf =>
    intro cur lab ctx pc
    cases hasC <;> cases hasF <;> simp [gen, glen, ihb, ihc, ihf, BI.shape] <;> omega
  | loop k id n body ih =>
    intro cur lab ctx pc
    cases k <;> simp [gen, glen, ih, BI.shape] <;> omega
  | forOf sp body ih => intro cur lab ctx pc; simp [gen, glen, ih, BI.shape]; omega
  | lbl l s ih =>
    intro cur lab ctx pc
    simp only [gen, glen]
    by_cases h : isLoop s = true
    · simp [h, ih]
    · simp [h, ih, BI.shape]
  | sw u k a b iha ihb => intro cur lab ctx pc; simp [gen, glen, iha, ihb, BI.shape]; omega
  | withS s ih => intro cur lab ctx pc; simp [gen, glen, ih, BI.shape]; omega
  | blk s ih => intro cur lab ctx pc; simp [gen, glen, ih, BI.shape]; omega
  | ifIter m s ih => intro cur lab ctx pc; simp [gen, glen, ih]; omega

/-! ### no unresolved placeholder when every branch has a target -/

theorem findBrk_no_nop (l : Option Label) (b : Bool) : ∀ (ctx : List BI) (ex : List Instr) (t : Nat),
    findBrk l b ctx = some (ex, t) → Instr.nop ∉ ex := by
  intro ctx
  induction ctx with
  | nil => intro ex t h; simp [findBrk] at h
  | cons c rest ih =>
    intro ex t h
    cases c with
    | loop lab bp cp =>
      simp only [findBrk] at h
      by_cases hm : labMatch l lab = true
      · simp [hm] at h; obtain ⟨h1, _⟩ := h; subst h1; simp
      · simp [hm] at h; exact ih ex t h
    | label y bp =>
      simp only [findBrk] at h
      by_cases hy : l = some y
      · cases b <;> simp [hy] at h; obtain ⟨h1, _⟩ := h; subst h1; simp
      · simp [hy] at h; exact ih ex t h
    | try_ =>
      simp only [findBrk] at h
      cases hr : findBrk l b rest with
      | none => simp [hr] at h
      | some p => obtain ⟨e', t'⟩ := p; simp [hr] at h; rw [← h.1]; simp [ih e' t' hr]
    | scope n =>
      simp only [findBrk] at h
      cases hr : findBrk l b rest with
      | none => simp [hr] at h
      | some p => obtain ⟨e', t'⟩ := p; simp [hr] at h; rw [← h.1]; simp [ih e' t' hr]
    | with_ =>
      simp only [findBrk] at h
      cases hr : findBrk l b rest with
      | none => simp [hr] at h
      | some p => obtain ⟨e', t'⟩ := p; simp [hr] at h; rw [← h.1]; simp [ih e' t' hr]
    | iscope =>
      simp only [findBrk] at h
      cases hr : findBrk l b rest with
      | none => simp [hr] at h
      | some p =>
        obtain ⟨e', t'⟩ := p
        simp only [hr] at h
        by_cases hc : (!b && hitsHead l rest) = true
        · simp [hc] at h; rw [← h.1]; exact ih e' t' hr
        · simp [hc] at h; rw [← h.1]; simp [ih e' t' hr]
    | switch_ bp =>
      simp only [findBrk] at h
      by_cases hc : (b && l.isNone) = true
      · simp [hc] at h; obtain ⟨h1, _⟩ := h; subst h1; simp
      · simp [hc] at h; exact ih ex t h
    | forof lab bp cp =>
      simp only [findBrk] at h
      by_cases hm : labMatch l lab = true
      · simp [hm] at h; obtain ⟨h1, _⟩ := h; subst h1; simp
      · simp only [hm, Bool.false_eq_true, if_false] at h
        cases hr : findBrk l b rest with
        | none => simp [hr] at h
        | some p => obtain ⟨e', t'⟩ := p; simp [hr] at h; rw [← h.1]; simp [ih e' t' hr]

theorem retExitsS_no_nop : ∀ ctx : List BI, Instr.nop ∉ retExitsS ctx := by
  intro ctx
  induction ctx with
  | nil => simp [retExitsS]
  | cons c rest ih => cases c <;> simp [retExitsS, ih]

theorem gen_no_nop (s : Stmt) : ∀ (cur : Nat) (lab : Option Label) (ctx : List BI) (pc : Nat),
    targetsOK s lab (ctx.map BI.shape) = true → Instr.nop ∉ gen s cur lab ctx pc := by
  induction s with
  | skip => intros; simp [gen]
  | log k => intros; simp [gen]
  | seq a b iha ihb =>
    intro cur lab ctx pc h
    simp only [targetsOK, Bool.and_eq_true] at h
    simp only [gen, List.mem_append, not_or]
    exact ⟨iha _ _ _ _ h.1, ihb _ _ _ _ h.2⟩
  | brk l =>
    intro cur lab ctx pc h
    simp only [targetsOK, findBrk_exitLen] at h
    simp only [gen]
    cases hf : findBrk l true ctx with
    | none => simp [hf] at h
    | some p => obtain ⟨ex, t⟩ := p; simp [findBrk_no_nop l true ctx ex t hf]
  | cont l =>
    intro cur lab ctx pc h
    simp only [targetsOK, findBrk_exitLen] at h
    simp only [gen]
    cases hf : findBrk l false ctx with
    | none => simp [hf] at h
    | some p => obtain ⟨ex, t⟩ := p; simp [findBrk_no_nop l false ctx ex t hf]
  | ret v => intros; simp [gen, retExitsS_no_nop]
  | thr v => intros; simp [gen]
  | fatal => intros; simp [gen]
  | tryS i b hasC c hasF f ihb ihc ihf =>
    intro cur lab ctx pc h
    simp only [targetsOK, Bool.and_eq_true, Bool.or_eq_true, Bool.not_eq_true'] at h
    obtain ⟨⟨hb, hc⟩, hf⟩ := h
    have B := ihb cur none (BI.try_ :: ctx) (pc + (1 + if hasF = true then 1 else 0)) (by simpa [BI.shape] using hb)
    cases hasC <;> cases hasF <;> simp only [gen, if_true, Bool.false_eq_true, if_false] at B ⊢
    · simp [B]
    · have F := ihf cur none (BI.try_ :: ctx) (pc + (1 + 1) + glen b none (BS.try_ :: ctx.map BI.shape) + 0 + 2)
        (by simpa [BI.shape] using hf)
      simp [B, F]
    · have Cc := ihc cur none (BI.scope 1 :: BI.try_ :: ctx) (pc + (1 + 0) + glen b none (BS.try_ :: ctx.map BI.shape) + 3)
        (by simpa [BI.shape] using hc)
      simp [B, Cc]
    · have Cc := ihc cur none (BI.scope 1 :: BI.try_ :: ctx) (pc + (1 + 1) + glen b none (BS.try_ :: ctx.map BI.shape) + 3)
        (by simpa [BI.shape] using hc)
      have F := ihf cur none (BI.try_ :: ctx)
        (pc + (1 + 1) + glen b none (BS.try_ :: ctx.map BI.shape) + (3 + glen c none (BS.scope :: BS.try_ :: ctx.map BI.shape) + 1) + 2)
        (by simpa [BI.shape] using hf)
      simp [B, Cc, F]
  | loop k id n body ih =>
    intro cur lab ctx pc h
    cases k with
    | forin => simp [gen]
    | forlet =>
      simp only [targetsOK] at h
      have B := ih id none (BI.iscope :: BI.loop lab
        (pc + 3 + 2 + glen body none (BS.iscope :: BS.loop lab :: ctx.map BI.shape) + 3 + 1)
        (pc + 3 + 2 + glen body none (BS.iscope :: BS.loop lab :: ctx.map BI.shape)) :: ctx) (pc + 3 + 2)
        (by simpa [BI.shape] using h)
      simp [gen, B]
    | while_ =>
      simp only [targetsOK] at h
      have B := fun e c p => ih id none (BI.loop lab e c :: ctx) p (by simpa [BI.shape] using h)
      simp [gen, B]
    | do_ =>
      simp only [targetsOK] at h
      have B := fun e c p => ih id none (BI.loop lab e c :: ctx) p (by simpa [BI.shape] using h)
      simp [gen, B]
    | for_ =>
      simp only [targetsOK] at h
      have B := fun e c p => ih id none (BI.loop lab e c :: ctx) p (by simpa [BI.shape] using h)
      simp [gen, B]
  | forOf sp body ih =>
    intro cur lab ctx pc h
    simp only [targetsOK] at h
    have B := fun e c p => ih sp.id none (BI.forof lab e c :: ctx) p (by simpa [BI.shape] using h)
    simp [gen, B]
  | lbl l s ih =>
    intro cur lab ctx pc h
    simp only [targetsOK] at h
    simp only [gen]
    by_cases hl : isLoop s = true
    · simp only [hl, if_true] at h ⊢; exact ih _ _ _ _ h
    · simp only [hl, if_false] at h ⊢
      exact ih _ _ _ _ (by simpa [BI.shape] using h)
  | sw u k a b iha ihb =>
    intro cur lab ctx pc h
    simp only [targetsOK, Bool.and_eq_true] at h
    have A := fun e p => iha cur none (BI.switch_ e :: ctx) p (by simpa [BI.shape] using h.1)
    have B := fun e p => ihb cur none (BI.switch_ e :: ctx) p (by simpa [BI.shape] using h.2)
    simp [gen, A, B]
  | withS s ih =>
    intro cur lab ctx pc h
    simp only [targetsOK] at h
    have A := fun p => ih cur none (BI.with_ :: ctx) p (by simpa [BI.shape] using h)
    simp [gen, A]
  | blk s ih =>
    intro cur lab ctx pc h
    simp only [targetsOK] at h
    have A := fun p => ih cur none (BI.scope 1 :: ctx) p (by simpa [BI.shape] using h)
    simp [gen, A]
  | ifIter m s ih =>
    intro cur lab ctx pc h
    simp only [targetsOK] at h
    simp [gen, ih _ _ _ _ h]

/-! ### posts -/

/-- what every execution segment preserves; `I` = counter ids that may change, `rf` = whether the
parked return value `result` is guaranteed untouched -/
structure Common (σ σ' : VM) (l : List Ev) (I : List Nat) (rf : Bool) : Prop where
  log : σ'.log = σ.log ++ l
  tries : σ'.tries = σ.tries
  iters : σ'.iters = σ.iters
  halted : σ'.halted = none
  cnt : ∀ x, x ∉ I → σ'.cnt x = σ.cnt x
  res : rf = true → σ'.result = σ.result

theorem Common.rfl' {σ : VM} {I : List Nat} {rf : Bool} (hh : σ.halted = none) :
    Common σ σ [] I rf :=
  ⟨by simp, rfl, rfl, hh, fun _ _ => rfl, fun _ => rfl⟩

theorem Common.trans {a b c : VM} {l1 l2 : List Ev} {I : List Nat} {rf : Bool}
    (h1 : Common a b l1 I rf) (h2 : Common b c l2 I rf) : Common a c (l1 ++ l2) I rf :=
  ⟨by rw [h2.log, h1.log, List.append_assoc], by rw [h2.tries, h1.tries], by rw [h2.iters, h1.iters], h2.halted,
   fun x hx => by rw [h2.cnt x hx, h1.cnt x hx], fun hr => by rw [h2.res hr, h1.res hr]⟩

theorem Common.mono {a b : VM} {l : List Ev} {I I' : List Nat} {rf rf' : Bool}
    (h : Common a b l I rf) (hI : ∀ x, x ∈ I → x ∈ I') (hrf : rf' = true → rf = true) :
    Common a b l I' rf' :=
  ⟨h.log, h.tries, h.iters, h.halted, fun x hx => h.cnt x (fun hh => hx (hI x hh)), fun hr => h.res (hrf hr)⟩

theorem Common.weaken {a b : VM} {l : List Ev} {I : List Nat} {rf : Bool} (h : Common a b l I rf) :
    Common a b l I false := h.mono (fun _ hx => hx) (fun h => by simp at h)

/-- the return() calls handleThrow makes for the iterators `xs` it closes (innermost first) -/
def clEv : List IterItem → List Ev
  | [] => []
  | it :: rest => (match it.sp with | some s => [Ev.itRet s.id] | none => []) ++ clEv rest

theorem clEv_append (xs ys : List IterItem) : clEv (xs ++ ys) = clEv xs ++ clEv ys := by
  induction xs with
  | nil => rfl
  | cons x r ih => simp [clEv, ih]

/-- `Common` up to a throw point: the state at the throw has the iterators `xs` still open above the base -/
theorem Common.transT {a b c : VM} {l1 l2 : List Ev} {I : List Nat} {rf : Bool} {xs : List IterItem}
    (h1 : Common a b l1 I rf) (h2 : Common { b with iters := xs ++ b.iters } c l2 I rf) :
    Common { a with iters := xs ++ a.iters } c (l1 ++ l2) I rf :=
  ⟨by rw [h2.log]; show b.log ++ l2 = a.log ++ (l1 ++ l2); rw [h1.log, List.append_assoc],
   by rw [h2.tries]; exact h1.tries,
   by rw [h2.iters]; show xs ++ b.iters = xs ++ a.iters; rw [h1.iters],
   h2.halted,
   fun x hx => by rw [h2.cnt x hx]; exact h1.cnt x hx,
   fun hr => by rw [h2.res hr]; exact h1.res hr⟩

theorem Common.toT {a b : VM} {l : List Ev} {I : List Nat} {rf : Bool} (h : Common a b l I rf) :
    Common { a with iters := [] ++ a.iters } b l I rf := h

/-- completion kinds (values of normal/break/continue completions are not observable by the VM in
function bodies) -/
inductive K
  | normal
  | brk (l : Option Label)
  | cont (l : Option Label)
  | ret (v : Val)
  | thr (v : Val)
  | fatal
  deriving DecidableEq

def kind : Compl → K
  | .normal _ => .normal
  | .brk l _ => .brk l
  | .cont l _ => .cont l
  | .ret v => .ret v
  | .thr v => .thr v
  | .fatal => .fatal

theorem kind_updateEmpty (c : Compl) (v : Val) : kind (c.updateEmpty v) = kind c := by
  cases c with
  | normal o => cases o <;> rfl
  | brk l o => cases o <;> rfl
  | cont l o => cases o <;> rfl
  | _ => rfl

/-- the VM is at the first instruction of the exit sequence for `break/continue lb` in context `ctx` -/
def ExitPt (C : Code) (ctx : List BI) (τ : VM) (lb : Option Label) (isBreak : Bool) : Prop :=
  ∃ ex t, findBrk lb isBreak ctx = some (ex, t) ∧
    CodeAt C τ.pc (ex ++ [Instr.jump (CS.rel t (τ.pc + ex.length))])

/-- simulation post-condition, by completion kind: the VM started in `src`; what is preserved is
stated relative to `base` (same as `src` except in the middle of a try statement).  `e` = pc after
the statement's code.  A `return` completion makes no promise about the parked value `result`
(the exit sequence of `return` overwrites it on purpose). -/
def SimG (C : Code) (ctx : List BI) (src base : VM) (e : Nat) (I : List Nat) (rf : Bool) (l : List Ev) : K → Prop
  | .normal => ∃ τ, Reach C src τ ∧ Common base τ l I rf ∧ τ.pc = e ∧ τ.stack = base.stack
  | .brk lb => ∃ τ, Reach C src τ ∧ Common base τ l I rf ∧ τ.stack = base.stack ∧ ExitPt C ctx τ lb true
  | .cont lb => ∃ τ, Reach C src τ ∧ Common base τ l I rf ∧ τ.stack = base.stack ∧ ExitPt C ctx τ lb false
  | .ret v => ∃ τ, Reach C src τ ∧ Common base τ l I false ∧ (∃ xs, τ.stack = v :: (xs ++ base.stack)) ∧
        CodeAt C τ.pc (retExitsS ctx ++ [Instr.ret])
  | .thr v => ∃ τ its l0, l = l0 ++ clEv its ∧ Common { base with iters := its ++ base.iters } τ l0 I rf ∧
        (∃ xs, τ.stack = xs ++ base.stack) ∧ Reach C src (VM.throwV (some v) τ)
  | .fatal => ∃ τ, Reach C src τ ∧ τ.log = base.log ++ l ∧ (τ.halted = some Compl.fatal ∧ τ.tries = [] ∧ τ.iters = [])

def SimK (C : Code) (ctx : List BI) (σ : VM) (e : Nat) (I : List Nat) (rf : Bool) (l : List Ev) (k : K) : Prop :=
  SimG C ctx σ σ e I rf l k

def Sim (C : Code) (ctx : List BI) (σ : VM) (e : Nat) (I : List Nat) (rf : Bool) (r : Res) : Prop :=
  SimK C ctx σ e I rf r.2 (kind r.1)

theorem SimK.mono {C : Code} {ctx : List BI} {σ : VM} {e : Nat} {I I' : List Nat} {rf rf' : Bool}
    {l : List Ev} {k : K} (h : SimK C ctx σ e I rf l k)
    (hI : ∀ x, x ∈ I → x ∈ I') (hrf : rf' = true → rf = true) : SimK C ctx σ e I' rf' l k := by
  cases k with
  | normal => obtain ⟨τ, h1, h2, h3, h4⟩ := h; exact ⟨τ, h1, h2.mono hI hrf, h3, h4⟩
  | brk lb => obtain ⟨τ, h1, h2, h3, h4⟩ := h; exact ⟨τ, h1, h2.mono hI hrf, h3, h4⟩
  | cont lb => obtain ⟨τ, h1, h2, h3, h4⟩ := h; exact ⟨τ, h1, h2.mono hI hrf, h3, h4⟩
  | ret v => obtain ⟨τ, h1, h2, h3, h4⟩ := h; exact ⟨τ, h1, h2.mono hI (fun h => h), h3, h4⟩
  | thr v => obtain ⟨τ, its, l0, hl, h2, h3, h4⟩ := h; exact ⟨τ, its, l0, hl, h2.mono hI hrf, h3, h4⟩
  | fatal => exact h

/-- prefixing a segment that ends with the same stack and frames -/
theorem SimK.prepend {C : Code} {ctx : List BI} {σ σ1 : VM} {e : Nat} {I : List Nat} {rf : Bool}
    {l1 l2 : List Ev} {k : K} (hr : Reach C σ σ1) (hc : Common σ σ1 l1 I rf) (hs : σ1.stack = σ.stack)
    (h : SimK C ctx σ1 e I rf l2 k) : SimK C ctx σ e I rf (l1 ++ l2) k := by
  cases k with
  | normal => obtain ⟨τ, h1, h2, h3, h4⟩ := h; exact ⟨τ, hr.trans h1, hc.trans h2, h3, by rw [h4, hs]⟩
  | brk lb => obtain ⟨τ, h1, h2, h3, h4⟩ := h; exact ⟨τ, hr.trans h1, hc.trans h2, by rw [h3, hs], h4⟩
  | cont lb => obtain ⟨τ, h1, h2, h3, h4⟩ := h; exact ⟨τ, hr.trans h1, hc.trans h2, by rw [h3, hs], h4⟩
  | ret v =>
    obtain ⟨τ, h1, h2, ⟨xs, h3⟩, h4⟩ := h
    exact ⟨τ, hr.trans h1, (hc.mono (fun _ h => h) (fun h => by simp at h)).trans h2, ⟨xs, by rw [h3, hs]⟩, h4⟩
  | thr v =>
    obtain ⟨τ, its, l0, hl, h2, ⟨xs, h3⟩, h4⟩ := h
    exact ⟨τ, its, l1 ++ l0, by rw [hl, List.append_assoc], hc.transT h2, ⟨xs, by rw [h3, hs]⟩, hr.trans h4⟩
  | fatal =>
    obtain ⟨τ, h1, h2, h3⟩ := h
    exact ⟨τ, hr.trans h1, by rw [h2, hc.log, List.append_assoc], h3⟩

/-! ### arithmetic of relative jumps -/

theorem jmp_rel (a b : Nat) : ((a : Int) + CS.rel b a).toNat = b := by
  simp [CS.rel]; omega

theorem codeAt_head {C : Code} {pc : Nat} {i : Instr} {is : List Instr} (h : CodeAt C pc (i :: is)) :
    C[pc]? = some i := (codeAt_cons.1 h).1

theorem codeAt_tail {C : Code} {pc : Nat} {i : Instr} {is : List Instr} (h : CodeAt C pc (i :: is)) :
    CodeAt C (pc + 1) is := (codeAt_cons.1 h).2

/-- label sets are only looked at by loops and labelled statements -/
theorem exec_ls_irrel (s : Stmt) (env : Nat) (ls : List Label) (h1 : isLoop s = false) (h2 : isLbl s = false) :
    exec env ls s = exec env [] s := by
  cases s <;> first | rfl | (simp [isLoop] at h1; done) | (simp [isLbl] at h2; done)

/-- a labelled loop consumes `break l` itself; `exec` leaves that to the enclosing labelled statement -/
def adj (lab : Option Label) (r : Res) : Res :=
  (match r.1 with
   | .brk (some l') v => if lab = some l' then .normal v else r.1
   | c => c, r.2)

theorem adj_none (r : Res) : adj none r = r := by
  obtain ⟨c, l⟩ := r
  cases c with
  | brk lb v => cases lb <;> simp [adj]
  | _ => rfl

end GojaModel.C08.S2
