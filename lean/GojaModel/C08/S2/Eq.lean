/-
  C08 — `compileS p = compileCF p` for the stage-1 fragment, as a theorem.

  The back-patching compiler keeps, per open block, the positions of placeholders that will be patched when
  the block is left (`breaks`, `conts`).  `RL ctx cs` is the code of `cs` as it will read once every open
  block has been left, given the final targets `ctx` of the open blocks: a pending position reads as the
  instruction it will be patched with (the OUTERMOST block that lists it wins, as it is patched last).
  Each emission step of compiler_stmt.go is characterised on `RL` (emit = append, patch = set, leaveBlock =
  dropping the head of `ctx`, break/continue = append exit code + resolved jump); the main theorem is then
  list algebra, by structural induction on the statement.
-/
import GojaModel.C08.S2.Lemmas

namespace GojaModel.C08.S2

/-- what a pending position of block `b` will be patched with when the block is left (conts are patched
after breaks: compiler.go:340) -/
def resolveHere (c : BI) (b : Block) (k : Nat) : Option Instr :=
  match c with
  | .loop _ bp cp =>
    if k ∈ b.conts then some (Instr.jump (CS.rel cp k))
    else if k ∈ b.breaks then some (Instr.jump (CS.rel bp k)) else none
  | .label _ bp => if k ∈ b.breaks then some (Instr.jump (CS.rel bp k)) else none
  | .scope n => if k ∈ b.breaks then some (Instr.leaveBlock n) else none
  | .iscope => if k ∈ b.breaks then some (Instr.leaveBlock 1) else none
  | .switch_ bp => if k ∈ b.breaks then some (Instr.jump (CS.rel bp k)) else none
  | .forof _ bp cp =>
    if k ∈ b.conts then some (Instr.jump (CS.rel cp k))
    else if k ∈ b.breaks then some (Instr.jump (CS.rel bp k)) else none
  | .try_ => none
  | .with_ => none

def pend : List BI → List Block → Nat → Option Instr
  | c :: ctx, b :: bs, k =>
    match pend ctx bs k with
    | some i => some i
    | none => resolveHere c b k
  | _, _, _ => none

/-- resolved listing -/
def RL (ctx : List BI) (cs : CS) : List Instr :=
  (List.range cs.code.size).map (fun k => (pend ctx cs.blocks k).getD (cs.code[k]?.getD Instr.nop))

def pendAll (bs : List Block) : List Nat := bs.flatMap (fun b => b.breaks ++ b.conts)

def MatchB (c : BI) (b : Block) : Prop :=
  b.breaking = none ∧
  match c with
  | .loop lab _ _ => b.typ = BT.loop ∧ b.label = lab
  | .label l _ => b.typ = BT.label ∧ b.label = some l ∧ b.conts = []
  | .try_ => b.typ = BT.try_ ∧ b.label = none ∧ b.breaks = [] ∧ b.conts = []
  | .scope _ => b.typ = BT.scope ∧ b.label = none ∧ b.conts = []
  | .with_ => b.typ = BT.with_ ∧ b.label = none ∧ b.breaks = [] ∧ b.conts = []
  | .iscope => b.typ = BT.iterScope ∧ b.label = none ∧ b.conts = []
  | .switch_ _ => b.typ = BT.switch_ ∧ b.label = none ∧ b.conts = []
  | .forof lab _ _ => b.typ = BT.loopEnum ∧ b.label = lab

def Match : List BI → List Block → Prop
  | [], [] => True
  | c :: cs, b :: bs => MatchB c b ∧ Match cs bs
  | _, _ => False

structure Inv (ctx : List BI) (cs : CS) : Prop where
  m : Match ctx cs.blocks
  p : ∀ k, k ∈ pendAll cs.blocks → k < cs.code.size

theorem RL_length (ctx : List BI) (cs : CS) : (RL ctx cs).length = cs.code.size := by simp [RL]

theorem pend_none {ctx : List BI} {bs : List Block} {k : Nat} (h : k ∉ pendAll bs) : pend ctx bs k = none := by
  induction bs generalizing ctx with
  | nil => cases ctx <;> rfl
  | cons b rest ih =>
    cases ctx with
    | nil => rfl
    | cons c ctx =>
      simp only [pendAll, List.flatMap_cons, List.mem_append, not_or] at h
      have hr : pend ctx rest k = none := ih (by simpa [pendAll] using h.2)
      simp only [pend, hr]
      cases c <;> simp [resolveHere, h.1.1, h.1.2]

theorem RL_ext {ctx ctx' : List BI} {cs cs' : CS} (hs : cs'.code.size = cs.code.size)
    (h : ∀ k, k < cs.code.size →
      (pend ctx' cs'.blocks k).getD (cs'.code[k]?.getD Instr.nop) = (pend ctx cs.blocks k).getD (cs.code[k]?.getD Instr.nop)) :
    RL ctx' cs' = RL ctx cs := by
  simp only [RL, hs]
  apply List.map_congr_left
  intro k hk
  exact h k (by simpa using hk)

theorem RL_emit {ctx : List BI} {cs : CS} (hi : Inv ctx cs) (i : Instr) : RL ctx (cs.emit i) = RL ctx cs ++ [i] := by
  simp only [RL, CS.emit, Array.size_push, List.range_succ, List.map_append, List.map_cons, List.map_nil]
  congr 1
  · apply List.map_congr_left
    intro k hk
    have hk' : k < cs.code.size := by simpa using hk
    simp [Array.getElem?_push, Nat.ne_of_lt hk']
  · have hn : cs.code.size ∉ pendAll cs.blocks := fun h => Nat.lt_irrefl _ (hi.p _ h)
    simp [pend_none hn]

theorem Inv_emit {ctx : List BI} {cs : CS} (hi : Inv ctx cs) (i : Instr) : Inv ctx (cs.emit i) :=
  ⟨hi.m, fun k hk => by simp only [CS.emit, Array.size_push]; exact Nat.lt_succ_of_lt (hi.p k hk)⟩

theorem RL_patch {ctx : List BI} {cs : CS} {q : Nat} (i : Instr) (hq : q ∉ pendAll cs.blocks) :
    RL ctx (cs.patch q i) = (RL ctx cs).set q i := by
  apply List.ext_getElem?
  intro k
  simp only [RL, CS.patch, Array.size_setIfInBounds, List.getElem?_set, List.getElem?_map, List.length_map, List.length_range]
  by_cases hk : k < cs.code.size
  · by_cases hqk : q = k
    · subst hqk
      simp [hk, pend_none hq, Array.getElem?_setIfInBounds]
    · simp [hk, hqk, Array.getElem?_setIfInBounds]
  · have : ¬ (k < cs.code.size) := hk
    by_cases hqk : q = k
    · subst hqk; simp [hk]
    · simp [hk, hqk]

theorem Inv_patch {ctx : List BI} {cs : CS} (hi : Inv ctx cs) (q : Nat) (i : Instr) : Inv ctx (cs.patch q i) :=
  ⟨hi.m, fun k hk => by simp only [CS.patch, Array.size_setIfInBounds]; exact hi.p k hk⟩

theorem foldl_set_size (l : List Nat) (f : Nat → Instr) (code : Array Instr) :
    (l.foldl (fun a item => a.setIfInBounds item (f item)) code).size = code.size := by
  induction l generalizing code with
  | nil => rfl
  | cons x xs ih => simp [List.foldl_cons, ih]

theorem foldl_set_getElem? (l : List Nat) (f : Nat → Instr) (code : Array Instr) (k : Nat) :
    (l.foldl (fun a item => a.setIfInBounds item (f item)) code)[k]? =
      if k ∈ l ∧ k < code.size then some (f k) else code[k]? := by
  induction l generalizing code with
  | nil => simp
  | cons x xs ih =>
    simp only [List.foldl_cons, ih, Array.size_setIfInBounds, List.mem_cons]
    by_cases hk : k < code.size
    · by_cases hx : k ∈ xs
      · simp [hx, hk]
      · by_cases hxk : x = k
        · subst hxk; simp [hx, hk, Array.getElem?_setIfInBounds]
        · have : ¬ (k = x) := fun h => hxk h.symm
          simp [hx, hk, this, hxk, Array.getElem?_setIfInBounds]
    · have hn : code[k]? = none := by simp [Array.getElem?_eq_none (Nat.le_of_not_lt hk)]
      by_cases hxk : x = k
      · subst hxk; simp [hk, hn, Array.getElem?_setIfInBounds]
      · simp [hk, hn, hxk, Array.getElem?_setIfInBounds]

theorem RL_push {c : BI} {ctx : List BI} {cs : CS} {b : Block} (hbr : b.breaks = []) (hco : b.conts = []) :
    RL (c :: ctx) (cs.push b) = RL ctx cs := by
  apply RL_ext (ctx := ctx) (ctx' := c :: ctx) (cs := cs) (cs' := cs.push b) rfl
  intro k _
  simp only [CS.push, pend]
  cases hp : pend ctx cs.blocks k with
  | some i => rfl
  | none => cases c <;> simp [resolveHere, hbr, hco]

theorem Inv_push {c : BI} {ctx : List BI} {cs : CS} {b : Block} (hi : Inv ctx cs) (hm : MatchB c b)
    (hbr : b.breaks = []) (hco : b.conts = []) : Inv (c :: ctx) (cs.push b) :=
  ⟨⟨hm, hi.m⟩, fun k hk => by
    simp only [CS.push, pendAll, List.flatMap_cons, hbr, hco, List.append_nil, List.nil_append] at hk
    exact hi.p k hk⟩

/-- changing only the `cont` field of the innermost block (do / for loops set it after the body) -/
theorem RL_modTop_cont {ctx : List BI} {cs : CS} (n : Nat) :
    RL ctx (cs.modTop (fun b => { b with cont := n })) = RL ctx cs := by
  cases hb : cs.blocks with
  | nil => simp [CS.modTop, hb, RL]
  | cons b r =>
    apply RL_ext (by simp [CS.modTop, hb])
    intro k _
    simp only [CS.modTop, hb]
    cases ctx with
    | nil => rfl
    | cons c ctx =>
      simp only [pend]
      cases hp : pend ctx r k with
      | some i => rfl
      | none => cases c <;> rfl

theorem Inv_modTop_cont {ctx : List BI} {cs : CS} (hi : Inv ctx cs) (n : Nat) :
    Inv ctx (cs.modTop (fun b => { b with cont := n })) := by
  cases hb : cs.blocks with
  | nil => simpa [CS.modTop, hb] using hi
  | cons b r =>
    have hm := hi.m
    have hp := hi.p
    rw [hb] at hm hp
    cases ctx with
    | nil => exact absurd hm (by simp [Match])
    | cons c ctx =>
      refine ⟨?_, ?_⟩
      · simp only [CS.modTop, hb, Match]
        refine ⟨?_, hm.2⟩
        obtain ⟨h1, h2⟩ := hm.1
        exact ⟨h1, by cases c <;> exact h2⟩
      · intro k hk
        simp only [CS.modTop, hb, pendAll, List.flatMap_cons] at hk ⊢
        exact hp k (by simpa [pendAll] using hk)

/-- the targets recorded in `c` are the ones leaveBlock patches with -/
def LeaveOK (c : BI) (sz : Nat) (b : Block) : Prop :=
  match c with
  | .loop _ bp cp => bp = sz ∧ cp = b.cont
  | .label _ bp => bp = sz
  | .scope _ => b.breaks = []
  | .iscope => b.breaks = []
  | .switch_ bp => bp = sz
  | .forof _ bp cp => bp = sz ∧ cp = b.cont
  | _ => True

/-- compiler.go:340 leaveBlock: patching the head block's placeholders = dropping the head of `ctx` -/
theorem RL_leaveBlock {c : BI} {ctx : List BI} {cs : CS} {b : Block} {r : List Block}
    (hb : cs.blocks = b :: r) (hm : MatchB c b) (hc : LeaveOK c cs.code.size b) :
    RL ctx cs.leaveBlock = RL (c :: ctx) cs := by
  have hsz : cs.leaveBlock.code.size = cs.code.size := by
    simp only [CS.leaveBlock, hb]
    split <;> simp [foldl_set_size]
  apply RL_ext hsz
  intro k hk
  simp only [hb, pend]
  have hbl : cs.leaveBlock.blocks = r := by simp [CS.leaveBlock, hb]
  rw [hbl]
  cases hp : pend ctx r k with
  | some i => rfl
  | none =>
    simp only [Option.getD_none]
    obtain ⟨_, hm2⟩ := hm
    cases c with
    | loop lab bp cp =>
      have hc1 : bp = cs.code.size := hc.1
      have hc2 : cp = b.cont := hc.2
      have ht : b.typ = BT.loop := hm2.1
      simp only [CS.leaveBlock, hb, ht, true_or, if_true, resolveHere, CS.size, hc1, hc2]
      rw [foldl_set_getElem?, foldl_set_getElem?, foldl_set_size]
      by_cases h1 : k ∈ b.conts
      · simp [h1, hk]
      · by_cases h2 : k ∈ b.breaks
        · simp [h1, h2, hk]
        · simp [h1, h2]
    | label l bp =>
      have hc1 : bp = cs.code.size := hc
      have ht : b.typ = BT.label := hm2.1
      simp only [CS.leaveBlock, hb, ht, resolveHere, CS.size, hc1]
      simp only [reduceCtorEq, or_self, if_false]
      rw [foldl_set_getElem?]
      by_cases h2 : k ∈ b.breaks
      · simp [h2, hk]
      · simp [h2]
    | scope n =>
      have ht : b.typ = BT.scope := hm2.1
      have hbr : b.breaks = [] := hc
      simp only [CS.leaveBlock, hb, ht, resolveHere, hbr]
      simp
    | try_ =>
      have ht : b.typ = BT.try_ := hm2.1
      simp only [CS.leaveBlock, hb, ht, resolveHere, hm2.2.2.1]
      simp
    | with_ =>
      have ht : b.typ = BT.with_ := hm2.1
      simp only [CS.leaveBlock, hb, ht, resolveHere, hm2.2.2.1]
      simp
    | iscope =>
      have ht : b.typ = BT.iterScope := hm2.1
      have hbr : b.breaks = [] := hc
      simp only [CS.leaveBlock, hb, ht, resolveHere, hbr]
      simp
    | forof lab bp cp =>
      have hc1 : bp = cs.code.size := hc.1
      have hc2 : cp = b.cont := hc.2
      have ht : b.typ = BT.loopEnum := hm2.1
      simp only [CS.leaveBlock, hb, ht, or_true, if_true, resolveHere, CS.size, hc1, hc2]
      rw [foldl_set_getElem?, foldl_set_getElem?, foldl_set_size]
      by_cases h1 : k ∈ b.conts
      · simp [h1, hk]
      · by_cases h2 : k ∈ b.breaks
        · simp [h1, h2, hk]
        · simp [h1, h2]
    | switch_ bp =>
      have hc1 : bp = cs.code.size := hc
      have ht : b.typ = BT.switch_ := hm2.1
      simp only [CS.leaveBlock, hb, ht, resolveHere, CS.size, hc1]
      simp only [reduceCtorEq, or_self, if_false]
      rw [foldl_set_getElem?]
      by_cases h2 : k ∈ b.breaks
      · simp [h2, hk]
      · simp [h2]

theorem pendAll_tail {b : Block} {r : List Block} {k : Nat} (h : k ∈ pendAll r) : k ∈ pendAll (b :: r) := by
  simp only [pendAll, List.flatMap_cons, List.mem_append]; right; exact h

theorem Inv_leaveBlock {c : BI} {ctx : List BI} {cs : CS} {b : Block} {r : List Block}
    (hb : cs.blocks = b :: r) (hi : Inv (c :: ctx) cs) : Inv ctx cs.leaveBlock := by
  have hbl : cs.leaveBlock.blocks = r := by simp [CS.leaveBlock, hb]
  have hsz : cs.leaveBlock.code.size = cs.code.size := by
    simp only [CS.leaveBlock, hb]
    split <;> simp [foldl_set_size]
  have hm := hi.m
  rw [hb] at hm
  refine ⟨by rw [hbl]; exact hm.2, fun k hk => ?_⟩
  rw [hbl] at hk
  rw [hsz]
  exact hi.p k (by rw [hb]; exact pendAll_tail hk)

/-- compiler.go:326 leaveScopeBlock -/
theorem RL_leaveScopeBlock {ctx : List BI} {cs : CS} {b : Block} {r : List Block} {n : Nat}
    (hb : cs.blocks = b :: r) (hi : Inv (BI.scope n :: ctx) cs) :
    RL ctx (cs.leaveScopeBlock n) = RL (BI.scope n :: ctx) cs ++ [Instr.leaveBlock n] ∧
    Inv ctx (cs.leaveScopeBlock n) := by
  have hm := hi.m
  rw [hb] at hm
  let cs1 := cs.emit (Instr.leaveBlock n)
  have hb1 : cs1.blocks = b :: r := by simp [cs1, CS.emit, hb]
  let cs2 : CS := { code := b.breaks.foldl (fun c pc => c.setIfInBounds pc (Instr.leaveBlock n)) cs1.code,
                    blocks := { b with breaks := [] } :: r }
  have hunf : cs.leaveScopeBlock n = cs2.leaveBlock := by
    simp only [CS.leaveScopeBlock]
    show (match cs1.blocks with
          | [] => cs1
          | b :: r => CS.leaveBlock { code := b.breaks.foldl (fun c pc => c.setIfInBounds pc (Instr.leaveBlock n)) cs1.code,
                                      blocks := { b with breaks := [] } :: r }) = cs2.leaveBlock
    rw [hb1]
  have hA : RL (BI.scope n :: ctx) cs2 = RL (BI.scope n :: ctx) cs1 := by
    apply RL_ext (ctx := BI.scope n :: ctx) (ctx' := BI.scope n :: ctx) (cs := cs1) (cs' := cs2) (by simp [cs2, foldl_set_size])
    intro k hk
    simp only [cs2, hb1, pend]
    cases hp : pend ctx r k with
    | some i => rfl
    | none =>
      simp only [resolveHere, List.not_mem_nil, if_false, Option.getD_none]
      rw [foldl_set_getElem?]
      by_cases h2 : k ∈ b.breaks
      · simp [h2, hk]
      · simp [h2]
  have hm2 : MatchB (BI.scope n) { b with breaks := [] } := by
    obtain ⟨h1, h2⟩ := hm.1
    exact ⟨h1, h2⟩
  have hB : RL ctx cs2.leaveBlock = RL (BI.scope n :: ctx) cs2 :=
    RL_leaveBlock (c := BI.scope n) (b := { b with breaks := [] }) (r := r) rfl hm2 rfl
  have hC : RL (BI.scope n :: ctx) cs1 = RL (BI.scope n :: ctx) cs ++ [Instr.leaveBlock n] := RL_emit hi _
  refine ⟨by rw [hunf, hB, hA, hC], ?_⟩
  rw [hunf]
  have hi2 : Inv (BI.scope n :: ctx) cs2 := by
    refine ⟨⟨hm2, hm.2⟩, fun k hk => ?_⟩
    have : k ∈ pendAll cs1.blocks := by
      rw [hb1]
      simp only [cs2, pendAll, List.flatMap_cons, List.nil_append, List.mem_append] at hk ⊢
      rcases hk with hk | hk
      · left; right; exact hk
      · right; exact hk
    have := (Inv_emit hi (Instr.leaveBlock n)).p k this
    simpa [cs2, foldl_set_size] using this
  exact Inv_leaveBlock (c := BI.scope n) (b := { b with breaks := [] }) (r := r) rfl hi2

theorem RL_leaveScopeBlockI {ctx : List BI} {cs : CS} {b : Block} {r : List Block}
    (hb : cs.blocks = b :: r) (hi : Inv (BI.iscope :: ctx) cs) :
    RL ctx (cs.leaveScopeBlock 1) = RL (BI.iscope :: ctx) cs ++ [Instr.leaveBlock 1] ∧
    Inv ctx (cs.leaveScopeBlock 1) := by
  have hm := hi.m
  rw [hb] at hm
  let cs1 := cs.emit (Instr.leaveBlock 1)
  have hb1 : cs1.blocks = b :: r := by simp [cs1, CS.emit, hb]
  let cs2 : CS := { code := b.breaks.foldl (fun c pc => c.setIfInBounds pc (Instr.leaveBlock 1)) cs1.code,
                    blocks := { b with breaks := [] } :: r }
  have hunf : cs.leaveScopeBlock 1 = cs2.leaveBlock := by
    simp only [CS.leaveScopeBlock]
    show (match cs1.blocks with
          | [] => cs1
          | b :: r => CS.leaveBlock { code := b.breaks.foldl (fun c pc => c.setIfInBounds pc (Instr.leaveBlock 1)) cs1.code,
                                      blocks := { b with breaks := [] } :: r }) = cs2.leaveBlock
    rw [hb1]
  have hA : RL (BI.iscope :: ctx) cs2 = RL (BI.iscope :: ctx) cs1 := by
    apply RL_ext (ctx := BI.iscope :: ctx) (ctx' := BI.iscope :: ctx) (cs := cs1) (cs' := cs2) (by simp [cs2, foldl_set_size])
    intro k hk
    simp only [cs2, hb1, pend]
    cases hp : pend ctx r k with
    | some i => rfl
    | none =>
      simp only [resolveHere, List.not_mem_nil, if_false, Option.getD_none]
      rw [foldl_set_getElem?]
      by_cases h2 : k ∈ b.breaks
      · simp [h2, hk]
      · simp [h2]
  have hm2 : MatchB (BI.iscope) { b with breaks := [] } := by
    obtain ⟨h1, h2⟩ := hm.1
    exact ⟨h1, h2⟩
  have hB : RL ctx cs2.leaveBlock = RL (BI.iscope :: ctx) cs2 :=
    RL_leaveBlock (c := BI.iscope) (b := { b with breaks := [] }) (r := r) rfl hm2 rfl
  have hC : RL (BI.iscope :: ctx) cs1 = RL (BI.iscope :: ctx) cs ++ [Instr.leaveBlock 1] := RL_emit hi _
  refine ⟨by rw [hunf, hB, hA, hC], ?_⟩
  rw [hunf]
  have hi2 : Inv (BI.iscope :: ctx) cs2 := by
    refine ⟨⟨hm2, hm.2⟩, fun k hk => ?_⟩
    have : k ∈ pendAll cs1.blocks := by
      rw [hb1]
      simp only [cs2, pendAll, List.flatMap_cons, List.nil_append, List.mem_append] at hk ⊢
      rcases hk with hk | hk
      · left; right; exact hk
      · right; exact hk
    have := (Inv_emit hi (Instr.leaveBlock 1)).p k this
    simpa [cs2, foldl_set_size] using this
  exact Inv_leaveBlock (c := BI.iscope) (b := { b with breaks := [] }) (r := r) rfl hi2

/-! ### break / continue -/

/-- the state after compileBranch found the target at height `t` -/
def branchF (t : Nat) (isBreak cfl : Bool) (blocks : List Block) (code : Array Instr) : CS :=
  { code := (exitWalk t cfl blocks code).2.push Instr.nop,
    blocks := modAtHeight t (fun b =>
      if isBreak then { b with breaks := b.breaks ++ [(exitWalk t cfl blocks code).2.size] }
      else { b with conts := b.conts ++ [(exitWalk t cfl blocks code).2.size] }) (exitWalk t cfl blocks code).1 }

theorem compileBranch_eq (l : Option Label) (isBreak : Bool) (cs : CS) :
    compileBranch l isBreak cs =
      match findBreakBlock l isBreak cs.blocks with
      | none => cs.emit Instr.nop
      | some t => branchF t isBreak (!isBreak && typAtHeight t cs.blocks == some BT.loop) cs.blocks cs.code := by
  simp only [compileBranch, branchF]
  cases findBreakBlock l isBreak cs.blocks <;> rfl

theorem exitWalk_len (t : Nat) (cfl : Bool) (blocks : List Block) (code : Array Instr) :
    (exitWalk t cfl blocks code).1.length = blocks.length := by
  induction blocks generalizing code with
  | nil => simp [exitWalk]
  | cons b rest ih =>
    simp only [exitWalk]
    split
    · rfl
    · split
      · rfl
      · cases hb : b.typ <;> simp [ih]

/-- is `b` the block a `break/continue l` is looking for (compiler_stmt.go:572, no `breaking` blocks) -/
def tgtB (l : Option Label) (isBreak : Bool) (b : Block) : Bool :=
  match l with
  | some x => b.label == some x
  | none => (b.typ == BT.loop || b.typ == BT.loopEnum) || (b.typ == BT.switch_ && isBreak)

theorem fbb_cons (l : Option Label) (isBreak : Bool) (b : Block) (rest : List Block) (hb : b.breaking = none) :
    findBreakBlock l isBreak (b :: rest) =
      if tgtB l isBreak b then some rest.length else findBreakBlock l isBreak rest := by
  cases l with
  | some x =>
    simp only [findBreakBlock, findLabelled, hb, tgtB]
    by_cases h : b.label = some x <;> simp [h]
  | none =>
    simp only [findBreakBlock, findUnlabelled, hb, tgtB]
    by_cases h1 : b.typ = BT.loop ∨ b.typ = BT.loopEnum
    · rcases h1 with h | h <;> simp [h]
    · have h1' : ¬ b.typ = BT.loop ∧ ¬ b.typ = BT.loopEnum := by simpa [not_or] using h1
      by_cases h2 : b.typ = BT.switch_ ∧ isBreak = true
      · simp [h1, h2.1, h2.2]
      · simp only [h1, if_false, h2]
        have : ((b.typ == BT.loop || b.typ == BT.loopEnum) || (b.typ == BT.switch_ && isBreak)) = false := by
          simp only [Bool.or_eq_false_iff, Bool.and_eq_false_iff, beq_eq_false_iff_ne, ne_eq]
          refine ⟨⟨h1'.1, h1'.2⟩, ?_⟩
          by_cases hs : b.typ = BT.switch_
          · right; cases hib : isBreak with
            | false => rfl
            | true => exact absurd ⟨hs, hib⟩ h2
          · left; exact hs
        simp [this]

/-- one step of the exit walk over a block that is not the target -/
def stepB (b : Block) (code : Array Instr) : Block × Array Instr :=
  match b.typ with
  | BT.scope => ({ b with breaks := b.breaks ++ [code.size] }, code.push Instr.nop)
  | BT.iterScope => ({ b with breaks := b.breaks ++ [code.size] }, code.push Instr.nop)
  | BT.try_ => (b, code.push Instr.leaveTry)
  | BT.with_ => (b, code.push Instr.leaveWith)
  | BT.loopEnum => (b, code.push Instr.enumPopClose)
  | _ => (b, code)

theorem branchF_cons (t : Nat) (isBreak cfl : Bool) (b : Block) (rest : List Block) (code : Array Instr)
    (ht : rest.length ≠ t) (hns : ¬ (b.typ = BT.iterScope ∧ cfl = true ∧ rest.length = t + 1)) :
    branchF t isBreak cfl (b :: rest) code =
      { code := (branchF t isBreak cfl rest (stepB b code).2).code,
        blocks := (stepB b code).1 :: (branchF t isBreak cfl rest (stepB b code).2).blocks } := by
  have hw : exitWalk t cfl (b :: rest) code =
      ((stepB b code).1 :: (exitWalk t cfl rest (stepB b code).2).1, (exitWalk t cfl rest (stepB b code).2).2) := by
    simp only [exitWalk, ht, if_false, hns, stepB]
    cases hb : b.typ <;> simp_all
  simp only [branchF, hw]
  have hl : (exitWalk t cfl rest (stepB b code).2).1.length ≠ t := by rw [exitWalk_len]; exact ht
  simp [modAtHeight, hl]

/-- emitBlockExitCode:618: a `continue` of a plain loop does not leave that loop's own per-iteration scope -/
theorem branchF_stop (t : Nat) (isBreak : Bool) (b : Block) (rest : List Block) (code : Array Instr)
    (hty : b.typ = BT.iterScope) (ht : rest.length = t + 1) :
    branchF t isBreak true (b :: rest) code =
      { code := (branchF t isBreak true rest code).code,
        blocks := b :: (branchF t isBreak true rest code).blocks } := by
  cases rest with
  | nil => simp at ht
  | cons lb r =>
    have hr : r.length = t := by simpa using ht
    have hne : (lb :: r).length ≠ t := by simp; omega
    simp [branchF, exitWalk, modAtHeight, hty, hr, hne, ht]

theorem branchF_here (isBreak cfl : Bool) (b : Block) (rest : List Block) (code : Array Instr) :
    branchF rest.length isBreak cfl (b :: rest) code =
      { code := code.push Instr.nop,
        blocks := (if isBreak then { b with breaks := b.breaks ++ [code.size] }
                   else { b with conts := b.conts ++ [code.size] }) :: rest } := by
  simp [branchF, exitWalk, modAtHeight]

def vw (ctx : List BI) (bs : List Block) (code : Array Instr) (k : Nat) : Instr :=
  (pend ctx bs k).getD (code[k]?.getD Instr.nop)

structure BranchOK (ctx : List BI) (blocks : List Block) (code : Array Instr) (ex : List Instr) (tgt : Nat) (F : CS) : Prop where
  size : F.code.size = code.size + ex.length + 1
  m : Match ctx F.blocks
  new : ∀ k, k ∈ pendAll F.blocks → k ∈ pendAll blocks ∨ code.size ≤ k
  lt : ∀ k, k ∈ pendAll F.blocks → k < F.code.size
  old : ∀ k, k < code.size → pend ctx F.blocks k = pend ctx blocks k ∧ F.code[k]? = code[k]?
  exs : ∀ j, j < ex.length → vw ctx F.blocks F.code (code.size + j) = ex[j]?.getD Instr.nop
  jmp : vw ctx F.blocks F.code (code.size + ex.length) = Instr.jump (CS.rel tgt (code.size + ex.length))
  conts : F.blocks.map Block.cont = blocks.map Block.cont

theorem resolveHere_fresh {c : BI} {b : Block} {n k : Nat} (hb : ∀ x, x ∈ b.breaks ++ b.conts → x < n) (hk : n ≤ k) :
    resolveHere c b k = none := by
  have h1 : k ∉ b.breaks := fun h => Nat.lt_irrefl k (Nat.lt_of_lt_of_le (hb k (List.mem_append_left _ h)) hk)
  have h2 : k ∉ b.conts := fun h => Nat.lt_irrefl k (Nat.lt_of_lt_of_le (hb k (List.mem_append_right _ h)) hk)
  cases c <;> simp [resolveHere, h1, h2]

theorem pend_cons_none {c : BI} {ctx : List BI} {b : Block} {bs : List Block} {k : Nat}
    (h : resolveHere c b k = none) : pend (c :: ctx) (b :: bs) k = pend ctx bs k := by
  simp only [pend]
  cases pend ctx bs k with
  | some i => rfl
  | none => exact h

theorem mem_pendAll_cons {b : Block} {r : List Block} {k : Nat} :
    k ∈ pendAll (b :: r) ↔ k ∈ b.breaks ++ b.conts ∨ k ∈ pendAll r := by
  simp only [pendAll, List.flatMap_cons, List.mem_append]

/-- passing a non-target loop / label block: no exit instruction -/
theorem BranchOK.lift0 {c : BI} {ctx : List BI} {b : Block} {rest : List Block} {code : Array Instr}
    {ex : List Instr} {tgt : Nat} {F' : CS} (hm : MatchB c b)
    (hp : ∀ k, k ∈ pendAll (b :: rest) → k < code.size)
    (h : BranchOK ctx rest code ex tgt F') :
    BranchOK (c :: ctx) (b :: rest) code ex tgt { code := F'.code, blocks := b :: F'.blocks } := by
  have hbf : ∀ x, x ∈ b.breaks ++ b.conts → x < code.size := fun x hx => hp x (mem_pendAll_cons.2 (Or.inl hx))
  have hfresh : ∀ k, code.size ≤ k → pend (c :: ctx) (b :: F'.blocks) k = pend ctx F'.blocks k :=
    fun k hk => pend_cons_none (resolveHere_fresh hbf hk)
  refine ⟨h.size, ⟨hm, h.m⟩, ?_, ?_, ?_, ?_, ?_, by simp [h.conts]⟩
  · intro k hk
    rcases mem_pendAll_cons.1 hk with hk | hk
    · exact Or.inl (mem_pendAll_cons.2 (Or.inl hk))
    · rcases h.new k hk with h1 | h1
      · exact Or.inl (mem_pendAll_cons.2 (Or.inr h1))
      · exact Or.inr h1
  · intro k hk
    rcases mem_pendAll_cons.1 hk with hk | hk
    · have := hbf k hk
      have := h.size
      simp only at this ⊢
      omega
    · exact h.lt k hk
  · intro k hk
    refine ⟨?_, (h.old k hk).2⟩
    simp only [pend, (h.old k hk).1]
  · intro j hj
    simp only [vw, hfresh _ (Nat.le_add_right _ _)]
    exact h.exs j hj
  · simp only [vw, hfresh _ (Nat.le_add_right _ _)]
    exact h.jmp

/-- passing a try / with / scope block: one exit instruction (a placeholder for scope blocks) -/
theorem BranchOK.lift1 {c : BI} {ctx : List BI} {b b' : Block} {rest : List Block} {code : Array Instr}
    {i1 x : Instr} {ex' : List Instr} {tgt : Nat} {F' : CS} (hm : MatchB c b) (hm' : MatchB c b')
    (hp : ∀ k, k ∈ pendAll (b :: rest) → k < code.size)
    (hb' : ∀ k, k ∈ b'.breaks ++ b'.conts ↔ (k ∈ b.breaks ++ b.conts ∨ (k = code.size ∧ resolveHere c b' code.size ≠ none)))
    (hres : ∀ k, k ≠ code.size → resolveHere c b' k = resolveHere c b k)
    (hx : (resolveHere c b' code.size).getD i1 = x) (hb'c : b'.cont = b.cont)
    (h : BranchOK ctx rest (code.push i1) ex' tgt F') :
    BranchOK (c :: ctx) (b :: rest) code (x :: ex') tgt { code := F'.code, blocks := b' :: F'.blocks } := by
  have hbf : ∀ k, k ∈ b.breaks ++ b.conts → k < code.size := fun k hk => hp k (mem_pendAll_cons.2 (Or.inl hk))
  have hb'f : ∀ k, k ∈ b'.breaks ++ b'.conts → k < code.size + 1 := by
    intro k hk
    rcases (hb' k).1 hk with h1 | h1
    · exact Nat.lt_succ_of_lt (hbf k h1)
    · rw [h1.1]; exact Nat.lt_succ_self _
  have hfresh : ∀ k, code.size + 1 ≤ k → pend (c :: ctx) (b' :: F'.blocks) k = pend ctx F'.blocks k :=
    fun k hk => pend_cons_none (resolveHere_fresh hb'f hk)
  have hsz : (code.push i1).size = code.size + 1 := by simp
  have hrestp : ∀ k, k ∈ pendAll rest → k < code.size := fun k hk => hp k (mem_pendAll_cons.2 (Or.inr hk))
  have hsize : F'.code.size = code.size + (x :: ex').length + 1 := by
    have := h.size; simp only [hsz] at this; simp only [List.length_cons]; omega
  refine ⟨hsize, ⟨hm', h.m⟩, ?_, ?_, ?_, ?_, ?_, by simp [h.conts, hb'c]⟩
  · intro k hk
    rcases mem_pendAll_cons.1 hk with hk | hk
    · rcases (hb' k).1 hk with h1 | h1
      · exact Or.inl (mem_pendAll_cons.2 (Or.inl h1))
      · exact Or.inr (by rw [h1.1]; exact Nat.le_refl _)
    · rcases h.new k hk with h1 | h1
      · exact Or.inl (mem_pendAll_cons.2 (Or.inr h1))
      · exact Or.inr (by rw [hsz] at h1; omega)
  · intro k hk
    rcases mem_pendAll_cons.1 hk with hk | hk
    · have := hb'f k hk
      simp only at hsize ⊢
      omega
    · exact h.lt k hk
  · intro k hk
    have hk1 : k < (code.push i1).size := by rw [hsz]; omega
    obtain ⟨h1, h2⟩ := h.old k hk1
    refine ⟨?_, ?_⟩
    · simp only [pend, h1, hres k (Nat.ne_of_lt hk)]
    · rw [h2]; simp [Array.getElem?_push, Nat.ne_of_lt hk]
  · intro j hj
    cases j with
    | zero =>
      have hk1 : code.size < (code.push i1).size := by rw [hsz]; omega
      obtain ⟨h1, h2⟩ := h.old code.size hk1
      have hnone : pend ctx rest code.size = none :=
        pend_none (fun hh => Nat.lt_irrefl _ (hrestp _ hh))
      simp only [vw, Nat.add_zero, pend, h1, hnone, h2, List.getElem?_cons_zero, Option.getD_some]
      rw [← hx]
      cases resolveHere c b' code.size with
      | some y => rfl
      | none => simp
    | succ j =>
      have hj' : j < ex'.length := by simpa using hj
      have e : code.size + (j + 1) = (code.push i1).size + j := by rw [hsz]; omega
      have := h.exs j hj'
      simp only [vw] at this ⊢
      rw [hfresh _ (by omega), e, this]
      simp
  · have e : code.size + (x :: ex').length = (code.push i1).size + ex'.length := by
      rw [hsz]; simp only [List.length_cons]; omega
    have := h.jmp
    simp only [vw] at this ⊢
    rw [hfresh _ (by simp only [List.length_cons]; omega), e, this]

/-- the target block is the innermost one -/
theorem BranchOK.here {c : BI} {ctx : List BI} {b : Block} {rest : List Block} {code : Array Instr}
    {isBreak : Bool} {tgt : Nat} (hm : MatchB c b) (hm2 : Match ctx rest)
    (hp : ∀ k, k ∈ pendAll (b :: rest) → k < code.size)
    (hc : match c with
          | .loop _ bp cp => tgt = (if isBreak then bp else cp)
          | .label _ bp => isBreak = true ∧ tgt = bp
          | .switch_ bp => isBreak = true ∧ tgt = bp
          | .forof _ bp cp => tgt = (if isBreak then bp else cp)
          | _ => False) :
    BranchOK (c :: ctx) (b :: rest) code [] tgt
      { code := code.push Instr.nop,
        blocks := (if isBreak then { b with breaks := b.breaks ++ [code.size] }
                   else { b with conts := b.conts ++ [code.size] }) :: rest } := by
  have hbf : ∀ k, k ∈ b.breaks ++ b.conts → k < code.size := fun k hk => hp k (mem_pendAll_cons.2 (Or.inl hk))
  have hrestp : ∀ k, k ∈ pendAll rest → k < code.size := fun k hk => hp k (mem_pendAll_cons.2 (Or.inr hk))
  have hnb : code.size ∉ b.breaks := fun h => Nat.lt_irrefl _ (hbf _ (List.mem_append_left _ h))
  have hnc : code.size ∉ b.conts := fun h => Nat.lt_irrefl _ (hbf _ (List.mem_append_right _ h))
  refine ⟨by simp, ⟨?_, hm2⟩, ?_, ?_, ?_, ?_, ?_, by cases isBreak <;> simp⟩
  · obtain ⟨h1, h2⟩ := hm
    cases c with
    | loop lab bp cp => cases isBreak <;> exact ⟨h1, h2⟩
    | label y bp =>
      have hib : isBreak = true := hc.1
      subst hib
      exact ⟨h1, h2⟩
    | try_ => exact hc.elim
    | scope n => exact hc.elim
    | with_ => exact hc.elim
    | iscope => exact hc.elim
    | switch_ bp =>
      have hib : isBreak = true := hc.1
      subst hib
      exact ⟨h1, h2⟩
    | forof lab bp cp => cases isBreak <;> exact ⟨h1, h2⟩
  · intro k hk
    rcases mem_pendAll_cons.1 hk with hk | hk
    · cases isBreak with
      | true =>
        simp only [if_true, List.mem_append, List.mem_singleton] at hk
        rcases hk with (hk | hk) | hk
        · exact Or.inl (mem_pendAll_cons.2 (Or.inl (List.mem_append_left _ hk)))
        · exact Or.inr (by rw [hk]; exact Nat.le_refl _)
        · exact Or.inl (mem_pendAll_cons.2 (Or.inl (List.mem_append_right _ hk)))
      | false =>
        simp only [Bool.false_eq_true, if_false, List.mem_append, List.mem_singleton] at hk
        rcases hk with hk | hk | hk
        · exact Or.inl (mem_pendAll_cons.2 (Or.inl (List.mem_append_left _ hk)))
        · exact Or.inl (mem_pendAll_cons.2 (Or.inl (List.mem_append_right _ hk)))
        · exact Or.inr (by rw [hk]; exact Nat.le_refl _)
    · exact Or.inl (mem_pendAll_cons.2 (Or.inr hk))
  · intro k hk
    simp only [Array.size_push]
    rcases mem_pendAll_cons.1 hk with hk | hk
    · cases isBreak with
      | true =>
        simp only [if_true, List.mem_append, List.mem_singleton] at hk
        rcases hk with (hk | hk) | hk
        · exact Nat.lt_succ_of_lt (hbf k (List.mem_append_left _ hk))
        · rw [hk]; exact Nat.lt_succ_self _
        · exact Nat.lt_succ_of_lt (hbf k (List.mem_append_right _ hk))
      | false =>
        simp only [Bool.false_eq_true, if_false, List.mem_append, List.mem_singleton] at hk
        rcases hk with hk | hk | hk
        · exact Nat.lt_succ_of_lt (hbf k (List.mem_append_left _ hk))
        · exact Nat.lt_succ_of_lt (hbf k (List.mem_append_right _ hk))
        · rw [hk]; exact Nat.lt_succ_self _
    · exact Nat.lt_succ_of_lt (hrestp k hk)
  · intro k hk
    have hne : k ≠ code.size := Nat.ne_of_lt hk
    refine ⟨?_, by simp [Array.getElem?_push, hne]⟩
    simp only [pend]
    cases pend ctx rest k with
    | some i => rfl
    | none =>
      cases c <;> cases isBreak <;> simp [resolveHere, hne]
  · intro j hj; simp at hj
  · have hnone : pend ctx rest code.size = none := pend_none (fun hh => Nat.lt_irrefl _ (hrestp _ hh))
    simp only [vw, List.length_nil, Nat.add_zero, pend, hnone]
    cases c with
    | loop lab bp cp =>
      cases isBreak with
      | true => simp only [if_true] at hc ⊢; simp [resolveHere, hnc, hc]
      | false => simp only [Bool.false_eq_true, if_false] at hc ⊢; simp [resolveHere, hc]
    | label y bp =>
      have hib : isBreak = true := hc.1
      subst hib
      simp [resolveHere, hc.2]
    | try_ => exact hc.elim
    | scope n => exact hc.elim
    | with_ => exact hc.elim
    | iscope => exact hc.elim
    | switch_ bp =>
      have hib : isBreak = true := hc.1
      subst hib
      simp [resolveHere, hc.2]
    | forof lab bp cp =>
      cases isBreak with
      | true => simp only [if_true] at hc ⊢; simp [resolveHere, hnc, hc]
      | false => simp only [Bool.false_eq_true, if_false] at hc ⊢; simp [resolveHere, hc]

theorem matchB_typ_ne_iter {c : BI} {b : Block} (h : MatchB c b) (hc : c ≠ BI.iscope) : b.typ ≠ BT.iterScope := by
  obtain ⟨_, h2⟩ := h
  cases c <;> first | exact absurd rfl hc | (intro hh; simp [hh] at h2)

theorem fbb_lt (l : Option Label) (isBreak : Bool) {t : Nat} :
    ∀ (blocks : List Block) (ctx : List BI), Match ctx blocks → findBreakBlock l isBreak blocks = some t → t < blocks.length := by
  intro blocks
  induction blocks with
  | nil => intro ctx _ h; cases l <;> simp [findBreakBlock, findLabelled, findUnlabelled] at h
  | cons b rest ih =>
    intro ctx hm h
    cases ctx with
    | nil => exact absurd hm (by simp [Match])
    | cons c ctx =>
      obtain ⟨hmb, hmr⟩ := hm
      rw [fbb_cons l isBreak b rest hmb.1] at h
      by_cases htb : tgtB l isBreak b = true
      · simp only [htb, if_true, Option.some.injEq] at h
        simp [← h]
      · simp only [htb, Bool.false_eq_true, if_false] at h
        have := ih ctx hmr h
        simp; omega

/-- findBreakBlock + emitBlockExitCode agree with `findBrk` on every block stack that matches `ctx` -/
theorem branch_walk (l : Option Label) (isBreak : Bool) :
    ∀ (blocks : List Block) (ctx : List BI) (code : Array Instr) (ex : List Instr) (tgt : Nat),
      Match ctx blocks → (∀ k, k ∈ pendAll blocks → k < code.size) → findBrk l isBreak ctx = some (ex, tgt) →
      ∃ t, t < blocks.length ∧ findBreakBlock l isBreak blocks = some t ∧
        True ∧
        BranchOK ctx blocks code ex tgt (branchF t isBreak (!isBreak && typAtHeight t blocks == some BT.loop) blocks code) := by
  intro blocks
  induction blocks with
  | nil =>
    intro ctx code ex tgt hm _ hf
    cases ctx with
    | nil => simp [findBrk] at hf
    | cons c ctx => exact absurd hm (by simp [Match])
  | cons b rest ih =>
    intro ctx code ex tgt hm hp hf
    cases ctx with
    | nil => exact absurd hm (by simp [Match])
    | cons c ctx =>
      obtain ⟨hmb, hmr⟩ := hm
      have hbk : b.breaking = none := hmb.1
      have hrestp : ∀ k, k ∈ pendAll rest → k < code.size := fun k hk => hp k (mem_pendAll_cons.2 (Or.inr hk))
      -- recursion through a non-target block
      have pass : tgtB l isBreak b = false → ∀ (code1 : Array Instr) (ex' : List Instr),
          (∀ k, k ∈ pendAll rest → k < code1.size) → findBrk l isBreak ctx = some (ex', tgt) →
          ∃ t, t < (b :: rest).length ∧ findBreakBlock l isBreak (b :: rest) = some t ∧ rest.length ≠ t ∧
            True ∧ findBreakBlock l isBreak rest = some t ∧
            BranchOK ctx rest code1 ex' tgt (branchF t isBreak (!isBreak && typAtHeight t (b :: rest) == some BT.loop) rest code1) := by
        intro htb code1 ex' hp1 hf'
        obtain ⟨t, ht, hfb, _, hok⟩ := ih ctx code1 ex' tgt hmr hp1 hf'
        have hne : rest.length ≠ t := by omega
        have hcf : (!isBreak && typAtHeight t (b :: rest) == some BT.loop) = (!isBreak && typAtHeight t rest == some BT.loop) := by
          simp only [typAtHeight, hne, if_false]
        refine ⟨t, by simp; omega, ?_, hne, trivial, hfb, by rw [hcf]; exact hok⟩
        rw [fbb_cons l isBreak b rest hbk, htb]; simpa using hfb
      cases c with
      | loop lab bp cp =>
        obtain ⟨_, hty, hlab⟩ := hmb
        have htb : tgtB l isBreak b = labMatch l lab := by
          cases l with
          | none => simp [tgtB, labMatch, hty]
          | some x => simp [tgtB, labMatch, hlab]
        simp only [findBrk] at hf
        by_cases hlm : labMatch l lab = true
        · simp only [hlm, if_true, Option.some.injEq, Prod.mk.injEq] at hf
          obtain ⟨hex, htg⟩ := hf
          subst hex
          refine ⟨rest.length, by simp, ?_, trivial, ?_⟩
          · rw [fbb_cons l isBreak b rest hbk, htb, hlm]; rfl
          · rw [branchF_here]
            exact BranchOK.here (c := BI.loop lab bp cp) ⟨hbk, hty, hlab⟩ hmr hp htg.symm
        · have hlm' : labMatch l lab = false := by simpa using hlm
          simp only [hlm', Bool.false_eq_true, if_false] at hf
          obtain ⟨t, ht, hfb, hne, htyp, _, hok⟩ := pass (by rw [htb, hlm']) code ex hrestp hf
          refine ⟨t, ht, hfb, htyp, ?_⟩
          rw [branchF_cons t isBreak (!isBreak && typAtHeight t (b :: rest) == some BT.loop) b rest code hne (fun h => by simp [hty] at h)]
          have hs : stepB b code = (b, code) := by simp [stepB, hty]
          rw [hs]
          exact BranchOK.lift0 (c := BI.loop lab bp cp) ⟨hbk, hty, hlab⟩ hp hok
      | label y bp =>
        obtain ⟨_, hty, hlab, hco⟩ := hmb
        simp only [findBrk] at hf
        by_cases hly : l = some y
        · subst hly
          simp only [beq_self_eq_true, if_true] at hf
          cases hib : isBreak with
          | false => simp [hib] at hf
          | true =>
            simp only [hib, if_true, Option.some.injEq, Prod.mk.injEq] at hf
            obtain ⟨hex, htg⟩ := hf
            subst hex
            refine ⟨rest.length, by simp, ?_, trivial, ?_⟩
            · rw [fbb_cons (some y) true b rest hbk]; simp [tgtB, hlab]
            · rw [branchF_here]
              exact BranchOK.here (c := BI.label y bp) ⟨hbk, hty, hlab, hco⟩ hmr hp ⟨rfl, htg.symm⟩
        · have hne' : (l == some y) = false := by simpa using hly
          simp only [hne', Bool.false_eq_true, if_false] at hf
          have htb : tgtB l isBreak b = false := by
            cases l with
            | none => simp [tgtB, hty]
            | some x =>
              have : ¬ (y = x) := fun h => hly (by rw [h])
              simp [tgtB, hlab, this]
          obtain ⟨t, ht, hfb, hne, htyp, _, hok⟩ := pass htb code ex hrestp hf
          refine ⟨t, ht, hfb, htyp, ?_⟩
          rw [branchF_cons t isBreak (!isBreak && typAtHeight t (b :: rest) == some BT.loop) b rest code hne (fun h => by simp [hty] at h)]
          have hs : stepB b code = (b, code) := by simp [stepB, hty]
          rw [hs]
          exact BranchOK.lift0 (c := BI.label y bp) ⟨hbk, hty, hlab, hco⟩ hp hok
      | try_ =>
        obtain ⟨_, hty, hlab, hbr, hco⟩ := hmb
        simp only [findBrk] at hf
        cases hfr : findBrk l isBreak ctx with
        | none => simp [hfr] at hf
        | some pr =>
          obtain ⟨ex', t'⟩ := pr
          simp only [hfr, Option.some.injEq, Prod.mk.injEq] at hf
          obtain ⟨hex, htg⟩ := hf
          subst hex; subst htg
          have htb : tgtB l isBreak b = false := by
            cases l <;> simp [tgtB, hty, hlab]
          obtain ⟨t, ht, hfb, hne, htyp, _, hok⟩ := pass htb (code.push Instr.leaveTry) ex'
            (fun k hk => by simp; exact Nat.lt_succ_of_lt (hrestp k hk)) hfr
          refine ⟨t, ht, hfb, htyp, ?_⟩
          rw [branchF_cons t isBreak (!isBreak && typAtHeight t (b :: rest) == some BT.loop) b rest code hne (fun h => by simp [hty] at h)]
          have hs : stepB b code = (b, code.push Instr.leaveTry) := by simp [stepB, hty]
          rw [hs]
          exact BranchOK.lift1 (c := BI.try_) (b' := b) (i1 := Instr.leaveTry) ⟨hbk, hty, hlab, hbr, hco⟩
            ⟨hbk, hty, hlab, hbr, hco⟩ hp (fun k => by simp [resolveHere]) (fun _ _ => rfl) (by simp [resolveHere]) rfl hok
      | with_ =>
        obtain ⟨_, hty, hlab, hbr, hco⟩ := hmb
        simp only [findBrk] at hf
        cases hfr : findBrk l isBreak ctx with
        | none => simp [hfr] at hf
        | some pr =>
          obtain ⟨ex', t'⟩ := pr
          simp only [hfr, Option.some.injEq, Prod.mk.injEq] at hf
          obtain ⟨hex, htg⟩ := hf
          subst hex; subst htg
          have htb : tgtB l isBreak b = false := by
            cases l <;> simp [tgtB, hty, hlab]
          obtain ⟨t, ht, hfb, hne, htyp, _, hok⟩ := pass htb (code.push Instr.leaveWith) ex'
            (fun k hk => by simp; exact Nat.lt_succ_of_lt (hrestp k hk)) hfr
          refine ⟨t, ht, hfb, htyp, ?_⟩
          rw [branchF_cons t isBreak (!isBreak && typAtHeight t (b :: rest) == some BT.loop) b rest code hne (fun h => by simp [hty] at h)]
          have hs : stepB b code = (b, code.push Instr.leaveWith) := by simp [stepB, hty]
          rw [hs]
          exact BranchOK.lift1 (c := BI.with_) (b' := b) (i1 := Instr.leaveWith) ⟨hbk, hty, hlab, hbr, hco⟩
            ⟨hbk, hty, hlab, hbr, hco⟩ hp (fun k => by simp [resolveHere]) (fun _ _ => rfl) (by simp [resolveHere]) rfl hok
      | scope n =>
        obtain ⟨_, hty, hlab, hco⟩ := hmb
        simp only [findBrk] at hf
        cases hfr : findBrk l isBreak ctx with
        | none => simp [hfr] at hf
        | some pr =>
          obtain ⟨ex', t'⟩ := pr
          simp only [hfr, Option.some.injEq, Prod.mk.injEq] at hf
          obtain ⟨hex, htg⟩ := hf
          subst hex; subst htg
          have htb : tgtB l isBreak b = false := by
            cases l <;> simp [tgtB, hty, hlab]
          obtain ⟨t, ht, hfb, hne, htyp, _, hok⟩ := pass htb (code.push Instr.nop) ex'
            (fun k hk => by simp; exact Nat.lt_succ_of_lt (hrestp k hk)) hfr
          refine ⟨t, ht, hfb, htyp, ?_⟩
          rw [branchF_cons t isBreak (!isBreak && typAtHeight t (b :: rest) == some BT.loop) b rest code hne (fun h => by simp [hty] at h)]
          have hs : stepB b code = ({ b with breaks := b.breaks ++ [code.size] }, code.push Instr.nop) := by
            simp [stepB, hty]
          rw [hs]
          have hnb : code.size ∉ b.breaks := fun h =>
            Nat.lt_irrefl _ (hp _ (mem_pendAll_cons.2 (Or.inl (List.mem_append_left _ h))))
          exact BranchOK.lift1 (c := BI.scope n) (b' := { b with breaks := b.breaks ++ [code.size] }) (i1 := Instr.nop)
            ⟨hbk, hty, hlab, hco⟩ ⟨hbk, hty, hlab, hco⟩ hp
            (fun k => by
              simp only [resolveHere, List.mem_append, List.mem_singleton, or_true, if_true, hco, List.append_nil,
                List.not_mem_nil, or_false]
              constructor
              · rintro (h | h)
                · exact Or.inl h
                · exact Or.inr ⟨h, by simp⟩
              · rintro (h | h)
                · exact Or.inl h
                · exact Or.inr h.1)
            (fun k hk => by simp [resolveHere, hk])
            (by simp [resolveHere]) rfl hok

      | forof lab bp cp =>
        obtain ⟨_, hty, hlab⟩ := hmb
        have htb : tgtB l isBreak b = labMatch l lab := by
          cases l with
          | none => simp [tgtB, labMatch, hty]
          | some x => simp [tgtB, labMatch, hlab]
        simp only [findBrk] at hf
        by_cases hlm : labMatch l lab = true
        · simp only [hlm, if_true, Option.some.injEq, Prod.mk.injEq] at hf
          obtain ⟨hex, htg⟩ := hf
          subst hex
          refine ⟨rest.length, by simp, ?_, trivial, ?_⟩
          · rw [fbb_cons l isBreak b rest hbk, htb, hlm]; rfl
          · rw [branchF_here]
            exact BranchOK.here (c := BI.forof lab bp cp) ⟨hbk, hty, hlab⟩ hmr hp htg.symm
        · have hlm' : labMatch l lab = false := by simpa using hlm
          simp only [hlm', Bool.false_eq_true, if_false] at hf
          cases hfr : findBrk l isBreak ctx with
          | none => simp [hfr] at hf
          | some pr =>
            obtain ⟨ex', t'⟩ := pr
            simp only [hfr, Option.some.injEq, Prod.mk.injEq] at hf
            obtain ⟨hex, htg⟩ := hf
            subst hex; subst htg
            obtain ⟨t, ht, hfb, hne, htyp, _, hok⟩ := pass (by rw [htb, hlm']) (code.push Instr.enumPopClose) ex'
              (fun k hk => by simp; exact Nat.lt_succ_of_lt (hrestp k hk)) hfr
            refine ⟨t, ht, hfb, htyp, ?_⟩
            rw [branchF_cons t isBreak (!isBreak && typAtHeight t (b :: rest) == some BT.loop) b rest code hne (fun h => by simp [hty] at h)]
            have hs : stepB b code = (b, code.push Instr.enumPopClose) := by simp [stepB, hty]
            rw [hs]
            exact BranchOK.lift1 (c := BI.forof lab bp cp) (b' := b) (i1 := Instr.enumPopClose) ⟨hbk, hty, hlab⟩
              ⟨hbk, hty, hlab⟩ hp (fun k => by
                have : resolveHere (BI.forof lab bp cp) b code.size = none := by
                  have h1 : code.size ∉ b.conts := fun h => Nat.lt_irrefl _ (hp _ (mem_pendAll_cons.2 (Or.inl (List.mem_append_right _ h))))
                  have h2 : code.size ∉ b.breaks := fun h => Nat.lt_irrefl _ (hp _ (mem_pendAll_cons.2 (Or.inl (List.mem_append_left _ h))))
                  simp [resolveHere, h1, h2]
                simp [this]) (fun _ _ => rfl) (by
                have h1 : code.size ∉ b.conts := fun h => Nat.lt_irrefl _ (hp _ (mem_pendAll_cons.2 (Or.inl (List.mem_append_right _ h))))
                have h2 : code.size ∉ b.breaks := fun h => Nat.lt_irrefl _ (hp _ (mem_pendAll_cons.2 (Or.inl (List.mem_append_left _ h))))
                simp [resolveHere, h1, h2]) rfl hok
      | switch_ bp =>
        obtain ⟨_, hty, hlab, hco⟩ := hmb
        simp only [findBrk] at hf
        by_cases hhit : (isBreak && l.isNone) = true
        · simp only [hhit, if_true, Option.some.injEq, Prod.mk.injEq] at hf
          obtain ⟨hex, htg⟩ := hf
          subst hex
          have hib : isBreak = true := by simp at hhit; exact hhit.1
          have hl : l = none := by simp at hhit; exact hhit.2
          subst hib; subst hl
          refine ⟨rest.length, by simp, ?_, trivial, ?_⟩
          · rw [fbb_cons none true b rest hbk]; simp [tgtB, hty]
          · rw [branchF_here]
            exact BranchOK.here (c := BI.switch_ bp) ⟨hbk, hty, hlab, hco⟩ hmr hp ⟨rfl, htg.symm⟩
        · have hhit' : (isBreak && l.isNone) = false := by
            cases h : (isBreak && l.isNone) with
            | false => rfl
            | true => exact absurd h hhit
          simp only [hhit', Bool.false_eq_true, if_false] at hf
          have htb : tgtB l isBreak b = false := by
            cases l with
            | none =>
              have : isBreak = false := by simpa using hhit'
              simp [tgtB, hty, this]
            | some x => simp [tgtB, hlab]
          obtain ⟨t, ht, hfb, hne, htyp, _, hok⟩ := pass htb code ex hrestp hf
          refine ⟨t, ht, hfb, htyp, ?_⟩
          rw [branchF_cons t isBreak (!isBreak && typAtHeight t (b :: rest) == some BT.loop) b rest code hne (fun h => by simp [hty] at h)]
          have hs : stepB b code = (b, code) := by simp [stepB, hty]
          rw [hs]
          exact BranchOK.lift0 (c := BI.switch_ bp) ⟨hbk, hty, hlab, hco⟩ hp hok
      | iscope =>
        obtain ⟨_, hty, hlab, hco⟩ := hmb
        simp only [findBrk] at hf
        cases hfr : findBrk l isBreak ctx with
        | none => simp [hfr] at hf
        | some pr =>
          obtain ⟨ex0, t0⟩ := pr
          simp only [hfr] at hf
          have htb : tgtB l isBreak b = false := by
            cases l <;> simp [tgtB, hty, hlab]
          by_cases hstop : (!isBreak && hitsHead l ctx) = true
          · -- `continue` of the loop that owns this per-iteration scope: the walk stops here
            simp only [hstop, if_true, Option.some.injEq, Prod.mk.injEq] at hf
            obtain ⟨hex, htg⟩ := hf
            subst hex; subst htg
            have hib : isBreak = false := by
              cases isBreak with
              | false => rfl
              | true => simp at hstop
            subst hib
            obtain ⟨t, ht, hfb, hne, htyp, hfbr, hok⟩ := pass htb code ex0 hrestp hfr
            have hlen : rest.length = t + 1 ∧ typAtHeight t (b :: rest) = some BT.loop := by
              cases ctx with
              | nil => simp [hitsHead] at hstop
              | cons c1 ctx1 =>
                cases rest with
                | nil => exact absurd hmr (by simp [Match])
                | cons lb r =>
                  cases c1 with
                  | loop lab bp cp =>
                    obtain ⟨hbk1, hty1, hlab1⟩ := hmr.1
                    have hlm : labMatch l lab = true := by simpa [hitsHead] using hstop
                    have htb1 : tgtB l false lb = true := by
                      cases l with
                      | none => simp [tgtB, hty1]
                      | some x => simpa [tgtB, labMatch, hlab1] using hlm
                    rw [fbb_cons l false lb r hbk1, htb1] at hfbr
                    simp only [if_true, Option.some.injEq] at hfbr
                    refine ⟨by simp [← hfbr], ?_⟩
                    have h1 : (lb :: r).length ≠ t := by simp [← hfbr]
                    simp only [typAtHeight, h1, if_false, hfbr, if_true, hty1]
                  | label _ _ => simp [hitsHead] at hstop
                  | try_ => simp [hitsHead] at hstop
                  | scope _ => simp [hitsHead] at hstop
                  | with_ => simp [hitsHead] at hstop
                  | iscope => simp [hitsHead] at hstop
                  | switch_ _ => simp [hitsHead] at hstop
                  | forof _ _ _ => simp [hitsHead] at hstop
            refine ⟨t, ht, hfb, htyp, ?_⟩
            have hcfl : (!false && typAtHeight t (b :: rest) == some BT.loop) = true := by simp [hlen.2]
            rw [hcfl, branchF_stop t false b rest code hty hlen.1]
            rw [hcfl] at hok
            exact BranchOK.lift0 (c := BI.iscope) ⟨hbk, hty, hlab, hco⟩ hp hok
          · -- every other branch leaves the scope (placeholder patched to leaveBlock by leaveScopeBlock)
            have hstop' : (!isBreak && hitsHead l ctx) = false := by simpa using hstop
            simp only [hstop', Bool.false_eq_true, if_false, Option.some.injEq, Prod.mk.injEq] at hf
            obtain ⟨hex, htg⟩ := hf
            subst hex; subst htg
            obtain ⟨t, ht, hfb, hne, htyp, hfbr, hok⟩ := pass htb (code.push Instr.nop) ex0
              (fun k hk => by simp; exact Nat.lt_succ_of_lt (hrestp k hk)) hfr
            have hns : ¬ (b.typ = BT.iterScope ∧ (!isBreak && typAtHeight t (b :: rest) == some BT.loop) = true ∧ rest.length = t + 1) := by
              rintro ⟨_, hcf, hlen⟩
              have hcf2 : isBreak = false ∧ typAtHeight t (b :: rest) = some BT.loop := by simpa using hcf
              obtain ⟨hib, htypL⟩ := hcf2
              subst hib
              have hhh : hitsHead l ctx = false := by simpa using hstop'
              cases rest with
              | nil => simp at hlen
              | cons lb r =>
                have hr : r.length = t := by simpa using hlen
                cases ctx with
                | nil => exact absurd hmr (by simp [Match])
                | cons c1 ctx1 =>
                  obtain ⟨hm1, hmr1⟩ := hmr
                  have hbk1 : lb.breaking = none := hm1.1
                  rw [fbb_cons l false lb r hbk1] at hfbr
                  by_cases htb1 : tgtB l false lb = true
                  · cases c1 with
                    | loop lab bp cp =>
                      obtain ⟨_, hty1, hlab1⟩ := hm1
                      have hlm : labMatch l lab = true := by
                        cases l with
                        | none => simp [labMatch]
                        | some x => simpa [tgtB, labMatch, hlab1] using htb1
                      simp [hitsHead, hlm] at hhh
                    | label y bp =>
                      obtain ⟨_, hty1, hlab1, _⟩ := hm1
                      cases l with
                      | none => simp [tgtB, hty1] at htb1
                      | some x =>
                        have hxy : y = x := by simpa [tgtB, hlab1] using htb1
                        subst hxy
                        simp [findBrk] at hfr
                    | try_ => obtain ⟨_, hty1, hlab1, _⟩ := hm1; cases l <;> simp [tgtB, hty1, hlab1] at htb1
                    | scope n => obtain ⟨_, hty1, hlab1, _⟩ := hm1; cases l <;> simp [tgtB, hty1, hlab1] at htb1
                    | with_ => obtain ⟨_, hty1, hlab1, _⟩ := hm1; cases l <;> simp [tgtB, hty1, hlab1] at htb1
                    | iscope => obtain ⟨_, hty1, hlab1, _⟩ := hm1; cases l <;> simp [tgtB, hty1, hlab1] at htb1
                    | switch_ _ => obtain ⟨_, hty1, hlab1, _⟩ := hm1; cases l <;> simp [tgtB, hty1, hlab1] at htb1
                    | forof lab bp cp =>
                      obtain ⟨_, hty1, _⟩ := hm1
                      have h1 : (lb :: r).length ≠ t := by simp; omega
                      simp [typAtHeight, h1, hr, hty1] at htypL
                  · simp only [htb1, Bool.false_eq_true, if_false] at hfbr
                    have := fbb_lt l false r ctx1 hmr1 hfbr
                    omega
            refine ⟨t, ht, hfb, htyp, ?_⟩
            rw [branchF_cons t isBreak (!isBreak && typAtHeight t (b :: rest) == some BT.loop) b rest code hne hns]
            have hs : stepB b code = ({ b with breaks := b.breaks ++ [code.size] }, code.push Instr.nop) := by
              simp [stepB, hty]
            rw [hs]
            have hnb : code.size ∉ b.breaks := fun h =>
              Nat.lt_irrefl _ (hp _ (mem_pendAll_cons.2 (Or.inl (List.mem_append_left _ h))))
            exact BranchOK.lift1 (c := BI.iscope) (b' := { b with breaks := b.breaks ++ [code.size] }) (i1 := Instr.nop)
              ⟨hbk, hty, hlab, hco⟩ ⟨hbk, hty, hlab, hco⟩ hp
              (fun k => by
                simp only [resolveHere, List.mem_append, List.mem_singleton, or_true, if_true, hco, List.append_nil,
                  List.not_mem_nil, or_false]
                constructor
                · rintro (h | h)
                  · exact Or.inl h
                  · exact Or.inr ⟨h, by simp⟩
                · rintro (h | h)
                  · exact Or.inl h
                  · exact Or.inr h.1)
              (fun k hk => by simp [resolveHere, hk])
              (by simp [resolveHere]) rfl hok

theorem RL_getElem? (ctx : List BI) (cs : CS) (k : Nat) :
    (RL ctx cs)[k]? = if k < cs.code.size then some (vw ctx cs.blocks cs.code k) else none := by
  simp only [RL, vw, List.getElem?_map]
  by_cases hk : k < cs.code.size
  · simp [hk, List.getElem?_range hk]
  · simp [hk]

/-- compiler_stmt.go:649/655 compileBreak / compileContinue on the resolved listing -/
theorem RL_branch {ctx : List BI} {cs : CS} (l : Option Label) (isBreak : Bool) {ex : List Instr} {tgt : Nat}
    (hi : Inv ctx cs) (hf : findBrk l isBreak ctx = some (ex, tgt)) :
    RL ctx (compileBranch l isBreak cs) = RL ctx cs ++ ex ++ [Instr.jump (CS.rel tgt (cs.code.size + ex.length))] ∧
    Inv ctx (compileBranch l isBreak cs) ∧
    (∀ k, k ∈ pendAll (compileBranch l isBreak cs).blocks → k ∈ pendAll cs.blocks ∨ cs.code.size ≤ k) ∧
    (compileBranch l isBreak cs).blocks.map Block.cont = cs.blocks.map Block.cont := by
  obtain ⟨t', _, hfb, _, hok⟩ := branch_walk l isBreak cs.blocks ctx cs.code ex tgt hi.m hi.p hf
  rw [compileBranch_eq, hfb]
  simp only
  generalize branchF t' isBreak (!isBreak && typAtHeight t' cs.blocks == some BT.loop) cs.blocks cs.code = F at hok
  refine ⟨?_, ⟨hok.m, hok.lt⟩, hok.new, hok.conts⟩
  apply List.ext_getElem?
  intro k
  rw [RL_getElem?]
  by_cases h1 : k < cs.code.size
  · have hk : k < F.code.size := by rw [hok.size]; omega
    obtain ⟨ho1, ho2⟩ := hok.old k h1
    have : (RL ctx cs ++ ex ++ [Instr.jump (CS.rel tgt (cs.code.size + ex.length))])[k]? = (RL ctx cs)[k]? := by
      rw [List.append_assoc, List.getElem?_append_left (by rw [RL_length]; exact h1)]
    rw [this, RL_getElem?]
    simp only [hk, h1, if_true, vw, ho1, ho2]
  · have h1' : cs.code.size ≤ k := Nat.le_of_not_lt h1
    by_cases h2 : k < cs.code.size + ex.length
    · have hk : k < F.code.size := by rw [hok.size]; omega
      have hj := hok.exs (k - cs.code.size) (by omega)
      have e : cs.code.size + (k - cs.code.size) = k := by omega
      rw [e] at hj
      simp only [hk, if_true, hj]
      rw [List.append_assoc, List.getElem?_append_right (by rw [RL_length]; exact h1'), RL_length,
        List.getElem?_append_left (by omega)]
      have : (k - cs.code.size) < ex.length := by omega
      simp [List.getElem?_eq_getElem this]
    · by_cases h3 : k = cs.code.size + ex.length
      · have hk : k < F.code.size := by rw [hok.size]; omega
        have hj := hok.jmp
        rw [← h3] at hj
        simp only [hk, if_true, hj]
        rw [List.getElem?_append_right (by simp [RL_length]; omega)]
        simp [RL_length, h3]
      · have hk : ¬ k < F.code.size := by rw [hok.size]; omega
        simp only [hk, if_false]
        symm
        apply List.getElem?_eq_none
        simp [RL_length]; omega

/-! ### relating two compiler states -/

/-- `cs'` was obtained from `cs` by emitting (the resolved form of) `G`, in the same block context -/
structure EqR (ctx : List BI) (cs cs' : CS) (G : List Instr) : Prop where
  rl : RL ctx cs' = RL ctx cs ++ G
  inv : Inv ctx cs'
  new : ∀ k, k ∈ pendAll cs'.blocks → k ∈ pendAll cs.blocks ∨ cs.code.size ≤ k
  conts : cs'.blocks.map Block.cont = cs.blocks.map Block.cont

theorem EqR.size {ctx : List BI} {cs cs' : CS} {G : List Instr} (h : EqR ctx cs cs' G) :
    cs'.code.size = cs.code.size + G.length := by
  have := congrArg List.length h.rl
  simpa [RL_length] using this

theorem EqR.congrG {ctx : List BI} {cs cs' : CS} {G G' : List Instr} (h : EqR ctx cs cs' G) (e : G = G') :
    EqR ctx cs cs' G' := e ▸ h

theorem EqR.refl {ctx : List BI} {cs : CS} (hi : Inv ctx cs) : EqR ctx cs cs [] :=
  ⟨by simp, hi, fun _ hk => Or.inl hk, rfl⟩

theorem EqR.trans {ctx : List BI} {a b c : CS} {G1 G2 : List Instr} (h1 : EqR ctx a b G1) (h2 : EqR ctx b c G2) :
    EqR ctx a c (G1 ++ G2) := by
  refine ⟨by rw [h2.rl, h1.rl, List.append_assoc], h2.inv, ?_, by rw [h2.conts, h1.conts]⟩
  intro k hk
  rcases h2.new k hk with h | h
  · exact h1.new k h
  · exact Or.inr (by have := h1.size; omega)

theorem EqR.emit {ctx : List BI} {cs : CS} (hi : Inv ctx cs) (i : Instr) : EqR ctx cs (cs.emit i) [i] :=
  ⟨RL_emit hi i, Inv_emit hi i, fun _ hk => Or.inl hk, rfl⟩

theorem EqR.branch {ctx : List BI} {cs : CS} (l : Option Label) (isBreak : Bool) {ex : List Instr} {tgt : Nat}
    (hi : Inv ctx cs) (hf : findBrk l isBreak ctx = some (ex, tgt)) :
    EqR ctx cs (compileBranch l isBreak cs) (ex ++ [Instr.jump (CS.rel tgt (cs.code.size + ex.length))]) := by
  obtain ⟨h1, h2, h3, h4⟩ := RL_branch l isBreak hi hf
  exact ⟨by rw [h1, List.append_assoc], h2, h3, h4⟩

theorem EqR.snoc {ctx : List BI} {cs cs' : CS} {G : List Instr} (h : EqR ctx cs cs' G) (i : Instr) :
    EqR ctx cs (cs'.emit i) (G ++ [i]) := h.trans (EqR.emit h.inv i)

theorem set_mid (A B : List Instr) (x y : Instr) : (A ++ y :: B).set A.length x = A ++ x :: B := by
  induction A with
  | nil => rfl
  | cons a A ih => simp [List.set, ih]

/-- patching a placeholder that this statement emitted itself -/
theorem EqR.patch {ctx : List BI} {cs cs' : CS} {A B : List Instr} {y : Instr} (x : Instr) {q : Nat}
    (h : EqR ctx cs cs' (A ++ y :: B)) (hq : q = cs.code.size + A.length) (hfresh : q ∉ pendAll cs'.blocks) :
    EqR ctx cs (cs'.patch q x) (A ++ x :: B) := by
  refine ⟨?_, Inv_patch h.inv q x, h.new, h.conts⟩
  rw [RL_patch x hfresh, h.rl]
  have : RL ctx cs ++ (A ++ y :: B) = (RL ctx cs ++ A) ++ y :: B := by simp
  rw [this]
  have hl : q = (RL ctx cs ++ A).length := by simp [RL_length, hq]
  rw [hl, set_mid]
  simp

/-- inside one freshly pushed block `c` on top of `cs0` -/
structure InR (c : BI) (ctx : List BI) (cs0 cs2 : CS) (G : List Instr) : Prop where
  rl : RL (c :: ctx) cs2 = RL ctx cs0 ++ G
  inv : Inv (c :: ctx) cs2
  new : ∀ k, k ∈ pendAll cs2.blocks → k ∈ pendAll cs0.blocks ∨ cs0.code.size ≤ k
  ct : cs2.blocks.tail.map Block.cont = cs0.blocks.map Block.cont

theorem InR.size {c : BI} {ctx : List BI} {cs0 cs2 : CS} {G : List Instr} (h : InR c ctx cs0 cs2 G) :
    cs2.code.size = cs0.code.size + G.length := by
  have := congrArg List.length h.rl
  simpa [RL_length] using this

theorem InR.push {c : BI} {ctx : List BI} {cs0 : CS} {b0 : Block} (hi : Inv ctx cs0) (hm : MatchB c b0)
    (hbr : b0.breaks = []) (hco : b0.conts = []) : InR c ctx cs0 (cs0.push b0) [] := by
  refine ⟨by rw [RL_push hbr hco]; simp, Inv_push hi hm hbr hco, ?_, rfl⟩
  intro k hk
  left
  simpa [CS.push, pendAll, List.flatMap_cons, hbr, hco] using hk

theorem InR.step {c : BI} {ctx : List BI} {cs0 cs1 cs2 : CS} {G G' : List Instr} (h : InR c ctx cs0 cs1 G)
    (h' : EqR (c :: ctx) cs1 cs2 G') : InR c ctx cs0 cs2 (G ++ G') := by
  refine ⟨by rw [h'.rl, h.rl, List.append_assoc], h'.inv, ?_, ?_⟩
  · intro k hk
    rcases h'.new k hk with hh | hh
    · exact h.new k hh
    · exact Or.inr (by have := h.size; omega)
  · have := congrArg List.tail h'.conts
    simp only [← List.map_tail] at this
    rw [this, h.ct]

theorem InR.modTop_cont {c : BI} {ctx : List BI} {cs0 cs1 : CS} {G : List Instr} (h : InR c ctx cs0 cs1 G) (n : Nat) :
    InR c ctx cs0 (cs1.modTop (fun b => { b with cont := n })) G := by
  refine ⟨by rw [RL_modTop_cont, h.rl], Inv_modTop_cont h.inv n, ?_, ?_⟩
  · intro k hk
    apply h.new k
    cases hb : cs1.blocks with
    | nil => simpa [CS.modTop, hb] using hk
    | cons b r => simpa [CS.modTop, hb, pendAll, List.flatMap_cons] using hk
  · cases hb : cs1.blocks with
    | nil => simpa [CS.modTop, hb] using h.ct
    | cons b r =>
      have := h.ct
      rw [hb] at this
      simpa [CS.modTop, hb] using this

/-- `for (let …;;)`: the continue target of the LOOP block (second from the top, below its per-iteration scope)
is set after the body has been compiled -/
theorem InR.modSecond {c c1 : BI} {ctx : List BI} {cs0 cs1 : CS} {G : List Instr} (h : InR c (c1 :: ctx) cs0 cs1 G) (n : Nat)
    {sb lb : Block} {r : List Block} (hb : cs1.blocks = sb :: lb :: r) :
    InR c (c1 :: ctx) (cs0.modTop (fun b => { b with cont := n }))
      { cs1 with blocks := sb :: { lb with cont := n } :: r } G := by
  have hres : ∀ k, resolveHere c1 { lb with cont := n } k = resolveHere c1 lb k := by
    intro k; cases c1 <;> rfl
  have hpa : pendAll (sb :: { lb with cont := n } :: r) = pendAll cs1.blocks := by
    rw [hb]; simp [pendAll, List.flatMap_cons]
  have hpa0 : pendAll (cs0.modTop (fun b => { b with cont := n })).blocks = pendAll cs0.blocks := by
    cases hb0 : cs0.blocks with
    | nil => simp [CS.modTop, hb0]
    | cons b r => simp [CS.modTop, hb0, pendAll, List.flatMap_cons]
  have hsz0 : (cs0.modTop (fun b => { b with cont := n })).code.size = cs0.code.size := by
    simp only [CS.modTop]; split <;> rfl
  have hm := h.inv.m
  rw [hb] at hm
  obtain ⟨hm0, hm1, hm2⟩ := hm
  refine ⟨?_, ⟨⟨hm0, ?_, hm2⟩, fun k hk => h.inv.p k (by rw [← hpa]; exact hk)⟩, ?_, ?_⟩
  · rw [RL_modTop_cont, ← h.rl]
    apply RL_ext (ctx := c :: c1 :: ctx) (ctx' := c :: c1 :: ctx) (cs := cs1)
      (cs' := { cs1 with blocks := sb :: { lb with cont := n } :: r }) rfl
    intro k _
    simp only [hb, pend, hres]
  · obtain ⟨h1, h2⟩ := hm1
    refine ⟨h1, ?_⟩
    cases c1 <;> exact h2
  · intro k hk
    rw [hpa0, hsz0]
    exact h.new k (by rw [← hpa]; exact hk)
  · have hct := h.ct
    rw [hb] at hct
    cases hb0 : cs0.blocks with
    | nil => rw [hb0] at hct; simp at hct
    | cons b0 r0 =>
      rw [hb0] at hct
      simp only [List.tail_cons, List.map_cons, List.cons.injEq] at hct
      simp [CS.modTop, hb0, hct.2]

theorem InR.patch {c : BI} {ctx : List BI} {cs0 cs2 : CS} {A B : List Instr} {y : Instr} (x : Instr) {q : Nat}
    (h : InR c ctx cs0 cs2 (A ++ y :: B)) (hq : q = cs0.code.size + A.length) (hfresh : q ∉ pendAll cs2.blocks) :
    InR c ctx cs0 (cs2.patch q x) (A ++ x :: B) := by
  refine ⟨?_, Inv_patch h.inv q x, h.new, h.ct⟩
  rw [RL_patch x hfresh, h.rl]
  have : RL ctx cs0 ++ (A ++ y :: B) = (RL ctx cs0 ++ A) ++ y :: B := by simp
  rw [this]
  have hl : q = (RL ctx cs0 ++ A).length := by simp [RL_length, hq]
  rw [hl, set_mid]
  simp

theorem match_cons {c : BI} {ctx : List BI} {bs : List Block} (h : Match (c :: ctx) bs) :
    ∃ b r, bs = b :: r ∧ MatchB c b ∧ Match ctx r := by
  cases bs with
  | nil => exact absurd h (by simp [Match])
  | cons b r => exact ⟨b, r, rfl, h.1, h.2⟩

/-- leaving the pushed block (loop / label / try / with) -/
theorem InR.leave {c : BI} {ctx : List BI} {cs0 cs2 : CS} {G : List Instr} (h : InR c ctx cs0 cs2 G)
    (hc : ∀ b r, cs2.blocks = b :: r → LeaveOK c cs2.code.size b) :
    EqR ctx cs0 cs2.leaveBlock G := by
  obtain ⟨b, r, hb, hmb, _⟩ := match_cons h.inv.m
  have hbl : cs2.leaveBlock.blocks = r := by simp [CS.leaveBlock, hb]
  refine ⟨by rw [RL_leaveBlock hb hmb (hc b r hb), h.rl], Inv_leaveBlock hb h.inv, ?_, ?_⟩
  · intro k hk
    rw [hbl] at hk
    exact h.new k (by rw [hb]; exact pendAll_tail hk)
  · rw [hbl]
    have := h.ct
    rw [hb] at this
    simpa using this

/-- leaving a pushed scope block with leaveScopeBlock -/
theorem InR.leaveScope {ctx : List BI} {cs0 cs2 : CS} {G : List Instr} {n : Nat} (h : InR (BI.scope n) ctx cs0 cs2 G) :
    EqR ctx cs0 (cs2.leaveScopeBlock n) (G ++ [Instr.leaveBlock n]) := by
  obtain ⟨b, r, hb, hmb, _⟩ := match_cons h.inv.m
  obtain ⟨h1, h2⟩ := RL_leaveScopeBlock hb h.inv
  have hbl : (cs2.leaveScopeBlock n).blocks = r := by
    simp [CS.leaveScopeBlock, CS.emit, hb, CS.leaveBlock]
  refine ⟨by rw [h1, h.rl, List.append_assoc], h2, ?_, ?_⟩
  · intro k hk
    rw [hbl] at hk
    exact h.new k (by rw [hb]; exact pendAll_tail hk)
  · rw [hbl]
    have := h.ct
    rw [hb] at this
    simpa using this

theorem InR.leaveScopeI {ctx : List BI} {cs0 cs2 : CS} {G : List Instr} (h : InR BI.iscope ctx cs0 cs2 G) :
    EqR ctx cs0 (cs2.leaveScopeBlock 1) (G ++ [Instr.leaveBlock 1]) := by
  obtain ⟨b, r, hb, hmb, _⟩ := match_cons h.inv.m
  obtain ⟨h1, h2⟩ := RL_leaveScopeBlockI hb h.inv
  have hbl : (cs2.leaveScopeBlock 1).blocks = r := by
    simp [CS.leaveScopeBlock, CS.emit, hb, CS.leaveBlock]
  refine ⟨by rw [h1, h.rl, List.append_assoc], h2, ?_, ?_⟩
  · intro k hk
    rw [hbl] at hk
    exact h.new k (by rw [hb]; exact pendAll_tail hk)
  · rw [hbl]
    have := h.ct
    rw [hb] at this
    simpa using this

theorem EqR.emits {ctx : List BI} {cs : CS} (hi : Inv ctx cs) (L : List Instr) :
    EqR ctx cs { cs with code := L.foldl Array.push cs.code } L := by
  induction L generalizing cs with
  | nil => exact EqR.refl hi
  | cons i L ih =>
    have h1 := EqR.emit hi i
    have h2 := ih (cs := cs.emit i) h1.inv
    have := h1.trans h2
    simpa [CS.emit] using this

theorem returnExits_eq {ctx : List BI} {blocks : List Block} (hm : Match ctx blocks) (code : Array Instr) :
    returnExits blocks code = (retExitsS ctx).foldl Array.push code := by
  induction blocks generalizing ctx code with
  | nil =>
    cases ctx with
    | nil => rfl
    | cons c ctx => exact absurd hm (by simp [Match])
  | cons b rest ih =>
    cases ctx with
    | nil => exact absurd hm (by simp [Match])
    | cons c ctx =>
      obtain ⟨⟨_, hmb⟩, hmr⟩ := hm
      cases c with
      | try_ =>
        have ht : b.typ = BT.try_ := hmb.1
        simp only [returnExits, ht, retExitsS, List.foldl_append, List.foldl_cons, List.foldl_nil]
        exact ih hmr _
      | loop lab bp cp =>
        have ht : b.typ = BT.loop := hmb.1
        simp only [returnExits, ht, retExitsS]
        exact ih hmr _
      | label y bp =>
        have ht : b.typ = BT.label := hmb.1
        simp only [returnExits, ht, retExitsS]
        exact ih hmr _
      | scope n =>
        have ht : b.typ = BT.scope := hmb.1
        simp only [returnExits, ht, retExitsS]
        exact ih hmr _
      | with_ =>
        have ht : b.typ = BT.with_ := hmb.1
        simp only [returnExits, ht, retExitsS]
        exact ih hmr _
      | iscope =>
        have ht : b.typ = BT.iterScope := hmb.1
        simp only [returnExits, ht, retExitsS]
        exact ih hmr _
      | switch_ bp =>
        have ht : b.typ = BT.switch_ := hmb.1
        simp only [returnExits, ht, retExitsS]
        exact ih hmr _
      | forof lab bp cp =>
        have ht : b.typ = BT.loopEnum := hmb.1
        simp only [returnExits, ht, retExitsS, List.foldl_cons]
        exact ih hmr _

theorem compileCF_lbl_generic (cur : Nat) (lab : Option Label) (l : Label) (s : Stmt) (cs : CS) (h : isLoop s = false) :
    compileCF cur lab (Stmt.lbl l s) cs =
      (compileCF cur none s (cs.push { typ := BT.label, label := some l })).leaveBlock := by
  cases s <;> first | rfl | (simp [isLoop] at h; done)

theorem compileCF_lbl_loop (cur : Nat) (lab : Option Label) (l : Label) (s : Stmt) (cs : CS) (h : isLoop s = true) :
    compileCF cur lab (Stmt.lbl l s) cs = compileCF cur (some l) s cs := by
  cases s <;> first | rfl | (simp [isLoop] at h; done)

theorem fresh_of_new {bs0 bs : List Block} {n q : Nat} (h0 : ∀ k, k ∈ pendAll bs0 → k < q) (hn : q < n)
    (hnew : ∀ k, k ∈ pendAll bs → k ∈ pendAll bs0 ∨ n ≤ k) : q ∉ pendAll bs := by
  intro hq
  rcases hnew q hq with h | h
  · exact Nat.lt_irrefl _ (h0 q h)
  · omega

/-- induction hypothesis of `cf_eq` for one statement -/
def CfEq (s : Stmt) : Prop :=
  ∀ (cur : Nat) (lab : Option Label) (ctx : List BI) (cs : CS),
    stage1 s = true → (isLoop s = false → lab = none) → Inv ctx cs →
    Instr.nop ∉ gen s cur lab ctx cs.code.size →
    EqR ctx cs (compileCF cur lab s cs) (gen s cur lab ctx cs.code.size)

/-- the catch clause of compileTryStatement (compiler_stmt.go:131-185), in the context of the try block -/
theorem catchPartEq {c : Stmt} (ihc : CfEq c) (cur i : Nat) {ctx' : List BI} {cs4 : CS} (hi : Inv ctx' cs4)
    (hst : stage1 c = true)
    (hnop : Instr.nop ∉ gen c cur none (BI.scope 1 :: ctx') (cs4.code.size + 3)) :
    EqR ctx' cs4
      (((compileCF cur none c ((((cs4.emit Instr.nop).push { typ := BT.scope }).emit (Instr.enterBlock 0)).emit
          (Instr.catchLog i))).leaveScopeBlock 1).patch cs4.size
        (Instr.jump (CS.rel ((compileCF cur none c ((((cs4.emit Instr.nop).push { typ := BT.scope }).emit (Instr.enterBlock 0)).emit
          (Instr.catchLog i))).leaveScopeBlock 1).size cs4.size)))
      ([Instr.jump (Int.ofNat (3 + glen c none (BS.scope :: ctx'.map BI.shape) + 1)), Instr.enterBlock 0, Instr.catchLog i] ++
        gen c cur none (BI.scope 1 :: ctx') (cs4.code.size + 3) ++ [Instr.leaveBlock 1]) := by
  let cs5 := cs4.emit Instr.nop
  have e_d : EqR ctx' cs4 cs5 [Instr.nop] := EqR.emit hi _
  have hs5 : cs5.code.size = cs4.code.size + 1 := by simp [cs5, CS.emit]
  have Q0 := InR.push (c := BI.scope 1) (b0 := { typ := BT.scope }) e_d.inv ⟨rfl, rfl, rfl, rfl⟩ rfl rfl
  have Q1 := Q0.step (EqR.emit Q0.inv (Instr.enterBlock 0))
  have Q2 := Q1.step (EqR.emit Q1.inv (Instr.catchLog i))
  have hs7 : ((((cs4.emit Instr.nop).push { typ := BT.scope }).emit (Instr.enterBlock 0)).emit (Instr.catchLog i)).code.size
      = cs4.code.size + 3 := by simp [CS.emit, CS.push]
  have A := ihc cur none (BI.scope 1 :: ctx') _ hst (fun _ => rfl) Q2.inv (by rw [hs7]; exact hnop)
  rw [hs7] at A
  have Q3 := Q2.step A
  have e_e := Q3.leaveScope
  have e_de := e_d.trans e_e
  let cs9 := (compileCF cur none c ((((cs4.emit Instr.nop).push { typ := BT.scope }).emit (Instr.enterBlock 0)).emit
          (Instr.catchLog i))).leaveScopeBlock 1
  have hfresh : cs4.code.size ∉ pendAll cs9.blocks := by
    apply fresh_of_new (bs0 := cs5.blocks) (n := cs4.code.size + 1)
    · intro k hk; exact hi.p k (by simpa [cs5, CS.emit] using hk)
    · omega
    · intro k hk
      rcases e_e.new k hk with h | h
      · exact Or.inl h
      · exact Or.inr (by rw [hs5] at h; exact h)
  have P := EqR.patch (A := []) (y := Instr.nop) (Instr.jump (CS.rel cs9.size cs4.size)) (q := cs4.size)
    (by simpa using e_de) (by simp [CS.size]) hfresh
  have hs9 : cs9.size = cs4.code.size + (3 + glen c none (BS.scope :: ctx'.map BI.shape) + 1) := by
    show cs9.code.size = _
    rw [e_de.size]
    simp [gen_length, BI.shape]; omega
  have hj : CS.rel cs9.size cs4.size = Int.ofNat (3 + glen c none (BS.scope :: ctx'.map BI.shape) + 1) := by
    rw [hs9]; simp [CS.rel, CS.size]; omega
  rw [hj] at P
  have hj2 : CS.rel ((compileCF cur none c ((((cs4.emit Instr.nop).push { typ := BT.scope }).emit (Instr.enterBlock 0)).emit
          (Instr.catchLog i))).leaveScopeBlock 1).size cs4.size = Int.ofNat (3 + glen c none (BS.scope :: ctx'.map BI.shape) + 1) := hj
  rw [hj2]
  simpa using P

/-- `{ b with breaking := none }` on a block stack that matches a context is the identity -/
theorem modTop_breaking_none {ctx : List BI} {cs : CS} (hi : Inv ctx cs) :
    cs.modTop (fun blk => { blk with breaking := none }) = cs := by
  cases hb : cs.blocks with
  | nil => simp [CS.modTop, hb]
  | cons b r =>
    have hm := hi.m
    rw [hb] at hm
    cases ctx with
    | nil => exact absurd hm (by simp [Match])
    | cons c ctx =>
      have hbk : b.breaking = none := hm.1.1
      have : ({ b with breaking := none } : Block) = b := by cases b; simp_all
      cases cs
      simp_all [CS.modTop]

/-- the finally block of compileTryStatement (compiler_stmt.go:187-200), in the context of the try block -/
theorem finPartEq {f : Stmt} (ihf : CfEq f) (cur i : Nat) {ctx' : List BI} {cs : CS} (hi : Inv ctx' cs)
    (hst : stage1 f = true)
    (hnop : Instr.nop ∉ gen f cur none ctx' (cs.code.size + 2)) :
    EqR ctx' cs
      ((compileCF cur none f (((cs.emit Instr.enterFinally).emit (Instr.emit (Ev.finE i))).modTop
          (fun blk => { blk with breaking := none }))).emit Instr.leaveFinally)
      ([Instr.enterFinally, Instr.emit (Ev.finE i)] ++ gen f cur none ctx' (cs.code.size + 2) ++ [Instr.leaveFinally]) := by
  have e1 := (EqR.emit hi Instr.enterFinally).trans (EqR.emit (Inv_emit hi _) (Instr.emit (Ev.finE i)))
  rw [modTop_breaking_none e1.inv]
  have hs : ((cs.emit Instr.enterFinally).emit (Instr.emit (Ev.finE i))).code.size = cs.code.size + 2 := by simp [CS.emit]
  have A := ihf cur none ctx' _ hst (fun _ => rfl) e1.inv (by rw [hs]; exact hnop)
  rw [hs] at A
  have := (e1.trans A).trans (EqR.emit A.inv Instr.leaveFinally)
  simpa using this

/-- `compileCF` = `gen` on the resolved listing: the main induction -/
theorem cf_eq (s : Stmt) : ∀ (cur : Nat) (lab : Option Label) (ctx : List BI) (cs : CS),
    stage1 s = true → (isLoop s = false → lab = none) → Inv ctx cs →
    Instr.nop ∉ gen s cur lab ctx cs.code.size →
    EqR ctx cs (compileCF cur lab s cs) (gen s cur lab ctx cs.code.size) := by
  induction s with
  | skip => intro cur lab ctx cs _ _ hi _; exact EqR.refl hi
  | log k => intro cur lab ctx cs _ _ hi _; exact EqR.emit hi _
  | seq a b iha ihb =>
    intro cur lab ctx cs hst _ hi hnop
    simp only [stage1, Bool.and_eq_true] at hst
    simp only [gen, List.mem_append, not_or] at hnop
    have A := iha cur none ctx cs hst.1 (fun _ => rfl) hi hnop.1
    have hsz : (compileCF cur none a cs).code.size = cs.code.size + glen a none (ctx.map BI.shape) := by
      rw [A.size, gen_length]
    have B := ihb cur none ctx _ hst.2 (fun _ => rfl) A.inv (by rw [hsz]; exact hnop.2)
    rw [hsz] at B
    exact A.trans B
  | brk l =>
    intro cur lab ctx cs _ _ hi hnop
    simp only [gen] at hnop ⊢
    cases hf : findBrk l true ctx with
    | none => simp [hf] at hnop
    | some p =>
      obtain ⟨ex, t⟩ := p
      exact EqR.branch l true hi hf
  | cont l =>
    intro cur lab ctx cs _ _ hi hnop
    simp only [gen] at hnop ⊢
    cases hf : findBrk l false ctx with
    | none => simp [hf] at hnop
    | some p =>
      obtain ⟨ex, t⟩ := p
      exact EqR.branch l false hi hf
  | ret v =>
    intro cur lab ctx cs _ _ hi _
    have h1 := EqR.emit hi (Instr.loadVal v)
    have h2 := EqR.emits h1.inv (retExitsS ctx ++ [Instr.ret])
    have := h1.trans h2
    simp only [compileCF, gen]
    have e : (returnExits (cs.emit (Instr.loadVal v)).blocks (cs.emit (Instr.loadVal v)).code).push Instr.ret
        = (retExitsS ctx ++ [Instr.ret]).foldl Array.push (cs.emit (Instr.loadVal v)).code := by
      rw [returnExits_eq h1.inv.m]; simp [List.foldl_append]
    rw [e]
    simpa using this
  | thr v =>
    intro cur lab ctx cs _ _ hi _
    have h1 := EqR.emit hi (Instr.loadVal v)
    have h2 := EqR.emit h1.inv Instr.throw
    exact h1.trans h2
  | fatal =>
    intro cur lab ctx cs _ _ hi _
    simpa [compileCF, gen] using EqR.emit hi Instr.fatal
  | tryS i b hasC c hasF f ihb ihc ihf =>
    intro cur lab ctx cs hst _ hi hnop
    simp only [stage1, Bool.and_eq_true] at hst
    obtain ⟨⟨⟨hcf, hsb⟩, hsc⟩, hsf⟩ := hst
    have P0 := InR.push (c := BI.try_) (b0 := { typ := BT.try_ }) hi ⟨rfl, rfl, rfl, rfl, rfl⟩ rfl rfl
    have hs1 : (cs.push { typ := BT.try_ }).code.size = cs.code.size := rfl
    cases hasC <;> cases hasF
    · simp at hcf
    · -- finally only
      simp only [if_true, Bool.and_eq_true, Option.isNone_iff_eq_none] at hsf
      simp only [compileCF, hsf.2, if_true, Bool.false_eq_true, if_false]
      rw [modTop_breaking_none P0.inv]
      simp only [gen, if_true, Bool.false_eq_true, if_false, List.append_nil, Nat.add_zero] at hnop ⊢
      generalize hlb : glen b none (BS.try_ :: ctx.map BI.shape) = lb at *
      let cs1 := cs.push { typ := BT.try_ }
      let cs2 := cs1.emit Instr.nop
      have e_a : EqR (BI.try_ :: ctx) cs1 cs2 [Instr.nop] := EqR.emit P0.inv _
      have hs2 : cs2.code.size = cs.code.size + 1 := by simp [cs2, cs1, CS.emit, CS.push]
      have e_b : EqR (BI.try_ :: ctx) cs2 (cs2.emit (Instr.emit (Ev.tryE i))) [Instr.emit (Ev.tryE i)] := EqR.emit e_a.inv _
      have hs3 : (cs2.emit (Instr.emit (Ev.tryE i))).code.size = cs.code.size + 2 := by simp [CS.emit, hs2]
      have hnb : Instr.nop ∉ gen b cur none (BI.try_ :: ctx) (cs.code.size + 2) := fun h => hnop (by simp [h])
      have e_c := ihb cur none (BI.try_ :: ctx) _ hsb (fun _ => rfl) e_b.inv (by rw [hs3]; exact hnb)
      rw [hs3] at e_c
      have hs4 : (compileCF cur none b (cs2.emit (Instr.emit (Ev.tryE i)))).code.size = cs.code.size + 2 + lb := by
        rw [e_c.size, hs3, gen_length]; simp only [List.map_cons, BI.shape, hlb]
      have hnf : Instr.nop ∉ gen f cur none (BI.try_ :: ctx) (cs.code.size + 2 + lb + 2) := fun h => hnop (by simp [h])
      have e_f := finPartEq ihf cur i e_c.inv hsf.1 (by rw [hs4]; exact hnf)
      rw [hs4] at e_f
      have E2 := (e_b.trans e_c).trans e_f
      have hfresh : cs.code.size ∉ pendAll ((compileCF cur none f ((((compileCF cur none b (cs2.emit (Instr.emit (Ev.tryE i)))).emit
          Instr.enterFinally).emit (Instr.emit (Ev.finE i))).modTop (fun blk => { blk with breaking := none }))).emit
          Instr.leaveFinally).blocks := by
        apply fresh_of_new (bs0 := cs2.blocks) (n := cs.code.size + 1)
        · intro k hk
          have : k ∈ pendAll cs.blocks := by simpa [cs2, cs1, CS.emit, CS.push, pendAll, List.flatMap_cons] using hk
          exact hi.p k this
        · omega
        · intro k hk
          rcases E2.new k hk with h | h
          · exact Or.inl h
          · exact Or.inr (by rw [hs2] at h; exact h)
      have E := e_a.trans E2
      have EP := EqR.patch (A := []) (y := Instr.nop)
        (Instr.try_ 0 (((compileCF cur none b (cs2.emit (Instr.emit (Ev.tryE i)))).emit Instr.enterFinally).size - cs1.size))
        (q := cs1.size) (by simpa using E) (by simp [CS.size]) hfresh
      have L := (P0.step EP).leave (fun _ _ _ => trivial)
      have h5 : ((compileCF cur none b (cs2.emit (Instr.emit (Ev.tryE i)))).emit Instr.enterFinally).code.size
          = cs.code.size + 2 + lb + 1 := by
        show (Array.push _ _).size = _
        rw [Array.size_push, hs4]
      have hoff : ((compileCF cur none b (cs2.emit (Instr.emit (Ev.tryE i)))).emit Instr.enterFinally).size - cs1.size
          = 1 + 1 + lb + 1 := by
        show ((compileCF cur none b (cs2.emit (Instr.emit (Ev.tryE i)))).emit Instr.enterFinally).code.size - cs1.code.size = _
        rw [h5, hs1]; omega
      exact L.congrG (by rw [hoff]; simp [Nat.add_assoc])
    · -- catch only
      simp only [if_true] at hsc
      simp only [compileCF, if_true, Bool.false_eq_true, if_false]
      rw [modTop_breaking_none P0.inv]
      simp only [gen, if_true, Bool.false_eq_true, if_false, List.append_nil, Nat.add_zero] at hnop ⊢
      generalize hlb : glen b none (BS.try_ :: ctx.map BI.shape) = lb at *
      generalize hlc : glen c none (BS.scope :: BS.try_ :: ctx.map BI.shape) = lc at *
      let cs1 := cs.push { typ := BT.try_ }
      let cs2 := cs1.emit Instr.nop
      have e_a : EqR (BI.try_ :: ctx) cs1 cs2 [Instr.nop] := EqR.emit P0.inv _
      have hs2 : cs2.code.size = cs.code.size + 1 := by simp [cs2, cs1, CS.emit, CS.push]
      have hnb : Instr.nop ∉ gen b cur none (BI.try_ :: ctx) (cs.code.size + 1) := fun h => hnop (by simp [h])
      have e_c := ihb cur none (BI.try_ :: ctx) _ hsb (fun _ => rfl) e_a.inv (by rw [hs2]; exact hnb)
      rw [hs2] at e_c
      have hs4 : (compileCF cur none b cs2).code.size = cs.code.size + 1 + lb := by
        rw [e_c.size, hs2, gen_length]; simp only [List.map_cons, BI.shape, hlb]
      have hnc : Instr.nop ∉ gen c cur none (BI.scope 1 :: BI.try_ :: ctx) (cs.code.size + 1 + lb + 3) :=
        fun h => hnop (by simp [h])
      have e_d := catchPartEq ihc cur i e_c.inv hsc (by rw [hs4]; exact hnc)
      rw [hs4] at e_d
      simp only [List.map_cons, BI.shape, hlc] at e_d
      have e_t := EqR.emit e_d.inv Instr.leaveTry
      have E2 := (e_c.trans e_d).trans e_t
      have hfresh : cs.code.size ∉ pendAll (((((compileCF cur none c ((((( compileCF cur none b cs2).emit Instr.nop).push
          { typ := BT.scope }).emit (Instr.enterBlock 0)).emit (Instr.catchLog i))).leaveScopeBlock 1).patch
          (compileCF cur none b cs2).size (Instr.jump (CS.rel ((compileCF cur none c (((((compileCF cur none b cs2).emit Instr.nop).push
          { typ := BT.scope }).emit (Instr.enterBlock 0)).emit (Instr.catchLog i))).leaveScopeBlock 1).size
          (compileCF cur none b cs2).size))).emit Instr.leaveTry)).blocks := by
        apply fresh_of_new (bs0 := cs2.blocks) (n := cs.code.size + 1)
        · intro k hk
          have : k ∈ pendAll cs.blocks := by simpa [cs2, cs1, CS.emit, CS.push, pendAll, List.flatMap_cons] using hk
          exact hi.p k this
        · omega
        · intro k hk
          rcases E2.new k hk with h | h
          · exact Or.inl h
          · exact Or.inr (by rw [hs2] at h; exact h)
      have E := e_a.trans E2
      have EP := EqR.patch (A := []) (y := Instr.nop)
        (Instr.try_ (((compileCF cur none b cs2).emit Instr.nop).size - cs1.size) 0)
        (q := cs1.size) (by simpa using E) (by simp [CS.size]) hfresh
      have L := (P0.step EP).leave (fun _ _ _ => trivial)
      have h5 : ((compileCF cur none b cs2).emit Instr.nop).code.size = cs.code.size + 1 + lb + 1 := by
        show (Array.push _ _).size = _
        rw [Array.size_push, hs4]
      have hoff : ((compileCF cur none b cs2).emit Instr.nop).size - cs1.size = 1 + lb + 1 := by
        show ((compileCF cur none b cs2).emit Instr.nop).code.size - cs1.code.size = _
        rw [h5, hs1]; omega
      exact L.congrG (by rw [hoff]; simp [Nat.add_assoc]; omega)
    · -- catch and finally
      simp only [if_true, Bool.and_eq_true, Option.isNone_iff_eq_none] at hsc hsf
      simp only [compileCF, hsf.2, if_true, Bool.false_eq_true, if_false]
      rw [modTop_breaking_none P0.inv]
      simp only [gen, if_true, Bool.false_eq_true, if_false, List.append_nil, Nat.add_zero] at hnop ⊢
      generalize hlb : glen b none (BS.try_ :: ctx.map BI.shape) = lb at *
      generalize hlc : glen c none (BS.scope :: BS.try_ :: ctx.map BI.shape) = lc at *
      let cs1 := cs.push { typ := BT.try_ }
      let cs2 := cs1.emit Instr.nop
      have e_a : EqR (BI.try_ :: ctx) cs1 cs2 [Instr.nop] := EqR.emit P0.inv _
      have hs2 : cs2.code.size = cs.code.size + 1 := by simp [cs2, cs1, CS.emit, CS.push]
      have e_b : EqR (BI.try_ :: ctx) cs2 (cs2.emit (Instr.emit (Ev.tryE i))) [Instr.emit (Ev.tryE i)] := EqR.emit e_a.inv _
      have hs3 : (cs2.emit (Instr.emit (Ev.tryE i))).code.size = cs.code.size + 2 := by simp [CS.emit, hs2]
      have hnb : Instr.nop ∉ gen b cur none (BI.try_ :: ctx) (cs.code.size + 2) := fun h => hnop (by simp [h])
      have e_c := ihb cur none (BI.try_ :: ctx) _ hsb (fun _ => rfl) e_b.inv (by rw [hs3]; exact hnb)
      rw [hs3] at e_c
      have hs4 : (compileCF cur none b (cs2.emit (Instr.emit (Ev.tryE i)))).code.size = cs.code.size + 2 + lb := by
        rw [e_c.size, hs3, gen_length]; simp only [List.map_cons, BI.shape, hlb]
      have hnc : Instr.nop ∉ gen c cur none (BI.scope 1 :: BI.try_ :: ctx) (cs.code.size + 2 + lb + 3) :=
        fun h => hnop (by simp [h])
      have e_d := catchPartEq ihc cur i e_c.inv hsc (by rw [hs4]; exact hnc)
      rw [hs4] at e_d
      simp only [List.map_cons, BI.shape, hlc] at e_d
      have hs9 := e_d.size
      rw [hs4] at hs9
      have hnf : Instr.nop ∉ gen f cur none (BI.try_ :: ctx) (cs.code.size + 2 + lb + (3 + lc + 1) + 2) :=
        fun h => hnop (by simp [h])
      have e_f := finPartEq ihf cur i e_d.inv hsf.1 (by
        rw [hs9]; simp only [List.length_append, List.length_cons, List.length_nil, gen_length, List.map_cons, BI.shape, hlc]
        have : cs.code.size + 2 + lb + (0 + 1 + 1 + 1 + lc + (0 + 1)) + 2 = cs.code.size + 2 + lb + (3 + lc + 1) + 2 := by omega
        rw [this]; exact hnf)
      have E2 := ((e_b.trans e_c).trans e_d).trans e_f
      have E := e_a.trans E2
      have hfresh := fresh_of_new (bs0 := cs2.blocks) (q := cs.code.size) (n := cs.code.size + 1)
        (fun k hk => by
          have : k ∈ pendAll cs.blocks := by simpa [cs2, cs1, CS.emit, CS.push, pendAll, List.flatMap_cons] using hk
          exact hi.p k this) (by omega)
        (fun k hk => by
          rcases E2.new k hk with h | h
          · exact Or.inl h
          · exact Or.inr (by rw [hs2] at h; exact h))
      have EP := EqR.patch (A := []) (y := Instr.nop)
        (Instr.try_ (((compileCF cur none b (cs2.emit (Instr.emit (Ev.tryE i)))).emit Instr.nop).size - cs1.size)
          (((((compileCF cur none c (((((compileCF cur none b (cs2.emit (Instr.emit (Ev.tryE i)))).emit Instr.nop).push
            { typ := BT.scope }).emit (Instr.enterBlock 0)).emit (Instr.catchLog i))).leaveScopeBlock 1).patch
            (compileCF cur none b (cs2.emit (Instr.emit (Ev.tryE i)))).size
            (Instr.jump (CS.rel ((compileCF cur none c (((((compileCF cur none b (cs2.emit (Instr.emit (Ev.tryE i)))).emit Instr.nop).push
            { typ := BT.scope }).emit (Instr.enterBlock 0)).emit (Instr.catchLog i))).leaveScopeBlock 1).size
            (compileCF cur none b (cs2.emit (Instr.emit (Ev.tryE i)))).size))).emit Instr.enterFinally).size - cs1.size))
        (q := cs1.size) (by simpa using E) (by simp [CS.size]) hfresh
      have L := (P0.step EP).leave (fun _ _ _ => trivial)
      have h5 : ((compileCF cur none b (cs2.emit (Instr.emit (Ev.tryE i)))).emit Instr.nop).code.size = cs.code.size + 2 + lb + 1 := by
        show (Array.push _ _).size = _
        rw [Array.size_push, hs4]
      have hoff1 : ((compileCF cur none b (cs2.emit (Instr.emit (Ev.tryE i)))).emit Instr.nop).size - cs1.size = 1 + 1 + lb + 1 := by
        show ((compileCF cur none b (cs2.emit (Instr.emit (Ev.tryE i)))).emit Instr.nop).code.size - cs1.code.size = _
        rw [h5, hs1]; omega
      have h6 : (((((compileCF cur none c (((((compileCF cur none b (cs2.emit (Instr.emit (Ev.tryE i)))).emit Instr.nop).push
            { typ := BT.scope }).emit (Instr.enterBlock 0)).emit (Instr.catchLog i))).leaveScopeBlock 1).patch
            (compileCF cur none b (cs2.emit (Instr.emit (Ev.tryE i)))).size
            (Instr.jump (CS.rel ((compileCF cur none c (((((compileCF cur none b (cs2.emit (Instr.emit (Ev.tryE i)))).emit Instr.nop).push
            { typ := BT.scope }).emit (Instr.enterBlock 0)).emit (Instr.catchLog i))).leaveScopeBlock 1).size
            (compileCF cur none b (cs2.emit (Instr.emit (Ev.tryE i)))).size))).emit Instr.enterFinally).size) - cs1.size
          = 1 + 1 + lb + (3 + lc + 1) + 1 := by
        show (Array.push _ _).size - cs1.code.size = _
        rw [Array.size_push, hs9, hs1]
        simp only [List.length_append, List.length_cons, List.length_nil, gen_length, List.map_cons, BI.shape, hlc]
        omega
      have h7 := hs9
      simp only [List.length_append, List.length_cons, List.length_nil, gen_length, List.map_cons, BI.shape, hlc] at h7
      refine L.congrG (by rw [hoff1, h6, h7]; simp [Nat.add_assoc]; omega)
  | loop k id n body ih =>
    intro cur lab ctx cs hst _ hi hnop
    simp only [stage1, Bool.and_eq_true, bne_iff_ne, ne_eq] at hst
    obtain ⟨⟨hk1, hstb⟩, _⟩ := hst
    cases k with
    | forin => exact absurd rfl hk1
    | forlet =>
      simp only [gen] at hnop ⊢
      generalize hlb : glen body none (BS.iscope :: BS.loop lab :: ctx.map BI.shape) = lb at *
      have hnb : Instr.nop ∉ gen body id none
          (BI.iscope :: BI.loop lab (cs.code.size + 3 + 2 + lb + 3 + 1) (cs.code.size + 3 + 2 + lb) :: ctx)
          (cs.code.size + 3 + 2) := fun h => hnop (by simp [h])
      let c1 : BI := BI.loop lab (cs.code.size + 3 + 2 + lb + 3 + 1) (cs.code.size + 3 + 2 + lb)
      let cs1 := cs.push { typ := BT.loop, label := lab }
      have P0 : InR c1 ctx cs cs1 [] := InR.push hi ⟨rfl, rfl, rfl⟩ rfl rfl
      let cs2 := cs1.push { typ := BT.iterScope }
      have Q0 : InR BI.iscope (c1 :: ctx) cs1 cs2 [] := InR.push P0.inv ⟨rfl, rfl, rfl, rfl⟩ rfl rfl
      let cs3 := cs2.emit (Instr.enterBlock 1)
      let cs4 := cs3.emit (Instr.cntZero id)
      let cs5 := cs4.emit Instr.copyStash
      let cs6 := cs5.emit (Instr.cntLt id n)
      let cs7 := cs6.emit Instr.nop
      have Q2 : InR BI.iscope (c1 :: ctx) cs1 cs7
          [Instr.enterBlock 1, Instr.cntZero id, Instr.copyStash, Instr.cntLt id n, Instr.nop] := by
        have a := Q0.step (EqR.emit Q0.inv (Instr.enterBlock 1))
        have b := a.step (EqR.emit a.inv (Instr.cntZero id))
        have c' := b.step (EqR.emit b.inv Instr.copyStash)
        have d := c'.step (EqR.emit c'.inv (Instr.cntLt id n))
        have e := d.step (EqR.emit d.inv Instr.nop)
        simpa using e
      have hs1 : cs1.code.size = cs.code.size := rfl
      have hs7 : cs7.code.size = cs.code.size + 3 + 2 := by rw [Q2.size]; rfl
      have hb7 : cs7.blocks = { typ := BT.iterScope } :: { typ := BT.loop, label := lab } :: cs.blocks := by
        simp [cs7, cs6, cs5, cs4, cs3, cs2, cs1, CS.emit, CS.push]
      have A := ih id none (BI.iscope :: c1 :: ctx) cs7 hstb (fun _ => rfl) Q2.inv (by rw [hs7]; exact hnb)
      rw [hs7] at A
      let cs8 := compileCF id none body cs7
      have hs8 : cs8.code.size = cs.code.size + 3 + 2 + lb := by
        rw [A.size, hs7, gen_length]; simp only [List.map_cons, BI.shape, c1, hlb]
      obtain ⟨sb, r8, hb8, _, hm8⟩ := match_cons A.inv.m
      obtain ⟨lb8, r, hb8', _, _⟩ := match_cons hm8
      rw [hb8'] at hb8
      let cs9 : CS := { cs8 with blocks := match cs8.blocks with
                                            | sb :: lb :: r => sb :: { lb with cont := cs8.size } :: r
                                            | bs => bs }
      have h9 : cs9 = { cs8 with blocks := sb :: { lb8 with cont := cs8.size } :: r } := by
        simp only [cs9]
        have hb8c : cs8.blocks = sb :: lb8 :: r := hb8
        rw [hb8c]
      have Qm : InR BI.iscope (c1 :: ctx) (cs1.modTop (fun b => { b with cont := cs8.size })) cs9
          ([Instr.enterBlock 1, Instr.cntZero id, Instr.copyStash, Instr.cntLt id n, Instr.nop] ++
            gen body id none (BI.iscope :: c1 :: ctx) (cs.code.size + 3 + 2)) := by
        rw [h9]; exact (Q2.step A).modSecond cs8.size hb8
      let cs10 := cs9.emit Instr.copyStash
      let cs11 := cs10.emit (Instr.cntInc id)
      let cs12 := cs11.emit (Instr.jump (CS.rel cs5.size cs11.size))
      have Qa := Qm.step (EqR.emit Qm.inv Instr.copyStash)
      have Qb := Qa.step (EqR.emit Qa.inv (Instr.cntInc id))
      have Qc := Qb.step (EqR.emit Qb.inv (Instr.jump (CS.rel cs5.size cs11.size)))
      have hs9 : cs9.code.size = cs8.code.size := by rw [h9]
      have hs12 : cs12.code.size = cs.code.size + 3 + 2 + lb + 3 := by
        simp [cs12, cs11, cs10, CS.emit, hs9, hs8]
      have e6 : cs6.size = cs.code.size + 4 := by simp [cs6, cs5, cs4, cs3, cs2, cs1, CS.emit, CS.push, CS.size]
      have hpend12 : pendAll cs12.blocks = pendAll cs8.blocks := by
        have : cs12.blocks = sb :: { lb8 with cont := cs8.size } :: r := by
          simp only [cs12, cs11, cs10, CS.emit]; rw [h9]
        rw [this]; show _ = pendAll cs8.blocks; rw [hb8]; simp [pendAll, List.flatMap_cons]
      have hfresh : cs.code.size + 4 ∉ pendAll cs12.blocks := by
        rw [hpend12]
        apply fresh_of_new (bs0 := cs7.blocks) (n := cs.code.size + 3 + 2)
        · intro k hk
          rw [hb7] at hk
          have : k ∈ pendAll cs.blocks := by simpa [pendAll, List.flatMap_cons] using hk
          have := hi.p k this
          omega
        · omega
        · intro k hk
          rcases A.new k hk with h | h
          · exact Or.inl h
          · exact Or.inr (by rw [hs7] at h; exact h)
      have hsm : (cs1.modTop (fun b => { b with cont := cs8.size })).code.size = cs.code.size := rfl
      have Q5 := InR.patch (A := [Instr.enterBlock 1, Instr.cntZero id, Instr.copyStash, Instr.cntLt id n]) (y := Instr.nop)
        (Instr.jneP (CS.rel cs12.size cs6.size)) (q := cs6.size)
        (by simpa using Qc) (by rw [e6, hsm]; rfl) (by rw [e6]; exact hfresh)
      have LS := Q5.leaveScopeI
      have P1 := (P0.modTop_cont cs8.size).step LS
      have hsL : ((cs12.patch cs6.size (Instr.jneP (CS.rel cs12.size cs6.size))).leaveScopeBlock 1).code.size
          = cs.code.size + 3 + 2 + lb + 3 + 1 := by
        rw [LS.size, hsm]
        simp only [List.length_append, List.length_cons, List.length_nil, gen_length, List.map_cons, BI.shape, c1, hlb]
        omega
      have L := P1.leave (fun b r' hb => by
        refine ⟨hsL.symm, ?_⟩
        have hct := LS.conts
        rw [hb] at hct
        simp only [cs1, CS.modTop, CS.push, List.map_cons, List.cons.injEq] at hct
        show cs.code.size + 3 + 2 + lb = b.cont
        rw [hct.1]
        exact hs8.symm)
      have hstate : compileCF cur lab (Stmt.loop LoopKind.forlet id n body) cs
          = ((cs12.patch cs6.size (Instr.jneP (CS.rel cs12.size cs6.size))).leaveScopeBlock 1).leaveBlock := rfl
      rw [hstate]
      have e5 : cs5.size = cs.code.size + 3 := by simp [cs5, cs4, cs3, cs2, cs1, CS.emit, CS.push, CS.size]
      have e11 : cs11.size = cs.code.size + 3 + 2 + lb + 2 := by
        show cs11.code.size = _
        simp [cs11, cs10, CS.emit, hs9, hs8]
      have e12 : cs12.size = cs.code.size + 3 + 2 + lb + 3 := hs12
      refine L.congrG ?_
      rw [e12, e6, e5, e11]
      simp [c1, Nat.add_assoc]
    | while_ =>
      simp only [gen] at hnop ⊢
      generalize hlb : glen body none (BS.loop lab :: ctx.map BI.shape) = lb at *
      have hnb : Instr.nop ∉ gen body id none (BI.loop lab (cs.code.size + 1 + 3 + lb + 1) (cs.code.size + 1) :: ctx)
          (cs.code.size + 1 + 3) := fun h => hnop (by simp [h])
      -- states
      let cs0 := cs.emit (Instr.cntReset id)
      have E0 : EqR ctx cs cs0 [Instr.cntReset id] := EqR.emit hi _
      have hs0 : cs0.code.size = cs.code.size + 1 := by simp [cs0, CS.emit]
      let c : BI := BI.loop lab (cs.code.size + 1 + 3 + lb + 1) (cs.code.size + 1)
      let cs1 := cs0.push { typ := BT.loop, label := lab }
      let cs2 := cs1.modTop (fun b => { b with cont := cs1.size })
      let cs4 := ((cs2.emit (Instr.cntInc id)).emit (Instr.cntLt id n)).emit Instr.nop
      have P0 : InR c ctx cs0 cs1 [] := InR.push E0.inv ⟨rfl, rfl, rfl⟩ rfl rfl
      have P1 : InR c ctx cs0 cs2 [] := P0.modTop_cont _
      have P2 : InR c ctx cs0 cs4 [Instr.cntInc id, Instr.cntLt id n, Instr.nop] := by
        have a := P1.step (EqR.emit P1.inv (Instr.cntInc id))
        have b := a.step (EqR.emit a.inv (Instr.cntLt id n))
        have c' := b.step (EqR.emit b.inv Instr.nop)
        simpa using c'
      have hs4 : cs4.code.size = cs.code.size + 1 + 3 := by rw [P2.size, hs0]; rfl
      have hb4 : cs4.blocks = { typ := BT.loop, label := lab, cont := cs.code.size + 1 } :: cs.blocks := by
        simp [cs4, cs2, cs1, cs0, CS.emit, CS.modTop, CS.push, CS.size]
      have A := ih id none (c :: ctx) cs4 hstb (fun _ => rfl) P2.inv (by rw [hs4]; exact hnb)
      rw [hs4] at A
      let cs5 := compileCF id none body cs4
      have hs5 : cs5.code.size = cs.code.size + 1 + 3 + lb := by
        rw [A.size, hs4, gen_length]; simp only [List.map_cons, BI.shape, c, hlb]
      let cs6 := cs5.emit (Instr.jump (CS.rel cs1.size cs5.size))
      have P4 := (P2.step A).step (EqR.emit A.inv (Instr.jump (CS.rel cs1.size cs5.size)))
      have hfresh : cs.code.size + 1 + 2 ∉ pendAll cs6.blocks := by
        apply fresh_of_new (bs0 := cs4.blocks) (n := cs.code.size + 1 + 3)
        · intro k hk
          rw [hb4] at hk
          have : k ∈ pendAll cs.blocks := by simpa [pendAll, List.flatMap_cons] using hk
          have := hi.p k this
          omega
        · omega
        · intro k hk
          have hk' : k ∈ pendAll cs5.blocks := by simpa [cs6, CS.emit] using hk
          rcases A.new k hk' with h | h
          · exact Or.inl h
          · exact Or.inr (by rw [hs4] at h; exact h)
      have e3 : ((cs2.emit (Instr.cntInc id)).emit (Instr.cntLt id n)).size = cs.code.size + 1 + 2 := by
        simp [cs2, cs1, cs0, CS.emit, CS.modTop, CS.push, CS.size]
      have P5 := InR.patch (A := [Instr.cntInc id, Instr.cntLt id n]) (y := Instr.nop)
        (Instr.jneP (CS.rel cs6.size ((cs2.emit (Instr.cntInc id)).emit (Instr.cntLt id n)).size))
        (q := ((cs2.emit (Instr.cntInc id)).emit (Instr.cntLt id n)).size)
        (by simpa using P4) (by rw [e3, hs0]; rfl) (by rw [e3]; exact hfresh)
      have hs6 : cs6.code.size = cs.code.size + 1 + 3 + lb + 1 := by simp [cs6, CS.emit, hs5]
      have hct : (cs6.patch ((cs2.emit (Instr.cntInc id)).emit (Instr.cntLt id n)).size
            (Instr.jneP (CS.rel cs6.size ((cs2.emit (Instr.cntInc id)).emit (Instr.cntLt id n)).size))).blocks.map Block.cont
          = (cs.code.size + 1) :: cs.blocks.map Block.cont := by
        have := A.conts
        rw [hb4] at this
        simpa [cs6, CS.emit, CS.patch] using this
      have L := P5.leave (fun b r hb => by
        refine ⟨?_, ?_⟩
        · show cs.code.size + 1 + 3 + lb + 1 = (cs6.patch _ _).code.size
          simp only [CS.patch, Array.size_setIfInBounds]; exact hs6.symm
        · rw [hb] at hct
          simp only [List.map_cons, List.cons.injEq] at hct
          exact hct.1.symm)
      have F := E0.trans L
      have e1 : cs1.size = cs.code.size + 1 := by simp [cs1, cs0, CS.push, CS.emit, CS.size]
      have hstate : compileCF cur lab (Stmt.loop LoopKind.while_ id n body) cs
          = (cs6.patch ((cs2.emit (Instr.cntInc id)).emit (Instr.cntLt id n)).size
              (Instr.jneP (CS.rel cs6.size ((cs2.emit (Instr.cntInc id)).emit (Instr.cntLt id n)).size))).leaveBlock := rfl
      rw [hstate]
      have hG : [Instr.cntReset id] ++ ([Instr.cntInc id, Instr.cntLt id n] ++
            Instr.jneP (CS.rel cs6.size ((cs2.emit (Instr.cntInc id)).emit (Instr.cntLt id n)).size) ::
              (gen body id none (c :: ctx) (cs.code.size + 1 + 3) ++ [Instr.jump (CS.rel cs1.size cs5.size)]))
          = [Instr.cntReset id, Instr.cntInc id, Instr.cntLt id n,
              Instr.jneP (CS.rel (cs.code.size + 1 + 3 + lb + 1) (cs.code.size + 1 + 2))] ++
            gen body id none (BI.loop lab (cs.code.size + 1 + 3 + lb + 1) (cs.code.size + 1) :: ctx) (cs.code.size + 1 + 3) ++
            [Instr.jump (CS.rel (cs.code.size + 1) (cs.code.size + 1 + 3 + lb))] := by
        have e6 : cs6.size = cs.code.size + 1 + 3 + lb + 1 := hs6
        have e5 : cs5.size = cs.code.size + 1 + 3 + lb := hs5
        rw [e3, e6, e5, e1]
        simp [c]
      rw [← hG]
      exact F
    | do_ =>
      simp only [gen] at hnop ⊢
      generalize hlb : glen body none (BS.loop lab :: ctx.map BI.shape) = lb at *
      have hnb : Instr.nop ∉ gen body id none (BI.loop lab (cs.code.size + 1 + lb + 3) (cs.code.size + 1 + lb) :: ctx)
          (cs.code.size + 1) := fun h => hnop (by simp [h])
      let cs0 := cs.emit (Instr.cntZero id)
      have E0 : EqR ctx cs cs0 [Instr.cntZero id] := EqR.emit hi _
      have hs0 : cs0.code.size = cs.code.size + 1 := by simp [cs0, CS.emit]
      let c : BI := BI.loop lab (cs.code.size + 1 + lb + 3) (cs.code.size + 1 + lb)
      let cs1 := cs0.push { typ := BT.loop, label := lab }
      have P0 : InR c ctx cs0 cs1 [] := InR.push E0.inv ⟨rfl, rfl, rfl⟩ rfl rfl
      have hs1 : cs1.code.size = cs.code.size + 1 := by simp [cs1, CS.push, hs0]
      have A := ih id none (c :: ctx) cs1 hstb (fun _ => rfl) P0.inv (by rw [hs1]; exact hnb)
      rw [hs1] at A
      let cs5 := compileCF id none body cs1
      have hs5 : cs5.code.size = cs.code.size + 1 + lb := by
        rw [A.size, hs1, gen_length]; simp only [List.map_cons, BI.shape, c, hlb]
      let csm := cs5.modTop (fun b => { b with cont := cs5.size })
      have Pm := (P0.step A).modTop_cont cs5.size
      let cs7 := (csm.emit (Instr.cntInc id)).emit (Instr.cntLt id n)
      let cs8 := cs7.emit (Instr.jeqP (CS.rel cs1.size cs7.size))
      have Pa := Pm.step (EqR.emit Pm.inv (Instr.cntInc id))
      have Pb := Pa.step (EqR.emit Pa.inv (Instr.cntLt id n))
      have P2 := Pb.step (EqR.emit Pb.inv (Instr.jeqP (CS.rel cs1.size cs7.size)))
      have hsm : csm.code.size = cs5.code.size := by
        simp only [csm, CS.modTop]; split <;> rfl
      have hs8 : cs8.code.size = cs.code.size + 1 + lb + 3 := by
        simp [cs8, cs7, CS.emit, hsm, hs5]
      have L := P2.leave (fun b r hb => by
        refine ⟨hs8.symm, ?_⟩
        obtain ⟨b5, r5, hb5, _, _⟩ := match_cons A.inv.m
        have : cs8.blocks = { b5 with cont := cs5.size } :: r5 := by
          simp [cs8, cs7, csm, CS.emit, CS.modTop, hb5, cs5]
        rw [this] at hb
        have hbb := (List.cons.inj hb).1
        rw [← hbb]
        show cs.code.size + 1 + lb = cs5.code.size
        exact hs5.symm)
      have F := E0.trans L
      have hstate : compileCF cur lab (Stmt.loop LoopKind.do_ id n body) cs = cs8.leaveBlock := rfl
      rw [hstate]
      have e1 : cs1.size = cs.code.size + 1 := hs1
      have e7 : cs7.size = cs.code.size + 1 + lb + 2 := by
        show cs7.code.size = _
        simp [cs7, CS.emit, hsm, hs5]
      have hG : [Instr.cntZero id] ++ (([] ++ gen body id none (c :: ctx) (cs.code.size + 1) ++ [Instr.cntInc id] ++
            [Instr.cntLt id n]) ++ [Instr.jeqP (CS.rel cs1.size cs7.size)])
          = [Instr.cntZero id] ++ gen body id none (BI.loop lab (cs.code.size + 1 + lb + 3) (cs.code.size + 1 + lb) :: ctx)
              (cs.code.size + 1) ++
            [Instr.cntInc id, Instr.cntLt id n, Instr.jeqP (CS.rel (cs.code.size + 1) (cs.code.size + 1 + lb + 2))] := by
        rw [e1, e7]; simp [c]
      rw [← hG]
      exact F
    | for_ =>
      simp only [gen] at hnop ⊢
      generalize hlb : glen body none (BS.loop lab :: ctx.map BI.shape) = lb at *
      have hnb : Instr.nop ∉ gen body id none (BI.loop lab (cs.code.size + 1 + 2 + lb + 2) (cs.code.size + 1 + 2 + lb) :: ctx)
          (cs.code.size + 1 + 2) := fun h => hnop (by simp [h])
      let c : BI := BI.loop lab (cs.code.size + 1 + 2 + lb + 2) (cs.code.size + 1 + 2 + lb)
      let cs1 := cs.push { typ := BT.loop, label := lab }
      have P0 : InR c ctx cs cs1 [] := InR.push hi ⟨rfl, rfl, rfl⟩ rfl rfl
      let cs2 := cs1.emit (Instr.cntZero id)
      let cs3 := cs2.emit (Instr.cntLt id n)
      let cs4 := cs3.emit Instr.nop
      have P2 : InR c ctx cs cs4 [Instr.cntZero id, Instr.cntLt id n, Instr.nop] := by
        have a := P0.step (EqR.emit P0.inv (Instr.cntZero id))
        have b := a.step (EqR.emit a.inv (Instr.cntLt id n))
        have c' := b.step (EqR.emit b.inv Instr.nop)
        simpa using c'
      have hs4 : cs4.code.size = cs.code.size + 1 + 2 := by rw [P2.size]; rfl
      have hb4 : cs4.blocks = { typ := BT.loop, label := lab } :: cs.blocks := by
        simp [cs4, cs3, cs2, cs1, CS.emit, CS.push]
      have A := ih id none (c :: ctx) cs4 hstb (fun _ => rfl) P2.inv (by rw [hs4]; exact hnb)
      rw [hs4] at A
      let cs5 := compileCF id none body cs4
      have hs5 : cs5.code.size = cs.code.size + 1 + 2 + lb := by
        rw [A.size, hs4, gen_length]; simp only [List.map_cons, BI.shape, c, hlb]
      let csm := cs5.modTop (fun b => { b with cont := cs5.size })
      have Pm := (P2.step A).modTop_cont cs5.size
      have hsm : csm.code.size = cs5.code.size := by
        simp only [csm, CS.modTop]; split <;> rfl
      let cs7 := csm.emit (Instr.cntInc id)
      let cs8 := cs7.emit (Instr.jump (CS.rel cs2.size cs7.size))
      have Pa := Pm.step (EqR.emit Pm.inv (Instr.cntInc id))
      have P4 := Pa.step (EqR.emit Pa.inv (Instr.jump (CS.rel cs2.size cs7.size)))
      have e3 : cs3.size = cs.code.size + 2 := by simp [cs3, cs2, cs1, CS.emit, CS.push, CS.size]
      have hpend8 : pendAll cs8.blocks = pendAll cs5.blocks := by
        obtain ⟨b5, r5, hb5, _, _⟩ := match_cons A.inv.m
        have : cs8.blocks = { b5 with cont := cs5.size } :: r5 := by
          simp [cs8, cs7, csm, CS.emit, CS.modTop, hb5, cs5]
        rw [this]; show _ = pendAll cs5.blocks; rw [hb5]; simp [pendAll, List.flatMap_cons]
      have hfresh : cs.code.size + 2 ∉ pendAll cs8.blocks := by
        rw [hpend8]
        apply fresh_of_new (bs0 := cs4.blocks) (n := cs.code.size + 1 + 2)
        · intro k hk
          rw [hb4] at hk
          have : k ∈ pendAll cs.blocks := by simpa [pendAll, List.flatMap_cons] using hk
          have := hi.p k this
          omega
        · omega
        · intro k hk
          rcases A.new k hk with h | h
          · exact Or.inl h
          · exact Or.inr (by rw [hs4] at h; exact h)
      have P5 := InR.patch (A := [Instr.cntZero id, Instr.cntLt id n]) (y := Instr.nop)
        (Instr.jneP (CS.rel cs8.size cs3.size)) (q := cs3.size)
        (by simpa using P4) (by rw [e3]; rfl) (by rw [e3]; exact hfresh)
      have hs8 : cs8.code.size = cs.code.size + 1 + 2 + lb + 2 := by
        simp [cs8, cs7, CS.emit, hsm, hs5]
      have L := P5.leave (fun b r hb => by
        refine ⟨?_, ?_⟩
        · show cs.code.size + 1 + 2 + lb + 2 = (cs8.patch _ _).code.size
          simp only [CS.patch, Array.size_setIfInBounds]; exact hs8.symm
        · obtain ⟨b5, r5, hb5, _, _⟩ := match_cons A.inv.m
          have : (cs8.patch cs3.size (Instr.jneP (CS.rel cs8.size cs3.size))).blocks = { b5 with cont := cs5.size } :: r5 := by
            simp [cs8, cs7, csm, CS.emit, CS.modTop, CS.patch, hb5, cs5]
          rw [this] at hb
          have hbb := (List.cons.inj hb).1
          rw [← hbb]
          show cs.code.size + 1 + 2 + lb = cs5.code.size
          exact hs5.symm)
      have hstate : compileCF cur lab (Stmt.loop LoopKind.for_ id n body) cs
          = (cs8.patch cs3.size (Instr.jneP (CS.rel cs8.size cs3.size))).leaveBlock := rfl
      rw [hstate]
      have e2 : cs2.size = cs.code.size + 1 := by simp [cs2, cs1, CS.emit, CS.push, CS.size]
      have e7 : cs7.size = cs.code.size + 1 + 2 + lb + 1 := by
        show cs7.code.size = _
        simp [cs7, CS.emit, hsm, hs5]
      have e8 : cs8.size = cs.code.size + 1 + 2 + lb + 2 := hs8
      have hG : [Instr.cntZero id, Instr.cntLt id n] ++ Instr.jneP (CS.rel cs8.size cs3.size) ::
            (gen body id none (c :: ctx) (cs.code.size + 1 + 2) ++ [Instr.cntInc id, Instr.jump (CS.rel cs2.size cs7.size)])
          = [Instr.cntZero id, Instr.cntLt id n, Instr.jneP (CS.rel (cs.code.size + 1 + 2 + lb + 2) (cs.code.size + 1 + 1))] ++
            gen body id none (BI.loop lab (cs.code.size + 1 + 2 + lb + 2) (cs.code.size + 1 + 2 + lb) :: ctx) (cs.code.size + 1 + 2) ++
            [Instr.cntInc id, Instr.jump (CS.rel (cs.code.size + 1) (cs.code.size + 1 + 2 + lb + 1))] := by
        rw [e8, e3, e2, e7]; simp [c, Nat.add_assoc]
      rw [← hG]
      exact L
  | forOf sp body ih =>
    intro cur lab ctx cs hst _ hi hnop
    simp only [stage1, Bool.and_eq_true, Bool.not_eq_true'] at hst
    obtain ⟨⟨hlex, hstb⟩, _⟩ := hst
    simp only [gen] at hnop ⊢
    generalize hlb : glen body none (BS.forof lab :: ctx.map BI.shape) = lb at *
    have hnb : Instr.nop ∉ gen body sp.id none (BI.forof lab (cs.code.size + 1 + 2 + lb + 1 + 2) (cs.code.size + 1) :: ctx)
        (cs.code.size + 1 + 2) := fun h => hnop (by simp [h])
    let c : BI := BI.forof lab (cs.code.size + 1 + 2 + lb + 1 + 2) (cs.code.size + 1)
    let cs1 := cs.push { typ := BT.loopEnum, label := lab }
    have P0 : InR c ctx cs cs1 [] := InR.push hi ⟨rfl, rfl, rfl⟩ rfl rfl
    let cs3 := cs1.emit (Instr.iterateP sp)
    let cs4 := cs3.modTop (fun b => { b with cont := cs3.size })
    let cs5 := cs4.emit Instr.nop
    let cs7 := cs5.emit (Instr.enumGet sp.id)
    have P2 : InR c ctx cs cs7 [Instr.iterateP sp, Instr.nop, Instr.enumGet sp.id] := by
      have a := (P0.step (EqR.emit P0.inv (Instr.iterateP sp))).modTop_cont cs3.size
      have b := a.step (EqR.emit a.inv Instr.nop)
      have c' := b.step (EqR.emit b.inv (Instr.enumGet sp.id))
      simpa using c'
    have e3 : cs3.size = cs.code.size + 1 := by simp [cs3, cs1, CS.emit, CS.push, CS.size]
    have hs7 : cs7.code.size = cs.code.size + 1 + 2 := by rw [P2.size]; rfl
    have hb7 : cs7.blocks = { typ := BT.loopEnum, label := lab, cont := cs3.size } :: cs.blocks := by
      simp [cs7, cs5, cs4, cs3, cs1, CS.emit, CS.push, CS.modTop]
    have A := ih sp.id none (c :: ctx) cs7 hstb (fun _ => rfl) P2.inv (by rw [hs7]; exact hnb)
    rw [hs7] at A
    let cs8 := compileCF sp.id none body cs7
    have hs8 : cs8.code.size = cs.code.size + 1 + 2 + lb := by
      rw [A.size, hs7, gen_length]; simp only [List.map_cons, BI.shape, c, hlb]
    let cs10 := cs8.emit (Instr.jump (CS.rel cs3.size cs8.size))
    have P3 := P2.step A
    have P4 := P3.step (EqR.emit P3.inv (Instr.jump (CS.rel cs3.size cs8.size)))
    have hfresh : cs.code.size + 1 ∉ pendAll cs10.blocks := by
      show cs.code.size + 1 ∉ pendAll cs8.blocks
      apply fresh_of_new (bs0 := cs7.blocks) (n := cs.code.size + 1 + 2)
      · intro k hk
        rw [hb7] at hk
        have : k ∈ pendAll cs.blocks := by simpa [pendAll, List.flatMap_cons] using hk
        have := hi.p k this
        omega
      · omega
      · intro k hk
        rcases A.new k hk with h | h
        · exact Or.inl h
        · exact Or.inr (by rw [hs7] at h; exact h)
    have P5 := InR.patch (A := [Instr.iterateP sp]) (y := Instr.nop)
      (Instr.iterNext (CS.rel cs10.size cs3.size)) (q := cs3.size)
      (by simpa using P4) (by rw [e3]; rfl) (by rw [e3]; exact hfresh)
    let cs11 := cs10.patch cs3.size (Instr.iterNext (CS.rel cs10.size cs3.size))
    let cs12 := (cs11.emit Instr.enumPop).emit (Instr.jump 2)
    have P5a := P5.step (EqR.emit P5.inv Instr.enumPop)
    have P6 := P5a.step (EqR.emit P5a.inv (Instr.jump 2))
    have hs10 : cs10.code.size = cs.code.size + 1 + 2 + lb + 1 := by simp [cs10, CS.emit, hs8]
    have hs12 : cs12.code.size = cs.code.size + 1 + 2 + lb + 1 + 2 := by
      simp [cs12, cs11, CS.emit, CS.patch, hs10]
    have L := P6.leave (fun b r hb => by
      refine ⟨hs12.symm, ?_⟩
      have hct := A.conts
      rw [hb7] at hct
      have hb12 : cs12.blocks = cs8.blocks := rfl
      rw [hb12] at hb
      rw [hb] at hct
      simp only [List.map_cons, List.cons.injEq] at hct
      show cs.code.size + 1 = b.cont
      rw [hct.1]; exact e3.symm)
    have F := L.snoc Instr.enumPopClose
    have hstate : compileCF cur lab (Stmt.forOf sp body) cs = cs12.leaveBlock.emit Instr.enumPopClose := by
      simp only [compileCF, hlex, Bool.false_eq_true, if_false]
      rfl
    rw [hstate]
    have e8 : cs8.size = cs.code.size + 1 + 2 + lb := hs8
    have e10 : cs10.size = cs.code.size + 1 + 2 + lb + 1 := hs10
    refine F.congrG ?_
    rw [e10, e3, e8]
    simp [c, Nat.add_assoc]
  | lbl l s ih =>
    intro cur lab ctx cs hst _ hi hnop
    simp only [stage1, Bool.and_eq_true] at hst
    by_cases hlo : isLoop s = true
    · rw [compileCF_lbl_loop cur lab l s cs hlo]
      simp only [gen, hlo, if_true] at hnop ⊢
      exact ih cur (some l) ctx cs hst.1 (fun h => by simp [hlo] at h) hi hnop
    · have hlo' : isLoop s = false := by simpa using hlo
      rw [compileCF_lbl_generic cur lab l s cs hlo']
      simp only [gen, hlo', Bool.false_eq_true, if_false] at hnop ⊢
      have P0 := InR.push (c := BI.label l (cs.code.size + glen s none (BS.label l :: ctx.map BI.shape)))
        (b0 := { typ := BT.label, label := some l }) hi ⟨rfl, rfl, rfl, rfl⟩ rfl rfl
      have A := ih cur none (BI.label l (cs.code.size + glen s none (BS.label l :: ctx.map BI.shape)) :: ctx) _ hst.1
        (fun _ => rfl) P0.inv (by simpa [CS.push] using hnop)
      have P1 := P0.step A
      have L := P1.leave (fun b r hb => by
        show _ = _
        rw [P1.size]; simp [gen_length, BI.shape])
      simpa [CS.push] using L
  | sw u k a b iha ihb =>
    intro cur lab ctx cs hst _ hi hnop
    simp only [stage1, Bool.and_eq_true] at hst
    obtain ⟨hsa, hsb⟩ := hst
    simp only [gen] at hnop ⊢
    generalize hla : glen a none (BS.switch_ :: ctx.map BI.shape) = la at *
    generalize hlb : glen b none (BS.switch_ :: ctx.map BI.shape) = lb at *
    have hna : Instr.nop ∉ gen a cur none (BI.switch_ (cs.code.size + 15 + la + lb) :: ctx) (cs.code.size + 15) :=
      fun h => hnop (by simp [h])
    have hnb : Instr.nop ∉ gen b cur none (BI.switch_ (cs.code.size + 15 + la + lb) :: ctx) (cs.code.size + 15 + la) :=
      fun h => hnop (by simp [h])
    let c : BI := BI.switch_ (cs.code.size + 15 + la + lb)
    let cs1 := cs.push { typ := BT.switch_ }
    have P0 : InR c ctx cs cs1 [] := InR.push hi ⟨rfl, rfl, rfl, rfl⟩ rfl rfl
    let cs2 := cs1.emit (Instr.loadSel u k cur)
    let cs3 := ((((cs2.emit Instr.dup).emit (Instr.loadVal 0)).emit Instr.strictEq).emit (Instr.jneP 3)).emit Instr.pop
    let cs4 := cs3.emit Instr.nop
    let cs5 := ((((cs4.emit Instr.dup).emit (Instr.loadVal 1)).emit Instr.strictEq).emit (Instr.jneP 3)).emit Instr.pop
    let cs6 := cs5.emit Instr.nop
    let cs7 := cs6.emit Instr.pop
    let cs8 := cs7.emit Instr.nop
    have E15 : EqR (c :: ctx) cs1 cs8 [Instr.loadSel u k cur,
        Instr.dup, Instr.loadVal 0, Instr.strictEq, Instr.jneP 3, Instr.pop, Instr.nop,
        Instr.dup, Instr.loadVal 1, Instr.strictEq, Instr.jneP 3, Instr.pop, Instr.nop,
        Instr.pop, Instr.nop] := by
      have h0 := EqR.refl (ctx := c :: ctx) P0.inv
      have h1 := h0.snoc (Instr.loadSel u k cur)
      have h2 := h1.snoc Instr.dup
      have h3 := h2.snoc (Instr.loadVal 0)
      have h4 := h3.snoc Instr.strictEq
      have h5 := h4.snoc (Instr.jneP 3)
      have h6 := h5.snoc Instr.pop
      have h7 := h6.snoc Instr.nop
      have h8 := h7.snoc Instr.dup
      have h9 := h8.snoc (Instr.loadVal 1)
      have h10 := h9.snoc Instr.strictEq
      have h11 := h10.snoc (Instr.jneP 3)
      have h12 := h11.snoc Instr.pop
      have h13 := h12.snoc Instr.nop
      have h14 := h13.snoc Instr.pop
      have h15 := h14.snoc Instr.nop
      have h := h15
      simpa using h
    have P1 := P0.step E15
    have e3 : cs3.size = cs.code.size + 6 := by simp [cs3, cs2, cs1, CS.emit, CS.push, CS.size]
    have e5 : cs5.size = cs.code.size + 12 := by simp [cs5, cs4, cs3, cs2, cs1, CS.emit, CS.push, CS.size]
    have e7 : cs7.size = cs.code.size + 14 := by simp [cs7, cs6, cs5, cs4, cs3, cs2, cs1, CS.emit, CS.push, CS.size]
    have hs8 : cs8.code.size = cs.code.size + 15 := by rw [P1.size]; rfl
    have hb8 : cs8.blocks = { typ := BT.switch_ } :: cs.blocks := rfl
    have hp8 : ∀ k, k ∈ pendAll cs8.blocks → k < cs.code.size := by
      intro k hk
      rw [hb8] at hk
      exact hi.p k (by simpa [pendAll, List.flatMap_cons] using hk)
    have P2 := InR.patch (A := [Instr.loadSel u k cur, Instr.dup, Instr.loadVal 0, Instr.strictEq, Instr.jneP 3, Instr.pop])
      (y := Instr.nop) (Instr.jump (CS.rel cs8.size cs3.size)) (q := cs3.size)
      (by simpa using P1) (by rw [e3]; rfl) (fun h => by have := hp8 _ h; rw [e3] at this; omega)
    let cs9 := cs8.patch cs3.size (Instr.jump (CS.rel cs8.size cs3.size))
    have hs9 : cs9.code.size = cs.code.size + 15 := by simp [cs9, CS.patch, hs8]
    have A0 := iha cur none (c :: ctx) cs9 hsa (fun _ => rfl) P2.inv (by rw [hs9]; exact hna)
    rw [hs9] at A0
    let cs10 := compileCF cur none a cs9
    have hs10 : cs10.code.size = cs.code.size + 15 + la := by
      rw [A0.size, hs9, gen_length]; simp only [List.map_cons, BI.shape, c, hla]
    have P3 := P2.step A0
    have hf10 : ∀ q, q < cs.code.size + 15 → cs.code.size ≤ q → q ∉ pendAll cs10.blocks := by
      intro q hq1 hq2
      apply fresh_of_new (bs0 := cs9.blocks) (n := cs.code.size + 15) (q := q)
      · intro k hk; have := hp8 k hk; omega
      · exact hq1
      · intro k hk
        rcases A0.new k hk with h | h
        · exact Or.inl h
        · exact Or.inr (by rw [hs9] at h; exact h)
    have P4 := InR.patch (A := [Instr.loadSel u k cur, Instr.dup, Instr.loadVal 0, Instr.strictEq, Instr.jneP 3, Instr.pop,
        Instr.jump (CS.rel cs8.size cs3.size), Instr.dup, Instr.loadVal 1, Instr.strictEq, Instr.jneP 3, Instr.pop])
      (y := Instr.nop) (Instr.jump (CS.rel cs10.size cs5.size)) (q := cs5.size)
      (by simpa using P3) (by rw [e5]; rfl) (by rw [e5]; exact hf10 _ (by omega) (by omega))
    let cs11 := cs10.patch cs5.size (Instr.jump (CS.rel cs10.size cs5.size))
    have hs11 : cs11.code.size = cs.code.size + 15 + la := by simp [cs11, CS.patch, hs10]
    have B0 := ihb cur none (c :: ctx) cs11 hsb (fun _ => rfl) P4.inv (by rw [hs11]; exact hnb)
    rw [hs11] at B0
    let cs12 := compileCF cur none b cs11
    have hs12 : cs12.code.size = cs.code.size + 15 + la + lb := by
      rw [B0.size, hs11, gen_length]; simp only [List.map_cons, BI.shape, c, hlb]
    have P5 := P4.step B0
    have hf12 : cs.code.size + 14 ∉ pendAll cs12.blocks := by
      intro hq
      rcases B0.new _ hq with h | h
      · exact hf10 _ (by omega) (by omega) h
      · rw [hs11] at h; omega
    have P6 := InR.patch (A := [Instr.loadSel u k cur, Instr.dup, Instr.loadVal 0, Instr.strictEq, Instr.jneP 3, Instr.pop,
        Instr.jump (CS.rel cs8.size cs3.size), Instr.dup, Instr.loadVal 1, Instr.strictEq, Instr.jneP 3, Instr.pop,
        Instr.jump (CS.rel cs10.size cs5.size), Instr.pop])
      (y := Instr.nop) (Instr.jump (CS.rel cs12.size cs7.size)) (q := cs7.size)
      (by simpa using P5) (by rw [e7]; rfl) (by rw [e7]; exact hf12)
    have L := P6.leave (fun b' r hb' => by
      show cs.code.size + 15 + la + lb = (cs12.patch _ _).code.size
      simp only [CS.patch, Array.size_setIfInBounds]; exact hs12.symm)
    have hstate : compileCF cur lab (Stmt.sw u k a b) cs
        = (cs12.patch cs7.size (Instr.jump (CS.rel cs12.size cs7.size))).leaveBlock := rfl
    rw [hstate]
    have e8 : cs8.size = cs.code.size + 15 := hs8
    have e10 : cs10.size = cs.code.size + 15 + la := hs10
    have e12 : cs12.size = cs.code.size + 15 + la + lb := hs12
    refine L.congrG ?_
    rw [e8, e10, e12, e3, e5, e7]
    simp [c, Nat.add_assoc]
  | withS s ih =>
    intro cur lab ctx cs hst _ hi hnop
    simp only [stage1] at hst
    simp only [gen, List.mem_append, List.mem_cons, List.mem_singleton, not_or] at hnop
    have E1 := (EqR.emit hi (Instr.loadVal 0)).trans (EqR.emit (Inv_emit hi _) Instr.enterWith)
    have hsz : ((cs.emit (Instr.loadVal 0)).emit Instr.enterWith).code.size = cs.code.size + 2 := by simp [CS.emit]
    have P0 := InR.push (c := BI.with_) (b0 := { typ := BT.with_ }) E1.inv ⟨rfl, rfl, rfl, rfl, rfl⟩ rfl rfl
    have hsz2 : (((cs.emit (Instr.loadVal 0)).emit Instr.enterWith).push { typ := BT.with_ }).code.size = cs.code.size + 2 := by
      simp [CS.emit, CS.push]
    have A := ih cur none (BI.with_ :: ctx) _ hst (fun _ => rfl) P0.inv (by rw [hsz2]; exact hnop.1.2)
    rw [hsz2] at A
    have P1 := (P0.step A).step (EqR.emit A.inv Instr.leaveWith)
    have L := P1.leave (fun _ _ _ => trivial)
    have := E1.trans L
    simpa [compileCF, gen] using this
  | blk s ih =>
    intro cur lab ctx cs hst _ hi hnop
    simp only [stage1] at hst
    simp only [gen, List.mem_append, List.mem_cons, List.mem_singleton, not_or] at hnop
    have P0 := InR.push (c := BI.scope 1) (b0 := { typ := BT.scope }) hi ⟨rfl, rfl, rfl, rfl⟩ rfl rfl
    have P1 := P0.step (EqR.emit P0.inv (Instr.enterBlock 1))
    have hsz : ((cs.push { typ := BT.scope }).emit (Instr.enterBlock 1)).code.size = cs.code.size + 1 := by
      simp [CS.push, CS.emit]
    have A := ih cur none (BI.scope 1 :: ctx) _ hst (fun _ => rfl) P1.inv (by rw [hsz]; exact hnop.1.2)
    rw [hsz] at A
    have P2 := P1.step A
    have := P2.leaveScope
    simpa [compileCF, gen] using this
  | ifIter m s ih =>
    intro cur lab ctx cs hst _ hi hnop
    simp only [stage1] at hst
    simp only [gen, List.mem_append, List.mem_cons, List.mem_singleton, not_or] at hnop
    have E1 := (EqR.emit hi (Instr.cntEq cur m)).trans (EqR.emit (Inv_emit hi _) Instr.nop)
    have hsz : ((cs.emit (Instr.cntEq cur m)).emit Instr.nop).code.size = cs.code.size + 2 := by simp [CS.emit]
    have A := ih cur none ctx _ hst (fun _ => rfl) E1.inv (by rw [hsz]; exact hnop.2)
    rw [hsz] at A
    have E2 := E1.trans A
    have hfresh : cs.code.size + 1 ∉ pendAll (compileCF cur none s ((cs.emit (Instr.cntEq cur m)).emit Instr.nop)).blocks :=
      fresh_of_new (bs0 := cs.blocks) (n := cs.code.size + 2) (fun k hk => Nat.lt_succ_of_lt (hi.p k hk)) (by omega)
        (fun k hk => by
          rcases A.new k hk with h | h
          · exact Or.inl (by simpa [CS.emit] using h)
          · exact Or.inr (by rw [hsz] at h; exact h))
    have E3 := EqR.patch (A := [Instr.cntEq cur m]) (y := Instr.nop)
      (Instr.jneP (CS.rel (compileCF cur none s ((cs.emit (Instr.cntEq cur m)).emit Instr.nop)).code.size (cs.code.size + 1)))
      (q := cs.code.size + 1) (by simpa using E2) (by simp) hfresh
    have hs3 : (compileCF cur none s ((cs.emit (Instr.cntEq cur m)).emit Instr.nop)).code.size
        = cs.code.size + 2 + glen s none (ctx.map BI.shape) := by rw [A.size, hsz, gen_length]
    rw [hs3] at E3
    have e1 : (cs.emit (Instr.cntEq cur m)).code.size = cs.code.size + 1 := by simp [CS.emit]
    simpa [compileCF, gen, e1, hs3, CS.size] using E3

/-! ### top level: the compositional emission IS the back-patching compiler's output -/

theorem RL_nil (cs : CS) : RL [] cs = cs.code.toList := by
  apply List.ext_getElem
  · simp [RL]
  · intro k h1 h2
    have hk : k < cs.code.size := by simpa [RL] using h1
    simp [RL, pend, hk]

end GojaModel.C08.S2
