/-
  C08 — the simulation theorem `sim` (statement level) for the stage-1 fragment.
-/
import GojaModel.C08.S2.Lemmas
import GojaModel.C08.Lemmas

namespace GojaModel.C08.S2
open Compl

attribute [local simp] VM.step VM.next VM.out VM.pushV VM.popV VM.top VM.jmp VM.setCnt VM.getCnt VM.boolV

/-- one ordinary instruction: the successor state and what it preserves -/
theorem one_step {C : Code} {σ : VM} {i : Instr} {l : List Ev} {I : List Nat} {rf : Bool}
    (hh : σ.halted = none) (hi : C[σ.pc]? = some i)
    (hc : Common σ (VM.step σ i) l I rf) : Reach C σ (VM.step σ i) ∧ Common σ (VM.step σ i) l I rf :=
  ⟨Reach.one hh hi, hc⟩

theorem findBrk_try {l : Option Label} {b : Bool} {ctx : List BI} {ex : List Instr} {t : Nat}
    (h : findBrk l b (BI.try_ :: ctx) = some (ex, t)) :
    ∃ ex', ex = Instr.leaveTry :: ex' ∧ findBrk l b ctx = some (ex', t) := by
  simp only [findBrk] at h
  cases h' : findBrk l b ctx with
  | none => simp [h'] at h
  | some p =>
    obtain ⟨ex', t'⟩ := p
    simp [h'] at h
    exact ⟨ex', h.1.symm, by rw [h.2]⟩

theorem findBrk_scope {l : Option Label} {b : Bool} {ctx : List BI} {n : Nat} {ex : List Instr} {t : Nat}
    (h : findBrk l b (BI.scope n :: ctx) = some (ex, t)) :
    ∃ ex', ex = Instr.leaveBlock n :: ex' ∧ findBrk l b ctx = some (ex', t) := by
  simp only [findBrk] at h
  cases h' : findBrk l b ctx with
  | none => simp [h'] at h
  | some p =>
    obtain ⟨ex', t'⟩ := p
    simp [h'] at h
    exact ⟨ex', h.1.symm, by rw [h.2]⟩

theorem findBrk_with {l : Option Label} {b : Bool} {ctx : List BI} {ex : List Instr} {t : Nat}
    (h : findBrk l b (BI.with_ :: ctx) = some (ex, t)) :
    ∃ ex', ex = Instr.leaveWith :: ex' ∧ findBrk l b ctx = some (ex', t) := by
  simp only [findBrk] at h
  cases h' : findBrk l b ctx with
  | none => simp [h'] at h
  | some p =>
    obtain ⟨ex', t'⟩ := p
    simp [h'] at h
    exact ⟨ex', h.1.symm, by rw [h.2]⟩

/-- an exit point in `x :: ctx` whose first exit instruction `i` is an ordinary one-step
instruction: after executing it the VM is at the exit point of `ctx` -/
theorem exitPt_peel {C : Code} {ctx : List BI} {τ : VM} {lb : Option Label} {b : Bool} {i : Instr}
    {ex' : List Instr} {t : Nat} (hf : findBrk lb b ctx = some (ex', t))
    (hc : CodeAt C τ.pc ((i :: ex') ++ [Instr.jump (CS.rel t (τ.pc + (i :: ex').length))])) (τ' : VM)
    (hpc : τ'.pc = τ.pc + 1) : ExitPt C ctx τ' lb b := by
  refine ⟨ex', t, hf, ?_⟩
  have := codeAt_tail hc
  rw [hpc]
  have e : τ.pc + (i :: ex').length = τ.pc + 1 + ex'.length := by simp; omega
  rw [e] at this
  exact this

/-- leaving a block scope (`blk`, catch parameter scope): the inner statement ran with `n` extra
stack slots in context `scope n :: ctx`; the code `leaveBlock n` follows it at `e1`. -/
theorem wrapScope {C : Code} {ctx : List BI} {src base σ1 : VM} {n e1 : Nat} {I : List Nat} {rf : Bool}
    {l0 l : List Ev} {k : K} (ys : List Val) (hn : ys.length = n)
    (hr0 : Reach C src σ1) (hc0 : Common base σ1 l0 I rf) (hs : σ1.stack = ys ++ base.stack)
    (hleave : C[e1]? = some (Instr.leaveBlock n))
    (hsim : SimK C (BI.scope n :: ctx) σ1 e1 I rf l k) : SimG C ctx src base (e1 + 1) I rf (l0 ++ l) k := by
  cases k with
  | normal =>
    obtain ⟨τ, h1, h2, h3, h4⟩ := hsim
    refine ⟨VM.step τ (.leaveBlock n), hr0.trans (h1.trans (Reach.one h2.halted (by rw [h3]; exact hleave))), ?_, ?_, ?_⟩
    · have : Common τ (VM.step τ (.leaveBlock n)) [] I rf :=
        ⟨by simp, by simp, by simpa using h2.iters, by simpa using h2.halted, fun _ _ => by simp, fun _ => by simp⟩
      simpa using hc0.trans (h2.trans this)
    · simp [h3]
    · simp [h4, hs, ← hn]
  | brk lb =>
    obtain ⟨τ, h1, h2, h3, ex, t, hf, hcd⟩ := hsim
    obtain ⟨ex', rfl, hf'⟩ := findBrk_scope hf
    have hi : C[τ.pc]? = some (Instr.leaveBlock n) := codeAt_head hcd
    refine ⟨VM.step τ (.leaveBlock n), hr0.trans (h1.trans (Reach.one h2.halted hi)), ?_, ?_, ?_⟩
    · have : Common τ (VM.step τ (.leaveBlock n)) [] I rf :=
        ⟨by simp, by simp, by simpa using h2.iters, by simpa using h2.halted, fun _ _ => by simp, fun _ => by simp⟩
      simpa using hc0.trans (h2.trans this)
    · simp [h3, hs, ← hn]
    · exact exitPt_peel hf' hcd _ (by simp)
  | cont lb =>
    obtain ⟨τ, h1, h2, h3, ex, t, hf, hcd⟩ := hsim
    obtain ⟨ex', rfl, hf'⟩ := findBrk_scope hf
    have hi : C[τ.pc]? = some (Instr.leaveBlock n) := codeAt_head hcd
    refine ⟨VM.step τ (.leaveBlock n), hr0.trans (h1.trans (Reach.one h2.halted hi)), ?_, ?_, ?_⟩
    · have : Common τ (VM.step τ (.leaveBlock n)) [] I rf :=
        ⟨by simp, by simp, by simpa using h2.iters, by simpa using h2.halted, fun _ _ => by simp, fun _ => by simp⟩
      simpa using hc0.trans (h2.trans this)
    · simp [h3, hs, ← hn]
    · exact exitPt_peel hf' hcd _ (by simp)
  | ret v =>
    obtain ⟨τ, h1, h2, ⟨xs, h3⟩, h4⟩ := hsim
    exact ⟨τ, hr0.trans h1, hc0.weaken.trans h2, ⟨xs ++ ys, by rw [h3, hs]; simp⟩, h4⟩
  | thr v =>
    obtain ⟨τ, its, l1, hl, h2, ⟨xs, h3⟩, h4⟩ := hsim
    exact ⟨τ, its, l0 ++ l1, by rw [hl, List.append_assoc], hc0.transT h2, ⟨xs ++ ys, by rw [h3, hs]; simp⟩, hr0.trans h4⟩
  | fatal =>
    obtain ⟨τ, h1, h2, h3⟩ := hsim
    exact ⟨τ, hr0.trans h1, by rw [h2, hc0.log, List.append_assoc], h3⟩

/-- leaving a `with` statement -/
theorem wrapWith {C : Code} {ctx : List BI} {σ σ1 : VM} {e1 : Nat} {I : List Nat} {rf : Bool}
    {l0 l : List Ev} {k : K}
    (hr0 : Reach C σ σ1) (hc0 : Common σ σ1 l0 I rf) (hs : σ1.stack = σ.stack)
    (hleave : C[e1]? = some Instr.leaveWith)
    (hsim : SimK C (BI.with_ :: ctx) σ1 e1 I rf l k) : SimK C ctx σ (e1 + 1) I rf (l0 ++ l) k := by
  cases k with
  | normal =>
    obtain ⟨τ, h1, h2, h3, h4⟩ := hsim
    refine ⟨VM.step τ .leaveWith, hr0.trans (h1.trans (Reach.one h2.halted (by rw [h3]; exact hleave))), ?_, ?_, ?_⟩
    · have : Common τ (VM.step τ .leaveWith) [] I rf :=
        ⟨by simp, by simp, by simpa using h2.iters, by simpa using h2.halted, fun _ _ => by simp, fun _ => by simp⟩
      simpa using hc0.trans (h2.trans this)
    · simp [h3]
    · simp [h4, hs]
  | brk lb =>
    obtain ⟨τ, h1, h2, h3, ex, t, hf, hcd⟩ := hsim
    obtain ⟨ex', rfl, hf'⟩ := findBrk_with hf
    have hi : C[τ.pc]? = some Instr.leaveWith := codeAt_head hcd
    refine ⟨VM.step τ .leaveWith, hr0.trans (h1.trans (Reach.one h2.halted hi)), ?_, ?_, ?_⟩
    · have : Common τ (VM.step τ .leaveWith) [] I rf :=
        ⟨by simp, by simp, by simpa using h2.iters, by simpa using h2.halted, fun _ _ => by simp, fun _ => by simp⟩
      simpa using hc0.trans (h2.trans this)
    · simp [h3, hs]
    · exact exitPt_peel hf' hcd _ (by simp)
  | cont lb =>
    obtain ⟨τ, h1, h2, h3, ex, t, hf, hcd⟩ := hsim
    obtain ⟨ex', rfl, hf'⟩ := findBrk_with hf
    have hi : C[τ.pc]? = some Instr.leaveWith := codeAt_head hcd
    refine ⟨VM.step τ .leaveWith, hr0.trans (h1.trans (Reach.one h2.halted hi)), ?_, ?_, ?_⟩
    · have : Common τ (VM.step τ .leaveWith) [] I rf :=
        ⟨by simp, by simp, by simpa using h2.iters, by simpa using h2.halted, fun _ _ => by simp, fun _ => by simp⟩
      simpa using hc0.trans (h2.trans this)
    · simp [h3, hs]
    · exact exitPt_peel hf' hcd _ (by simp)
  | ret v =>
    obtain ⟨τ, h1, h2, ⟨xs, h3⟩, h4⟩ := hsim
    exact ⟨τ, hr0.trans h1, hc0.weaken.trans h2, ⟨xs, by rw [h3, hs]⟩, h4⟩
  | thr v =>
    obtain ⟨τ, its, l1, hl, h2, ⟨xs, h3⟩, h4⟩ := hsim
    exact ⟨τ, its, l0 ++ l1, by rw [hl, List.append_assoc], hc0.transT h2, ⟨xs, by rw [h3, hs]⟩, hr0.trans h4⟩
  | fatal =>
    obtain ⟨τ, h1, h2, h3⟩ := hsim
    exact ⟨τ, hr0.trans h1, by rw [h2, hc0.log, List.append_assoc], h3⟩

theorem SimK.end_irrel {C : Code} {ctx : List BI} {σ : VM} {e e' : Nat} {I : List Nat} {rf : Bool}
    {l : List Ev} {k : K} (hk : k ≠ K.normal) (h : SimK C ctx σ e I rf l k) : SimK C ctx σ e' I rf l k := by
  cases k with
  | normal => exact absurd rfl hk
  | _ => exact h

/-- sequencing -/
theorem simSeq {C : Code} {ctx : List BI} {σ : VM} {e1 e2 : Nat} {I : List Nat} {rf : Bool}
    {ra : Res} {rb : Unit → Res}
    (ha : SimK C ctx σ e1 I rf ra.2 (kind ra.1))
    (hb : ∀ τ, Reach C σ τ → Common σ τ ra.2 I rf → τ.pc = e1 → τ.stack = σ.stack →
        SimK C ctx τ e2 I rf (rb ()).2 (kind (rb ()).1)) :
    SimK C ctx σ e2 I rf (seqRes ra rb).2 (kind (seqRes ra rb).1) := by
  obtain ⟨ca, la⟩ := ra
  cases ca with
  | normal va =>
    obtain ⟨τ, h1, h2, h3, h4⟩ := ha
    have hb' := hb τ h1 h2 h3 h4
    simp only [seqRes]
    cases hrb : rb () with
    | mk cb lb =>
      rw [hrb] at hb'
      cases va with
      | none => exact SimK.prepend h1 h2 h4 hb'
      | some v =>
        show SimK C ctx σ e2 I rf (la ++ lb) (kind (cb.updateEmpty v))
        rw [kind_updateEmpty]
        exact SimK.prepend h1 h2 h4 hb'
  | brk l v => exact SimK.end_irrel (k := K.brk l) (by simp) ha
  | cont l v => exact SimK.end_irrel (k := K.cont l) (by simp) ha
  | ret v => exact SimK.end_irrel (k := K.ret v) (by simp) ha
  | thr v => exact SimK.end_irrel (k := K.thr v) (by simp) ha
  | fatal => exact SimK.end_irrel (k := K.fatal) (by simp) ha

/-- what a labelled statement does to the kind of its body's completion -/
def lblK (l : Label) : K → K
  | .brk (some l') => if l' = l then .normal else .brk (some l')
  | k => k

theorem exec_lbl_kind (env : Nat) (ls : List Label) (l : Label) (s : Stmt) :
    kind (exec env ls (Stmt.lbl l s)).1 = lblK l (kind (exec env (l :: ls) s).1) ∧
    (exec env ls (Stmt.lbl l s)).2 = (exec env (l :: ls) s).2 := by
  simp only [exec]
  cases h : exec env (l :: ls) s with
  | mk c lg =>
    cases c with
    | brk lb v =>
      cases lb with
      | none => simp [kind, lblK]
      | some l' => by_cases h : l' = l <;> simp [h, kind, lblK]
    | _ => simp [kind, lblK]

/-- leaving a labelled (non-loop) statement: `break l` jumps to the end of the statement -/
theorem wrapLabel {C : Code} {ctx : List BI} {σ : VM} {l : Label} {bp : Nat} {I : List Nat} {rf : Bool}
    {lg : List Ev} {k : K}
    (hsim : SimK C (BI.label l bp :: ctx) σ bp I rf lg k) : SimK C ctx σ bp I rf lg (lblK l k) := by
  cases k with
  | normal => exact hsim
  | brk lb =>
    obtain ⟨τ, h1, h2, h3, ex, t, hf, hcd⟩ := hsim
    cases lb with
    | none =>
      simp only [findBrk] at hf
      exact ⟨τ, h1, h2, h3, ex, t, by simpa using hf, hcd⟩
    | some l' =>
      by_cases hl : l' = l
      · subst hl
        have hf2 : ex = [] ∧ t = bp := by simpa [findBrk, eq_comm] using hf
        obtain ⟨hex, ht⟩ := hf2
        subst hex
        subst ht
        have hi : C[τ.pc]? = some (Instr.jump (CS.rel t (τ.pc + 0))) := codeAt_head hcd
        simp only [lblK, if_true]
        refine ⟨VM.step τ (.jump (CS.rel t (τ.pc + 0))), h1.trans (Reach.one h2.halted hi), ?_, ?_, ?_⟩
        · have : Common τ (VM.step τ (.jump (CS.rel t (τ.pc + 0)))) [] I rf :=
            ⟨by simp, by simp, by simpa using h2.iters, by simpa using h2.halted, fun _ _ => by simp, fun _ => by simp⟩
          simpa using h2.trans this
        · have := jmp_rel τ.pc t
          simpa using this
        · simpa using h3
      · have hne : ¬ (l' = l) := hl
        simp only [lblK, hl, if_false]
        simp only [findBrk] at hf
        have hf' : findBrk (some l') true ctx = some (ex, t) := by
          simpa [hl] using hf
        exact ⟨τ, h1, h2, h3, ex, t, hf', hcd⟩
  | cont lb =>
    obtain ⟨τ, h1, h2, h3, ex, t, hf, hcd⟩ := hsim
    simp only [findBrk] at hf
    have hf' : findBrk lb false ctx = some (ex, t) := by
      by_cases hl : lb = some l
      · simp [hl] at hf
      · simpa [hl] using hf
    exact ⟨τ, h1, h2, h3, ex, t, hf', hcd⟩
  | ret v => exact hsim
  | thr v => exact hsim
  | fatal => exact hsim

theorem exec_lbl_adj (env : Nat) (l : Label) (s : Stmt) :
    exec env [] (Stmt.lbl l s) = adj (some l) (exec env [l] s) := by
  simp only [exec, adj]
  cases h : exec env [l] s with
  | mk c lg =>
    cases c with
    | brk lb v =>
      cases lb with
      | none => rfl
      | some l' =>
        by_cases hl : l' = l
        · subst hl; simp
        · have : ¬ (l = l') := fun h => hl h.symm
          simp [hl, this]
    | _ => rfl

/-- handleThrow never reads the `tries` field of the state it is given (it is passed the frames) -/
theorem handleThrow_tries_irrel (ex : Option Val) (fs : List TryFrame) (vm : VM) (x : List TryFrame) :
    VM.handleThrow ex fs { vm with tries := x } = VM.handleThrow ex fs vm := by
  induction fs generalizing vm with
  | nil => simp [VM.handleThrow, VM.closeIters]
  | cons tf rest ih =>
    simp only [VM.handleThrow]
    split
    · exact ih vm
    · simp only [VM.closeIters, VM.setSp]
      split
      · rfl
      · split <;> rfl

theorem closeIters_go_zero_nocall (its : List IterItem) (acc : List Ev) :
    VM.closeIters.go 0 false its acc = ([], acc) := by
  induction its generalizing acc with
  | nil => simp [VM.closeIters.go]
  | cons it rest ih =>
    simp only [VM.closeIters.go]
    have h : ¬ (rest.length + 1 ≤ 0) := by omega
    simp only [h, if_false]
    cases hs : it.sp <;> simp [ih]

/-- restoreStacks down to a frame: exactly the iterators above the frame's recorded height are closed, innermost first -/
theorem closeIters_go_above (xs B : List IterItem) (acc : List Ev) :
    VM.closeIters.go B.length true (xs ++ B) acc = (B, acc ++ clEv xs) := by
  induction xs generalizing acc with
  | nil =>
    cases B with
    | nil => simp [VM.closeIters.go, clEv]
    | cons b r => simp [VM.closeIters.go, clEv]
  | cons x r ih =>
    simp only [List.cons_append, VM.closeIters.go]
    have h : ¬ ((r ++ B).length + 1 ≤ B.length) := by simp; omega
    simp only [h, if_false]
    cases hs : x.sp <;> simp [ih, clEv, hs]

theorem closeIters_above (vm : VM) (xs B : List IterItem) (n : Nat) (hi : vm.iters = xs ++ B) (hn : n = B.length) :
    VM.closeIters n true vm = { vm with iters := B, log := vm.log ++ clEv xs } := by
  subst hn
  simp [VM.closeIters, hi, closeIters_go_above]

theorem throw_to_finally {v : Val} {τ : VM} {g : TryFrame} {rest : List TryFrame} {p : Nat} {xs B : List IterItem}
    (ht : τ.tries = g :: rest) (hcp : g.catchPos = none) (hfp : g.finallyPos = some p)
    (hi : τ.iters = xs ++ B) (hil : g.iterLen = B.length) :
    VM.throwV (some v) τ =
      { τ with stack := τ.stack.drop (τ.stack.length - g.sp)
               pc := p
               tries := ({ g with exc := some v, finallyPos := none, finallyRet := none } : TryFrame) :: rest
               iters := B
               log := τ.log ++ clEv xs } := by
  have hc := closeIters_above (τ.setSp g.sp) xs B g.iterLen (by simpa [VM.setSp] using hi) hil
  simp only [VM.throwV, ht, VM.handleThrow, hcp, hfp, hc]
  simp [VM.setSp]

theorem throw_to_catch {v : Val} {τ : VM} {g : TryFrame} {rest : List TryFrame} {p : Nat} {xs B : List IterItem}
    (ht : τ.tries = g :: rest) (hcp : g.catchPos = some p)
    (hi : τ.iters = xs ++ B) (hil : g.iterLen = B.length) :
    VM.throwV (some v) τ =
      { τ with stack := v :: τ.stack.drop (τ.stack.length - g.sp)
               pc := p
               tries := ({ g with catchPos := none } : TryFrame) :: rest
               iters := B
               log := τ.log ++ clEv xs } := by
  have hc := closeIters_above (τ.setSp g.sp) xs B g.iterLen (by simpa [VM.setSp] using hi) hil
  simp only [VM.throwV, ht, VM.handleThrow, hcp, hc]
  simp [VM.setSp, VM.pushV]

theorem throw_uncaught {v : Val} {τ : VM} (ht : τ.tries = []) (xs : List IterItem) (hi : τ.iters = xs) :
    VM.throwV (some v) τ = { τ with tries := [], iters := [], log := τ.log ++ clEv xs, halted := some (Compl.thr v) } := by
  have hc := closeIters_above { τ with tries := [] } xs [] 0 (by simpa using hi) rfl
  simp only [VM.throwV, ht, VM.handleThrow, Option.isSome_some, hc]
/-- an uncatchable error skips every frame, calls no return(), and leaves run() -/
theorem handleThrow_none (fs : List TryFrame) (vm : VM) :
    ((VM.handleThrow none fs vm).halted = some Compl.fatal ∧ (VM.handleThrow none fs vm).tries = [] ∧
      (VM.handleThrow none fs vm).iters = []) ∧ (VM.handleThrow none fs vm).log = vm.log := by
  induction fs with
  | nil => simp [VM.handleThrow, VM.closeIters, closeIters_go_zero_nocall]
  | cons tf rest ih => simpa [VM.handleThrow] using ih

theorem SimG.prependG {C : Code} {ctx : List BI} {src mid base midB : VM} {e : Nat} {I : List Nat} {rf : Bool}
    {l1 l2 : List Ev} {k : K} (hr : Reach C src mid) (hc : Common base midB l1 I rf) (hs : midB.stack = base.stack)
    (h : SimG C ctx mid midB e I rf l2 k) : SimG C ctx src base e I rf (l1 ++ l2) k := by
  cases k with
  | normal => obtain ⟨τ, h1, h2, h3, h4⟩ := h; exact ⟨τ, hr.trans h1, hc.trans h2, h3, by rw [h4, hs]⟩
  | brk lb => obtain ⟨τ, h1, h2, h3, h4⟩ := h; exact ⟨τ, hr.trans h1, hc.trans h2, by rw [h3, hs], h4⟩
  | cont lb => obtain ⟨τ, h1, h2, h3, h4⟩ := h; exact ⟨τ, hr.trans h1, hc.trans h2, by rw [h3, hs], h4⟩
  | ret v =>
    obtain ⟨τ, h1, h2, ⟨xs, h3⟩, h4⟩ := h
    exact ⟨τ, hr.trans h1, hc.weaken.trans h2, ⟨xs, by rw [h3, hs]⟩, h4⟩
  | thr v =>
    obtain ⟨τ, its, l0, hl, h2, ⟨xs, h3⟩, h4⟩ := h
    exact ⟨τ, its, l1 ++ l0, by rw [hl, List.append_assoc], hc.transT h2, ⟨xs, by rw [h3, hs]⟩, hr.trans h4⟩
  | fatal =>
    obtain ⟨τ, h1, h2, h3⟩ := h
    exact ⟨τ, hr.trans h1, by rw [h2, hc.log, List.append_assoc], h3⟩

theorem SimG.end_irrel {C : Code} {ctx : List BI} {src base : VM} {e e' : Nat} {I : List Nat} {rf : Bool}
    {l : List Ev} {k : K} (hk : k ≠ K.normal) (h : SimG C ctx src base e I rf l k) : SimG C ctx src base e' I rf l k := by
  cases k with
  | normal => exact absurd rfl hk
  | _ => exact h

/-- an abrupt completion leaving a try statement whose frame is "dead" (its finally block is
running or absent, its catch clause is disarmed): break/continue and return pop the frame with
leaveTry, handleThrow skips it. -/
theorem peelDead {C : Code} {ctx : List BI} {src base : VM} {g : TryFrame} {rest : List TryFrame}
    {e e' : Nat} {I : List Nat} {rf : Bool} {l : List Ev} {k : K}
    (hg1 : g.finallyPos = none) (hg2 : ∀ v, k = K.thr v → g.catchPos = none) (hb : base.tries = g :: rest)
    (hk : k ≠ K.normal) (h : SimG C (BI.try_ :: ctx) src base e I rf l k) :
    SimG C ctx src { base with tries := rest } e' I rf l k := by
  cases k with
  | normal => exact absurd rfl hk
  | brk lb =>
    obtain ⟨τ, h1, h2, h3, ex, t, hf, hcd⟩ := h
    obtain ⟨ex', rfl, hf'⟩ := findBrk_try hf
    have hi : C[τ.pc]? = some Instr.leaveTry := codeAt_head hcd
    have ht : τ.tries = g :: rest := by rw [h2.tries, hb]
    have hstep : VM.step τ .leaveTry = { τ with tries := rest, pc := τ.pc + 1 } := by
      simp [ht, hg1]
    refine ⟨VM.step τ .leaveTry, h1.trans (Reach.one h2.halted hi), ?_, ?_, ?_⟩
    · rw [hstep]
      exact ⟨h2.log, rfl, h2.iters, h2.halted, h2.cnt, h2.res⟩
    · rw [hstep]; exact h3
    · exact exitPt_peel hf' hcd _ (by rw [hstep])
  | cont lb =>
    obtain ⟨τ, h1, h2, h3, ex, t, hf, hcd⟩ := h
    obtain ⟨ex', rfl, hf'⟩ := findBrk_try hf
    have hi : C[τ.pc]? = some Instr.leaveTry := codeAt_head hcd
    have ht : τ.tries = g :: rest := by rw [h2.tries, hb]
    have hstep : VM.step τ .leaveTry = { τ with tries := rest, pc := τ.pc + 1 } := by
      simp [ht, hg1]
    refine ⟨VM.step τ .leaveTry, h1.trans (Reach.one h2.halted hi), ?_, ?_, ?_⟩
    · rw [hstep]
      exact ⟨h2.log, rfl, h2.iters, h2.halted, h2.cnt, h2.res⟩
    · rw [hstep]; exact h3
    · exact exitPt_peel hf' hcd _ (by rw [hstep])
  | ret v =>
    obtain ⟨τ, h1, h2, ⟨xs, h3⟩, h4⟩ := h
    simp only [retExitsS, List.cons_append, List.nil_append] at h4
    have i1 : C[τ.pc]? = some Instr.saveResult := codeAt_head h4
    have i2 : C[τ.pc + 1]? = some Instr.leaveTry := codeAt_head (codeAt_tail h4)
    have i3 : C[τ.pc + 1 + 1]? = some Instr.loadResult := codeAt_head (codeAt_tail (codeAt_tail h4))
    have h5 : CodeAt C (τ.pc + 1 + 1 + 1) (retExitsS ctx ++ [Instr.ret]) := codeAt_tail (codeAt_tail (codeAt_tail h4))
    have ht : τ.tries = g :: rest := by rw [h2.tries, hb]
    let τa := VM.step τ .saveResult
    have ea : τa = { τ with stack := xs ++ base.stack, result := v, pc := τ.pc + 1 } := by
      simp [τa, h3]
    let τb := VM.step τa .leaveTry
    have eb : τb = { τ with stack := xs ++ base.stack, result := v, pc := τ.pc + 1 + 1, tries := rest } := by
      simp only [τb]; rw [ea]; simp [ht, hg1]
    let τc := VM.step τb .loadResult
    have ec : τc = { τ with stack := v :: (xs ++ base.stack), result := v, pc := τ.pc + 1 + 1 + 1, tries := rest } := by
      simp only [τc]; rw [eb]; simp
    have r1 : Reach C τ τc := by
      refine Reach.step h2.halted i1 (Reach.step ?_ ?_ (Reach.one ?_ ?_))
      · show τa.halted = none; rw [ea]; exact h2.halted
      · show C[τa.pc]? = _; rw [ea]; exact i2
      · show τb.halted = none; rw [eb]; exact h2.halted
      · show C[τb.pc]? = _; rw [eb]; exact i3
    refine ⟨τc, h1.trans r1, ?_, ⟨xs, by rw [ec]⟩, by rw [ec]; exact h5⟩
    rw [ec]
    exact ⟨h2.log, rfl, h2.iters, h2.halted, h2.cnt, fun h => by simp at h⟩
  | thr v =>
    obtain ⟨τ, its, l0, hl, h2, ⟨xs, h3⟩, h4⟩ := h
    have ht : τ.tries = g :: rest := by rw [h2.tries]; exact hb
    refine ⟨{ τ with tries := rest }, its, l0, hl, ⟨h2.log, rfl, h2.iters, h2.halted, h2.cnt, h2.res⟩, ⟨xs, h3⟩, ?_⟩
    have : VM.throwV (some v) { τ with tries := rest } = VM.throwV (some v) τ := by
      simp only [VM.throwV, ht]
      rw [handleThrow_tries_irrel]
      simp [VM.handleThrow, hg1, hg2 v rfl]
    rw [this]; exact h4
  | fatal => exact h

theorem drop_ext (xs b : List Val) : (xs ++ b).drop ((xs ++ b).length - b.length) = b := by
  induction xs with
  | nil => simp
  | cons x xs ih =>
    have : (x :: (xs ++ b)).length - b.length = ((xs ++ b).length - b.length) + 1 := by
      simp [List.length_append]; omega
    rw [List.cons_append, this, List.drop_succ_cons]; exact ih

/-- a try statement WITHOUT finally: after the try/catch part the frame is popped by leaveTry -/
theorem noFinallyStage {C : Code} {ctx : List BI} {src base : VM} {g : TryFrame} {rest : List TryFrame}
    {pcF : Nat} {I : List Nat} {rf : Bool} {l : List Ev} {k : K}
    (hg1 : g.finallyPos = none) (hthr : ∀ v, k = K.thr v → g.catchPos = none) (hb : base.tries = g :: rest)
    (hleave : C[pcF]? = some Instr.leaveTry)
    (h : SimG C (BI.try_ :: ctx) src base pcF I rf l k) :
    SimG C ctx src { base with tries := rest } (pcF + 1) I rf l k := by
  by_cases hk : k = K.normal
  · subst hk
    obtain ⟨τ, h1, h2, h3, h4⟩ := h
    have ht : τ.tries = g :: rest := by rw [h2.tries, hb]
    have hstep : VM.step τ .leaveTry = { τ with tries := rest, pc := τ.pc + 1 } := by
      simp [ht, hg1]
    refine ⟨VM.step τ .leaveTry, h1.trans (Reach.one h2.halted (by rw [h3]; exact hleave)), ?_, ?_, ?_⟩
    · rw [hstep]; exact ⟨h2.log, rfl, h2.iters, h2.halted, h2.cnt, h2.res⟩
    · rw [hstep]; simp [h3]
    · rw [hstep]; exact h4
  · exact peelDead hg1 hthr hb hk h

/-- a try statement WITH finally: whatever the try/catch part did (kind `k`), the finally block runs
once from `pcF`; if it completes normally (`kf = normal`) the pending completion resumes (leaveFinally:
rethrow / jump to finallyRet / fall through), otherwise its own completion replaces the pending one. -/
theorem finallyStage {C : Code} {ctx : List BI} {src base : VM} {g : TryFrame} {rest : List TryFrame}
    {pcF lf env cur i : Nat} {I If : List Nat} {rf : Bool} {l lfl : List Ev} {k kf : K}
    (hg1 : g.finallyPos = some (pcF + 1)) (hgx : g.exc = none) (hgr : g.finallyRet = none)
    (hgsp : g.sp = base.stack.length) (hgil : g.iterLen = base.iters.length)
    (hthr : ∀ v, k = K.thr v → g.catchPos = none) (hret : ∀ v, k = K.ret v → rf = false) (hnf : k ≠ K.fatal)
    (hb : base.tries = g :: rest) (hbc : base.cnt cur = some env) (hcurI : cur ∉ I)
    (hsubI : ∀ x, x ∈ If → x ∈ I)
    (hE : C[pcF]? = some Instr.enterFinally) (hM : C[pcF + 1]? = some (Instr.emit (Ev.finE i)))
    (hL : C[pcF + 2 + lf]? = some Instr.leaveFinally)
    {rff : Bool} (hrff : rf = true → rff = true)
    (hF : ∀ τ : VM, τ.pc = pcF + 2 → τ.halted = none → τ.cnt cur = some env →
        SimK C (BI.try_ :: ctx) τ (pcF + 2 + lf) If rff lfl kf)
    (h : SimG C (BI.try_ :: ctx) src base pcF I rf l k) :
    SimG C ctx src { base with tries := rest } (pcF + 2 + lf + 1) I rf (l ++ Ev.finE i :: lfl)
      (if kf = K.normal then k else kf) := by
  have runFin : ∀ τF : VM, τF.pc = pcF + 1 → τF.halted = none → τF.cnt cur = some env →
      SimK C (BI.try_ :: ctx) τF (pcF + 2 + lf) I rf (Ev.finE i :: lfl) kf := by
    intro τF hp hh hc
    have c1 : Common τF (VM.step τF (.emit (.finE i))) [Ev.finE i] I rf :=
      ⟨by simp, by simp, by simp, by simpa using hh, fun _ _ => by simp, fun _ => by simp⟩
    have A := hF (VM.step τF (.emit (.finE i))) (by simp [hp]) c1.halted (by simpa using hc)
    have := SimK.prepend (Reach.one hh (by rw [hp]; exact hM)) c1 (by simp) (SimK.mono A hsubI hrff)
    simpa using this
  have abruptTail : kf ≠ K.normal → ∀ (τF : VM) (gd : TryFrame), gd.finallyPos = none → gd.catchPos = none →
      Reach C src τF → Common { base with tries := gd :: rest } τF l I rf → τF.stack = base.stack → τF.pc = pcF + 1 →
      SimG C ctx src { base with tries := rest } (pcF + 2 + lf + 1) I rf (l ++ Ev.finE i :: lfl) kf := by
    intro hkf τF gd hd1 hd2 hrF hcF hsF hpF
    have hcnt : τF.cnt cur = some env := by rw [hcF.cnt cur hcurI]; exact hbc
    have R := runFin τF hpF hcF.halted hcnt
    have R' : SimG C (BI.try_ :: ctx) τF τF (pcF + 2 + lf) I rf (Ev.finE i :: lfl) kf := R
    have P := peelDead (e' := pcF + 2 + lf + 1) hd1 (fun _ _ => hd2) hcF.tries hkf R'
    exact SimG.prependG (midB := { τF with tries := rest }) (base := { base with tries := rest }) hrF
      ⟨hcF.log, rfl, hcF.iters, hcF.halted, hcF.cnt, hcF.res⟩ hsF P
  cases k with
  | normal =>
    obtain ⟨τ, h1, h2, h3, h4⟩ := h
    have ht : τ.tries = g :: rest := by rw [h2.tries, hb]
    let gd : TryFrame := { g with finallyPos := none, catchPos := none }
    have hstep : VM.step τ .enterFinally = { τ with tries := gd :: rest, pc := pcF + 1 } := by
      simp [ht, gd, h3]
    have hrF : Reach C src (VM.step τ .enterFinally) := h1.trans (Reach.one h2.halted (by rw [h3]; exact hE))
    have hcF : Common { base with tries := gd :: rest } (VM.step τ .enterFinally) l I rf := by
      rw [hstep]; exact ⟨h2.log, rfl, h2.iters, h2.halted, h2.cnt, h2.res⟩
    have hsF : (VM.step τ .enterFinally).stack = base.stack := by rw [hstep]; exact h4
    have hpF : (VM.step τ .enterFinally).pc = pcF + 1 := by rw [hstep]
    by_cases hkf : kf = K.normal
    · subst hkf
      simp only [if_true]
      have hcnt : (VM.step τ .enterFinally).cnt cur = some env := by rw [hcF.cnt cur hcurI]; exact hbc
      obtain ⟨τ', r1, r2, r3, r4⟩ := runFin _ hpF hcF.halted hcnt
      have ht' : τ'.tries = gd :: rest := by rw [r2.tries, hstep]
      have hstep2 : VM.step τ' .leaveFinally = { τ' with tries := rest, pc := τ'.pc + 1 } := by
        simp [ht', gd, hgx, hgr]
      have cc : Common { base with tries := gd :: rest } τ' (l ++ Ev.finE i :: lfl) I rf :=
        hcF.trans r2
      refine ⟨VM.step τ' .leaveFinally, hrF.trans (r1.trans (Reach.one r2.halted (by rw [r3]; exact hL))), ?_, ?_, ?_⟩
      · rw [hstep2]; exact ⟨cc.log, rfl, cc.iters, cc.halted, cc.cnt, cc.res⟩
      · rw [hstep2]; simp [r3]
      · rw [hstep2]; show τ'.stack = base.stack; rw [r4, hsF]
    · simp only [hkf, if_false]
      exact abruptTail hkf _ gd rfl rfl hrF hcF hsF hpF
  | brk lb =>
    obtain ⟨τ, h1, h2, h3, ex, t, hf, hcd⟩ := h
    obtain ⟨ex', rfl, hf'⟩ := findBrk_try hf
    have hi : C[τ.pc]? = some Instr.leaveTry := codeAt_head hcd
    have ht : τ.tries = g :: rest := by rw [h2.tries, hb]
    let gd : TryFrame := { g with finallyRet := some (τ.pc + 1), finallyPos := none, catchPos := none, result := τ.result }
    have hstep : VM.step τ .leaveTry = { τ with tries := gd :: rest, pc := pcF + 1 } := by
      simp [ht, hg1, gd, VM.setSp, h3, hgsp]
    have hrF : Reach C src (VM.step τ .leaveTry) := h1.trans (Reach.one h2.halted hi)
    have hcF : Common { base with tries := gd :: rest } (VM.step τ .leaveTry) l I rf := by
      rw [hstep]; exact ⟨h2.log, rfl, h2.iters, h2.halted, h2.cnt, h2.res⟩
    have hsF : (VM.step τ .leaveTry).stack = base.stack := by rw [hstep]; exact h3
    have hpF : (VM.step τ .leaveTry).pc = pcF + 1 := by rw [hstep]
    by_cases hkf : kf = K.normal
    · subst hkf
      simp only [if_true]
      have hcnt : (VM.step τ .leaveTry).cnt cur = some env := by rw [hcF.cnt cur hcurI]; exact hbc
      obtain ⟨τ', r1, r2, r3, r4⟩ := runFin _ hpF hcF.halted hcnt
      have ht' : τ'.tries = gd :: rest := by rw [r2.tries, hstep]
      have hstep2 : VM.step τ' .leaveFinally = { τ' with tries := rest, pc := τ.pc + 1, result := τ.result } := by
        simp [ht', gd, hgx]
      have cc : Common { base with tries := gd :: rest } τ' (l ++ Ev.finE i :: lfl) I rf :=
        hcF.trans r2
      refine ⟨VM.step τ' .leaveFinally, hrF.trans (r1.trans (Reach.one r2.halted (by rw [r3]; exact hL))), ?_, ?_, ?_⟩
      · rw [hstep2]; exact ⟨cc.log, rfl, cc.iters, cc.halted, cc.cnt, fun hr => h2.res hr⟩
      · rw [hstep2]; show τ'.stack = base.stack; rw [r4, hsF]
      · exact exitPt_peel hf' hcd _ (by rw [hstep2])
    · simp only [hkf, if_false]
      exact abruptTail hkf _ gd rfl rfl hrF hcF hsF hpF
  | cont lb =>
    obtain ⟨τ, h1, h2, h3, ex, t, hf, hcd⟩ := h
    obtain ⟨ex', rfl, hf'⟩ := findBrk_try hf
    have hi : C[τ.pc]? = some Instr.leaveTry := codeAt_head hcd
    have ht : τ.tries = g :: rest := by rw [h2.tries, hb]
    let gd : TryFrame := { g with finallyRet := some (τ.pc + 1), finallyPos := none, catchPos := none, result := τ.result }
    have hstep : VM.step τ .leaveTry = { τ with tries := gd :: rest, pc := pcF + 1 } := by
      simp [ht, hg1, gd, VM.setSp, h3, hgsp]
    have hrF : Reach C src (VM.step τ .leaveTry) := h1.trans (Reach.one h2.halted hi)
    have hcF : Common { base with tries := gd :: rest } (VM.step τ .leaveTry) l I rf := by
      rw [hstep]; exact ⟨h2.log, rfl, h2.iters, h2.halted, h2.cnt, h2.res⟩
    have hsF : (VM.step τ .leaveTry).stack = base.stack := by rw [hstep]; exact h3
    have hpF : (VM.step τ .leaveTry).pc = pcF + 1 := by rw [hstep]
    by_cases hkf : kf = K.normal
    · subst hkf
      simp only [if_true]
      have hcnt : (VM.step τ .leaveTry).cnt cur = some env := by rw [hcF.cnt cur hcurI]; exact hbc
      obtain ⟨τ', r1, r2, r3, r4⟩ := runFin _ hpF hcF.halted hcnt
      have ht' : τ'.tries = gd :: rest := by rw [r2.tries, hstep]
      have hstep2 : VM.step τ' .leaveFinally = { τ' with tries := rest, pc := τ.pc + 1, result := τ.result } := by
        simp [ht', gd, hgx]
      have cc : Common { base with tries := gd :: rest } τ' (l ++ Ev.finE i :: lfl) I rf :=
        hcF.trans r2
      refine ⟨VM.step τ' .leaveFinally, hrF.trans (r1.trans (Reach.one r2.halted (by rw [r3]; exact hL))), ?_, ?_, ?_⟩
      · rw [hstep2]; exact ⟨cc.log, rfl, cc.iters, cc.halted, cc.cnt, fun hr => h2.res hr⟩
      · rw [hstep2]; show τ'.stack = base.stack; rw [r4, hsF]
      · exact exitPt_peel hf' hcd _ (by rw [hstep2])
    · simp only [hkf, if_false]
      exact abruptTail hkf _ gd rfl rfl hrF hcF hsF hpF
  | ret v =>
    obtain ⟨τ, h1, h2, ⟨xs, h3⟩, h4⟩ := h
    have hrf : rf = false := hret v rfl
    subst hrf
    simp only [retExitsS, List.cons_append, List.nil_append] at h4
    have i1 : C[τ.pc]? = some Instr.saveResult := codeAt_head h4
    have i2 : C[τ.pc + 1]? = some Instr.leaveTry := codeAt_head (codeAt_tail h4)
    have i3 : C[τ.pc + 1 + 1]? = some Instr.loadResult := codeAt_head (codeAt_tail (codeAt_tail h4))
    have h5 : CodeAt C (τ.pc + 1 + 1 + 1) (retExitsS ctx ++ [Instr.ret]) := codeAt_tail (codeAt_tail (codeAt_tail h4))
    have ht : τ.tries = g :: rest := by rw [h2.tries, hb]
    let gd : TryFrame := { g with finallyRet := some (τ.pc + 1 + 1), finallyPos := none, catchPos := none, result := v }
    have ea : VM.step τ .saveResult = { τ with stack := xs ++ base.stack, result := v, pc := τ.pc + 1 } := by
      simp [h3]
    have eb : VM.step (VM.step τ .saveResult) .leaveTry
        = { τ with stack := base.stack, result := v, pc := pcF + 1, tries := gd :: rest } := by
      rw [ea]; simp [ht, hg1, gd, VM.setSp, hgsp, drop_ext]
    have hrF : Reach C src (VM.step (VM.step τ .saveResult) .leaveTry) := by
      refine h1.trans (Reach.step h2.halted i1 (Reach.one ?_ ?_))
      · rw [ea]; exact h2.halted
      · rw [ea]; exact i2
    have hcF : Common { base with tries := gd :: rest } (VM.step (VM.step τ .saveResult) .leaveTry) l I false := by
      rw [eb]; exact ⟨h2.log, rfl, h2.iters, h2.halted, h2.cnt, fun h => by simp at h⟩
    have hsF : (VM.step (VM.step τ .saveResult) .leaveTry).stack = base.stack := by rw [eb]
    have hpF : (VM.step (VM.step τ .saveResult) .leaveTry).pc = pcF + 1 := by rw [eb]
    by_cases hkf : kf = K.normal
    · subst hkf
      simp only [if_true]
      have hcnt : (VM.step (VM.step τ .saveResult) .leaveTry).cnt cur = some env := by
        rw [hcF.cnt cur hcurI]; exact hbc
      obtain ⟨τ', r1, r2, r3, r4⟩ := runFin _ hpF hcF.halted hcnt
      have ht' : τ'.tries = gd :: rest := by rw [r2.tries, eb]
      have hstep2 : VM.step τ' .leaveFinally = { τ' with tries := rest, pc := τ.pc + 1 + 1, result := v } := by
        simp [ht', gd, hgx]
      have hst' : τ'.stack = base.stack := by rw [r4, hsF]
      have hstep3 : VM.step (VM.step τ' .leaveFinally) .loadResult
          = { τ' with tries := rest, pc := τ.pc + 1 + 1 + 1, stack := v :: base.stack, result := v } := by
        rw [hstep2]; simp [hst']
      have cc : Common { base with tries := gd :: rest } τ' (l ++ Ev.finE i :: lfl) I false :=
        hcF.trans r2
      refine ⟨VM.step (VM.step τ' .leaveFinally) .loadResult, ?_, ?_, ⟨[], by rw [hstep3]; simp⟩, by rw [hstep3]; exact h5⟩
      · refine hrF.trans (r1.trans (Reach.step r2.halted (by rw [r3]; exact hL) (Reach.one ?_ ?_)))
        · rw [hstep2]; exact r2.halted
        · rw [hstep2]; exact i3
      · rw [hstep3]; exact ⟨cc.log, rfl, cc.iters, cc.halted, cc.cnt, fun h => by simp at h⟩
    · simp only [hkf, if_false]
      exact abruptTail hkf _ gd rfl rfl hrF hcF hsF hpF
  | thr v =>
    obtain ⟨τ, its, l0, hl, h2, ⟨xs, h3⟩, h4⟩ := h
    have hcp : g.catchPos = none := hthr v rfl
    have ht : τ.tries = g :: rest := by rw [h2.tries]; exact hb
    let gd : TryFrame := { g with exc := some v, finallyPos := none, finallyRet := none }
    have hstep : VM.throwV (some v) τ =
        { τ with stack := base.stack
                 pc := pcF + 1
                 tries := gd :: rest
                 iters := base.iters
                 log := τ.log ++ clEv its } := by
      rw [throw_to_finally ht hcp hg1 h2.iters hgil]
      simp [h3, hgsp, drop_ext, gd]
    have hrF : Reach C src (VM.throwV (some v) τ) := h4
    have hcF : Common { base with tries := gd :: rest } (VM.throwV (some v) τ) l I rf := by
      rw [hstep]
      exact ⟨by show τ.log ++ clEv its = base.log ++ l; rw [h2.log, hl, List.append_assoc], rfl, rfl, h2.halted, h2.cnt, h2.res⟩
    have hsF : (VM.throwV (some v) τ).stack = base.stack := by rw [hstep]
    have hpF : (VM.throwV (some v) τ).pc = pcF + 1 := by rw [hstep]
    have hgd2 : gd.catchPos = none := hcp
    by_cases hkf : kf = K.normal
    · subst hkf
      simp only [if_true]
      have hcnt : (VM.throwV (some v) τ).cnt cur = some env := by rw [hcF.cnt cur hcurI]; exact hbc
      obtain ⟨τ', r1, r2, r3, r4⟩ := runFin _ hpF hcF.halted hcnt
      have ht' : τ'.tries = gd :: rest := by rw [r2.tries, hstep]
      have hstep2 : VM.step τ' .leaveFinally = VM.throwV (some v) { τ' with tries := rest } := by
        simp [ht', gd]
      have cc : Common { base with tries := gd :: rest } τ' (l ++ Ev.finE i :: lfl) I rf :=
        hcF.trans r2
      refine ⟨{ τ' with tries := rest }, [], l ++ Ev.finE i :: lfl, by simp [clEv],
        ⟨cc.log, rfl, cc.iters, cc.halted, cc.cnt, cc.res⟩, ⟨[], ?_⟩, ?_⟩
      · show τ'.stack = [] ++ base.stack; rw [r4, hsF]; rfl
      · rw [← hstep2]
        exact hrF.trans (r1.trans (Reach.one r2.halted (by rw [r3]; exact hL)))
    · simp only [hkf, if_false]
      exact abruptTail hkf _ gd rfl hgd2 hrF hcF hsF hpF
  | fatal => exact absurd rfl hnf

/-- `adj` on kinds -/
def adjK (lab : Option Label) : K → K
  | .brk (some l') => if lab = some l' then .normal else .brk (some l')
  | k => k

theorem kind_adj (lab : Option Label) (r : Res) : kind (adj lab r).1 = adjK lab (kind r.1) := by
  obtain ⟨c, l⟩ := r
  cases c with
  | brk lb v =>
    cases lb with
    | none => rfl
    | some l' => by_cases h : lab = some l' <;> simp [adj, adjK, kind, h]
  | _ => rfl

theorem adj_snd (lab : Option Label) (r : Res) : (adj lab r).2 = r.2 := rfl

theorem labMatch_toList (lab : Option Label) (x : Label) :
    lab.toList.contains x = labMatch (some x) lab := by
  cases lab with
  | none => simp [labMatch]
  | some y =>
    simp only [Option.toList, labMatch]
    by_cases h : y = x
    · subst h; simp
    · have h' : ¬ (x = y) := fun hh => h hh.symm
      simp [h, h']

def exitK : K → K
  | .brk none => .normal
  | k => k

theorem kind_exitBreakable (c : Compl) : kind c.exitBreakable = exitK (kind c) := by
  cases c with
  | brk lb v => cases lb <;> rfl
  | _ => rfl

/-- leaving a switch statement: an unlabelled break jumps to its end, everything else passes through -/
theorem wrapSwitch {C : Code} {ctx : List BI} {σ : VM} {e : Nat} {I : List Nat} {rf : Bool}
    {lg : List Ev} {k : K}
    (hsim : SimK C (BI.switch_ e :: ctx) σ e I rf lg k) : SimK C ctx σ e I rf lg (exitK k) := by
  cases k with
  | normal => exact hsim
  | brk lb =>
    obtain ⟨τ, h1, h2, h3, ex, t, hf, hcd⟩ := hsim
    cases lb with
    | none =>
      simp only [findBrk, Option.isNone_none, Bool.and_self, if_true, Option.some.injEq, Prod.mk.injEq] at hf
      obtain ⟨hex, ht⟩ := hf
      subst hex; subst ht
      have hi : C[τ.pc]? = some (Instr.jump (CS.rel e (τ.pc + 0))) := codeAt_head hcd
      let τ2 := VM.step τ (.jump (CS.rel e (τ.pc + 0)))
      have hc2 : Common τ τ2 [] I rf :=
        ⟨by simp [τ2], by simp [τ2], by simpa [τ2] using h2.iters, by simpa [τ2] using h2.halted,
         fun _ _ => by simp [τ2], fun _ => by simp [τ2]⟩
      have hp2 : τ2.pc = e := by
        have := jmp_rel τ.pc e
        simpa [τ2] using this
      exact ⟨τ2, h1.trans (Reach.one h2.halted hi), by simpa using h2.trans hc2, hp2, by simpa [τ2] using h3⟩
    | some l' =>
      have hf' : findBrk (some l') true ctx = some (ex, t) := by simpa [findBrk] using hf
      exact ⟨τ, h1, h2, h3, ex, t, hf', hcd⟩
  | cont lb =>
    obtain ⟨τ, h1, h2, h3, ex, t, hf, hcd⟩ := hsim
    have hf' : findBrk lb false ctx = some (ex, t) := by simpa [findBrk] using hf
    exact ⟨τ, h1, h2, h3, ex, t, hf', hcd⟩
  | ret v => exact hsim
  | thr v => exact hsim
  | fatal => exact hsim

theorem loopFrom_succ (run : Nat → Res) (ls : List Label) (r i : Nat) (V : Val) :
    loopFrom run ls (r + 1) i V =
      if (run i).1.loopContinues ls = true then
        ((loopFrom run ls r (i + 1) ((run i).1.value.getD V)).1,
         (run i).2 ++ (loopFrom run ls r (i + 1) ((run i).1.value.getD V)).2)
      else (((run i).1.updateEmpty V).exitBreakable, (run i).2) := by
  cases h : run i with
  | mk c l =>
    by_cases hc : c.loopContinues ls = true <;> simp [loopFrom, h, hc]

/-- generic loop: `bodyPc` = first instruction of the body, `bEnd` = pc after the body's code,
`contPc` = continue target, `e` = pc after the loop; `hnext` = what the code between the end of an
iteration and the next body start (or the exit) does. -/
theorem loopSim {C : Code} {ctx : List BI} {lab : Option Label} {e contPc bodyPc bEnd N id : Nat}
    {I Ib : List Nat} {rf : Bool} (run : Nat → Res)
    (hbody : ∀ i τ, τ.pc = bodyPc → τ.halted = none → τ.cnt id = some i →
        SimK C (BI.loop lab e contPc :: ctx) τ bEnd Ib rf (run i).2 (kind (run i).1))
    (hnext : ∀ i τ, (τ.pc = bEnd ∨ τ.pc = contPc) → τ.halted = none → τ.cnt id = some i →
        ∃ τ', Reach C τ τ' ∧ Common τ τ' [] I rf ∧ τ'.stack = τ.stack ∧
          (if i + 1 < N then τ'.pc = bodyPc ∧ τ'.cnt id = some (i + 1) else τ'.pc = e))
    (hidb : id ∉ Ib) (hsub : ∀ x, x ∈ Ib → x ∈ I) :
    ∀ r i V τ, r + i = N → 0 < r → τ.pc = bodyPc → τ.halted = none → τ.cnt id = some i →
      SimK C ctx τ e I rf (loopFrom run lab.toList r i V).2
        (adjK lab (kind (loopFrom run lab.toList r i V).1)) := by
  intro r
  induction r with
  | zero => intro i V τ _ h0; exact absurd h0 (Nat.lt_irrefl 0)
  | succ r ih =>
    intro i V τ hN _ hpc hh hcnt
    have hb := hbody i τ hpc hh hcnt
    -- continuing with the next iteration (or leaving the loop normally) from a state at bEnd / contPc
    have cont_from : ∀ (τ1 : VM) (l1 : List Ev) (V' : Val), Reach C τ τ1 → Common τ τ1 l1 I rf → τ1.stack = τ.stack →
        (τ1.pc = bEnd ∨ τ1.pc = contPc) → τ1.cnt id = some i →
        SimK C ctx τ e I rf (l1 ++ (loopFrom run lab.toList r (i + 1) V').2)
          (adjK lab (kind (loopFrom run lab.toList r (i + 1) V').1)) := by
      intro τ1 l1 V' hr1 hc1 hs1 hp1 hcnt1
      obtain ⟨τ', hr', hc', hs', hif⟩ := hnext i τ1 hp1 hc1.halted hcnt1
      by_cases hlt : i + 1 < N
      · simp only [hlt, if_true] at hif
        have hr0 : 0 < r := by omega
        have A := ih (i + 1) V' τ' (by omega) hr0 hif.1 hc'.halted hif.2
        have := SimK.prepend (hr1.trans hr') (by simpa using hc1.trans hc') (by rw [hs', hs1]) A
        simpa using this
      · simp only [hlt, if_false] at hif
        have hr0 : r = 0 := by omega
        subst hr0
        simp only [loopFrom, kind, adjK, List.append_nil]
        exact ⟨τ', hr1.trans hr', by simpa using hc1.trans hc', hif, by rw [hs', hs1]⟩
    rw [loopFrom_succ]
    cases hri : run i with
    | mk c l =>
      rw [hri] at hb
      simp only at hb ⊢
      cases c with
      | normal v =>
        obtain ⟨τ1, h1, h2, h3, h4⟩ := hb
        have := cont_from τ1 l ((Compl.normal v).value.getD V) h1 (h2.mono hsub (fun h => h)) h4 (Or.inl h3)
          (by rw [h2.cnt id hidb]; exact hcnt)
        simpa [loopContinues] using this
      | cont lb v =>
        obtain ⟨τ1, h1, h2, h3, ex, t, hf, hcd⟩ := hb
        have hlc : (Compl.cont lb v).loopContinues lab.toList = labMatch lb lab := by
          cases lb with
          | none => simp [loopContinues, labMatch]
          | some x => simp only [loopContinues]; exact labMatch_toList lab x
        by_cases hm : labMatch lb lab = true
        · -- continue of this loop: jump to the continue target
          simp only [findBrk, hm, if_true] at hf
          have hf2 : ex = [] ∧ t = contPc := by simpa [eq_comm] using hf
          obtain ⟨hex, ht⟩ := hf2
          subst hex
          subst ht
          have hi : C[τ1.pc]? = some (Instr.jump (CS.rel t (τ1.pc + 0))) := codeAt_head hcd
          let τ2 := VM.step τ1 (.jump (CS.rel t (τ1.pc + 0)))
          have hc2 : Common τ1 τ2 [] Ib rf :=
            ⟨by simp [τ2], by simp [τ2], by simpa [τ2] using h2.iters, by simpa [τ2] using h2.halted,
             fun _ _ => by simp [τ2], fun _ => by simp [τ2]⟩
          have hp2 : τ2.pc = t := by
            have := jmp_rel τ1.pc t
            simpa [τ2] using this
          have hcc : Common τ τ2 l Ib rf := by simpa using h2.trans hc2
          have := cont_from τ2 l ((Compl.cont lb v).value.getD V) (h1.trans (Reach.one h2.halted hi))
            (hcc.mono hsub (fun h => h)) (by simpa [τ2] using h3) (Or.inr hp2)
            (by rw [hcc.cnt id hidb]; exact hcnt)
          simpa [hlc, hm] using this
        · -- continue of an outer loop
          have hm' : labMatch lb lab = false := by simpa using hm
          simp only [findBrk, hm', Bool.false_eq_true, if_false] at hf
          have hk : adjK lab (kind ((Compl.cont lb v).updateEmpty V).exitBreakable) = K.cont lb := by
            rw [kind_exitBreakable, kind_updateEmpty]; rfl
          simp only [hlc, hm', Bool.false_eq_true, if_false]
          rw [hk]
          exact ⟨τ1, h1, h2.mono hsub (fun h => h), h3, ex, t, hf, hcd⟩
      | brk lb v =>
        obtain ⟨τ1, h1, h2, h3, ex, t, hf, hcd⟩ := hb
        simp only [loopContinues, Bool.false_eq_true, if_false]
        have hk0 : kind ((Compl.brk lb v).updateEmpty V).exitBreakable = exitK (K.brk lb) := by
          rw [kind_exitBreakable, kind_updateEmpty]; rfl
        rw [hk0]
        by_cases hm : labMatch lb lab = true
        · -- break of this loop: jump to the end
          simp only [findBrk, hm, if_true] at hf
          have hf2 : ex = [] ∧ t = e := by simpa [eq_comm] using hf
          obtain ⟨hex, ht⟩ := hf2
          subst hex
          subst ht
          have hi : C[τ1.pc]? = some (Instr.jump (CS.rel t (τ1.pc + 0))) := codeAt_head hcd
          let τ2 := VM.step τ1 (.jump (CS.rel t (τ1.pc + 0)))
          have hc2 : Common τ1 τ2 [] Ib rf :=
            ⟨by simp [τ2], by simp [τ2], by simpa [τ2] using h2.iters, by simpa [τ2] using h2.halted,
             fun _ _ => by simp [τ2], fun _ => by simp [τ2]⟩
          have hp2 : τ2.pc = t := by
            have := jmp_rel τ1.pc t
            simpa [τ2] using this
          have hcc : Common τ τ2 l Ib rf := by simpa using h2.trans hc2
          have hk : adjK lab (exitK (K.brk lb)) = K.normal := by
            cases lb with
            | none => rfl
            | some x =>
              have : lab = some x := by
                cases lab with
                | none => simp [labMatch] at hm
                | some y => simp [labMatch] at hm; rw [hm]
              simp [exitK, adjK, this]
          rw [hk]
          exact ⟨τ2, h1.trans (Reach.one h2.halted hi), hcc.mono hsub (fun h => h), hp2, by simpa [τ2] using h3⟩
        · have hm' : labMatch lb lab = false := by simpa using hm
          simp only [findBrk, hm', Bool.false_eq_true, if_false] at hf
          have hk : adjK lab (exitK (K.brk lb)) = K.brk lb := by
            cases lb with
            | none => simp [labMatch] at hm'
            | some x =>
              have : ¬ (lab = some x) := by
                intro h; subst h; simp [labMatch] at hm'
              simp [exitK, adjK, this]
          rw [hk]
          exact ⟨τ1, h1, h2.mono hsub (fun h => h), h3, ex, t, hf, hcd⟩
      | ret v =>
        obtain ⟨τ1, h1, h2, h3, h4⟩ := hb
        simp only [loopContinues, Bool.false_eq_true, if_false]
        have hk0 : adjK lab (kind ((Compl.ret v).updateEmpty V).exitBreakable) = K.ret v := by
          rw [kind_exitBreakable, kind_updateEmpty]; rfl
        rw [hk0]
        exact ⟨τ1, h1, h2.mono hsub (fun h => h), h3, by simpa [retExitsS] using h4⟩
      | thr v =>
        obtain ⟨τ1, its, l0, hl, h2, h3, h4⟩ := hb
        simp only [loopContinues, Bool.false_eq_true, if_false]
        have hk0 : adjK lab (kind ((Compl.thr v).updateEmpty V).exitBreakable) = K.thr v := by
          rw [kind_exitBreakable, kind_updateEmpty]; rfl
        rw [hk0]
        exact ⟨τ1, its, l0, hl, h2.mono hsub (fun h => h), h3, h4⟩
      | fatal =>
        simp only [loopContinues, Bool.false_eq_true, if_false]
        exact hb

/-! ### `for (let …;;)`: the loop runs inside its per-iteration scope (one extra stack slot `x`), which break /
outer continue / the normal exit leave with `leaveBlock 1`, and `continue` of the loop itself does not -/

theorem findBrk_iscope_hit_cont {lb lab : Option Label} {bp cp : Nat} {ctx : List BI} (hm : labMatch lb lab = true) :
    findBrk lb false (BI.iscope :: BI.loop lab bp cp :: ctx) = some ([], cp) := by
  simp [findBrk, hitsHead, hm]

theorem findBrk_iscope_hit_brk {lb lab : Option Label} {bp cp : Nat} {ctx : List BI} (hm : labMatch lb lab = true) :
    findBrk lb true (BI.iscope :: BI.loop lab bp cp :: ctx) = some ([Instr.leaveBlock 1], bp) := by
  simp [findBrk, hm]

theorem findBrk_iscope_miss {lb lab : Option Label} {b : Bool} {bp cp : Nat} {ctx : List BI} {ex : List Instr} {t : Nat}
    (hm : labMatch lb lab = false) (h : findBrk lb b (BI.iscope :: BI.loop lab bp cp :: ctx) = some (ex, t)) :
    ∃ ex', ex = Instr.leaveBlock 1 :: ex' ∧ findBrk lb b ctx = some (ex', t) := by
  simp only [findBrk, hitsHead, hm, Bool.false_eq_true, if_false, Bool.and_false] at h
  cases h' : findBrk lb b ctx with
  | none => simp [h'] at h
  | some p =>
    obtain ⟨ex', t'⟩ := p
    simp [h'] at h
    exact ⟨ex', h.1.symm, by rw [h.2]⟩

theorem loopSimLet {C : Code} {ctx : List BI} {lab : Option Label} {L contPc bodyPc bEnd N id : Nat}
    {I Ib : List Nat} {rf : Bool} {x : Val} {stk : List Val} (run : Nat → Res)
    (hbody : ∀ i τ, τ.pc = bodyPc → τ.halted = none → τ.cnt id = some i →
        SimK C (BI.iscope :: BI.loop lab (L + 1) contPc :: ctx) τ bEnd Ib rf (run i).2 (kind (run i).1))
    (hnext : ∀ i τ, (τ.pc = bEnd ∨ τ.pc = contPc) → τ.halted = none → τ.cnt id = some i →
        ∃ τ', Reach C τ τ' ∧ Common τ τ' [] I rf ∧ τ'.stack = τ.stack ∧
          (if i + 1 < N then τ'.pc = bodyPc ∧ τ'.cnt id = some (i + 1) else τ'.pc = L))
    (hL : C[L]? = some (Instr.leaveBlock 1))
    (hidb : id ∉ Ib) (hsub : ∀ x, x ∈ Ib → x ∈ I) :
    ∀ r i V τ, r + i = N → 0 < r → τ.pc = bodyPc → τ.halted = none → τ.cnt id = some i →
      τ.stack = x :: stk →
      SimG C ctx τ { τ with stack := stk } (L + 1) I rf (loopFrom run lab.toList r i V).2
        (adjK lab (kind (loopFrom run lab.toList r i V).1)) := by
  intro r
  induction r with
  | zero => intro i V τ _ h0; exact absurd h0 (Nat.lt_irrefl 0)
  | succ r ih =>
    intro i V τ hN _ hpc hh hcnt hstk
    have hb := hbody i τ hpc hh hcnt
    -- one `leaveBlock 1` from a state that still has the slot
    have leave1 : ∀ (τ1 : VM) (l1 : List Ev) (J : List Nat), Common τ τ1 l1 J rf → τ1.stack = τ.stack →
        Common { τ with stack := stk } (VM.step τ1 (.leaveBlock 1)) l1 J rf ∧
        (VM.step τ1 (.leaveBlock 1)).stack = stk ∧ (VM.step τ1 (.leaveBlock 1)).pc = τ1.pc + 1 := by
      intro τ1 l1 J hc hs
      refine ⟨⟨by simpa using hc.log, by simpa using hc.tries, by simpa using hc.iters, by simpa using hc.halted,
        fun y hy => by simpa using hc.cnt y hy, fun hr => by simpa using hc.res hr⟩, ?_, by simp⟩
      simp [hs, hstk]
    have cont_from : ∀ (τ1 : VM) (l1 : List Ev) (V' : Val), Reach C τ τ1 → Common τ τ1 l1 I rf → τ1.stack = τ.stack →
        (τ1.pc = bEnd ∨ τ1.pc = contPc) → τ1.cnt id = some i →
        SimG C ctx τ { τ with stack := stk } (L + 1) I rf (l1 ++ (loopFrom run lab.toList r (i + 1) V').2)
          (adjK lab (kind (loopFrom run lab.toList r (i + 1) V').1)) := by
      intro τ1 l1 V' hr1 hc1 hs1 hp1 hcnt1
      obtain ⟨τ', hr', hc', hs', hif⟩ := hnext i τ1 hp1 hc1.halted hcnt1
      have hcc : Common τ τ' l1 I rf := by simpa using hc1.trans hc'
      by_cases hlt : i + 1 < N
      · simp only [hlt, if_true] at hif
        have hr0 : 0 < r := by omega
        have A := ih (i + 1) V' τ' (by omega) hr0 hif.1 hc'.halted hif.2 (by rw [hs', hs1, hstk])
        exact SimG.prependG (midB := { τ' with stack := stk }) (base := { τ with stack := stk }) (hr1.trans hr')
          ⟨hcc.log, hcc.tries, hcc.iters, hcc.halted, hcc.cnt, hcc.res⟩ rfl A
      · simp only [hlt, if_false] at hif
        have hr0 : r = 0 := by omega
        subst hr0
        simp only [loopFrom, kind, adjK, List.append_nil]
        obtain ⟨c2, s2, p2⟩ := leave1 τ' l1 I hcc (by rw [hs', hs1])
        exact ⟨VM.step τ' (.leaveBlock 1), (hr1.trans hr').trans (Reach.one hcc.halted (by rw [hif]; exact hL)),
          c2, by rw [p2, hif], s2⟩
    -- a break/continue that targets an enclosing statement: leave the scope, then stand at the outer exit point
    have outer : ∀ (lb : Option Label) (b : Bool) (τ1 : VM), labMatch lb lab = false → Reach C τ τ1 → Common τ τ1 (run i).2 Ib rf →
        τ1.stack = τ.stack → ExitPt C (BI.iscope :: BI.loop lab (L + 1) contPc :: ctx) τ1 lb b →
        ∃ τ2, Reach C τ τ2 ∧ Common { τ with stack := stk } τ2 (run i).2 I rf ∧ τ2.stack = stk ∧ ExitPt C ctx τ2 lb b := by
      intro lb b τ1 hm h1 h2 h3 ⟨ex, t, hf, hcd⟩
      obtain ⟨ex', rfl, hf'⟩ := findBrk_iscope_miss hm hf
      have hi : C[τ1.pc]? = some (Instr.leaveBlock 1) := codeAt_head hcd
      obtain ⟨c2, s2, p2⟩ := leave1 τ1 _ I (h2.mono hsub (fun h => h)) h3
      exact ⟨VM.step τ1 (.leaveBlock 1), h1.trans (Reach.one h2.halted hi), c2, s2, exitPt_peel hf' hcd _ p2⟩
    rw [loopFrom_succ]
    cases hri : run i with
    | mk c l =>
      rw [hri] at hb outer
      simp only at hb outer ⊢
      cases c with
      | normal v =>
        obtain ⟨τ1, h1, h2, h3, h4⟩ := hb
        have := cont_from τ1 l ((Compl.normal v).value.getD V) h1 (h2.mono hsub (fun h => h)) h4 (Or.inl h3)
          (by rw [h2.cnt id hidb]; exact hcnt)
        simpa [loopContinues] using this
      | cont lb v =>
        obtain ⟨τ1, h1, h2, h3, hE⟩ := hb
        have hlc : (Compl.cont lb v).loopContinues lab.toList = labMatch lb lab := by
          cases lb with
          | none => simp [loopContinues, labMatch]
          | some x => simp only [loopContinues]; exact labMatch_toList lab x
        by_cases hm : labMatch lb lab = true
        · obtain ⟨ex, t, hf, hcd⟩ := hE
          rw [findBrk_iscope_hit_cont hm] at hf
          have hf2 : ex = [] ∧ t = contPc := by simpa [eq_comm] using hf
          obtain ⟨hex, ht⟩ := hf2
          subst hex
          subst ht
          have hi : C[τ1.pc]? = some (Instr.jump (CS.rel t (τ1.pc + 0))) := codeAt_head hcd
          let τ2 := VM.step τ1 (.jump (CS.rel t (τ1.pc + 0)))
          have hc2 : Common τ1 τ2 [] Ib rf :=
            ⟨by simp [τ2], by simp [τ2], by simpa [τ2] using h2.iters, by simpa [τ2] using h2.halted,
             fun _ _ => by simp [τ2], fun _ => by simp [τ2]⟩
          have hp2 : τ2.pc = t := by
            have := jmp_rel τ1.pc t
            simpa [τ2] using this
          have hcc : Common τ τ2 l Ib rf := by simpa using h2.trans hc2
          have := cont_from τ2 l ((Compl.cont lb v).value.getD V) (h1.trans (Reach.one h2.halted hi))
            (hcc.mono hsub (fun h => h)) (by simpa [τ2] using h3) (Or.inr hp2)
            (by rw [hcc.cnt id hidb]; exact hcnt)
          simpa [hlc, hm] using this
        · have hm' : labMatch lb lab = false := by simpa using hm
          have hk : adjK lab (kind ((Compl.cont lb v).updateEmpty V).exitBreakable) = K.cont lb := by
            rw [kind_exitBreakable, kind_updateEmpty]; rfl
          simp only [hlc, hm', Bool.false_eq_true, if_false]
          rw [hk]
          exact outer lb false τ1 hm' h1 h2 h3 hE
      | brk lb v =>
        obtain ⟨τ1, h1, h2, h3, hE⟩ := hb
        simp only [loopContinues, Bool.false_eq_true, if_false]
        have hk0 : kind ((Compl.brk lb v).updateEmpty V).exitBreakable = exitK (K.brk lb) := by
          rw [kind_exitBreakable, kind_updateEmpty]; rfl
        rw [hk0]
        by_cases hm : labMatch lb lab = true
        · obtain ⟨ex, t, hf, hcd⟩ := hE
          rw [findBrk_iscope_hit_brk hm] at hf
          have hf2 : ex = [Instr.leaveBlock 1] ∧ t = L + 1 := by simpa [eq_comm] using hf
          obtain ⟨hex, ht⟩ := hf2
          subst hex
          subst ht
          have hi : C[τ1.pc]? = some (Instr.leaveBlock 1) := codeAt_head hcd
          have hj : C[τ1.pc + 1]? = some (Instr.jump (CS.rel (L + 1) (τ1.pc + 1))) := by
            have := codeAt_head (codeAt_tail hcd)
            simpa using this
          obtain ⟨c2, s2, p2⟩ := leave1 τ1 l I (h2.mono hsub (fun h => h)) h3
          let τ2 := VM.step τ1 (.leaveBlock 1)
          let τ3 := VM.step τ2 (.jump (CS.rel (L + 1) (τ1.pc + 1)))
          have hc3 : Common τ2 τ3 [] I rf :=
            ⟨by simp [τ3], by simp [τ3], by simpa [τ3, τ2] using c2.iters, by simpa [τ3, τ2] using c2.halted,
             fun _ _ => by simp [τ3], fun _ => by simp [τ3]⟩
          have hp3 : τ3.pc = L + 1 := by
            have := jmp_rel (τ1.pc + 1) (L + 1)
            simpa [τ3, τ2] using this
          have hk : adjK lab (exitK (K.brk lb)) = K.normal := by
            cases lb with
            | none => rfl
            | some x =>
              have : lab = some x := by
                cases lab with
                | none => simp [labMatch] at hm
                | some y => simp [labMatch] at hm; rw [hm]
              simp [exitK, adjK, this]
          rw [hk]
          refine ⟨τ3, h1.trans (Reach.step h2.halted hi (Reach.one c2.halted (by rw [p2]; exact hj))), ?_, hp3, ?_⟩
          · simpa using c2.trans hc3
          · show τ3.stack = stk
            simpa [τ3, τ2] using s2
        · have hm' : labMatch lb lab = false := by simpa using hm
          have hk : adjK lab (exitK (K.brk lb)) = K.brk lb := by
            cases lb with
            | none => simp [labMatch] at hm'
            | some x =>
              have : ¬ (lab = some x) := by
                intro h; subst h; simp [labMatch] at hm'
              simp [exitK, adjK, this]
          rw [hk]
          exact outer lb true τ1 hm' h1 h2 h3 hE
      | ret v =>
        obtain ⟨τ1, h1, h2, ⟨xs, h3⟩, h4⟩ := hb
        simp only [loopContinues, Bool.false_eq_true, if_false]
        have hk0 : adjK lab (kind ((Compl.ret v).updateEmpty V).exitBreakable) = K.ret v := by
          rw [kind_exitBreakable, kind_updateEmpty]; rfl
        rw [hk0]
        refine ⟨τ1, h1, ?_, ⟨xs ++ [x], by rw [h3, hstk]; simp⟩, by simpa [retExitsS] using h4⟩
        have := h2.mono hsub (fun h => h)
        exact ⟨this.log, this.tries, this.iters, this.halted, this.cnt, this.res⟩
      | thr v =>
        obtain ⟨τ1, its, l0, hl, h2, ⟨xs, h3⟩, h4⟩ := hb
        simp only [loopContinues, Bool.false_eq_true, if_false]
        have hk0 : adjK lab (kind ((Compl.thr v).updateEmpty V).exitBreakable) = K.thr v := by
          rw [kind_exitBreakable, kind_updateEmpty]; rfl
        rw [hk0]
        refine ⟨τ1, its, l0, hl, ?_, ⟨xs ++ [x], by rw [h3, hstk]; simp⟩, h4⟩
        have := h2.mono hsub (fun h => h)
        exact ⟨this.log, this.tries, this.iters, this.halted, this.cnt, this.res⟩
      | fatal =>
        simp only [loopContinues, Bool.false_eq_true, if_false]
        exact hb

theorem Reach.stepTo {C : Code} {σ τ ρ : VM} {i : Instr} (hh : σ.halted = none) (hi : C[σ.pc]? = some i)
    (he : VM.step σ i = τ) (hr : Reach C τ ρ) : Reach C σ ρ := by
  subst he; exact Reach.step hh hi hr

theorem findBrk_forof_hit {lb lab : Option Label} {b : Bool} {bp cp : Nat} {ctx : List BI} (hm : labMatch lb lab = true) :
    findBrk lb b (BI.forof lab bp cp :: ctx) = some ([], if b then bp else cp) := by
  simp [findBrk, hm]

theorem findBrk_forof_miss {lb lab : Option Label} {b : Bool} {bp cp : Nat} {ctx : List BI} {ex : List Instr} {t : Nat}
    (hm : labMatch lb lab = false) (h : findBrk lb b (BI.forof lab bp cp :: ctx) = some (ex, t)) :
    ∃ ex', ex = Instr.enumPopClose :: ex' ∧ findBrk lb b ctx = some (ex', t) := by
  simp only [findBrk, hm, Bool.false_eq_true, if_false] at h
  cases h' : findBrk lb b ctx with
  | none => simp [h'] at h
  | some p =>
    obtain ⟨ex', t'⟩ := p
    simp [h'] at h
    exact ⟨ex', h.1.symm, by rw [h.2]⟩

/-! ### for-of: the iterator is opened by iterateP, stepped by iterNext, and closed exactly once: by exhaustion
(enumPop), by a failing next() (popped before the throw), by enumPopClose on break / outer continue / return, or by
handleThrow for a throw out of the body -/

theorem forOfFrom_succ (run : Nat → Res) (sp : IterSpec) (ls : List Label) (r i : Nat) (V : Val) :
    forOfFrom run sp ls (r + 1) i V =
      if sp.nextThrow = some i then (.thr (100 + sp.id), [Ev.itNext sp.id, Ev.itFail sp.id])
      else if sp.n ≤ i then (.normal (some V), [Ev.itNext sp.id, Ev.itDone sp.id])
      else if (run i).1.loopContinues ls then
        ((forOfFrom run sp ls r (i + 1) ((run i).1.value.getD V)).1,
          Ev.itNext sp.id :: ((run i).2 ++ (forOfFrom run sp ls r (i + 1) ((run i).1.value.getD V)).2))
      else
        ((iteratorClose sp ((run i).1.updateEmpty V)).1.exitBreakable,
          Ev.itNext sp.id :: ((run i).2 ++ (iteratorClose sp ((run i).1.updateEmpty V)).2)) := by
  simp only [forOfFrom]

/-- enumPopClose on an open iterator: return() is called once; then either the pending completion goes on, or the
error of return() (it threw / returned a primitive) replaces it -/
theorem closeCases {C : Code} {τ1 : VM} {sp : IterSpec} {it : IterItem} {B : List IterItem}
    (hh : τ1.halted = none) (hC : C[τ1.pc]? = some Instr.enumPopClose)
    (hi : τ1.iters = it :: B) (hsp : it.sp = some sp) (st : Compl) (hnt : ∀ v, st ≠ .thr v) (hnf : st ≠ .fatal) :
    (iteratorClose sp st = (st, [Ev.itRet sp.id]) ∧
      Reach C τ1 { τ1 with iters := B, log := τ1.log ++ [Ev.itRet sp.id], pc := τ1.pc + 1 }) ∨
    (∃ w, iteratorClose sp st = (.thr w, [Ev.itRet sp.id]) ∧
      Reach C τ1 (VM.throwV (some w) { τ1 with iters := B, log := τ1.log ++ [Ev.itRet sp.id] })) := by
  have hr := Reach.one hh hC
  cases hret : sp.ret with
  | ok =>
    left
    refine ⟨?_, ?_⟩
    · cases st <;> first | (simp [iteratorClose, hret]; done) | exact absurd rfl (hnt _) | exact absurd rfl hnf
    · have : VM.step τ1 .enumPopClose = { τ1 with iters := B, log := τ1.log ++ [Ev.itRet sp.id], pc := τ1.pc + 1 } := by simp [hi, hsp, hret]
      rw [← this]; exact hr
  | thr =>
    right
    refine ⟨200 + sp.id, ?_, ?_⟩
    · cases st <;> first | (simp [iteratorClose, hret]; done) | exact absurd rfl (hnt _) | exact absurd rfl hnf
    · have : VM.step τ1 .enumPopClose = VM.throwV (some (200 + sp.id)) { τ1 with iters := B, log := τ1.log ++ [Ev.itRet sp.id] } := by
        simp [hi, hsp, hret]
      rw [← this]; exact hr
  | nonobj =>
    right
    refine ⟨TE, ?_, ?_⟩
    · cases st <;> first | (simp [iteratorClose, hret]; done) | exact absurd rfl (hnt _) | exact absurd rfl hnf
    · have : VM.step τ1 .enumPopClose = VM.throwV (some TE) { τ1 with iters := B, log := τ1.log ++ [Ev.itRet sp.id] } := by
        simp [hi, hsp, hret]
      rw [← this]; exact hr

theorem Common.setIters {a b : VM} {l : List Ev} {I : List Nat} {rf : Bool} (h : Common a b l I rf) (X : List IterItem) :
    Common { a with iters := X } { b with iters := X } l I rf :=
  ⟨h.log, h.tries, rfl, h.halted, h.cnt, h.res⟩

theorem adjK_exitK_hit {lab lb : Option Label} (hm : labMatch lb lab = true) : adjK lab (exitK (K.brk lb)) = K.normal := by
  cases lb with
  | none => rfl
  | some x =>
    have : lab = some x := by
      cases lab with
      | none => simp [labMatch] at hm
      | some y => simp [labMatch] at hm; rw [hm]
    simp [exitK, adjK, this]

theorem adjK_exitK_miss {lab lb : Option Label} (hm : labMatch lb lab = false) : adjK lab (exitK (K.brk lb)) = K.brk lb := by
  cases lb with
  | none => simp [labMatch] at hm
  | some x =>
    have : ¬ (lab = some x) := by
      intro h; subst h; simp [labMatch] at hm
    simp [exitK, adjK, this]

def NR (r : Res) : Prop := ∀ v, kind r.1 ≠ K.ret v

theorem forOfSim {C : Code} {ctx : List BI} {lab : Option Label} {start lb : Nat} {sp : IterSpec}
    {I : List Nat} {rf : Bool} {B : List IterItem} (run : Nat → Res)
    (hbody : ∀ i τ, τ.pc = start + 2 → τ.halted = none → τ.cnt sp.id = some i →
        SimK C (BI.forof lab (start + 2 + lb + 1 + 2) start :: ctx) τ (start + 2 + lb) I rf (run i).2 (kind (run i).1))
    (hN : C[start]? = some (Instr.iterNext (CS.rel (start + 2 + lb + 1) start)))
    (hG : C[start + 1]? = some (Instr.enumGet sp.id))
    (hJ : C[start + 2 + lb]? = some (Instr.jump (CS.rel start (start + 2 + lb))))
    (hP : C[start + 2 + lb + 1]? = some Instr.enumPop)
    (hJ2 : C[start + 2 + lb + 1 + 1]? = some (Instr.jump 2))
    (hPC : C[start + 2 + lb + 1 + 2]? = some Instr.enumPopClose)
    (hidI : sp.id ∈ I) (hNR : rf = true → ∀ i, NR (run i)) :
    ∀ r i V (τ : VM) (it : IterItem), i + r = sp.n + 1 → 0 < r → τ.pc = start → τ.halted = none →
      τ.iters = it :: B → it.sp = some sp → it.idx = i →
      SimG C ctx τ { τ with iters := B } (start + 2 + lb + 1 + 2 + 1) I rf (forOfFrom run sp lab.toList r i V).2
        (adjK lab (kind (forOfFrom run sp lab.toList r i V).1)) := by
  intro r
  induction r with
  | zero => intro i V τ it _ h0; exact absurd h0 (Nat.lt_irrefl 0)
  | succ r ih =>
    intro i V τ it hN' _ hpc hh hit hsp hidx
    rw [forOfFrom_succ]
    have hiN : C[τ.pc]? = some (Instr.iterNext (CS.rel (start + 2 + lb + 1) start)) := by rw [hpc]; exact hN
    by_cases h1 : sp.nextThrow = some i
    · -- next() throws: the iterator is dropped WITHOUT return()
      simp only [h1, if_true]
      let τa : VM := { τ with iters := B, log := τ.log ++ [Ev.itNext sp.id, Ev.itFail sp.id] }
      have hs : VM.step τ (.iterNext (CS.rel (start + 2 + lb + 1) start)) = VM.throwV (some (100 + sp.id)) τa := by
        simp [hit, hsp, hidx, h1, τa]
      refine ⟨τa, [], [Ev.itNext sp.id, Ev.itFail sp.id], by simp [clEv],
        ⟨rfl, rfl, rfl, hh, fun _ _ => rfl, fun _ => rfl⟩, ⟨[], rfl⟩, ?_⟩
      rw [← hs]; exact Reach.one hh hiN
    · by_cases h2 : sp.n ≤ i
      · -- exhausted: enumPop, no return()
        simp only [h1, h2, if_false, if_true]
        let τ1 : VM := { τ with iters := { it with sp := none } :: B, log := τ.log ++ [Ev.itNext sp.id, Ev.itDone sp.id],
                                pc := start + 2 + lb + 1 }
        let τ2 : VM := { τ1 with iters := B, pc := start + 2 + lb + 1 + 1 }
        let τ3 : VM := { τ2 with pc := start + 2 + lb + 1 + 2 + 1 }
        have s1 : VM.step τ (.iterNext (CS.rel (start + 2 + lb + 1) start)) = τ1 := by
          have := jmp_rel start (start + 2 + lb + 1)
          simp [hit, hsp, hidx, h1, h2, τ1, hpc, this]
        have s2 : VM.step τ1 .enumPop = τ2 := by simp [τ1, τ2]
        have s3 : VM.step τ2 (.jump 2) = τ3 := by
          simp [τ2, τ3]; omega
        refine ⟨τ3, Reach.stepTo hh hiN s1 (Reach.stepTo hh hP s2 (Reach.stepTo hh hJ2 s3 (Reach.refl _))), ?_, rfl, rfl⟩
        exact ⟨rfl, rfl, rfl, hh, fun _ _ => rfl, fun _ => rfl⟩
      · -- one more element: run the body
        simp only [h1, h2, if_false]
        let it' : IterItem := { it with val := i, idx := i + 1 }
        let τn : VM := { τ with iters := it' :: B, log := τ.log ++ [Ev.itNext sp.id], pc := start + 1 }
        let τb : VM := { τn with cnt := fun x => if x = sp.id then some i else τ.cnt x, pc := start + 1 + 1 }
        have s1 : VM.step τ (.iterNext (CS.rel (start + 2 + lb + 1) start)) = τn := by
          simp [hit, hsp, hidx, h1, h2, τn, it', hpc]
        have s2 : VM.step τn (.enumGet sp.id) = τb := by simp [τn, τb, it']
        have hrb : Reach C τ τb := Reach.stepTo hh hiN s1 (Reach.stepTo hh hG s2 (Reach.refl _))
        have hb := hbody i τb rfl hh (by simp [τb])
        have base_b : Common { τ with iters := B } { τb with iters := B } [Ev.itNext sp.id] I rf :=
          ⟨rfl, rfl, rfl, hh, fun x hx => by
            have : x ≠ sp.id := fun h => hx (by rw [h]; exact hidI)
            simp [τb, this], fun _ => rfl⟩
        have hr0 : 0 < r := by omega
        -- a continuing iteration: from a state back at `start`
        have again : ∀ (τ1 : VM) (l1 : List Ev) (V' : Val), Reach C τb τ1 → Common τb τ1 l1 I rf → τ1.stack = τb.stack →
            τ1.pc = start →
            SimG C ctx τ { τ with iters := B } (start + 2 + lb + 1 + 2 + 1) I rf
              (Ev.itNext sp.id :: (l1 ++ (forOfFrom run sp lab.toList r (i + 1) V').2))
              (adjK lab (kind (forOfFrom run sp lab.toList r (i + 1) V').1)) := by
          intro τ1 l1 V' hr1 hc1 hs1 hp1
          have A := ih (i + 1) V' τ1 it' (by omega) hr0 hp1 hc1.halted (by rw [hc1.iters]) hsp rfl
          have hc : Common { τ with iters := B } { τ1 with iters := B } ([Ev.itNext sp.id] ++ l1) I rf :=
            base_b.trans (hc1.setIters B)
          have := SimG.prependG (src := τ) (base := { τ with iters := B }) (midB := { τ1 with iters := B })
            (hrb.trans hr1) hc (by show τ1.stack = τ.stack; rw [hs1]) A
          simpa using this
        -- the iterator is closed by enumPopClose standing at τ1.pc; `st` is the pending completion
        have closing : ∀ (τ1 : VM) (l1 : List Ev) (st : Compl), Reach C τb τ1 → Common τb τ1 l1 I rf →
            C[τ1.pc]? = some Instr.enumPopClose → (∃ xs, τ1.stack = xs ++ τ.stack) → (∀ v, st ≠ .thr v) → st ≠ .fatal →
            (iteratorClose sp st = (st, [Ev.itRet sp.id]) ∧
              ∃ τ2, Reach C τ τ2 ∧ Common { τ with iters := B } τ2 (Ev.itNext sp.id :: (l1 ++ [Ev.itRet sp.id])) I rf ∧
                τ2.stack = τ1.stack ∧ τ2.pc = τ1.pc + 1) ∨
            (∃ w, iteratorClose sp st = (.thr w, [Ev.itRet sp.id]) ∧
              ∀ k, k = K.thr w →
                SimG C ctx τ { τ with iters := B } (start + 2 + lb + 1 + 2 + 1) I rf
                  (Ev.itNext sp.id :: (l1 ++ [Ev.itRet sp.id])) k) := by
          intro τ1 l1 st hr1 hc1 hC1 hstk hnt hnf
          have hi1 : τ1.iters = it' :: B := by rw [hc1.iters]
          let τcl : VM := { τ1 with iters := B, log := τ1.log ++ [Ev.itRet sp.id] }
          have hccl : Common { τ with iters := B } τcl (Ev.itNext sp.id :: (l1 ++ [Ev.itRet sp.id])) I rf := by
            have c3 : Common { τ1 with iters := B } τcl [Ev.itRet sp.id] I rf :=
              ⟨rfl, rfl, rfl, hc1.halted, fun _ _ => rfl, fun _ => rfl⟩
            have := (base_b.trans (hc1.setIters B)).trans c3
            simpa using this
          rcases closeCases hc1.halted hC1 hi1 (show it'.sp = some sp from hsp) st hnt hnf with ⟨hic, hr⟩ | ⟨w, hic, hr⟩
          · left
            refine ⟨hic, { τcl with pc := τ1.pc + 1 }, hrb.trans (hr1.trans hr), ?_, rfl, rfl⟩
            exact ⟨hccl.log, hccl.tries, hccl.iters, hccl.halted, hccl.cnt, hccl.res⟩
          · right
            refine ⟨w, hic, ?_⟩
            intro k hk
            subst hk
            exact ⟨τcl, [], Ev.itNext sp.id :: (l1 ++ [Ev.itRet sp.id]), by simp [clEv], hccl.toT, hstk, hrb.trans (hr1.trans hr)⟩
        -- jumping back to the loop head
        have back : ∀ (τ1 : VM) (l1 : List Ev) (V' : Val) (off : Int), Reach C τb τ1 → Common τb τ1 l1 I rf → τ1.stack = τb.stack →
            C[τ1.pc]? = some (Instr.jump off) → ((τ1.pc : Int) + off).toNat = start →
            SimG C ctx τ { τ with iters := B } (start + 2 + lb + 1 + 2 + 1) I rf
              (Ev.itNext sp.id :: (l1 ++ (forOfFrom run sp lab.toList r (i + 1) V').2))
              (adjK lab (kind (forOfFrom run sp lab.toList r (i + 1) V').1)) := by
          intro τ1 l1 V' off hr1 hc1 hs1 hj hoff
          let τ2 := VM.step τ1 (.jump off)
          have hc2 : Common τ1 τ2 [] I rf :=
            ⟨by simp [τ2], by simp [τ2], by simp [τ2], by simpa [τ2] using hc1.halted, fun _ _ => by simp [τ2], fun _ => by simp [τ2]⟩
          exact again τ2 l1 V' (hr1.trans (Reach.one hc1.halted hj)) (by simpa using hc1.trans hc2)
            (by simpa [τ2] using hs1) (by simpa [τ2] using hoff)
        cases hri : run i with
        | mk c l =>
          rw [hri] at hb
          simp only at hb ⊢
          cases c with
          | normal v =>
            obtain ⟨τ1, h1, h2, h3, h4⟩ := hb
            have := back τ1 l ((Compl.normal v).value.getD V) _ h1 h2 h4 (by rw [h3]; exact hJ)
              (by rw [h3]; exact jmp_rel (start + 2 + lb) start)
            simpa [loopContinues] using this
          | cont lq v =>
            obtain ⟨τ1, h1, h2, h3, ex, t, hf, hcd⟩ := hb
            have hlc : (Compl.cont lq v).loopContinues lab.toList = labMatch lq lab := by
              cases lq with
              | none => simp [loopContinues, labMatch]
              | some x => simp only [loopContinues]; exact labMatch_toList lab x
            by_cases hm : labMatch lq lab = true
            · rw [findBrk_forof_hit hm] at hf
              have hf2 : ex = [] ∧ t = start := by simpa [eq_comm] using hf
              obtain ⟨hex, ht⟩ := hf2
              subst hex; subst ht
              have := back τ1 l ((Compl.cont lq v).value.getD V) _ h1 h2 h3 (codeAt_head hcd)
                (by have := jmp_rel τ1.pc t; simpa using this)
              simpa [hlc, hm] using this
            · have hm' : labMatch lq lab = false := by simpa using hm
              obtain ⟨ex', rfl, hf'⟩ := findBrk_forof_miss hm' hf
              simp only [hlc, hm', Bool.false_eq_true, if_false]
              have hnt : ∀ w, (Compl.cont lq v).updateEmpty V ≠ .thr w := by intro w h; cases v <;> simp [Compl.updateEmpty] at h
              have hnf : (Compl.cont lq v).updateEmpty V ≠ .fatal := by intro h; cases v <;> simp [Compl.updateEmpty] at h
              have hkst : kind ((Compl.cont lq v).updateEmpty V) = K.cont lq := by rw [kind_updateEmpty]; rfl
              rcases closing τ1 l _ h1 h2 (codeAt_head hcd) ⟨[], h3.trans rfl⟩ hnt hnf with ⟨hic, τ2, r1, r2, r3, r4⟩ | ⟨w, hic, hk⟩
              · rw [hic]
                have hk : adjK lab (kind ((Compl.cont lq v).updateEmpty V).exitBreakable) = K.cont lq := by
                  rw [kind_exitBreakable, hkst]; rfl
                rw [hk]
                exact ⟨τ2, r1, r2, r3.trans h3, exitPt_peel hf' hcd _ r4⟩
              · rw [hic]; exact hk _ rfl
          | brk lq v =>
            obtain ⟨τ1, h1, h2, h3, ex, t, hf, hcd⟩ := hb
            simp only [loopContinues, Bool.false_eq_true, if_false]
            have hnt : ∀ w, (Compl.brk lq v).updateEmpty V ≠ .thr w := by intro w h; cases v <;> simp [Compl.updateEmpty] at h
            have hnf : (Compl.brk lq v).updateEmpty V ≠ .fatal := by intro h; cases v <;> simp [Compl.updateEmpty] at h
            have hkst : kind ((Compl.brk lq v).updateEmpty V) = K.brk lq := by rw [kind_updateEmpty]; rfl
            by_cases hm : labMatch lq lab = true
            · -- break of this loop: jump to the trailing enumPopClose
              rw [findBrk_forof_hit hm] at hf
              have hf2 : ex = [] ∧ t = start + 2 + lb + 1 + 2 := by simpa [eq_comm] using hf
              obtain ⟨hex, ht⟩ := hf2
              subst hex; subst ht
              have hi : C[τ1.pc]? = some (Instr.jump (CS.rel (start + 2 + lb + 1 + 2) (τ1.pc + 0))) := codeAt_head hcd
              let τj := VM.step τ1 (.jump (CS.rel (start + 2 + lb + 1 + 2) (τ1.pc + 0)))
              have hcj : Common τ1 τj [] I rf :=
                ⟨by simp [τj], by simp [τj], by simp [τj], by simpa [τj] using h2.halted, fun _ _ => by simp [τj], fun _ => by simp [τj]⟩
              have hpj : τj.pc = start + 2 + lb + 1 + 2 := by
                have := jmp_rel τ1.pc (start + 2 + lb + 1 + 2)
                simpa [τj] using this
              rcases closing τj l _ (h1.trans (Reach.one h2.halted hi)) (by simpa using h2.trans hcj) (by rw [hpj]; exact hPC)
                ⟨[], by simp [τj, h3]; rfl⟩ hnt hnf with ⟨hic, τ2, r1, r2, r3, r4⟩ | ⟨w, hic, hk⟩
              · rw [hic]
                have hk : adjK lab (kind ((Compl.brk lq v).updateEmpty V).exitBreakable) = K.normal := by
                  rw [kind_exitBreakable, hkst]; exact adjK_exitK_hit hm
                rw [hk]
                exact ⟨τ2, r1, r2, by rw [r4, hpj], by rw [r3]; simp [τj, h3]; rfl⟩
              · rw [hic]; exact hk _ rfl
            · have hm' : labMatch lq lab = false := by simpa using hm
              obtain ⟨ex', rfl, hf'⟩ := findBrk_forof_miss hm' hf
              rcases closing τ1 l _ h1 h2 (codeAt_head hcd) ⟨[], h3.trans rfl⟩ hnt hnf with ⟨hic, τ2, r1, r2, r3, r4⟩ | ⟨w, hic, hk⟩
              · rw [hic]
                have hk : adjK lab (kind ((Compl.brk lq v).updateEmpty V).exitBreakable) = K.brk lq := by
                  rw [kind_exitBreakable, hkst]; exact adjK_exitK_miss hm'
                rw [hk]
                exact ⟨τ2, r1, r2, r3.trans h3, exitPt_peel hf' hcd _ r4⟩
              · rw [hic]; exact hk _ rfl
          | ret v =>
            obtain ⟨τ1, h1, h2, ⟨xs, h3⟩, h4⟩ := hb
            simp only [loopContinues, Bool.false_eq_true, if_false]
            simp only [retExitsS, List.cons_append] at h4
            have hnt : ∀ w, (Compl.ret v).updateEmpty V ≠ .thr w := by intro w h; simp [Compl.updateEmpty] at h
            have hnf : (Compl.ret v).updateEmpty V ≠ .fatal := by intro h; simp [Compl.updateEmpty] at h
            have hrf : rf = false := by
              cases hr : rf with
              | false => rfl
              | true => exact absurd (by rw [hri]; rfl) (hNR hr i v)
            subst hrf
            rcases closing τ1 l _ h1 h2 (codeAt_head h4) ⟨v :: xs, h3⟩ hnt hnf with ⟨hic, τ2, r1, r2, r3, r4⟩ | ⟨w, hic, hk⟩
            · rw [hic]
              have hk : adjK lab (kind ((Compl.ret v).updateEmpty V).exitBreakable) = K.ret v := rfl
              rw [hk]
              exact ⟨τ2, r1, r2, ⟨xs, r3.trans h3⟩, by rw [r4]; exact codeAt_tail h4⟩
            · rw [hic]; exact hk _ rfl
          | thr v =>
            obtain ⟨τ1, its, l0, hl, h2, ⟨xs, h3⟩, h4⟩ := hb
            simp only [loopContinues, Bool.false_eq_true, if_false]
            have hk : adjK lab (kind (iteratorClose sp ((Compl.thr v).updateEmpty V)).1.exitBreakable) = K.thr v := rfl
            rw [hk]
            have hl2 : (iteratorClose sp ((Compl.thr v).updateEmpty V)).2 = [Ev.itRet sp.id] := rfl
            rw [hl2]
            refine ⟨τ1, its ++ [it'], Ev.itNext sp.id :: l0, ?_, ?_, ⟨xs, h3⟩, hrb.trans h4⟩
            · rw [hl, clEv_append]; simp [clEv, it', hsp]
            · have hb2 : Common { τ with iters := (its ++ [it']) ++ B } { τb with iters := its ++ τb.iters } [Ev.itNext sp.id] I rf :=
                ⟨rfl, rfl, by simp [τb, τn], hh, fun x hx => by
                  have : x ≠ sp.id := fun h => hx (by rw [h]; exact hidI)
                  simp [τb, this], fun _ => rfl⟩
              have := hb2.trans h2
              simpa using this
          | fatal =>
            obtain ⟨τ1, h1, h2, h3⟩ := hb
            simp only [loopContinues, Bool.false_eq_true, if_false]
            refine ⟨τ1, hrb.trans h1, ?_, h3⟩
            rw [h2]; simp [τb, τn, iteratorClose, Compl.updateEmpty]

/-! ### a statement without `return` never completes with a return -/


theorem NR_seqRes {ra : Res} {rb : Unit → Res} (ha : NR ra) (hb : NR (rb ())) : NR (seqRes ra rb) := by
  obtain ⟨ca, la⟩ := ra
  cases ca with
  | normal va =>
    intro v
    simp only [seqRes]
    cases va with
    | none => exact hb v
    | some x => show kind ((rb ()).1.updateEmpty x) ≠ K.ret v; rw [kind_updateEmpty]; exact hb v
  | _ => exact ha

theorem kind_seqRes (ra : Res) (rb : Unit → Res) :
    kind (seqRes ra rb).1 = (if kind ra.1 = K.normal then kind (rb ()).1 else kind ra.1) ∧
    (seqRes ra rb).2 = (if kind ra.1 = K.normal then ra.2 ++ (rb ()).2 else ra.2) := by
  obtain ⟨ca, la⟩ := ra
  cases ca with
  | normal va =>
    have hkn : kind (Compl.normal va, la).1 = K.normal := rfl
    rw [if_pos hkn, if_pos hkn]
    cases hrb : rb () with
    | mk cb lb =>
      cases va with
      | none => simp [seqRes, hrb]
      | some x => simp [seqRes, hrb, kind_updateEmpty]
  | _ => simp [seqRes, kind]

theorem kind_swTail (V : Val) (r1 : Res) : kind (swTail V r1).1 = exitK (kind r1.1) ∧ (swTail V r1).2 = r1.2 := by
  obtain ⟨c, l⟩ := r1
  cases c with
  | normal v => exact ⟨rfl, rfl⟩
  | brk lb v => refine ⟨?_, rfl⟩; show kind ((Compl.brk lb v).updateEmpty V).exitBreakable = _; rw [kind_exitBreakable, kind_updateEmpty]
  | cont lb v => refine ⟨?_, rfl⟩; show kind ((Compl.cont lb v).updateEmpty V).exitBreakable = _; rw [kind_exitBreakable, kind_updateEmpty]
  | ret v => exact ⟨rfl, rfl⟩
  | thr v => exact ⟨rfl, rfl⟩
  | fatal => exact ⟨rfl, rfl⟩

/-- the two-clause switch on kinds: clause 0 falls through into clause 1 like a statement list, and an unlabelled
break is consumed -/
theorem kind_swRes (sel : Nat) (r0 r1 : Unit → Res) :
    kind (swRes sel r0 r1).1 = (if sel = 0 then exitK (kind (seqRes (r0 ()) r1).1) else if sel = 1 then exitK (kind (r1 ()).1) else K.normal) ∧
    (swRes sel r0 r1).2 = (if sel = 0 then (seqRes (r0 ()) r1).2 else if sel = 1 then (r1 ()).2 else []) := by
  by_cases h0 : sel = 0
  · subst h0
    rw [if_pos rfl, if_pos rfl]
    obtain ⟨hk, hl⟩ := kind_seqRes (r0 ()) r1
    by_cases hn : kind (r0 ()).1 = K.normal
    · obtain ⟨v, hv⟩ : ∃ v, (r0 ()).1 = Compl.normal v := by
        cases hc : (r0 ()).1 with
        | normal v => exact ⟨v, rfl⟩
        | _ => rw [hc] at hn; simp [kind] at hn
      have e : swRes 0 r0 r1 = ((swTail (v.getD 0) (r1 ())).1, (r0 ()).2 ++ (swTail (v.getD 0) (r1 ())).2) := by
        simp [swRes, hv]
      rw [e, hk, hl, if_pos hn, if_pos hn]
      exact ⟨(kind_swTail _ _).1, by rw [(kind_swTail _ _).2]⟩
    · have e : swRes 0 r0 r1 = (((r0 ()).1.updateEmpty 0).exitBreakable, (r0 ()).2) := by
        cases hc : (r0 ()).1 with
        | normal v => rw [hc] at hn; exact absurd rfl hn
        | _ => simp [swRes, hc]
      rw [e, hk, hl, if_neg hn, if_neg hn]
      exact ⟨by show kind _ = _; rw [kind_exitBreakable, kind_updateEmpty], rfl⟩
  · by_cases h1 : sel = 1
    · subst h1
      simp only [swRes, h0, if_false, if_true]
      exact kind_swTail 0 (r1 ())
    · simp [swRes, h0, h1, kind]

theorem NR_exitK {k : K} (h : ∀ v, k ≠ K.ret v) : ∀ v, exitK k ≠ K.ret v := by
  intro v
  cases k with
  | brk lb => cases lb <;> simp [exitK]
  | ret w => simpa [exitK] using h v
  | _ => simp [exitK]

theorem NR_swRes (sel : Nat) {r0 r1 : Unit → Res} (h0 : NR (r0 ())) (h1 : NR (r1 ())) : NR (swRes sel r0 r1) := by
  intro v
  rw [(kind_swRes sel r0 r1).1]
  by_cases hs0 : sel = 0
  · simp only [hs0, if_true]; exact NR_exitK (NR_seqRes h0 h1) v
  · by_cases hs1 : sel = 1
    · simp only [hs0, hs1, if_false, if_true]; exact NR_exitK h1 v
    · simp [hs0, hs1]

theorem NR_catchPart (i : Nat) {rb : Res} (hasC : Bool) {rc : Unit → Res} (hb : NR rb) (hc : hasC = true → NR (rc ())) :
    NR (catchPart i rb hasC rc) := by
  obtain ⟨cb, lb⟩ := rb
  cases cb with
  | thr v =>
    cases hasC with
    | true => intro w; simpa [catchPart] using hc rfl w
    | false => simpa [catchPart] using hb
  | _ => simpa [catchPart] using hb

theorem kind_finPart (i : Nat) (rbc : Res) (rf : Unit → Res) (h : rbc.1 ≠ .fatal) :
    kind (finPart i rbc rf).1 = (if kind (rf ()).1 = K.normal then kind rbc.1 else kind (rf ()).1) ∧
    (finPart i rbc rf).2 = Ev.tryE i :: (rbc.2 ++ Ev.finE i :: (rf ()).2) := by
  rw [finPart_nonfatal i rf h]
  refine ⟨?_, rfl⟩
  show kind ((match (rf ()).1 with | .normal _ => rbc.1 | c => c).updateEmpty 0) = _
  rw [kind_updateEmpty]
  cases (rf ()).1 <;> simp [kind]

theorem NR_loopFrom (run : Nat → Res) (ls : List Label) (h : ∀ i, NR (run i)) : ∀ r i V, NR (loopFrom run ls r i V) := by
  intro r
  induction r with
  | zero => intro i V v; simp [loopFrom, kind]
  | succ r ih =>
    intro i V v
    rw [loopFrom_succ]
    by_cases hc : (run i).1.loopContinues ls = true
    · simp only [hc, if_true]; exact ih (i + 1) _ v
    · have hc' : (run i).1.loopContinues ls = false := by simpa using hc
      simp only [hc', Bool.false_eq_true, if_false]
      rw [kind_exitBreakable, kind_updateEmpty]
      have := h i v
      cases hk : kind (run i).1 with
      | brk lb => cases lb <;> simp [exitK]
      | ret w => rw [hk] at this; simp [exitK]; intro hh; exact this (by rw [hh])
      | _ => simp [exitK]

theorem NR_iteratorClose (sp : IterSpec) (st : Compl) (h : ∀ v, kind st ≠ K.ret v) :
    ∀ v, kind (iteratorClose sp st).1.exitBreakable ≠ K.ret v := by
  intro v
  rw [kind_exitBreakable]
  apply NR_exitK
  intro w
  cases st with
  | ret u => exact absurd rfl (h u)
  | normal o => cases hr : sp.ret <;> simp [iteratorClose, hr, kind]
  | brk l o => cases hr : sp.ret <;> simp [iteratorClose, hr, kind]
  | cont l o => cases hr : sp.ret <;> simp [iteratorClose, hr, kind]
  | thr u => simp [iteratorClose, kind]
  | fatal => simp [iteratorClose, kind]

theorem NR_forOfFrom (run : Nat → Res) (sp : IterSpec) (ls : List Label) (h : ∀ i, NR (run i)) :
    ∀ r i V, NR (forOfFrom run sp ls r i V) := by
  intro r
  induction r with
  | zero => intro i V v; simp [forOfFrom, kind]
  | succ r ih =>
    intro i V v
    rw [forOfFrom_succ]
    by_cases h1 : sp.nextThrow = some i
    · simp [h1, kind]
    · by_cases h2 : sp.n ≤ i
      · simp [h1, h2, kind]
      · by_cases h3 : (run i).1.loopContinues ls = true
        · simp only [h1, h2, h3, if_false, if_true]; exact ih (i + 1) _ v
        · simp only [h1, h2, h3, if_false]
          exact NR_iteratorClose sp _ (fun w => by rw [kind_updateEmpty]; exact h i w) v

theorem retFree_no_ret (s : Stmt) : stage1 s = true → retFree s = true → ∀ env ls, NR (exec env ls s) := by
  induction s with
  | skip => intro _ _ env ls v; simp [exec, kind]
  | log k => intro _ _ env ls v; simp [exec, kind]
  | seq a b iha ihb =>
    intro hs hr env ls
    simp only [stage1, Bool.and_eq_true] at hs
    simp only [retFree, Bool.and_eq_true] at hr
    simp only [exec]
    exact NR_seqRes (iha hs.1 hr.1 env []) (ihb hs.2 hr.2 env [])
  | brk l => intro _ _ env ls v; simp [exec, kind]
  | cont l => intro _ _ env ls v; simp [exec, kind]
  | ret v => intro _ hr; simp [retFree] at hr
  | thr v => intro _ _ env ls w; simp [exec, kind]
  | fatal => intro _ _ env ls v; simp [exec, kind]
  | tryS i b hasC c hasF f ihb ihc ihf =>
    intro hs hr env ls
    simp only [stage1, Bool.and_eq_true] at hs
    simp only [retFree, Bool.and_eq_true] at hr
    obtain ⟨⟨⟨_, hsb⟩, hsc⟩, hsf⟩ := hs
    have hcp : NR (catchPart i (exec env [] b) hasC (fun _ => exec env [] c)) :=
      NR_catchPart i hasC (ihb hsb hr.1.1 env []) (fun hC => by
        subst hC
        simp only [if_true] at hsc
        exact ihc hsc hr.1.2 env [])
    simp only [exec, tryRes]
    cases hasF with
    | false =>
      intro v
      simp only [Bool.false_eq_true, if_false]
      rw [kind_updateEmpty]; exact hcp v
    | true =>
      simp only [if_true, Bool.and_eq_true] at hsf ⊢
      intro v
      by_cases hfat : (catchPart i (exec env [] b) hasC (fun _ => exec env [] c)).1 = .fatal
      · have : (finPart i (catchPart i (exec env [] b) hasC (fun _ => exec env [] c)) (fun _ => exec env [] f)).1 = .fatal := by
          generalize catchPart i (exec env [] b) hasC (fun _ => exec env [] c) = rbc at hfat
          obtain ⟨cc, l⟩ := rbc
          simp only at hfat; subst hfat; rfl
        rw [this]; simp [kind]
      · rw [(kind_finPart i _ _ hfat).1]
        have hf := ihf hsf.1 hr.2 env []
        by_cases hn : kind (exec env [] f).1 = K.normal
        · simp only [hn, if_true]; exact hcp v
        · simp only [hn, if_false]; exact hf v
  | loop k id n body ih =>
    intro hs hr env ls
    simp only [stage1, Bool.and_eq_true] at hs
    simp only [exec]
    exact NR_loopFrom _ ls (fun i => ih hs.1.2 hr i []) _ _ _
  | forOf sp body ih =>
    intro hs hr env ls v
    simp only [stage1, Bool.and_eq_true] at hs
    simp only [retFree] at hr
    simp only [exec]
    have := NR_forOfFrom (fun i => exec i [] body) sp ls (fun i => ih hs.1.2 hr i []) (sp.n + 1) 0 0 v
    cases hf : forOfFrom (fun i => exec i [] body) sp ls (sp.n + 1) 0 0 with
    | mk c l => rw [hf] at this; exact this
  | lbl l s ih =>
    intro hs hr env ls v
    simp only [stage1, Bool.and_eq_true] at hs
    have := ih hs.1 hr env (l :: ls) v
    rw [(exec_lbl_kind env ls l s).1]
    cases hk : kind (exec env (l :: ls) s).1 with
    | brk lb =>
      cases lb with
      | none => simp [lblK]
      | some l' => by_cases h : l' = l <;> simp [lblK, h]
    | ret w => rw [hk] at this; simp [lblK]; intro hh; exact this (by rw [hh])
    | _ => simp [lblK]
  | sw u k a b iha ihb =>
    intro hs hr env ls
    simp only [stage1, Bool.and_eq_true] at hs
    simp only [retFree, Bool.and_eq_true] at hr
    simp only [exec]
    exact NR_swRes _ (iha hs.1 hr.1 env []) (ihb hs.2 hr.2 env [])
  | withS s ih =>
    intro hs hr env ls v
    have := ih hs hr env [] v
    simp only [exec]
    show kind ((exec env [] s).1.updateEmpty 0) ≠ K.ret v
    rw [kind_updateEmpty]; exact this
  | blk s ih => intro hs hr env ls; simp only [exec]; exact ih hs hr env []
  | ifIter m s ih =>
    intro hs hr env ls v
    simp only [exec]
    by_cases he : env = m
    · simp only [he, if_true]
      show kind ((exec m [] s).1.updateEmpty 0) ≠ K.ret v
      rw [kind_updateEmpty]; exact ih hs hr m [] v
    · simp [he, kind]

theorem catchPart_false (i : Nat) (rb : Res) (rc : Unit → Res) : catchPart i rb false rc = rb := by
  obtain ⟨cb, l⟩ := rb
  cases cb <;> rfl

/-- the try block followed by the catch clause: where the VM is afterwards, with the try frame
still on the stack (as `g`: the original frame, possibly with the catch clause disarmed). -/
theorem catchStage {C : Code} {ctx : List BI} {σ1 : VM} {p0 lb lc env cur i : Nat} {hasC : Bool}
    {I : List Nat} {rf : Bool} {g0 : TryFrame} {rest : List TryFrame} {rb : Res} {rc : Unit → Res}
    (ht : σ1.tries = g0 :: rest)
    (hg0c : g0.catchPos = if hasC then some (p0 + lb + 1) else none) (hg0sp : g0.sp = σ1.stack.length)
    (hg0il : g0.iterLen = σ1.iters.length)
    (hcnt : σ1.cnt cur = some env) (hcurI : cur ∉ I)
    (hB : SimK C (BI.try_ :: ctx) σ1 (p0 + lb) I rf rb.2 (kind rb.1))
    (hC : hasC = true →
      C[p0 + lb]? = some (Instr.jump (Int.ofNat (3 + lc + 1))) ∧ C[p0 + lb + 1]? = some (Instr.enterBlock 0) ∧
      C[p0 + lb + 2]? = some (Instr.catchLog i) ∧ C[p0 + lb + 3 + lc]? = some (Instr.leaveBlock 1) ∧
      ∀ τ : VM, τ.pc = p0 + lb + 3 → τ.halted = none → τ.cnt cur = some env →
        SimK C (BI.scope 1 :: BI.try_ :: ctx) τ (p0 + lb + 3 + lc) I rf (rc ()).2 (kind (rc ()).1)) :
    ∃ g : TryFrame, g.finallyPos = g0.finallyPos ∧ g.exc = g0.exc ∧ g.finallyRet = g0.finallyRet ∧ (g.sp = g0.sp ∧ g.iterLen = g0.iterLen) ∧
      (∀ v, kind (catchPart i rb hasC rc).1 = K.thr v → g.catchPos = none) ∧
      SimG C (BI.try_ :: ctx) σ1 { σ1 with tries := g :: rest } (p0 + lb + (if hasC then lc + 4 else 0)) I rf
        (catchPart i rb hasC rc).2 (kind (catchPart i rb hasC rc).1) := by
  have hself : ({ σ1 with tries := g0 :: rest } : VM) = σ1 := by rw [← ht]
  cases hasC with
  | false =>
    refine ⟨g0, rfl, rfl, rfl, ⟨rfl, rfl⟩, fun _ _ => by simpa using hg0c, ?_⟩
    rw [catchPart_false, hself]
    have : p0 + lb + (if false = true then lc + 4 else 0) = p0 + lb := by simp
    rw [this]
    exact hB
  | true =>
    obtain ⟨hJ, hEB, hCL, hLB, hCs⟩ := hC rfl
    simp only [if_true] at hg0c ⊢
    obtain ⟨cb, lbl⟩ := rb
    cases cb with
    | normal v =>
      refine ⟨g0, rfl, rfl, rfl, ⟨rfl, rfl⟩, fun w hw => by simp [catchPart, kind] at hw, ?_⟩
      rw [hself]
      obtain ⟨τ, h1, h2, h3, h4⟩ := hB
      have hi : C[τ.pc]? = some (Instr.jump (Int.ofNat (3 + lc + 1))) := by rw [h3]; exact hJ
      refine ⟨VM.step τ (.jump (Int.ofNat (3 + lc + 1))), h1.trans (Reach.one h2.halted hi), ?_, ?_, ?_⟩
      · have : Common τ (VM.step τ (.jump (Int.ofNat (3 + lc + 1)))) [] I rf :=
          ⟨by simp, by simp, by simpa using h2.iters, by simpa using h2.halted, fun _ _ => by simp, fun _ => by simp⟩
        simpa [catchPart] using h2.trans this
      · simp [h3]; omega
      · simpa using h4
    | brk l v =>
      refine ⟨g0, rfl, rfl, rfl, ⟨rfl, rfl⟩, fun w hw => by simp [catchPart, kind] at hw, ?_⟩
      rw [hself]
      exact SimK.end_irrel (k := K.brk l) (by simp) hB
    | cont l v =>
      refine ⟨g0, rfl, rfl, rfl, ⟨rfl, rfl⟩, fun w hw => by simp [catchPart, kind] at hw, ?_⟩
      rw [hself]
      exact SimK.end_irrel (k := K.cont l) (by simp) hB
    | ret v =>
      refine ⟨g0, rfl, rfl, rfl, ⟨rfl, rfl⟩, fun w hw => by simp [catchPart, kind] at hw, ?_⟩
      rw [hself]
      exact SimK.end_irrel (k := K.ret v) (by simp) hB
    | fatal =>
      refine ⟨g0, rfl, rfl, rfl, ⟨rfl, rfl⟩, fun w hw => by simp [catchPart, kind] at hw, ?_⟩
      rw [hself]
      exact SimK.end_irrel (k := K.fatal) (by simp) hB
    | thr v =>
      obtain ⟨τt, its, l0, hl, hc, ⟨xs, hs⟩, hr⟩ := hB
      have hl' : lbl = l0 ++ clEv its := hl
      have htt : τt.tries = g0 :: rest := by rw [hc.tries]; exact ht
      let gc : TryFrame := { g0 with catchPos := none }
      have hstep : VM.throwV (some v) τt =
          { τt with stack := v :: σ1.stack
                    pc := p0 + lb + 1
                    tries := gc :: rest
                    iters := σ1.iters
                    log := τt.log ++ clEv its } := by
        rw [throw_to_catch htt hg0c hc.iters hg0il]
        simp [hs, hg0sp, drop_ext, gc]
      let τc := VM.throwV (some v) τt
      let τc1 := VM.step τc (.enterBlock 0)
      let τc2 := VM.step τc1 (.catchLog i)
      have e1 : τc1 = { τt with stack := v :: σ1.stack
                                pc := p0 + lb + 2
                                tries := gc :: rest
                                iters := σ1.iters
                                log := τt.log ++ clEv its } := by
        simp only [τc1, τc]; rw [hstep]; simp
      have e2 : τc2 = { τt with stack := v :: σ1.stack
                                pc := p0 + lb + 3
                                tries := gc :: rest
                                iters := σ1.iters
                                log := τt.log ++ clEv its ++ [Ev.caught i v] } := by
        simp only [τc2]; rw [e1]; simp
      have hr2 : Reach C σ1 τc2 := by
        refine hr.trans (Reach.step ?_ ?_ (Reach.one ?_ ?_))
        · show τc.halted = none; simp only [τc]; rw [hstep]; exact hc.halted
        · show C[τc.pc]? = _; simp only [τc]; rw [hstep]; exact hEB
        · show τc1.halted = none; rw [e1]; exact hc.halted
        · show C[τc1.pc]? = _; rw [e1]; exact hCL
      have hc0 : Common { σ1 with tries := gc :: rest } τc2 (lbl ++ [Ev.caught i v]) I rf := by
        rw [e2]
        exact ⟨by show τt.log ++ clEv its ++ [Ev.caught i v] = σ1.log ++ (lbl ++ [Ev.caught i v])
                  rw [hc.log, hl']; simp [List.append_assoc],
          rfl, rfl, hc.halted, hc.cnt, hc.res⟩
      have hcn2 : τc2.cnt cur = some env := by rw [e2]; show τt.cnt cur = some env; rw [hc.cnt cur hcurI]; exact hcnt
      have cs := hCs τc2 (by rw [e2]) (by rw [e2]; exact hc.halted) hcn2
      have W := wrapScope (src := σ1) (base := { σ1 with tries := gc :: rest }) [v] rfl hr2 hc0 (by rw [e2]; rfl) hLB cs
      refine ⟨gc, rfl, rfl, rfl, ⟨rfl, rfl⟩, fun _ _ => rfl, ?_⟩
      have e : p0 + lb + (lc + 4) = p0 + lb + 3 + lc + 1 := by omega
      rw [e]
      simpa [catchPart, List.append_assoc] using W

/-- assembly of a try statement from the simulations of its parts -/
theorem trySim {C : Code} {ctx : List BI} {σ : VM} {pc lb lc lf env cur i : Nat} {hasC hasF : Bool}
    {I If : List Nat} {rf rfF : Bool} {rb : Res} {rc rff : Unit → Res} (hrfF : rf = true → rfF = true)
    (hpc : σ.pc = pc) (hh : σ.halted = none) (hcnt : σ.cnt cur = some env) (hcurI : cur ∉ I)
    (hsubF : ∀ x, x ∈ If → x ∈ I) (hcf : (hasC || hasF) = true)
    (hT : C[pc]? = some (Instr.try_ (if hasC then (1 + (if hasF then 1 else 0)) + lb + 1 else 0)
            (if hasF then (1 + (if hasF then 1 else 0)) + lb + (if hasC then 3 + lc + 1 else 0) + 1 else 0)))
    (hTE : hasF = true → C[pc + 1]? = some (Instr.emit (Ev.tryE i)))
    (hB : ∀ τ : VM, τ.pc = pc + (1 + (if hasF then 1 else 0)) → τ.halted = none → τ.cnt cur = some env →
        SimK C (BI.try_ :: ctx) τ (pc + (1 + (if hasF then 1 else 0)) + lb) I rf rb.2 (kind rb.1))
    (hC : hasC = true →
      C[pc + (1 + (if hasF then 1 else 0)) + lb]? = some (Instr.jump (Int.ofNat (3 + lc + 1))) ∧
      C[pc + (1 + (if hasF then 1 else 0)) + lb + 1]? = some (Instr.enterBlock 0) ∧
      C[pc + (1 + (if hasF then 1 else 0)) + lb + 2]? = some (Instr.catchLog i) ∧
      C[pc + (1 + (if hasF then 1 else 0)) + lb + 3 + lc]? = some (Instr.leaveBlock 1) ∧
      ∀ τ : VM, τ.pc = pc + (1 + (if hasF then 1 else 0)) + lb + 3 → τ.halted = none → τ.cnt cur = some env →
        SimK C (BI.scope 1 :: BI.try_ :: ctx) τ (pc + (1 + (if hasF then 1 else 0)) + lb + 3 + lc) I rf (rc ()).2 (kind (rc ()).1))
    (hFin : hasF = true →
      C[pc + 2 + lb + (if hasC then lc + 4 else 0)]? = some Instr.enterFinally ∧
      C[pc + 2 + lb + (if hasC then lc + 4 else 0) + 1]? = some (Instr.emit (Ev.finE i)) ∧
      C[pc + 2 + lb + (if hasC then lc + 4 else 0) + 2 + lf]? = some Instr.leaveFinally ∧
      ∀ τ : VM, τ.pc = pc + 2 + lb + (if hasC then lc + 4 else 0) + 2 → τ.halted = none → τ.cnt cur = some env →
        SimK C (BI.try_ :: ctx) τ (pc + 2 + lb + (if hasC then lc + 4 else 0) + 2 + lf) If rfF (rff ()).2 (kind (rff ()).1))
    (hNoFin : hasF = false → C[pc + 1 + lb + (if hasC then lc + 4 else 0)]? = some Instr.leaveTry)
    (hNR : rf = true → NR rb ∧ (hasC = true → NR (rc ()))) :
    SimK C ctx σ (pc + (1 + (if hasF then 1 else 0)) + lb + (if hasC then lc + 4 else 0) + (if hasF then 2 + lf + 1 else 1))
      I rf (tryRes i rb hasC rc hasF rff).2 (kind (tryRes i rb hasC rc hasF rff).1) := by
  have hretA : ∀ v, kind (catchPart i rb hasC rc).1 = K.ret v → rf = false := by
    intro v hk
    cases hrf : rf with
    | false => rfl
    | true =>
      obtain ⟨h1, h2⟩ := hNR hrf
      exact absurd hk (NR_catchPart i hasC h1 h2 v)
  cases hasF with
  | true =>
    simp only [if_true] at hT hB hC ⊢
    obtain ⟨hE, hM, hL, hF⟩ := hFin rfl
    have hTE' := hTE rfl
    -- entry: push the frame, log the instrumentation event
    let tf0 : TryFrame :=
      { iterLen := σ.iters.length, sp := σ.stack.length,
        catchPos := if hasC then some (pc + 2 + lb + 1) else none,
        finallyPos := some (pc + 2 + lb + (if hasC then lc + 4 else 0) + 1) }
    let σ0 := VM.step σ (.try_ (if hasC then 1 + 1 + lb + 1 else 0) (1 + 1 + lb + (if hasC then 3 + lc + 1 else 0) + 1))
    have e0 : σ0 = { σ with tries := tf0 :: σ.tries, pc := pc + 1 } := by
      simp only [σ0, tf0]
      cases hasC <;> simp [hpc] <;> omega
    let σ1 := VM.step σ0 (.emit (.tryE i))
    have e1 : σ1 = { σ with tries := tf0 :: σ.tries, pc := pc + 2, log := σ.log ++ [Ev.tryE i] } := by
      simp only [σ1]; rw [e0]; simp
    have hr1 : Reach C σ σ1 := by
      refine Reach.step hh (by rw [hpc]; exact hT) (Reach.one ?_ ?_)
      · show σ0.halted = none; rw [e0]; exact hh
      · show C[σ0.pc]? = _; rw [e0]; exact hTE'
    have hB' := hB σ1 (by rw [e1]) (by rw [e1]; exact hh) (by rw [e1]; exact hcnt)
    obtain ⟨g, hgf, hgx, hgr, hgsp, hgthr, hA⟩ := catchStage (C := C) (ctx := ctx) (σ1 := σ1) (p0 := pc + 2) (lb := lb) (lc := lc)
      (env := env) (cur := cur) (i := i) (hasC := hasC) (I := I) (rf := rf) (g0 := tf0) (rest := σ.tries) (rb := rb) (rc := rc)
      (by rw [e1]) (by simp [tf0]) (by rw [e1]) (by rw [e1]) (by rw [e1]; exact hcnt) hcurI hB' hC
    simp only [tryRes, if_true]
    by_cases hfat : (catchPart i rb hasC rc).1 = .fatal
    · -- uncatchable error in the try/catch part: the machine has halted, nothing else runs
      have hfp : finPart i (catchPart i rb hasC rc) rff = (.fatal, Ev.tryE i :: (catchPart i rb hasC rc).2) := by
        generalize catchPart i rb hasC rc = rbc at hfat
        obtain ⟨cc, l⟩ := rbc
        simp only at hfat; subst hfat; rfl
      rw [hfat] at hA
      obtain ⟨τ, h1, h2, h3⟩ := hA
      rw [hfp]
      refine ⟨τ, hr1.trans h1, ?_, h3⟩
      rw [h2, e1]; simp
    · have hnf : kind (catchPart i rb hasC rc).1 ≠ K.fatal := by
        intro h; apply hfat
        cases hc : (catchPart i rb hasC rc).1 <;> rw [hc] at h <;> simp [kind] at h
      have S := finallyStage (C := C) (ctx := ctx) (src := σ1) (base := { σ1 with tries := g :: σ.tries }) (g := g) (rest := σ.tries)
        (pcF := pc + 2 + lb + (if hasC then lc + 4 else 0)) (lf := lf) (env := env) (cur := cur) (i := i) (I := I) (If := If) (rf := rf)
        (by rw [hgf]) (by rw [hgx]) (by rw [hgr]) (by rw [hgsp.1, e1]) (by rw [hgsp.2, e1]) hgthr hretA hnf rfl
        (by rw [e1]; exact hcnt) hcurI hsubF hE hM hL hrfF hF hA
      have hc1 : Common σ { σ1 with tries := σ.tries } [Ev.tryE i] I rf := by
        rw [e1]; exact ⟨rfl, rfl, rfl, hh, fun _ _ => rfl, fun _ => rfl⟩
      have R := SimG.prependG (src := σ) (base := σ) hr1 hc1 (by rw [e1]) S
      obtain ⟨hk, hl⟩ := kind_finPart i (catchPart i rb hasC rc) rff hfat
      rw [hk, hl]
      have e : pc + (1 + 1) + lb + (if hasC then lc + 4 else 0) + (2 + lf + 1)
          = pc + 2 + lb + (if hasC then lc + 4 else 0) + 2 + lf + 1 := by omega
      rw [e]
      exact R
  | false =>
    have hC' : hasC = true := by simpa using hcf
    subst hC'
    simp only [Bool.false_eq_true, if_false, if_true, Nat.add_zero] at hT hB hC ⊢
    have hLT := hNoFin rfl
    simp only [if_true] at hLT
    let tf0 : TryFrame :=
      { iterLen := σ.iters.length, sp := σ.stack.length, catchPos := some (pc + 1 + lb + 1), finallyPos := none }
    let σ1 := VM.step σ (.try_ (1 + lb + 1) 0)
    have e1 : σ1 = { σ with tries := tf0 :: σ.tries, pc := pc + 1 } := by
      simp only [σ1, tf0]; simp [hpc]; omega
    have hr1 : Reach C σ σ1 := Reach.one hh (by rw [hpc]; exact hT)
    have hB' := hB σ1 (by rw [e1]) (by rw [e1]; exact hh) (by rw [e1]; exact hcnt)
    obtain ⟨g, hgf, hgx, hgr, hgsp, hgthr, hA⟩ := catchStage (C := C) (ctx := ctx) (σ1 := σ1) (p0 := pc + 1) (lb := lb) (lc := lc)
      (env := env) (cur := cur) (i := i) (hasC := true) (I := I) (rf := rf) (g0 := tf0) (rest := σ.tries) (rb := rb) (rc := rc)
      (by rw [e1]) (by simp [tf0]) (by rw [e1]) (by rw [e1]) (by rw [e1]; exact hcnt) hcurI hB' (fun _ => hC trivial)
    simp only [if_true] at hA
    have S := noFinallyStage (C := C) (ctx := ctx) (src := σ1) (base := { σ1 with tries := g :: σ.tries }) (g := g) (rest := σ.tries)
      (by rw [hgf]) hgthr rfl hLT hA
    have hc1 : Common σ { σ1 with tries := σ.tries } [] I rf := by
      rw [e1]; exact ⟨by simp, rfl, rfl, hh, fun _ _ => rfl, fun _ => rfl⟩
    have R := SimG.prependG (src := σ) (base := σ) hr1 hc1 (by rw [e1]) S
    simp only [tryRes, Bool.false_eq_true, if_false]
    rw [kind_updateEmpty]
    have R' : SimK C ctx σ (pc + 1 + lb + (lc + 4) + 1) I rf ([] ++ (catchPart i rb true rc).2)
        (kind (catchPart i rb true rc).1) := R
    simpa using R'

theorem common_step {σ : VM} {i : Instr} {l : List Ev} {I : List Nat} {rf : Bool}
    (h1 : (VM.step σ i).log = σ.log ++ l) (h2 : (VM.step σ i).tries = σ.tries)
    (h3 : (VM.step σ i).iters = σ.iters) (h4 : (VM.step σ i).halted = none)
    (h5 : ∀ x, x ∉ I → (VM.step σ i).cnt x = σ.cnt x) (h6 : rf = true → (VM.step σ i).result = σ.result) :
    Common σ (VM.step σ i) l I rf := ⟨h1, h2, h3, h4, h5, h6⟩

/-! ### switch: the selector dispatch -/

/-- one clause test `dup; loadVal m; strictEq; jneP 3; pop; jump off` with the selector on top of the stack -/
theorem swTest {C : Code} {σ : VM} {p sel m : Nat} {st : List Val} {off : Int}
    (hC : CodeAt C p [Instr.dup, Instr.loadVal m, Instr.strictEq, Instr.jneP 3, Instr.pop, Instr.jump off])
    (hpc : σ.pc = p) (hh : σ.halted = none) (hst : σ.stack = sel :: st) :
    Reach C σ (if sel = m then { σ with pc := ((p + 5 : Nat) + off).toNat, stack := st } else { σ with pc := p + 6 }) := by
  have i0 := codeAt_head hC
  have i1 := codeAt_head (codeAt_tail hC)
  have i2 := codeAt_head (codeAt_tail (codeAt_tail hC))
  have i3 := codeAt_head (codeAt_tail (codeAt_tail (codeAt_tail hC)))
  have i4 := codeAt_head (codeAt_tail (codeAt_tail (codeAt_tail (codeAt_tail hC))))
  have i5 := codeAt_head (codeAt_tail (codeAt_tail (codeAt_tail (codeAt_tail (codeAt_tail hC)))))
  refine Reach.stepTo (τ := { σ with pc := p + 1, stack := sel :: sel :: st }) hh (by rw [hpc]; exact i0)
    (by simp [hst, hpc]) ?_
  refine Reach.stepTo (τ := { σ with pc := p + 1 + 1, stack := m :: sel :: sel :: st }) hh i1 (by simp) ?_
  refine Reach.stepTo (τ := { σ with pc := p + 1 + 1 + 1, stack := VM.boolV (sel == m) :: sel :: st }) hh i2 (by simp) ?_
  by_cases hs : sel = m
  · simp only [hs, if_true]
    refine Reach.stepTo (τ := { σ with pc := p + 1 + 1 + 1 + 1, stack := m :: st }) hh i3 (by simp [hs]) ?_
    refine Reach.stepTo (τ := { σ with pc := p + 1 + 1 + 1 + 1 + 1, stack := st }) hh i4 (by simp) ?_
    refine Reach.stepTo (τ := { σ with pc := ((p + 5 : Nat) + off).toNat, stack := st }) hh i5 (by simp; omega) ?_
    exact Reach.refl _
  · simp only [hs, if_false]
    have hb : (sel == m) = false := by simpa using hs
    refine Reach.stepTo (τ := { σ with pc := p + 6 }) hh i3 ?_ (Reach.refl _)
    simp [hb, hst]
    omega

/-- THE SIMULATION THEOREM (statement level). -/
theorem sim (s : Stmt) : ∀ (cur : Nat) (lab : Option Label) (ls : List Label) (ctx : List BI) (pc : Nat)
    (C : Code) (σ : VM) (env : Nat),
    stage1 s = true → ls = lab.toList → (isLoop s = false → lab = none) → cur ∉ ids s →
    Instr.nop ∉ gen s cur lab ctx pc → CodeAt C pc (gen s cur lab ctx pc) →
    σ.pc = pc → σ.halted = none → σ.cnt cur = some env →
    Sim C ctx σ (pc + glen s lab (ctx.map BI.shape)) (ids s) (retFree s) (adj lab (exec env ls s)) := by
  induction s with
  | skip =>
    intro cur lab ls ctx pc C σ env hst hls hlab hcur hnop hC hpc hh hcnt
    have hl : lab = none := hlab rfl
    subst hl
    rw [adj_none]
    exact ⟨σ, Reach.refl σ, Common.rfl' hh, by simp [glen, hpc], rfl⟩
  | log k =>
    intro cur lab ls ctx pc C σ env hst hls hlab hcur hnop hC hpc hh hcnt
    have hl : lab = none := hlab rfl
    subst hl
    rw [adj_none]
    have hi : C[σ.pc]? = some (Instr.emit (Ev.log k)) := by rw [hpc]; exact codeAt_head hC
    refine ⟨VM.step σ (.emit (.log k)), Reach.one hh hi, ?_, ?_, ?_⟩
    · exact common_step (by simp [exec]) (by simp) (by simp) (by simpa using hh)
        (fun _ _ => by simp) (fun _ => by simp)
    · simp [glen, hpc]
    · simp
  | seq a b iha ihb =>
    intro cur lab ls ctx pc C σ env hst hls hlab hcur hnop hC hpc hh hcnt
    have hl : lab = none := hlab rfl
    subst hl
    rw [adj_none]
    simp only [stage1, Bool.and_eq_true] at hst
    simp only [ids, List.mem_append, not_or] at hcur
    simp only [gen] at hnop hC
    rw [codeAt_append, gen_length] at hC
    have hna : Instr.nop ∉ gen a cur none ctx pc := fun h => hnop (List.mem_append_left _ h)
    have hnb : Instr.nop ∉ gen b cur none ctx (pc + glen a none (ctx.map BI.shape)) :=
      fun h => hnop (List.mem_append_right _ h)
    have A := iha cur none [] ctx pc C σ env hst.1 rfl (fun _ => rfl) hcur.1 hna hC.1 hpc hh hcnt
    rw [adj_none] at A
    have hIa : ∀ x, x ∈ ids a → x ∈ ids (Stmt.seq a b) := fun x hx => by simp [ids, hx]
    have hIb : ∀ x, x ∈ ids b → x ∈ ids (Stmt.seq a b) := fun x hx => by simp [ids, hx]
    have hra : retFree (Stmt.seq a b) = true → retFree a = true := fun h => by
      simp [retFree] at h; exact h.1
    have hrb : retFree (Stmt.seq a b) = true → retFree b = true := fun h => by
      simp [retFree] at h; exact h.2
    have := simSeq (e2 := pc + glen (Stmt.seq a b) none (ctx.map BI.shape))
      (ra := exec env [] a) (rb := fun _ => exec env [] b) (SimK.mono A hIa hra)
      (fun τ hr hc hp hs => by
        have hcn : τ.cnt cur = some env := by
          rw [hc.cnt cur (by simp [ids, hcur.1, hcur.2])]; exact hcnt
        have B := ihb cur none [] ctx _ C τ env hst.2 rfl (fun _ => rfl) hcur.2 hnb hC.2 hp hc.halted hcn
        rw [adj_none] at B
        have e : pc + glen (Stmt.seq a b) none (ctx.map BI.shape)
            = pc + glen a none (ctx.map BI.shape) + glen b none (ctx.map BI.shape) := by
          simp [glen, Nat.add_assoc]
        rw [e]
        exact SimK.mono B hIb hrb)
    simpa [Sim, exec] using this
  | brk l =>
    intro cur lab ls ctx pc C σ env hst hls hlab hcur hnop hC hpc hh hcnt
    have hl : lab = none := hlab rfl
    subst hl
    rw [adj_none]
    simp only [gen] at hnop hC
    cases hf : findBrk l true ctx with
    | none => simp [hf] at hnop
    | some p =>
      obtain ⟨ex, t⟩ := p
      simp only [hf] at hC
      refine ⟨σ, Reach.refl σ, Common.rfl' hh, rfl, ex, t, hf, ?_⟩
      rw [hpc]; exact hC
  | cont l =>
    intro cur lab ls ctx pc C σ env hst hls hlab hcur hnop hC hpc hh hcnt
    have hl : lab = none := hlab rfl
    subst hl
    rw [adj_none]
    simp only [gen] at hnop hC
    cases hf : findBrk l false ctx with
    | none => simp [hf] at hnop
    | some p =>
      obtain ⟨ex, t⟩ := p
      simp only [hf] at hC
      refine ⟨σ, Reach.refl σ, Common.rfl' hh, rfl, ex, t, hf, ?_⟩
      rw [hpc]; exact hC
  | ret v =>
    intro cur lab ls ctx pc C σ env hst hls hlab hcur hnop hC hpc hh hcnt
    have hl : lab = none := hlab rfl
    subst hl
    rw [adj_none]
    simp only [gen, List.singleton_append, List.cons_append] at hC
    have hi : C[σ.pc]? = some (Instr.loadVal v) := by rw [hpc]; exact codeAt_head hC
    refine ⟨VM.step σ (.loadVal v), Reach.one hh hi, ?_, ⟨[], by simp⟩, ?_⟩
    · exact common_step (by simp [exec]) (by simp) (by simp) (by simpa using hh)
        (fun _ _ => by simp) (fun h => by simp [retFree] at h)
    · have := codeAt_tail hC
      simpa [hpc] using this
  | thr v =>
    intro cur lab ls ctx pc C σ env hst hls hlab hcur hnop hC hpc hh hcnt
    have hl : lab = none := hlab rfl
    subst hl
    rw [adj_none]
    simp only [gen] at hC
    have hi : C[σ.pc]? = some (Instr.loadVal v) := by rw [hpc]; exact codeAt_head hC
    have hi2 : C[(VM.step σ (.loadVal v)).pc]? = some Instr.throw := by
      have := codeAt_head (codeAt_tail hC)
      simpa [hpc] using this
    refine ⟨VM.step σ (.loadVal v), [], (exec env [] (Stmt.thr v)).2, by simp [clEv, exec], ?_, ⟨[v], by simp⟩, ?_⟩
    · exact (common_step (by simp [exec]) (by simp) (by simp) (by simpa using hh)
        (fun _ _ => by simp) (fun _ => by simp)).toT
    · refine Reach.step hh hi ?_
      have := Reach.one (C := C) (σ := VM.step σ (.loadVal v)) (by simpa using hh) hi2
      simpa using this
  | fatal =>
    intro cur lab ls ctx pc C σ env hst hls hlab hcur hnop hC hpc hh hcnt
    have hl : lab = none := hlab rfl
    subst hl
    rw [adj_none]
    simp only [gen] at hC
    have hi : C[σ.pc]? = some Instr.fatal := by rw [hpc]; exact codeAt_head hC
    have hT := handleThrow_none σ.tries (σ.out Ev.fatal)
    refine ⟨VM.step σ .fatal, Reach.one hh hi, ?_, ?_⟩
    · show (VM.throwV none (σ.out Ev.fatal)).log = _
      rw [VM.throwV]
      simp only [VM.out] at hT ⊢
      rw [hT.2]; simp [exec]
    · show (VM.throwV none (σ.out Ev.fatal)).halted = _ ∧ (VM.throwV none (σ.out Ev.fatal)).tries = [] ∧
        (VM.throwV none (σ.out Ev.fatal)).iters = []
      rw [VM.throwV]
      simp only [VM.out] at hT ⊢
      exact hT.1
  | tryS i b hasC c hasF f ihb ihc ihf =>
    intro cur lab ls ctx pc C σ env hst hls hlab hcur hnop hC hpc hh hcnt
    have hl : lab = none := hlab rfl
    subst hl
    rw [adj_none]
    simp only [stage1, Bool.and_eq_true] at hst
    obtain ⟨⟨⟨hcf, hsb⟩, hsc⟩, hsf⟩ := hst
    simp only [ids, List.mem_append, not_or] at hcur
    obtain ⟨⟨hcb, hcc⟩, hcfi⟩ := hcur
    simp only [gen] at hnop hC
    generalize hlb : glen b none (BS.try_ :: ctx.map BI.shape) = lb at *
    generalize hlc : glen c none (BS.scope :: BS.try_ :: ctx.map BI.shape) = lc at *
    generalize hlf : glen f none (BS.try_ :: ctx.map BI.shape) = lf at *
    cases hasC <;> cases hasF
    · simp at hcf
    · simp only [codeAt_append, codeAt_cons, List.length_append, List.length_cons, List.length_nil, gen_length,
        List.map_cons, BI.shape, hlb, hlc, hlf, if_true, Bool.false_eq_true, if_false, List.append_nil, List.nil_append,
        Nat.zero_add, Nat.add_zero, Nat.reduceAdd, ← Nat.add_assoc] at hC
      simp only [if_true, Bool.false_eq_true, if_false, List.append_nil, List.nil_append, hlb, hlc, hlf, List.map_cons,
        BI.shape, Nat.zero_add, Nat.add_zero, Nat.reduceAdd, ← Nat.add_assoc, List.mem_append, not_or] at hnop
      obtain ⟨⟨⟨⟨hT, _⟩, hTE, _⟩, hCb⟩, ⟨⟨hE, hM, _⟩, hCf⟩, hL, _⟩ := hC
      simp only [if_true, Bool.and_eq_true] at hsf
      have hIb : ∀ x, x ∈ ids b → x ∈ ids (Stmt.tryS i b false c true f) := fun x hx => by simp [ids, hx]
      have hIf : ∀ x, x ∈ ids f → x ∈ ids (Stmt.tryS i b false c true f) := fun x hx => by simp [ids, hx]
      have hcurI : cur ∉ ids (Stmt.tryS i b false c true f) := by simp [ids, hcb, hcc, hcfi]
      have T := trySim (C := C) (ctx := ctx) (σ := σ) (pc := pc) (lb := lb) (lc := lc) (lf := lf) (env := env) (cur := cur) (i := i)
        (hasC := false) (hasF := true) (I := ids (Stmt.tryS i b false c true f)) (If := ids f)
        (rf := retFree (Stmt.tryS i b false c true f)) (rb := exec env [] b) (rc := fun _ => exec env [] c)
        (rff := fun _ => exec env [] f) (rfF := retFree f) (fun h => by simp [retFree] at h; exact h.2)
        hpc hh hcnt hcurI hIf rfl (by simpa using hT) (fun _ => hTE)
        (fun τ hp hhh hcc' => by
          have hnb : Instr.nop ∉ gen b cur none (BI.try_ :: ctx) (pc + 2) := by
            intro h; simp [h] at hnop
          have A := ihb cur none [] (BI.try_ :: ctx) (pc + 2) C τ env hsb rfl (fun _ => rfl) hcb hnb hCb
            (by simpa using hp) hhh hcc'
          rw [adj_none] at A
          simp only [List.map_cons, BI.shape, hlb] at A
          unfold Sim at A
          exact SimK.mono A hIb (fun h => by simp [retFree] at h; exact h.1.1))
        (fun h => by simp at h)
        (fun _ => ⟨by simpa using hE, by simpa using hM, by simpa using hL, fun τ hp hhh hcc' => by
          have hnf : Instr.nop ∉ gen f cur none (BI.try_ :: ctx) (pc + 2 + lb + 2) := by
            intro h; simp [h] at hnop
          have A := ihf cur none [] (BI.try_ :: ctx) (pc + 2 + lb + 2) C τ env hsf.1 rfl (fun _ => rfl) hcfi hnf hCf
            (by simpa using hp) hhh hcc'
          rw [adj_none] at A
          simp only [List.map_cons, BI.shape, hlf] at A
          unfold Sim at A
          simpa using A⟩)
        (fun h => by simp at h)
        (fun hr => by
          simp [retFree] at hr
          exact ⟨retFree_no_ret b hsb hr.1.1 env [], fun h => by simp at h⟩)
      have e : pc + glen (Stmt.tryS i b false c true f) none (ctx.map BI.shape) = pc + 2 + lb + 2 + lf + 1 := by
        simp [glen, hlb, hlf]; omega
      rw [e]
      have e2 : pc + 2 + lb + (2 + lf + 1) = pc + 2 + lb + 2 + lf + 1 := by omega
      simp only [if_true, Bool.false_eq_true, if_false, Nat.add_zero, Nat.reduceAdd, e2] at T
      simpa [Sim, exec] using T
    · -- catch, no finally
      simp only [codeAt_append, codeAt_cons, List.length_append, List.length_cons, List.length_nil, gen_length,
        List.map_cons, BI.shape, hlb, hlc, hlf, if_true, Bool.false_eq_true, if_false, List.append_nil, List.nil_append,
        Nat.zero_add, Nat.add_zero, Nat.reduceAdd, ← Nat.add_assoc] at hC
      simp only [if_true, Bool.false_eq_true, if_false, List.append_nil, List.nil_append, hlb, hlc, hlf, List.map_cons,
        BI.shape, Nat.zero_add, Nat.add_zero, Nat.reduceAdd, ← Nat.add_assoc, List.mem_append, not_or] at hnop
      obtain ⟨⟨⟨⟨hT, _⟩, hCb⟩, ⟨⟨hJ, hEB, hCL, _⟩, hCc⟩, hLB, _⟩, hLT, _⟩ := hC
      simp only [if_true] at hsc
      have hIb : ∀ x, x ∈ ids b → x ∈ ids (Stmt.tryS i b true c false f) := fun x hx => by simp [ids, hx]
      have hIc : ∀ x, x ∈ ids c → x ∈ ids (Stmt.tryS i b true c false f) := fun x hx => by simp [ids, hx]
      have hIf : ∀ x, x ∈ ids f → x ∈ ids (Stmt.tryS i b true c false f) := fun x hx => by simp [ids, hx]
      have hcurI : cur ∉ ids (Stmt.tryS i b true c false f) := by simp [ids, hcb, hcc, hcfi]
      have T := trySim (C := C) (ctx := ctx) (σ := σ) (pc := pc) (lb := lb) (lc := lc) (lf := lf) (env := env) (cur := cur) (i := i)
        (hasC := true) (hasF := false) (I := ids (Stmt.tryS i b true c false f)) (If := ids f)
        (rf := retFree (Stmt.tryS i b true c false f)) (rb := exec env [] b) (rc := fun _ => exec env [] c)
        (rff := fun _ => exec env [] f) (rfF := retFree f) (fun h => by simp [retFree] at h; exact h.2)
        hpc hh hcnt hcurI hIf rfl (by simpa using hT) (fun h => by simp at h)
        (fun τ hp hhh hcc' => by
          have hnb : Instr.nop ∉ gen b cur none (BI.try_ :: ctx) (pc + 1) := by
            intro h; simp [h] at hnop
          have A := ihb cur none [] (BI.try_ :: ctx) (pc + 1) C τ env hsb rfl (fun _ => rfl) hcb hnb hCb
            (by simpa using hp) hhh hcc'
          rw [adj_none] at A
          simp only [List.map_cons, BI.shape, hlb] at A
          unfold Sim at A
          exact SimK.mono A hIb (fun h => by simp [retFree] at h; exact h.1.1))
        (fun _ => ⟨by simpa using hJ, by simpa using hEB, by simpa [Nat.add_assoc] using hCL, by simpa using hLB,
          fun τ hp hhh hcc' => by
          have hnc : Instr.nop ∉ gen c cur none (BI.scope 1 :: BI.try_ :: ctx) (pc + 1 + lb + 3) := by
            intro h; simp [h] at hnop
          have A := ihc cur none [] (BI.scope 1 :: BI.try_ :: ctx) (pc + 1 + lb + 3) C τ env hsc rfl (fun _ => rfl) hcc hnc hCc
            (by simpa using hp) hhh hcc'
          rw [adj_none] at A
          simp only [List.map_cons, BI.shape, hlc] at A
          unfold Sim at A
          simpa using SimK.mono A hIc (fun h => by simp [retFree] at h; exact h.1.2)⟩)
        (fun h => by simp at h)
        (fun _ => by
          have : pc + 1 + lb + (lc + 4) = pc + 1 + lb + 3 + lc + 1 := by omega
          simp only [if_true]; rw [this]; exact hLT)
        (fun hr => by
          simp [retFree] at hr
          exact ⟨retFree_no_ret b hsb hr.1.1 env [], fun _ => retFree_no_ret c hsc hr.1.2 env []⟩)
      have e : pc + glen (Stmt.tryS i b true c false f) none (ctx.map BI.shape) = pc + 1 + lb + (lc + 4) + 1 := by
        simp [glen, hlb, hlc]; omega
      rw [e]
      simp only [if_true, Bool.false_eq_true, if_false, Nat.add_zero, Nat.reduceAdd] at T
      simpa [Sim, exec] using T
    · -- catch and finally
      simp only [codeAt_append, codeAt_cons, List.length_append, List.length_cons, List.length_nil, gen_length,
        List.map_cons, BI.shape, hlb, hlc, hlf, if_true, Bool.false_eq_true, if_false, List.append_nil, List.nil_append,
        Nat.zero_add, Nat.add_zero, Nat.reduceAdd, ← Nat.add_assoc] at hC
      simp only [if_true, Bool.false_eq_true, if_false, List.append_nil, List.nil_append, hlb, hlc, hlf, List.map_cons,
        BI.shape, Nat.zero_add, Nat.add_zero, Nat.reduceAdd, ← Nat.add_assoc, List.mem_append, not_or] at hnop
      obtain ⟨⟨⟨⟨⟨hT, _⟩, hTE, _⟩, hCb⟩, ⟨⟨hJ, hEB, hCL, _⟩, hCc⟩, hLB, _⟩, ⟨⟨hE, hM, _⟩, hCf⟩, hL, _⟩ := hC
      simp only [if_true, Bool.and_eq_true] at hsc hsf
      have hIb : ∀ x, x ∈ ids b → x ∈ ids (Stmt.tryS i b true c true f) := fun x hx => by simp [ids, hx]
      have hIc : ∀ x, x ∈ ids c → x ∈ ids (Stmt.tryS i b true c true f) := fun x hx => by simp [ids, hx]
      have hIf : ∀ x, x ∈ ids f → x ∈ ids (Stmt.tryS i b true c true f) := fun x hx => by simp [ids, hx]
      have hcurI : cur ∉ ids (Stmt.tryS i b true c true f) := by simp [ids, hcb, hcc, hcfi]
      have ee : pc + 2 + lb + 3 + lc + 1 = pc + 2 + lb + (lc + 4) := by omega
      have T := trySim (C := C) (ctx := ctx) (σ := σ) (pc := pc) (lb := lb) (lc := lc) (lf := lf) (env := env) (cur := cur) (i := i)
        (hasC := true) (hasF := true) (I := ids (Stmt.tryS i b true c true f)) (If := ids f)
        (rf := retFree (Stmt.tryS i b true c true f)) (rb := exec env [] b) (rc := fun _ => exec env [] c)
        (rff := fun _ => exec env [] f) (rfF := retFree f) (fun h => by simp [retFree] at h; exact h.2)
        hpc hh hcnt hcurI hIf rfl
        (by have : 1 + 1 + lb + (3 + lc + 1) + 1 = 2 + lb + 3 + lc + 1 + 1 := by omega
            simp only [if_true]; rw [this]; simpa using hT)
        (fun _ => hTE)
        (fun τ hp hhh hcc' => by
          have hnb : Instr.nop ∉ gen b cur none (BI.try_ :: ctx) (pc + 2) := by
            intro h; simp [h] at hnop
          have A := ihb cur none [] (BI.try_ :: ctx) (pc + 2) C τ env hsb rfl (fun _ => rfl) hcb hnb hCb
            (by simpa using hp) hhh hcc'
          rw [adj_none] at A
          simp only [List.map_cons, BI.shape, hlb] at A
          unfold Sim at A
          exact SimK.mono A hIb (fun h => by simp [retFree] at h; exact h.1.1))
        (fun _ => ⟨by simpa using hJ, by simpa using hEB, by simpa [Nat.add_assoc] using hCL, by simpa using hLB,
          fun τ hp hhh hcc' => by
          have hnc : Instr.nop ∉ gen c cur none (BI.scope 1 :: BI.try_ :: ctx) (pc + 2 + lb + 3) := by
            intro h; simp [h] at hnop
          have A := ihc cur none [] (BI.scope 1 :: BI.try_ :: ctx) (pc + 2 + lb + 3) C τ env hsc rfl (fun _ => rfl) hcc hnc hCc
            (by simpa using hp) hhh hcc'
          rw [adj_none] at A
          simp only [List.map_cons, BI.shape, hlc] at A
          unfold Sim at A
          simpa using SimK.mono A hIc (fun h => by simp [retFree] at h; exact h.1.2)⟩)
        (fun _ => by
          simp only [if_true]
          rw [← ee]
          refine ⟨hE, hM, hL, fun τ hp hhh hcc' => ?_⟩
          have hnf : Instr.nop ∉ gen f cur none (BI.try_ :: ctx) (pc + 2 + lb + 3 + lc + 1 + 2) := by
            intro h; simp [h] at hnop
          have A := ihf cur none [] (BI.try_ :: ctx) (pc + 2 + lb + 3 + lc + 1 + 2) C τ env hsf.1 rfl (fun _ => rfl) hcfi hnf hCf
            hp hhh hcc'
          rw [adj_none] at A
          simp only [List.map_cons, BI.shape, hlf] at A
          unfold Sim at A
          exact A)
        (fun h => by simp at h)
        (fun hr => by
          simp [retFree] at hr
          exact ⟨retFree_no_ret b hsb hr.1.1 env [], fun _ => retFree_no_ret c hsc hr.1.2 env []⟩)
      have e : pc + glen (Stmt.tryS i b true c true f) none (ctx.map BI.shape) = pc + 2 + lb + (lc + 4) + (2 + lf + 1) := by
        simp [glen, hlb, hlc, hlf]; omega
      rw [e]
      simp only [if_true, Bool.false_eq_true, if_false, Nat.add_zero, Nat.reduceAdd] at T
      simpa [Sim, exec] using T
  | loop k id n body ih =>
    intro cur lab ls ctx pc C σ env hst hls hlab hcur hnop hC hpc hh hcnt
    subst hls
    simp only [stage1, Bool.and_eq_true, Bool.not_eq_true', bne_iff_ne, ne_eq] at hst
    obtain ⟨⟨hk, hstb⟩, hidc⟩ := hst
    have hidb : id ∉ ids body := by simpa using hidc
    have hIsub : ∀ x, x ∈ ids body → x ∈ ids (Stmt.loop k id n body) := fun x hx => by simp [ids, hx]
    have hidI : id ∈ ids (Stmt.loop k id n body) := by simp [ids]
    unfold Sim
    rw [kind_adj, adj_snd]
    simp only [exec]
    -- Common for a single instruction that may only change the loop's own counter
    have cstep : ∀ (τ : VM) (ins : Instr), τ.halted = none →
        (VM.step τ ins).log = τ.log → (VM.step τ ins).tries = τ.tries → (VM.step τ ins).iters = τ.iters →
        (VM.step τ ins).halted = τ.halted → (∀ x, x ≠ id → (VM.step τ ins).cnt x = τ.cnt x) →
        (VM.step τ ins).result = τ.result →
        Common τ (VM.step τ ins) [] (ids (Stmt.loop k id n body)) (retFree (Stmt.loop k id n body)) := by
      intro τ ins h1 h3 h4 h5 h6 h7 h8
      exact ⟨by rw [h3, List.append_nil], h4, h5, by rw [h6, h1],
        fun x hx => h7 x (fun hxe => hx (by rw [hxe]; exact hidI)), fun _ => h8⟩
    cases k with
    | forin => exact absurd rfl hk
    | forlet =>
      simp only [gen] at hnop hC
      rw [codeAt_append, codeAt_append] at hC
      obtain ⟨⟨hC0, hC1⟩, hC2⟩ := hC
      simp only [List.length_append, List.length_cons, List.length_nil, gen_length, List.map_cons, BI.shape] at hC1 hC2
      generalize hlb : glen body none (BS.iscope :: BS.loop lab :: ctx.map BI.shape) = lb at *
      have hnb : Instr.nop ∉ gen body id none (BI.iscope :: BI.loop lab (pc + 3 + 2 + lb + 3 + 1) (pc + 3 + 2 + lb) :: ctx) (pc + 3 + 2) :=
        fun h => hnop (List.mem_append_left _ (List.mem_append_right _ h))
      have hI0 := codeAt_head hC0
      have hI1 := codeAt_head (codeAt_tail hC0)
      have hI2 := codeAt_head (codeAt_tail (codeAt_tail hC0))
      have hI3 := codeAt_head (codeAt_tail (codeAt_tail (codeAt_tail hC0)))
      have hI4 := codeAt_head (codeAt_tail (codeAt_tail (codeAt_tail (codeAt_tail hC0))))
      have hT0 : C[pc + 3 + 2 + lb]? = some Instr.copyStash := by
        have := codeAt_head hC2
        simpa [Nat.add_assoc] using this
      have hT1 : C[pc + 3 + 2 + lb + 1]? = some (Instr.cntInc id) := by
        have := codeAt_head (codeAt_tail hC2)
        simpa [Nat.add_assoc] using this
      have hT2 : C[pc + 3 + 2 + lb + 2]? = some (Instr.jump (CS.rel (pc + 3) (pc + 3 + 2 + lb + 2))) := by
        have := codeAt_head (codeAt_tail (codeAt_tail hC2))
        simpa [Nat.add_assoc] using this
      have hT3 : C[pc + 3 + 2 + lb + 3]? = some (Instr.leaveBlock 1) := by
        have := codeAt_head (codeAt_tail (codeAt_tail (codeAt_tail hC2)))
        simpa [Nat.add_assoc] using this
      have head : ∀ (τ : VM) (i' : Nat), τ.pc = pc + 3 → τ.halted = none → τ.cnt id = some i' →
          ∃ τ', Reach C τ τ' ∧ Common τ τ' [] (ids (Stmt.loop .forlet id n body)) (retFree (Stmt.loop .forlet id n body)) ∧
            τ'.stack = τ.stack ∧
            (if i' < n then τ'.pc = pc + 3 + 2 ∧ τ'.cnt id = some i' else τ'.pc = pc + 3 + 2 + lb + 3) := by
        intro τ i' hp hhh hv
        let τ2 := VM.step τ (.cntLt id n)
        let τ3 := VM.step τ2 (.jneP (CS.rel (pc + 3 + 2 + lb + 3) (pc + 3 + 1)))
        have e2 : C[τ.pc]? = some (Instr.cntLt id n) := by rw [hp]; simpa using hI3
        have e3 : C[τ2.pc]? = some (Instr.jneP (CS.rel (pc + 3 + 2 + lb + 3) (pc + 3 + 1))) := by
          have : τ2.pc = pc + 3 + 1 := by simp [τ2, hp]
          rw [this]; simpa [Nat.add_assoc] using hI4
        have c2 := cstep τ (.cntLt id n) hhh (by simp) (by simp) (by simp) (by simp)
          (fun x hx => by simp) (by simp)
        have hr : Reach C τ τ3 := Reach.step hhh e2 (Reach.one c2.halted e3)
        have ht2 : τ2.stack = (if i' < n then 1 else 0) :: τ.stack := by
          simp [τ2, hv]
        by_cases hlt : i' < n
        · have hstep : τ3 = { τ2 with stack := τ.stack, pc := τ2.pc + 1 } := by
            simp [τ3, ht2, hlt]
          have c3 : Common τ2 τ3 [] (ids (Stmt.loop .forlet id n body)) (retFree (Stmt.loop .forlet id n body)) := by
            rw [hstep]
            exact ⟨by simp, rfl, c2.iters, c2.halted, fun _ _ => rfl, fun _ => rfl⟩
          refine ⟨τ3, hr, by simpa using c2.trans c3, by rw [hstep], ?_⟩
          simp only [hlt, if_true]
          refine ⟨by rw [hstep]; simp [τ2, hp], ?_⟩
          have : τ3.cnt id = τ.cnt id := by rw [hstep]; simp [τ2]
          rw [this, hv]
        · have hstep : τ3 = { τ2 with stack := τ.stack, pc := ((τ2.pc : Int) + CS.rel (pc + 3 + 2 + lb + 3) (pc + 3 + 1)).toNat } := by
            simp [τ3, ht2, hlt]
          have c3 : Common τ2 τ3 [] (ids (Stmt.loop .forlet id n body)) (retFree (Stmt.loop .forlet id n body)) := by
            rw [hstep]
            exact ⟨by simp, rfl, c2.iters, c2.halted, fun _ _ => rfl, fun _ => rfl⟩
          refine ⟨τ3, hr, by simpa using c2.trans c3, by rw [hstep], ?_⟩
          simp only [hlt, if_false]
          have hp2 : τ2.pc = pc + 3 + 1 := by simp [τ2, hp]
          rw [hstep]
          simp only [hp2]
          exact jmp_rel (pc + 3 + 1) (pc + 3 + 2 + lb + 3)
      have hbody : ∀ (i : Nat) (τ : VM), τ.pc = pc + 3 + 2 → τ.halted = none → τ.cnt id = some i →
          SimK C (BI.iscope :: BI.loop lab (pc + 3 + 2 + lb + 3 + 1) (pc + 3 + 2 + lb) :: ctx) τ (pc + 3 + 2 + lb) (ids body)
            (retFree (Stmt.loop .forlet id n body)) (exec i [] body).2 (kind (exec i [] body).1) := by
        intro i τ hp hhh hcc
        have A := ih id none [] (BI.iscope :: BI.loop lab (pc + 3 + 2 + lb + 3 + 1) (pc + 3 + 2 + lb) :: ctx) (pc + 3 + 2) C τ i hstb rfl
          (fun _ => rfl) hidb hnb hC1 hp hhh hcc
        rw [adj_none] at A
        simp only [List.map_cons, BI.shape, hlb] at A
        exact A
      have hnext : ∀ (i : Nat) (τ : VM), (τ.pc = pc + 3 + 2 + lb ∨ τ.pc = pc + 3 + 2 + lb) → τ.halted = none →
          τ.cnt id = some i →
          ∃ τ', Reach C τ τ' ∧ Common τ τ' [] (ids (Stmt.loop .forlet id n body)) (retFree (Stmt.loop .forlet id n body)) ∧
            τ'.stack = τ.stack ∧
            (if i + 1 < n then τ'.pc = pc + 3 + 2 ∧ τ'.cnt id = some (i + 1) else τ'.pc = pc + 3 + 2 + lb + 3) := by
        intro i τ hp hhh hcc
        have hp : τ.pc = pc + 3 + 2 + lb := by rcases hp with h | h <;> exact h
        let τ0 := VM.step τ .copyStash
        let τ1 := VM.step τ0 (.cntInc id)
        let τj := VM.step τ1 (.jump (CS.rel (pc + 3) (pc + 3 + 2 + lb + 2)))
        have e0 : C[τ.pc]? = some Instr.copyStash := by rw [hp]; exact hT0
        have e1 : C[τ0.pc]? = some (Instr.cntInc id) := by
          have : τ0.pc = pc + 3 + 2 + lb + 1 := by simp [τ0, hp]
          rw [this]; exact hT1
        have ej : C[τ1.pc]? = some (Instr.jump (CS.rel (pc + 3) (pc + 3 + 2 + lb + 2))) := by
          have : τ1.pc = pc + 3 + 2 + lb + 2 := by simp [τ1, τ0, hp]
          rw [this]; exact hT2
        have c0 := cstep τ .copyStash hhh (by simp) (by simp) (by simp) (by simp)
          (fun x hx => by simp) (by simp)
        have c1 := cstep τ0 (.cntInc id) c0.halted (by simp) (by simp) (by simp) (by simp)
          (fun x hx => by simp [hx]) (by simp)
        have cj := cstep τ1 (.jump (CS.rel (pc + 3) (pc + 3 + 2 + lb + 2))) c1.halted (by simp) (by simp) (by simp) (by simp)
          (fun x hx => by simp) (by simp)
        have hpj : τj.pc = pc + 3 := by
          have := jmp_rel (pc + 3 + 2 + lb + 2) (pc + 3)
          have hp1 : τ1.pc = pc + 3 + 2 + lb + 2 := by simp [τ1, τ0, hp]
          show (((τ1.pc : Nat) : Int) + CS.rel (pc + 3) (pc + 3 + 2 + lb + 2)).toNat = pc + 3
          rw [hp1]; exact this
        obtain ⟨τ', h1, h2, h3, h4⟩ := head τj (i + 1) hpj cj.halted (by simp [τj, τ1, τ0, hcc])
        exact ⟨τ', (Reach.step hhh e0 (Reach.step c0.halted e1 (Reach.one c1.halted ej))).trans h1,
          by simpa using ((c0.trans c1).trans cj).trans h2,
          by rw [h3]; simp [τj, τ1, τ0], h4⟩
      -- entry: open the scope, zero the counter, copy the stash, then the loop head
      let σa := VM.step σ (.enterBlock 1)
      let σb := VM.step σa (.cntZero id)
      let σ0 := VM.step σb .copyStash
      have hIa : C[σ.pc]? = some (Instr.enterBlock 1) := by rw [hpc]; simpa using hI0
      have hIb : C[σa.pc]? = some (Instr.cntZero id) := by
        have : σa.pc = pc + 1 := by simp [σa, hpc]
        rw [this]; simpa using hI1
      have hIc : C[σb.pc]? = some Instr.copyStash := by
        have : σb.pc = pc + 1 + 1 := by simp [σb, σa, hpc]
        rw [this]; simpa using hI2
      have ca := cstep σ (.enterBlock 1) hh (by simp) (by simp) (by simp) (by simp)
        (fun x hx => by simp) (by simp)
      have cb := cstep σa (.cntZero id) ca.halted (by simp) (by simp) (by simp) (by simp)
        (fun x hx => by simp [hx]) (by simp)
      have c0 := cstep σb .copyStash cb.halted (by simp) (by simp) (by simp) (by simp)
        (fun x hx => by simp) (by simp)
      have hs00 : σ0.stack = 0 :: σ.stack := by simp [σ0, σb, σa]
      obtain ⟨τh, hrh, hch, hsh, hif⟩ := head σ0 0 (by simp [σ0, σb, σa, hpc]) c0.halted (by simp [σ0, σb])
      have e : pc + glen (Stmt.loop .forlet id n body) lab (ctx.map BI.shape) = pc + 3 + 2 + lb + 3 + 1 := by
        simp [glen, hlb]; omega
      rw [e]
      simp only [iterations]
      have hr0 : Reach C σ τh := (Reach.step hh hIa (Reach.step ca.halted hIb (Reach.one cb.halted hIc))).trans hrh
      have hc0 : Common σ τh [] (ids (Stmt.loop .forlet id n body)) (retFree (Stmt.loop .forlet id n body)) := by
        simpa using ((ca.trans cb).trans c0).trans hch
      have hs0 : τh.stack = 0 :: σ.stack := by rw [hsh]; exact hs00
      have hcB : Common σ { τh with stack := σ.stack } [] (ids (Stmt.loop .forlet id n body)) (retFree (Stmt.loop .forlet id n body)) :=
        ⟨hc0.log, hc0.tries, hc0.iters, hc0.halted, hc0.cnt, hc0.res⟩
      by_cases hn : 0 < n
      · simp only [hn, if_true] at hif
        have L := loopSimLet (C := C) (ctx := ctx) (lab := lab) (L := pc + 3 + 2 + lb + 3) (x := 0) (stk := σ.stack)
          (fun i => exec i [] body) hbody hnext hT3 hidb hIsub
          n 0 0 τh (by omega) hn hif.1 hch.halted hif.2 hs0
        have := SimG.prependG (l1 := []) (midB := { τh with stack := σ.stack }) (base := σ) hr0 hcB rfl L
        show SimG C ctx σ σ _ _ _ _ _
        simpa using this
      · simp only [hn, if_false] at hif
        have hn0 : n = 0 := by omega
        subst hn0
        simp only [loopFrom, kind, adjK]
        let τe := VM.step τh (.leaveBlock 1)
        have ce : Common τh τe [] (ids (Stmt.loop .forlet id 0 body)) (retFree (Stmt.loop .forlet id 0 body)) :=
          ⟨by simp [τe], by simp [τe], by simpa [τe] using hch.iters, by simpa [τe] using hch.halted,
           fun _ _ => by simp [τe], fun _ => by simp [τe]⟩
        refine ⟨τe, hr0.trans (Reach.one hch.halted (by rw [hif]; exact hT3)), by simpa using hc0.trans ce, ?_, ?_⟩
        · simp [τe, hif]
        · simp [τe, hs0]
    | while_ =>
      simp only [gen] at hnop hC
      rw [codeAt_append, codeAt_append] at hC
      obtain ⟨⟨hC0, hC1⟩, hC2⟩ := hC
      simp only [List.length_append, List.length_cons, List.length_nil, gen_length, List.map_cons, BI.shape] at hC1 hC2
      generalize hlb : glen body none (BS.loop lab :: ctx.map BI.shape) = lb at *
      have hnb : Instr.nop ∉ gen body id none (BI.loop lab (pc + 1 + 3 + lb + 1) (pc + 1) :: ctx) (pc + 1 + 3) :=
        fun h => hnop (List.mem_append_left _ (List.mem_append_right _ h))
      have hI0 := codeAt_head hC0
      have hI1 := codeAt_head (codeAt_tail hC0)
      have hI2 := codeAt_head (codeAt_tail (codeAt_tail hC0))
      have hI3 := codeAt_head (codeAt_tail (codeAt_tail (codeAt_tail hC0)))
      have hJ : C[pc + 1 + 3 + lb]? = some (Instr.jump (CS.rel (pc + 1) (pc + 1 + 3 + lb))) := by
        have := codeAt_head hC2
        simpa [Nat.add_assoc] using this
      -- the loop head: increment, test, conditional jump
      have head : ∀ (τ : VM) (i' : Nat), τ.pc = pc + 1 → τ.halted = none →
          (VM.step τ (.cntInc id)).cnt id = some i' →
          ∃ τ', Reach C τ τ' ∧ Common τ τ' [] (ids (Stmt.loop .while_ id n body)) (retFree (Stmt.loop .while_ id n body)) ∧
            τ'.stack = τ.stack ∧
            (if i' < n then τ'.pc = pc + 1 + 3 ∧ τ'.cnt id = some i' else τ'.pc = pc + 1 + 3 + lb + 1) := by
        intro τ i' hp hhh hv
        let τ1 := VM.step τ (.cntInc id)
        let τ2 := VM.step τ1 (.cntLt id n)
        let τ3 := VM.step τ2 (.jneP (CS.rel (pc + 1 + 3 + lb + 1) (pc + 1 + 2)))
        have hv1 : τ1.cnt id = some i' := hv
        have e1 : C[τ.pc]? = some (Instr.cntInc id) := by rw [hp]; simpa using hI1
        have e2 : C[τ1.pc]? = some (Instr.cntLt id n) := by
          have : τ1.pc = pc + 1 + 1 := by simp [τ1, hp]
          rw [this]; simpa [Nat.add_assoc] using hI2
        have e3 : C[τ2.pc]? = some (Instr.jneP (CS.rel (pc + 1 + 3 + lb + 1) (pc + 1 + 2))) := by
          have : τ2.pc = pc + 1 + 1 + 1 := by simp [τ2, τ1, hp]
          rw [this]; simpa [Nat.add_assoc] using hI3
        have c1 := cstep τ (.cntInc id) hhh (by simp) (by simp) (by simp) (by simp)
          (fun x hx => by simp [hx]) (by simp)
        have c2 := cstep τ1 (.cntLt id n) c1.halted (by simp) (by simp) (by simp) (by simp)
          (fun x hx => by simp) (by simp)
        have hr : Reach C τ τ3 := Reach.step hhh e1 (Reach.step c1.halted e2 (Reach.one c2.halted e3))
        have ht2 : τ2.stack = (if i' < n then 1 else 0) :: τ.stack := by
          simp [τ2, τ1] at hv1 ⊢
          simp [hv1]
        by_cases hlt : i' < n
        · have hstep : τ3 = { τ2 with stack := τ.stack, pc := τ2.pc + 1 } := by
            simp [τ3, ht2, hlt]
          have c3 : Common τ2 τ3 [] (ids (Stmt.loop .while_ id n body)) (retFree (Stmt.loop .while_ id n body)) := by
            rw [hstep]
            exact ⟨by simp, rfl, c2.iters, c2.halted, fun _ _ => rfl, fun _ => rfl⟩
          refine ⟨τ3, hr, by simpa using (c1.trans c2).trans c3, by rw [hstep], ?_⟩
          simp only [hlt, if_true]
          refine ⟨by rw [hstep]; simp [τ2, τ1, hp], ?_⟩
          have : τ3.cnt id = τ1.cnt id := by rw [hstep]; simp [τ2]
          rw [this, hv1]
        · have hstep : τ3 = { τ2 with stack := τ.stack, pc := ((τ2.pc : Int) + CS.rel (pc + 1 + 3 + lb + 1) (pc + 1 + 2)).toNat } := by
            simp [τ3, ht2, hlt]
          have c3 : Common τ2 τ3 [] (ids (Stmt.loop .while_ id n body)) (retFree (Stmt.loop .while_ id n body)) := by
            rw [hstep]
            exact ⟨by simp, rfl, c2.iters, c2.halted, fun _ _ => rfl, fun _ => rfl⟩
          refine ⟨τ3, hr, by simpa using (c1.trans c2).trans c3, by rw [hstep], ?_⟩
          simp only [hlt, if_false]
          have hp2 : τ2.pc = pc + 1 + 2 := by simp [τ2, τ1, hp]
          rw [hstep]
          simp only [hp2]
          exact jmp_rel (pc + 1 + 2) (pc + 1 + 3 + lb + 1)
      have hbody : ∀ (i : Nat) (τ : VM), τ.pc = pc + 1 + 3 → τ.halted = none → τ.cnt id = some i →
          SimK C (BI.loop lab (pc + 1 + 3 + lb + 1) (pc + 1) :: ctx) τ (pc + 1 + 3 + lb) (ids body)
            (retFree (Stmt.loop .while_ id n body)) (exec i [] body).2 (kind (exec i [] body).1) := by
        intro i τ hp hhh hcc
        have A := ih id none [] (BI.loop lab (pc + 1 + 3 + lb + 1) (pc + 1) :: ctx) (pc + 1 + 3) C τ i hstb rfl
          (fun _ => rfl) hidb hnb hC1 hp hhh hcc
        rw [adj_none] at A
        simp only [List.map_cons, BI.shape, hlb] at A
        exact A
      have hnext : ∀ (i : Nat) (τ : VM), (τ.pc = pc + 1 + 3 + lb ∨ τ.pc = pc + 1) → τ.halted = none →
          τ.cnt id = some i →
          ∃ τ', Reach C τ τ' ∧ Common τ τ' [] (ids (Stmt.loop .while_ id n body)) (retFree (Stmt.loop .while_ id n body)) ∧
            τ'.stack = τ.stack ∧
            (if i + 1 < n then τ'.pc = pc + 1 + 3 ∧ τ'.cnt id = some (i + 1) else τ'.pc = pc + 1 + 3 + lb + 1) := by
        intro i τ hp hhh hcc
        rcases hp with hp | hp
        · let τj := VM.step τ (.jump (CS.rel (pc + 1) (pc + 1 + 3 + lb)))
          have ej : C[τ.pc]? = some (Instr.jump (CS.rel (pc + 1) (pc + 1 + 3 + lb))) := by rw [hp]; exact hJ
          have cj := cstep τ (.jump (CS.rel (pc + 1) (pc + 1 + 3 + lb))) hhh (by simp) (by simp) (by simp) (by simp)
            (fun x hx => by simp) (by simp)
          have hpj : τj.pc = pc + 1 := by
            have := jmp_rel (pc + 1 + 3 + lb) (pc + 1)
            simpa [τj, hp] using this
          obtain ⟨τ', h1, h2, h3, h4⟩ := head τj (i + 1) hpj cj.halted (by simp [τj, hcc])
          exact ⟨τ', (Reach.one hhh ej).trans h1, by simpa using cj.trans h2, by rw [h3]; simp [τj], h4⟩
        · exact head τ (i + 1) hp hhh (by simp [hcc])
      -- entry: reset the counter, then the loop head
      let σ0 := VM.step σ (.cntReset id)
      have hI0' : C[σ.pc]? = some (Instr.cntReset id) := by rw [hpc]; simpa using hI0
      have c0 := cstep σ (.cntReset id) hh (by simp) (by simp) (by simp) (by simp)
        (fun x hx => by simp [hx]) (by simp)
      obtain ⟨τh, hrh, hch, hsh, hif⟩ := head σ0 0 (by simp [σ0, hpc]) c0.halted (by simp [σ0])
      have e : pc + glen (Stmt.loop .while_ id n body) lab (ctx.map BI.shape) = pc + 1 + 3 + lb + 1 := by
        simp [glen, hlb]; omega
      rw [e]
      simp only [iterations]
      have hr0 : Reach C σ τh := (Reach.one hh hI0').trans hrh
      have hc0 : Common σ τh [] (ids (Stmt.loop .while_ id n body)) (retFree (Stmt.loop .while_ id n body)) := by
        simpa using c0.trans hch
      have hs0 : τh.stack = σ.stack := by rw [hsh]; simp [σ0]
      by_cases hn : 0 < n
      · simp only [hn, if_true] at hif
        have L := loopSim (C := C) (ctx := ctx) (lab := lab) (fun i => exec i [] body) hbody hnext hidb hIsub
          n 0 0 τh (by omega) hn hif.1 hch.halted hif.2
        have := SimK.prepend (l1 := []) hr0 hc0 hs0 L
        simpa using this
      · simp only [hn, if_false] at hif
        have hn0 : n = 0 := by omega
        subst hn0
        simp only [loopFrom, kind, adjK]
        exact ⟨τh, hr0, hc0, hif, hs0⟩
    | do_ =>
      simp only [gen] at hnop hC
      rw [codeAt_append, codeAt_append] at hC
      obtain ⟨⟨hC0, hC1⟩, hC2⟩ := hC
      simp only [List.length_append, List.length_cons, List.length_nil, gen_length, List.map_cons, BI.shape] at hC1 hC2
      generalize hlb : glen body none (BS.loop lab :: ctx.map BI.shape) = lb at *
      have hnb : Instr.nop ∉ gen body id none (BI.loop lab (pc + 1 + lb + 3) (pc + 1 + lb) :: ctx) (pc + 1) :=
        fun h => hnop (List.mem_append_left _ (List.mem_append_right _ h))
      have hI0 := codeAt_head hC0
      have hT0 : C[pc + 1 + lb]? = some (Instr.cntInc id) := by
        have := codeAt_head hC2
        simpa [Nat.add_assoc] using this
      have hT1 : C[pc + 1 + lb + 1]? = some (Instr.cntLt id n) := by
        have := codeAt_head (codeAt_tail hC2)
        simpa [Nat.add_assoc] using this
      have hT2 : C[pc + 1 + lb + 2]? = some (Instr.jeqP (CS.rel (pc + 1) (pc + 1 + lb + 2))) := by
        have := codeAt_head (codeAt_tail (codeAt_tail hC2))
        simpa [Nat.add_assoc] using this
      have hbody : ∀ (i : Nat) (τ : VM), τ.pc = pc + 1 → τ.halted = none → τ.cnt id = some i →
          SimK C (BI.loop lab (pc + 1 + lb + 3) (pc + 1 + lb) :: ctx) τ (pc + 1 + lb) (ids body)
            (retFree (Stmt.loop .do_ id n body)) (exec i [] body).2 (kind (exec i [] body).1) := by
        intro i τ hp hhh hcc
        have A := ih id none [] (BI.loop lab (pc + 1 + lb + 3) (pc + 1 + lb) :: ctx) (pc + 1) C τ i hstb rfl
          (fun _ => rfl) hidb hnb hC1 hp hhh hcc
        rw [adj_none] at A
        simp only [List.map_cons, BI.shape, hlb] at A
        exact A
      have hnext : ∀ (i : Nat) (τ : VM), (τ.pc = pc + 1 + lb ∨ τ.pc = pc + 1 + lb) → τ.halted = none →
          τ.cnt id = some i →
          ∃ τ', Reach C τ τ' ∧ Common τ τ' [] (ids (Stmt.loop .do_ id n body)) (retFree (Stmt.loop .do_ id n body)) ∧
            τ'.stack = τ.stack ∧
            (if i + 1 < iterations .do_ n then τ'.pc = pc + 1 ∧ τ'.cnt id = some (i + 1) else τ'.pc = pc + 1 + lb + 3) := by
        intro i τ hp hhh hcc
        have hp : τ.pc = pc + 1 + lb := by rcases hp with h | h <;> exact h
        let τ1 := VM.step τ (.cntInc id)
        let τ2 := VM.step τ1 (.cntLt id n)
        let τ3 := VM.step τ2 (.jeqP (CS.rel (pc + 1) (pc + 1 + lb + 2)))
        have hv1 : τ1.cnt id = some (i + 1) := by simp [τ1, hcc]
        have e1 : C[τ.pc]? = some (Instr.cntInc id) := by rw [hp]; exact hT0
        have e2 : C[τ1.pc]? = some (Instr.cntLt id n) := by
          have : τ1.pc = pc + 1 + lb + 1 := by simp [τ1, hp]
          rw [this]; exact hT1
        have e3 : C[τ2.pc]? = some (Instr.jeqP (CS.rel (pc + 1) (pc + 1 + lb + 2))) := by
          have : τ2.pc = pc + 1 + lb + 2 := by simp [τ2, τ1, hp]
          rw [this]; exact hT2
        have c1 := cstep τ (.cntInc id) hhh (by simp) (by simp) (by simp) (by simp)
          (fun x hx => by simp [hx]) (by simp)
        have c2 := cstep τ1 (.cntLt id n) c1.halted (by simp) (by simp) (by simp) (by simp)
          (fun x hx => by simp) (by simp)
        have hr : Reach C τ τ3 := Reach.step hhh e1 (Reach.step c1.halted e2 (Reach.one c2.halted e3))
        have ht2 : τ2.stack = (if i + 1 < n then 1 else 0) :: τ.stack := by
          simp [τ2, τ1] at hv1 ⊢
          simp [hv1]
        have hiter : (i + 1 < iterations .do_ n) ↔ (i + 1 < n) := by
          simp only [iterations]
          by_cases h0 : n = 0
          · simp [h0]
          · simp [h0]
        by_cases hlt : i + 1 < n
        · have hstep : τ3 = { τ2 with stack := τ.stack, pc := ((τ2.pc : Int) + CS.rel (pc + 1) (pc + 1 + lb + 2)).toNat } := by
            simp [τ3, ht2, hlt]
          have c3 : Common τ2 τ3 [] (ids (Stmt.loop .do_ id n body)) (retFree (Stmt.loop .do_ id n body)) := by
            rw [hstep]
            exact ⟨by simp, rfl, c2.iters, c2.halted, fun _ _ => rfl, fun _ => rfl⟩
          refine ⟨τ3, hr, by simpa using (c1.trans c2).trans c3, by rw [hstep], ?_⟩
          simp only [hiter.2 hlt, if_true]
          have hp2 : τ2.pc = pc + 1 + lb + 2 := by simp [τ2, τ1, hp]
          refine ⟨?_, ?_⟩
          · rw [hstep]; simp only [hp2]; exact jmp_rel (pc + 1 + lb + 2) (pc + 1)
          · have : τ3.cnt id = τ1.cnt id := by rw [hstep]; simp [τ2]
            rw [this, hv1]
        · have hstep : τ3 = { τ2 with stack := τ.stack, pc := τ2.pc + 1 } := by
            simp [τ3, ht2, hlt]
          have c3 : Common τ2 τ3 [] (ids (Stmt.loop .do_ id n body)) (retFree (Stmt.loop .do_ id n body)) := by
            rw [hstep]
            exact ⟨by simp, rfl, c2.iters, c2.halted, fun _ _ => rfl, fun _ => rfl⟩
          refine ⟨τ3, hr, by simpa using (c1.trans c2).trans c3, by rw [hstep], ?_⟩
          have hnl : ¬ (i + 1 < iterations .do_ n) := fun h => hlt (hiter.1 h)
          simp only [hnl, if_false]
          rw [hstep]; simp [τ2, τ1, hp]
      -- entry: zero the counter, fall into the body
      let σ0 := VM.step σ (.cntZero id)
      have hI0' : C[σ.pc]? = some (Instr.cntZero id) := by rw [hpc]; simpa using hI0
      have c0 := cstep σ (.cntZero id) hh (by simp) (by simp) (by simp) (by simp)
        (fun x hx => by simp [hx]) (by simp)
      have e : pc + glen (Stmt.loop .do_ id n body) lab (ctx.map BI.shape) = pc + 1 + lb + 3 := by
        simp [glen, hlb]; omega
      rw [e]
      have hN : 0 < iterations .do_ n := by
        simp only [iterations]; by_cases h0 : n = 0 <;> simp [h0]; omega
      have L := loopSim (C := C) (ctx := ctx) (lab := lab) (fun i => exec i [] body) hbody hnext hidb hIsub
        (iterations .do_ n) 0 0 σ0 (by omega) hN (by simp [σ0, hpc]) c0.halted (by simp [σ0])
      have := SimK.prepend (l1 := []) (Reach.one hh hI0') c0 (by simp [σ0]) L
      simpa using this
    | for_ =>
      simp only [gen] at hnop hC
      rw [codeAt_append, codeAt_append] at hC
      obtain ⟨⟨hC0, hC1⟩, hC2⟩ := hC
      simp only [List.length_append, List.length_cons, List.length_nil, gen_length, List.map_cons, BI.shape] at hC1 hC2
      generalize hlb : glen body none (BS.loop lab :: ctx.map BI.shape) = lb at *
      have hnb : Instr.nop ∉ gen body id none (BI.loop lab (pc + 1 + 2 + lb + 2) (pc + 1 + 2 + lb) :: ctx) (pc + 1 + 2) :=
        fun h => hnop (List.mem_append_left _ (List.mem_append_right _ h))
      have hI0 := codeAt_head hC0
      have hI1 := codeAt_head (codeAt_tail hC0)
      have hI2 := codeAt_head (codeAt_tail (codeAt_tail hC0))
      have hT0 : C[pc + 1 + 2 + lb]? = some (Instr.cntInc id) := by
        have := codeAt_head hC2
        simpa [Nat.add_assoc] using this
      have hT1 : C[pc + 1 + 2 + lb + 1]? = some (Instr.jump (CS.rel (pc + 1) (pc + 1 + 2 + lb + 1))) := by
        have := codeAt_head (codeAt_tail hC2)
        simpa [Nat.add_assoc] using this
      have head : ∀ (τ : VM) (i' : Nat), τ.pc = pc + 1 → τ.halted = none → τ.cnt id = some i' →
          ∃ τ', Reach C τ τ' ∧ Common τ τ' [] (ids (Stmt.loop .for_ id n body)) (retFree (Stmt.loop .for_ id n body)) ∧
            τ'.stack = τ.stack ∧
            (if i' < n then τ'.pc = pc + 1 + 2 ∧ τ'.cnt id = some i' else τ'.pc = pc + 1 + 2 + lb + 2) := by
        intro τ i' hp hhh hv
        let τ2 := VM.step τ (.cntLt id n)
        let τ3 := VM.step τ2 (.jneP (CS.rel (pc + 1 + 2 + lb + 2) (pc + 1 + 1)))
        have e2 : C[τ.pc]? = some (Instr.cntLt id n) := by rw [hp]; simpa using hI1
        have e3 : C[τ2.pc]? = some (Instr.jneP (CS.rel (pc + 1 + 2 + lb + 2) (pc + 1 + 1))) := by
          have : τ2.pc = pc + 1 + 1 := by simp [τ2, hp]
          rw [this]; simpa [Nat.add_assoc] using hI2
        have c2 := cstep τ (.cntLt id n) hhh (by simp) (by simp) (by simp) (by simp)
          (fun x hx => by simp) (by simp)
        have hr : Reach C τ τ3 := Reach.step hhh e2 (Reach.one c2.halted e3)
        have ht2 : τ2.stack = (if i' < n then 1 else 0) :: τ.stack := by
          simp [τ2, hv]
        by_cases hlt : i' < n
        · have hstep : τ3 = { τ2 with stack := τ.stack, pc := τ2.pc + 1 } := by
            simp [τ3, ht2, hlt]
          have c3 : Common τ2 τ3 [] (ids (Stmt.loop .for_ id n body)) (retFree (Stmt.loop .for_ id n body)) := by
            rw [hstep]
            exact ⟨by simp, rfl, c2.iters, c2.halted, fun _ _ => rfl, fun _ => rfl⟩
          refine ⟨τ3, hr, by simpa using c2.trans c3, by rw [hstep], ?_⟩
          simp only [hlt, if_true]
          refine ⟨by rw [hstep]; simp [τ2, hp], ?_⟩
          have : τ3.cnt id = τ.cnt id := by rw [hstep]; simp [τ2]
          rw [this, hv]
        · have hstep : τ3 = { τ2 with stack := τ.stack, pc := ((τ2.pc : Int) + CS.rel (pc + 1 + 2 + lb + 2) (pc + 1 + 1)).toNat } := by
            simp [τ3, ht2, hlt]
          have c3 : Common τ2 τ3 [] (ids (Stmt.loop .for_ id n body)) (retFree (Stmt.loop .for_ id n body)) := by
            rw [hstep]
            exact ⟨by simp, rfl, c2.iters, c2.halted, fun _ _ => rfl, fun _ => rfl⟩
          refine ⟨τ3, hr, by simpa using c2.trans c3, by rw [hstep], ?_⟩
          simp only [hlt, if_false]
          have hp2 : τ2.pc = pc + 1 + 1 := by simp [τ2, hp]
          rw [hstep]
          simp only [hp2]
          exact jmp_rel (pc + 1 + 1) (pc + 1 + 2 + lb + 2)
      have hbody : ∀ (i : Nat) (τ : VM), τ.pc = pc + 1 + 2 → τ.halted = none → τ.cnt id = some i →
          SimK C (BI.loop lab (pc + 1 + 2 + lb + 2) (pc + 1 + 2 + lb) :: ctx) τ (pc + 1 + 2 + lb) (ids body)
            (retFree (Stmt.loop .for_ id n body)) (exec i [] body).2 (kind (exec i [] body).1) := by
        intro i τ hp hhh hcc
        have A := ih id none [] (BI.loop lab (pc + 1 + 2 + lb + 2) (pc + 1 + 2 + lb) :: ctx) (pc + 1 + 2) C τ i hstb rfl
          (fun _ => rfl) hidb hnb hC1 hp hhh hcc
        rw [adj_none] at A
        simp only [List.map_cons, BI.shape, hlb] at A
        exact A
      have hnext : ∀ (i : Nat) (τ : VM), (τ.pc = pc + 1 + 2 + lb ∨ τ.pc = pc + 1 + 2 + lb) → τ.halted = none →
          τ.cnt id = some i →
          ∃ τ', Reach C τ τ' ∧ Common τ τ' [] (ids (Stmt.loop .for_ id n body)) (retFree (Stmt.loop .for_ id n body)) ∧
            τ'.stack = τ.stack ∧
            (if i + 1 < n then τ'.pc = pc + 1 + 2 ∧ τ'.cnt id = some (i + 1) else τ'.pc = pc + 1 + 2 + lb + 2) := by
        intro i τ hp hhh hcc
        have hp : τ.pc = pc + 1 + 2 + lb := by rcases hp with h | h <;> exact h
        let τ1 := VM.step τ (.cntInc id)
        let τj := VM.step τ1 (.jump (CS.rel (pc + 1) (pc + 1 + 2 + lb + 1)))
        have e1 : C[τ.pc]? = some (Instr.cntInc id) := by rw [hp]; exact hT0
        have ej : C[τ1.pc]? = some (Instr.jump (CS.rel (pc + 1) (pc + 1 + 2 + lb + 1))) := by
          have : τ1.pc = pc + 1 + 2 + lb + 1 := by simp [τ1, hp]
          rw [this]; exact hT1
        have c1 := cstep τ (.cntInc id) hhh (by simp) (by simp) (by simp) (by simp)
          (fun x hx => by simp [hx]) (by simp)
        have cj := cstep τ1 (.jump (CS.rel (pc + 1) (pc + 1 + 2 + lb + 1))) c1.halted (by simp) (by simp) (by simp) (by simp)
          (fun x hx => by simp) (by simp)
        have hpj : τj.pc = pc + 1 := by
          have := jmp_rel (pc + 1 + 2 + lb + 1) (pc + 1)
          simpa [τj, τ1, hp] using this
        obtain ⟨τ', h1, h2, h3, h4⟩ := head τj (i + 1) hpj cj.halted (by simp [τj, τ1, hcc])
        exact ⟨τ', (Reach.step hhh e1 (Reach.one c1.halted ej)).trans h1, by simpa using (c1.trans cj).trans h2,
          by rw [h3]; simp [τj, τ1], h4⟩
      -- entry: zero the counter, then the loop head
      let σ0 := VM.step σ (.cntZero id)
      have hI0' : C[σ.pc]? = some (Instr.cntZero id) := by rw [hpc]; simpa using hI0
      have c0 := cstep σ (.cntZero id) hh (by simp) (by simp) (by simp) (by simp)
        (fun x hx => by simp [hx]) (by simp)
      obtain ⟨τh, hrh, hch, hsh, hif⟩ := head σ0 0 (by simp [σ0, hpc]) c0.halted (by simp [σ0])
      have e : pc + glen (Stmt.loop .for_ id n body) lab (ctx.map BI.shape) = pc + 1 + 2 + lb + 2 := by
        simp [glen, hlb]; omega
      rw [e]
      simp only [iterations]
      have hr0 : Reach C σ τh := (Reach.one hh hI0').trans hrh
      have hc0 : Common σ τh [] (ids (Stmt.loop .for_ id n body)) (retFree (Stmt.loop .for_ id n body)) := by
        simpa using c0.trans hch
      have hs0 : τh.stack = σ.stack := by rw [hsh]; simp [σ0]
      by_cases hn : 0 < n
      · simp only [hn, if_true] at hif
        have L := loopSim (C := C) (ctx := ctx) (lab := lab) (fun i => exec i [] body) hbody hnext hidb hIsub
          n 0 0 τh (by omega) hn hif.1 hch.halted hif.2
        have := SimK.prepend (l1 := []) hr0 hc0 hs0 L
        simpa using this
      · simp only [hn, if_false] at hif
        have hn0 : n = 0 := by omega
        subst hn0
        simp only [loopFrom, kind, adjK]
        exact ⟨τh, hr0, hc0, hif, hs0⟩
  | forOf sp body ih =>
    intro cur lab ls ctx pc C σ env hst hls hlab hcur hnop hC hpc hh hcnt
    subst hls
    simp only [stage1, Bool.and_eq_true, Bool.not_eq_true'] at hst
    obtain ⟨⟨hlex, hstb⟩, hidc⟩ := hst
    have hidb : sp.id ∉ ids body := by simpa using hidc
    have hIsub : ∀ x, x ∈ ids body → x ∈ ids (Stmt.forOf sp body) := fun x hx => by simp [ids, hx]
    have hidI : sp.id ∈ ids (Stmt.forOf sp body) := by simp [ids]
    unfold Sim
    rw [kind_adj, adj_snd]
    simp only [gen] at hnop hC
    rw [codeAt_append, codeAt_append] at hC
    obtain ⟨⟨hC0, hC1⟩, hC2⟩ := hC
    simp only [List.length_append, List.length_cons, List.length_nil, gen_length, List.map_cons, BI.shape] at hC1 hC2
    generalize hlb : glen body none (BS.forof lab :: ctx.map BI.shape) = lb at *
    have hnb : Instr.nop ∉ gen body sp.id none (BI.forof lab (pc + 1 + 2 + lb + 1 + 2) (pc + 1) :: ctx) (pc + 1 + 2) :=
      fun h => hnop (List.mem_append_left _ (List.mem_append_right _ h))
    have hI0 := codeAt_head hC0
    have hI1 : C[pc + 1]? = some (Instr.iterNext (CS.rel (pc + 1 + 2 + lb + 1) (pc + 1))) := codeAt_head (codeAt_tail hC0)
    have hI2 : C[pc + 1 + 1]? = some (Instr.enumGet sp.id) := codeAt_head (codeAt_tail (codeAt_tail hC0))
    have hT0 : C[pc + 1 + 2 + lb]? = some (Instr.jump (CS.rel (pc + 1) (pc + 1 + 2 + lb))) := by
      have := codeAt_head hC2
      simpa [Nat.add_assoc] using this
    have hT1 : C[pc + 1 + 2 + lb + 1]? = some Instr.enumPop := by
      have := codeAt_head (codeAt_tail hC2)
      simpa [Nat.add_assoc] using this
    have hT2 : C[pc + 1 + 2 + lb + 1 + 1]? = some (Instr.jump 2) := by
      have := codeAt_head (codeAt_tail (codeAt_tail hC2))
      simpa [Nat.add_assoc] using this
    have hT3 : C[pc + 1 + 2 + lb + 1 + 2]? = some Instr.enumPopClose := by
      have := codeAt_head (codeAt_tail (codeAt_tail (codeAt_tail hC2)))
      simpa [Nat.add_assoc] using this
    have hC1' : CodeAt C (pc + 1 + 2) (gen body sp.id none (BI.forof lab (pc + 1 + 2 + lb + 1 + 2) (pc + 1) :: ctx) (pc + 1 + 2)) := by
      simpa [Nat.add_assoc] using hC1
    have hbody : ∀ (i : Nat) (τ : VM), τ.pc = pc + 1 + 2 → τ.halted = none → τ.cnt sp.id = some i →
        SimK C (BI.forof lab (pc + 1 + 2 + lb + 1 + 2) (pc + 1) :: ctx) τ (pc + 1 + 2 + lb) (ids (Stmt.forOf sp body))
          (retFree (Stmt.forOf sp body)) (exec i [] body).2 (kind (exec i [] body).1) := by
      intro i τ hp hhh hcc
      have A := ih sp.id none [] (BI.forof lab (pc + 1 + 2 + lb + 1 + 2) (pc + 1) :: ctx) (pc + 1 + 2) C τ i hstb rfl
        (fun _ => rfl) hidb hnb hC1' hp hhh hcc
      rw [adj_none] at A
      simp only [List.map_cons, BI.shape, hlb] at A
      exact SimK.mono A hIsub (fun h => by simpa [retFree] using h)
    have hNR : retFree (Stmt.forOf sp body) = true → ∀ i, NR (exec i [] body) :=
      fun h i => retFree_no_ret body hstb (by simpa [retFree] using h) i []
    let σ0 : VM := { σ with iters := { sp := some sp } :: σ.iters, log := σ.log ++ [Ev.itOpen sp.id], pc := pc + 1 }
    have s0 : VM.step σ (.iterateP sp) = σ0 := by simp [σ0, hpc]
    have hr0 : Reach C σ σ0 := Reach.stepTo hh (by rw [hpc]; simpa using hI0) s0 (Reach.refl _)
    have L := forOfSim (C := C) (ctx := ctx) (lab := lab) (start := pc + 1) (lb := lb) (sp := sp) (B := σ.iters)
      (fun i => exec i [] body) hbody hI1 hI2 hT0 hT1 hT2 hT3 hidI hNR
      (sp.n + 1) 0 0 σ0 { sp := some sp } (by omega) (by omega) rfl hh rfl rfl rfl
    have hc0 : Common σ { σ0 with iters := σ.iters } [Ev.itOpen sp.id] (ids (Stmt.forOf sp body)) (retFree (Stmt.forOf sp body)) :=
      ⟨rfl, rfl, rfl, hh, fun _ _ => rfl, fun _ => rfl⟩
    have R := SimG.prependG (src := σ) (base := σ) (midB := { σ0 with iters := σ.iters }) hr0 hc0 rfl L
    have e : pc + glen (Stmt.forOf sp body) lab (ctx.map BI.shape) = pc + 1 + 2 + lb + 1 + 2 + 1 := by
      simp [glen, hlb]; omega
    rw [e]
    simp only [exec]
    cases hf : forOfFrom (fun i => exec i [] body) sp lab.toList (sp.n + 1) 0 0 with
    | mk c l =>
      rw [hf] at R
      exact R
  | lbl l s ih =>
    intro cur lab ls ctx pc C σ env hst hls hlab hcur hnop hC hpc hh hcnt
    have hl : lab = none := hlab rfl
    subst hl
    rw [adj_none]
    have hls' : ls = [] := hls
    subst hls'
    simp only [stage1, Bool.and_eq_true, Bool.or_eq_true] at hst
    simp only [ids] at hcur
    by_cases hlo : isLoop s = true
    · -- a labelled loop: the loop block carries the label
      simp only [gen, hlo, if_true] at hnop hC
      have A := ih cur (some l) [l] ctx pc C σ env hst.1 rfl (fun h => by simp [hlo] at h) hcur hnop hC hpc hh hcnt
      rw [exec_lbl_adj]
      have e : glen (Stmt.lbl l s) none (ctx.map BI.shape) = glen s (some l) (ctx.map BI.shape) := by
        simp [glen, hlo]
      rw [e]
      exact SimK.mono A (fun x hx => by simpa [ids] using hx) (fun h => by simpa [retFree] using h)
    · -- a labelled statement
      have hlo' : isLoop s = false := by simpa using hlo
      have hlb : isLbl s = false := by
        rcases hst.2 with h | h
        · exact absurd h hlo
        · simpa using h
      simp only [gen, hlo', Bool.false_eq_true, if_false] at hnop hC
      have e : glen (Stmt.lbl l s) none (ctx.map BI.shape) = glen s none (BS.label l :: ctx.map BI.shape) := by
        simp [glen, hlo']
      rw [e]
      have A := ih cur none [] (BI.label l (pc + glen s none (BS.label l :: ctx.map BI.shape)) :: ctx) pc C σ env
        hst.1 rfl (fun _ => rfl) hcur hnop hC hpc hh hcnt
      rw [adj_none] at A
      have W := wrapLabel (SimK.mono A (I' := ids (Stmt.lbl l s)) (rf' := retFree (Stmt.lbl l s))
        (fun x hx => by simpa [ids] using hx) (fun h => by simpa [retFree] using h))
      have hx : exec env [l] s = exec env [] s := exec_ls_irrel s env [l] hlo' hlb
      obtain ⟨hk, hlg⟩ := exec_lbl_kind env [] l s
      unfold Sim
      rw [hk, hlg, hx]
      exact W
  | sw u k a b iha ihb =>
    intro cur lab ls ctx pc C σ env hst hls hlab hcur hnop hC hpc hh hcnt
    have hl : lab = none := hlab rfl
    subst hl
    rw [adj_none]
    simp only [stage1, Bool.and_eq_true] at hst
    simp only [ids, List.mem_append, not_or] at hcur
    simp only [gen] at hnop hC
    rw [codeAt_append, codeAt_append] at hC
    obtain ⟨⟨hC0, hCa⟩, hCb⟩ := hC
    simp only [List.length_append, List.length_cons, List.length_nil, gen_length, List.map_cons, BI.shape] at hCa hCb
    generalize hla : glen a none (BS.switch_ :: ctx.map BI.shape) = la at *
    generalize hlb : glen b none (BS.switch_ :: ctx.map BI.shape) = lb at *
    have hna : Instr.nop ∉ gen a cur none (BI.switch_ (pc + 15 + la + lb) :: ctx) (pc + 15) :=
      fun h => hnop (List.mem_append_left _ (List.mem_append_right _ h))
    have hnb : Instr.nop ∉ gen b cur none (BI.switch_ (pc + 15 + la + lb) :: ctx) (pc + 15 + la) :=
      fun h => hnop (List.mem_append_right _ h)
    have hCa' : CodeAt C (pc + 15) (gen a cur none (BI.switch_ (pc + 15 + la + lb) :: ctx) (pc + 15)) := by
      simpa [Nat.add_assoc] using hCa
    have hCb' : CodeAt C (pc + 15 + la) (gen b cur none (BI.switch_ (pc + 15 + la + lb) :: ctx) (pc + 15 + la)) := by
      simpa [Nat.add_assoc] using hCb
    have hIa : ∀ x, x ∈ ids a → x ∈ ids (Stmt.sw u k a b) := fun x hx => by simp [ids, hx]
    have hIb : ∀ x, x ∈ ids b → x ∈ ids (Stmt.sw u k a b) := fun x hx => by simp [ids, hx]
    have hra : retFree (Stmt.sw u k a b) = true → retFree a = true := fun h => by
      simp [retFree] at h; exact h.1
    have hrb : retFree (Stmt.sw u k a b) = true → retFree b = true := fun h => by
      simp [retFree] at h; exact h.2
    have he : pc + glen (Stmt.sw u k a b) none (ctx.map BI.shape) = pc + 15 + la + lb := by
      simp [glen, hla, hlb]; omega
    -- clause bodies from their entry points
    have runB : ∀ τ : VM, τ.pc = pc + 15 + la → τ.halted = none → τ.cnt cur = some env →
        SimK C (BI.switch_ (pc + 15 + la + lb) :: ctx) τ (pc + 15 + la + lb) (ids (Stmt.sw u k a b))
          (retFree (Stmt.sw u k a b)) (exec env [] b).2 (kind (exec env [] b).1) := by
      intro τ hp hhh hcc
      have B := ihb cur none [] (BI.switch_ (pc + 15 + la + lb) :: ctx) (pc + 15 + la) C τ env hst.2 rfl (fun _ => rfl)
        hcur.2 hnb hCb' hp hhh hcc
      rw [adj_none] at B
      simp only [List.map_cons, BI.shape, hlb] at B
      exact SimK.mono B hIb hrb
    have runA : ∀ τ : VM, τ.pc = pc + 15 → τ.halted = none → τ.cnt cur = some env →
        SimK C (BI.switch_ (pc + 15 + la + lb) :: ctx) τ (pc + 15 + la + lb) (ids (Stmt.sw u k a b))
          (retFree (Stmt.sw u k a b)) (seqRes (exec env [] a) (fun _ => exec env [] b)).2
          (kind (seqRes (exec env [] a) (fun _ => exec env [] b)).1) := by
      intro τ hp hhh hcc
      have A := iha cur none [] (BI.switch_ (pc + 15 + la + lb) :: ctx) (pc + 15) C τ env hst.1 rfl (fun _ => rfl)
        hcur.1 hna hCa' hp hhh hcc
      rw [adj_none] at A
      simp only [List.map_cons, BI.shape, hla] at A
      exact simSeq (ra := exec env [] a) (rb := fun _ => exec env [] b) (SimK.mono A hIa hra)
        (fun τ' hr hc hp' hs => runB τ' hp' hc.halted (by
          rw [hc.cnt cur (by simp [ids, hcur.1, hcur.2])]; exact hcc))
    -- the dispatch
    have i0 := codeAt_head hC0
    have hT0 : CodeAt C (pc + 1) [Instr.dup, Instr.loadVal 0, Instr.strictEq, Instr.jneP 3, Instr.pop,
        Instr.jump (CS.rel (pc + 15) (pc + 6))] := by
      intro j hj
      have := hC0 (1 + j) (by simp at hj ⊢; omega)
      simp only [List.length_cons, List.length_nil] at hj
      rw [← Nat.add_assoc] at this
      rw [this]
      have hj' : j < 6 := by omega
      rcases j with _ | _ | _ | _ | _ | _ | j <;> first | rfl | omega
    have hT1 : CodeAt C (pc + 7) [Instr.dup, Instr.loadVal 1, Instr.strictEq, Instr.jneP 3, Instr.pop,
        Instr.jump (CS.rel (pc + 15 + la) (pc + 12))] := by
      intro j hj
      have := hC0 (7 + j) (by simp at hj ⊢; omega)
      simp only [List.length_cons, List.length_nil] at hj
      rw [← Nat.add_assoc] at this
      rw [this]
      have hj' : j < 6 := by omega
      rcases j with _ | _ | _ | _ | _ | _ | j <;> first | rfl | omega
    have i13 : C[pc + 13]? = some Instr.pop := by
      have := hC0 13 (by simp); simpa using this
    have i14 : C[pc + 14]? = some (Instr.jump (CS.rel (pc + 15 + la + lb) (pc + 14))) := by
      have := hC0 14 (by simp); simpa using this
    let sel : Nat := if u then env else k
    let σ1 : VM := { σ with pc := pc + 1, stack := sel :: σ.stack }
    have hr1 : Reach C σ σ1 := Reach.stepTo hh (by rw [hpc]; exact i0) (by simp [σ1, sel, hpc, hcnt]) (Reach.refl _)
    have dispatch : ∃ τ, Reach C σ τ ∧ τ = { σ with pc := if sel = 0 then pc + 15 else if sel = 1 then pc + 15 + la else pc + 15 + la + lb } := by
      have t0 := swTest (σ := σ1) (sel := sel) (st := σ.stack) hT0 rfl hh rfl
      by_cases h0 : sel = 0
      · simp only [h0, if_true] at t0 ⊢
        refine ⟨_, hr1.trans t0, ?_⟩
        have := jmp_rel (pc + 6) (pc + 15)
        have e : ((pc + 1 + 5 : Nat) : Int) = ((pc + 6 : Nat) : Int) := by omega
        rw [e, this]
      · simp only [h0, if_false] at t0 ⊢
        let σ2 : VM := { σ1 with pc := pc + 1 + 6 }
        have t1 := swTest (σ := σ2) (p := pc + 7) (sel := sel) (st := σ.stack) hT1 (by simp [σ2]) hh rfl
        by_cases h1 : sel = 1
        · simp only [h1, if_true] at t1 ⊢
          refine ⟨_, hr1.trans (t0.trans t1), ?_⟩
          have := jmp_rel (pc + 12) (pc + 15 + la)
          have e : ((pc + 7 + 5 : Nat) : Int) = ((pc + 12 : Nat) : Int) := by omega
          rw [e, this]
        · simp only [h1, if_false] at t1 ⊢
          let σ3 : VM := { σ2 with pc := pc + 7 + 6 }
          let σ4 : VM := { σ with pc := pc + 14 }
          have s3 : Reach C σ3 σ4 := Reach.stepTo hh i13 (by simp [σ3, σ2, σ1, σ4]) (Reach.refl _)
          have s4 : Reach C σ4 { σ with pc := pc + 15 + la + lb } := by
            refine Reach.stepTo hh i14 ?_ (Reach.refl _)
            have := jmp_rel (pc + 14) (pc + 15 + la + lb)
            simp [σ4]
            exact this
          exact ⟨_, hr1.trans (t0.trans (t1.trans (s3.trans s4))), rfl⟩
    obtain ⟨τd, hrd, hτd⟩ := dispatch
    have hcd : Common σ τd [] (ids (Stmt.sw u k a b)) (retFree (Stmt.sw u k a b)) := by
      rw [hτd]; exact ⟨by simp, rfl, rfl, hh, fun _ _ => rfl, fun _ => rfl⟩
    have hsd : τd.stack = σ.stack := by rw [hτd]
    unfold Sim
    simp only [exec]
    obtain ⟨hk, hlg⟩ := kind_swRes sel (fun _ => exec env [] a) (fun _ => exec env [] b)
    rw [he, hk, hlg]
    by_cases h0 : sel = 0
    · simp only [h0, if_true] at hτd ⊢
      have R := wrapSwitch (runA τd (by rw [hτd]) (by rw [hτd]; exact hh) (by rw [hτd]; exact hcnt))
      have := SimK.prepend (l1 := []) hrd hcd hsd R
      simpa using this
    · by_cases h1 : sel = 1
      · simp only [h0, h1, if_false, if_true] at hτd ⊢
        have R := wrapSwitch (runB τd (by rw [hτd]; simp) (by rw [hτd]; exact hh) (by rw [hτd]; exact hcnt))
        have := SimK.prepend (l1 := []) hrd hcd hsd R
        simpa using this
      · simp only [h0, h1, if_false] at hτd ⊢
        exact ⟨τd, hrd, hcd, by rw [hτd], hsd⟩
  | withS s ih =>
    intro cur lab ls ctx pc C σ env hst hls hlab hcur hnop hC hpc hh hcnt
    have hl : lab = none := hlab rfl
    subst hl
    rw [adj_none]
    simp only [stage1] at hst
    simp only [ids] at hcur
    simp only [gen] at hnop hC
    rw [codeAt_append, codeAt_append] at hC
    obtain ⟨⟨hC0, hC1⟩, hC2⟩ := hC
    simp only [List.length_append, List.length_cons, List.length_nil, gen_length, List.map_cons, BI.shape] at hC1 hC2
    have hns : Instr.nop ∉ gen s cur none (BI.with_ :: ctx) (pc + 2) :=
      fun h => hnop (List.mem_append_left _ (List.mem_append_right _ h))
    have hi : C[σ.pc]? = some (Instr.loadVal 0) := by rw [hpc]; exact codeAt_head hC0
    let σ0 := VM.step σ (.loadVal 0)
    have hi2 : C[σ0.pc]? = some Instr.enterWith := by
      have := codeAt_head (codeAt_tail hC0)
      simpa [σ0, hpc] using this
    let σ1 := VM.step σ0 .enterWith
    have hc0 : Common σ σ1 [] (ids (Stmt.withS s)) (retFree (Stmt.withS s)) :=
      ⟨by simp [σ1, σ0], by simp [σ1, σ0], by simp [σ1, σ0], by simpa [σ1, σ0] using hh,
       fun _ _ => by simp [σ1, σ0], fun _ => by simp [σ1, σ0]⟩
    have hr0 : Reach C σ σ1 := Reach.step hh hi (Reach.one (by simpa [σ0] using hh) hi2)
    have A := ih cur none [] (BI.with_ :: ctx) (pc + 2) C σ1 env hst rfl (fun _ => rfl) hcur hns hC1
      (by simp [σ1, σ0, hpc]) (by simpa [σ1, σ0] using hh) (by simpa [σ1, σ0] using hcnt)
    rw [adj_none] at A
    have hleave : C[pc + 2 + glen s none (BS.with_ :: ctx.map BI.shape)]? = some Instr.leaveWith := by
      have := codeAt_head hC2
      simpa [Nat.add_assoc] using this
    have W := wrapWith (l0 := []) hr0 hc0 (by simp [σ1, σ0]) hleave
      (SimK.mono A (fun x hx => by simpa [ids] using hx) (fun h => by simpa [retFree] using h))
    have e : pc + glen (Stmt.withS s) none (ctx.map BI.shape)
        = pc + 2 + glen s none (BS.with_ :: ctx.map BI.shape) + 1 := by simp [glen]; omega
    rw [e]
    cases hex : exec env [] s with
    | mk c lg =>
      rw [hex] at W
      simpa [Sim, exec, hex, kind_updateEmpty] using W
  | blk s ih =>
    intro cur lab ls ctx pc C σ env hst hls hlab hcur hnop hC hpc hh hcnt
    have hl : lab = none := hlab rfl
    subst hl
    rw [adj_none]
    simp only [stage1] at hst
    simp only [ids] at hcur
    simp only [gen] at hnop hC
    rw [codeAt_append, codeAt_append] at hC
    obtain ⟨⟨hC0, hC1⟩, hC2⟩ := hC
    simp only [List.length_append, List.length_singleton, gen_length, List.map_cons, BI.shape] at hC1 hC2
    have hns : Instr.nop ∉ gen s cur none (BI.scope 1 :: ctx) (pc + 1) :=
      fun h => hnop (List.mem_append_left _ (List.mem_append_right _ h))
    have hi : C[σ.pc]? = some (Instr.enterBlock 1) := by rw [hpc]; exact codeAt_head hC0
    let σ1 := VM.step σ (.enterBlock 1)
    have hc0 : Common σ σ1 [] (ids (Stmt.blk s)) (retFree (Stmt.blk s)) :=
      common_step (by simp) (by simp) (by simp) (by simpa using hh) (fun _ _ => by simp) (fun _ => by simp)
    have A := ih cur none [] (BI.scope 1 :: ctx) (pc + 1) C σ1 env hst rfl (fun _ => rfl) hcur hns hC1
      (by simp [σ1, hpc]) (by simpa [σ1] using hh) (by simpa [σ1] using hcnt)
    rw [adj_none] at A
    have hleave : C[pc + 1 + glen s none (BS.scope :: ctx.map BI.shape)]? = some (Instr.leaveBlock 1) := by
      have := codeAt_head hC2
      simpa [Nat.add_assoc] using this
    have W := wrapScope (l0 := []) [0] rfl (Reach.one hh hi) hc0 (by simp [σ1]) hleave
      (SimK.mono A (fun x hx => by simpa [ids] using hx) (fun h => by simpa [retFree] using h))
    have e : pc + glen (Stmt.blk s) none (ctx.map BI.shape)
        = pc + 1 + glen s none (BS.scope :: ctx.map BI.shape) + 1 := by simp [glen]; omega
    rw [e]
    have W' : SimK C ctx σ (pc + 1 + glen s none (BS.scope :: ctx.map BI.shape) + 1) (ids (Stmt.blk s)) (retFree (Stmt.blk s))
        ([] ++ (exec env [] s).2) (kind (exec env [] s).1) := W
    simpa [Sim, exec] using W'
  | ifIter m s ih =>
    intro cur lab ls ctx pc C σ env hst hls hlab hcur hnop hC hpc hh hcnt
    have hl : lab = none := hlab rfl
    subst hl
    rw [adj_none]
    simp only [stage1] at hst
    simp only [ids] at hcur
    simp only [gen] at hnop hC
    rw [codeAt_append] at hC
    obtain ⟨hC0, hC1⟩ := hC
    simp only [List.length_cons, List.length_nil] at hC1
    have hns : Instr.nop ∉ gen s cur none ctx (pc + 2) := fun h => hnop (List.mem_append_right _ h)
    have hi : C[σ.pc]? = some (Instr.cntEq cur m) := by rw [hpc]; exact codeAt_head hC0
    let σ0 := VM.step σ (.cntEq cur m)
    have hi2 : C[σ0.pc]? = some (Instr.jneP (CS.rel (pc + 2 + glen s none (ctx.map BI.shape)) (pc + 1))) := by
      have := codeAt_head (codeAt_tail hC0)
      simpa [σ0, hpc] using this
    let σ1 := VM.step σ0 (.jneP (CS.rel (pc + 2 + glen s none (ctx.map BI.shape)) (pc + 1)))
    have hr0 : Reach C σ σ1 := Reach.step hh hi (Reach.one (by simpa [σ0] using hh) hi2)
    have e : pc + glen (Stmt.ifIter m s) none (ctx.map BI.shape) = pc + 2 + glen s none (ctx.map BI.shape) := by
      simp [glen]; omega
    rw [e]
    by_cases hem : env = m
    · -- condition true: fall through into the body
      subst hem
      have hc0 : Common σ σ1 [] (ids (Stmt.ifIter env s)) (retFree (Stmt.ifIter env s)) :=
        ⟨by simp [σ1, σ0, hcnt], by simp [σ1, σ0, hcnt], by simp [σ1, σ0, hcnt],
         by simpa [σ1, σ0, hcnt] using hh, fun _ _ => by simp [σ1, σ0, hcnt], fun _ => by simp [σ1, σ0, hcnt]⟩
      have A := ih cur none [] ctx (pc + 2) C σ1 env hst rfl (fun _ => rfl) hcur hns hC1
        (by simp [σ1, σ0, hcnt, hpc]) (by simpa [σ1, σ0, hcnt] using hh)
        (by simpa [σ1, σ0, hcnt] using hcnt)
      rw [adj_none] at A
      have P := SimK.prepend (l1 := []) hr0 hc0 (by simp [σ1, σ0, hcnt])
        (SimK.mono A (fun x hx => by simpa [ids] using hx) (fun h => by simpa [retFree] using h))
      cases hex : exec env [] s with
      | mk c lg =>
        rw [hex] at P
        simpa [Sim, exec, hex, kind_updateEmpty] using P
    · -- condition false: jump over the body
      have hpc1 : σ1.pc = pc + 2 + glen s none (ctx.map BI.shape) := by
        have := jmp_rel (pc + 1) (pc + 2 + glen s none (ctx.map BI.shape))
        simpa [σ1, σ0, hcnt, hem, hpc] using this
      have hc0 : Common σ σ1 [] (ids (Stmt.ifIter m s)) (retFree (Stmt.ifIter m s)) :=
        ⟨by simp [σ1, σ0, hcnt, hem], by simp [σ1, σ0, hcnt, hem], by simp [σ1, σ0, hcnt, hem],
         by simpa [σ1, σ0, hcnt, hem] using hh, fun _ _ => by simp [σ1, σ0, hcnt, hem], fun _ => by simp [σ1, σ0, hcnt, hem]⟩
      have : SimK C ctx σ (pc + 2 + glen s none (ctx.map BI.shape)) (ids (Stmt.ifIter m s)) (retFree (Stmt.ifIter m s)) [] K.normal :=
        ⟨σ1, hr0, hc0, hpc1, by simp [σ1, σ0, hcnt, hem]⟩
      simpa [Sim, exec, hem, kind] using this

end GojaModel.C08.S2
