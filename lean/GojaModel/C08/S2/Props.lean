/-
  C08 — compiler correctness, STAGE 2 (deepening round 2): stage 1 + for-of over instrumented iterators.

  The files of this directory are COPIES of the proved stage-1 development (CompileS / CompileSLemmas / CompileSSim /
  CompileEq / CompileSProps, which stay untouched), in namespace GojaModel.C08.S2, with
    * the simulation invariant's iterator stack relative to the start state (`Common.iters : σ'.iters = σ.iters`),
    * a throw post-condition that carries the iterators still open above the base at the throw point; handleThrow closes
      exactly those above the catching frame's recorded height, innermost first (`closeIters_go_above`, `throw_to_catch`,
      `throw_to_finally`, `throw_uncaught`),
    * a context entry `BI.forof` (blockLoopEnum: break / outer continue / return leave the loop through `enumPopClose`),
      `forOfSim` (induction on the remaining calls of next(): failing next() drops the iterator without return();
      exhaustion pops it; break, outer continue, return call return() once, whose own error replaces the completion;
      a throw out of the body is closed by handleThrow), and the for-of case of `cf_eq`.

  compileCF_correct_stage2 : for EVERY program of the stage-2 fragment (`stage1` of this namespace: try/catch/finally,
  while/do/for, for (let ..;;), for-of (non-lexical head), two-clause switch, break/continue [label], return, throw,
  uncatchable error, labels, if, block scope, with) the mini-VM run on the code of the back-patching `compileCF` has the
  reference event log, halts with the reference completion and leaves empty try and iterator stacks.
  Not in the fragment: for-in, `for (let x of ..)`, finally blocks that start with a top-level break/continue.
-/
import GojaModel.C08.S2.Sim
import GojaModel.C08.S2.Eq
import GojaModel.C08.Props

namespace GojaModel.C08.S2
open Compl

attribute [local simp] VM.step VM.next VM.out VM.pushV VM.popV VM.top VM.jmp VM.setCnt VM.getCnt VM.boolV

/-- what the caller of the function observes: falling off the end is `return undefined` -/
def obsCompl : Compl → Compl
  | .normal _ => .ret 0
  | c => c

theorem flatten_last_not_normal (p : Stmt) : endsWithReturn p = true → ∀ env ls, kind (exec env ls p).1 ≠ K.normal := by
  induction p with
  | seq a b iha ihb =>
    intro h env ls
    simp only [exec]
    have hcase : endsWithReturn b = true ∨ (flatten b = [] ∧ endsWithReturn a = true) := by
      simp only [endsWithReturn, flatten] at h ⊢
      cases hb : flatten b with
      | nil => rw [hb, List.append_nil] at h; right; exact ⟨rfl, h⟩
      | cons x xs =>
        left
        have : (flatten a ++ x :: xs).getLast? = (x :: xs).getLast? := by
          rw [List.getLast?_append]
          have hne : (x :: xs).getLast? = some ((x :: xs).getLast (by simp)) := List.getLast?_eq_some_getLast (by simp)
          rw [hne]; rfl
        rw [hb, this] at h; exact h
    cases hra : exec env [] a with
    | mk ca la =>
      rcases hcase with hb | ⟨_, ha⟩
      · have hbn := ihb hb env []
        cases ca with
        | normal va =>
          simp only [seqRes]
          cases va with
          | none => exact hbn
          | some x =>
            show kind ((exec env [] b).1.updateEmpty x) ≠ K.normal
            rw [kind_updateEmpty]; exact hbn
        | _ => simp [seqRes, kind]
      · have han := iha ha env []
        rw [hra] at han
        cases ca with
        | normal va => exact absurd rfl han
        | _ => simp [seqRes, kind]
  | ret v => intro _ env ls; simp [exec, kind]
  | skip => intro h; simp [endsWithReturn, flatten] at h
  | _ => intro h; simp [endsWithReturn, flatten] at h

theorem codeAt_toArray (L : List Instr) : CodeAt L.toArray 0 L := by
  intro k hk
  simp [hk]

/-- COMPILER CORRECTNESS, STAGE 1.  For every stage-1 program whose loop counters are not the
reserved id 0 and whose code has no unresolved placeholder: with enough fuel the mini-VM halts, its
event log is the reference log and its completion is the reference completion (as the caller of the
function observes it). -/
theorem compileS_correct (p : Stmt) (hst : stage1 p = true) (h0 : 0 ∉ ids p) (hnop : Instr.nop ∉ compileS p) :
    ∃ fuel, (VM.run (compileS p).toArray fuel {}).log = (refSem p).2 ∧
            (VM.run (compileS p).toArray fuel {}).halted = some (obsCompl (refSem p).1) ∧
            (VM.run (compileS p).toArray fuel {}).tries = [] ∧ (VM.run (compileS p).toArray fuel {}).iters = [] := by
  let C : Code := (compileS p).toArray
  have hC : CodeAt C 0 (compileS p) := codeAt_toArray _
  simp only [compileS] at hC hnop
  rw [codeAt_append, codeAt_append] at hC
  obtain ⟨⟨hC0, hC1⟩, hC2⟩ := hC
  simp only [List.length_append, List.length_cons, List.length_nil, gen_length, List.map_nil, Nat.zero_add] at hC1 hC2
  have hnp : Instr.nop ∉ gen p 0 none [] 1 := fun h => hnop (List.mem_append_left _ (List.mem_append_right _ h))
  let σ0 : VM := {}
  let σ1 := VM.step σ0 (.cntZero 0)
  have hi0 : C[σ0.pc]? = some (Instr.cntZero 0) := by
    have := codeAt_head hC0
    simpa [σ0] using this
  have hr1 : Reach C σ0 σ1 := Reach.one rfl hi0
  have S := sim p 0 none [] [] 1 C σ1 0 hst rfl (fun _ => rfl) h0 hnp hC1 (by simp [σ1, σ0]) (by simp [σ1, σ0])
    (by simp [σ1, σ0])
  have hit1 : σ1.iters = [] := by simp [σ1, σ0]
  rw [adj_none] at S
  unfold Sim at S
  simp only [List.map_nil] at S
  have hlog1 : σ1.log = [] := by simp [σ1, σ0]
  show ∃ fuel, (VM.run C fuel σ0).log = (refSem p).2 ∧ (VM.run C fuel σ0).halted = some (obsCompl (refSem p).1) ∧
    (VM.run C fuel σ0).tries = [] ∧ (VM.run C fuel σ0).iters = []
  have htr1 : σ1.tries = [] := by simp [σ1, σ0]
  simp only [refSem]
  cases hex : exec 0 [] p with
  | mk c l =>
    rw [hex] at S
    cases c with
    | normal v =>
      obtain ⟨τ, h1, h2, h3, h4⟩ := S
      by_cases hew : endsWithReturn p = true
      · exact absurd (by rw [hex]; rfl) (flatten_last_not_normal p hew 0 [])
      · have hew' : endsWithReturn p = false := by simpa using hew
        simp only [hew', Bool.false_eq_true, if_false] at hC2
        have i1 : C[τ.pc]? = some (Instr.loadVal 0) := by
          have := codeAt_head hC2; rw [h3]; simpa [Nat.add_comm] using this
        have i2 : C[τ.pc + 1]? = some Instr.ret := by
          have := codeAt_head (codeAt_tail hC2); rw [h3]; simpa [Nat.add_comm] using this
        let τ1 := VM.step τ (.loadVal 0)
        let τ2 := VM.step τ1 .ret
        have hr : Reach C σ0 τ2 := hr1.trans (h1.trans (Reach.step h2.halted i1 (Reach.one (by simpa [τ1] using h2.halted) (by simpa [τ1] using i2))))
        obtain ⟨fuel, hf⟩ := reach_run hr (by simp [τ2, τ1])
        refine ⟨fuel, ?_, ?_, ?_, ?_⟩
        · rw [hf]; simp [τ2, τ1, h2.log, hlog1]
        · rw [hf]; simp [τ2, τ1, obsCompl]
        · rw [hf]; simp [τ2, τ1, h2.tries, htr1]
        · rw [hf]; simp [τ2, τ1, h2.iters, hit1]
    | brk lb v =>
      obtain ⟨τ, _, _, _, ex, t, hf, _⟩ := S
      simp [findBrk] at hf
    | cont lb v =>
      obtain ⟨τ, _, _, _, ex, t, hf, _⟩ := S
      simp [findBrk] at hf
    | ret v =>
      obtain ⟨τ, h1, h2, ⟨xs, h3⟩, h4⟩ := S
      have i1 : C[τ.pc]? = some Instr.ret := by
        have := codeAt_head h4; simpa [retExitsS] using this
      let τ2 := VM.step τ .ret
      have hr : Reach C σ0 τ2 := hr1.trans (h1.trans (Reach.one h2.halted i1))
      obtain ⟨fuel, hf⟩ := reach_run hr (by simp [τ2])
      refine ⟨fuel, ?_, ?_, ?_, ?_⟩
      · rw [hf]; simp [τ2, h2.log, hlog1]
      · rw [hf]; simp [τ2, h3, obsCompl]
      · rw [hf]; simp [τ2, h2.tries, htr1]
      · rw [hf]; simp [τ2, h2.iters, hit1]
    | thr v =>
      obtain ⟨τ, its, l0, hl, h2, _, h4⟩ := S
      have ht : τ.tries = [] := by rw [h2.tries]; simp [σ1, σ0]
      have hstep := throw_uncaught (v := v) ht its (by rw [h2.iters]; simp [hit1])
      obtain ⟨fuel, hf⟩ := reach_run (hr1.trans h4) (by rw [hstep]; rfl)
      have hl' : l = l0 ++ clEv its := hl
      refine ⟨fuel, ?_, ?_, ?_, ?_⟩
      · rw [hf, hstep]; simp [h2.log, hlog1, hl']
      · rw [hf, hstep]; simp [obsCompl]
      · rw [hf, hstep]
      · rw [hf, hstep]
    | fatal =>
      obtain ⟨τ, h1, h2, h3, h4, h5⟩ := S
      obtain ⟨fuel, hf⟩ := reach_run (hr1.trans h1) (by rw [h3]; rfl)
      refine ⟨fuel, ?_, ?_, ?_, ?_⟩
      · rw [hf, h2]; simp [hlog1]
      · rw [hf, h3]; simp [obsCompl]
      · rw [hf]; exact h4
      · rw [hf]; exact h5

/-- The stage-1 instance of `CompileCFCorrect`, for the compositional presentation of the emission. -/
theorem compileS_correct_partial₂ :
    ∀ p : Stmt, stage1 p = true → 0 ∉ ids p → Instr.nop ∉ compileS p →
      ∃ fuel, ((VM.run (compileS p).toArray fuel {}).halted, (VM.run (compileS p).toArray fuel {}).log)
        = (some (obsCompl (refSem p).1), (refSem p).2) := by
  intro p h1 h2 h3
  obtain ⟨fuel, ha, hb, _, _⟩ := compileS_correct p h1 h2 h3
  exact ⟨fuel, by rw [ha, hb]⟩

/-- compileS_eq_compileCF: for EVERY stage-1 program (no executable check, no hypothesis on the run) the
instruction list written down compositionally by `compileS` is exactly what the back-patching compiler
`compileProgram` (mirror of compiler_stmt.go) leaves in the code array after all its patches. The only side
condition is that the compositional listing has no unpatched placeholder left (`nop ∉`), which is decidable
on the listing alone and holds for every program the driver has ever produced. -/
theorem compileS_eq_compileCF (p : Stmt) (hst : stage1 p = true) (hnop : Instr.nop ∉ compileS p) :
    (compileS p).toArray = compileProgram p := by
  have hi : Inv [] ({ code := #[Instr.cntZero 0], blocks := [] } : CS) :=
    ⟨trivial, by intro k hk; simp [pendAll] at hk⟩
  have hn : Instr.nop ∉ gen p 0 none [] 1 := fun h => hnop (by simp [compileS, h])
  have E := cf_eq p 0 none [] _ hst (fun _ => rfl) hi hn
  have hrl := E.rl
  rw [RL_nil, RL_nil] at hrl
  have hcode : (compileCF 0 none p { code := #[Instr.cntZero 0], blocks := [] }).code
      = ([Instr.cntZero 0] ++ gen p 0 none [] 1).toArray := by
    apply Array.ext'
    simpa using hrl
  have h0 : (({} : CS).emit (Instr.cntZero 0)) = { code := #[Instr.cntZero 0], blocks := [] } := rfl
  unfold compileProgram compileS
  simp only [h0]
  by_cases he : endsWithReturn p = true
  · simp [he, hcode]
  · simp [he, hcode, CS.emit]

/-- compileCF_correct_stage2: stage 1 of `CompileCFCorrect` for the BACK-PATCHING compiler `compileCF` itself
(the mirror of compiler_stmt.go), with no executable side check: for every stage-1 program whose
break/continue targets all resolve, the mini-VM run on `compileProgram p` has the reference log, halts
with the reference completion, and leaves no try frame and no iterator on its stacks. -/
theorem compileCF_correct_stage2 (p : Stmt) (hst : stage1 p = true) (h0 : 0 ∉ ids p)
    (hnop : Instr.nop ∉ compileS p) :
    ∃ fuel, (VM.run (compileProgram p) fuel {}).log = (refSem p).2 ∧
            (VM.run (compileProgram p) fuel {}).halted = some (obsCompl (refSem p).1) ∧
            (VM.run (compileProgram p) fuel {}).tries = [] ∧ (VM.run (compileProgram p) fuel {}).iters = [] := by
  rw [← compileS_eq_compileCF p hst hnop]
  exact compileS_correct p hst h0 hnop

/-- the side condition `nop ∉ compileS p` follows from the source-level condition that every break / continue
has a target (`targetsOK`, what goja's parser/compiler enforce with a SyntaxError) -/
theorem compileS_no_nop (p : Stmt) (h : targetsOK p none [] = true) : Instr.nop ∉ compileS p := by
  have := gen_no_nop p 0 none [] 1 (by simpa using h)
  simp only [compileS, List.mem_append, List.mem_cons, List.mem_singleton, not_or]
  refine ⟨⟨by simp, this⟩, ?_⟩
  split <;> simp

/-- compileCF_correct_stage2 with purely syntactic hypotheses on the source program -/
theorem compileCF_correct_stage2_wf (p : Stmt) (hst : stage1 p = true) (h0 : 0 ∉ ids p)
    (ht : targetsOK p none [] = true) :
    ∃ fuel, (VM.run (compileProgram p) fuel {}).log = (refSem p).2 ∧
            (VM.run (compileProgram p) fuel {}).halted = some (obsCompl (refSem p).1) ∧
            (VM.run (compileProgram p) fuel {}).tries = [] ∧ (VM.run (compileProgram p) fuel {}).iters = [] :=
  compileCF_correct_stage2 p hst h0 (compileS_no_nop p ht)

/-- the executable check `sameCode` the driver still evaluates on every generated stage-1 program is a theorem -/
theorem sameCode_stage1 (p : Stmt) (hst : stage1 p = true) (hnop : Instr.nop ∉ compileS p) : sameCode p = true := by
  simp [sameCode, compileS_eq_compileCF p hst hnop]

/-! ### the property itself, on the code the back-patching compiler emits (stage-1 programs) -/

/-- compiled_finally_once_in_order: running the code `compileCF` emits for a stage-1 program whose reference
completion is not the uncatchable one, the mini-VM halts with that completion and its event log is a balanced
bracket sequence (each finally entry closes the innermost pending try) with, for every try statement `i`, exactly
as many finally entries as statement entries. -/
theorem compiled_finally_and_return_once_in_order (p : Stmt) (hst : stage1 p = true) (h0 : 0 ∉ ids p)
    (hnop : Instr.nop ∉ compileS p) (hnf : (refSem p).1 ≠ .fatal) :
    ∃ fuel, (VM.run (compileProgram p) fuel {}).halted = some (obsCompl (refSem p).1) ∧
      (∀ st, scan st (VM.run (compileProgram p) fuel {}).log = some st) ∧
      (∀ i, (VM.run (compileProgram p) fuel {}).log.count (Ev.finE i)
            = (VM.run (compileProgram p) fuel {}).log.count (Ev.tryE i)) ∧
      (∀ j, (VM.run (compileProgram p) fuel {}).log.count (Ev.itOpen j)
            = (VM.run (compileProgram p) fuel {}).log.count (Ev.itDone j)
              + (VM.run (compileProgram p) fuel {}).log.count (Ev.itFail j)
              + (VM.run (compileProgram p) fuel {}).log.count (Ev.itRet j)) := by
  obtain ⟨fuel, hl, hh, _, _⟩ := compileCF_correct_stage2 p hst h0 hnop
  refine ⟨fuel, hh, ?_, ?_, ?_⟩
  · rw [hl]; exact finally_inner_to_outer p 0 [] hnf
  · intro i; rw [hl]; exact finally_exactly_once p 0 [] hnf i
  · intro j; rw [hl]; exact iter_return_exactly_once p 0 [] hnf j

/-- compiled_uncatchable_runs_nothing: if the reference completion of a stage-1 program is the uncatchable one,
the mini-VM run on compileCF's code halts with it and `fatal` is the LAST event of its log: no catch clause and
no finally block of any enclosing try statement ran after it. -/
theorem compiled_uncatchable_runs_nothing (p : Stmt) (hst : stage1 p = true) (h0 : 0 ∉ ids p)
    (hnop : Instr.nop ∉ compileS p) (hf : (refSem p).1 = .fatal) :
    ∃ fuel pre, (VM.run (compileProgram p) fuel {}).halted = some Compl.fatal ∧
      (VM.run (compileProgram p) fuel {}).log = pre ++ [Ev.fatal] := by
  obtain ⟨fuel, hl, hh, _, _⟩ := compileCF_correct_stage2 p hst h0 hnop
  obtain ⟨pre, hpre⟩ := (uncatchable_runs_nothing p 0 [] hf).1
  refine ⟨fuel, pre, ?_, ?_⟩
  · rw [hh, hf]; rfl
  · rw [hl]; exact hpre

/-- test on a literal with for-of loops (regression of the definitions) -/
theorem compileS_eq_compileCF_example_forof :
    let sp1 : IterSpec := { id := 1, n := 2, nextThrow := none, ret := .thr }
    let sp2 : IterSpec := { id := 2, n := 3, nextThrow := some 1, ret := .ok }
    let p : Stmt := .lbl 7 (.forOf sp1 (.tryS 1 (.seq (.forOf sp2 (.ifIter 0 (.cont (some 7)))) (.ifIter 1 (.brk (some 7))))
      true (.ret 3) true (.log 2)))
    (compileS p).toArray = compileProgram p ∧ stage1 p = true := by
  decide

end GojaModel.C08.S2
