/-
  C08 model driver.  Line protocol (one op per line, one answer line per op):
    B <mode> <program tokens>   reference semantics: "<completion> | <events>"   (mode F|S|G)
    K <program tokens>          compileCF listing (function mode), instructions separated by ';'
    A <mode> <prog>             B ## V ## W ## K ## S1 in one line (V/W/K/S1 only for mode F; S1 = stage-1 program and compileS p = compileCF p)
    W <prog>                    mini-VM on compileCF output: "<completion> | <events>"
    V <program tokens>          model-internal: runVM (compileCF p) vs refSem p -> "ok" | "DIFF ..."
  Anything after a token "@@" is ignored (the Go harness reads its JavaScript from there).
-/
import GojaModel.Base.Proto
import GojaModel.C08.Model
import GojaModel.C08.Compile
import GojaModel.C08.CompileS

namespace GojaModel.C08.Driver
open GojaModel.C08

def optNat? (t : String) : Option (Option Nat) :=
  if t == "-" then some none else (t.toNat?).map some

/-- recursive-descent parser over the token list (prefix notation); `fuel` bounds the depth. -/
def parseStmt : Nat → List String → Option (Stmt × List String)
  | 0, _ => none
  | fuel + 1, toks =>
    match toks with
    | "skip" :: r => some (.skip, r)
    | "fatal" :: r => some (.fatal, r)
    | "log" :: k :: r => k.toNat?.map (fun k => (.log k, r))
    | "ret" :: k :: r => k.toNat?.map (fun k => (.ret k, r))
    | "thr" :: k :: r => k.toNat?.map (fun k => (.thr k, r))
    | "brk" :: l :: r => (optNat? l).map (fun l => (.brk l, r))
    | "cont" :: l :: r => (optNat? l).map (fun l => (.cont l, r))
    | "seq" :: r => do
      let (a, r) ← parseStmt fuel r
      let (b, r) ← parseStmt fuel r
      pure (.seq a b, r)
    | "try" :: i :: r => do
      let i ← i.toNat?
      let (b, r) ← parseStmt fuel r
      match r with
      | hc :: r => do
        let (c, r) ← parseStmt fuel r
        match r with
        | hf :: r => do
          let (f, r) ← parseStmt fuel r
          pure (.tryS i b (hc == "1") c (hf == "1") f, r)
        | [] => none
      | [] => none
    | "loop" :: k :: id :: n :: r => do
      let kind ← (match k with
        | "w" => some LoopKind.while_ | "d" => some LoopKind.do_
        | "f" => some LoopKind.for_ | "i" => some LoopKind.forin | "l" => some LoopKind.forlet | _ => none)
      let id ← id.toNat?
      let n ← n.toNat?
      let (b, r) ← parseStmt fuel r
      pure (.loop kind id n b, r)
    | "forof" :: id :: n :: nt :: rm :: r => do
      let id ← id.toNat?
      let n ← n.toNat?
      let nt ← optNat? nt
      let lex := rm == "O" || rm == "T" || rm == "N"
      let rm ← (match rm with
        | "o" => some RetMode.ok | "t" => some RetMode.thr | "n" => some RetMode.nonobj
        | "O" => some RetMode.ok | "T" => some RetMode.thr | "N" => some RetMode.nonobj | _ => none)
      let (b, r) ← parseStmt fuel r
      pure (.forOf ⟨id, n, nt, rm, lex⟩ b, r)
    | "lbl" :: l :: r => do
      let l ← l.toNat?
      let (s, r) ← parseStmt fuel r
      pure (.lbl l s, r)
    | "sw" :: u :: k :: r => do
      let k ← k.toNat?
      let (a, r) ← parseStmt fuel r
      let (b, r) ← parseStmt fuel r
      pure (.sw (u == "1") k a b, r)
    | "with" :: r => do
      let (s, r) ← parseStmt fuel r
      pure (.withS s, r)
    | "blk" :: r => do
      let (s, r) ← parseStmt fuel r
      pure (.blk s, r)
    | "if" :: m :: r => do
      let m ← m.toNat?
      let (s, r) ← parseStmt fuel r
      pure (.ifIter m s, r)
    | _ => none

def parseProg (toks : List String) : Option Stmt :=
  match parseStmt (toks.length + 1) toks with
  | some (s, []) => some s
  | _ => none

def showEv : Ev → String
  | .log k => s!"L{k}"
  | .tryE i => s!"T{i}"
  | .finE i => s!"F{i}"
  | .caught i v => s!"C{i}:{v}"
  | .itOpen j => s!"O{j}"
  | .itNext j => s!"N{j}"
  | .itDone j => s!"D{j}"
  | .itFail j => s!"X{j}"
  | .itRet j => s!"R{j}"
  | .fatal => "!"

def showLog (l : List Ev) : String := " ".intercalate (l.map showEv)

def showOptL : Option Nat → String
  | none => "-"
  | some l => toString l

/-- what the caller of the program can observe, per run mode -/
def showCompl (mode : String) : Compl → String
  | .normal v => if mode.startsWith "S" then s!"N:{v.getD 0}" else "N"
  | .brk l _ => s!"B:{showOptL l}"
  | .cont l _ => s!"C:{showOptL l}"
  | .ret v => s!"R:{v}"
  | .thr v => s!"T:{v}"
  | .fatal => "F"

def showRes (mode : String) (r : Res) : String := showCompl mode r.1 ++ " | " ++ showLog r.2

def cutAt (toks : List String) : List String := toks.takeWhile (· != "@@")

def handle (line : String) : String :=
  match cutAt (GojaModel.Proto.words line) with
  | "B" :: mode :: toks =>
    match parseProg toks with
    | some p => showRes mode (refSem p)
    | none => "PARSE-ERROR"
  | "K" :: toks =>
    match parseProg toks with
    | some p => showCode (compileProgram p)
    | none => "PARSE-ERROR"
  | "V" :: toks =>
    match parseProg toks with
    | some p =>
      let r := refSem p
      let v := runProgram p
      let rs := showRes "F" r
      let vs := showRes "F" v
      if rs == vs then "ok" else s!"DIFF ref[{rs}] vm[{vs}]"
    | none => "PARSE-ERROR"
  | "A" :: mode :: toks =>
    -- all answers for one program in one line: B ## V ## W ## K  (V/W/K only meaningful in mode F)
    match parseProg toks with
    | some p =>
      let r := refSem p
      let b := showRes mode r
      if mode.startsWith "F" then
        let (v, nt, ni) := runProgramWith 200000 p
        let rs := showRes "F" r
        let vs := showRes "F" v
        let vres := if rs == vs then "ok" else s!"DIFF ref[{rs}] vm[{vs}]"
        let wres := vs ++ (if nt != 0 || ni != 0 then s!" LEAK={nt},{ni}" else "")
        let sres := if stage1 p then (if sameCode p then "S1=" else "S1-DIFF") else "-"
        b ++ " ## " ++ vres ++ " ## " ++ wres ++ " ## " ++ showCode (compileProgram p) ++ " ## " ++ sres
      else b
    | none => "PARSE-ERROR"
  | "W" :: toks =>
    match parseProg toks with
    | some p =>
      let (r, nt, ni) := runProgramWith 200000 p
      showRes "F" r ++ (if nt != 0 || ni != 0 then s!" LEAK={nt},{ni}" else "")
    | none => "PARSE-ERROR"
  | _ => "BAD-OP"

def main : IO Unit := GojaModel.Proto.lineMap handle

end GojaModel.C08.Driver
