/-
  C08 — lemmas about the reference semantics: the event log of every statement is a balanced
  bracket sequence over {tryE/finE, itOpen/(itDone|itFail|itRet)} unless the completion is `fatal`,
  in which case it is a prefix of one and ends with the `fatal` event.
-/
import GojaModel.C08.Model

namespace GojaModel.C08
open Compl

/-- balanced: leaves every stack as it found it -/
def Bal (l : List Ev) : Prop := ∀ st, scan st l = some st
/-- prefix of a balanced sequence: may leave frames pending, never touches what was below -/
def Pre (l : List Ev) : Prop := ∀ st, ∃ st', scan st l = some (st' ++ st)
/-- ends with the fatal event -/
def EndsFatal (l : List Ev) : Prop := ∃ pre, l = pre ++ [Ev.fatal]

/-- the invariant of every result of the reference semantics -/
def Good (r : Res) : Prop :=
  (r.1 ≠ .fatal → Bal r.2 ∧ Ev.fatal ∉ r.2) ∧ (r.1 = .fatal → Pre r.2 ∧ EndsFatal r.2)

theorem scan_append (st : List Fr) (a b : List Ev) :
    scan st (a ++ b) = (scan st a).bind (fun st' => scan st' b) := by
  induction a generalizing st with
  | nil => simp [scan]
  | cons e es ih =>
    simp only [List.cons_append, scan]
    cases h : stepEv st e with
    | none => simp
    | some st' => simpa using ih st'

theorem Bal.nil : Bal [] := fun _ => rfl

theorem Bal.append {a b : List Ev} (ha : Bal a) (hb : Bal b) : Bal (a ++ b) := by
  intro st; rw [scan_append, ha st]; simpa using hb st

theorem Bal.pre {a : List Ev} (ha : Bal a) : Pre a := fun st => ⟨[], by simpa using ha st⟩

theorem Pre.append {a b : List Ev} (ha : Pre a) (hb : Pre b) : Pre (a ++ b) := by
  intro st
  obtain ⟨s1, h1⟩ := ha st
  obtain ⟨s2, h2⟩ := hb (s1 ++ st)
  exact ⟨s2 ++ s1, by rw [scan_append, h1]; simpa [List.append_assoc] using h2⟩

theorem Pre.tryE (i : Nat) : Pre [Ev.tryE i] := fun st => ⟨[Fr.tr i], rfl⟩
theorem Pre.itOpen (j : Nat) : Pre [Ev.itOpen j] := fun st => ⟨[Fr.it j], rfl⟩

theorem EndsFatal.append {b : List Ev} (a : List Ev) (hb : EndsFatal b) : EndsFatal (a ++ b) := by
  obtain ⟨p, hp⟩ := hb
  exact ⟨a ++ p, by rw [hp, List.append_assoc]⟩

theorem Bal.neutral {e : Ev} (h : ∀ st, stepEv st e = some st) : Bal [e] := by
  intro st; simp [scan, h st]

theorem Bal.log (k : Nat) : Bal [Ev.log k] := Bal.neutral (fun _ => rfl)
theorem Bal.caught (i v : Nat) : Bal [Ev.caught i v] := Bal.neutral (fun _ => rfl)
theorem Bal.itNext (j : Nat) : Bal [Ev.itNext j] := Bal.neutral (fun _ => rfl)

/-- `tryE i · balanced · finE i` is balanced -/
theorem Bal.wrapTry {l : List Ev} (i : Nat) (h : Bal l) : Bal (Ev.tryE i :: (l ++ [Ev.finE i])) := by
  intro st
  simp only [scan, stepEv]
  rw [scan_append, h (Fr.tr i :: st)]
  simp [scan, stepEv, closeTop]

/-- closing property of a for-of iteration log: started with iterator `j` on top, ends without it -/
def Closes (j : Nat) (l : List Ev) : Prop := ∀ st, scan (Fr.it j :: st) l = some st

theorem Closes.wrap {j : Nat} {l : List Ev} (h : Closes j l) : Bal (Ev.itOpen j :: l) := by
  intro st; simpa [scan, stepEv] using h st

theorem Closes.cons_bal {j : Nat} {a l : List Ev} (ha : Bal a) (h : Closes j l) : Closes j (a ++ l) := by
  intro st; rw [scan_append, ha (Fr.it j :: st)]; simpa using h st

theorem closes_single (j : Nat) (e : Ev) (h : e = Ev.itDone j ∨ e = Ev.itFail j ∨ e = Ev.itRet j) :
    Closes j [e] := by
  intro st
  rcases h with h | h | h <;> subst h <;> simp [scan, stepEv, closeTop]

/-! completion helpers -/

theorem updateEmpty_fatal_iff (c : Compl) (v : Val) : c.updateEmpty v = .fatal ↔ c = .fatal := by
  cases c with
  | normal o => cases o <;> simp [updateEmpty]
  | brk l o => cases o <;> simp [updateEmpty]
  | cont l o => cases o <;> simp [updateEmpty]
  | ret v => simp [updateEmpty]
  | thr v => simp [updateEmpty]
  | fatal => simp [updateEmpty]

theorem exitBreakable_fatal_iff (c : Compl) : c.exitBreakable = .fatal ↔ c = .fatal := by
  cases c with
  | brk l o => cases l <;> simp [exitBreakable]
  | _ => simp [exitBreakable]

theorem loopContinues_not_fatal {c : Compl} {ls : List Label} (h : c.loopContinues ls = true) : c ≠ .fatal := by
  intro hc; subst hc; simp [loopContinues] at h

/-! Good for the constructors of results -/

theorem Good.of_nonfatal {c : Compl} {l : List Ev} (hc : c ≠ .fatal) (hb : Bal l) (hn : Ev.fatal ∉ l) :
    Good (c, l) := ⟨fun _ => ⟨hb, hn⟩, fun h => absurd h hc⟩

theorem Good.of_fatal {l : List Ev} (hp : Pre l) (he : EndsFatal l) : Good (.fatal, l) :=
  ⟨fun h => absurd rfl h, fun _ => ⟨hp, he⟩⟩

/-- changing the completion to another one with the same fatal-ness keeps Good -/
theorem Good.map {c c' : Compl} {l : List Ev} (h : Good (c, l)) (hf : c' = .fatal ↔ c = .fatal) : Good (c', l) := by
  constructor
  · intro hc; exact h.1 (fun hh => hc (hf.2 hh))
  · intro hc; exact h.2 (hf.1 hc)

/-- prefixing a balanced fatal-free log -/
theorem Good.prepend {a : List Ev} {r : Res} (ha : Bal a) (hn : Ev.fatal ∉ a) (h : Good r) :
    Good (r.1, a ++ r.2) := by
  constructor
  · intro hc
    obtain ⟨hb, hnf⟩ := h.1 hc
    exact ⟨ha.append hb, by simp [List.mem_append, hn, hnf]⟩
  · intro hc
    obtain ⟨hp, he⟩ := h.2 hc
    exact ⟨ha.pre.append hp, he.append a⟩

theorem good_seqRes {ra : Res} {rb : Unit → Res} (ha : Good ra) (hb : Good (rb ())) : Good (seqRes ra rb) := by
  obtain ⟨ca, la⟩ := ra
  cases ca with
  | normal va =>
    simp only [seqRes]
    obtain ⟨hba, hna⟩ := ha.1 (by simp)
    have := Good.prepend hba hna hb
    cases hrb : rb () with
    | mk cb lb =>
      rw [hrb] at this
      cases va with
      | none => simpa using this
      | some v => exact Good.map this (updateEmpty_fatal_iff cb v)
  | _ => simpa [seqRes] using ha

theorem good_iteratorClose_log (sp : IterSpec) (st : Compl) (h : st ≠ .fatal) :
    (iteratorClose sp st).1 ≠ .fatal ∧ (iteratorClose sp st).2 = [Ev.itRet sp.id] := by
  cases st with
  | fatal => exact absurd rfl h
  | thr v => simp [iteratorClose]
  | normal v => cases hr : sp.ret <;> simp [iteratorClose, hr]
  | brk l v => cases hr : sp.ret <;> simp [iteratorClose, hr]
  | cont l v => cases hr : sp.ret <;> simp [iteratorClose, hr]
  | ret v => cases hr : sp.ret <;> simp [iteratorClose, hr]

theorem good_loopFrom (run : Nat → Res) (ls : List Label) (hrun : ∀ i, Good (run i)) :
    ∀ r i V, Good (loopFrom run ls r i V) := by
  intro r
  induction r with
  | zero => intro i V; exact Good.of_nonfatal (by simp) Bal.nil (by simp)
  | succ r ih =>
    intro i V
    simp only [loopFrom]
    cases hr : run i with
    | mk c l =>
      have hg := hrun i
      rw [hr] at hg
      by_cases hc : c.loopContinues ls = true
      · simp only [hc, if_true]
        obtain ⟨hb, hn⟩ := hg.1 (loopContinues_not_fatal hc)
        have := Good.prepend hb hn (ih (i + 1) (c.value.getD V))
        cases h2 : loopFrom run ls r (i + 1) (c.value.getD V) with
        | mk c2 l2 => rw [h2] at this; simpa using this
      · have hc' : c.loopContinues ls = false := by simpa using hc
        simp only [hc', Bool.false_eq_true, if_false]
        exact Good.map hg (by rw [exitBreakable_fatal_iff, updateEmpty_fatal_iff])

/-- result invariant of the for-of body loop: closes iterator `j` unless fatal -/
def GoodIt (j : Nat) (r : Res) : Prop :=
  (r.1 ≠ .fatal → Closes j r.2 ∧ Ev.fatal ∉ r.2) ∧ (r.1 = .fatal → Pre r.2 ∧ EndsFatal r.2)

theorem goodIt_forOfFrom (run : Nat → Res) (sp : IterSpec) (ls : List Label) (hrun : ∀ i, Good (run i)) :
    ∀ r i V, GoodIt sp.id (forOfFrom run sp ls r i V) := by
  intro r
  induction r with
  | zero =>
    intro i V
    simp only [forOfFrom]
    refine ⟨fun _ => ⟨?_, by simp⟩, fun h => by simp at h⟩
    exact Closes.cons_bal (a := [Ev.itNext sp.id]) (Bal.itNext _) (closes_single _ _ (Or.inl rfl))
  | succ r ih =>
    intro i V
    simp only [forOfFrom]
    by_cases h1 : sp.nextThrow = some i
    · simp only [h1, if_true]
      refine ⟨fun _ => ⟨?_, by simp⟩, fun h => by simp at h⟩
      exact Closes.cons_bal (a := [Ev.itNext sp.id]) (Bal.itNext _) (closes_single _ _ (Or.inr (Or.inl rfl)))
    · simp only [h1, if_false]
      by_cases h2 : sp.n ≤ i
      · simp only [h2, if_true]
        refine ⟨fun _ => ⟨?_, by simp⟩, fun h => by simp at h⟩
        exact Closes.cons_bal (a := [Ev.itNext sp.id]) (Bal.itNext _) (closes_single _ _ (Or.inl rfl))
      · simp only [h2, if_false]
        cases hr : run i with
        | mk c l =>
          have hg := hrun i
          rw [hr] at hg
          by_cases hc : c.loopContinues ls = true
          · simp only [hc, if_true]
            obtain ⟨hb, hn⟩ := hg.1 (loopContinues_not_fatal hc)
            have ih' := ih (i + 1) (c.value.getD V)
            cases h2 : forOfFrom run sp ls r (i + 1) (c.value.getD V) with
            | mk c2 l2 =>
              rw [h2] at ih'
              have hbal : Bal (Ev.itNext sp.id :: l) := Bal.append (a := [Ev.itNext sp.id]) (Bal.itNext _) hb
              constructor
              · intro hc2
                obtain ⟨hcl, hn2⟩ := ih'.1 hc2
                refine ⟨?_, ?_⟩
                · have := Closes.cons_bal hbal hcl
                  simpa using this
                · simp only [List.mem_cons, List.mem_append, not_or]
                  exact ⟨by simp, hn, hn2⟩
              · intro hc2
                obtain ⟨hp, he⟩ := ih'.2 hc2
                refine ⟨?_, ?_⟩
                · have := hbal.pre.append hp
                  simpa using this
                · have := he.append (Ev.itNext sp.id :: l)
                  simpa using this
          · have hc' : c.loopContinues ls = false := by simpa using hc
            simp only [hc', Bool.false_eq_true, if_false]
            by_cases hf : c = .fatal
            · subst hf
              obtain ⟨hp, he⟩ := hg.2 rfl
              simp only [updateEmpty, iteratorClose, exitBreakable, List.append_nil]
              refine ⟨fun h => absurd rfl h, fun _ => ⟨?_, ?_⟩⟩
              · have := (Bal.itNext sp.id).pre.append hp
                simpa using this
              · have := he.append [Ev.itNext sp.id]
                simpa using this
            · obtain ⟨hb, hn⟩ := hg.1 hf
              have hu : c.updateEmpty V ≠ .fatal := by
                intro h; exact hf ((updateEmpty_fatal_iff c V).1 h)
              obtain ⟨hnf, hl⟩ := good_iteratorClose_log sp _ hu
              cases h3 : iteratorClose sp (c.updateEmpty V) with
              | mk c3 l3 =>
                rw [h3] at hnf hl
                simp only at hnf hl
                subst hl
                have hc3 : c3.exitBreakable ≠ .fatal := by
                  intro h; exact hnf ((exitBreakable_fatal_iff c3).1 h)
                refine ⟨fun _ => ⟨?_, ?_⟩, fun h => absurd h hc3⟩
                · have hbal : Bal (Ev.itNext sp.id :: l) := Bal.append (a := [Ev.itNext sp.id]) (Bal.itNext _) hb
                  have := Closes.cons_bal hbal (closes_single sp.id (Ev.itRet sp.id) (Or.inr (Or.inr rfl)))
                  simpa using this
                · simp only [List.mem_cons, List.mem_append, not_or]
                  exact ⟨by simp, hn, by simp, by simp⟩

theorem good_catchPart (i : Nat) {rb : Res} (hasC : Bool) {rc : Unit → Res}
    (hb : Good rb) (hc : Good (rc ())) : Good (catchPart i rb hasC rc) := by
  obtain ⟨cb, lb⟩ := rb
  cases cb with
  | thr v =>
    cases hasC with
    | true =>
      simp only [catchPart]
      obtain ⟨hbb, hbn⟩ := hb.1 (by simp)
      have h1 : Bal (lb ++ [Ev.caught i v]) := hbb.append (Bal.caught i v)
      have := Good.prepend (r := rc ()) h1 (by simp [hbn]) hc
      simpa using this
    | false => simpa [catchPart] using hb
  | normal v => simpa [catchPart] using hb
  | brk l v => simpa [catchPart] using hb
  | cont l v => simpa [catchPart] using hb
  | ret v => simpa [catchPart] using hb
  | fatal => simpa [catchPart] using hb

theorem finPart_nonfatal (i : Nat) {rbc : Res} (rf : Unit → Res) (h : rbc.1 ≠ .fatal) :
    finPart i rbc rf = ((match (rf ()).1 with | .normal _ => rbc.1 | c => c).updateEmpty 0,
           Ev.tryE i :: (rbc.2 ++ Ev.finE i :: (rf ()).2)) := by
  obtain ⟨cc, l⟩ := rbc
  cases cc <;> first | rfl | exact absurd rfl h

theorem good_finPart (i : Nat) {rbc : Res} {rf : Unit → Res}
    (hg : Good rbc) (hf : Good (rf ())) : Good (finPart i rbc rf) := by
  by_cases hfat : rbc.1 = .fatal
  · obtain ⟨cc, l⟩ := rbc
    simp only at hfat
    subst hfat
    obtain ⟨hp, he⟩ := hg.2 rfl
    simp only [finPart]
    refine Good.of_fatal ?_ ?_
    · have := (Pre.tryE i).append hp
      simpa using this
    · have := he.append [Ev.tryE i]
      simpa using this
  · rw [finPart_nonfatal i rf hfat]
    obtain ⟨hbal, hnf⟩ := hg.1 hfat
    have hwrap : Bal (Ev.tryE i :: (rbc.2 ++ [Ev.finE i])) := Bal.wrapTry i hbal
    have hn : Ev.fatal ∉ (Ev.tryE i :: (rbc.2 ++ [Ev.finE i])) := by
      simp [hnf]
    have h2 := Good.prepend (r := rf ()) hwrap hn hf
    have hlog : Ev.tryE i :: (rbc.2 ++ Ev.finE i :: (rf ()).2) = (Ev.tryE i :: (rbc.2 ++ [Ev.finE i])) ++ (rf ()).2 := by
      simp [List.append_assoc]
    rw [hlog]
    refine Good.map h2 ?_
    rw [updateEmpty_fatal_iff]
    cases hcf : (rf ()).1 with
    | normal v => simp [hfat]
    | _ => simp

theorem good_tryRes (i : Nat) {rb : Res} (hasC : Bool) {rc : Unit → Res} (hasF : Bool) {rf : Unit → Res}
    (hb : Good rb) (hc : Good (rc ())) (hf : Good (rf ())) : Good (tryRes i rb hasC rc hasF rf) := by
  have hcp := good_catchPart i hasC hb hc
  cases hasF with
  | true => simp only [tryRes, if_true]; exact good_finPart i hcp hf
  | false =>
    simp only [tryRes, Bool.false_eq_true, if_false]
    exact Good.map hcp (updateEmpty_fatal_iff _ 0)

theorem good_swTail (V : Val) {r1 : Res} (h1 : Good r1) : Good (swTail V r1) := by
  obtain ⟨c1, l1⟩ := r1
  cases c1 with
  | normal v => exact Good.map h1 (by simp)
  | fatal => exact Good.map h1 (by simp [updateEmpty, exitBreakable])
  | brk l v => exact Good.map h1 (by rw [exitBreakable_fatal_iff, updateEmpty_fatal_iff])
  | cont l v => exact Good.map h1 (by rw [exitBreakable_fatal_iff, updateEmpty_fatal_iff])
  | ret v => exact Good.map h1 (by rw [exitBreakable_fatal_iff, updateEmpty_fatal_iff])
  | thr v => exact Good.map h1 (by rw [exitBreakable_fatal_iff, updateEmpty_fatal_iff])

theorem good_swRes (sel : Nat) {r0 r1 : Unit → Res} (h0 : Good (r0 ())) (h1 : Good (r1 ())) :
    Good (swRes sel r0 r1) := by
  simp only [swRes]
  by_cases hs0 : sel = 0
  · simp only [hs0, if_true]
    cases hr : r0 () with
    | mk c0 l0 =>
      rw [hr] at h0
      cases c0 with
      | normal v =>
        obtain ⟨hb, hn⟩ := h0.1 (by simp)
        exact Good.prepend hb hn (good_swTail (v.getD 0) h1)
      | fatal => exact Good.map h0 (by simp [updateEmpty, exitBreakable])
      | brk l v => exact Good.map h0 (by rw [exitBreakable_fatal_iff, updateEmpty_fatal_iff])
      | cont l v => exact Good.map h0 (by rw [exitBreakable_fatal_iff, updateEmpty_fatal_iff])
      | ret v => exact Good.map h0 (by rw [exitBreakable_fatal_iff, updateEmpty_fatal_iff])
      | thr v => exact Good.map h0 (by rw [exitBreakable_fatal_iff, updateEmpty_fatal_iff])
  · simp only [hs0, if_false]
    by_cases hs1 : sel = 1
    · simp only [hs1, if_true]; exact good_swTail 0 h1
    · simp only [hs1, if_false]
      exact Good.of_nonfatal (by simp) Bal.nil (by simp)

/-- MAIN INVARIANT: every result of the reference semantics is `Good`. -/
theorem exec_good : ∀ (s : Stmt) (env : Nat) (ls : List Label), Good (exec env ls s) := by
  intro s
  induction s with
  | skip => intro env ls; exact Good.of_nonfatal (by simp [exec]) Bal.nil (by simp [exec])
  | log k => intro env ls; exact Good.of_nonfatal (by simp [exec]) (Bal.log k) (by simp [exec])
  | seq a b iha ihb => intro env ls; simp only [exec]; exact good_seqRes (iha env []) (ihb env [])
  | brk l => intro env ls; exact Good.of_nonfatal (by simp [exec]) Bal.nil (by simp [exec])
  | cont l => intro env ls; exact Good.of_nonfatal (by simp [exec]) Bal.nil (by simp [exec])
  | ret v => intro env ls; exact Good.of_nonfatal (by simp [exec]) Bal.nil (by simp [exec])
  | thr v => intro env ls; exact Good.of_nonfatal (by simp [exec]) Bal.nil (by simp [exec])
  | fatal =>
    intro env ls
    exact Good.of_fatal (Bal.neutral (e := Ev.fatal) (fun _ => rfl)).pre ⟨[], rfl⟩
  | tryS i b hasC c hasF f ihb ihc ihf =>
    intro env ls; simp only [exec]
    exact good_tryRes i hasC hasF (ihb env []) (ihc env []) (ihf env [])
  | loop k id n body ih =>
    intro env ls; simp only [exec]
    exact good_loopFrom _ ls (fun i => ih i []) _ _ _
  | forOf sp body ih =>
    intro env ls; simp only [exec]
    have h := goodIt_forOfFrom (fun i => exec i [] body) sp ls (fun i => ih i []) (sp.n + 1) 0 0
    cases hr : forOfFrom (fun i => exec i [] body) sp ls (sp.n + 1) 0 0 with
    | mk c l =>
      rw [hr] at h
      constructor
      · intro hc
        obtain ⟨hcl, hn⟩ := h.1 hc
        exact ⟨hcl.wrap, by simp [hn]⟩
      · intro hc
        obtain ⟨hp, he⟩ := h.2 hc
        refine ⟨?_, ?_⟩
        · have := (Pre.itOpen sp.id).append hp
          simpa using this
        · have := he.append [Ev.itOpen sp.id]
          simpa using this
  | lbl l s ih =>
    intro env ls; simp only [exec]
    have h := ih env (l :: ls)
    cases hr : exec env (l :: ls) s with
    | mk c lg =>
      rw [hr] at h
      refine Good.map h ?_
      cases c with
      | brk l' v =>
        cases l' with
        | none => simp
        | some l'' => by_cases hl : l'' = l <;> simp [hl]
      | _ => simp
  | sw u k s0 s1 ih0 ih1 => intro env ls; simp only [exec]; exact good_swRes _ (ih0 env []) (ih1 env [])
  | withS s ih =>
    intro env ls; simp only [exec]
    have h := ih env []
    cases hr : exec env [] s with
    | mk c lg => rw [hr] at h; exact Good.map h (updateEmpty_fatal_iff c 0)
  | blk s ih => intro env ls; simp only [exec]; exact ih env []
  | ifIter m s ih =>
    intro env ls; simp only [exec]
    by_cases he : env = m
    · simp only [he, if_true]
      have h := ih m []
      cases hr : exec m [] s with
      | mk c lg => rw [hr] at h; exact Good.map h (updateEmpty_fatal_iff c 0)
    · simp only [he, if_false]
      exact Good.of_nonfatal (by simp) Bal.nil (by simp)

/-! ### counting corollaries -/

def cntFr (f : Fr) (st : List Fr) : Nat := st.count f

def opens (f : Fr) : Ev → Nat
  | .tryE i => if Fr.tr i = f then 1 else 0
  | .itOpen j => if Fr.it j = f then 1 else 0
  | _ => 0

def closes (f : Fr) : Ev → Nat
  | .finE i => if Fr.tr i = f then 1 else 0
  | .itDone j => if Fr.it j = f then 1 else 0
  | .itFail j => if Fr.it j = f then 1 else 0
  | .itRet j => if Fr.it j = f then 1 else 0
  | _ => 0

def sumBy (g : Ev → Nat) : List Ev → Nat
  | [] => 0
  | e :: es => g e + sumBy g es

theorem closeTop_count {st st' : List Fr} {g f : Fr} (h : closeTop st g = some st') :
    cntFr f st = cntFr f st' + (if g = f then 1 else 0) := by
  cases st with
  | nil => simp [closeTop] at h
  | cons x r =>
    simp only [closeTop] at h
    by_cases hx : x = g
    · simp only [hx, if_true, Option.some.injEq] at h
      subst h; subst hx
      by_cases hf : f = x
      · subst hf; simp [cntFr]
      · have : ¬ (x = f) := fun h => hf h.symm
        simp [cntFr, List.count_cons, hf, this]
    · simp [hx] at h

theorem stepEv_count {st st' : List Fr} {e : Ev} (f : Fr) (h : stepEv st e = some st') :
    cntFr f st + opens f e = cntFr f st' + closes f e := by
  cases e with
  | tryE i =>
    simp only [stepEv, Option.some.injEq] at h; subst h
    by_cases hf : f = Fr.tr i
    · subst hf; simp [opens, closes, cntFr]
    · have : ¬ (Fr.tr i = f) := fun h => hf h.symm
      simp [opens, closes, cntFr, List.count_cons, hf, this]
  | itOpen j =>
    simp only [stepEv, Option.some.injEq] at h; subst h
    by_cases hf : f = Fr.it j
    · subst hf; simp [opens, closes, cntFr]
    · have : ¬ (Fr.it j = f) := fun h => hf h.symm
      simp [opens, closes, cntFr, List.count_cons, hf, this]
  | finE i => simp only [stepEv] at h; have := closeTop_count (f := f) h; simp [opens, closes]; omega
  | itDone j => simp only [stepEv] at h; have := closeTop_count (f := f) h; simp [opens, closes]; omega
  | itFail j => simp only [stepEv] at h; have := closeTop_count (f := f) h; simp [opens, closes]; omega
  | itRet j => simp only [stepEv] at h; have := closeTop_count (f := f) h; simp [opens, closes]; omega
  | log k => simp only [stepEv, Option.some.injEq] at h; subst h; simp [opens, closes]
  | caught i v => simp only [stepEv, Option.some.injEq] at h; subst h; simp [opens, closes]
  | itNext j => simp only [stepEv, Option.some.injEq] at h; subst h; simp [opens, closes]
  | fatal => simp only [stepEv, Option.some.injEq] at h; subst h; simp [opens, closes]

theorem scan_count (f : Fr) : ∀ (l : List Ev) (st st' : List Fr), scan st l = some st' →
    cntFr f st + sumBy (opens f) l = cntFr f st' + sumBy (closes f) l := by
  intro l
  induction l with
  | nil => intro st st' h; simp only [scan, Option.some.injEq] at h; subst h; simp [sumBy]
  | cons e es ih =>
    intro st st' h
    simp only [scan] at h
    cases hs : stepEv st e with
    | none => simp [hs] at h
    | some st1 =>
      simp only [hs] at h
      have h1 := stepEv_count f hs
      have h2 := ih st1 st' h
      simp only [sumBy]; omega

theorem bal_count {l : List Ev} (h : Bal l) (f : Fr) : sumBy (opens f) l = sumBy (closes f) l := by
  have := scan_count f l [] [] (h [])
  omega

end GojaModel.C08
