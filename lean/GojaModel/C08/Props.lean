/-
  C08 — property theorems about the reference semantics (for ALL programs, by structural
  induction; no bounds).  Every `theorem` here is one audited proof obligation.

  The compiler-correctness statement (mini-VM on compileCF output ≈ refSem) lives in
  GojaModel.C08.CompileProps so that the driver-independent part stays small.
-/
import GojaModel.C08.Lemmas

namespace GojaModel.C08
open Compl

/-- finally_inner_to_outer (+ iterator closes, one common stack discipline).  For every program,
every environment and label set: if the completion is not `fatal`, the event log is a BALANCED
bracket sequence — each `finE i` closes the most recently opened, still pending `tryE i`, each of
`itDone j | itFail j | itRet j` closes the most recently opened, still open `itOpen j`; hence
pending finally blocks and open iterators are left from innermost to outermost, and all of them
are left when the statement completes (normally or abruptly, whatever the kind). -/
theorem finally_inner_to_outer (s : Stmt) (env : Nat) (ls : List Label)
    (h : (exec env ls s).1 ≠ .fatal) : ∀ st, scan st (exec env ls s).2 = some st :=
  ((exec_good s env ls).1 h).1

/-- finally_exactly_once: in the log of any non-fatal run, for every try statement id `i` the
number of entries into its finally block equals the number of entries into the statement. -/
theorem finally_exactly_once (s : Stmt) (env : Nat) (ls : List Label)
    (h : (exec env ls s).1 ≠ .fatal) (i : Nat) :
    (exec env ls s).2.count (Ev.finE i) = (exec env ls s).2.count (Ev.tryE i) := by
  have hb := ((exec_good s env ls).1 h).1
  have := bal_count hb (Fr.tr i)
  have e1 : ∀ l : List Ev, sumBy (opens (Fr.tr i)) l = l.count (Ev.tryE i) := by
    intro l; induction l with
    | nil => rfl
    | cons e es ih =>
      cases e <;> simp [sumBy, opens, List.count_cons, ih] <;> omega
  have e2 : ∀ l : List Ev, sumBy (closes (Fr.tr i)) l = l.count (Ev.finE i) := by
    intro l; induction l with
    | nil => rfl
    | cons e es ih =>
      cases e <;> simp [sumBy, closes, List.count_cons, ih] <;> omega
  rw [e1, e2] at this
  omega

/-- iter_return_exactly_once: in any non-fatal run every opened iterator `j` ends in exactly one
of three ways: exhaustion (`itDone`, no return()), a throwing next() (`itFail`, no return()), or
one call of return() (`itRet`). -/
theorem iter_return_exactly_once (s : Stmt) (env : Nat) (ls : List Label)
    (h : (exec env ls s).1 ≠ .fatal) (j : Nat) :
    (exec env ls s).2.count (Ev.itOpen j) =
      (exec env ls s).2.count (Ev.itDone j) + (exec env ls s).2.count (Ev.itFail j)
        + (exec env ls s).2.count (Ev.itRet j) := by
  have hb := ((exec_good s env ls).1 h).1
  have := bal_count hb (Fr.it j)
  have e1 : ∀ l : List Ev, sumBy (opens (Fr.it j)) l = l.count (Ev.itOpen j) := by
    intro l; induction l with
    | nil => rfl
    | cons e es ih =>
      cases e <;> simp [sumBy, opens, List.count_cons, ih] <;> omega
  have e2 : ∀ l : List Ev, sumBy (closes (Fr.it j)) l =
      l.count (Ev.itDone j) + l.count (Ev.itFail j) + l.count (Ev.itRet j) := by
    intro l; induction l with
    | nil => rfl
    | cons e es ih =>
      cases e <;> simp [sumBy, closes, List.count_cons, ih] <;> omega
  rw [e1, e2] at this
  omega

/-- finally_completion_overrides: the completion of `try B [catch C] finally F` is F's completion
when F completes abruptly, and otherwise that of the try/catch part (UpdateEmpty'd) — whatever
kind (normal, break, continue, return, throw) the latter is. -/
theorem finally_completion_overrides (i : Nat) (b c f : Stmt) (hasC : Bool) (env : Nat) (ls : List Label)
    (h : (exec env ls (.tryS i b hasC c false .skip)).1 ≠ .fatal) :
    (exec env ls (.tryS i b hasC c true f)).1 =
      (if (exec env [] f).1.isNormal then (exec env ls (.tryS i b hasC c false .skip)).1
       else (exec env [] f).1.updateEmpty 0) := by
  simp only [exec, tryRes, if_true, Bool.false_eq_true, if_false] at h ⊢
  have h' : (catchPart i (exec env [] b) hasC fun _ => exec env [] c).1 ≠ .fatal := by
    intro hh; exact h ((updateEmpty_fatal_iff _ 0).2 hh)
  rw [finPart_nonfatal i _ h']
  cases hf : (exec env [] f).1 <;> simp [isNormal]

/-- the finally block's events are exactly the tail of the statement's log (it runs after the
try/catch part, once) -/
theorem finally_runs_after (i : Nat) (b c f : Stmt) (hasC : Bool) (env : Nat) (ls : List Label)
    (h : (exec env ls (.tryS i b hasC c false .skip)).1 ≠ .fatal) :
    (exec env ls (.tryS i b hasC c true f)).2 =
      Ev.tryE i :: ((exec env ls (.tryS i b hasC c false .skip)).2 ++ Ev.finE i :: (exec env [] f).2) := by
  simp only [exec, tryRes, if_true, Bool.false_eq_true, if_false] at h ⊢
  have h' : (catchPart i (exec env [] b) hasC fun _ => exec env [] c).1 ≠ .fatal := by
    intro hh; exact h ((updateEmpty_fatal_iff _ 0).2 hh)
  rw [finPart_nonfatal i _ h']

/-- uncatchable_runs_nothing: if a run ends with the uncatchable completion, the `fatal` event is
the LAST event of the log — no catch clause, no finally block, no iterator return() ran after it —
and the log is still a prefix of a balanced sequence (nothing ran out of order before it). -/
theorem uncatchable_runs_nothing (s : Stmt) (env : Nat) (ls : List Label)
    (h : (exec env ls s).1 = .fatal) :
    (∃ pre, (exec env ls s).2 = pre ++ [Ev.fatal]) ∧ ∀ st, ∃ st', scan st (exec env ls s).2 = some (st' ++ st) :=
  ⟨((exec_good s env ls).2 h).2, ((exec_good s env ls).2 h).1⟩

/-- uncatchable_not_swallowed: an uncatchable error can be neither caught nor overridden by a
finally block or an iterator close: if the `fatal` event is in the log the completion is `fatal`. -/
theorem uncatchable_not_swallowed (s : Stmt) (env : Nat) (ls : List Label)
    (h : Ev.fatal ∈ (exec env ls s).2) : (exec env ls s).1 = .fatal := by
  false_or_by_contra
  rename_i hc
  exact ((exec_good s env ls).1 hc).2 h

/-- try_split: `try B catch C finally F` means the same as `try { try B catch C } finally F`
(same log, same completion) — used by the check to attribute a disagreement to the defect in which
goja's single frame for catch+finally lets the catch clause see the finally block's throw. -/
theorem try_split (i : Nat) (b c f : Stmt) (env : Nat) (ls : List Label) :
    exec env ls (.tryS i b true c true f) =
      exec env ls (.tryS i (.tryS i b true c false .skip) false .skip true f) := by
  simp only [exec, tryRes, if_true, Bool.false_eq_true, if_false]
  generalize catchPart i (exec env [] b) true (fun _ => exec env [] c) = cp
  generalize exec env [] f = rf
  obtain ⟨cc, l⟩ := cp
  obtain ⟨cf, lf⟩ := rf
  rcases cc with (_|v)|⟨lb,(_|v)⟩|⟨lb,(_|v)⟩|v|v|_ <;>
    rcases cf with (_|w)|⟨lc,(_|w)⟩|⟨lc,(_|w)⟩|w|w|_ <;>
    simp [catchPart, finPart, updateEmpty]

/-! ### non-vacuity (tests on literals, not proofs of the property) -/

/-- `L: for-of(3 items) { try { try { break L } finally { log 1 } } finally { log 2 } }` -/
def ex1 : Stmt :=
  .lbl 7 (.forOf ⟨1, 3, none, .ok, false⟩
    (.tryS 1 (.tryS 2 (.brk (some 7)) false .skip true (.log 1)) false .skip true (.log 2)))

example : refSem ex1 =
    (.normal (some 0), [.itOpen 1, .itNext 1, .tryE 1, .tryE 2, .finE 2, .log 1, .finE 1, .log 2, .itRet 1]) := by
  decide

example : (refSem (.forOf ⟨1, 3, none, .ok, false⟩ (.tryS 1 .fatal true (.log 1) true (.log 2)))).2
    = [.itOpen 1, .itNext 1, .tryE 1, .fatal] := by decide

end GojaModel.C08
