import GojaModel.Base.Proto
import GojaModel.C01.Model
import GojaModel.Generated.C01_StackEffects
import GojaModel.Generated.C01_PanicKinds
/-!
  C01 model driver (line protocol, IO glue — not part of the model):
    verify <endOk 0|1> <instr>;<instr>;...      → "ok states=<n>" | "reject pc=<pc> h=<h> <instr> : <why>" | "error <msg>"
    emit <strict> <p> <expr tokens…>            → "<name>:<n> … | <height result>"   
    obs <instr> <dpc> <dsp>                     → "ok" | "mismatch edges=<…>" | "error <msg>"
    classify <kind>                             → run=<outcome> compile=<outcome>
    facts                                       → regenerated facts summary
-/
namespace GojaModel.C01.Driver
open GojaModel.C01 GojaModel.Proto

def parseInt? (s : String) : Option Int :=
  match s.toList with
  | '-' :: cs => (String.ofList cs).toNat?.map (fun n => -(n : Int))
  | _ => s.toNat?.map (fun n => (n : Int))

/-- i-th character is '1' -/
def bit (s : String) (i : Nat) : Bool := s.toList.getD i '0' == '1' 

/-- "name|k=v|k=v" → (name, numeric operands) -/
def parseInstr (s : String) : String × List (String × Int) :=
  match s.splitOn "|" with
  | [] => ("", [])
  | name :: rest =>
    (name, rest.filterMap (fun kv =>
      match kv.splitOn "=" with
      | [k, v] => (parseInt? v).map (fun i => (k, i))
      | _ => none))

def resolveAll (instrs : List String) (base : Nat := 0) : Except String (List Node) :=
  instrs.mapM (fun s => let (n, ops) := parseInstr s; (resolve Gen.table n ops).map (withSlotNeed base n ops))

def showState (a : AState) : String :=
  s!"h={a.1} markers={a.2.1.length} frames={a.2.2.length}"

def whyUnsafe (code : List Node) (endOk : Bool) (R : Array (List AState)) (pc : Nat) (a : AState) : String :=
  let s : St := ⟨pc, a.1, a.2.1, a.2.2⟩
  if !safe code endOk s then
    match code[pc]? with
    | none => s!"control leaves the code at pc={pc} with {showState a} (endOk={endOk})"
    | some n => s!"unsafe: need={n.need} {showState a} kind={repr n.kind} edges={n.edges}"
  else
    match (succs code s).find? (fun s' => !memR R s') with
    | some s' => s!"successor pc={s'.pc} h={s'.h} frames={s'.fs.length} not in the explored set (state explosion or exploration cut off)"
    | none => "?"

def cmdVerify (mode : String) (unit : String) : String :=
  let endOk := mode != "0"
  let isFrame := mode != "1"
  let instrs := (unit.splitOn ";").filter (· ≠ "")
  match resolveAll instrs (if isFrame then 1 else 0) with
  | .error e => "error " ++ e
  | .ok code0 =>
    -- a function unit starts with the frame's `this` slot directly below the operands (stack[sb]); the preamble may
    -- read it with initStash/boxThis: modelled by one leading pseudo-instruction that pushes it (offsets are relative)
    -- mode 2 (class field initialiser programs) runs to the end of the code with that slot still in place
    let code1 := if isFrame then (⟨0, [(1, 1)], .plain⟩ : Node) :: code0 else code0
    let code := if mode == "2" then code1 ++ [(⟨1, [(1, -1)], .plain⟩ : Node)] else code1
    let instrs := if isFrame then "<frame-this>" :: instrs else instrs
    let R := explore code
    if verifyWith code endOk R then
      s!"ok states={R.foldl (fun acc l => acc + l.length) 0}"
    else if !memR R St.init then "reject pc=0 : entry state not explored"
    else
      match firstUnsafe code endOk R with
      | some (pc, a) => s!"reject pc={pc} {instrs.getD pc "<end>"} : {whyUnsafe code endOk R pc a}"
      | none => "reject : ?"

/-! expression token parser -/

def idClass? : String → Option IdClass
  | "sv" => some .stackVar | "lv" => some .lexVar | "cs" => some (.const true) | "cn" => some (.const false)
  | "gl" => some .global | "dy" => some .dynBound | _ => none

def unOp? : String → Option UnOp
  | "not" => some .not | "bnot" => some .bnot | "neg" => some .neg | "plus" => some .plus
  | "typeof" => some .typeof | "void" => some .void | _ => none

def binOp? : String → Option BinOp
  | "add" => some .add | "sub" => some .sub | "mul" => some .mul | "lt" => some .lt | "gt" => some .gt
  | "le" => some .le | "ge" => some .ge | "eq" => some .eq | "ne" => some .ne | "seq" => some .seq | "sne" => some .sne
  | "band" => some .band | "bor" => some .bor | "bxor" => some .bxor | "shl" => some .shl | "sar" => some .sar
  | "shr" => some .shr | "div" => some .div | "mod" => some .mod | "exp" => some .exp
  | "instanceof" => some .instanceof | "in" => some .in_ | _ => none

def logOp? : String → Option LogOp
  | "and" => some .and | "or" => some .or | "coalesce" => some .coalesce | _ => none

def b01 (s : String) : Bool := s == "1"

abbrev P := StateT (List String) (Except String)

def next : P String := do
  match (← get) with
  | [] => throw "unexpected end of expression"
  | t :: ts => set ts; pure t

def need {α} (o : Option α) (what : String) : P α :=
  match o with
  | some a => pure a
  | none => throw ("bad " ++ what)

mutual
partial def pExpr : P Expr := do
  let t ← next
  let f := t.splitOn ":"
  let a (i : Nat) : String := f.getD i ""
  match a 0 with
  | "lit" =>
    (match a 1 with
     | "n" => do pure (.lit (.num (← need (parseInt? (a 2)) "int")))
     | "s" => pure (.lit (.str (a 2)))
     | "b" => pure (.lit (.bool (b01 (a 2))))
     | "null" => pure (.lit .null)
     | "big" => do pure (.lit (.big (← need (parseInt? (a 2)) "int")))
     | _ => throw "bad lit")
  | "id" => do pure (.ident (← need (idClass? (a 1)) "class") (a 2))
  | "this" => pure .this
  | "un" => do let op ← need (unOp? (a 1)) "unop"; pure (.unary op (← pExpr))
  | "tyid" => do pure (.typeofId (← need (idClass? (a 1)) "class") (a 2))
  | "delid" => do pure (.deleteId (← need (idClass? (a 1)) "class") (a 2))
  | "deldot" => do pure (.deleteDot (← pExpr) (a 1))
  | "delidx" => do let l ← pExpr; pure (.deleteIndex l (← pExpr))
  | "delcall" => do pure (.deleteCall (← pExpr))
  | "delother" => do pure (.deleteOther (← pExpr))
  | "updid" => do pure (.updateId (bit (a 1) 0) (bit (a 1) 1) (← need (idClass? (a 2)) "class") (a 3))
  | "upddot" => do pure (.updateDot (bit (a 1) 0) (bit (a 1) 1) (← pExpr) (a 2))
  | "updidx" => do let l ← pExpr; pure (.updateIndex (bit (a 1) 0) (bit (a 1) 1) l (← pExpr))
  | "bin" => do let op ← need (binOp? (a 1)) "binop"; let l ← pExpr; pure (.binary op l (← pExpr))
  | "log" => do let op ← need (logOp? (a 1)) "logop"; let l ← pExpr; pure (.logical op l (← pExpr))
  | "cond" => do let c ← pExpr; let x ← pExpr; pure (.cond c x (← pExpr))
  | "comma" => do let x ← pExpr; pure (.comma x (← pExpr))
  | "asid" => do pure (.assignId (← need (idClass? (a 1)) "class") (a 2) (← pExpr))
  | "asdot" => do let l ← pExpr; pure (.assignDot l (a 1) (← pExpr))
  | "asidx" => do let l ← pExpr; let m ← pExpr; pure (.assignIndex l m (← pExpr))
  | "aoid" => do let op ← need (binOp? (a 1)) "binop"; pure (.assignOpId op (← need (idClass? (a 2)) "class") (a 3) (← pExpr))
  | "aodot" => do let op ← need (binOp? (a 1)) "binop"; let l ← pExpr; pure (.assignOpDot op l (a 2) (← pExpr))
  | "aoidx" => do let op ← need (binOp? (a 1)) "binop"; let l ← pExpr; let m ← pExpr; pure (.assignOpIndex op l m (← pExpr))
  | "alid" => do let op ← need (logOp? (a 1)) "logop"; pure (.assignLogId op (← need (idClass? (a 2)) "class") (a 3) (← pExpr))
  | "aldot" => do let op ← need (logOp? (a 1)) "logop"; let l ← pExpr; pure (.assignLogDot op l (a 2) (← pExpr))
  | "alidx" => do let op ← need (logOp? (a 1)) "logop"; let l ← pExpr; let m ← pExpr; pure (.assignLogIndex op l m (← pExpr))
  | "dot" => do pure (.dot (← pExpr) (a 1))
  | "idx" => do let l ← pExpr; pure (.index l (← pExpr))
  | "calldot" => do let l ← pExpr; pure (.callDot l (a 1) (← pArgs ((a 2).toNat?.getD 0)))
  | "callidx" => do let l ← pExpr; let m ← pExpr; pure (.callIndex l m (← pArgs ((a 1).toNat?.getD 0)))
  | "callid" => do pure (.callId (← need (idClass? (a 1)) "class") (a 2) (← pArgs ((a 3).toNat?.getD 0)))
  | "callother" => do let g ← pExpr; pure (.callOther g (← pArgs ((a 1).toNat?.getD 0)))
  | "new" => do let g ← pExpr; pure (.new g (← pArgs ((a 1).toNat?.getD 0)))
  | "arr" => do pure (.array (← pElems ((a 1).toNat?.getD 0)))
  | "obj" => do pure (.object (← pProps ((a 1).toNat?.getD 0)))
  | "tpl" => do
      let first ← pExpr
      let rest ← pQuasis ((a 2).toNat?.getD 0)
      pure (.template (bit (a 1) 0) first rest (bit (a 1) 1))
  | other => throw ("unknown token " ++ other)
partial def pArgs : Nat → P Args
  | 0 => pure .nil
  | n + 1 => do let e ← pExpr; pure (.cons e (← pArgs n))
partial def pElems : Nat → P Elems
  | 0 => pure .nil
  | n + 1 => do
    match (← get) with
    | "hole" :: ts => set ts; pure (.hole (← pElems n))
    | _ => let e ← pExpr; pure (.cons e (← pElems n))
partial def pProps : Nat → P Props
  | 0 => pure .nil
  | n + 1 => do
    let t ← next
    let f := t.splitOn ":"
    match f.getD 0 "" with
    | "k" => do let v ← pExpr; pure (.keyed (f.getD 1 "") v (← pProps n))
    | "c" => do let k ← pExpr; let v ← pExpr; pure (.computed k v (← pProps n))
    | _ => throw "bad prop"
partial def pQuasis : Nat → P Quasis
  | 0 => pure .nil
  | n + 1 => do
    let t ← next
    let f := t.splitOn ":"
    let e ← pExpr
    pure (.cons (b01 (f.getD 1 "")) e (← pQuasis n))
end

def showHt : Option Ht → String
  | none => "ILL-FORMED"
  | some .dead => "dead"
  | some (.live h) => s!"live{h}"

def cmdEmit (strict p : Bool) (toks : List String) : String :=
  match (pExpr.run toks) with
  | .error e => "error " ++ e
  | .ok (e, rest) =>
    if !rest.isEmpty then "error trailing tokens" else
    let cfg : Cfg := ⟨strict⟩
    let c := emitE cfg e p
    let flat := c.flat
    let nodes := flat.map (fun x => x.2.2)
    -- the flat code followed by the statement epilogue must also pass the proven verifier
    let tail : List Node := if p then [⟨1, [(1, -1)], .plain⟩] else []
    let v := verify (nodes ++ tail) true
    " ".intercalate (flat.map (fun x => s!"{x.1}:{x.2.1}")) ++ s!" | {showHt (c.height (.live 0))} verify={v}"

/-! statement token parser (prefix form, see run/c01.py SGen) -/

partial def pOpt (present : Bool) : P (Option Expr) := do
  if present then
    let e ← pExpr
    pure (some e)
  else pure none

mutual
partial def pStmt : P Stmt := do
  let t ← next
  let f := t.splitOn ":"
  let a (i : Nat) : String := f.getD i ""
  if a 0 != "s" then throw ("statement token expected, got " ++ t) else
  match a 1 with
  | "expr" => do pure (.expr (← pExpr))
  | "empty" => pure .empty
  | "var0" => pure .varBare
  | "var" => do let c ← need (idClass? (a 2)) "class"; pure (.varInit c (← pExpr))
  | "block" => do pure (.block (← pStmts ((a 2).toNat?.getD 0)))
  | "if" => do let c ← pExpr; pure (.ifS c (← pStmt))
  | "ifelse" => do let c ← pExpr; let x ← pStmt; pure (.ifElse c x (← pStmt))
  | "while" => do let c ← pExpr; pure (.whileS c (← pStmt))
  | "do" => do let b ← pStmt; pure (.doWhile b (← pExpr))
  | "for" => do
      -- head: 0 = none, 1 = expression, v = `var x`, V:<class> = `var x = e`
      let i : ForInit ← (match (a 2).toList.getD 0 '0' with
        | '1' => do pure (ForInit.expr (← pExpr))
        | 'v' => pure ForInit.var0
        | 'V' => do let c ← need (idClass? (a 3)) "class"; pure (ForInit.varInit c (← pExpr))
        | _ => pure ForInit.none)
      let c ← pOpt (bit (a 2) 1)
      let u ← pOpt (bit (a 2) 2)
      pure (.forS i c u (← pStmt))
  | "ret0" => pure (.ret none)
  | "ret" => do pure (.ret (some (← pExpr)))
  | "throw" => do pure (.throwS (← pExpr))
  | other => throw ("unknown statement token " ++ other)
partial def pStmts : Nat → P Stmts
  | 0 => pure .nil
  | n + 1 => do let s ← pStmt; pure (.cons s (← pStmts n))
end

/-- `emits <strict> <nr> <stmt tokens>`: the statement is compiled as the middle one of the list
`"@@1".m; S; <end marker>` exactly as the correspondence programs are laid out — with nr = 1 (program body,
`needResult`) the end marker is `var zz = "@@2"` (empty result, so that S is the last value-producing statement), with
nr = 0 (function body) it is `"@@2".m;`.  The three marker instructions at either end are stripped. -/
def cmdEmitS (strict nr : Bool) (toks : List String) : String :=
  match (pStmt.run toks) with
  | .error e => "error " ++ e
  | .ok (s, rest) =>
    if !rest.isEmpty then "error trailing tokens" else
    let cfg : Cfg := ⟨strict⟩
    let m1 : Stmt := .expr (.dot (.lit (.str "@@1")) "m")
    let m2 : Stmt := if nr then .varInit .global (.lit (.str "@@2")) else .expr (.dot (.lit (.str "@@2")) "m")
    let c := emitBody cfg (.cons m1 (.cons s (.cons m2 .nil))) nr
    let flat := c.flat
    let mid := (flat.drop 3).take (flat.length - 6)
    -- the whole body must also pass the proven verifier (names resolved through the regenerated table)
    let nodes := flat.mapM (fun x => resolve Gen.table x.1 [("n", x.2.1)])
    let v := match nodes with
      | .ok ns => toString (verify ns true)
      | .error e => "unresolved:" ++ e
    " ".intercalate (mid.map (fun x => s!"{x.1}:{x.2.1}")) ++ s!" | {showHt (c.height (.live 0))} verify={v}"

def cmdObs (instr : String) (dpc dsp : Int) : String :=
  let (n, ops) := parseInstr instr
  match resolve Gen.table n ops with
  | .error e => "error " ++ e
  | .ok nd =>
    match nd.kind with
    | .plain => if nd.edges.contains (dpc, dsp) then "ok" else s!"mismatch edges={nd.edges}"
    | .tryI _ _ | .enterFinally => if dpc == 1 && dsp == 0 then "ok" else "mismatch kind=try/enterFinally"
    | .startVar => if dpc == 1 && dsp == 1 then "ok" else "mismatch kind=startVar"
    | .endVar => if dpc == 1 && dsp == -1 then "ok" else "mismatch kind=endVar"
    | _ => "skip"

def payload? : String → Option Payload
  | "Object" => some .object | "Value" => some .value | "Exception" => some .exception
  | "typeError" => some .typeError | "referenceError" => some .referenceError | "rangeError" => some .rangeError
  | "syntaxError" => some .syntaxError | "InterruptedError" => some .interruptedError
  | "StackOverflowError" => some .stackOverflowError | "wrappedUncatchable" => some .wrappedUncatchable
  | "CompilerSyntaxError" => some .compilerSyntaxError
  | "CompilerReferenceError" | "goError" | "runtimeError" | "string" | "nilValue" => some (.other "x")
  | _ => none

def showOutcome : Outcome → String
  | .exception => "exception" | .uncatchable => "uncatchable" | .compileError => "compile-error" | .repanic => "repanic"

def step (line : String) : String :=
  match words line with
  | "verify" :: e :: rest => cmdVerify e (" ".intercalate rest)
  | "emit" :: s :: p :: toks => cmdEmit (b01 s) (b01 p) toks
  | "emits" :: s :: nr :: toks => cmdEmitS (b01 s) (b01 nr) toks
  | ["obs", i, dpc, dsp] =>
    (match parseInt? dpc, parseInt? dsp with
     | some a, some b => cmdObs i a b
     | _, _ => "error bad obs")
  | ["classify", k] =>
    (match payload? k with
     | some p => s!"run={showOutcome (classifyRun p)} compile={showOutcome (classifyCompile p)}"
     | none => "error unknown kind")
  | ["facts"] => s!"numExec={Gen.numExec} numDyn={Gen.numDyn} setPPopsSloppyConst={Gen.setPPopsSloppyConst}"
  | _ => "error bad command"

/-- like Proto.lineLoop but flushing after every answer (the orchestrator talks to the driver interactively) -/
partial def interactive : IO Unit := do
  let stdin ← IO.getStdin
  let stdout ← IO.getStdout
  let rec loop : IO Unit := do
    let line ← stdin.getLine
    if line.isEmpty then
      stdout.flush
      return ()
    let l := String.ofList (dropEol line.toList.reverse).reverse
    stdout.putStrLn (step l)
    stdout.flush
    loop
  loop

def main : IO Unit := interactive

end GojaModel.C01.Driver
