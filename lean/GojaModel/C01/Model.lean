/-
  C01 — no script can crash the host.  Executable model (core Lean only).

  Part (b) `Bytecode`: instructions reduced to what matters for the operand-stack discipline
  (`Node`: operands needed, successor edges with height deltas, try/finally/variadic control kinds),
  an abstract stack-height machine (`succs`) that mirrors vm.go's try-frame protocol
  (vm.go:774 pushTryFrame, :800 handleThrow, :4760 try, :4778 leaveTry, :4794 enterFinally,
  :4802 leaveFinally), and the verifier `verify` (explore + closure check).

  Part (a) `Emit`: expression AST and `emitG`/`emitE` mirroring the `emitGetter` methods and
  `emitExpr`/`emitConst` of compiler_expr.go, producing structured code (`Code`) whose jump
  offsets are computed by `Code.flat`.

  Part (c) the panic payload classifier.
-/
namespace GojaModel.C01

/-! ## Symbolic stack effects — the shape of the regenerated table (extract/c01.go) -/

/-- `coeff * operand + const` -/
structure LinE where
  coeff : Int
  opnd : String
  const : Int
deriving DecidableEq, Repr

inductive PcE
  | next
  | jumpOp (opnd : String)
deriving DecidableEq, Repr

structure PathE where
  pc : PcE
  sp : LinE
deriving DecidableEq, Repr

inductive Eff
  | paths (need : LinE) (ps : List PathE)
  | dyn (why : String)
deriving DecidableEq, Repr

/-! ## (b) Bytecode: nodes, abstract machine, verifier -/

inductive Kind
  | plain
  | tryI (c f : Nat)        -- try{catchOffset, finallyOffset}; 0 = absent (vm.go:4760)
  | leaveTry
  | enterFinally
  | leaveFinally
  | ret                     -- _ret / cret: needs the return value on top; ends the unit
  | startVar                -- _startVariadic: pushes the marker
  | callVar                 -- _callVariadic/_newVariadic/...: pops down to the marker, leaves marker+result
  | endVar                  -- _endVariadic: removes the slot below the top (the marker, if it is the pending one)
deriving DecidableEq, Repr

structure Node where
  need : Nat
  edges : List (Int × Int)   -- (pc offset, height delta) for `plain`
  kind : Kind
deriving DecidableEq, Repr

/-- tryFrame (vm.go:47): position of the `try` instruction (catchPos/finallyPos are re-read from it),
saved sp, armed flags (catchPos >= 0 / finallyPos >= 0), finallyRet. -/
structure Frame where
  tryPc : Nat
  h : Nat
  vs : List Nat
  cArmed : Bool
  fArmed : Bool
  ret : Option Nat
deriving DecidableEq, Repr

/-- Abstract VM state: pc, operand-stack height relative to the unit's entry, heights of pending
variadic markers, try frames of this unit. -/
structure St where
  pc : Nat
  h : Nat
  vs : List Nat
  fs : List Frame
deriving DecidableEq, Repr

def St.init : St := ⟨0, 0, [], []⟩

def tryOffsets (code : List Node) (pc : Nat) : Nat × Nat :=
  match code[pc]? with
  | some ⟨_, _, .tryI c f⟩ => (c, f)
  | _ => (0, 0)

/-- vm.handleThrow (vm.go:800): pop frames until one with an armed catch or finally; restore sp. -/
def unwind (code : List Node) : List Frame → List St
  | [] => []
  | fr :: rest =>
    if fr.cArmed then
      [⟨fr.tryPc + (tryOffsets code fr.tryPc).1, fr.h + 1, fr.vs, { fr with cArmed := false } :: rest⟩]
    else if fr.fArmed then
      [⟨fr.tryPc + (tryOffsets code fr.tryPc).2, fr.h, fr.vs, { fr with fArmed := false, ret := none } :: rest⟩]
    else unwind code rest

def edgeSucc (s : St) (e : Int × Int) : Option St :=
  let pc' := (s.pc : Int) + e.1
  let h' := (s.h : Int) + e.2
  if 0 ≤ pc' ∧ 0 ≤ h' then some ⟨pc'.toNat, h'.toNat, s.vs, s.fs⟩ else none

/-- Normal (non-throwing) successors of a state. -/
def stepNormal (code : List Node) (s : St) : List St :=
  match code[s.pc]? with
  | none => []
  | some n =>
    match n.kind with
    | .plain => n.edges.filterMap (edgeSucc s)
    | .tryI c f => [⟨s.pc + 1, s.h, s.vs, ⟨s.pc, s.h, s.vs, decide (0 < c), decide (0 < f), none⟩ :: s.fs⟩]
    | .leaveTry =>
      match s.fs with
      | [] => []
      | fr :: rest =>
        if fr.fArmed then
          [⟨fr.tryPc + (tryOffsets code fr.tryPc).2, fr.h, fr.vs,
            { fr with fArmed := false, cArmed := false, ret := some (s.pc + 1) } :: rest⟩]
        else [⟨s.pc + 1, s.h, s.vs, rest⟩]
    | .enterFinally =>
      match s.fs with
      | [] => []
      | fr :: rest => [⟨s.pc + 1, s.h, s.vs, { fr with fArmed := false, cArmed := false } :: rest⟩]   -- vm.go:4823 (fix 379f30d)
    | .leaveFinally =>
      match s.fs with
      | [] => []
      | fr :: rest =>
        (match fr.ret with
          | some r => [⟨r, s.h, s.vs, rest⟩]
          | none => [⟨s.pc + 1, s.h, s.vs, rest⟩]) ++ unwind code rest
    | .ret => []
    | .startVar => [⟨s.pc + 1, s.h + 1, s.h :: s.vs, s.fs⟩]
    | .callVar =>
      match s.vs with
      | [] => []
      | m :: _ => [⟨s.pc + 1, m + 2, s.vs, s.fs⟩]
    | .endVar =>                                   -- vm.go:3625: sp--; stack[sp-1] = stack[sp]
      match s.vs with
      | m :: vs' => if m + 2 = s.h then [⟨s.pc + 1, s.h - 1, vs', s.fs⟩] else [⟨s.pc + 1, s.h - 1, s.vs, s.fs⟩]
      | [] => [⟨s.pc + 1, s.h - 1, s.vs, s.fs⟩]

/-- All successors: normal ones plus a throw from this instruction (any instruction may throw). -/
def succs (code : List Node) (s : St) : List St :=
  stepNormal code s ++ (if s.pc < code.length then unwind code s.fs else [])

def edgeOk (len : Nat) (s : St) (e : Int × Int) : Bool :=
  decide (0 ≤ (s.pc : Int) + e.1) && decide ((s.pc : Int) + e.1 ≤ len) && decide (0 ≤ (s.h : Int) + e.2)

def isTry (code : List Node) (pc : Nat) : Bool :=
  match code[pc]? with
  | some ⟨_, _, .tryI _ _⟩ => true
  | _ => false

/-- Local well-formedness of a state: the instruction finds its operands above the entry height, all its
successors exist, and a unit ends only at its end with the entry height (`endOk`: top-level code) or at a `ret`
with a value on the stack. -/
def safe (code : List Node) (endOk : Bool) (s : St) : Bool :=
  match code[s.pc]? with
  | none => endOk && decide (s.pc = code.length) && decide (s.h = 0) && s.fs.isEmpty && s.vs.isEmpty
  | some n =>
    decide (n.need ≤ s.h) &&
    (match n.kind with
     | .plain => n.edges.all (edgeOk code.length s)
     | .tryI c f => decide (s.pc + c ≤ code.length) && decide (s.pc + f ≤ code.length)
     | .leaveTry | .enterFinally | .leaveFinally =>
        (match s.fs with | [] => false | fr :: _ => isTry code fr.tryPc)
     | .ret => decide (1 ≤ s.h) && s.fs.isEmpty
     | .startVar => true
     | .endVar => true
     | .callVar => (match s.vs with | [] => false | m :: _ => decide (m + 1 ≤ s.h)))

abbrev AState := Nat × List Nat × List Frame

def memR (R : Array (List AState)) (s : St) : Bool :=
  match R[s.pc]? with
  | some l => l.contains (s.h, s.vs, s.fs)
  | none => false

def insertR (R : Array (List AState)) (s : St) : Array (List AState) :=
  R.modify s.pc (fun l => (s.h, s.vs, s.fs) :: l)

/-- Unverified exploration of the reachable abstract states (work list, fuel, per-pc cap). Its result is only
a candidate: `checkClosed` decides. -/
def exploreLoop (code : List Node) (cap : Nat) : Nat → List St → Array (List AState) → Array (List AState)
  | 0, _, R => R
  | _, [], R => R
  | fuel + 1, s :: work, R =>
    if memR R s then exploreLoop code cap fuel work R
    else if R.size ≤ s.pc then exploreLoop code cap fuel work R
    else if cap ≤ (R[s.pc]?.getD []).length then R
    else exploreLoop code cap fuel (succs code s ++ work) (insertR R s)

def explore (code : List Node) : Array (List AState) :=
  exploreLoop code 64 (64 * (code.length + 2)) [St.init] (Array.replicate (code.length + 1) [])

def closedAt (code : List Node) (endOk : Bool) (R : Array (List AState)) (pc : Nat) (a : AState) : Bool :=
  safe code endOk ⟨pc, a.1, a.2.1, a.2.2⟩ && (succs code ⟨pc, a.1, a.2.1, a.2.2⟩).all (memR R)

def checkClosed (code : List Node) (endOk : Bool) (R : Array (List AState)) : Bool :=
  (List.range R.size).all (fun pc => (R[pc]?.getD []).all (closedAt code endOk R pc))

def verifyWith (code : List Node) (endOk : Bool) (R : Array (List AState)) : Bool :=
  memR R St.init && checkClosed code endOk R

/-- The bytecode verifier. -/
def verify (code : List Node) (endOk : Bool) : Bool :=
  verifyWith code endOk (explore code)

/-- Reachability in the abstract machine. -/
inductive Reach (code : List Node) : St → Prop
  | init : Reach code St.init
  | step {s s' : St} : Reach code s → s' ∈ succs code s → Reach code s'

/-- First offending state found by the exploration (diagnostics for the driver). -/
def firstUnsafe (code : List Node) (endOk : Bool) (R : Array (List AState)) : Option (Nat × AState) :=
  (List.range R.size).findSome? (fun pc =>
    ((R[pc]?.getD []).find? (fun a => !closedAt code endOk R pc a)).map (fun a => (pc, a)))

/-! ## (a) Emit: structured code -/

/-- A straight-line model instruction: goja type name (canonical), numeric operand, operands needed, popped,
pushed; `term` = no fall-through (throw). -/
structure Instr where
  name : String
  n : Nat := 0
  need : Nat
  pops : Nat
  pushes : Nat
  term : Bool := false
deriving Repr, DecidableEq

/-- Conditional forward jumps (vm.go:4298 ff): operands needed, popped when taken / when falling through. -/
structure JKind where
  name : String
  need : Nat
  popJump : Nat
  popFall : Nat
deriving Repr, DecidableEq

def jneP : JKind := ⟨"jneP", 1, 1, 1⟩
def jeqP : JKind := ⟨"jeqP", 1, 1, 1⟩
def jcoalescP : JKind := ⟨"jcoalescP", 1, 1, 1⟩
def jne : JKind := ⟨"jne", 1, 0, 1⟩
def jeq : JKind := ⟨"jeq", 1, 0, 1⟩
def jcoalesc : JKind := ⟨"jcoalesc", 1, 0, 1⟩

inductive Code
  | nil
  | ins (i : Instr)
  | seq (a b : Code)
  | fwd (j : JKind) (body : Code)        -- j(|body|+1) ; body
  | ifElse (j : JKind) (a b : Code)      -- j(|a|+2) ; a ; jump(|b|+1) ; b
  | loop (j : JKind) (pre body : Code)   -- pre ; j(|body|+2) ; body ; jump(-(|pre|+1+|body|))      (while)
  | forever (body : Code)                -- body ; jump(-|body|)                                     (while, constant true test)
  | doLoop (j : JKind) (body : Code)     -- body ; j(-|body|)                                        (do-while)
deriving Repr

def Code.len : Code → Nat
  | .nil => 0
  | .ins _ => 1
  | .seq a b => a.len + b.len
  | .fwd _ body => 1 + body.len
  | .ifElse _ a b => 2 + a.len + b.len
  | .loop _ pre body => pre.len + 1 + body.len + 1
  | .forever body => body.len + 1
  | .doLoop _ body => body.len + 1

def Instr.node (i : Instr) : Node :=
  ⟨i.need, if i.term then [] else [(1, (i.pushes : Int) - i.pops)], .plain⟩

def JKind.node (j : JKind) (off : Nat) : Node :=
  ⟨j.need, [((off : Int), -(j.popJump : Int)), (1, -(j.popFall : Int))], .plain⟩

def jumpNode (off : Nat) : Node := ⟨0, [((off : Int), 0)], .plain⟩

/-- backward jumps: the offset is `-(back)` -/
def JKind.nodeBack (j : JKind) (back : Nat) : Node :=
  ⟨j.need, [(-(back : Int), -(j.popJump : Int)), (1, -(j.popFall : Int))], .plain⟩
def jumpBackNode (back : Nat) : Node := ⟨0, [(-(back : Int), 0)], .plain⟩

/-- Flat instruction list with relative jump offsets, as the compiler lays it out. -/
def Code.flat : Code → List (String × Int × Node)
  | .nil => []
  | .ins i => [(i.name, (i.n : Int), i.node)]
  | .seq a b => a.flat ++ b.flat
  | .fwd j body => (j.name, ((body.len + 1 : Nat) : Int), j.node (body.len + 1)) :: body.flat
  | .ifElse j a b =>
      (j.name, ((a.len + 2 : Nat) : Int), j.node (a.len + 2)) :: a.flat ++
        ("jump", ((b.len + 1 : Nat) : Int), jumpNode (b.len + 1)) :: b.flat
  | .loop j pre body =>
      pre.flat ++ (j.name, ((body.len + 2 : Nat) : Int), j.node (body.len + 2)) :: body.flat ++
        [("jump", -((pre.len + 1 + body.len : Nat) : Int), jumpBackNode (pre.len + 1 + body.len))]
  | .forever body => body.flat ++ [("jump", -((body.len : Nat) : Int), jumpBackNode body.len)]
  | .doLoop j body => body.flat ++ [(j.name, -((body.len : Nat) : Int), j.nodeBack body.len)]

/-- Abstract height after a piece of code: `dead` = control cannot reach this point. -/
inductive Ht
  | dead
  | live (h : Nat)
deriving DecidableEq, Repr

def Ht.join : Ht → Ht → Option Ht
  | .dead, x => some x
  | x, .dead => some x
  | .live a, .live b => if a = b then some (.live a) else none

/-- Height transformer of structured code; `none` = ill-formed (underflow below the entry height, or two paths
meeting with different heights). -/
def Code.height : Code → Ht → Option Ht
  | .nil, x => some x
  | .ins _, .dead => some .dead
  | .ins i, .live h =>
      if i.need ≤ h ∧ i.pops ≤ i.need then
        (if i.term then some .dead else some (.live (h - i.pops + i.pushes)))
      else none
  | .seq a b, x => (a.height x).bind b.height
  | .fwd _ _, .dead => some .dead
  | .fwd j body, .live h =>
      if j.need ≤ h ∧ j.popJump ≤ j.need ∧ j.popFall ≤ j.need then
        (body.height (.live (h - j.popFall))).bind (fun hb => hb.join (.live (h - j.popJump)))
      else none
  | .ifElse _ _ _, .dead => some .dead
  | .ifElse j a b, .live h =>
      if j.need ≤ h ∧ j.popJump ≤ j.need ∧ j.popFall ≤ j.need then
        (a.height (.live (h - j.popFall))).bind (fun ha =>
          (b.height (.live (h - j.popJump))).bind (fun hb => ha.join hb))
      else none
  -- loops: the height at the loop head is an invariant (the back edge must arrive with the entry height)
  | .loop _ _ _, .dead => some .dead
  | .loop j pre body, .live h =>
      match pre.height (.live h) with
      | some (.live k1) =>
        if j.need ≤ k1 ∧ j.popJump ≤ j.need ∧ j.popFall ≤ j.need then
          match body.height (.live (k1 - j.popFall)) with
          | some .dead => some (.live (k1 - j.popJump))
          | some (.live k2) => if k2 = h then some (.live (k1 - j.popJump)) else none
          | none => none
        else none
      | some .dead => some .dead
      | none => none
  | .forever _, .dead => some .dead
  | .forever body, .live h =>
      match body.height (.live h) with
      | some .dead => some .dead
      | some (.live k2) => if k2 = h then some .dead else none
      | none => none
  | .doLoop _ _, .dead => some .dead
  | .doLoop j body, .live h =>
      match body.height (.live h) with
      | some (.live k1) =>
        if j.need ≤ k1 ∧ j.popJump ≤ j.need ∧ j.popFall ≤ j.need ∧ k1 - j.popJump = h then some (.live (k1 - j.popFall))
        else none
      | some .dead => some .dead
      | none => none

/-! ### instructions used by the emitter (names = goja instruction type names after canonicalisation) -/

def push1 (name : String) (n : Nat := 0) : Instr := ⟨name, n, 0, 0, 1, false⟩
def op11 (name : String) : Instr := ⟨name, 0, 1, 1, 1, false⟩      -- replaces top
def op21 (name : String) : Instr := ⟨name, 0, 2, 2, 1, false⟩
def op20 (name : String) : Instr := ⟨name, 0, 2, 2, 0, false⟩
def op31 (name : String) : Instr := ⟨name, 0, 3, 3, 1, false⟩
def op30 (name : String) : Instr := ⟨name, 0, 3, 3, 0, false⟩
def op12 (name : String) : Instr := ⟨name, 0, 1, 1, 2, false⟩
def op22 (name : String) : Instr := ⟨name, 0, 2, 2, 2, false⟩
def op00 (name : String) : Instr := ⟨name, 0, 0, 0, 0, false⟩
def iPop : Instr := ⟨"_pop", 0, 1, 1, 0, false⟩
def iDup : Instr := ⟨"_dup", 0, 1, 0, 1, false⟩
def iKeep1 (name : String) : Instr := ⟨name, 0, 1, 0, 0, false⟩    -- reads top, leaves it (storeStack, _putValue)
def iThrow : Instr := ⟨"_throw", 0, 1, 1, 0, true⟩
def iThrowAssignToConst : Instr := ⟨"_throwAssignToConst", 0, 0, 0, 0, true⟩
def iRdupN (n : Nat) : Instr := ⟨"rdupN", n, n + 1, 0, 0, false⟩
def iDupLast (n : Nat) : Instr := ⟨"dupLast", n, n, 0, n, false⟩
def iCall (n : Nat) : Instr := ⟨"call", n, n + 2, n + 2, 1, false⟩
def iNew (n : Nat) : Instr := ⟨"_new", n, n + 1, n + 1, 1, false⟩
def iConcat (n : Nat) : Instr := ⟨"concatStrings", n, n, n, 1, false⟩
def iLoadVal : Instr := push1 "loadVal"
def iLoadUndef : Instr := push1 "_loadUndef"

/-! ### expression AST -/

/-- Resolution class of an identifier at its use site (compiler.go:470 scope.lookupName + binding flags). -/
inductive IdClass
  | stackVar                  -- noDynamics, b.isVar && !b.isArg: loadStack / storeStack, emitGetP emits nothing
  | lexVar                    -- noDynamics, let / argument: loadStackLex / storeStackLex (TDZ check on discarded reads)
  | const (isStrict : Bool)   -- noDynamics, b.isConst; isStrict=false: the name of a sloppy function expression
  | global                    -- lookup reached the global scope: loadDynamic / resolveVar1
  | dynBound                  -- bound, but a `with`/eval scope intervenes: loadMixed / resolveMixed
deriving DecidableEq, Repr

inductive Lit
  | num (i : Int)
  | str (s : String)
  | bool (b : Bool)
  | null
  | big (i : Int)
deriving DecidableEq, Repr

inductive UnOp | not | bnot | neg | plus | typeof | void
deriving DecidableEq, Repr

inductive BinOp
  | add | sub | mul | lt | gt | le | ge | eq | ne | seq | sne | band | bor | bxor | shl | sar | shr
  | div | mod | exp | instanceof | in_
deriving DecidableEq, Repr

inductive LogOp | and | or | coalesce
deriving DecidableEq, Repr

mutual
inductive Expr
  | lit (v : Lit)
  | ident (c : IdClass) (name : String)
  | this
  | unary (op : UnOp) (e : Expr)                  -- for `typeof` only when the operand is not an identifier
  | typeofId (c : IdClass) (name : String)
  | deleteId (c : IdClass) (name : String)
  | deleteDot (l : Expr) (name : String)
  | deleteIndex (l m : Expr)
  | deleteCall (call : Expr)                      -- operand is a call expression
  | deleteOther (e : Expr)                        -- any other operand: not evaluated at all (compiler_expr.go:319)
  | updateId (inc post : Bool) (c : IdClass) (name : String)
  | updateDot (inc post : Bool) (l : Expr) (name : String)
  | updateIndex (inc post : Bool) (l m : Expr)
  | binary (op : BinOp) (l r : Expr)
  | logical (op : LogOp) (l r : Expr)
  | cond (t a b : Expr)
  | comma (a b : Expr)
  | assignId (c : IdClass) (name : String) (r : Expr)
  | assignDot (l : Expr) (name : String) (r : Expr)
  | assignIndex (l m r : Expr)
  | assignOpId (op : BinOp) (c : IdClass) (name : String) (r : Expr)
  | assignOpDot (op : BinOp) (l : Expr) (name : String) (r : Expr)
  | assignOpIndex (op : BinOp) (l m r : Expr)
  | assignLogId (op : LogOp) (c : IdClass) (name : String) (r : Expr)
  | assignLogDot (op : LogOp) (l : Expr) (name : String) (r : Expr)
  | assignLogIndex (op : LogOp) (l m r : Expr)
  | dot (e : Expr) (name : String)
  | index (e m : Expr)
  | callDot (l : Expr) (name : String) (args : Args)
  | callIndex (l m : Expr) (args : Args)
  | callId (c : IdClass) (name : String) (args : Args)
  | callOther (f : Expr) (args : Args)
  | new (callee : Expr) (args : Args)
  | array (els : Elems)
  | object (props : Props)
  | template (head : Bool) (first : Expr) (rest : Quasis) (tail : Bool)
inductive Args
  | nil
  | cons (e : Expr) (rest : Args)
inductive Elems
  | nil
  | hole (rest : Elems)
  | cons (e : Expr) (rest : Elems)
inductive Props
  | nil
  | keyed (key : String) (v : Expr) (rest : Props)       -- constant key
  | computed (k v : Expr) (rest : Props)
inductive Quasis                                             -- middle pieces: (string non-empty?, expr)
  | nil
  | cons (nonEmpty : Bool) (e : Expr) (rest : Quasis)
end

/-- Compiler configuration that the emitter depends on. -/
structure Cfg where
  strict : Bool              -- c.scope.strict
deriving Repr, DecidableEq

/-! ### constant folding (compiler_expr.go:2433 evalConst, `constant()` methods) -/

inductive CVal
  | num (i : Int)
  | str (s : String)
  | bool (b : Bool)
  | null
  | undef
  | big (i : Int)
deriving DecidableEq, Repr

inductive CRes
  | val (v : CVal)
  | throws (hasMsg : Bool)     -- TypeError / RangeError with message → emitThrow
deriving DecidableEq, Repr

def CVal.truthy : CVal → Bool
  | .num i => i != 0
  | .str s => s != ""
  | .bool b => b
  | .null => false
  | .undef => false
  | .big i => i != 0

def CVal.nullish : CVal → Bool
  | .null => true
  | .undef => true
  | _ => false

def CVal.toStr : CVal → String
  | .num i => toString i
  | .str s => s
  | .bool b => if b then "true" else "false"
  | .null => "null"
  | .undef => "undefined"
  | .big i => toString i

def CVal.typeofStr : CVal → String
  | .num _ => "number"
  | .str _ => "string"
  | .bool _ => "boolean"
  | .null => "object"
  | .undef => "undefined"
  | .big _ => "bigint"

def litVal : Lit → CVal
  | .num i => .num i
  | .str s => .str s
  | .bool b => .bool b
  | .null => .null
  | .big i => .big i

/-- Values of the operator/operand combinations the correspondence generator produces; any other combination
gets an arbitrary value (the height theorems hold for every branch, so they do not depend on this). -/
def evalBin (op : BinOp) (a b : CVal) : CRes :=
  match op, a, b with
  | .add, .num x, .num y => .val (.num (x + y))
  | .sub, .num x, .num y => .val (.num (x - y))
  | .mul, .num x, .num y => .val (.num (x * y))
  | .add, .big x, .big y => .val (.big (x + y))
  | .sub, .big x, .big y => .val (.big (x - y))
  | .mul, .big x, .big y => .val (.big (x * y))
  | .add, .big _, .num _ => .throws true
  | .add, .num _, .big _ => .throws true
  | .sub, .big _, .num _ => .throws true
  | .sub, .num _, .big _ => .throws true
  | .mul, .big _, .num _ => .throws true
  | .mul, .num _, .big _ => .throws true
  | .add, .str x, y => .val (.str (x ++ y.toStr))
  | .add, x, .str y => .val (.str (x.toStr ++ y))
  | .lt, .num x, .num y => .val (.bool (x < y))
  | .gt, .num x, .num y => .val (.bool (x > y))
  | .le, .num x, .num y => .val (.bool (x ≤ y))
  | .ge, .num x, .num y => .val (.bool (x ≥ y))
  | .seq, x, y => .val (.bool (x == y))
  | .sne, x, y => .val (.bool (x != y))
  | .eq, .num x, .num y => .val (.bool (x == y))
  | .ne, .num x, .num y => .val (.bool (x != y))
  | _, _, _ => .val (.num 1)

def evalUn (op : UnOp) (a : CVal) : CRes :=
  match op, a with
  | .not, v => .val (.bool (!v.truthy))
  | .neg, .num x => .val (.num (-x))
  | .neg, .big x => .val (.big (-x))
  | .plus, .num x => .val (.num x)
  | .plus, .big _ => .throws true
  | .bnot, .num x => .val (.num (-x - 1))
  | .bnot, .big x => .val (.big (-x - 1))
  | .typeof, v => .val (.str v.typeofStr)
  | .void, _ => .val .undef
  | _, _ => .val (.num 1)

mutual
/-- `constant()` (compiler_expr.go:302 base = false; :1221 literal; :2468 unary; :2695 binary;
:2570/:2611/:2652 logical). -/
def constant : Expr → Bool
  | .lit _ => true
  | .unary _ e => constant e
  | .deleteOther e => constant e       -- compiledUnaryExpr with token.DELETE
  | .binary _ l r => constant l && constant r
  | .logical op l r =>
      if constant l then
        match evalConst l with
        | .val v =>
          (match op with
           | .or => if v.truthy then true else constant r
           | .and => if !v.truthy then true else constant r
           | .coalesce => if !v.nullish then true else constant r)
        | .throws _ => true
      else false
  | _ => false
/-- `evalConst` on an expression for which `constant` holds (value domain abstracted, see `evalBin`). -/
def evalConst : Expr → CRes
  | .lit v => .val (litVal v)
  | .unary op e =>
      (match evalConst e with
       | .val v => evalUn op v
       | .throws m => .throws m)
  | .deleteOther _ => .val (.bool true)
  | .binary op l r =>
      (match evalConst l with
       | .val a => (match evalConst r with
                    | .val b => evalBin op a b
                    | .throws m => .throws m)
       | .throws m => .throws m)
  | .logical op l r =>
      (match evalConst l with
       | .val v =>
         (match op with
          | .or => if v.truthy then .val v else evalConst r
          | .and => if !v.truthy then .val v else evalConst r
          | .coalesce => if !v.nullish then .val v else evalConst r)
       | .throws m => .throws m)
  | _ => .val .undef
end

/-! ### the emitter -/

def cat : List Code → Code
  | [] => .nil
  | c :: cs => .seq c (cat cs)

def popUnless (p : Bool) : Code := if p then .nil else .ins iPop
def onlyIf (p : Bool) (c : Code) : Code := if p then c else .nil

/-- compiler.emitThrow (compiler_expr.go:2401) -/
def emitThrow (hasMsg : Bool) : Code :=
  if hasMsg then cat [.ins (push1 "loadDynamic"), .ins iLoadVal, .ins (iNew 1), .ins iThrow]
  else cat [.ins (push1 "loadDynamic"), .ins (iNew 0), .ins iThrow]

def strictName (cfg : Cfg) (base : String) : String := if cfg.strict then base ++ "Strict" else base

def binName : BinOp → String
  | .add => "_add" | .sub => "_sub" | .mul => "_mul" | .lt => "_op_lt" | .gt => "_op_gt" | .le => "_op_lte"
  | .ge => "_op_gte" | .eq => "_op_eq" | .ne => "_op_neq" | .seq => "_op_strict_eq" | .sne => "_op_strict_neq"
  | .band => "_and" | .bor => "_or" | .bxor => "_xor" | .shl => "_sal" | .sar => "_sar" | .shr => "_shr"
  | .div => "_div" | .mod => "_mod" | .exp => "_exp" | .instanceof => "_op_instanceof" | .in_ => "_op_in"

def unName : UnOp → String
  | .not => "_not" | .bnot => "_bnot" | .neg => "_neg" | .plus => "_plus" | .typeof => "_typeof" | .void => "void"

/-- compiledIdentifierExpr.emitGetter (compiler_expr.go:336) -/
def emitIdentGet (c : IdClass) (p : Bool) : Code :=
  match c with
  | .stackVar => onlyIf p (.ins (push1 "loadStack"))                               -- emitGet / emitGetP (compiler.go:136,155)
  | .lexVar => .seq (.ins (push1 "loadStackLex")) (popUnless p)
  | .const _ => .seq (.ins (push1 "loadStackLex")) (popUnless p)
  | .global => .seq (.ins (push1 "loadDynamic")) (popUnless p)
  | .dynBound => .seq (.ins (push1 "loadMixed")) (popUnless p)

/-- binding.emitSet / emitSetP (compiler.go:165,181) for a bound name without dynamics -/
def emitBindingSet (cfg : Cfg) (c : IdClass) (p : Bool) : Code :=
  match c with
  | .stackVar => .ins (if p then iKeep1 "storeStack" else ⟨"storeStackP", 0, 1, 1, 0, false⟩)
  | .const isStrict =>
      if isStrict || cfg.strict then
        -- TDZ check first (emitGetP: loadStackLex, pop), then the TypeError (fix 6a214f2)
        cat [.ins (push1 "loadStackLex"), .ins iPop, .ins iThrowAssignToConst]
      else if !p then .ins iPop else .nil      -- emitSetP pops the ignored value (fix 5a4962f); emitSet keeps it
  | _ => .ins (if p then iKeep1 "storeStackLex" else ⟨"storeStackLexP", 0, 1, 1, 0, false⟩)

/-- The mechanism BEFORE fix 5a4962f (kept only for the regression lemma `emit_height_prefix_witness`):
`emitSetP` emitted nothing for a non-strict const binding in sloppy code. -/
def emitBindingSetPrefix (cfg : Cfg) (c : IdClass) (p : Bool) : Code :=
  match c with
  | .const isStrict => if isStrict || cfg.strict then .ins iThrowAssignToConst else .nil
  | c => emitBindingSet cfg c p

def isDyn : IdClass → Bool
  | .global => true
  | .dynBound => true
  | _ => false

/-- compiler.emitVarRef (compiler_expr.go:428) -/
def emitVarRef (cfg : Cfg) (c : IdClass) : Code :=
  match c with
  | .global => .ins (op00 (strictName cfg "resolveVar1"))
  | _ => .ins (op00 "resolveMixed")

/-- emitVarSetter1 (compiler_expr.go:386): `right isRef` must push exactly one value. -/
def emitVarSetter1 (cfg : Cfg) (c : IdClass) (p : Bool) (right : Bool → Code) : Code :=
  if isDyn c then
    cat [emitVarRef cfg c, right true, .ins (if p then iKeep1 "_putValue" else ⟨"_putValueP", 0, 1, 1, 0, false⟩)]
  else
    .seq (right false) (emitBindingSet cfg c p)

/-- `emitExpr` (compiler_expr.go:3287) + `emitConst` (:2422): constant expressions are folded; `g` is what
`emitGetter` would emit. -/
def foldOr (e : Expr) (p : Bool) (g : Code) : Code :=
  if constant e then
    match evalConst e with
    | .val _ => onlyIf p (.ins iLoadVal)
    | .throws m => emitThrow m
  else g

/-- compiler.processKey (compiler_expr.go:1779): a constant key that evaluates without throwing is not emitted -/
def foldsToKey (k : Expr) : Bool :=
  constant k && (match evalConst k with
                 | .val _ => true
                 | .throws _ => false)

/-- stands for "compilation stops with a SyntaxError here" (nothing is emitted, nothing runs) -/
def iDead : Instr := ⟨"<syntax-error>", 0, 0, 0, 0, true⟩

def argsLen : Args → Nat
  | .nil => 0
  | .cons _ rest => argsLen rest + 1
def quasisCount : Quasis → Nat
  | .nil => 0
  | .cons ne _ rest => (if ne then 1 else 0) + 1 + quasisCount rest

/-- update expression on an identifier (compiledIdentifierExpr.emitUnary, compiler_expr.go:453);
`prep` = toNumber for increment and decrement, nil for compound assignment; `body` pushes nothing net (1 → 1). -/
def emitUnaryId (cfg : Cfg) (c : IdClass) (p post : Bool) (prep body : Code) : Code :=
  if p then
    .seq (emitVarSetter1 cfg c true (fun isRef =>
      cat [.ins iLoadUndef, (if isRef then .ins (push1 "_getValue") else emitIdentGet c true), prep,
           (if post then .nil else body), .ins (iRdupN 1), (if post then body else .nil)]))
      (.ins iPop)
  else
    emitVarSetter1 cfg c false (fun isRef =>
      cat [(if isRef then .ins (push1 "_getValue") else emitIdentGet c true), body])

/-- compiledDotExpr.emitUnary (compiler_expr.go:946); `gl` = code of the object expression. -/
def emitUnaryDot (cfg : Cfg) (p post : Bool) (gl prep body : Code) : Code :=
  if !p then cat [gl, .ins iDup, .ins (op11 "getProp"), body, .ins (op20 (strictName cfg "setProp" ++ "P"))]
  else if !post then cat [gl, .ins iDup, .ins (op11 "getProp"), prep, body, .ins (op21 (strictName cfg "setProp"))]
  else cat [.ins iLoadUndef, gl, .ins iDup, .ins (op11 "getProp"), prep, .ins (iRdupN 2), body,
            .ins (op20 (strictName cfg "setProp" ++ "P"))]

/-- compiledBracketExpr.emitUnary (compiler_expr.go:1046) -/
def emitUnaryIndex (cfg : Cfg) (p post : Bool) (gl gm prep body : Code) : Code :=
  if !p then cat [gl, gm, .ins (iDupLast 2), .ins (op21 "_getElem"), body, .ins (op31 (strictName cfg "_setElem")), .ins iPop]
  else if !post then cat [gl, gm, .ins (iDupLast 2), .ins (op21 "_getElem"), prep, body, .ins (op31 (strictName cfg "_setElem"))]
  else cat [.ins iLoadUndef, gl, gm, .ins (iDupLast 2), .ins (op21 "_getElem"), prep, .ins (iRdupN 3), body,
            .ins (op31 (strictName cfg "_setElem")), .ins iPop]

/-- logical assignment (compiledAssignExpr.emitGetter, compiler_expr.go:1171); `ref` pushes the reference
(operand stack unchanged), `right` pushes one value. -/
def emitAssignLog (op : LogOp) (p : Bool) (ref right : Code) : Code :=
  let j : JKind := match op, p with
    | .and, true => jne | .and, false => jneP
    | .or, true => jeq | .or, false => jeqP
    | .coalesce, true => jcoalesc | .coalesce, false => jcoalescP
  cat [ref, .ins (push1 "_getValue"),
       .ifElse j (.seq right (.ins (if p then iKeep1 "_putValue" else ⟨"_putValueP", 0, 1, 1, 0, false⟩)))
                 (.ins (op00 "_popRef"))]

def logJump : LogOp → JKind
  | .or => jeq
  | .and => jne
  | .coalesce => jcoalesc

def logShort (op : LogOp) (v : CVal) : Bool :=
  match op with
  | .or => v.truthy
  | .and => !v.truthy
  | .coalesce => !v.nullish

def incBody (inc : Bool) : Code := .ins (op11 (if inc then "_inc" else "_dec"))
def prepNum : Code := .ins (op11 "_toNumber")

mutual
/-- `emitGetter(putOnStack)` of each compiled expression type. -/
def emitG (cfg : Cfg) : Expr → Bool → Code
  | .lit _, p => onlyIf p (.ins iLoadVal)                                            -- :1215
  | .ident c _, p => emitIdentGet c p                                                -- :336
  | .this, p => .seq (.ins (push1 "loadStack")) (popUnless p)                          -- :2297
  | .unary op e, p =>                                                                  -- :2472
      (match op with
       | .void => .seq (foldOr e false (emitG cfg e false)) (onlyIf p (.ins iLoadUndef))
       | .neg => cat [foldOr e true (emitG cfg e true), .ins (op11 "_neg"), popUnless p]
       | .plus => cat [foldOr e true (emitG cfg e true), .ins (op11 "_plus"), popUnless p]
       | o => cat [emitG cfg e true, .ins (op11 (unName o)), popUnless p])
  | .typeofId c _, p =>                                                                -- :2489 emitGetterOrRef :357
      (match c with
       | .global => cat [.ins (push1 "loadDynamicRef"), .ins (op11 "_typeof"), popUnless p]
       | c => cat [emitIdentGet c true, .ins (op11 "_typeof"), popUnless p])
  | .deleteId c _, p =>                                                                -- :486 (sloppy only)
      (match c with
       | .global => .seq (.ins (push1 "deleteVar")) (popUnless p)
       | _ => onlyIf p (.ins iLoadVal))
  | .deleteDot l _, p => cat [emitG cfg l true, .ins (op11 (strictName cfg "deleteProp")), popUnless p]      -- :993
  | .deleteIndex l m, p =>
      cat [emitG cfg l true, emitG cfg m true, .ins (op21 (strictName cfg "_deleteElem")), popUnless p]     -- :1093
  | .deleteCall e, p => .seq (emitG cfg e false) (onlyIf p (.ins iLoadVal))             -- :3114
  | .deleteOther _, p => onlyIf p (.ins iLoadVal)                                      -- :319 (operand not evaluated)
  | .updateId inc post c _, p => emitUnaryId cfg c p post prepNum (incBody inc)        -- :2508
  | .updateDot inc post l _, p => emitUnaryDot cfg p post (emitG cfg l true) prepNum (incBody inc)
  | .updateIndex inc post l m, p =>
      emitUnaryIndex cfg p post (emitG cfg l true) (emitG cfg m true) prepNum (incBody inc)
  | .binary op l r, p =>                                                               -- :2699
      cat [foldOr l true (emitG cfg l true), foldOr r true (emitG cfg r true), .ins (op21 (binName op)), popUnless p]
  | .logical op l r, p =>                                                              -- :2585 / :2626 / :2668
      if constant l then
        match evalConst l with
        | .val v => if logShort op v then onlyIf p (.ins iLoadVal) else foldOr r p (emitG cfg r p)
        | .throws m => emitThrow m
      else
        cat [(match op with
              | .and => emitG cfg l true
              | _ => foldOr l true (emitG cfg l true)),
             .fwd (logJump op) (foldOr r true (emitG cfg r true)), popUnless p]
  | .cond t a b, p => .seq (emitG cfg t true) (.ifElse jneP (emitG cfg a p) (emitG cfg b p))                 -- :2548
  | .comma a b, p => .seq (emitG cfg a false) (emitG cfg b p)                          -- :2376
  | .assignId c _ r, p =>                                                              -- :1109 → :422 emitNamedOrConst
      let rc := foldOr r true (emitG cfg r true)
      emitVarSetter1 cfg c p (fun _ => rc)
  | .assignDot l _ r, p =>                                                             -- :927
      cat [emitG cfg l true, emitG cfg r true,
           .ins (if p then op21 (strictName cfg "setProp") else op20 (strictName cfg "setProp" ++ "P"))]
  | .assignIndex l m r, p =>                                                           -- :1026
      cat [emitG cfg l true, emitG cfg m true, emitG cfg r true,
           .ins (if p then op31 (strictName cfg "_setElem") else op30 (strictName cfg "_setElem" ++ "P"))]
  | .assignOpId op c _ r, p =>                                                         -- :1111 ff: emitUnary(nil, body, false, p)
      emitUnaryId cfg c p false .nil (.seq (emitG cfg r true) (.ins (op21 (binName op))))
  | .assignOpDot op l _ r, p =>
      emitUnaryDot cfg p false (emitG cfg l true) .nil (.seq (emitG cfg r true) (.ins (op21 (binName op))))
  | .assignOpIndex op l m r, p =>
      emitUnaryIndex cfg p false (emitG cfg l true) (emitG cfg m true) .nil
        (.seq (emitG cfg r true) (.ins (op21 (binName op))))
  | .assignLogId op c _ r, p =>                                                        -- :1171
      emitAssignLog op p (emitVarRef cfg c) (foldOr r true (emitG cfg r true))
  | .assignLogDot op l _ r, p =>
      emitAssignLog op p (.seq (emitG cfg l true) (.ins ⟨strictName cfg "getPropRef", 0, 1, 1, 0, false⟩))
        (emitG cfg r true)
  | .assignLogIndex op l m r, p =>
      emitAssignLog op p
        (cat [emitG cfg l true, emitG cfg m true, .ins ⟨strictName cfg "_getElemRef", 0, 2, 2, 0, false⟩])
        (emitG cfg r true)
  | .dot e _, p => cat [emitG cfg e true, .ins (op11 "getProp"), popUnless p]          -- :909
  | .index e m, p => cat [emitG cfg e true, emitG cfg m true, .ins (op21 "_getElem"), popUnless p]           -- :1006
  -- calls: compiledCallExpr.emitGetter :3049 + emitCallee :3003
  | .callDot l _ a, p =>
      cat [emitG cfg l true, .ins (op12 "getPropCallee"), emitArgs cfg a, .ins (iCall (argsLen a)), popUnless p]
  | .callIndex l m a, p =>
      cat [emitG cfg l true, emitG cfg m true, .ins (op22 "_getElemCallee"), emitArgs cfg a, .ins (iCall (argsLen a)),
           popUnless p]
  | .callId c _ a, p =>
      cat [(match c with
            | .global => .ins ⟨"loadDynamicCallee", 0, 0, 0, 2, false⟩
            | .dynBound => .ins ⟨"loadMixed", 1, 0, 0, 2, false⟩
            | c => .seq (.ins iLoadUndef) (emitIdentGet c true)),
           emitArgs cfg a, .ins (iCall (argsLen a)), popUnless p]
  | .callOther f a, p =>
      cat [.ins iLoadUndef, emitG cfg f true, emitArgs cfg a, .ins (iCall (argsLen a)), popUnless p]
  | .new f a, p => cat [emitG cfg f true, emitArgs cfg a, .ins (iNew (argsLen a)), popUnless p]              -- :2311
  | .array els, p => cat [.ins (push1 "newArray"), emitElems cfg els, popUnless p]     -- :2947
  | .object ps, p => cat [.ins (push1 "_newObject"), emitProps cfg ps, popUnless p]    -- :2838
  | .template head first rest tail, p =>                                               -- :1225 (untagged, >= 1 substitution)
      cat [onlyIf head (.ins iLoadVal), emitG cfg first true, .ins (op11 "_toString"), emitQuasis cfg rest,
           onlyIf tail (.ins iLoadVal),
           .ins (iConcat ((if head then 1 else 0) + 1 + quasisCount rest + (if tail then 1 else 0))), popUnless p]
def emitArgs (cfg : Cfg) : Args → Code
  | .nil => .nil
  | .cons e rest => .seq (emitG cfg e true) (emitArgs cfg rest)
def emitElems (cfg : Cfg) : Elems → Code
  | .nil => .nil
  | .hole rest => cat [.ins (push1 "_loadNil"), .ins (op21 "_pushArrayItem"), emitElems cfg rest]
  | .cons e rest => cat [foldOr e true (emitG cfg e true), .ins (op21 "_pushArrayItem"), emitElems cfg rest]
def emitProps (cfg : Cfg) : Props → Code
  | .nil => .nil
  | .keyed _ v rest => cat [foldOr v true (emitG cfg v true), .ins (op21 "putProp"), emitProps cfg rest]
  | .computed k v rest =>
      if foldsToKey k then cat [foldOr v true (emitG cfg v true), .ins (op21 "putProp"), emitProps cfg rest]   -- processKey :1779
      else cat [emitG cfg k true, .ins (op11 "_toPropertyKey"), foldOr v true (emitG cfg v true), .ins (op31 "_setElem1"),
                emitProps cfg rest]
def emitQuasis (cfg : Cfg) : Quasis → Code
  | .nil => .nil
  | .cons ne e rest => cat [onlyIf ne (.ins iLoadVal), emitG cfg e true, .ins (op11 "_toString"), emitQuasis cfg rest]
end

/-- `emitExpr` (compiler_expr.go:3287). -/
def emitE (cfg : Cfg) (e : Expr) (p : Bool) : Code := foldOr e p (emitG cfg e p)

/-! ### statements (compiler_stmt.go)

The fragment: expression / empty / `var` statements, blocks without lexical declarations, `if`, `while`, `do-while`,
`for` with an expression (or no) initialiser, `return`, `throw` — without `break`/`continue`/labels, so that
`scanStatements` (compiler_stmt.go:922) reduces to "index of the last statement whose result is not empty" and
`containsBranch` is false.  `nr` is the compiler's `needResult`. -/

def iSaveResult : Instr := ⟨"_saveResult", 0, 1, 1, 0, false⟩
def iClearResult : Instr := op00 "_clearResult"
def iInitStackP : Instr := ⟨"initStackP", 0, 1, 1, 0, false⟩
def iInitValueP : Instr := ⟨"_initValueP", 0, 1, 1, 0, false⟩
/-- `ret` is terminal for the unit; `pushes = 1` records that, unlike a throw, it leaves its operand as the value for
the caller (no successor inside the unit reads it: `Instr.node` and `Code.height` ignore `pushes` of terminal
instructions) — `Instr.isRet` (RetExact.lean) tells `ret` from the throwing terminals by it. -/
def iRet : Instr := ⟨"_ret", 0, 1, 1, 1, true⟩

/-- the head of a `for` statement: nothing, an expression, or a `var` declaration with one binding
(`ForLoopInitializerVarDeclList` → compileVarBinding → emitVarAssign, like the `var` statement) -/
inductive ForInit
  | none
  | expr (e : Expr)
  | var0                                  -- `for (var x; …)`
  | varInit (c : IdClass) (init : Expr)   -- `for (var x = init; …)`

mutual
inductive Stmt
  | expr (e : Expr)
  | empty
  | varBare                                             -- `var x;`
  | varInit (c : IdClass) (init : Expr)                 -- `var x = init;`
  | block (ss : Stmts)
  | ifS (t : Expr) (a : Stmt)
  | ifElse (t : Expr) (a b : Stmt)
  | whileS (t : Expr) (body : Stmt)
  | doWhile (body : Stmt) (t : Expr)
  | forS (init : ForInit) (test update : Option Expr) (body : Stmt)
  | ret (e : Option Expr)
  | throwS (e : Expr)
inductive Stmts
  | nil
  | cons (s : Stmt) (rest : Stmts)
end

mutual
/-- compiler.isEmptyResult (compiler_stmt.go:881) on the fragment -/
def Stmt.emptyResult : Stmt → Bool
  | .empty => true
  | .varBare => true
  | .varInit _ _ => true
  | .block ss => ss.allEmpty
  | _ => false
def Stmts.allEmpty : Stmts → Bool
  | .nil => true
  | .cons s r => s.emptyResult && r.allEmpty
end

/-- scanStatements: index of the last value-producing statement (counting from `i`) -/
def Stmts.lastProd : Stmts → Nat → Option Nat → Option Nat
  | .nil, _, acc => acc
  | .cons s r, i, acc => r.lastProd (i + 1) (if s.emptyResult then acc else some i)

/-- how a constant loop / if test is disposed of -/
inductive TestK | nonConst | truthy | falsy | throws (hasMsg : Bool)

def testKind (t : Expr) : TestK :=
  if constant t then
    match evalConst t with
    | .val v => if v.truthy then .truthy else .falsy
    | .throws m => .throws m
  else .nonConst

def clr (nr : Bool) : Code := onlyIf nr (.ins iClearResult)
def optG (cfg : Cfg) : Option Expr → Code
  | none => .nil
  | some e => emitG cfg e false

/-- emitVarAssign (compiler_stmt.go:776) with an initialiser: a statically resolved binding is initialised in place,
otherwise through a reference -/
def emitVarInit (cfg : Cfg) (c : IdClass) (init : Expr) : Code :=
  if isDyn c then cat [emitVarRef cfg c, emitE cfg init true, .ins iInitValueP]
  else .seq (emitE cfg init true) (.ins iInitStackP)

def emitForInit (cfg : Cfg) : ForInit → Code
  | .none => .nil
  | .expr e => emitG cfg e false
  | .var0 => .nil
  | .varInit c e => emitVarInit cfg c e

mutual
def emitS (cfg : Cfg) : Stmt → Bool → Code
  -- compileExpressionStatement (compiler_stmt.go:1070)
  | .expr e, nr => .seq (emitE cfg e nr) (onlyIf nr (.ins iSaveResult))
  -- compileEmptyStatement (:554)
  | .empty, nr => clr nr
  | .varBare, _ => .nil
  | .varInit c init, _ => emitVarInit cfg c init
  -- compileBlockStatement (:1042) without declarations = compileStatements
  | .block ss, nr => emitList cfg ss (if nr then ss.lastProd 0 none else none) 0
  -- compileIfStatement (:690)
  | .ifS t a, nr =>
      .seq (clr nr)
        (match testKind t with
         | .throws m => emitThrow m
         | .truthy => emitS cfg a nr
         | .falsy => clr nr
         | .nonConst =>
             .seq (emitG cfg t true)
               (if nr then .ifElse jneP (emitS cfg a nr) (.ins iClearResult) else .fwd jneP (emitS cfg a nr)))
  | .ifElse t a b, nr =>
      .seq (clr nr)
        (match testKind t with
         | .throws m => emitThrow m
         | .truthy => emitS cfg a nr
         | .falsy => emitS cfg b nr
         | .nonConst => .seq (emitG cfg t true) (.ifElse jneP (emitS cfg a nr) (emitS cfg b nr)))
  -- compileLabeledWhileStatement (:509)
  | .whileS t body, nr =>
      .seq (clr nr)
        (match testKind t with
         | .throws m => emitThrow m
         | .falsy => .nil
         | .truthy => .forever (.seq (clr nr) (emitS cfg body nr))
         | .nonConst => .loop jneP (emitG cfg t true) (.seq (clr nr) (emitS cfg body nr)))
  -- compileLabeledDoWhileStatement (:221)
  | .doWhile body t, nr => .doLoop jeqP (cat [clr nr, emitS cfg body nr, emitE cfg t true])
  -- compileLabeledForStatement (:262), initialiser absent, an expression, or a `var` binding
  | .forS init test update body, nr =>
      cat [emitForInit cfg init, clr nr,
        (match test with
         | none => .forever (cat [clr nr, emitS cfg body nr, optG cfg update])
         | some t =>
           match testKind t with
           | .throws m => emitThrow m
           | .falsy => .nil
           | .truthy => .forever (cat [clr nr, emitS cfg body nr, optG cfg update])
           | .nonConst => .loop jneP (emitG cfg t true) (cat [clr nr, emitS cfg body nr, optG cfg update]))]
  -- compileReturnStatement (:740) outside try / for-in / for-of blocks
  | .ret none, _ => .seq (.ins iLoadUndef) (.ins iRet)
  | .ret (some e), _ => .seq (emitE cfg e true) (.ins iRet)
  -- compileThrowStatement (:211)
  | .throwS e, _ => .seq (emitG cfg e true) (.ins iThrow)
/-- compileStatements / compileStatementsNeedResult (:1014, :982): only the statement at index `lp` tracks its result -/
def emitList (cfg : Cfg) : Stmts → Option Nat → Nat → Code
  | .nil, _, _ => .nil
  | .cons s r, lp, i => .seq (emitS cfg s (lp == some i)) (emitList cfg r lp (i + 1))
end

/-- a statement list as the body of a program (`needResult = true`) or of a function (`false`) -/
def emitBody (cfg : Cfg) (ss : Stmts) (nr : Bool) : Code := emitS cfg (.block ss) nr

/-! ## resolving a dumped instruction (type name + operands) to a `Node` -/

def lookupOp (ops : List (String × Int)) (k : String) : Int := (ops.lookup k).getD 0

def LinE.eval (l : LinE) (ops : List (String × Int)) : Int :=
  if l.coeff = 0 then l.const else l.coeff * lookupOp ops l.opnd + l.const

def PathE.edge (q : PathE) (ops : List (String × Int)) : Int × Int :=
  (match q.pc with
   | .next => 1
   | .jumpOp o => lookupOp ops o, q.sp.eval ops)

def plainNode (need : Int) (edges : List (Int × Int)) : Node := ⟨need.toNat, edges, .plain⟩

/-- Names with a hand-written effect: everything the extractor classifies `dyn`, the control instructions
(try/finally protocol, return, variadic calls) and a few instructions whose generated path set is
operand-sensitive in a way the table cannot express (leaveBlock's `if ss > 0`, loadMixed's callee flag). -/
def handNames : List String :=
  ["call", "callEval", "callEvalStrict", "_callVariadic", "_callEvalVariadic", "_callEvalVariadicStrict",
   "_newVariadic", "_superCallVariadic", "_startVariadic", "_endVariadic", "_pushSpread", "_ret", "cret", "_throw",
   "try", "leaveTry", "enterFinally", "leaveFinally", "bindGlobal", "enterFunc", "enterFuncStashless",
   "enterFuncBody", "leaveBlock", "loadMixed", "loadMixedLex", "loadMixedStack", "loadMixedStack1",
   "loadMixedStackLex", "loadMixedStack1Lex", "newArrowFunc", "newAsyncArrowFunc", "newMethod", "newAsyncMethod",
   "newGeneratorMethod", "yieldMarker", "yieldEmpty", "nil"]

def handNode (name : String) (ops : List (String × Int)) : Option Node :=
  let n := lookupOp ops "n"
  if name = "call" ∨ name = "callEval" ∨ name = "callEvalStrict" then some (plainNode (n + 2) [(1, -(n + 1))])   -- vm.go:3633
  else if name = "_callVariadic" ∨ name = "_callEvalVariadic" ∨ name = "_callEvalVariadicStrict"
       ∨ name = "_newVariadic" ∨ name = "_superCallVariadic" then some ⟨0, [], .callVar⟩
  else if name = "nil" then some (plainNode 1073741824 [])   -- unpatched placeholder: executing it dereferences nil → never `safe` if reachable
  else if name = "_startVariadic" then some ⟨0, [], .startVar⟩
  else if name = "_endVariadic" then some ⟨2, [], .endVar⟩
  else if name = "_pushSpread" then some (plainNode 1 [(1, 0)])      -- virtual height: a spread counts as one value
  else if name = "_ret" ∨ name = "cret" then some ⟨1, [], .ret⟩
  else if name = "_throw" then some (plainNode 1 [])
  else if name = "try" then some ⟨0, [], .tryI (lookupOp ops "catchOffset").toNat (lookupOp ops "finallyOffset").toNat⟩
  else if name = "leaveTry" then some ⟨0, [], .leaveTry⟩
  else if name = "enterFinally" then some ⟨0, [], .enterFinally⟩
  else if name = "leaveFinally" then some ⟨0, [], .leaveFinally⟩
  else if name = "bindGlobal" then some (plainNode (lookupOp ops "funcs#") [(1, -(lookupOp ops "funcs#"))])  -- vm.go:4280
  else if name = "enterFunc" ∨ name = "enterFuncStashless" ∨ name = "enterFuncBody" then
    some (plainNode 0 [(1, lookupOp ops "stackSize")])                -- height relative to the normalised frame
  else if name = "leaveBlock" then some (plainNode (lookupOp ops "stackSize") [(1, -(lookupOp ops "stackSize"))])
  else if name = "loadMixed" ∨ name = "loadMixedLex" ∨ name = "loadMixedStack" ∨ name = "loadMixedStack1"
       ∨ name = "loadMixedStackLex" ∨ name = "loadMixedStack1Lex" then some (plainNode 0 [(1, 1 + lookupOp ops "callee")])
  else if name = "newArrowFunc" ∨ name = "newAsyncArrowFunc" then some (plainNode 0 [(1, 1)])
  else if name = "newMethod" ∨ name = "newAsyncMethod" ∨ name = "newGeneratorMethod" then
    some (plainNode (lookupOp ops "homeObjOffset") [(1, 1)])
  else if name = "yieldEmpty" then some (plainNode 0 [(1, 0)])
  else if name = "yieldMarker" then
    (let t := lookupOp ops "resultType"
     if t = 1 ∨ t = 3 then some (plainNode 1 [(1, -1)]) else some (plainNode 1 [(1, 0)]))   -- func.go:10, :835
  else none

def resolve (table : List (String × Eff)) (name : String) (ops : List (String × Int)) : Except String Node :=
  match handNode name ops with
  | some nd => .ok nd
  | none =>
    match table.lookup name with
    | some (.paths need ps) => .ok (plainNode (need.eval ops) (ps.map (·.edge ops)))
    | some (.dyn why) => .error s!"dyn instruction without hand-written effect: {name} ({why})"
    | none => .error s!"unknown instruction {name}"

/-! ### frame-slot addressing (vm.go:1049-1273)

`loadStack(l)` &c. address `stack[sb + args + l]` for `l > 0` (var<l-1>); the `…1` variants, used when the arguments live
in the stash, address `stack[sb + l]`.  In the verifier's normalised frame (arguments not counted, `this` at position 0 of
a function unit; a program / eval unit starts directly above its `this` slot) that is position `l - 1 + base` with
`base = 1` for function units and `0` for program units.  The slot must lie below the operands: a load needs
`pos + 1` values on the abstract stack, a store or initialisation (which also reads the top) `pos + 2`.  The store
variants that `panic("Illegal stack var index")` for `l ≤ 0` are never safe with such an operand. -/
def slotLoads : List String :=
  ["loadStack", "loadStack1", "loadStackLex", "loadStack1Lex", "loadMixedStack", "loadMixedStack1", "loadMixedStackLex",
   "loadMixedStack1Lex", "resolveMixedStack", "resolveMixedStack1"]
def slotStores : List String :=
  ["storeStack", "storeStack1", "storeStackLex", "storeStack1Lex", "storeStackP", "storeStack1P", "storeStackLexP",
   "storeStack1LexP", "initStack", "initStack1", "initStackP", "initStack1P"]
def slotPanicsNonPos : List String :=
  ["storeStack", "storeStack1", "storeStack1Lex", "storeStackP", "storeStack1P", "storeStack1LexP", "initStack1", "initStack1P"]

/-- the struct-typed ones carry the slot in their `idx` field, the int-typed ones are the slot number (`n` in the dump) -/
def slotInIdx : List String :=
  ["loadMixedStack", "loadMixedStack1", "loadMixedStackLex", "loadMixedStack1Lex", "resolveMixedStack", "resolveMixedStack1"]

def slotNeed (base : Nat) (name : String) (ops : List (String × Int)) : Nat :=
  let l := if slotInIdx.contains name then lookupOp ops "idx" else lookupOp ops "n"
  if slotLoads.contains name then (if l > 0 then l.toNat - 1 + base + 1 else 0)
  else if slotStores.contains name then
    (if l > 0 then l.toNat - 1 + base + 2 else if slotPanicsNonPos.contains name then 1073741824 else 0)
  else 0

/-- a node whose `need` also covers the frame slot the instruction addresses -/
def withSlotNeed (base : Nat) (name : String) (ops : List (String × Int)) (n : Node) : Node :=
  { n with need := max n.need (slotNeed base name ops) }

/-! ## (c) panic payload classifier (vm.go:5824 exceptionFromValue, vm.go:800 handleThrow,
runtime.go:1421 asUncatchableException, recover sites runtime.go:1437 RunProgram, :2505 runWrapped, :1361 compileAST) -/

inductive Payload
  | object | value | exception | typeError | referenceError | rangeError | syntaxError
  | interruptedError | stackOverflowError | wrappedUncatchable
  | compilerSyntaxError
  | other (tag : String)          -- Go runtime errors, strings ("Compiler bug"), arbitrary values
deriving DecidableEq, Repr

inductive Outcome
  | exception          -- returned as *Exception (catchable by script)
  | uncatchable        -- returned as *InterruptedError / *StackOverflowError (or an error wrapping one)
  | compileError       -- returned as *CompilerSyntaxError
  | repanic            -- escapes to the host
deriving DecidableEq, Repr

/-- the `case` list of vm.exceptionFromValue; default returns nil -/
def exceptionFromValueOk : Payload → Bool
  | .object | .value | .exception | .typeError | .referenceError | .rangeError | .syntaxError => true
  | _ => false

/-- asUncatchableException: `uncatchableException` interface or an `error` whose Unwrap chain contains one -/
def asUncatchableOk : Payload → Bool
  | .interruptedError | .stackOverflowError | .wrappedUncatchable => true
  | _ => false

/-- run boundary: handleThrow converts what exceptionFromValue knows, re-panics the rest (`panic(arg)`), and
the recover of RunProgram / runWrapped keeps only uncatchable exceptions. -/
def classifyRun (p : Payload) : Outcome :=
  if exceptionFromValueOk p then .exception
  else if asUncatchableOk p then .uncatchable
  else .repanic

/-- compile boundary: compileAST's recover keeps *CompilerSyntaxError only. -/
def classifyCompile (p : Payload) : Outcome :=
  match p with
  | .compilerSyntaxError => .compileError
  | _ => .repanic

def documentedRun : List Payload :=
  [.object, .value, .exception, .typeError, .referenceError, .rangeError, .syntaxError,
   .interruptedError, .stackOverflowError, .wrappedUncatchable]

end GojaModel.C01
