import GojaModel.C01.StmtProof
/-!
  C01 (a″): `break` / `continue` (unlabelled, to the innermost loop) in the statement emitter model.

  A second statement AST `S2` = the fragment of `Stmt` plus `brk` / `cont`, and a second structured code type `C2`
  whose loops own the two jump targets: `brk` / `cont` are laid out as the `jump` placeholders the compiler patches in
  `leaveBlock` (compiler.go:347).  What is transcribed in addition to `emitS`:

    compileBreak / compileContinue / emitBlockExitCode (compiler_stmt.go:623-668): inside the fragment the blocks between a
      branch statement and its loop are none (no lexical scopes, try, with, for-in/of), so the exit code is empty and the
      statement is the bare placeholder; outside a loop compilation stops with a SyntaxError;
    block.cont: `while` → loop start, `do-while` → the test, `for` → the update expression;
    the result bookkeeping of statement lists in the presence of branch statements: isEmptyResult / leadingBranch /
      scanStatements (:881-935: the scan stops at the first statement that certainly reaches a branch first; the list then
      takes the `needResult` of the loop that branch leaves), containsBranch (:939: a statement before the last producing one
      tracks its result iff it contains a branch), and dummy mode after a direct branch statement in the tail of a
      `needResult` list (:1003: nothing more is emitted for that list).

  `H2 B C c h k` is the height judgement with the heights `B` / `C` that a `break` / `continue` must deliver to its
  target; `emit2_ht`: every statement is height-neutral and every branch arrives at its target with the loop's entry height.
-/
namespace GojaModel.C01

mutual
inductive S2
  | expr (e : Expr)
  | empty
  | varBare
  | varInit (c : IdClass) (init : Expr)
  | block (ss : SS2)
  | ifS (t : Expr) (a : S2)
  | ifElse (t : Expr) (a b : S2)
  | whileS (t : Expr) (body : S2)
  | doWhile (body : S2) (t : Expr)
  | forS (init : ForInit) (test update : Option Expr) (body : S2)
  | ret (e : Option Expr)
  | throwS (e : Expr)
  | brk
  | cont
  | tryCatch (param : Bool) (body c : SS2)   -- `try {…} catch {…}` / `catch (e) {…}` (identifier parameter, on the stack)
  | tryFinally (body f : SS2)
  | tryCatchFinally (param : Bool) (body c f : SS2)
inductive SS2
  | nil
  | cons (s : S2) (rest : SS2)
end

def S2.isBranch : S2 → Bool
  | .brk => true
  | .cont => true
  | _ => false

mutual
/-- compiler.isEmptyResult (compiler_stmt.go:881) -/
def S2.emptyResult : S2 → Bool
  | .empty => true
  | .varBare => true
  | .varInit _ _ => true
  | .brk => true
  | .cont => true
  | .block ss => ss.blockEmpty
  | _ => false
def SS2.blockEmpty : SS2 → Bool
  | .nil => true
  | .cons s r => if s.isBranch then true else if !s.emptyResult then false else r.blockEmpty
end

mutual
/-- compiler.leadingBranch (:905), reduced to "there is one" (every branch of the fragment leaves the innermost loop) -/
def S2.leading : S2 → Bool
  | .brk => true
  | .cont => true
  | .block ss => ss.leading
  | _ => false
def SS2.leading : SS2 → Bool
  | .nil => false
  | .cons s r => if s.leading then true else if !s.emptyResult then false else r.leading
end

mutual
/-- containsBranch (:939) -/
def S2.contains : S2 → Bool
  | .brk => true
  | .cont => true
  | .block ss => ss.contains
  | .ifS _ a => a.contains
  | .ifElse _ a b => a.contains || b.contains
  | .whileS _ b => b.contains
  | .doWhile b _ => b.contains
  | .forS _ _ _ b => b.contains
  | .tryCatch _ b c => b.contains || c.contains
  | .tryFinally b f => b.contains || f.contains
  | .tryCatchFinally _ b c f => b.contains || c.contains || f.contains
  | _ => false
def SS2.contains : SS2 → Bool
  | .nil => false
  | .cons s r => s.contains || r.contains
end

/-- scanStatements (:922): (index of the last value-producing statement before the first leading branch, was there one) -/
def SS2.scan : SS2 → Nat → Option Nat → Option Nat × Bool
  | .nil, _, acc => (acc, false)
  | .cons s r, i, acc => if s.leading then (acc, true) else r.scan (i + 1) (if s.emptyResult then acc else some i)

/-- structured code with loop-owned branch targets -/
inductive C2
  | old (c : Code)
  | nil
  | seq (a b : C2)
  | fwd (j : JKind) (body : C2)
  | ifElse (j : JKind) (a b : C2)
  /-- pre ; j(exit) ; body ; upd ; jump(start).  continue → start (`contStart`, while) or → upd (for) -/
  | loop (j : JKind) (contStart : Bool) (pre : Code) (body : C2) (upd : Code)
  /-- body ; upd ; jump(start) -/
  | forever (contStart : Bool) (body : C2) (upd : Code)
  /-- body ; test ; j(start).  continue → test -/
  | doLoop (j : JKind) (body : C2) (test : Code)
  | brk
  | cont
  /-- try{catchOffset, finallyOffset} ; [clearResult] ; body ; [jump over ; (pop ; catch | enterBlock ; catch ; leaveBlock)] ;
  (enterFinally ; fin ; leaveFinally | leaveTry) -/
  | tryC (clr : Bool) (body : C2) (hasCatch param : Bool) (ctc : C2) (hasFin : Bool) (fin : C2)

def C2.len : C2 → Nat
  | .old c => c.len
  | .nil => 0
  | .seq a b => a.len + b.len
  | .fwd _ b => 1 + b.len
  | .ifElse _ a b => 2 + a.len + b.len
  | .loop _ _ pre body upd => pre.len + 1 + body.len + upd.len + 1
  | .forever _ body upd => body.len + upd.len + 1
  | .doLoop _ body test => body.len + test.len + 1
  | .brk => 1
  | .cont => 1
  | .tryC clr body hc pm ctc hf fin =>
      1 + (if clr then 1 else 0) + body.len + (if hc then 2 + ctc.len + (if pm then 1 else 0) else 0) +
        (if hf then 2 + fin.len else 1)

/-- flat layout at absolute position `pos`; `bT` / `cT` = absolute positions of the enclosing loop's break / continue targets -/
def C2.flatAt : C2 → Nat → Nat → Nat → List (String × Int)
  | .old c, _, _, _ => c.flat.map (fun x => (x.1, x.2.1))
  | .nil, _, _, _ => []
  | .seq a b, pos, bT, cT => a.flatAt pos bT cT ++ b.flatAt (pos + a.len) bT cT
  | .fwd j body, pos, bT, cT => (j.name, ((body.len + 1 : Nat) : Int)) :: body.flatAt (pos + 1) bT cT
  | .ifElse j a b, pos, bT, cT =>
      (j.name, ((a.len + 2 : Nat) : Int)) :: a.flatAt (pos + 1) bT cT ++
        ("jump", ((b.len + 1 : Nat) : Int)) :: b.flatAt (pos + 1 + a.len + 1) bT cT
  | .loop j cs pre body upd, pos, _, _ =>
      let bodyPos := pos + pre.len + 1
      let updPos := bodyPos + body.len
      let exit := updPos + upd.len + 1
      pre.flat.map (fun x => (x.1, x.2.1)) ++ (j.name, ((body.len + upd.len + 2 : Nat) : Int)) ::
        body.flatAt bodyPos exit (if cs then pos else updPos) ++ upd.flat.map (fun x => (x.1, x.2.1)) ++
        [("jump", -((pre.len + 1 + body.len + upd.len : Nat) : Int))]
  | .forever cs body upd, pos, _, _ =>
      let updPos := pos + body.len
      let exit := updPos + upd.len + 1
      body.flatAt pos exit (if cs then pos else updPos) ++ upd.flat.map (fun x => (x.1, x.2.1)) ++
        [("jump", -((body.len + upd.len : Nat) : Int))]
  | .doLoop j body test, pos, _, _ =>
      let testPos := pos + body.len
      let exit := testPos + test.len + 1
      body.flatAt pos exit testPos ++ test.flat.map (fun x => (x.1, x.2.1)) ++
        [(j.name, -((body.len + test.len : Nat) : Int))]
  | .brk, pos, bT, _ => [("jump", (bT : Int) - pos)]
  | .cont, pos, _, cT => [("jump", (cT : Int) - pos)]
  | .tryC clr body hc pm ctc hf fin, pos, bT, cT =>
      let bodyPos := pos + 1 + (if clr then 1 else 0)
      let afterBody := bodyPos + body.len
      let afterCatch := afterBody + (if hc then 2 + ctc.len + (if pm then 1 else 0) else 0)
      let catchOff : Nat := if hc then afterBody + 1 - pos else 0
      let finOff : Nat := if hf then afterCatch + 1 - pos else 0
      ("try", ((catchOff * 10000 + finOff : Nat) : Int)) :: (if clr then [("_clearResult", (0 : Int))] else []) ++
        body.flatAt bodyPos bT cT ++
        (if hc then
           (if pm then ("jump", ((ctc.len + 3 : Nat) : Int)) :: ("enterBlock", 0) :: ctc.flatAt (afterBody + 2) bT cT ++ [("leaveBlock", 0)]
            else ("jump", ((ctc.len + 2 : Nat) : Int)) :: ("_pop", 0) :: ctc.flatAt (afterBody + 2) bT cT)
         else []) ++
        (if hf then ("enterFinally", 0) :: fin.flatAt (afterCatch + 1) bT cT ++ [("leaveFinally", 0)]
         else [("leaveTry", 0)])

/-! ### the emitter -/

/-- the `leaveBlock` of a catch-parameter scope: pops the parameter's slot -/
def iLeaveBlock1 : Instr := ⟨"leaveBlock", 0, 1, 1, 0, false⟩

/-- block exit code of `break` / `continue` (emitBlockExitCode :623) for the blocks between the statement and its loop,
innermost first: `false` = a try block (`leaveTry`), `true` = the scope of a catch parameter (a copy of its `leaveBlock`,
compiler.go:340) -/
def exitCode : List Bool → Code
  | [] => .nil
  | false :: r => .seq (.ins (op00 "leaveTry")) (exitCode r)
  | true :: r => .seq (.ins iLeaveBlock1) (exitCode r)

/-- operands that those blocks keep on the stack (one per catch parameter) -/
def slots : List Bool → Nat
  | [] => 0
  | false :: r => slots r
  | true :: r => slots r + 1

/-- what `return` emits for every enclosing try block (compileReturnStatement :752) -/
def retUnwind : Nat → Code
  | 0 => .nil
  | n + 1 => .seq (.seq (.ins iSaveResult) (.seq (.ins (op00 "leaveTry")) (.ins (push1 "_loadResult")))) (retUnwind n)

/-- compileStatements (:1014): the `needResult` a list is really compiled with, and its last producing index -/
def blkMode (ss : SS2) (lc : Option Bool) (nr : Bool) : Bool × Option Nat :=
  let sc := ss.scan 0 none
  (if sc.2 then (match lc with
                 | some b => b
                 | none => nr) else nr, sc.1)

/-- compileTryStatement :113-125: a finally block that certainly ends in a branch (`finallyBreaking`) decides the `needResult`
of the try block and the catch clause: the loop's, if the finally block produces no value before the branch, else none -/
def finBreaking (f : SS2) (lc : Option Bool) : Bool := (f.scan 0 none).2 && lc.isSome
def tryBodyNr (f : SS2) (lc : Option Bool) (nr : Bool) : Bool :=
  if finBreaking f lc then (if (f.scan 0 none).1.isNone then lc.getD false else false) else nr
/-- … and the finally block then starts by clearing the result (:196) -/
def finClr (f : SS2) (lc : Option Bool) (nr : Bool) : Bool :=
  tryBodyNr f lc nr && finBreaking f lc && (f.scan 0 none).1.isNone

mutual
/-- `lc` = `needResult` of the innermost enclosing loop (`none` outside loops); `td` / `ltd` = number of try blocks around
the statement inside its function; `ex` = the blocks between the statement and that loop (see `exitCode`) -/
def emit2 (cfg : Cfg) (lc : Option Bool) (td : Nat) (ex : List Bool) : S2 → Bool → C2
  | .expr e, nr => .old (.seq (emitE cfg e nr) (onlyIf nr (.ins iSaveResult)))
  | .empty, nr => .old (clr nr)
  | .varBare, _ => .nil
  | .varInit c init, _ => .old (emitVarInit cfg c init)
  -- compileStatements (:1014)
  | .block ss, nr => emitL2 cfg lc td ex ss (blkMode ss lc nr).1 (blkMode ss lc nr).2 0
  | .ifS t a, nr =>
      .seq (.old (clr nr))
        (match testKind t with
         | .throws m => .old (emitThrow m)
         | .truthy => emit2 cfg lc td ex a nr
         | .falsy => .old (clr nr)
         | .nonConst =>
             .seq (.old (emitG cfg t true))
               (if nr then .ifElse jneP (emit2 cfg lc td ex a nr) (.old (.ins iClearResult)) else .fwd jneP (emit2 cfg lc td ex a nr)))
  | .ifElse t a b, nr =>
      .seq (.old (clr nr))
        (match testKind t with
         | .throws m => .old (emitThrow m)
         | .truthy => emit2 cfg lc td ex a nr
         | .falsy => emit2 cfg lc td ex b nr
         | .nonConst => .seq (.old (emitG cfg t true)) (.ifElse jneP (emit2 cfg lc td ex a nr) (emit2 cfg lc td ex b nr)))
  | .whileS t body, nr =>
      .seq (.old (clr nr))
        (match testKind t with
         | .throws m => .old (emitThrow m)
         | .falsy => .nil
         | .truthy => .forever true (.seq (.old (clr nr)) (emit2 cfg (some nr) td [] body nr)) .nil
         | .nonConst => .loop jneP true (emitG cfg t true) (.seq (.old (clr nr)) (emit2 cfg (some nr) td [] body nr)) .nil)
  | .doWhile body t, nr => .doLoop jeqP (.seq (.old (clr nr)) (emit2 cfg (some nr) td [] body nr)) (emitE cfg t true)
  | .forS init test update body, nr =>
      .seq (.old (emitForInit cfg init)) (.seq (.old (clr nr))
        (match test with
         | none => .forever false (.seq (.old (clr nr)) (emit2 cfg (some nr) td [] body nr)) (optG cfg update)
         | some t =>
           match testKind t with
           | .throws m => .old (emitThrow m)
           | .falsy => .nil
           | .truthy => .forever false (.seq (.old (clr nr)) (emit2 cfg (some nr) td [] body nr)) (optG cfg update)
           | .nonConst =>
               .loop jneP false (emitG cfg t true) (.seq (.old (clr nr)) (emit2 cfg (some nr) td [] body nr)) (optG cfg update)))
  | .ret none, _ => .old (.seq (.ins iLoadUndef) (.seq (retUnwind td) (.ins iRet)))
  | .ret (some e), _ => .old (.seq (emitE cfg e true) (.seq (retUnwind td) (.ins iRet)))
  | .throwS e, _ => .old (.seq (emitG cfg e true) (.ins iThrow))
  -- compileBreak / compileContinue (:657, :663); "Could not find block" outside a loop
  | .brk, _ => (match lc with
                | some _ => .seq (.old (exitCode ex)) .brk
                | none => .old (.ins iDead))
  | .cont, _ => (match lc with
                 | some _ => .seq (.old (exitCode ex)) .cont
                 | none => .old (.ins iDead))
  -- compileTryStatement (:105), catch without parameter; the try block stays open in the catch and finally clauses
  | .tryCatch pm b c, nr =>
      .tryC nr (emitL2 cfg lc (td + 1) (false :: ex) b (blkMode b lc nr).1 (blkMode b lc nr).2 0) true pm
        (emitL2 cfg lc (td + 1) (if pm then true :: false :: ex else false :: ex) c (blkMode c lc nr).1 (blkMode c lc nr).2 0)
        false .nil
  | .tryFinally b f, nr =>
      let bn := tryBodyNr f lc nr
      .tryC nr (emitL2 cfg lc (td + 1) (false :: ex) b (blkMode b lc bn).1 (blkMode b lc bn).2 0) false false .nil true
        (.seq (.old (clr (finClr f lc nr)))
          (emitL2 cfg lc (td + 1) (false :: ex) f (blkMode f lc false).1 (blkMode f lc false).2 0))
  | .tryCatchFinally pm b c f, nr =>
      let bn := tryBodyNr f lc nr
      .tryC nr (emitL2 cfg lc (td + 1) (false :: ex) b (blkMode b lc bn).1 (blkMode b lc bn).2 0) true pm
        (emitL2 cfg lc (td + 1) (if pm then true :: false :: ex else false :: ex) c (blkMode c lc bn).1 (blkMode c lc bn).2 0) true
        (.seq (.old (clr (finClr f lc nr)))
          (emitL2 cfg lc (td + 1) (false :: ex) f (blkMode f lc false).1 (blkMode f lc false).2 0))
/-- the loop of compileStatements (`nrMode = false`) resp. compileStatementsNeedResult (:982) -/
def emitL2 (cfg : Cfg) (lc : Option Bool) (td : Nat) (ex : List Bool) : SS2 → Bool → Option Nat → Nat → C2
  | .nil, _, _, _ => .nil
  | .cons s r, nrMode, lp, i =>
      if !nrMode then .seq (emit2 cfg lc td ex s false) (emitL2 cfg lc td ex r false lp (i + 1))
      else
        let nrS := match lp with
          | some l => if i < l then s.contains else i == l
          | none => false
        let inTail := match lp with
          | some l => decide (l < i)
          | none => true
        if inTail && s.isBranch then emit2 cfg lc td ex s nrS                 -- dummy mode from here on
        else .seq (emit2 cfg lc td ex s nrS) (emitL2 cfg lc td ex r true lp (i + 1))
end

/-- a statement list as the body of a program (`needResult`) or of a function -/
def emitBody2 (cfg : Cfg) (ss : SS2) (nr : Bool) : C2 := emit2 cfg none 0 [] (.block ss) nr

/-! ### the judgement -/

/-- `H2 B C c h k`: as `HasHt`, and every `break` / `continue` in `c` (not enclosed by a loop of `c`) is executed with exactly
`B` / `C` operands — the height its jump target expects. -/
inductive H2 : Option Nat → Option Nat → C2 → Nat → Nat → Prop
  | old {B C c h k} : HasHt c h k → H2 B C (.old c) h k
  | nil {B C h} : H2 B C .nil h h
  | seq {B C a b h k1 k2} : H2 B C a h k1 → H2 B C b k1 k2 → H2 B C (.seq a b) h k2
  | fwd {B C} {j : JKind} {body h} : j.need ≤ h → j.popJump ≤ j.need → j.popFall ≤ j.need →
      H2 B C body (h - j.popFall) (h - j.popJump) → H2 B C (.fwd j body) h (h - j.popJump)
  | ifElse {B C} {j : JKind} {a b h k} : j.need ≤ h → j.popJump ≤ j.need → j.popFall ≤ j.need →
      H2 B C a (h - j.popFall) k → H2 B C b (h - j.popJump) k → H2 B C (.ifElse j a b) h k
  /-- the loop head height `h` is the invariant: the back edge and every `continue` arrive with it, every `break` with the
  exit height -/
  | loop {B C} {j : JKind} {cs pre body upd h k1} : HasHt pre h k1 → j.need ≤ k1 → j.popJump ≤ j.need → j.popFall ≤ j.need →
      H2 (some (k1 - j.popJump)) (some h) body (k1 - j.popFall) h → HasHt upd h h →
      H2 B C (.loop j cs pre body upd) h (k1 - j.popJump)
  /-- a loop without exit test is left by `break` only: with the loop-head height -/
  | forever {B C cs body upd h} : H2 (some h) (some h) body h h → HasHt upd h h → H2 B C (.forever cs body upd) h h
  | doLoop {B C} {j : JKind} {body test h k1} : H2 (some h) (some h) body h h → HasHt test h k1 →
      j.need ≤ k1 → j.popJump ≤ j.need → j.popFall ≤ j.need → k1 - j.popJump = h → k1 - j.popFall = h →
      H2 B C (.doLoop j body test) h h
  /-- the catch clause is entered by the handler with the exception value on the saved height (`unwind_height`); without a
  parameter it pops it first, with a parameter the value IS the parameter's slot (`enterBlock` allocates nothing more,
  compiler_stmt.go:176) until `leaveBlock` pops it; all three parts are height-neutral -/
  | tryC {B C clr body hc pm ctc hf fin h} : H2 B C body h h →
      H2 B C ctc (h + if pm then 1 else 0) (h + if pm then 1 else 0) → H2 B C fin h h →
      H2 B C (.tryC clr body hc pm ctc hf fin) h h
  | brk {C h k} : H2 (some h) C .brk h k
  | cont {B h k} : H2 B (some h) .cont h k

theorem H2.conv {B C c h k k'} (hh : H2 B C c h k) (e : k = k') : H2 B C c h k' := e ▸ hh

theorem h2_ifElse_jneP {B C} {a b : C2} {h k : Nat} (ha : H2 B C a h k) (hb : H2 B C b h k) :
    H2 B C (.ifElse jneP a b) (h + 1) k := by
  have e1 : h + 1 - jneP.popFall = h := by simp [jneP]
  have e2 : h + 1 - jneP.popJump = h := by simp [jneP]
  exact H2.ifElse (by simp [jneP]) (by simp [jneP]) (by simp [jneP]) (e1 ▸ ha) (e2 ▸ hb)

theorem h2_fwd_jneP {B C} {body : C2} {h : Nat} (hb : H2 B C body h h) : H2 B C (.fwd jneP body) (h + 1) h := by
  have e1 : h + 1 - jneP.popFall = h := by simp [jneP]
  have e2 : h + 1 - jneP.popJump = h := by simp [jneP]
  have hb' : H2 B C body (h + 1 - jneP.popFall) (h + 1 - jneP.popJump) := by rw [e1, e2]; exact hb
  exact H2.conv (H2.fwd (by simp [jneP]) (by simp [jneP]) (by simp [jneP]) hb') e2

theorem h2_loop_jneP {B C} {cs : Bool} {pre upd : Code} {body : C2} {h : Nat} (hp : HasHt pre h (h + 1))
    (hb : H2 (some h) (some h) body h h) (hu : HasHt upd h h) : H2 B C (.loop jneP cs pre body upd) h h := by
  have e1 : h + 1 - jneP.popFall = h := by simp [jneP]
  have e2 : h + 1 - jneP.popJump = h := by simp [jneP]
  have hb' : H2 (some (h + 1 - jneP.popJump)) (some h) body (h + 1 - jneP.popFall) h := by rw [e1, e2]; exact hb
  exact H2.conv (H2.loop hp (by simp [jneP]) (by simp [jneP]) (by simp [jneP]) hb' hu) e2

theorem h2_doLoop_jeqP {B C} {body : C2} {test : Code} {h : Nat} (hb : H2 (some h) (some h) body h h)
    (ht : HasHt test h (h + 1)) : H2 B C (.doLoop jeqP body test) h h := by
  have e1 : h + 1 - jeqP.popFall = h := by simp [jeqP]
  have e2 : h + 1 - jeqP.popJump = h := by simp [jeqP]
  exact H2.doLoop hb ht (by simp [jeqP]) (by simp [jeqP]) (by simp [jeqP]) e2 e1

/-- the branch-target context of a statement compiled inside / outside a loop entered with `h` operands -/
def ctx (lc : Option Bool) (h : Nat) : Option Nat := lc.map (fun _ => h)

theorem h2_clr {B C} (nr : Bool) (h : Nat) : H2 B C (.old (clr nr)) h h := H2.old (clr_ht nr h)

theorem h2_dead {B C} (h k : Nat) : H2 B C (.old (.ins iDead)) h k :=
  H2.old (HasHt.term (by simp [iDead]) (by simp [iDead]) rfl)

theorem exitCode_ht : (ex : List Bool) → (hl : Nat) → HasHt (exitCode ex) (hl + slots ex) hl
  | [], hl => HasHt.nil
  | false :: r, hl =>
    HasHt.seq (HasHt.ins' (i := op00 "leaveTry") (k := hl + slots r) (by simp [op00]) (by simp [op00]) (by simp [op00])
      (by simp [op00, slots])) (exitCode_ht r hl)
  | true :: r, hl => HasHt.seq (pop1_ht (hl + slots r) rfl rfl rfl rfl) (exitCode_ht r hl)

theorem retUnwind_ht (n h : Nat) : HasHt (retUnwind n) (h + 1) (h + 1) := by
  induction n with
  | zero => exact HasHt.nil
  | succ n ih =>
    refine HasHt.seq (HasHt.seq (pop1_ht h rfl rfl rfl rfl) (HasHt.seq (k1 := h) ?_ ?_)) ih
    · exact HasHt.ins' (i := op00 "leaveTry") (k := h) (by simp [op00]) (by simp [op00]) (by simp [op00]) (by simp [op00])
    · exact HasHt.ins' (i := push1 "_loadResult") (k := h + 1) (by simp [push1]) (by simp [push1]) (by simp [push1]) (by simp [push1])

mutual
theorem emit2_ht (cfg : Cfg) : (s : S2) → ∀ (lc : Option Bool) (td : Nat) (ex : List Bool) (nr : Bool) (hl h : Nat),
    h = hl + slots ex → H2 (ctx lc hl) (ctx lc hl) (emit2 cfg lc td ex s nr) h h
  | .expr e, lc, td, ex, nr, hl, h, he => by
    simp only [emit2]
    exact H2.old (emitS_ht cfg (.expr e) nr h)
  | .empty, lc, td, ex, nr, hl, h, he => by simp only [emit2]; exact h2_clr nr h
  | .varBare, lc, td, ex, _, hl, h, he => by simp only [emit2]; exact H2.nil
  | .varInit c init, lc, td, ex, _, hl, h, he => by simp only [emit2]; exact H2.old (emitVarInit_ht cfg c init h)
  | .block ss, lc, td, ex, nr, hl, h, he => by simp only [emit2]; exact emitL2_ht cfg ss lc td ex _ _ _ hl h he
  | .ifS t a, lc, td, ex, nr, hl, h, he => by
    simp only [emit2]
    refine H2.seq (h2_clr nr h) ?_
    split
    · exact H2.old (emitThrow_ht _ _ _)
    · exact emit2_ht cfg a lc td ex nr hl h he
    · exact h2_clr nr h
    · refine H2.seq (H2.old ((emitG_disc cfg t).1 h)) ?_
      cases nr
      · simp only [Bool.false_eq_true, if_false]
        exact h2_fwd_jneP (emit2_ht cfg a lc td ex false hl h he)
      · simp only [if_true]
        exact h2_ifElse_jneP (emit2_ht cfg a lc td ex true hl h he) (h2_clr true h)
  | .ifElse t a b, lc, td, ex, nr, hl, h, he => by
    simp only [emit2]
    refine H2.seq (h2_clr nr h) ?_
    split
    · exact H2.old (emitThrow_ht _ _ _)
    · exact emit2_ht cfg a lc td ex nr hl h he
    · exact emit2_ht cfg b lc td ex nr hl h he
    · exact H2.seq (H2.old ((emitG_disc cfg t).1 h)) (h2_ifElse_jneP (emit2_ht cfg a lc td ex nr hl h he) (emit2_ht cfg b lc td ex nr hl h he))
  | .whileS t body, lc, td, ex, nr, hl, h, he => by
    have hb : H2 (some h) (some h) (.seq (.old (clr nr)) (emit2 cfg (some nr) td [] body nr)) h h :=
      H2.seq (h2_clr nr h) (emit2_ht cfg body (some nr) td [] nr h h rfl)
    simp only [emit2]
    refine H2.seq (h2_clr nr h) ?_
    split
    · exact H2.old (emitThrow_ht _ _ _)
    · exact H2.nil
    · exact H2.forever hb HasHt.nil
    · exact h2_loop_jneP ((emitG_disc cfg t).1 h) hb HasHt.nil
  | .doWhile body t, lc, td, ex, nr, hl, h, he => by
    have hb : H2 (some h) (some h) (.seq (.old (clr nr)) (emit2 cfg (some nr) td [] body nr)) h h :=
      H2.seq (h2_clr nr h) (emit2_ht cfg body (some nr) td [] nr h h rfl)
    simp only [emit2]
    exact h2_doLoop_jeqP hb (emitE_t cfg t h)
  | .forS init test update body, lc, td, ex, nr, hl, h, he => by
    have hb : H2 (some h) (some h) (.seq (.old (clr nr)) (emit2 cfg (some nr) td [] body nr)) h h :=
      H2.seq (h2_clr nr h) (emit2_ht cfg body (some nr) td [] nr h h rfl)
    simp only [emit2]
    refine H2.seq (H2.old (emitForInit_ht cfg init h)) (H2.seq (h2_clr nr h) ?_)
    cases test with
    | none => exact H2.forever hb (optG_ht cfg update h)
    | some t =>
      simp only
      split
      · exact H2.old (emitThrow_ht _ _ _)
      · exact H2.nil
      · exact H2.forever hb (optG_ht cfg update h)
      · exact h2_loop_jneP ((emitG_disc cfg t).1 h) hb (optG_ht cfg update h)
  | .ret none, lc, td, ex, nr, hl, h, he => by
    simp only [emit2]
    exact H2.old (HasHt.seq (HasHt.ins' (i := iLoadUndef) (k := h + 1) (by simp [iLoadUndef, push1]) (by simp [iLoadUndef, push1])
      (by simp [iLoadUndef, push1]) (by simp [iLoadUndef, push1])) (HasHt.seq (retUnwind_ht td h) (term1_ht h h rfl rfl rfl)))
  | .ret (some e), lc, td, ex, nr, hl, h, he => by
    simp only [emit2]
    exact H2.old (HasHt.seq (emitE_t cfg e h) (HasHt.seq (retUnwind_ht td h) (term1_ht h h rfl rfl rfl)))
  | .throwS e, lc, td, ex, nr, hl, h, he => by simp only [emit2]; exact H2.old (emitS_ht cfg (.throwS e) nr h)
  | .brk, lc, td, ex, _, hl, h, he => by
    cases lc with
    | none => simp only [emit2]; exact h2_dead h h
    | some b => subst he; simp only [emit2, ctx, Option.map]; exact H2.seq (H2.old (exitCode_ht ex hl)) H2.brk
  | .cont, lc, td, ex, _, hl, h, he => by
    cases lc with
    | none => simp only [emit2]; exact h2_dead h h
    | some b => subst he; simp only [emit2, ctx, Option.map]; exact H2.seq (H2.old (exitCode_ht ex hl)) H2.cont
  | .tryCatch pm b c, lc, td, ex, nr, hl, h, he => by
    simp only [emit2]
    refine H2.tryC (emitL2_ht cfg b lc _ (false :: ex) _ _ _ hl h he) ?_ H2.nil
    cases pm
    · exact emitL2_ht cfg c lc _ (false :: ex) _ _ _ hl _ (by simpa [slots] using he)
    · exact emitL2_ht cfg c lc _ (true :: false :: ex) _ _ _ hl _ (by simp [slots, he]; omega)
  | .tryFinally b f, lc, td, ex, nr, hl, h, he => by
    simp only [emit2]
    exact H2.tryC (pm := false) (emitL2_ht cfg b lc _ (false :: ex) _ _ _ hl h he) H2.nil
      (H2.seq (h2_clr _ h) (emitL2_ht cfg f lc _ (false :: ex) _ _ _ hl h he))
  | .tryCatchFinally pm b c f, lc, td, ex, nr, hl, h, he => by
    simp only [emit2]
    refine H2.tryC (emitL2_ht cfg b lc _ (false :: ex) _ _ _ hl h he) ?_
      (H2.seq (h2_clr _ h) (emitL2_ht cfg f lc _ (false :: ex) _ _ _ hl h he))
    cases pm
    · exact emitL2_ht cfg c lc _ (false :: ex) _ _ _ hl _ (by simpa [slots] using he)
    · exact emitL2_ht cfg c lc _ (true :: false :: ex) _ _ _ hl _ (by simp [slots, he]; omega)
theorem emitL2_ht (cfg : Cfg) : (ss : SS2) → ∀ (lc : Option Bool) (td : Nat) (ex : List Bool) (nrMode : Bool) (lp : Option Nat)
    (i hl h : Nat), h = hl + slots ex → H2 (ctx lc hl) (ctx lc hl) (emitL2 cfg lc td ex ss nrMode lp i) h h
  | .nil, lc, _, _, _, _, _, _, h, _ => by simp only [emitL2]; exact H2.nil
  | .cons s r, lc, td, ex, nrMode, lp, i, hl, h, he => by
    simp only [emitL2]
    split
    · exact H2.seq (emit2_ht cfg s lc td ex false hl h he) (emitL2_ht cfg r lc td ex false lp (i + 1) hl h he)
    · cases lp with
      | none =>
        simp only
        split
        · exact emit2_ht cfg s lc td ex _ hl h he
        · exact H2.seq (emit2_ht cfg s lc td ex _ hl h he) (emitL2_ht cfg r lc td ex true none (i + 1) hl h he)
      | some l =>
        simp only
        split
        · exact emit2_ht cfg s lc td ex _ hl h he
        · exact H2.seq (emit2_ht cfg s lc td ex _ hl h he) (emitL2_ht cfg r lc td ex true (some l) (i + 1) hl h he)
end

end GojaModel.C01
