/-
  C01 — scope analysis: which scopes own a stash at run time, and the stash-level arithmetic of
  `scope.finaliseVarAlloc` (compiler.go:619 ff).

  Three host crashes found by this property (anonymous class body / empty block marked by a direct eval, deleted class
  name binding, strict function body with eval) were all the same mistake: the compiler COUNTED a scope as a stash level
  from its flags while the VM CREATED no stash for it (or vice versa), so `loadStash(level, idx)` walked to the wrong
  stash and indexed past its end.  This file transcribes both sides and proves they agree:

    compile time  `hasStash`      (compiler.go:909, used by the level loops compiler.go:636 / :726)
    run time      `createsStash`  per scope kind:
        block      enterBlock.exec  vm.go:3660 creates a stash iff stashSize > 0; stashSize from updateEnterBlock
                   compiler_stmt.go:87 (all bindings if dynLookup, else the bindings marked inStash)
        catch      enterCatchBlock.exec vm.go:3684 always (only used when dynLookup or the parameter is in the stash)
        func       compiledFunctionLiteral.compile compiler_expr.go:1630: enterFunc / enterFunc1 (always a stash) iff
                   stashSize > 0 || argsInStash, else enterFuncStashless; a dynamic scope moves its arguments to the stash
        funcBody   enterFuncBody.exec vm.go:3879: stashSize > 0 || extensible || dynLookup
        with       enterWith: always (object stash)
        clsInit    compileFieldsAndStaticBlocks compiler_expr.go:2207: enterFunc iff stashSize > 0
-/
namespace GojaModel.C01.Scope

inductive SKind
  | block | catchStash | func | funcBody | with_ | clsInit
deriving DecidableEq, Repr

/-- A scope after compilation, reduced to what decides stash ownership. -/
structure Scope where
  kind : SKind
  dynamic : Bool       -- with-scope, or the variable scope of sloppy code containing a direct eval
  dynLookup : Bool     -- some inner scope contains a direct eval
  needStash : Bool     -- set by moveToStash / moveArgsToStash (never reset)
  argsInStash : Bool
  isVarScope : Bool
  isFuncType : Bool    -- funcType != funcNone
  nBindings : Nat      -- bindings left after deleteBinding
  nInStash : Nat       -- of which marked inStash
deriving DecidableEq, Repr

def Scope.isDynamic (s : Scope) : Bool := s.dynLookup || s.dynamic

/-- `scope.hasStash` (compiler.go:909) for a scope that is not the outermost one; decision structure tied to the
regenerated `Gen.hasStashGen` in Tie.lean. -/
def hasStashD (dynamic dynLookup isFuncType outerNil isVarScope hasBindings needStash argsInStash anyInStash : Bool) : Bool :=
  if dynamic then true
  else if dynLookup then (isFuncType || outerNil || isVarScope || hasBindings)
  else if needStash then (if argsInStash then true else if anyInStash then true else false)
  else false

def hasStash (s : Scope) : Bool :=
  hasStashD s.dynamic s.dynLookup s.isFuncType false s.isVarScope (decide (0 < s.nBindings)) s.needStash s.argsInStash
    (decide (0 < s.nInStash))

/-- the size the compiler gives the scope's stash (finaliseVarAlloc: all bindings of a dynamic scope live in the stash) -/
def stashSize (s : Scope) : Nat := if s.isDynamic then s.nBindings else s.nInStash

/-- does the VM create a stash when it enters the scope? -/
def createsStash (s : Scope) : Bool :=
  match s.kind with
  | .block => decide (0 < stashSize s)
  | .catchStash => true
  | .func => decide (0 < stashSize s) || s.argsInStash || s.isDynamic
  | .funcBody => decide (0 < stashSize s) || s.dynamic || s.isDynamic
  | .with_ => true
  | .clsInit => decide (0 < stashSize s)

/-- Invariants the compiler maintains (each with its source). -/
structure WF (s : Scope) : Prop where
  inStash_le : s.nInStash ≤ s.nBindings
  /-- moveToStash / moveArgsToStash set needStash together with inStash / argsInStash (compiler.go:283, :830) -/
  needs : (0 < s.nInStash ∨ s.argsInStash = true) → s.needStash = true
  /-- only function scopes move arguments -/
  args_func : s.argsInStash = true → s.kind = .func
  /-- scope.dynamic is set on with-scopes (compiler_stmt.go:1006) and on the variable scope of sloppy eval code
      (compiler_expr.go:3079: the first scope that is `variable` or a function) -/
  dyn_kind : s.dynamic = true → s.kind = .with_ ∨ s.kind = .func ∨ s.kind = .funcBody
  with_dyn : s.kind = .with_ → s.dynamic = true
  func_ft : (s.kind = .func ∨ s.kind = .clsInit) → s.isFuncType = true
  body_var : s.kind = .funcBody → s.isVarScope = true
  /-- ordinary block / catch scopes are neither function nor variable scopes (the variable block scope that strict eval
      code opens for itself, compiler.go:925, never lies BETWEEN an access and the owner of a binding and is not modelled) -/
  blk_plain : (s.kind = .block ∨ s.kind = .catchStash) → s.isFuncType = false ∧ s.isVarScope = false
  /-- a catch scope that uses enterCatchBlock has its parameter binding, in the stash or dynamically looked up
      (compiler_stmt.go:167) -/
  catch_ok : s.kind = .catchStash → 0 < s.nBindings ∧ (s.dynLookup = true ∨ 0 < s.nInStash)
  /-- the class-initialiser function keeps its `this` binding when the scope is dynamic (compiler_expr.go:2200) -/
  cls_this : s.kind = .clsInit → s.isDynamic = true → 0 < s.nBindings

/-- The two sides agree: a scope is counted as a stash level exactly when the VM creates a stash for it. -/
theorem hasStash_eq_createsStash (s : Scope) (w : WF s) : hasStash s = createsStash s := by
  obtain ⟨kind, dynamic, dynLookup, needStash, argsInStash, isVarScope, isFuncType, nB, nS⟩ := s
  have h1 := w.inStash_le
  have h2 := w.needs
  have h3 := w.args_func
  have h4 := w.dyn_kind
  have h5 := w.with_dyn
  have h6 := w.func_ft
  have h7 := w.body_var
  have h8 := w.catch_ok
  have h9 := w.cls_this
  have h10 := w.blk_plain
  simp only at h1 h2 h3 h4 h5 h6 h7 h8 h9 h10
  cases kind <;> cases dynamic <;> cases dynLookup <;> cases needStash <;> cases argsInStash <;> cases isVarScope <;>
    cases isFuncType <;>
    simp [hasStash, hasStashD, createsStash, stashSize, Scope.isDynamic] at h2 h3 h4 h5 h6 h7 h8 h9 h10 ⊢ <;>
    omega

/-! ### levels along a scope chain -/

/-- `level` as computed by finaliseVarAlloc (compiler.go:636): the scopes strictly between the scope of the access and
the scope that owns the binding, innermost first. -/
def level (chain : List Scope) : Nat := (chain.filter hasStash).length

/-- the stashes that exist at run time for those scopes, innermost first (each given by its size) -/
def rtStashes (chain : List Scope) : List Nat :=
  chain.filterMap (fun s => if createsStash s then some (stashSize s) else none)

theorem rtStashes_length (chain : List Scope) (w : ∀ s ∈ chain, WF s) : (rtStashes chain).length = level chain := by
  induction chain with
  | nil => rfl
  | cons s rest ih =>
    have hs := hasStash_eq_createsStash s (w s (List.mem_cons_self))
    have ih' := ih (fun t ht => w t (List.mem_cons_of_mem _ ht))
    unfold rtStashes level at *
    cases hc : createsStash s <;> simp [List.filterMap_cons, List.filter_cons, hs, hc] <;> omega

/-- Every emitted stash access addresses an existing slot: walking `level chain` stashes outwards from the stash
chain of the access point arrives at the stash of the scope that owns the binding (`target`), and the binding's index
is inside it.  `outerRest` = whatever stashes lie further out. -/
theorem stash_access_in_bounds (chain : List Scope) (owner : Scope) (outerRest : List Nat) (idx : Nat)
    (w : ∀ s ∈ chain, WF s) (wo : WF owner)
    (hidx : idx < stashSize owner)          -- stashIdx enumerates the owner's stash bindings (compiler.go:627)
    : ∃ sz, (rtStashes chain ++ rtStashes [owner] ++ outerRest)[level chain]? = some sz ∧ idx < sz := by
  have hlen := rtStashes_length chain w
  -- the owner creates a stash because it has a stash binding
  have hown : createsStash owner = true := by
    rw [← hasStash_eq_createsStash owner wo]
    obtain ⟨kind, dynamic, dynLookup, needStash, argsInStash, isVarScope, isFuncType, nB, nS⟩ := owner
    have h1 := wo.inStash_le
    have h2 := wo.needs
    have h4 := wo.dyn_kind
    have h6 := wo.func_ft
    have h7 := wo.body_var
    simp only at h1 h2 h4 h6 h7
    simp only [stashSize, Scope.isDynamic] at hidx
    cases dynamic <;> cases dynLookup <;> cases needStash <;> cases argsInStash <;> cases isVarScope <;>
      cases isFuncType <;> cases kind <;>
      simp_all [hasStash, hasStashD] <;> omega
  refine ⟨stashSize owner, ?_, hidx⟩
  have : rtStashes [owner] = [stashSize owner] := by simp [rtStashes, hown]
  rw [this, List.append_assoc, List.getElem?_append_right (by omega)]
  simp [hlen]

end GojaModel.C01.Scope
