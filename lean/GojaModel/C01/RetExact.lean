import GojaModel.C01.StmtProof
/-!
  C01 (a), function-level leaks: inside the modelled fragment every `ret` is executed with exactly one operand — the
  return value — above the height at which the function body was entered.  (`verify` cannot see an operand left behind on a
  loop-free path to a `ret`, because `ret` resets sp.)

  1. `Code.noRet`: the code of every expression contains no `ret` (structural induction over the mutual AST).
  2. `HasHtR r`: the height judgement `HasHt` with the extra premise, at terminal instructions, that a `ret` sits at height
     `r`; `HasHtR.of_noRet` lifts every `HasHt` fact about ret-free code; `HasHtR.sound`: the executable walk
     `Code.retsAt` (which follows `Code.height`) confirms it.
  3. `emitS_htR`: every statement entered at `h` satisfies `HasHtR (h + 1)`.
-/
namespace GojaModel.C01

/-- `ret`: the terminal instruction that leaves a value (see `iRet`); throws leave none. -/
def Instr.isRet (i : Instr) : Bool := i.term && i.pushes == 1

def Code.noRet : Code → Bool
  | .nil => true
  | .ins i => !i.isRet
  | .seq a b => a.noRet && b.noRet
  | .fwd _ b => b.noRet
  | .ifElse _ a b => a.noRet && b.noRet
  | .loop _ p b => p.noRet && b.noRet
  | .forever b => b.noRet
  | .doLoop _ b => b.noRet

macro "nr_simp" : tactic => `(tactic|
  simp (config := { decide := true }) [Code.noRet, Instr.isRet, cat, onlyIf, popUnless, push1, op11, op21, op20, op31, op30, op12, op22, op00,
    iPop, iDup, iKeep1, iThrow, iThrowAssignToConst, iRdupN, iDupLast, iCall, iNew, iConcat, iLoadVal, iLoadUndef, iDead, *])

theorem noRet_emitThrow (m : Bool) : (emitThrow m).noRet = true := by
  cases m <;> simp only [emitThrow] <;> nr_simp

theorem noRet_foldOr {e : Expr} {p : Bool} {g : Code} (hg : g.noRet = true) : (foldOr e p g).noRet = true := by
  unfold foldOr
  split
  · split
    · cases p <;> nr_simp
    · exact noRet_emitThrow _
  · exact hg

theorem noRet_popUnless (p : Bool) : (popUnless p).noRet = true := by cases p <;> nr_simp

theorem noRet_emitIdentGet (c : IdClass) (p : Bool) : (emitIdentGet c p).noRet = true := by
  cases c <;> cases p <;> simp only [emitIdentGet] <;> nr_simp

theorem noRet_emitBindingSet (cfg : Cfg) (c : IdClass) (p : Bool) : (emitBindingSet cfg c p).noRet = true := by
  cases c <;> cases p <;> simp only [emitBindingSet] <;> (try split) <;> (try split) <;> nr_simp

theorem noRet_emitVarRef (cfg : Cfg) (c : IdClass) : (emitVarRef cfg c).noRet = true := by
  cases c <;> simp only [emitVarRef] <;> nr_simp

theorem noRet_emitVarSetter1 (cfg : Cfg) (c : IdClass) (p : Bool) {right : Bool → Code}
    (hr : ∀ b, (right b).noRet = true) : (emitVarSetter1 cfg c p right).noRet = true := by
  unfold emitVarSetter1
  have h1 := noRet_emitVarRef cfg c
  have h2 := noRet_emitBindingSet cfg c p
  have h3 := hr true
  have h4 := hr false
  split <;> cases p <;> nr_simp

theorem noRet_incBody (inc : Bool) : (incBody inc).noRet = true := by cases inc <;> simp only [incBody] <;> nr_simp
theorem noRet_prepNum : prepNum.noRet = true := by simp only [prepNum]; nr_simp

theorem noRet_emitUnaryId (cfg : Cfg) (c : IdClass) (p post : Bool) {prep body : Code}
    (hp : prep.noRet = true) (hb : body.noRet = true) : (emitUnaryId cfg c p post prep body).noRet = true := by
  have hi := noRet_emitIdentGet c true
  unfold emitUnaryId
  cases p
  · simp only [Bool.false_eq_true, if_false]
    apply noRet_emitVarSetter1
    intro b
    cases b <;> nr_simp
  · simp only [if_true]
    have : (emitVarSetter1 cfg c true (fun isRef =>
      cat [.ins iLoadUndef, (if isRef then .ins (push1 "_getValue") else emitIdentGet c true), prep,
           (if post then .nil else body), .ins (iRdupN 1), (if post then body else .nil)])).noRet = true := by
      apply noRet_emitVarSetter1
      intro b
      cases b <;> cases post <;> nr_simp
    simp only [Code.noRet, this, Bool.true_and]
    nr_simp

theorem noRet_emitUnaryDot (cfg : Cfg) (p post : Bool) {gl prep body : Code}
    (hl : gl.noRet = true) (hp : prep.noRet = true) (hb : body.noRet = true) :
    (emitUnaryDot cfg p post gl prep body).noRet = true := by
  unfold emitUnaryDot
  cases p <;> cases post <;> nr_simp

theorem noRet_emitUnaryIndex (cfg : Cfg) (p post : Bool) {gl gm prep body : Code}
    (hl : gl.noRet = true) (hm : gm.noRet = true) (hp : prep.noRet = true) (hb : body.noRet = true) :
    (emitUnaryIndex cfg p post gl gm prep body).noRet = true := by
  unfold emitUnaryIndex
  cases p <;> cases post <;> nr_simp

theorem noRet_emitAssignLog (op : LogOp) (p : Bool) {ref right : Code}
    (hr : ref.noRet = true) (hv : right.noRet = true) : (emitAssignLog op p ref right).noRet = true := by
  unfold emitAssignLog
  cases p <;> nr_simp

mutual
theorem emitG_noRet (cfg : Cfg) : (e : Expr) → ∀ p, (emitG cfg e p).noRet = true
  | .lit _, p => by cases p <;> simp only [emitG] <;> nr_simp
  | .ident c _, p => by simp only [emitG]; exact noRet_emitIdentGet c p
  | .this, p => by cases p <;> simp only [emitG] <;> nr_simp
  | .unary op e, p => by
    have h1 := emitG_noRet cfg e true
    have h2 := emitG_noRet cfg e false
    have f1 := noRet_foldOr (e := e) (p := true) h1
    have f2 := noRet_foldOr (e := e) (p := false) h2
    cases op <;> cases p <;> simp only [emitG] <;> nr_simp
  | .typeofId c _, p => by
    have hi := noRet_emitIdentGet c true
    cases c <;> cases p <;> simp only [emitG] <;> nr_simp
  | .deleteId c _, p => by cases c <;> cases p <;> simp only [emitG] <;> nr_simp
  | .deleteDot l _, p => by
    have h1 := emitG_noRet cfg l true
    cases p <;> simp only [emitG] <;> nr_simp
  | .deleteIndex l m, p => by
    have h1 := emitG_noRet cfg l true
    have h2 := emitG_noRet cfg m true
    cases p <;> simp only [emitG] <;> nr_simp
  | .deleteCall e, p => by
    have h1 := emitG_noRet cfg e false
    cases p <;> simp only [emitG] <;> nr_simp
  | .deleteOther _, p => by cases p <;> simp only [emitG] <;> nr_simp
  | .updateId inc post c _, p => by
    simp only [emitG]; exact noRet_emitUnaryId cfg c p post noRet_prepNum (noRet_incBody inc)
  | .updateDot inc post l _, p => by
    simp only [emitG]; exact noRet_emitUnaryDot cfg p post (emitG_noRet cfg l true) noRet_prepNum (noRet_incBody inc)
  | .updateIndex inc post l m, p => by
    simp only [emitG]
    exact noRet_emitUnaryIndex cfg p post (emitG_noRet cfg l true) (emitG_noRet cfg m true) noRet_prepNum (noRet_incBody inc)
  | .binary op l r, p => by
    have f1 := noRet_foldOr (e := l) (p := true) (emitG_noRet cfg l true)
    have f2 := noRet_foldOr (e := r) (p := true) (emitG_noRet cfg r true)
    cases p <;> simp only [emitG] <;> nr_simp
  | .logical op l r, p => by
    have h1 := emitG_noRet cfg l true
    have f1 := noRet_foldOr (e := l) (p := true) h1
    have f2 := noRet_foldOr (e := r) (p := true) (emitG_noRet cfg r true)
    have f3 := noRet_foldOr (e := r) (p := p) (emitG_noRet cfg r p)
    simp only [emitG]
    split
    · split
      · split
        · cases p <;> nr_simp
        · exact f3
      · exact noRet_emitThrow _
    · cases op <;> cases p <;> nr_simp
  | .cond t a b, p => by
    have h1 := emitG_noRet cfg t true
    have h2 := emitG_noRet cfg a p
    have h3 := emitG_noRet cfg b p
    simp only [emitG]; nr_simp
  | .comma a b, p => by
    have h1 := emitG_noRet cfg a false
    have h2 := emitG_noRet cfg b p
    simp only [emitG]; nr_simp
  | .assignId c _ r, p => by
    have f2 := noRet_foldOr (e := r) (p := true) (emitG_noRet cfg r true)
    simp only [emitG]
    exact noRet_emitVarSetter1 cfg c p (fun _ => f2)
  | .assignDot l _ r, p => by
    have h1 := emitG_noRet cfg l true
    have h2 := emitG_noRet cfg r true
    cases p <;> simp only [emitG] <;> nr_simp
  | .assignIndex l m r, p => by
    have h1 := emitG_noRet cfg l true
    have h2 := emitG_noRet cfg m true
    have h3 := emitG_noRet cfg r true
    cases p <;> simp only [emitG] <;> nr_simp
  | .assignOpId op c _ r, p => by
    have h3 := emitG_noRet cfg r true
    simp only [emitG]
    exact noRet_emitUnaryId cfg c p false (by nr_simp) (by nr_simp)
  | .assignOpDot op l _ r, p => by
    have h3 := emitG_noRet cfg r true
    simp only [emitG]
    exact noRet_emitUnaryDot cfg p false (emitG_noRet cfg l true) (by nr_simp) (by nr_simp)
  | .assignOpIndex op l m r, p => by
    have h3 := emitG_noRet cfg r true
    simp only [emitG]
    exact noRet_emitUnaryIndex cfg p false (emitG_noRet cfg l true) (emitG_noRet cfg m true) (by nr_simp) (by nr_simp)
  | .assignLogId op c _ r, p => by
    simp only [emitG]
    exact noRet_emitAssignLog op p (noRet_emitVarRef cfg c) (noRet_foldOr (emitG_noRet cfg r true))
  | .assignLogDot op l _ r, p => by
    have h1 := emitG_noRet cfg l true
    simp only [emitG]
    exact noRet_emitAssignLog op p (by nr_simp) (emitG_noRet cfg r true)
  | .assignLogIndex op l m r, p => by
    have h1 := emitG_noRet cfg l true
    have h2 := emitG_noRet cfg m true
    simp only [emitG]
    exact noRet_emitAssignLog op p (by nr_simp) (emitG_noRet cfg r true)
  | .dot e _, p => by
    have h1 := emitG_noRet cfg e true
    cases p <;> simp only [emitG] <;> nr_simp
  | .index e m, p => by
    have h1 := emitG_noRet cfg e true
    have h2 := emitG_noRet cfg m true
    cases p <;> simp only [emitG] <;> nr_simp
  | .callDot l _ a, p => by
    have h1 := emitG_noRet cfg l true
    have h2 := emitArgs_noRet cfg a
    cases p <;> simp only [emitG] <;> nr_simp
  | .callIndex l m a, p => by
    have h1 := emitG_noRet cfg l true
    have h2 := emitG_noRet cfg m true
    have h3 := emitArgs_noRet cfg a
    cases p <;> simp only [emitG] <;> nr_simp
  | .callId c _ a, p => by
    have hi := noRet_emitIdentGet c true
    have h3 := emitArgs_noRet cfg a
    cases c <;> cases p <;> simp only [emitG] <;> nr_simp
  | .callOther f a, p => by
    have h1 := emitG_noRet cfg f true
    have h3 := emitArgs_noRet cfg a
    cases p <;> simp only [emitG] <;> nr_simp
  | .new f a, p => by
    have h1 := emitG_noRet cfg f true
    have h3 := emitArgs_noRet cfg a
    cases p <;> simp only [emitG] <;> nr_simp
  | .array els, p => by
    have h3 := emitElems_noRet cfg els
    cases p <;> simp only [emitG] <;> nr_simp
  | .object ps, p => by
    have h3 := emitProps_noRet cfg ps
    cases p <;> simp only [emitG] <;> nr_simp
  | .template head first rest tail, p => by
    have h1 := emitG_noRet cfg first true
    have h3 := emitQuasis_noRet cfg rest
    cases p <;> cases head <;> cases tail <;> simp only [emitG] <;> nr_simp
theorem emitArgs_noRet (cfg : Cfg) : (a : Args) → (emitArgs cfg a).noRet = true
  | .nil => by simp only [emitArgs]; nr_simp
  | .cons e rest => by
    have h1 := emitG_noRet cfg e true
    have h2 := emitArgs_noRet cfg rest
    simp only [emitArgs]; nr_simp
theorem emitElems_noRet (cfg : Cfg) : (els : Elems) → (emitElems cfg els).noRet = true
  | .nil => by simp only [emitElems]; nr_simp
  | .hole rest => by
    have h2 := emitElems_noRet cfg rest
    simp only [emitElems]; nr_simp
  | .cons e rest => by
    have f1 := noRet_foldOr (e := e) (p := true) (emitG_noRet cfg e true)
    have h2 := emitElems_noRet cfg rest
    simp only [emitElems]; nr_simp
theorem emitProps_noRet (cfg : Cfg) : (ps : Props) → (emitProps cfg ps).noRet = true
  | .nil => by simp only [emitProps]; nr_simp
  | .keyed _ v rest => by
    have f1 := noRet_foldOr (e := v) (p := true) (emitG_noRet cfg v true)
    have h2 := emitProps_noRet cfg rest
    simp only [emitProps]; nr_simp
  | .computed k v rest => by
    have h1 := emitG_noRet cfg k true
    have f1 := noRet_foldOr (e := v) (p := true) (emitG_noRet cfg v true)
    have h2 := emitProps_noRet cfg rest
    simp only [emitProps]
    split <;> nr_simp
theorem emitQuasis_noRet (cfg : Cfg) : (q : Quasis) → (emitQuasis cfg q).noRet = true
  | .nil => by simp only [emitQuasis]; nr_simp
  | .cons ne e rest => by
    have h1 := emitG_noRet cfg e true
    have h2 := emitQuasis_noRet cfg rest
    cases ne <;> simp only [emitQuasis] <;> nr_simp
end

/-! ### the judgement with exact `ret` heights -/

/-- `HasHtR r c h k`: `HasHt c h k`, and every `ret` instruction of `c` that is executed is executed with exactly `r`
operands (above the same base as `h`). -/
inductive HasHtR (r : Nat) : Code → Nat → Nat → Prop
  | nil {h} : HasHtR r .nil h h
  | ins {i : Instr} {h} : i.need ≤ h → i.pops ≤ i.need → i.term = false → HasHtR r (.ins i) h (h - i.pops + i.pushes)
  | term {i : Instr} {h k} : i.need ≤ h → i.pops ≤ i.need → i.term = true → (i.isRet = true → h = r) →
      HasHtR r (.ins i) h k
  | seq {a b h k1 k2} : HasHtR r a h k1 → HasHtR r b k1 k2 → HasHtR r (.seq a b) h k2
  | fwd {j : JKind} {body h} : j.need ≤ h → j.popJump ≤ j.need → j.popFall ≤ j.need →
      HasHtR r body (h - j.popFall) (h - j.popJump) → HasHtR r (.fwd j body) h (h - j.popJump)
  | ifElse {j : JKind} {a b h k} : j.need ≤ h → j.popJump ≤ j.need → j.popFall ≤ j.need →
      HasHtR r a (h - j.popFall) k → HasHtR r b (h - j.popJump) k → HasHtR r (.ifElse j a b) h k
  | loop {j : JKind} {pre body h k1} : HasHtR r pre h k1 → j.need ≤ k1 → j.popJump ≤ j.need → j.popFall ≤ j.need →
      HasHtR r body (k1 - j.popFall) h → HasHtR r (.loop j pre body) h (k1 - j.popJump)
  | forever {body h k} : HasHtR r body h h → HasHtR r (.forever body) h k
  | doLoop {j : JKind} {body h k1} : HasHtR r body h k1 → j.need ≤ k1 → j.popJump ≤ j.need → j.popFall ≤ j.need →
      k1 - j.popJump = h → HasHtR r (.doLoop j body) h (k1 - j.popFall)

theorem HasHtR.conv {r c h k k'} (hh : HasHtR r c h k) (e : k = k') : HasHtR r c h k' := e ▸ hh

theorem HasHtR.toHasHt {r c h k} (hh : HasHtR r c h k) : HasHt c h k := by
  induction hh with
  | nil => exact HasHt.nil
  | ins h1 h2 h3 => exact HasHt.ins h1 h2 h3
  | term h1 h2 h3 _ => exact HasHt.term h1 h2 h3
  | seq _ _ iha ihb => exact HasHt.seq iha ihb
  | fwd h1 h2 h3 _ ih => exact HasHt.fwd h1 h2 h3 ih
  | ifElse h1 h2 h3 _ _ iha ihb => exact HasHt.ifElse h1 h2 h3 iha ihb
  | loop _ h1 h2 h3 _ iha ihb => exact HasHt.loop iha h1 h2 h3 ihb
  | forever _ ih => exact HasHt.forever ih
  | doLoop _ h1 h2 h3 h4 ih => exact HasHt.doLoop ih h1 h2 h3 h4

/-- code without `ret` instructions satisfies the judgement for any `r` -/
theorem HasHtR.of_noRet {r c h k} (hh : HasHt c h k) (hn : c.noRet = true) : HasHtR r c h k := by
  induction hh with
  | nil => exact HasHtR.nil
  | ins h1 h2 h3 => exact HasHtR.ins h1 h2 h3
  | @term i h k h1 h2 h3 =>
    refine HasHtR.term h1 h2 h3 ?_
    intro hr
    simp [Code.noRet, hr] at hn
  | seq _ _ iha ihb =>
    simp only [Code.noRet, Bool.and_eq_true] at hn
    exact HasHtR.seq (iha hn.1) (ihb hn.2)
  | fwd h1 h2 h3 _ ih =>
    simp only [Code.noRet] at hn
    exact HasHtR.fwd h1 h2 h3 (ih hn)
  | ifElse h1 h2 h3 _ _ iha ihb =>
    simp only [Code.noRet, Bool.and_eq_true] at hn
    exact HasHtR.ifElse h1 h2 h3 (iha hn.1) (ihb hn.2)
  | loop _ h1 h2 h3 _ iha ihb =>
    simp only [Code.noRet, Bool.and_eq_true] at hn
    exact HasHtR.loop (iha hn.1) h1 h2 h3 (ihb hn.2)
  | forever _ ih =>
    simp only [Code.noRet] at hn
    exact HasHtR.forever (ih hn)
  | doLoop _ h1 h2 h3 h4 ih =>
    simp only [Code.noRet] at hn
    exact HasHtR.doLoop (ih hn) h1 h2 h3 h4

/-- executable reading: walking the code with the executable height function, every live `ret` sits at height `r` -/
def Code.retsAt (r : Nat) : Code → Ht → Bool
  | .nil, _ => true
  | .ins _, .dead => true
  | .ins i, .live h => !i.isRet || h == r
  | .seq a b, x => a.retsAt r x && (match a.height x with
                                     | some y => b.retsAt r y
                                     | none => true)
  | .fwd _ _, .dead => true
  | .fwd j body, .live h => body.retsAt r (.live (h - j.popFall))
  | .ifElse _ _ _, .dead => true
  | .ifElse j a b, .live h => a.retsAt r (.live (h - j.popFall)) && b.retsAt r (.live (h - j.popJump))
  | .loop _ _ _, .dead => true
  | .loop j pre body, .live h =>
      pre.retsAt r (.live h) && (match pre.height (.live h) with
                                 | some (.live k1) => body.retsAt r (.live (k1 - j.popFall))
                                 | _ => true)
  | .forever _, .dead => true
  | .forever body, .live h => body.retsAt r (.live h)
  | .doLoop _ _, .dead => true
  | .doLoop _ body, .live h => body.retsAt r (.live h)

theorem retsAt_dead (r : Nat) (c : Code) : c.retsAt r .dead = true := by
  induction c with
  | nil => rfl
  | ins i => rfl
  | seq a b iha ihb => simp [Code.retsAt, iha, height_dead, ihb]
  | fwd j body _ => rfl
  | ifElse j a b _ _ => rfl
  | loop j pre body _ _ => rfl
  | forever body _ => rfl
  | doLoop j body _ => rfl

theorem HasHtR.sound {r c h k} (hh : HasHtR r c h k) : c.retsAt r (.live h) = true := by
  induction hh with
  | nil => rfl
  | @ins i h h1 h2 h3 => simp [Code.retsAt, Instr.isRet, h3]
  | @term i h k h1 h2 h3 h4 =>
    simp only [Code.retsAt]
    cases hr : i.isRet
    · simp
    · simp [h4 hr]
  | @seq a b h k1 k2 ha _ iha ihb =>
    simp only [Code.retsAt, iha, Bool.true_and]
    rcases ha.toHasHt.sound with hd | hl
    · simp [hd, retsAt_dead]
    · simp [hl, ihb]
  | fwd h1 h2 h3 _ ih => simpa [Code.retsAt] using ih
  | ifElse h1 h2 h3 _ _ iha ihb => simp [Code.retsAt, iha, ihb]
  | @loop j pre body h k1 hp h1 h2 h3 _ iha ihb =>
    simp only [Code.retsAt, iha, Bool.true_and]
    rcases hp.toHasHt.sound with hd | hl
    · simp [hd]
    · simp [hl, ihb]
  | forever _ ih => simpa [Code.retsAt] using ih
  | doLoop _ h1 h2 h3 h4 ih => simpa [Code.retsAt] using ih

/-! ### statements -/

theorem exprR_t (r : Nat) (cfg : Cfg) (e : Expr) (h : Nat) : HasHtR r (emitE cfg e true) h (h + 1) :=
  HasHtR.of_noRet (emitE_t cfg e h) (noRet_foldOr (emitG_noRet cfg e true))
theorem exprR_f (r : Nat) (cfg : Cfg) (e : Expr) (h : Nat) : HasHtR r (emitE cfg e false) h h :=
  HasHtR.of_noRet (emitE_f cfg e h) (noRet_foldOr (emitG_noRet cfg e false))
theorem getR_t (r : Nat) (cfg : Cfg) (e : Expr) (h : Nat) : HasHtR r (emitG cfg e true) h (h + 1) :=
  HasHtR.of_noRet ((emitG_disc cfg e).1 h) (emitG_noRet cfg e true)

theorem clrR (r : Nat) (nr : Bool) (h : Nat) : HasHtR r (clr nr) h h :=
  HasHtR.of_noRet (clr_ht nr h) (by cases nr <;> simp [clr, onlyIf, Code.noRet, Instr.isRet, iClearResult, op00])

theorem optGR (r : Nat) (cfg : Cfg) (o : Option Expr) (h : Nat) : HasHtR r (optG cfg o) h h :=
  HasHtR.of_noRet (optG_ht cfg o h) (by
    cases o
    · rfl
    · exact emitG_noRet cfg _ false)

theorem varInitR (r : Nat) (cfg : Cfg) (c : IdClass) (init : Expr) (h : Nat) : HasHtR r (emitVarInit cfg c init) h h :=
  HasHtR.of_noRet (emitVarInit_ht cfg c init h) (by
    have h1 := noRet_emitVarRef cfg c
    have h2 : (emitE cfg init true).noRet = true := noRet_foldOr (emitG_noRet cfg init true)
    unfold emitVarInit
    split <;> simp [cat, Code.noRet, Instr.isRet, iInitValueP, iInitStackP, h1, h2])

theorem forInitR (r : Nat) (cfg : Cfg) (i : ForInit) (h : Nat) : HasHtR r (emitForInit cfg i) h h := by
  cases i with
  | none => exact HasHtR.nil
  | expr e => exact HasHtR.of_noRet ((emitG_disc cfg e).2 h) (emitG_noRet cfg e false)
  | var0 => exact HasHtR.nil
  | varInit c e => exact varInitR r cfg c e h

theorem throwR (r : Nat) (m : Bool) (h k : Nat) : HasHtR r (emitThrow m) h k :=
  HasHtR.of_noRet (emitThrow_ht m h k) (noRet_emitThrow m)

theorem pop1R {r : Nat} {i : Instr} (h : Nat) (h1 : i.need = 1) (h2 : i.pops = 1) (h3 : i.pushes = 0) (h4 : i.term = false) :
    HasHtR r (.ins i) (h + 1) h :=
  HasHtR.of_noRet (pop1_ht h h1 h2 h3 h4) (by simp [Code.noRet, Instr.isRet, h4])

theorem ifElse_jnePR {r : Nat} {a b : Code} {h k : Nat} (ha : HasHtR r a h k) (hb : HasHtR r b h k) :
    HasHtR r (.ifElse jneP a b) (h + 1) k := by
  have e1 : h + 1 - jneP.popFall = h := by simp [jneP]
  have e2 : h + 1 - jneP.popJump = h := by simp [jneP]
  exact HasHtR.ifElse (by simp [jneP]) (by simp [jneP]) (by simp [jneP]) (e1 ▸ ha) (e2 ▸ hb)

theorem fwd_jnePR {r : Nat} {body : Code} {h : Nat} (hb : HasHtR r body h h) : HasHtR r (.fwd jneP body) (h + 1) h := by
  have e1 : h + 1 - jneP.popFall = h := by simp [jneP]
  have e2 : h + 1 - jneP.popJump = h := by simp [jneP]
  have hb' : HasHtR r body (h + 1 - jneP.popFall) (h + 1 - jneP.popJump) := by rw [e1, e2]; exact hb
  exact HasHtR.conv (HasHtR.fwd (by simp [jneP]) (by simp [jneP]) (by simp [jneP]) hb') e2

theorem loop_jnePR {r : Nat} {pre body : Code} {h : Nat} (hp : HasHtR r pre h (h + 1)) (hb : HasHtR r body h h) :
    HasHtR r (.loop jneP pre body) h h := by
  have e1 : h + 1 - jneP.popFall = h := by simp [jneP]
  have e2 : h + 1 - jneP.popJump = h := by simp [jneP]
  have hb' : HasHtR r body (h + 1 - jneP.popFall) h := by rw [e1]; exact hb
  exact HasHtR.conv (HasHtR.loop hp (by simp [jneP]) (by simp [jneP]) (by simp [jneP]) hb') e2

theorem doLoop_jeqPR {r : Nat} {body : Code} {h : Nat} (hb : HasHtR r body h (h + 1)) : HasHtR r (.doLoop jeqP body) h h := by
  have e1 : h + 1 - jeqP.popFall = h := by simp [jeqP]
  have e2 : h + 1 - jeqP.popJump = h := by simp [jeqP]
  exact HasHtR.conv (HasHtR.doLoop hb (by simp [jeqP]) (by simp [jeqP]) (by simp [jeqP]) e2) e1

/-- the `ret` instruction itself, entered with the return value on top of `h` operands -/
theorem retR (h k : Nat) : HasHtR (h + 1) (.ins iRet) (h + 1) k :=
  HasHtR.term (by simp [iRet]) (by simp [iRet]) rfl (fun _ => rfl)

theorem throwInsR (r h k : Nat) : HasHtR r (.ins iThrow) (h + 1) k :=
  HasHtR.term (by simp [iThrow]) (by simp [iThrow]) rfl (fun hr => by simp [Instr.isRet, iThrow] at hr)

mutual
theorem emitS_htR (cfg : Cfg) : (s : Stmt) → ∀ (nr : Bool) (h : Nat), HasHtR (h + 1) (emitS cfg s nr) h h
  | .expr e, nr, h => by
    cases nr
    · simp only [emitS, onlyIf, Bool.false_eq_true, if_false]
      exact HasHtR.seq (exprR_f _ cfg e h) HasHtR.nil
    · simp only [emitS, onlyIf, if_true]
      exact HasHtR.seq (exprR_t _ cfg e h) (pop1R h rfl rfl rfl rfl)
  | .empty, nr, h => by simp only [emitS]; exact clrR _ nr h
  | .varBare, _, h => by simp only [emitS]; exact HasHtR.nil
  | .varInit c init, _, h => by simp only [emitS]; exact varInitR _ cfg c init h
  | .block ss, nr, h => by simp only [emitS]; exact emitList_htR cfg ss _ _ h
  | .ifS t a, nr, h => by
    simp only [emitS]
    refine HasHtR.seq (clrR _ nr h) ?_
    split
    · exact throwR _ _ _ _
    · exact emitS_htR cfg a nr h
    · exact clrR _ nr h
    · refine HasHtR.seq (getR_t _ cfg t h) ?_
      cases nr
      · simp only [Bool.false_eq_true, if_false]
        exact fwd_jnePR (emitS_htR cfg a false h)
      · simp only [if_true]
        exact ifElse_jnePR (emitS_htR cfg a true h) (clrR _ true h)
  | .ifElse t a b, nr, h => by
    simp only [emitS]
    refine HasHtR.seq (clrR _ nr h) ?_
    split
    · exact throwR _ _ _ _
    · exact emitS_htR cfg a nr h
    · exact emitS_htR cfg b nr h
    · exact HasHtR.seq (getR_t _ cfg t h) (ifElse_jnePR (emitS_htR cfg a nr h) (emitS_htR cfg b nr h))
  | .whileS t body, nr, h => by
    simp only [emitS]
    refine HasHtR.seq (clrR _ nr h) ?_
    split
    · exact throwR _ _ _ _
    · exact HasHtR.nil
    · exact HasHtR.forever (HasHtR.seq (clrR _ nr h) (emitS_htR cfg body nr h))
    · exact loop_jnePR (getR_t _ cfg t h) (HasHtR.seq (clrR _ nr h) (emitS_htR cfg body nr h))
  | .doWhile body t, nr, h => by
    simp only [emitS, cat]
    exact doLoop_jeqPR (HasHtR.seq (clrR _ nr h) (HasHtR.seq (emitS_htR cfg body nr h)
      (HasHtR.seq (exprR_t _ cfg t h) HasHtR.nil)))
  | .forS init test update body, nr, h => by
    have hbody : HasHtR (h + 1) (cat [clr nr, emitS cfg body nr, optG cfg update]) h h := by
      simp only [cat]
      exact HasHtR.seq (clrR _ nr h) (HasHtR.seq (emitS_htR cfg body nr h) (HasHtR.seq (optGR _ cfg update h) HasHtR.nil))
    simp only [emitS]
    rw [show ∀ a b c, cat [a, b, c] = .seq a (.seq b (.seq c .nil)) from fun _ _ _ => rfl]
    refine HasHtR.seq (forInitR _ cfg init h) (HasHtR.seq (clrR _ nr h) (HasHtR.seq ?_ HasHtR.nil))
    cases test with
    | none => exact HasHtR.forever hbody
    | some t =>
      simp only
      split
      · exact throwR _ _ _ _
      · exact HasHtR.nil
      · exact HasHtR.forever hbody
      · exact loop_jnePR (getR_t _ cfg t h) hbody
  | .ret none, _, h => by
    simp only [emitS]
    exact HasHtR.seq (HasHtR.of_noRet (HasHt.ins' (i := iLoadUndef) (k := h + 1) (by simp [iLoadUndef, push1])
      (by simp [iLoadUndef, push1]) (by simp [iLoadUndef, push1]) (by simp [iLoadUndef, push1]))
      (by simp [Code.noRet, Instr.isRet, iLoadUndef, push1])) (retR h h)
  | .ret (some e), _, h => by
    simp only [emitS]
    exact HasHtR.seq (exprR_t _ cfg e h) (retR h h)
  | .throwS e, _, h => by
    simp only [emitS]
    exact HasHtR.seq (getR_t _ cfg e h) (throwInsR _ h h)
theorem emitList_htR (cfg : Cfg) : (ss : Stmts) → ∀ (lp : Option Nat) (i h : Nat), HasHtR (h + 1) (emitList cfg ss lp i) h h
  | .nil, _, _, h => by simp only [emitList]; exact HasHtR.nil
  | .cons s r, lp, i, h => by
    simp only [emitList]
    exact HasHtR.seq (emitS_htR cfg s _ h) (emitList_htR cfg r lp (i + 1) h)
end

end GojaModel.C01
