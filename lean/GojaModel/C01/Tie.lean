import GojaModel.C01.Model
import GojaModel.Generated.C01_StackEffects
import GojaModel.Generated.C01_PanicKinds
import GojaModel.Generated.C01_Scope
import GojaModel.Generated.C01_Stmt
import GojaModel.C01.Scope
/-!
  C01 tie: the facts regenerated from /repo on this run (Generated/C01_*.lean) against what the model assumes.
  A failing theorem here names the instruction / classifier whose Go source changed.
-/
namespace GojaModel.C01.Tie
open GojaModel.C01

/-- does a fixed-effect model instruction agree with a regenerated effect? (single fall-through path,
constant need and delta) -/
def agrees (i : Instr) (e : Eff) : Bool :=
  match e with
  | .paths need [⟨.next, sp⟩] =>
      need.coeff == 0 && need.const == (i.need : Int) && sp.coeff == 0 && sp.const == (i.pushes : Int) - i.pops && !i.term
  | .paths need [] => need.coeff == 0 && i.term && need.const ≤ (i.need : Int)
  | _ => false

/-- every straight-line instruction the emitter uses, paired with the regenerated effect of the goja
instruction(s) it stands for (several goja types per canonical name where the compiler patches variants). -/
def modelOps : List (Instr × Eff) := [
  (iLoadVal, Gen.eff_loadVal), (iLoadUndef, Gen.eff_UloadUndef), (iPop, Gen.eff_Upop), (iDup, Gen.eff_Udup),
  (push1 "loadStack", Gen.eff_loadStack), (push1 "loadStack", Gen.eff_loadStack1), (push1 "loadStack", Gen.eff_loadStash),
  (push1 "loadStackLex", Gen.eff_loadStackLex), (push1 "loadStackLex", Gen.eff_loadStack1Lex),
  (push1 "loadStackLex", Gen.eff_loadStashLex),
  (push1 "loadDynamic", Gen.eff_loadDynamic), (push1 "loadDynamicRef", Gen.eff_loadDynamicRef),
  (⟨"loadDynamicCallee", 0, 0, 0, 2, false⟩, Gen.eff_loadDynamicCallee),
  (push1 "deleteVar", Gen.eff_deleteVar), (push1 "_getValue", Gen.eff_UgetValue),
  (push1 "newArray", Gen.eff_newArray), (push1 "_newObject", Gen.eff_UnewObject), (push1 "_loadNil", Gen.eff_UloadNil),
  (iKeep1 "storeStack", Gen.eff_storeStack), (iKeep1 "storeStack", Gen.eff_storeStack1), (iKeep1 "storeStack", Gen.eff_storeStash),
  (iKeep1 "storeStackLex", Gen.eff_storeStackLex), (iKeep1 "storeStackLex", Gen.eff_storeStack1Lex),
  (iKeep1 "storeStackLex", Gen.eff_storeStashLex),
  (⟨"storeStackP", 0, 1, 1, 0, false⟩, Gen.eff_storeStackP), (⟨"storeStackP", 0, 1, 1, 0, false⟩, Gen.eff_storeStack1P),
  (⟨"storeStackP", 0, 1, 1, 0, false⟩, Gen.eff_storeStashP),
  (⟨"storeStackLexP", 0, 1, 1, 0, false⟩, Gen.eff_storeStackLexP), (⟨"storeStackLexP", 0, 1, 1, 0, false⟩, Gen.eff_storeStack1LexP),
  (⟨"storeStackLexP", 0, 1, 1, 0, false⟩, Gen.eff_storeStashLexP),
  (iKeep1 "_putValue", Gen.eff_UputValue), (⟨"_putValueP", 0, 1, 1, 0, false⟩, Gen.eff_UputValueP),
  (op00 "_popRef", Gen.eff_UpopRef), (op00 "resolveVar1", Gen.eff_resolveVar1), (op00 "resolveVar1Strict", Gen.eff_resolveVar1Strict),
  (op00 "resolveMixed", Gen.eff_resolveMixed), (op00 "resolveMixed", Gen.eff_resolveMixedStack),
  (op00 "resolveMixed", Gen.eff_resolveMixedStack1),
  (iThrowAssignToConst, Gen.eff_UthrowAssignToConst),
  (op11 "_neg", Gen.eff_Uneg), (op11 "_plus", Gen.eff_Uplus), (op11 "_not", Gen.eff_Unot), (op11 "_bnot", Gen.eff_Ubnot),
  (op11 "_typeof", Gen.eff_Utypeof), (op11 "_inc", Gen.eff_Uinc), (op11 "_dec", Gen.eff_Udec),
  (op11 "_toNumber", Gen.eff_UtoNumber), (op11 "_toString", Gen.eff_UtoString), (op11 "_toPropertyKey", Gen.eff_UtoPropertyKey),
  (op11 "getProp", Gen.eff_getProp), (op12 "getPropCallee", Gen.eff_getPropCallee),
  (op11 "deleteProp", Gen.eff_deleteProp), (op11 "deletePropStrict", Gen.eff_deletePropStrict),
  (op21 "_getElem", Gen.eff_UgetElem), (op22 "_getElemCallee", Gen.eff_UgetElemCallee),
  (op21 "_deleteElem", Gen.eff_UdeleteElem), (op21 "_deleteElemStrict", Gen.eff_UdeleteElemStrict),
  (op21 "setProp", Gen.eff_setProp), (op21 "setPropStrict", Gen.eff_setPropStrict),
  (op20 "setPropP", Gen.eff_setPropP), (op20 "setPropStrictP", Gen.eff_setPropStrictP),
  (op31 "_setElem", Gen.eff_UsetElem), (op31 "_setElemStrict", Gen.eff_UsetElemStrict),
  (op30 "_setElemP", Gen.eff_UsetElemP), (op30 "_setElemStrictP", Gen.eff_UsetElemStrictP),
  (op31 "_setElem1", Gen.eff_UsetElem1), (op21 "putProp", Gen.eff_putProp), (op21 "_pushArrayItem", Gen.eff_UpushArrayItem),
  (⟨"getPropRef", 0, 1, 1, 0, false⟩, Gen.eff_getPropRef), (⟨"getPropRefStrict", 0, 1, 1, 0, false⟩, Gen.eff_getPropRefStrict),
  (⟨"_getElemRef", 0, 2, 2, 0, false⟩, Gen.eff_UgetElemRef), (⟨"_getElemRefStrict", 0, 2, 2, 0, false⟩, Gen.eff_UgetElemRefStrict),
  (op21 "_add", Gen.eff_Uadd), (op21 "_sub", Gen.eff_Usub), (op21 "_mul", Gen.eff_Umul), (op21 "_div", Gen.eff_Udiv),
  (op21 "_mod", Gen.eff_Umod), (op21 "_exp", Gen.eff_Uexp), (op21 "_and", Gen.eff_Uand), (op21 "_or", Gen.eff_Uor),
  (op21 "_xor", Gen.eff_Uxor), (op21 "_sal", Gen.eff_Usal), (op21 "_sar", Gen.eff_Usar), (op21 "_shr", Gen.eff_Ushr),
  (op21 "_op_lt", Gen.eff_UopUlt), (op21 "_op_gt", Gen.eff_UopUgt), (op21 "_op_lte", Gen.eff_UopUlte),
  (op21 "_op_gte", Gen.eff_UopUgte), (op21 "_op_eq", Gen.eff_UopUeq), (op21 "_op_neq", Gen.eff_UopUneq),
  (op21 "_op_strict_eq", Gen.eff_UopUstrictUeq), (op21 "_op_strict_neq", Gen.eff_UopUstrictUneq),
  (op21 "_op_instanceof", Gen.eff_UopUinstanceof), (op21 "_op_in", Gen.eff_UopUin),
  -- statements
  (iSaveResult, Gen.eff_UsaveResult), (iClearResult, Gen.eff_UclearResult), (iInitValueP, Gen.eff_UinitValueP),
  (iInitStackP, Gen.eff_initStackP), (iInitStackP, Gen.eff_initStack1P), (iInitStackP, Gen.eff_initStashP)]

/-- TIE 1: the operand-stack effect of every fixed-effect instruction the emitter model uses equals the effect
regenerated from its `exec` method in vm.go. -/
theorem modelOps_agree : modelOps.all (fun x => agrees x.1 x.2) = true := by decide

/-- TIE 2: operand-dependent instructions, symbolically (operand `n`). -/
theorem tie_new : Gen.eff_Unew = .paths ⟨1, "n", 1⟩ [⟨.next, ⟨-1, "n", 0⟩⟩] := by decide
theorem tie_rdupN : Gen.eff_rdupN = .paths ⟨1, "n", 1⟩ [⟨.next, ⟨0, "", 0⟩⟩] := by decide
theorem tie_dupLast : Gen.eff_dupLast = .paths ⟨1, "n", 0⟩ [⟨.next, ⟨1, "n", 0⟩⟩] := by decide
theorem tie_concatStrings : Gen.eff_concatStrings = .paths ⟨1, "n", 0⟩ [⟨.next, ⟨-1, "n", 1⟩⟩] := by decide

/-- the model's parametric instructions are the instances of those symbolic forms (for every n) -/
theorem new_instance (n : Nat) :
    plainNode ((⟨1, "n", 1⟩ : LinE).eval [("n", n)]) [((⟨.next, ⟨-1, "n", 0⟩⟩ : PathE).edge [("n", n)])] = (iNew n).node := by
  simp [plainNode, LinE.eval, PathE.edge, lookupOp, List.lookup, iNew, Instr.node]
  omega

/-- TIE 3: conditional jumps: regenerated path sets = the `JKind`s of the model. -/
def jAgrees (j : JKind) (e : Eff) : Bool :=
  e == .paths ⟨0, "", (j.need : Int)⟩ [⟨.jumpOp "n", ⟨0, "", -(j.popJump : Int)⟩⟩, ⟨.next, ⟨0, "", -(j.popFall : Int)⟩⟩]

theorem jumps_agree :
    jAgrees jneP Gen.eff_jneP && jAgrees jeqP Gen.eff_jeqP && jAgrees jcoalescP Gen.eff_jcoalescP &&
    jAgrees jne Gen.eff_jne && jAgrees jeq Gen.eff_jeq && jAgrees jcoalesc Gen.eff_jcoalesc &&
    (Gen.eff_jump == .paths ⟨0, "", 0⟩ [⟨.jumpOp "n", ⟨0, "", 0⟩⟩]) = true := by decide

/-- TIE 4: every instruction the extractor could not summarise has a hand-written effect. -/
theorem dyn_covered : Gen.dynNames.all (fun n => handNames.contains n) = true := by decide

/-- TIE 4b: `binding.emitSetP` pops the ignored value of a sloppy const assignment (fix 5a4962f) — what
`emitBindingSet` transcribes. -/
theorem emitSetP_pops : Gen.setPPopsSloppyConst = true := by decide

/-- TIE 4c: `enterFinally` disarms both the finally and the catch position of the frame (fix 379f30d) — what the
machine's `enterFinally` step transcribes. -/
theorem enterFinally_clears : Gen.enterFinallyClears = ["catchPos", "finallyPos"] := by decide

/-- TIE 4d: `scope.hasStash` as it is in compiler.go (translated statement by statement by the extractor) is the decision
function the scope model reasons about — for all 512 flag combinations. -/
theorem hasStash_decision : ∀ a b c d e f g h i : Bool,
    Gen.hasStashGen a b c d e f g h i = Scope.hasStashD a b c d e f g h i := by decide

/-- TIE 4e: the level loops of finaliseVarAlloc count exactly `hasStash()`, and the run-time side creates stashes under the
conditions `Scope.createsStash` transcribes (enterBlock, enterFuncBody, function entry selection, class initialiser,
updateEnterBlock's stash size). -/
theorem scope_runtime_side :
    Gen.levelLoopConds = ["sc.hasStash()", "sc.hasStash()"] ∧
    Gen.enterBlockStashCond = "e.stashSize>0" ∧
    Gen.enterFuncBodyStashCond = "e.stashSize>0||e.extensible||e.dynLookup" ∧
    Gen.funcEnterStashCond = "stashSize>0||s.argsInStash" ∧
    Gen.clsInitEnterStashCond = "stashSize>0" ∧
    Gen.updateEnterBlockShape = "dynLookup:len(scope.bindings);else:count(b.inStash)" := by decide

/-- TIE 4f: the places of vm.go that address the operand stack relative to the frame base beyond `stack[sb]` (this) and
`stack[sb-1]` (callee) are exactly the slot instructions of `slotLoads` / `slotStores` (`loadMixedStack…` and
`resolveMixedStack…` delegate to these), with the index expressions `slotNeed` transcribes: `sb + args + l` resp.
`sb + l` for `l > 0`, and the argument forms `sb + arg` / `sb - s` for `l ≤ 0` (not modelled: arguments are not counted in
the normalised frame). -/
theorem slot_access_sites :
    Gen.slotAccessSites = ["loadStack.exec:vm.sb+vm.args+int(l)", "loadStack1.exec:vm.sb+int(l)",
      "loadStack1Lex.exec:vm.sb+int(l)", "loadStackLex.exec:vm.sb+arg", "loadStackLex.exec:vm.sb+vm.args+int(l)",
      "vm.initStack1:vm.sb+s", "vm.initStack:vm.sb+vm.args+s", "vm.initStack:vm.sb-s", "vm.storeStack1:vm.sb+s",
      "vm.storeStack1Lex:vm.sb+s", "vm.storeStack:vm.sb+vm.args+s", "vm.storeStackLex:vm.sb+vm.args+s",
      "vm.storeStackLex:vm.sb-s"] := by decide

/-- TIE 6: the statement compiler (compiler_stmt.go) as the emitter model `emitS`/`emitList` transcribes it: for each
method, its decision structure (conditions, loops, gotos) with, in source order, the calls that emit code or compile a
sub-statement — regenerated on every run; bookkeeping statements are not part of the skeleton, and neither are the
sub-trees guarded by conditions that belong to constructs outside the model (break/continue bookkeeping, function and
lexical declarations, per-iteration bindings, the try / for-in/of unwinding of `return`, class constructors:
`c01outsideFragment` in extract/c01.go), so that an edit there does not raise an alarm here.  A failing theorem names
the method whose emission logic changed (then `emitS` and `corr:emit-statements-bytecode-exact` must follow). -/
theorem stmt_skel_compileExpressionStatement : Gen.skel_compileExpressionStatement =
    "c.emitExpr(c.compileExpression(v.Expression),needResult);if(needResult){c.emit(saveResult);}" := rfl
theorem stmt_skel_compileEmptyStatement : Gen.skel_compileEmptyStatement =
    "if(needResult){c.emit(clearResult);}" := rfl
theorem stmt_skel_compileIfStatement : Gen.skel_compileIfStatement =
    "if(needResult){c.emit(clearResult);}if(test.constant()){if(ex!=nil){c.emitThrow(ex.val);return;}if(r.ToBoolean()){c.compileIfBody(v.Consequent,needResult);if(v.Alternate!=nil){c.compileIfBodyDummy(v.Alternate);}}else{c.compileIfBodyDummy(v.Consequent);if(v.Alternate!=nil){c.compileIfBody(v.Alternate,needResult);}else{if(needResult){c.emit(clearResult);}}}return;}test.emitGetter(true);c.emit(nil);c.compileIfBody(v.Consequent,needResult);if(v.Alternate!=nil){c.emit(nil);patch jneP(len(c.p.code)-jmp);c.compileIfBody(v.Alternate,needResult);patch jump(len(c.p.code)-jmp1);}else{if(needResult){c.emit(jump(2));patch jneP(len(c.p.code)-jmp);c.emit(clearResult);}else{patch jneP(len(c.p.code)-jmp);}}" := rfl
theorem stmt_skel_compileIfBody : Gen.skel_compileIfBody =
    "c.compileStatement(s,needResult);" := rfl
theorem stmt_skel_compileLabeledWhileStatement : Gen.skel_compileLabeledWhileStatement =
    "if(needResult){c.emit(clearResult);}set testTrue=false;if(expr.constant()){if(ex==nil){if(t.ToBoolean()){set testTrue=true;}else{c.compileStatementDummy(v.Body);goto end;}}else{c.emitThrow(ex.val);goto end;}}else{expr.emitGetter(true);c.emit(nil);}if(needResult){c.emit(clearResult);}c.compileStatement(v.Body,needResult);c.emit(jump(start-len(c.p.code)));if(!testTrue){patch jneP(len(c.p.code)-j);}end:" := rfl
theorem stmt_skel_compileLabeledDoWhileStatement : Gen.skel_compileLabeledDoWhileStatement =
    "if(needResult){c.emit(clearResult);}c.compileStatement(v.Body,needResult);c.emitExpr(c.compileExpression(v.Test),true);c.emit(jeqP(start-len(c.p.code)));" := rfl
theorem stmt_skel_compileLabeledForStatement : Gen.skel_compileLabeledForStatement =
    "typeswitch{case(*ast.ForLoopInitializerVarDeclList){range(init.List){c.compileVarBinding(expr);}}case(*ast.ForLoopInitializerExpression){c.compileExpression(init.Expression).emitGetter(false);}}if(needResult){c.emit(clearResult);}set testConst=false;if(v.Test!=nil){if(expr.constant()){if(ex==nil){if(r.ToBoolean()){set testConst=true;}else{c.enterDummyMode();c.compileStatement(v.Body,false);if(v.Update!=nil){c.compileExpression(v.Update).emitGetter(false);}leave();goto end;}}else{c.emitThrow(ex.val);goto end;}}else{expr.emitGetter(true);c.emit(nil);}}if(needResult){c.emit(clearResult);}c.compileStatement(v.Body,needResult);if(v.Update!=nil){c.compileExpression(v.Update).emitGetter(false);}c.emit(jump(start-len(c.p.code)));if(v.Test!=nil){if(!testConst){patch jneP(len(c.p.code)-j);}}end:" := rfl
theorem stmt_skel_compileReturnStatement : Gen.skel_compileReturnStatement =
    "if(v.Argument!=nil){c.emitExpr(c.compileExpression(v.Argument),true);}else{c.emit(loadUndef);}for{switch{case(blockTry){c.emit(saveResult,leaveTry{},loadResult);}}}c.emit(ret);" := rfl
theorem stmt_skel_compileThrowStatement : Gen.skel_compileThrowStatement =
    "c.compileExpression(v.Argument).emitGetter(true);c.emit(throw);" := rfl
theorem stmt_skel_emitVarAssign : Gen.skel_emitVarAssign =
    "if(init!=nil){if(noDyn){c.emitNamedOrConst(init,name);b.emitInitP();}else{c.emitVarRef(name,offset,b);c.emitNamedOrConst(init,name);c.emit(initValueP);}}" := rfl
theorem stmt_skel_compileStatements : Gen.skel_compileStatements =
    "if(needResult){c.compileStatementsNeedResult(list,lastProducingIdx);return;}range(list){c.compileStatement(st,false);}" := rfl
theorem stmt_skel_compileStatementsNeedResult : Gen.skel_compileStatementsNeedResult =
    "if(lastProducingIdx>=0){range(<*ast.SliceExpr>){c.compileStatement(st,containsBranch(st));}c.compileStatement(list[lastProducingIdx],true);}range(<*ast.SliceExpr>){c.compileStatement(st,false);}" := rfl
theorem stmt_skel_scanStatements : Gen.skel_scanStatements =
    "set lastProducingIdx=-1;range(list){if(!c.isEmptyResult(st)){set lastProducingIdx=i;}}return;" := rfl

/-- TIE 6 (continued): the methods behind the `break` / `continue` / `try` model (Stmt2.lean): the try layout with the
`needResult` rule of a finally block that ends in a branch (the catch-parameter scope is outside the model: only the
parameter-less arm is pinned), the block exit code for try blocks, the two placeholders, and `leaveBlock`'s patching. -/
theorem stmt_skel_compileTryStatement : Gen.skel_compileTryStatement =
    "if(finallyBreaking!=nil){if(lp==-1){set bodyNeedResult=finallyBreaking.needResult;}}else{set bodyNeedResult=needResult;}c.emit(nil);if(needResult){c.emit(clearResult);}c.compileBlockStatement(v.Body,bodyNeedResult);if(v.Catch!=nil){c.emit(nil);else(v.Catch.Parameter!=nil){c.emit(pop);c.compileBlockStatement(v.Catch.Body,bodyNeedResult);}patch jump(len(c.p.code)-lbl2);}if(v.Finally!=nil){c.emit(enterFinally{});if(bodyNeedResult&&finallyBreaking!=nil&&lp==-1){c.emit(clearResult);}c.compileBlockStatement(v.Finally,false);c.emit(leaveFinally{});}else{c.emit(leaveTry{});}patch try{catchOffset,finallyOffset};" := rfl
theorem stmt_skel_emitBlockExitCode : Gen.skel_emitBlockExitCode =
    "if(block==nil){c.throwSyntaxError(int(idx)-1,\"Could not find block\");}L:for{switch{case(blockTry){c.emit(leaveTry{});}}}return;" := rfl
theorem stmt_skel_compileBreak : Gen.skel_compileBreak =
    "c.emit(nil);" := rfl
theorem stmt_skel_compileContinue : Gen.skel_compileContinue =
    "c.emit(nil);" := rfl
theorem stmt_skel_leaveBlock : Gen.skel_leaveBlock =
    "range(c.block.breaks){patch jump(lbl-item);}if(t==blockLoop||t==blockLoopEnum){range(c.block.conts){patch jump(c.block.cont-item);}}" := rfl

/-- TIE 6b: which statements have an empty result (`isEmptyResult`, compiler_stmt.go:881): the case list behind
`Stmt.emptyResult`, and "everything else produces a value" (no default clause, final `return false`). -/
theorem isEmptyResult_cases :
    Gen.isEmptyResultCases = ["*ast.EmptyStatement", "*ast.VariableStatement", "*ast.LexicalDeclaration",
      "*ast.FunctionDeclaration", "*ast.ClassDeclaration", "*ast.BranchStatement", "*ast.DebuggerStatement",
      "*ast.LabelledStatement", "*ast.BlockStatement"] ∧ Gen.isEmptyResultHasDefault = false := by decide

/-- TIE 5: the classifier's case lists. -/
theorem exceptionFromValue_cases :
    Gen.exceptionFromValueCases = ["*Object", "Value", "*Exception", "typeError", "referenceError", "rangeError", "syntaxError"]
    ∧ Gen.exceptionFromValueDefaultNil = true := by decide

theorem asUncatchable_cases :
    Gen.asUncatchableCases = ["uncatchableException", "error"] ∧ Gen.asUncatchableHasDefault = false
    ∧ Gen.uncatchableTypes = ["InterruptedError", "StackOverflowError"] := by decide

theorem recover_sites :
    Gen.recover_RunProgram = (["asUncatchableException"], true) ∧ Gen.recover_runWrapped = (["asUncatchableException"], true)
    ∧ Gen.recover_compileAST = (["case *CompilerSyntaxError"], true) ∧ Gen.handleThrowRepanicsUnknown = true := by decide

end GojaModel.C01.Tie
