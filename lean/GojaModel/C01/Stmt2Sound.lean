import GojaModel.C01.Stmt2
/-!
  C01 (a″): an executable reading of the judgement `H2`.  `C2.height2 B C` walks the structured code with the executable
  height function of (a), checks at every `break` / `continue` that the current height is the one its target expects, at
  every loop that the back edge and the update see the loop-head height, and at every try statement that its three parts
  are neutral; `H2.sound`: whatever `H2` derives, the walk confirms (never `none`).
-/
namespace GojaModel.C01

def okAt (r : Option Ht) (k : Nat) : Bool := r == some .dead || r == some (.live k)

def C2.height2 (B C : Option Nat) : C2 → Ht → Option Ht
  | .old c, x => c.height x
  | .nil, x => some x
  | .seq a b, x => (a.height2 B C x).bind (b.height2 B C)
  | .fwd _ _, .dead => some .dead
  | .fwd j body, .live h =>
      if j.need ≤ h ∧ j.popJump ≤ j.need ∧ j.popFall ≤ j.need then
        (body.height2 B C (.live (h - j.popFall))).bind (fun hb => hb.join (.live (h - j.popJump)))
      else none
  | .ifElse _ _ _, .dead => some .dead
  | .ifElse j a b, .live h =>
      if j.need ≤ h ∧ j.popJump ≤ j.need ∧ j.popFall ≤ j.need then
        (a.height2 B C (.live (h - j.popFall))).bind (fun ha =>
          (b.height2 B C (.live (h - j.popJump))).bind (fun hb => ha.join hb))
      else none
  | .loop _ _ _ _ _, .dead => some .dead
  | .loop j _ pre body upd, .live h =>
      match pre.height (.live h) with
      | some (.live k1) =>
        if j.need ≤ k1 ∧ j.popJump ≤ j.need ∧ j.popFall ≤ j.need ∧
            okAt (body.height2 (some (k1 - j.popJump)) (some h) (.live (k1 - j.popFall))) h ∧ okAt (upd.height (.live h)) h then
          some (.live (k1 - j.popJump))
        else none
      | some .dead => some .dead
      | none => none
  | .forever _ _ _, .dead => some .dead
  | .forever _ body upd, .live h =>
      if okAt (body.height2 (some h) (some h) (.live h)) h ∧ okAt (upd.height (.live h)) h then some (.live h) else none
  | .doLoop _ _ _, .dead => some .dead
  | .doLoop j body test, .live h =>
      -- the continue target (the test) must be entered with the height the body ends with: the entry height here
      if okAt (body.height2 (some h) (some h) (.live h)) h then
        match test.height (.live h) with
        | some (.live k1) =>
          if j.need ≤ k1 ∧ j.popJump ≤ j.need ∧ j.popFall ≤ j.need ∧ k1 - j.popJump = h ∧ k1 - j.popFall = h then some (.live h)
          else none
        | some .dead => some (.live h)
        | none => none
      else none
  | .brk, .dead => some .dead
  | .brk, .live h => if B = some h then some .dead else none
  | .cont, .dead => some .dead
  | .cont, .live h => if C = some h then some .dead else none
  | .tryC _ _ _ _ _ _ _, .dead => some .dead
  | .tryC _ body _ pm ctc _ fin, .live h =>
      if okAt (body.height2 B C (.live h)) h ∧ okAt (ctc.height2 B C (.live (h + if pm then 1 else 0))) (h + if pm then 1 else 0) ∧
          okAt (fin.height2 B C (.live h)) h then some (.live h)
      else none

theorem okAt_post {r : Option Ht} {k : Nat} (h : Post r k) : okAt r k = true := by
  rcases h with h | h <;> simp [okAt, h]

theorem height2_dead (B C : Option Nat) (c : C2) : c.height2 B C .dead = some .dead := by
  induction c with
  | old c => exact height_dead c
  | nil => rfl
  | seq a b iha ihb => simp [C2.height2, iha, ihb]
  | fwd j body _ => rfl
  | ifElse j a b _ _ => rfl
  | loop j cs pre body upd _ => rfl
  | forever cs body upd _ => rfl
  | doLoop j body test _ => rfl
  | brk => rfl
  | cont => rfl
  | tryC clr body hc pm ctc hf fin _ _ _ => rfl

/-- The judgement is sound for the executable walk: `dead` (control cannot leave the code normally) or `live k`; never `none`
(an operand missing, a join / back edge / break / continue arriving with the wrong height). -/
theorem H2.sound {B C c h k} (hh : H2 B C c h k) : Post (c.height2 B C (.live h)) k := by
  induction hh with
  | old hc => exact hc.sound
  | nil => exact Or.inr rfl
  | seq _ _ iha ihb =>
    rcases iha with ha | ha
    · left; simp [C2.height2, ha, height2_dead]
    · rcases ihb with hb | hb
      · left; simp [C2.height2, ha, hb]
      · right; simp [C2.height2, ha, hb]
  | @fwd B C j body h h1 h2 h3 _ ih =>
    obtain ⟨x, hx, hx'⟩ := post_cases ih
    have := join_post hx' (Or.inr rfl : (Ht.live (h - j.popJump)) = Ht.dead ∨ (Ht.live (h - j.popJump)) = Ht.live (h - j.popJump))
    simp only [C2.height2, h1, h2, h3, and_self, if_true, hx, Option.bind_some]
    exact this
  | @ifElse B C j a b h k h1 h2 h3 _ _ iha ihb =>
    obtain ⟨x, hx, hx'⟩ := post_cases iha
    obtain ⟨y, hy, hy'⟩ := post_cases ihb
    have := join_post hx' hy'
    simp only [C2.height2, h1, h2, h3, and_self, if_true, hx, hy, Option.bind_some]
    exact this
  | @loop B C j cs pre body upd h k1 hp h1 h2 h3 _ hu ihb =>
    rcases hp.sound with hd | hl
    · left; simp [C2.height2, hd]
    · right; simp [C2.height2, hl, h1, h2, h3, okAt_post ihb, okAt_post hu.sound]
  | @forever B C cs body upd h _ hu ih =>
    right; simp [C2.height2, okAt_post ih, okAt_post hu.sound]
  | @doLoop B C j body test h k1 _ ht h1 h2 h3 h4 h5 ih =>
    right
    rcases ht.sound with hd | hl
    · simp [C2.height2, okAt_post ih, hd]
    · simp [C2.height2, okAt_post ih, hl, h1, h2, h3, h4, h5]
  | brk => left; simp [C2.height2]
  | cont => left; simp [C2.height2]
  | tryC _ _ _ ihb ihc ihf => right; simp [C2.height2, okAt_post ihb, okAt_post ihc, okAt_post ihf]

end GojaModel.C01
