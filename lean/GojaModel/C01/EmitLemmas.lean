import GojaModel.C01.Lemmas
/-!
  C01 (a): every `emitGetter` leaves exactly one value (putOnStack) or none (¬putOnStack); by structural
  induction over the mutual AST.
-/
namespace GojaModel.C01

theorem HasHt.ins' {i : Instr} {h k : Nat} (h1 : i.need ≤ h) (h2 : i.pops ≤ i.need) (h3 : i.term = false)
    (hk : k = h - i.pops + i.pushes) : HasHt (.ins i) h k := hk ▸ HasHt.ins h1 h2 h3

theorem HasHt.fwd' {j : JKind} {body : Code} {h k : Nat} (h1 : j.need ≤ h) (h2 : j.popJump ≤ j.need)
    (h3 : j.popFall ≤ j.need) (hb : HasHt body (h - j.popFall) (h - j.popJump)) (hk : k = h - j.popJump) :
    HasHt (.fwd j body) h k := hk ▸ HasHt.fwd h1 h2 h3 hb

/-- arithmetic / instruction-constant side goals -/
macro "ht_arith" : tactic => `(tactic| first
  | rfl
  | (simp (config := { decide := true }) [push1, op11, op21, op20, op31, op30, op12, op22, op00, iPop, iDup, iKeep1, iThrow,
      iThrowAssignToConst, iRdupN, iDupLast, iCall, iNew, iConcat, iLoadVal, iLoadUndef, iDead,
      jneP, jeqP, jcoalescP, jne, jeq, jcoalesc, logJump] <;> omega)
  | omega)

/-- chain through `seq`/`ins`/`nil`; leaves goals about sub-codes it does not know -/
macro "ht_chain" : tactic => `(tactic| repeat' (first
  | exact HasHt.nil
  | exact HasHt.conv HasHt.nil (by ht_arith)
  | apply HasHt.seq
  | (apply HasHt.ins' <;> ht_arith)
  | (apply HasHt.term <;> ht_arith)))

theorem emitThrow_ht (m : Bool) (h k : Nat) : HasHt (emitThrow m) h k := by
  cases m <;> simp only [emitThrow, cat, if_true, if_false, Bool.false_eq_true] <;> ht_chain

theorem foldOr_t {e : Expr} {g : Code} (hg : ∀ h, HasHt g h (h + 1)) : ∀ h, HasHt (foldOr e true g) h (h + 1) := by
  intro h
  unfold foldOr
  split
  · split
    · simp only [onlyIf, if_true]; ht_chain
    · exact emitThrow_ht _ _ _
  · exact hg h

theorem foldOr_f {e : Expr} {g : Code} (hg : ∀ h, HasHt g h h) : ∀ h, HasHt (foldOr e false g) h h := by
  intro h
  unfold foldOr
  split
  · split
    · simp only [onlyIf]; exact HasHt.nil
    · exact emitThrow_ht _ _ _
  · exact hg h

theorem emitIdentGet_t (c : IdClass) (h : Nat) : HasHt (emitIdentGet c true) h (h + 1) := by
  cases c <;> simp only [emitIdentGet, onlyIf, popUnless, if_true] <;> ht_chain

theorem emitIdentGet_f (c : IdClass) (h : Nat) : HasHt (emitIdentGet c false) h h := by
  cases c <;> simp only [emitIdentGet, onlyIf, popUnless, Bool.false_eq_true, if_false] <;> ht_chain

theorem emitBindingSet_t (cfg : Cfg) (c : IdClass) (h : Nat) : HasHt (emitBindingSet cfg c true) (h + 1) (h + 1) := by
  cases c <;> simp only [emitBindingSet, if_true]
  case const s =>
    split
    · simp only [cat]; ht_chain
    · simp; exact HasHt.nil
  all_goals ht_chain

theorem emitBindingSet_f (cfg : Cfg) (c : IdClass) (h : Nat) :
    HasHt (emitBindingSet cfg c false) (h + 1) h := by
  cases c <;> simp only [emitBindingSet, Bool.false_eq_true, if_false]
  case const s =>
    split
    · simp only [cat]; ht_chain
    · simp; ht_chain
  all_goals ht_chain

theorem emitVarRef_ht (cfg : Cfg) (c : IdClass) (h : Nat) : HasHt (emitVarRef cfg c) h h := by
  cases c <;> simp only [emitVarRef] <;> ht_chain

theorem emitVarSetter1_t (cfg : Cfg) (c : IdClass) (right : Bool → Code) (d : Nat)
    (hr : ∀ b h, HasHt (right b) h (h + d + 1)) (h : Nat) : HasHt (emitVarSetter1 cfg c true right) h (h + d + 1) := by
  unfold emitVarSetter1
  split
  · simp only [cat, if_true]
    refine HasHt.seq (emitVarRef_ht _ _ _) (HasHt.seq (hr _ _) ?_)
    ht_chain
  · exact HasHt.seq (hr _ _) (emitBindingSet_t _ _ _)

theorem emitVarSetter1_f (cfg : Cfg) (c : IdClass) (right : Bool → Code)
    (hr : ∀ b h, HasHt (right b) h (h + 1)) (h : Nat) : HasHt (emitVarSetter1 cfg c false right) h h := by
  unfold emitVarSetter1
  split
  · simp only [cat, Bool.false_eq_true, if_false]
    refine HasHt.seq (emitVarRef_ht _ _ _) (HasHt.seq (hr _ _) ?_)
    ht_chain
  · exact HasHt.seq (hr _ _) (emitBindingSet_f _ _ _)

/-- a code piece that maps `h+1` operands to `h+1` operands (body of increment and decrement, compound assignment, toNumber) -/
def Keeps1 (c : Code) : Prop := ∀ h, HasHt c (h + 1) (h + 1)

theorem keeps1_nil : Keeps1 .nil := fun _ => HasHt.nil
theorem keeps1_inc (inc : Bool) : Keeps1 (incBody inc) := by
  intro h; unfold incBody; ht_chain
theorem keeps1_prep : Keeps1 prepNum := by
  intro h; unfold prepNum; ht_chain
theorem keeps1_binop {g : Code} (op : BinOp) (hg : ∀ h, HasHt g h (h + 1)) :
    Keeps1 (.seq g (.ins (op21 (binName op)))) := by
  intro h
  refine HasHt.seq (hg _) ?_
  ht_chain

theorem emitUnaryId_t (cfg : Cfg) (c : IdClass) (post : Bool) {prep body : Code} (hp : Keeps1 prep) (hb : Keeps1 body)
    (h : Nat) : HasHt (emitUnaryId cfg c true post prep body) h (h + 1) := by
  unfold emitUnaryId
  simp only [if_true]
  refine HasHt.seq (emitVarSetter1_t cfg c _ 1 ?_ h) (by ht_chain)
  intro b h'
  simp only [cat]
  refine HasHt.seq (k1 := h' + 1) (by ht_chain) (HasHt.seq (k1 := h' + 2) ?_ (HasHt.seq (k1 := h' + 2) (hp _) ?_))
  · cases b
    · exact emitIdentGet_t _ _
    · simp only [if_true]; ht_chain
  · cases post
    · simp only [Bool.false_eq_true, if_false]
      refine HasHt.seq (k1 := h' + 2) (hb _) (HasHt.seq (k1 := h' + 2) (by ht_chain) (HasHt.seq (k1 := h' + 2) HasHt.nil ?_))
      exact HasHt.conv HasHt.nil (by omega)
    · simp only [if_true]
      refine HasHt.seq (k1 := h' + 2) HasHt.nil (HasHt.seq (k1 := h' + 2) (by ht_chain) (HasHt.seq (k1 := h' + 2) (hb _) ?_))
      exact HasHt.conv HasHt.nil (by omega)

theorem emitUnaryId_f (cfg : Cfg) (c : IdClass) (post : Bool) {prep body : Code} (hb : Keeps1 body)
    (h : Nat) : HasHt (emitUnaryId cfg c false post prep body) h h := by
  unfold emitUnaryId
  simp only [Bool.false_eq_true, if_false]
  refine emitVarSetter1_f cfg c _ ?_ h
  intro b h'
  simp only [cat]
  refine HasHt.seq (k1 := h' + 1) ?_ (HasHt.seq (k1 := h' + 1) (hb _) HasHt.nil)
  cases b
  · exact emitIdentGet_t _ _
  · simp only [if_true]; ht_chain

theorem emitUnaryDot_t (cfg : Cfg) (post : Bool) {gl prep body : Code} (hl : ∀ h, HasHt gl h (h + 1))
    (hp : Keeps1 prep) (hb : Keeps1 body) (h : Nat) : HasHt (emitUnaryDot cfg true post gl prep body) h (h + 1) := by
  unfold emitUnaryDot
  cases post
  · simp only [cat, Bool.not_true, Bool.false_eq_true, if_false, Bool.not_false, if_true]
    refine HasHt.seq (hl _) (HasHt.seq (k1 := h + 2) (by ht_chain) (HasHt.seq (k1 := h + 2) (by ht_chain)
      (HasHt.seq (k1 := h + 2) (hp _) (HasHt.seq (k1 := h + 2) (hb _) ?_))))
    ht_chain
  · simp only [cat, Bool.not_true, Bool.false_eq_true, if_false]
    refine HasHt.seq (k1 := h + 1) (by ht_chain) (HasHt.seq (hl _) (HasHt.seq (k1 := h + 3) (by ht_chain)
      (HasHt.seq (k1 := h + 3) (by ht_chain) (HasHt.seq (k1 := h + 3) (hp _) (HasHt.seq (k1 := h + 3) (by ht_chain)
      (HasHt.seq (k1 := h + 3) (hb _) ?_))))))
    ht_chain

theorem emitUnaryDot_f (cfg : Cfg) (post : Bool) {gl prep body : Code} (hl : ∀ h, HasHt gl h (h + 1))
    (hb : Keeps1 body) (h : Nat) : HasHt (emitUnaryDot cfg false post gl prep body) h h := by
  unfold emitUnaryDot
  simp only [cat, Bool.not_false, if_true]
  refine HasHt.seq (hl _) (HasHt.seq (k1 := h + 2) (by ht_chain) (HasHt.seq (k1 := h + 2) (by ht_chain)
    (HasHt.seq (k1 := h + 2) (hb _) ?_)))
  ht_chain

theorem emitUnaryIndex_t (cfg : Cfg) (post : Bool) {gl gm prep body : Code} (hl : ∀ h, HasHt gl h (h + 1))
    (hm : ∀ h, HasHt gm h (h + 1)) (hp : Keeps1 prep) (hb : Keeps1 body) (h : Nat) :
    HasHt (emitUnaryIndex cfg true post gl gm prep body) h (h + 1) := by
  unfold emitUnaryIndex
  cases post
  · simp only [cat, Bool.not_true, Bool.false_eq_true, if_false, Bool.not_false, if_true]
    refine HasHt.seq (hl _) (HasHt.seq (hm _) (HasHt.seq (k1 := h + 4) (by ht_chain) (HasHt.seq (k1 := h + 3) (by ht_chain)
      (HasHt.seq (k1 := h + 3) (hp _) (HasHt.seq (k1 := h + 3) (hb _) ?_)))))
    ht_chain
  · simp only [cat, Bool.not_true, Bool.false_eq_true, if_false]
    refine HasHt.seq (k1 := h + 1) (by ht_chain) (HasHt.seq (hl _) (HasHt.seq (hm _) (HasHt.seq (k1 := h + 5) (by ht_chain)
      (HasHt.seq (k1 := h + 4) (by ht_chain) (HasHt.seq (k1 := h + 4) (hp _) (HasHt.seq (k1 := h + 4) (by ht_chain)
      (HasHt.seq (k1 := h + 4) (hb _) ?_)))))))
    ht_chain

theorem emitUnaryIndex_f (cfg : Cfg) (post : Bool) {gl gm prep body : Code} (hl : ∀ h, HasHt gl h (h + 1))
    (hm : ∀ h, HasHt gm h (h + 1)) (hb : Keeps1 body) (h : Nat) :
    HasHt (emitUnaryIndex cfg false post gl gm prep body) h h := by
  unfold emitUnaryIndex
  simp only [cat, Bool.not_false, if_true]
  refine HasHt.seq (hl _) (HasHt.seq (hm _) (HasHt.seq (k1 := h + 4) (by ht_chain) (HasHt.seq (k1 := h + 3) (by ht_chain)
    (HasHt.seq (k1 := h + 3) (hb _) ?_))))
  ht_chain

theorem emitAssignLog_t (op : LogOp) {ref right : Code} (hr : ∀ h, HasHt ref h h) (hv : ∀ h, HasHt right h (h + 1))
    (h : Nat) : HasHt (emitAssignLog op true ref right) h (h + 1) := by
  unfold emitAssignLog
  simp only [cat]
  refine HasHt.seq (hr _) (HasHt.seq (k1 := h + 1) (by ht_chain) (HasHt.seq (k1 := h + 1) ?_ HasHt.nil))
  cases op <;>
  · refine HasHt.ifElse (by ht_arith) (by ht_arith) (by ht_arith) ?_ ?_
    · refine HasHt.seq (k1 := h + 1) (HasHt.conv (hv _) (by ht_arith)) ?_
      simp only [if_true]; ht_chain
    · ht_chain

theorem emitAssignLog_f (op : LogOp) {ref right : Code} (hr : ∀ h, HasHt ref h h) (hv : ∀ h, HasHt right h (h + 1))
    (h : Nat) : HasHt (emitAssignLog op false ref right) h h := by
  unfold emitAssignLog
  simp only [cat]
  refine HasHt.seq (hr _) (HasHt.seq (k1 := h + 1) (by ht_chain) (HasHt.seq (k1 := h) ?_ HasHt.nil))
  cases op <;>
  · refine HasHt.ifElse (by ht_arith) (by ht_arith) (by ht_arith) ?_ ?_
    · refine HasHt.seq (k1 := h + 1) (HasHt.conv (hv _) (by ht_arith)) ?_
      simp only [Bool.false_eq_true, if_false]; ht_chain
    · ht_chain

end GojaModel.C01
