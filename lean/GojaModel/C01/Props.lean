import GojaModel.C01.EmitProof
import GojaModel.C01.StmtProof
import GojaModel.C01.RetExact
import GojaModel.C01.Stmt2
import GojaModel.C01.Stmt2Sound
import GojaModel.C01.Flat
import GojaModel.C01.Scope
/-!
  C01 property theorems.  Every `theorem` here is one audited proof obligation.

  (a) putOnStack discipline of the expression emitter, for ALL expressions of the modelled AST, all entry heights,
      both values of putOnStack: `emit_height`, `emitExpr_height`, `emit_height_exec` (full strength, current compiler);
      `emit_height_prefix_witness` = regression lemma about the mechanism before fix 5a4962f.
  (b) `verify_sound` and its corollaries: what the proven verifier's acceptance means for every run of the abstract
      stack-height machine (nondeterministic branches, a throw possible at every instruction).
  (c) the panic payload classifier is total on the documented payload kinds and re-panics everything else.
-/
namespace GojaModel.C01

/-! ### (a) -/

/-- Full strength, about the compiler as it is (after fix 5a4962f; `Tie.emitSetP_pops` pins the regenerated shape of
`binding.emitSetP`): for every expression, every compiler configuration, every entry height `h`, and both values of
putOnStack, the emitted code never needs an operand below the entry height, all merging control paths agree, and if
control reaches the end it does so with exactly `h + 1` (putOnStack) resp. `h` operands. -/
theorem emit_height (cfg : Cfg) (e : Expr) (p : Bool) (h : Nat) :
    HasHt (emitG cfg e p) h (h + if p then 1 else 0) := by
  have d := emitG_disc cfg e
  cases p
  · exact d.2 h
  · exact d.1 h

/-- The same through the constant-folding entry point `emitExpr` (compiler_expr.go:3287). -/
theorem emitExpr_height (cfg : Cfg) (e : Expr) (p : Bool) (h : Nat) :
    HasHt (emitE cfg e p) h (h + if p then 1 else 0) := by
  have d := emitG_disc cfg e
  unfold emitE
  cases p
  · exact foldOr_f d.2 h
  · exact foldOr_t d.1 h

/-- The executable height function agrees: it returns `dead` (the code throws on every path) or `live (h+δ)`;
never `none` (underflow / disagreeing paths). -/
theorem emit_height_exec (cfg : Cfg) (e : Expr) (p : Bool) (h : Nat) :
    (emitG cfg e p).height (.live h) = some .dead ∨
    (emitG cfg e p).height (.live h) = some (.live (h + if p then 1 else 0)) :=
  (emit_height cfg e p h).sound

/-- The discipline holds for the FLAT instruction sequence the compiler lays out (relative jump offsets, `Code.flat`),
executed by the abstract machine of part (b): wherever the code of an expression sits inside a program
(`Placed code lo …`), every run by normal steps that enters it at `lo` with `h` operands stays inside the fragment,
leaves the try frames and variadic markers untouched, finds the operands of every instruction it executes above the
entry height, and leaves the fragment only at its end, with exactly `h + 1` (putOnStack) resp. `h` operands.
(Throws leave the fragment for a handler whose entry height is fixed by its try frame: `unwind_height`.) -/
theorem emit_flat_sound (cfg : Cfg) (e : Expr) (p : Bool) (h : Nat)
    (code : List Node) (lo : Nat) (vs : List Nat) (fs : List Frame)
    (hp : Placed code lo (emitG cfg e p).nodes) (t : St)
    (hr : RunIn code lo (lo + (emitG cfg e p).len) ⟨lo, h, vs, fs⟩ t) :
    Within code lo (emitG cfg e p).len h (h + if p then 1 else 0) vs fs t :=
  flat_sound (emit_height cfg e p h) code lo vs fs hp t hr

/-- Bridging theorem in general: the structured height judgement is sound for the flat layout of ANY structured
code (so `Code.height`/`HasHt` mean what they claim about jump-offset code). -/
theorem hasHt_flat_sound (c : Code) (h k : Nat) (hh : HasHt c h k)
    (code : List Node) (lo : Nat) (vs : List Nat) (fs : List Frame) (hp : Placed code lo c.nodes) (t : St)
    (hr : RunIn code lo (lo + c.len) ⟨lo, h, vs, fs⟩ t) : Within code lo c.len h k vs fs t :=
  flat_sound hh code lo vs fs hp t hr

/-! ### (a) statements -/

/-- Every statement of the modelled fragment (expression / empty / `var` statements, blocks, `if`, `while`, `do-while`,
`for`, `return`, `throw`; compiler_stmt.go) is height-neutral, whatever `needResult` is and whatever the entry height:
no instruction needs an operand below the entry height, the arms of every `if` and the back edge and exit of every loop
agree, and if control leaves the statement it does so with exactly the entry height.  So no statement leaks an operand
into the rest of its function (the leak `verify` cannot see, because `ret` resets sp) and no loop grows the stack. -/
theorem emitStmt_height (cfg : Cfg) (s : Stmt) (nr : Bool) (h : Nat) : HasHt (emitS cfg s nr) h h :=
  emitS_ht cfg s nr h

/-- The same for a whole statement list compiled as a program body (`needResult`) or a function body. -/
theorem emitBody_height (cfg : Cfg) (ss : Stmts) (nr : Bool) (h : Nat) : HasHt (emitBody cfg ss nr) h h :=
  emitS_ht cfg (.block ss) nr h

/-- The executable height function agrees (never `none`). -/
theorem emitStmt_height_exec (cfg : Cfg) (s : Stmt) (nr : Bool) (h : Nat) :
    (emitS cfg s nr).height (.live h) = some .dead ∨ (emitS cfg s nr).height (.live h) = some (.live h) :=
  (emitS_ht cfg s nr h).sound

/-- … and so does the abstract machine on the flat layout with its forward AND backward jump offsets: every run by
normal steps that enters the code of a statement at `lo` with `h` operands — through any number of loop iterations —
stays inside the statement, leaves try frames and variadic markers untouched, finds the operands of every instruction
it executes, and leaves the statement only at its end, with exactly `h` operands. -/
theorem emitStmt_flat_sound (cfg : Cfg) (s : Stmt) (nr : Bool) (h : Nat)
    (code : List Node) (lo : Nat) (vs : List Nat) (fs : List Frame)
    (hp : Placed code lo (emitS cfg s nr).nodes) (t : St)
    (hr : RunIn code lo (lo + (emitS cfg s nr).len) ⟨lo, h, vs, fs⟩ t) :
    Within code lo (emitS cfg s nr).len h h vs fs t :=
  flat_sound (emitS_ht cfg s nr h) code lo vs fs hp t hr

/-! ### (a) statements with `break` / `continue` and `try` -/

/-- The statement fragment extended with unlabelled `break` / `continue` and `try` / `catch` /
`finally`, `catch (e)` with an identifier parameter kept on the stack (model `S2` / `emit2`, Stmt2.lean: the jump placeholders patched by `leaveBlock`, the continue targets of the
three loop forms, the block exit code — one `leaveTry` per try block a branch leaves, `saveResult; leaveTry; loadResult`
per try block a `return` leaves —, the layout of compileTryStatement with both handler offsets, and the result
bookkeeping of statement lists around branch statements: leadingBranch, containsBranch, dummy mode, a finally block that
ends in a branch): every statement, compiled inside (`lc = some _`) or outside a loop, under any number of try blocks, for
both values of `needResult`, is height-neutral — the try block, the catch clause (entered by the handler with the
exception value on the saved height, `unwind_height`, and popping it) and the finally block each are — and every
`break` / `continue` reaches its jump target with exactly the height that target expects, the entry height `hl` of the
innermost loop (`ctx lc hl`; outside a loop compilation stops) — the statement itself sitting `slots ex` operands higher,
one per catch parameter whose scope it is in, which the block exit code (`exitCode ex`: `leaveTry` / `leaveBlock` copies,
innermost first) pops on the way.  So a loop left or restarted from any depth of `if` /
block / try nesting never carries operands out of or around the loop. -/
theorem emitStmt2_height (cfg : Cfg) (s : S2) (lc : Option Bool) (td : Nat) (ex : List Bool) (nr : Bool) (hl : Nat) :
    H2 (ctx lc hl) (ctx lc hl) (emit2 cfg lc td ex s nr) (hl + slots ex) (hl + slots ex) :=
  emit2_ht cfg s lc td ex nr hl _ rfl

/-- a whole function / program body: no branch target outside (`none`), exit height = entry height -/
theorem emitBody2_height (cfg : Cfg) (ss : SS2) (nr : Bool) (h : Nat) : H2 none none (emitBody2 cfg ss nr) h h :=
  emit2_ht cfg (.block ss) none 0 [] nr h h rfl

/-- The executable reading: walking the structured code of any `S2` statement with the executable height function and
checking every `break` / `continue` against the height its target expects, every loop back edge and update against the
loop-head height and the three parts of every try statement for neutrality never fails (`none`); the result is `dead` or
`live` at the entry height (`H2.sound`). -/
theorem emitStmt2_height_exec (cfg : Cfg) (s : S2) (lc : Option Bool) (td : Nat) (ex : List Bool) (nr : Bool) (hl : Nat) :
    (emit2 cfg lc td ex s nr).height2 (ctx lc hl) (ctx lc hl) (.live (hl + slots ex)) = some .dead ∨
    (emit2 cfg lc td ex s nr).height2 (ctx lc hl) (ctx lc hl) (.live (hl + slots ex)) = some (.live (hl + slots ex)) :=
  (emit2_ht cfg s lc td ex nr hl _ rfl).sound

/-- the walk is not vacuous: `while (x) { break; }` passes, the same loop with an operand left on the stack before the
`break` is refused, and so is a `break` that skips the `leaveBlock` of a catch-parameter scope. -/
theorem emitStmt2_witness :
    (C2.loop jneP true (.ins iLoadVal) .brk .nil).height2 none none (.live 0) = some (.live 0) ∧
    (C2.loop jneP true (.ins iLoadVal) (.seq (.old (.ins iLoadVal)) .brk) .nil).height2 none none (.live 0) = none ∧
    (C2.loop jneP true (.ins iLoadVal) (.tryC false .nil true true .brk false .nil) .nil).height2 none none (.live 0) = none ∧
    (C2.loop jneP true (.ins iLoadVal) (.tryC false .nil true true (.seq (.old (exitCode [true, false])) .brk) false .nil)
      .nil).height2 none none (.live 0) = some (.live 0) := by decide

/-! ### (a) function-level leaks -/

/-- Inside the modelled fragment a function cannot leak operands towards its `ret`s: every statement entered with `h`
operands (the function body's entry height — statements are height-neutral, `emitStmt_height`) satisfies the height
judgement in which every executed `ret` sits at exactly `h + 1`: the return value and nothing else above the frame's
locals.  (`verify` cannot see such a leak on real bytecode: `ret` resets sp.) -/
theorem ret_height_exact (cfg : Cfg) (s : Stmt) (nr : Bool) (h : Nat) : HasHtR (h + 1) (emitS cfg s nr) h h :=
  emitS_htR cfg s nr h

/-- the same for a whole function / program body -/
theorem ret_height_exact_body (cfg : Cfg) (ss : Stmts) (nr : Bool) (h : Nat) : HasHtR (h + 1) (emitBody cfg ss nr) h h :=
  emitS_htR cfg (.block ss) nr h

/-- … and the executable walk over the code (following `Code.height`) finds every live `ret` at height `h + 1`. -/
theorem ret_height_exact_exec (cfg : Cfg) (ss : Stmts) (nr : Bool) (h : Nat) :
    (emitBody cfg ss nr).retsAt (h + 1) (.live h) = true :=
  (emitS_htR cfg (.block ss) nr h).sound

/-- the judgement is not vacuous: `ret` is recognised, a throw is not, and a body that leaves one extra operand below the
return value (`loadVal; loadVal; ret`) is refused although its plain height judgement holds (control never leaves it). -/
theorem ret_height_witness :
    iRet.isRet = true ∧ iThrow.isRet = false ∧
    (Code.seq (.ins iLoadVal) (.seq (.ins iLoadVal) (.ins iRet))).retsAt 1 (.live 0) = false ∧
    (Code.seq (.ins iLoadVal) (.seq (.ins iLoadVal) (.ins iRet))).height (.live 0) = some .dead ∧
    (Code.seq (.ins iLoadVal) (.ins iRet)).retsAt 1 (.live 0) = true := by decide

/-- Regression lemma about the mechanism BEFORE fix 5a4962f (`emitBindingSetPrefix`): `f = 5` with `f` the sloppy
function-expression name and the value discarded — right operand followed by the old `emitSetP` — ended one operand
too high. (`(function f(){ var r=[1,(f = 5, 2)] })()` crashed the host.) -/
theorem emit_height_prefix_witness :
    (Code.seq (.ins iLoadVal) (emitBindingSetPrefix ⟨false⟩ (.const false) false)).height (.live 0) = some (.live 1)
    ∧ (emitG ⟨false⟩ (.assignId (.const false) "f" (.lit (.num 5))) false).height (.live 0) = some (.live 0) := by
  decide

/-! ### (b) -/

/-- Soundness of the verifier: if `verify` accepts, every state the abstract machine can reach from the entry
state is locally safe: the instruction finds its operands above the entry height, all successors are inside the
code with non-negative height, try/finally instructions find their frame, variadic calls find their marker, a
`ret` has a value, and falling off the end happens only with the entry height and no open frames. -/
theorem verify_sound (code : List Node) (endOk : Bool) (hv : verify code endOk = true)
    (s : St) (hr : Reach code s) : safe code endOk s = true := by
  unfold verify at hv
  have hm := reach_memR hv hr
  unfold verifyWith at hv
  rw [Bool.and_eq_true] at hv
  exact (memR_closed hv.2 hm).1

/-- The same for any candidate state set (the exploration itself is untrusted). -/
theorem verifyWith_sound (code : List Node) (endOk : Bool) (R : Array (List AState))
    (hv : verifyWith code endOk R = true) (s : St) (hr : Reach code s) : safe code endOk s = true := by
  have hm := reach_memR hv hr
  unfold verifyWith at hv
  rw [Bool.and_eq_true] at hv
  exact (memR_closed hv.2 hm).1

/-- No underflow: at every reachable state the instruction about to execute has its operands above the entry height. -/
theorem verify_no_underflow (code : List Node) (endOk : Bool) (hv : verify code endOk = true)
    (s : St) (hr : Reach code s) (n : Node) (hn : code[s.pc]? = some n) : n.need ≤ s.h := by
  have hs := verify_sound code endOk hv s hr
  unfold safe at hs
  rw [hn] at hs
  simp only [Bool.and_eq_true, decide_eq_true_eq] at hs
  exact hs.1

/-- Frame slots: where the verifier accepts a unit whose nodes carry the slot requirement (`withSlotNeed`, as the
driver builds them), every reachable execution of `loadStack(l)` / `storeStack(l)` / `initStack(l)` &c. with `l > 0`
addresses a slot that exists below the operands: its position `l - 1 + base` in the normalised frame is smaller than
the height (loads), resp. smaller than the height minus the value being stored (stores) — so `stack[sb + args + l]`
is never beyond `sp`.  And the store variants that `panic("Illegal stack var index")` for `l ≤ 0` could only be reached with
such an operand at an abstract height of at least 2^30 (the verifier explores no such state: its per-pc cap is far
smaller, and the Go operand stack cannot get there). -/
theorem verify_slot_in_frame (code : List Node) (endOk : Bool) (hv : verify code endOk = true)
    (s : St) (hr : Reach code s) (base : Nat) (name : String) (ops : List (String × Int)) (n : Node)
    (hn : code[s.pc]? = some (withSlotNeed base name ops n)) :
    slotNeed base name ops ≤ s.h ∧
    (∀ l : Int, lookupOp ops "n" = l → 0 < l →
      (name ∈ ["loadStack", "loadStack1", "loadStackLex", "loadStack1Lex"] → l.toNat - 1 + base < s.h) ∧
      (name ∈ slotStores → l.toNat - 1 + base + 1 < s.h)) ∧
    (name ∈ slotPanicsNonPos → lookupOp ops "n" ≤ 0 → 1073741824 ≤ s.h) := by
  have h := verify_no_underflow code endOk hv s hr _ hn
  have hneed : slotNeed base name ops ≤ s.h := by
    simp only [withSlotNeed] at h
    omega
  refine ⟨hneed, ?_, ?_⟩
  · intro l hl hpos
    constructor
    · intro hm
      have hm' : slotLoads.contains name = true := by
        simp only [List.mem_cons, List.not_mem_nil, or_false] at hm
        rcases hm with rfl | rfl | rfl | rfl <;> decide
      have hnm : slotInIdx.contains name = false := by
        simp only [List.mem_cons, List.not_mem_nil, or_false] at hm
        rcases hm with rfl | rfl | rfl | rfl <;> decide
      simp only [slotNeed, hnm, hm', hl, hpos, if_true, Bool.false_eq_true, if_false] at hneed
      omega
    · intro hm
      have hm' : slotStores.contains name = true := List.contains_iff_mem.mpr hm
      have hnl : slotLoads.contains name = false := by
        simp only [slotStores, List.mem_cons, List.not_mem_nil, or_false] at hm
        rcases hm with rfl | rfl | rfl | rfl | rfl | rfl | rfl | rfl | rfl | rfl | rfl | rfl <;> decide
      have hnm : slotInIdx.contains name = false := by
        simp only [slotStores, List.mem_cons, List.not_mem_nil, or_false] at hm
        rcases hm with rfl | rfl | rfl | rfl | rfl | rfl | rfl | rfl | rfl | rfl | rfl | rfl <;> decide
      simp only [slotNeed, hnm, hm', hnl, hl, hpos, if_true, Bool.false_eq_true, if_false] at hneed
      omega
  · intro hm hle
    have hp : slotPanicsNonPos.contains name = true := List.contains_iff_mem.mpr hm
    have hst : slotStores.contains name = true := by
      simp only [slotPanicsNonPos, List.mem_cons, List.not_mem_nil, or_false] at hm
      rcases hm with rfl | rfl | rfl | rfl | rfl | rfl | rfl | rfl <;> decide
    have hnl : slotLoads.contains name = false := by
      simp only [slotPanicsNonPos, List.mem_cons, List.not_mem_nil, or_false] at hm
      rcases hm with rfl | rfl | rfl | rfl | rfl | rfl | rfl | rfl <;> decide
    have hnm : slotInIdx.contains name = false := by
      simp only [slotPanicsNonPos, List.mem_cons, List.not_mem_nil, or_false] at hm
      rcases hm with rfl | rfl | rfl | rfl | rfl | rfl | rfl | rfl <;> decide
    have hnp : ¬ (0 < lookupOp ops "n") := by omega
    simp only [slotNeed, hnm, hst, hnl, hp, hnp, if_true, if_false, Bool.false_eq_true] at hneed
    exact hneed

/-- Halting: a run that leaves the code does so exactly at its end, at the entry height, with no open try frame and
no pending variadic marker. -/
theorem verify_halt_height (code : List Node) (endOk : Bool) (hv : verify code endOk = true)
    (s : St) (hr : Reach code s) (hn : code[s.pc]? = none) :
    s.pc = code.length ∧ s.h = 0 ∧ s.fs = [] ∧ s.vs = [] ∧ endOk = true := by
  have hs := verify_sound code endOk hv s hr
  unfold safe at hs
  rw [hn] at hs
  simp only [Bool.and_eq_true, decide_eq_true_eq, List.isEmpty_iff] at hs
  exact ⟨hs.1.1.1.2, hs.1.1.2, hs.1.2, hs.2, hs.1.1.1.1⟩

/-- Returning: a `ret` is only reached with the return value on the stack and all try frames left. -/
theorem verify_ret_height (code : List Node) (endOk : Bool) (hv : verify code endOk = true)
    (s : St) (hr : Reach code s) (need : Nat) (es : List (Int × Int)) (hn : code[s.pc]? = some ⟨need, es, .ret⟩) :
    1 ≤ s.h ∧ s.fs = [] := by
  have hs := verify_sound code endOk hv s hr
  unfold safe at hs
  rw [hn] at hs
  simp only [Bool.and_eq_true, decide_eq_true_eq, List.isEmpty_iff] at hs
  exact ⟨hs.2.1, hs.2.2⟩

/-- Handlers are entered with the frame's saved height: the state produced by a throw has the height saved in the
frame (+1 for the exception value in a catch). (Property of the machine = the mechanism of vm.handleThrow.) -/
theorem unwind_height (code : List Node) (fr : Frame) (rest : List Frame) (s' : St)
    (hs : s' ∈ unwind code (fr :: rest)) (harm : fr.cArmed = true ∨ fr.fArmed = true) :
    (fr.cArmed = true → s'.h = fr.h + 1) ∧ (fr.cArmed = false → s'.h = fr.h) := by
  unfold unwind at hs
  rcases harm with hc | hf
  · simp [hc] at hs
    subst hs
    simp [hc]
  · cases hc : fr.cArmed
    · simp [hc, hf] at hs
      subst hs
      simp
    · simp [hc] at hs
      subst hs
      simp

/-! ### (b') scope analysis: stash levels -/

/-- For every scope that satisfies the compiler's invariants, the compile-time predicate that counts it as a stash
level (`scope.hasStash`, compiler.go:909) is true exactly when the VM creates a stash on entering it (enterBlock /
enterCatchBlock / enterFunc* / enterFuncBody / enterWith / class initialiser). Three host crashes were violations of
exactly this equation. -/
theorem stash_level_iff_runtime_stash (s : Scope.Scope) (w : Scope.WF s) :
    Scope.hasStash s = Scope.createsStash s :=
  Scope.hasStash_eq_createsStash s w

/-- Hence the level computed by finaliseVarAlloc for an access equals the number of stashes that really lie between
the access and the owner of the binding, for scope chains of ANY length. -/
theorem stash_level_counts_runtime_stashes (chain : List Scope.Scope) (w : ∀ s ∈ chain, Scope.WF s) :
    (Scope.rtStashes chain).length = Scope.level chain :=
  Scope.rtStashes_length chain w

/-- Every emitted stash access `(level, idx)` addresses an existing slot: `level` hops outwards from the innermost
run-time stash arrive at the stash of the scope that owns the binding, and `idx` lies inside it. -/
theorem stash_access_addresses_existing_slot (chain : List Scope.Scope) (owner : Scope.Scope) (outerRest : List Nat)
    (idx : Nat) (w : ∀ s ∈ chain, Scope.WF s) (wo : Scope.WF owner) (hidx : idx < Scope.stashSize owner) :
    ∃ sz, (Scope.rtStashes chain ++ Scope.rtStashes [owner] ++ outerRest)[Scope.level chain]? = some sz ∧ idx < sz :=
  Scope.stash_access_in_bounds chain owner outerRest idx w wo hidx

/-- regression lemma (the mechanism before ce8862e counted `needStash || isDynamic`): an anonymous class body marked by a
direct eval — a block scope with dynLookup and no bindings — was counted although no stash is created. -/
theorem stash_level_prefix_witness :
    let s : Scope.Scope := ⟨.block, false, true, false, false, false, false, 0, 0⟩
    (s.needStash || s.isDynamic) = true ∧ Scope.createsStash s = false ∧ Scope.hasStash s = false := by
  decide

/-! ### (c) -/

/-- Every documented payload kind is turned into a returned error (Exception or uncatchable error); none escapes. -/
theorem classify_total : ∀ p ∈ documentedRun, classifyRun p = .exception ∨ classifyRun p = .uncatchable := by
  decide

/-- Everything else re-panics: a payload outside the documented kinds is never swallowed or disguised. -/
theorem classify_repanics_rest (tag : String) :
    classifyRun (.other tag) = .repanic ∧ classifyCompile (.other tag) = .repanic := by
  constructor <;> rfl

/-- The compile boundary keeps exactly `*CompilerSyntaxError`. -/
theorem classify_compile (p : Payload) : classifyCompile p = .compileError ↔ p = .compilerSyntaxError := by
  cases p <;> simp [classifyCompile]

/-- Uncatchable payloads are never converted into a script-catchable exception (handleThrow's `ex == nil` path). -/
theorem classify_uncatchable_not_catchable (p : Payload) (h : asUncatchableOk p = true) :
    exceptionFromValueOk p = false := by
  cases p <;> simp_all [asUncatchableOk, exceptionFromValueOk]

/-! ### non-vacuity (tests on literals, labelled as such) -/

/-- test: the folded-AND expression of the repaired defect f6a1b71, `(0 && a, 2)` as an array element. -/
example : (emitG ⟨false⟩ (.array (.cons (.lit (.num 1)) (.cons
    (.comma (.logical .and (.lit (.num 0)) (.ident .lexVar "a")) (.lit (.num 2))) .nil))) true).height (.live 0)
    = some (.live 1) := by decide

/-- test: a small program with try/catch/finally is accepted by the verifier and reaches its end. -/
example : verify
    [⟨0, [], .tryI 4 7⟩, ⟨0, [(1, 1)], .plain⟩, ⟨1, [(1, -1)], .plain⟩, ⟨0, [(3, 0)], .plain⟩,
     ⟨1, [(1, -1)], .plain⟩, ⟨0, [(1, 0)], .plain⟩, ⟨0, [], .enterFinally⟩, ⟨0, [(1, 0)], .plain⟩,
     ⟨0, [], .leaveFinally⟩] true = true := by decide

/-- test: a stray push before the end is rejected. -/
example : verify [⟨0, [(1, 1)], .plain⟩] true = false := by decide

end GojaModel.C01
