import GojaModel.C01.EmitLemmas
/-! C01 (a): the structural induction over the mutual AST. -/
namespace GojaModel.C01

/-- the two faces of the putOnStack discipline for one expression -/
def Disc (cfg : Cfg) (e : Expr) : Prop :=
  (∀ h, HasHt (emitG cfg e true) h (h + 1)) ∧ (∀ h, HasHt (emitG cfg e false) h h)

theorem popUnless_t (h : Nat) : HasHt (popUnless true) h h := by simp only [popUnless, if_true]; exact HasHt.nil
theorem popUnless_f (h : Nat) : HasHt (popUnless false) (h + 1) h := by
  simp only [popUnless, Bool.false_eq_true, if_false]; ht_chain

/-- `pre` leaves exactly one value; then `popUnless p` gives the discipline -/
theorem disc_of_push {g : Bool → Code} {pre : Code} (hg : ∀ p, g p = .seq pre (popUnless p))
    (hpre : ∀ h, HasHt pre h (h + 1)) :
    (∀ h, HasHt (g true) h (h + 1)) ∧ (∀ h, HasHt (g false) h h) := by
  constructor
  · intro h; rw [hg]; exact HasHt.seq (hpre h) (popUnless_t _)
  · intro h; rw [hg]; exact HasHt.seq (hpre h) (popUnless_f _)

theorem cat_snoc_pop (cs : List Code) (p : Bool) :
    cat (cs ++ [popUnless p]) = .seq (cat cs) (popUnless p) ∨ True := Or.inr trivial

mutual
theorem emitG_disc (cfg : Cfg) : (e : Expr) → Disc cfg e
  | .lit _ => by
      constructor <;> intro h <;> simp only [emitG, onlyIf, if_true, Bool.false_eq_true, if_false] <;> ht_chain
  | .ident c _ => ⟨fun h => by simp only [emitG]; exact emitIdentGet_t c h, fun h => by simp only [emitG]; exact emitIdentGet_f c h⟩
  | .this => by
      constructor <;> intro h <;> simp only [emitG, popUnless, if_true, Bool.false_eq_true, if_false] <;> ht_chain
  | .unary op e => by
      have ih := emitG_disc cfg e
      have ft := foldOr_t (e := e) ih.1
      have ff := foldOr_f (e := e) ih.2
      constructor <;> intro h <;> cases op <;>
        simp only [emitG, cat, onlyIf, popUnless, if_true, Bool.false_eq_true, if_false]
      all_goals first
        | (refine HasHt.seq (ih.1 _) ?_; ht_chain)
        | (refine HasHt.seq (ft _) ?_; ht_chain)
        | (refine HasHt.seq (ff _) ?_; ht_chain)
  | .typeofId c _ => by
      constructor <;> intro h <;> cases c <;>
        simp only [emitG, cat, popUnless, if_true, Bool.false_eq_true, if_false]
      all_goals first
        | ht_chain
        | (refine HasHt.seq (emitIdentGet_t _ _) ?_; ht_chain)
  | .deleteId c _ => by
      constructor <;> intro h <;> cases c <;>
        simp only [emitG, onlyIf, popUnless, if_true, Bool.false_eq_true, if_false] <;> ht_chain
  | .deleteDot l _ => by
      have ih := emitG_disc cfg l
      constructor <;> intro h <;> simp only [emitG, cat, popUnless, if_true, Bool.false_eq_true, if_false] <;>
        (refine HasHt.seq (ih.1 _) ?_; ht_chain)
  | .deleteIndex l m => by
      have ihl := emitG_disc cfg l
      have ihm := emitG_disc cfg m
      constructor <;> intro h <;> simp only [emitG, cat, popUnless, if_true, Bool.false_eq_true, if_false] <;>
        (refine HasHt.seq (ihl.1 _) (HasHt.seq (ihm.1 _) ?_); ht_chain)
  | .deleteCall e => by
      have ih := emitG_disc cfg e
      constructor <;> intro h <;> simp only [emitG, onlyIf, if_true, Bool.false_eq_true, if_false] <;>
        (refine HasHt.seq (ih.2 _) ?_; ht_chain)
  | .deleteOther _ => by
      constructor <;> intro h <;> simp only [emitG, onlyIf, if_true, Bool.false_eq_true, if_false] <;> ht_chain
  | .updateId inc post c _ =>
      ⟨fun h => by simp only [emitG]; exact emitUnaryId_t cfg c post keeps1_prep (keeps1_inc inc) h,
       fun h => by simp only [emitG]; exact emitUnaryId_f cfg c post (keeps1_inc inc) h⟩
  | .updateDot inc post l _ => by
      have ih := emitG_disc cfg l
      exact ⟨fun h => by simp only [emitG]; exact emitUnaryDot_t cfg post ih.1 keeps1_prep (keeps1_inc inc) h,
             fun h => by simp only [emitG]; exact emitUnaryDot_f cfg post ih.1 (keeps1_inc inc) h⟩
  | .updateIndex inc post l m => by
      have ihl := emitG_disc cfg l
      have ihm := emitG_disc cfg m
      exact ⟨fun h => by simp only [emitG]; exact emitUnaryIndex_t cfg post ihl.1 ihm.1 keeps1_prep (keeps1_inc inc) h,
             fun h => by simp only [emitG]; exact emitUnaryIndex_f cfg post ihl.1 ihm.1 (keeps1_inc inc) h⟩
  | .binary op l r => by
      have ihl := emitG_disc cfg l
      have ihr := emitG_disc cfg r
      have fl := foldOr_t (e := l) ihl.1
      have fr := foldOr_t (e := r) ihr.1
      constructor <;> intro h <;> simp only [emitG, cat, popUnless, if_true, Bool.false_eq_true, if_false] <;>
        (refine HasHt.seq (fl _) (HasHt.seq (fr _) ?_); ht_chain)
  | .logical op l r => by
      have ihl := emitG_disc cfg l
      have ihr := emitG_disc cfg r
      have flt := foldOr_t (e := l) ihl.1
      have frt := foldOr_t (e := r) ihr.1
      have frf := foldOr_f (e := r) ihr.2
      constructor <;> intro h <;> simp only [emitG]
      · split
        · split
          · split
            · simp only [onlyIf, if_true]; ht_chain
            · exact frt h
          · exact emitThrow_ht _ _ _
        · simp only [cat, popUnless, if_true]
          refine HasHt.seq (k1 := h + 1) ?_ (HasHt.seq (k1 := h + 1) ?_ (HasHt.seq HasHt.nil HasHt.nil))
          · cases op
            · exact ihl.1 h
            · exact flt h
            · exact flt h
          · cases op <;>
            · refine HasHt.fwd' (by ht_arith) (by ht_arith) (by ht_arith) ?_ (by ht_arith)
              exact HasHt.conv (frt _) (by ht_arith)
      · split
        · split
          · split
            · simp only [onlyIf, Bool.false_eq_true, if_false]; exact HasHt.nil
            · exact frf h
          · exact emitThrow_ht _ _ _
        · simp only [cat, popUnless, Bool.false_eq_true, if_false]
          refine HasHt.seq (k1 := h + 1) ?_ (HasHt.seq (k1 := h + 1) ?_ (by ht_chain))
          · cases op
            · exact ihl.1 h
            · exact flt h
            · exact flt h
          · cases op <;>
            · refine HasHt.fwd' (by ht_arith) (by ht_arith) (by ht_arith) ?_ (by ht_arith)
              exact HasHt.conv (frt _) (by ht_arith)
  | .cond t a b => by
      have iht := emitG_disc cfg t
      have iha := emitG_disc cfg a
      have ihb := emitG_disc cfg b
      constructor <;> intro h <;> simp only [emitG] <;> refine HasHt.seq (iht.1 _) ?_
      · refine HasHt.ifElse (by ht_arith) (by ht_arith) (by ht_arith) ?_ ?_
        · exact HasHt.conv (iha.1 _) (by ht_arith)
        · exact HasHt.conv (ihb.1 _) (by ht_arith)
      · refine HasHt.ifElse (by ht_arith) (by ht_arith) (by ht_arith) ?_ ?_
        · exact HasHt.conv (iha.2 _) (by ht_arith)
        · exact HasHt.conv (ihb.2 _) (by ht_arith)
  | .comma a b => by
      have iha := emitG_disc cfg a
      have ihb := emitG_disc cfg b
      exact ⟨fun h => by simp only [emitG]; exact HasHt.seq (iha.2 _) (ihb.1 _),
             fun h => by simp only [emitG]; exact HasHt.seq (iha.2 _) (ihb.2 _)⟩
  | .assignId c _ r => by
      have ih := emitG_disc cfg r
      have fr := foldOr_t (e := r) ih.1
      exact ⟨fun h => by simp only [emitG]; exact emitVarSetter1_t cfg c _ 0 (fun _ h' => fr h') h,
             fun h => by simp only [emitG]; exact emitVarSetter1_f cfg c _ (fun _ h' => fr h') h⟩
  | .assignDot l _ r => by
      have ihl := emitG_disc cfg l
      have ihr := emitG_disc cfg r
      constructor <;> intro h <;> simp only [emitG, cat, if_true, Bool.false_eq_true, if_false] <;>
        (refine HasHt.seq (ihl.1 _) (HasHt.seq (ihr.1 _) ?_); ht_chain)
  | .assignIndex l m r => by
      have ihl := emitG_disc cfg l
      have ihm := emitG_disc cfg m
      have ihr := emitG_disc cfg r
      constructor <;> intro h <;> simp only [emitG, cat, if_true, Bool.false_eq_true, if_false] <;>
        (refine HasHt.seq (ihl.1 _) (HasHt.seq (ihm.1 _) (HasHt.seq (ihr.1 _) ?_)); ht_chain)
  | .assignOpId op c _ r => by
      have ih := emitG_disc cfg r
      exact ⟨fun h => by simp only [emitG]; exact emitUnaryId_t cfg c false keeps1_nil (keeps1_binop op ih.1) h,
             fun h => by simp only [emitG]; exact emitUnaryId_f cfg c false (keeps1_binop op ih.1) h⟩
  | .assignOpDot op l _ r => by
      have ihl := emitG_disc cfg l
      have ih := emitG_disc cfg r
      exact ⟨fun h => by simp only [emitG]; exact emitUnaryDot_t cfg false ihl.1 keeps1_nil (keeps1_binop op ih.1) h,
             fun h => by simp only [emitG]; exact emitUnaryDot_f cfg false ihl.1 (keeps1_binop op ih.1) h⟩
  | .assignOpIndex op l m r => by
      have ihl := emitG_disc cfg l
      have ihm := emitG_disc cfg m
      have ih := emitG_disc cfg r
      exact ⟨fun h => by simp only [emitG]; exact emitUnaryIndex_t cfg false ihl.1 ihm.1 keeps1_nil (keeps1_binop op ih.1) h,
             fun h => by simp only [emitG]; exact emitUnaryIndex_f cfg false ihl.1 ihm.1 (keeps1_binop op ih.1) h⟩
  | .assignLogId op c _ r => by
      have ih := emitG_disc cfg r
      have fr := foldOr_t (e := r) ih.1
      exact ⟨fun h => by simp only [emitG]; exact emitAssignLog_t op (emitVarRef_ht cfg c) fr h,
             fun h => by simp only [emitG]; exact emitAssignLog_f op (emitVarRef_ht cfg c) fr h⟩
  | .assignLogDot op l _ r => by
      have ihl := emitG_disc cfg l
      have ih := emitG_disc cfg r
      have href : ∀ h, HasHt (.seq (emitG cfg l true) (.ins ⟨strictName cfg "getPropRef", 0, 1, 1, 0, false⟩)) h h := by
        intro h; refine HasHt.seq (ihl.1 _) ?_; ht_chain
      exact ⟨fun h => by simp only [emitG]; exact emitAssignLog_t op href ih.1 h,
             fun h => by simp only [emitG]; exact emitAssignLog_f op href ih.1 h⟩
  | .assignLogIndex op l m r => by
      have ihl := emitG_disc cfg l
      have ihm := emitG_disc cfg m
      have ih := emitG_disc cfg r
      have href : ∀ h, HasHt (cat [emitG cfg l true, emitG cfg m true,
          .ins ⟨strictName cfg "_getElemRef", 0, 2, 2, 0, false⟩]) h h := by
        intro h; simp only [cat]; refine HasHt.seq (ihl.1 _) (HasHt.seq (ihm.1 _) ?_); ht_chain
      exact ⟨fun h => by simp only [emitG]; exact emitAssignLog_t op href ih.1 h,
             fun h => by simp only [emitG]; exact emitAssignLog_f op href ih.1 h⟩
  | .dot e _ => by
      have ih := emitG_disc cfg e
      constructor <;> intro h <;> simp only [emitG, cat, popUnless, if_true, Bool.false_eq_true, if_false] <;>
        (refine HasHt.seq (ih.1 _) ?_; ht_chain)
  | .index e m => by
      have ihe := emitG_disc cfg e
      have ihm := emitG_disc cfg m
      constructor <;> intro h <;> simp only [emitG, cat, popUnless, if_true, Bool.false_eq_true, if_false] <;>
        (refine HasHt.seq (ihe.1 _) (HasHt.seq (ihm.1 _) ?_); ht_chain)
  | .callDot l _ a => by
      have ihl := emitG_disc cfg l
      have iha := emitArgs_ht cfg a
      constructor <;> intro h <;> simp only [emitG, cat, popUnless, if_true, Bool.false_eq_true, if_false] <;>
        (refine HasHt.seq (ihl.1 _) (HasHt.seq (k1 := h + 2) (by ht_chain) (HasHt.seq (iha _) ?_)); ht_chain)
  | .callIndex l m a => by
      have ihl := emitG_disc cfg l
      have ihm := emitG_disc cfg m
      have iha := emitArgs_ht cfg a
      constructor <;> intro h <;> simp only [emitG, cat, popUnless, if_true, Bool.false_eq_true, if_false] <;>
        (refine HasHt.seq (ihl.1 _) (HasHt.seq (ihm.1 _) (HasHt.seq (k1 := h + 2) (by ht_chain) (HasHt.seq (iha _) ?_)));
         ht_chain)
  | .callId c _ a => by
      have iha := emitArgs_ht cfg a
      have hc : ∀ h, HasHt (match c with
            | .global => Code.ins ⟨"loadDynamicCallee", 0, 0, 0, 2, false⟩
            | .dynBound => .ins ⟨"loadMixed", 1, 0, 0, 2, false⟩
            | c => .seq (.ins iLoadUndef) (emitIdentGet c true)) h (h + 2) := by
        intro h
        cases c <;> simp only
        all_goals first
          | ht_chain
          | (refine HasHt.seq (k1 := h + 1) (by ht_chain) (emitIdentGet_t _ _))
      constructor <;> intro h <;> simp only [emitG, cat, popUnless, if_true, Bool.false_eq_true, if_false] <;>
        (refine HasHt.seq (hc _) (HasHt.seq (iha _) ?_); ht_chain)
  | .callOther f a => by
      have ihf := emitG_disc cfg f
      have iha := emitArgs_ht cfg a
      constructor <;> intro h <;> simp only [emitG, cat, popUnless, if_true, Bool.false_eq_true, if_false] <;>
        (refine HasHt.seq (k1 := h + 1) (by ht_chain) (HasHt.seq (ihf.1 _) (HasHt.seq (iha _) ?_)); ht_chain)
  | .new f a => by
      have ihf := emitG_disc cfg f
      have iha := emitArgs_ht cfg a
      constructor <;> intro h <;> simp only [emitG, cat, popUnless, if_true, Bool.false_eq_true, if_false] <;>
        (refine HasHt.seq (ihf.1 _) (HasHt.seq (iha _) ?_); ht_chain)
  | .array els => by
      have ih := emitElems_ht cfg els
      constructor <;> intro h <;> simp only [emitG, cat, popUnless, if_true, Bool.false_eq_true, if_false] <;>
        (refine HasHt.seq (k1 := h + 1) (by ht_chain) (HasHt.seq (ih _) ?_); ht_chain)
  | .object ps => by
      have ih := emitProps_ht cfg ps
      constructor <;> intro h <;> simp only [emitG, cat, popUnless, if_true, Bool.false_eq_true, if_false] <;>
        (refine HasHt.seq (k1 := h + 1) (by ht_chain) (HasHt.seq (ih _) ?_); ht_chain)
  | .template head first rest tail => by
      have ihf := emitG_disc cfg first
      have ihq := emitQuasis_ht cfg rest
      constructor <;> intro h <;> cases head <;> cases tail <;>
        simp only [emitG, cat, onlyIf, popUnless, if_true, Bool.false_eq_true, if_false]
      all_goals
        first
        | (refine HasHt.seq HasHt.nil (HasHt.seq (ihf.1 _) (HasHt.seq (k1 := h + 1) (by ht_chain) (HasHt.seq (ihq _) ?_))); ht_chain)
        | (refine HasHt.seq (k1 := h + 1) (by ht_chain) (HasHt.seq (ihf.1 _) (HasHt.seq (k1 := h + 2) (by ht_chain) (HasHt.seq (ihq _) ?_))); ht_chain)
theorem emitArgs_ht (cfg : Cfg) : (a : Args) → ∀ h, HasHt (emitArgs cfg a) h (h + argsLen a)
  | .nil => fun h => by simp only [emitArgs, argsLen]; exact HasHt.nil
  | .cons e rest => fun h => by
      have ihe := emitG_disc cfg e
      have ihr := emitArgs_ht cfg rest
      simp only [emitArgs, argsLen]
      exact HasHt.seq (ihe.1 _) (HasHt.conv (ihr _) (by omega))
theorem emitElems_ht (cfg : Cfg) : (els : Elems) → ∀ h, HasHt (emitElems cfg els) (h + 1) (h + 1)
  | .nil => fun h => by simp only [emitElems]; exact HasHt.nil
  | .hole rest => fun h => by
      have ihr := emitElems_ht cfg rest
      simp only [emitElems, cat]
      refine HasHt.seq (k1 := h + 2) (by ht_chain) (HasHt.seq (k1 := h + 1) (by ht_chain) (HasHt.seq (ihr _) HasHt.nil))
  | .cons e rest => fun h => by
      have ihe := emitG_disc cfg e
      have fe := foldOr_t (e := e) ihe.1
      have ihr := emitElems_ht cfg rest
      simp only [emitElems, cat]
      refine HasHt.seq (fe _) (HasHt.seq (k1 := h + 1) (by ht_chain) (HasHt.seq (ihr _) HasHt.nil))
theorem emitProps_ht (cfg : Cfg) : (ps : Props) → ∀ h, HasHt (emitProps cfg ps) (h + 1) (h + 1)
  | .nil => fun h => by simp only [emitProps]; exact HasHt.nil
  | .keyed _ v rest => fun h => by
      have ihv := emitG_disc cfg v
      have fv := foldOr_t (e := v) ihv.1
      have ihr := emitProps_ht cfg rest
      simp only [emitProps, cat]
      refine HasHt.seq (fv _) (HasHt.seq (k1 := h + 1) (by ht_chain) (HasHt.seq (ihr _) HasHt.nil))
  | .computed k v rest => fun h => by
      have ihk := emitG_disc cfg k
      have ihv := emitG_disc cfg v
      have fv := foldOr_t (e := v) ihv.1
      have ihr := emitProps_ht cfg rest
      simp only [emitProps]
      split
      · simp only [cat]
        refine HasHt.seq (fv _) (HasHt.seq (k1 := h + 1) (by ht_chain) (HasHt.seq (ihr _) HasHt.nil))
      · simp only [cat]
        refine HasHt.seq (ihk.1 _) (HasHt.seq (k1 := h + 2) (by ht_chain) (HasHt.seq (fv _)
          (HasHt.seq (k1 := h + 1) (by ht_chain) (HasHt.seq (ihr _) HasHt.nil))))
theorem emitQuasis_ht (cfg : Cfg) : (q : Quasis) → ∀ h, HasHt (emitQuasis cfg q) h (h + quasisCount q)
  | .nil => fun h => by simp only [emitQuasis, quasisCount]; exact HasHt.nil
  | .cons ne e rest => fun h => by
      have ihe := emitG_disc cfg e
      have ihr := emitQuasis_ht cfg rest
      cases ne <;> simp only [emitQuasis, quasisCount, cat, onlyIf, if_true, Bool.false_eq_true, if_false]
      · refine HasHt.seq HasHt.nil (HasHt.seq (ihe.1 _) (HasHt.seq (k1 := h + 1) (by ht_chain)
          (HasHt.seq (HasHt.conv (ihr _) (by omega)) HasHt.nil)))
      · refine HasHt.seq (k1 := h + 1) (by ht_chain) (HasHt.seq (ihe.1 _) (HasHt.seq (k1 := h + 2) (by ht_chain)
          (HasHt.seq (HasHt.conv (ihr _) (by omega)) HasHt.nil)))
end

end GojaModel.C01
