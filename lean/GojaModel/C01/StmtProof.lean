import GojaModel.C01.EmitProof
/-!
  C01 (a), statements: every statement of the modelled fragment is height-neutral — whatever `needResult` is, it
  needs nothing below its entry height, all its joining paths (if/else arms, loop back edges, loop exits) agree, and
  control leaves it with exactly the entry height.  By structural induction over the mutual Stmt/Stmts AST, on top of
  the expression discipline `emitG_disc`.
-/
namespace GojaModel.C01

theorem emitE_t (cfg : Cfg) (e : Expr) (h : Nat) : HasHt (emitE cfg e true) h (h + 1) :=
  foldOr_t (emitG_disc cfg e).1 h

theorem emitE_f (cfg : Cfg) (e : Expr) (h : Nat) : HasHt (emitE cfg e false) h h :=
  foldOr_f (emitG_disc cfg e).2 h

theorem pop1_ht {i : Instr} (h : Nat) (h1 : i.need = 1) (h2 : i.pops = 1) (h3 : i.pushes = 0) (h4 : i.term = false) :
    HasHt (.ins i) (h + 1) h := by
  apply HasHt.ins' <;> omega

theorem term1_ht {i : Instr} (h k : Nat) (h1 : i.need = 1) (h2 : i.pops = 1) (h4 : i.term = true) :
    HasHt (.ins i) (h + 1) k := by
  apply HasHt.term <;> omega

theorem clr_ht (nr : Bool) (h : Nat) : HasHt (clr nr) h h := by
  cases nr
  · simp only [clr, onlyIf, Bool.false_eq_true, if_false]; exact HasHt.nil
  · simp only [clr, onlyIf, if_true]
    apply HasHt.ins' <;> simp [iClearResult, op00]

theorem optG_ht (cfg : Cfg) (o : Option Expr) (h : Nat) : HasHt (optG cfg o) h h := by
  cases o
  · exact HasHt.nil
  · exact (emitG_disc cfg _).2 h

theorem emitVarInit_ht (cfg : Cfg) (c : IdClass) (init : Expr) (h : Nat) : HasHt (emitVarInit cfg c init) h h := by
  unfold emitVarInit
  split
  · simp only [cat]
    exact HasHt.seq (emitVarRef_ht cfg c h) (HasHt.seq (emitE_t cfg init h) (HasHt.seq (pop1_ht h rfl rfl rfl rfl) HasHt.nil))
  · exact HasHt.seq (emitE_t cfg init h) (pop1_ht h rfl rfl rfl rfl)

theorem emitForInit_ht (cfg : Cfg) (i : ForInit) (h : Nat) : HasHt (emitForInit cfg i) h h := by
  cases i with
  | none => exact HasHt.nil
  | expr e => exact (emitG_disc cfg e).2 h
  | var0 => exact HasHt.nil
  | varInit c e => exact emitVarInit_ht cfg c e h

theorem ifElse_jneP {a b : Code} {h k : Nat} (ha : HasHt a h k) (hb : HasHt b h k) : HasHt (.ifElse jneP a b) (h + 1) k := by
  have e1 : h + 1 - jneP.popFall = h := by simp [jneP]
  have e2 : h + 1 - jneP.popJump = h := by simp [jneP]
  exact HasHt.ifElse (by simp [jneP]) (by simp [jneP]) (by simp [jneP]) (e1 ▸ ha) (e2 ▸ hb)

theorem fwd_jneP {body : Code} {h : Nat} (hb : HasHt body h h) : HasHt (.fwd jneP body) (h + 1) h := by
  have e1 : h + 1 - jneP.popFall = h := by simp [jneP]
  have e2 : h + 1 - jneP.popJump = h := by simp [jneP]
  have hb' : HasHt body (h + 1 - jneP.popFall) (h + 1 - jneP.popJump) := by rw [e1, e2]; exact hb
  exact HasHt.fwd' (by simp [jneP]) (by simp [jneP]) (by simp [jneP]) hb' e2.symm

theorem loop_jneP {pre body : Code} {h : Nat} (hp : HasHt pre h (h + 1)) (hb : HasHt body h h) :
    HasHt (.loop jneP pre body) h h := by
  have e1 : h + 1 - jneP.popFall = h := by simp [jneP]
  have e2 : h + 1 - jneP.popJump = h := by simp [jneP]
  have hb' : HasHt body (h + 1 - jneP.popFall) h := by rw [e1]; exact hb
  exact HasHt.conv (HasHt.loop hp (by simp [jneP]) (by simp [jneP]) (by simp [jneP]) hb') e2

theorem doLoop_jeqP {body : Code} {h : Nat} (hb : HasHt body h (h + 1)) : HasHt (.doLoop jeqP body) h h := by
  have e1 : h + 1 - jeqP.popFall = h := by simp [jeqP]
  have e2 : h + 1 - jeqP.popJump = h := by simp [jeqP]
  exact HasHt.conv (HasHt.doLoop hb (by simp [jeqP]) (by simp [jeqP]) (by simp [jeqP]) e2) e1

mutual
theorem emitS_ht (cfg : Cfg) : (s : Stmt) → ∀ (nr : Bool) (h : Nat), HasHt (emitS cfg s nr) h h
  | .expr e, nr, h => by
    cases nr
    · simp only [emitS, onlyIf, Bool.false_eq_true, if_false]
      exact HasHt.seq (emitE_f cfg e h) HasHt.nil
    · simp only [emitS, onlyIf, if_true]
      exact HasHt.seq (emitE_t cfg e h) (pop1_ht h rfl rfl rfl rfl)
  | .empty, nr, h => by simp only [emitS]; exact clr_ht nr h
  | .varBare, _, h => by simp only [emitS]; exact HasHt.nil
  | .varInit c init, _, h => by simp only [emitS]; exact emitVarInit_ht cfg c init h
  | .block ss, nr, h => by simp only [emitS]; exact emitList_ht cfg ss _ _ h
  | .ifS t a, nr, h => by
    simp only [emitS]
    refine HasHt.seq (clr_ht nr h) ?_
    split
    · exact emitThrow_ht _ _ _
    · exact emitS_ht cfg a nr h
    · exact clr_ht nr h
    · refine HasHt.seq ((emitG_disc cfg t).1 h) ?_
      cases nr
      · simp only [Bool.false_eq_true, if_false]
        exact fwd_jneP (emitS_ht cfg a false h)
      · simp only [if_true]
        exact ifElse_jneP (emitS_ht cfg a true h) (clr_ht true h)
  | .ifElse t a b, nr, h => by
    simp only [emitS]
    refine HasHt.seq (clr_ht nr h) ?_
    split
    · exact emitThrow_ht _ _ _
    · exact emitS_ht cfg a nr h
    · exact emitS_ht cfg b nr h
    · exact HasHt.seq ((emitG_disc cfg t).1 h) (ifElse_jneP (emitS_ht cfg a nr h) (emitS_ht cfg b nr h))
  | .whileS t body, nr, h => by
    simp only [emitS]
    refine HasHt.seq (clr_ht nr h) ?_
    split
    · exact emitThrow_ht _ _ _
    · exact HasHt.nil
    · exact HasHt.forever (HasHt.seq (clr_ht nr h) (emitS_ht cfg body nr h))
    · exact loop_jneP ((emitG_disc cfg t).1 h) (HasHt.seq (clr_ht nr h) (emitS_ht cfg body nr h))
  | .doWhile body t, nr, h => by
    simp only [emitS, cat]
    exact doLoop_jeqP (HasHt.seq (clr_ht nr h) (HasHt.seq (emitS_ht cfg body nr h) (HasHt.seq (emitE_t cfg t h) HasHt.nil)))
  | .forS init test update body, nr, h => by
    have hbody : HasHt (cat [clr nr, emitS cfg body nr, optG cfg update]) h h := by
      simp only [cat]
      exact HasHt.seq (clr_ht nr h) (HasHt.seq (emitS_ht cfg body nr h) (HasHt.seq (optG_ht cfg update h) HasHt.nil))
    simp only [emitS]
    rw [show ∀ a b c, cat [a, b, c] = .seq a (.seq b (.seq c .nil)) from fun _ _ _ => rfl]
    refine HasHt.seq (emitForInit_ht cfg init h) (HasHt.seq (clr_ht nr h) (HasHt.seq ?_ HasHt.nil))
    cases test with
    | none => exact HasHt.forever hbody
    | some t =>
      simp only
      split
      · exact emitThrow_ht _ _ _
      · exact HasHt.nil
      · exact HasHt.forever hbody
      · exact loop_jneP ((emitG_disc cfg t).1 h) hbody
  | .ret none, _, h => by
    simp only [emitS]
    exact HasHt.seq (HasHt.ins' (i := iLoadUndef) (k := h + 1) (by simp [iLoadUndef, push1]) (by simp [iLoadUndef, push1])
      (by simp [iLoadUndef, push1]) (by simp [iLoadUndef, push1])) (term1_ht h h rfl rfl rfl)
  | .ret (some e), _, h => by
    simp only [emitS]
    exact HasHt.seq (emitE_t cfg e h) (term1_ht h h rfl rfl rfl)
  | .throwS e, _, h => by
    simp only [emitS]
    exact HasHt.seq ((emitG_disc cfg e).1 h) (term1_ht h h rfl rfl rfl)
theorem emitList_ht (cfg : Cfg) : (ss : Stmts) → ∀ (lp : Option Nat) (i h : Nat), HasHt (emitList cfg ss lp i) h h
  | .nil, _, _, h => by simp only [emitList]; exact HasHt.nil
  | .cons s r, lp, i, h => by
    simp only [emitList]
    exact HasHt.seq (emitS_ht cfg s _ h) (emitList_ht cfg r lp (i + 1) h)
end

end GojaModel.C01
