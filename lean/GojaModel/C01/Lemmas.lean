import GojaModel.C01.Model
/-!
  C01 helper lemmas: (b) closure check ⇒ invariant; (a) a relational height judgement `HasHt` for structured
  code, its soundness w.r.t. the executable `Code.height`, and composition lemmas for the emitter's helpers.
-/
namespace GojaModel.C01

/-! ### (b) verifier -/

theorem memR_closed {code : List Node} {endOk : Bool} {R : Array (List AState)} {s : St}
    (hc : checkClosed code endOk R = true) (hm : memR R s = true) :
    safe code endOk s = true ∧ ∀ s' ∈ succs code s, memR R s' = true := by
  unfold memR at hm
  split at hm
  · rename_i l hl
    have hmem : (s.h, s.vs, s.fs) ∈ l := List.contains_iff_mem.mp hm
    have hlt : s.pc < R.size := by
      apply Classical.byContradiction
      intro hn
      have : R[s.pc]? = none := Array.getElem?_eq_none (Nat.le_of_not_lt hn)
      rw [this] at hl
      cases hl
    have h1 := List.all_eq_true.mp hc s.pc (List.mem_range.mpr hlt)
    simp only [hl, Option.getD_some] at h1
    have h2 := List.all_eq_true.mp h1 _ hmem
    unfold closedAt at h2
    rw [Bool.and_eq_true] at h2
    cases s
    exact ⟨h2.1, fun s' hs' => List.all_eq_true.mp h2.2 s' hs'⟩
  · cases hm

theorem reach_memR {code : List Node} {endOk : Bool} {R : Array (List AState)}
    (hv : verifyWith code endOk R = true) {s : St} (hr : Reach code s) : memR R s = true := by
  unfold verifyWith at hv
  rw [Bool.and_eq_true] at hv
  induction hr with
  | init => exact hv.1
  | step _ hs ih => exact (memR_closed hv.2 ih).2 _ hs

/-! ### (a) relational height judgement -/

/-- `HasHt c h k`: if control enters `c` with `h` operands above the entry height then no instruction of `c`
underflows, all joining paths agree, and if control leaves `c` at its end it does so with `k` operands. -/
inductive HasHt : Code → Nat → Nat → Prop
  | nil {h} : HasHt .nil h h
  | ins {i : Instr} {h} : i.need ≤ h → i.pops ≤ i.need → i.term = false → HasHt (.ins i) h (h - i.pops + i.pushes)
  | term {i : Instr} {h k} : i.need ≤ h → i.pops ≤ i.need → i.term = true → HasHt (.ins i) h k
  | seq {a b h k1 k2} : HasHt a h k1 → HasHt b k1 k2 → HasHt (.seq a b) h k2
  | fwd {j : JKind} {body h} : j.need ≤ h → j.popJump ≤ j.need → j.popFall ≤ j.need →
      HasHt body (h - j.popFall) (h - j.popJump) → HasHt (.fwd j body) h (h - j.popJump)
  | ifElse {j : JKind} {a b h k} : j.need ≤ h → j.popJump ≤ j.need → j.popFall ≤ j.need →
      HasHt a (h - j.popFall) k → HasHt b (h - j.popJump) k → HasHt (.ifElse j a b) h k
  -- loops: the entry height is the loop invariant (every back edge arrives with it)
  | loop {j : JKind} {pre body h k1} : HasHt pre h k1 → j.need ≤ k1 → j.popJump ≤ j.need → j.popFall ≤ j.need →
      HasHt body (k1 - j.popFall) h → HasHt (.loop j pre body) h (k1 - j.popJump)
  | forever {body h k} : HasHt body h h → HasHt (.forever body) h k
  | doLoop {j : JKind} {body h k1} : HasHt body h k1 → j.need ≤ k1 → j.popJump ≤ j.need → j.popFall ≤ j.need →
      k1 - j.popJump = h → HasHt (.doLoop j body) h (k1 - j.popFall)

theorem HasHt.conv {c h k k'} (hh : HasHt c h k) (e : k = k') : HasHt c h k' := e ▸ hh

/-- "if live then exactly `k`" -/
def Post (r : Option Ht) (k : Nat) : Prop := r = some .dead ∨ r = some (.live k)

theorem height_dead (c : Code) : c.height .dead = some .dead := by
  induction c with
  | nil => rfl
  | ins i => rfl
  | seq a b iha ihb => simp [Code.height, iha, ihb]
  | fwd j body _ => rfl
  | ifElse j a b _ _ => rfl
  | loop j pre body _ _ => rfl
  | forever body _ => rfl
  | doLoop j body _ => rfl

theorem join_post {x y : Ht} {k : Nat} (hx : x = .dead ∨ x = .live k) (hy : y = .dead ∨ y = .live k) :
    Post (x.join y) k := by
  rcases hx with rfl | rfl <;> rcases hy with rfl | rfl <;> simp [Ht.join, Post]

theorem post_cases {r : Option Ht} {k : Nat} (hp : Post r k) : ∃ x, r = some x ∧ (x = .dead ∨ x = .live k) := by
  rcases hp with h | h
  · exact ⟨_, h, Or.inl rfl⟩
  · exact ⟨_, h, Or.inr rfl⟩

/-- The relational judgement is sound for the executable height function. -/
theorem HasHt.sound {c h k} (hh : HasHt c h k) : Post (c.height (.live h)) k := by
  induction hh with
  | nil => exact Or.inr rfl
  | ins h1 h2 h3 => right; simp [Code.height, h1, h2, h3]
  | term h1 h2 h3 => left; simp [Code.height, h1, h2, h3]
  | seq _ _ iha ihb =>
    rcases iha with ha | ha
    · left; simp [Code.height, ha, height_dead]
    · rcases ihb with hb | hb
      · left; simp [Code.height, ha, hb]
      · right; simp [Code.height, ha, hb]
  | @fwd j body h h1 h2 h3 _ ih =>
    obtain ⟨x, hx, hx'⟩ := post_cases ih
    have := join_post hx' (Or.inr rfl : (Ht.live (h - j.popJump)) = Ht.dead ∨ (Ht.live (h - j.popJump)) = Ht.live (h - j.popJump))
    simp only [Code.height, h1, h2, h3, and_self, if_true, hx, Option.bind_some]
    exact this
  | @ifElse j a b h k h1 h2 h3 _ _ iha ihb =>
    obtain ⟨x, hx, hx'⟩ := post_cases iha
    obtain ⟨y, hy, hy'⟩ := post_cases ihb
    have := join_post hx' hy'
    simp only [Code.height, h1, h2, h3, and_self, if_true, hx, hy, Option.bind_some]
    exact this
  | @loop j pre body h k1 _ h1 h2 h3 _ iha ihb =>
    rcases iha with ha | ha
    · left; simp [Code.height, ha]
    · rcases ihb with hb | hb
      · right; simp [Code.height, ha, hb, h1, h2, h3]
      · right; simp [Code.height, ha, hb, h1, h2, h3]
  | @forever body h k _ ih =>
    rcases ih with hb | hb
    · left; simp [Code.height, hb]
    · left; simp [Code.height, hb]
  | @doLoop j body h k1 _ h1 h2 h3 h4 ih =>
    rcases ih with hb | hb
    · left; simp [Code.height, hb]
    · right; simp [Code.height, hb, h1, h2, h3, h4]

end GojaModel.C01
