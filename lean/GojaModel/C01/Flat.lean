import GojaModel.C01.Lemmas
/-!
  C01 (a)↔(b): the structured height judgement `HasHt` is sound for the FLAT code the compiler lays out
  (`Code.flat`, relative jump offsets) executed by the abstract machine of part (b).

  `RunIn code lo hi s t`: `t` is reachable from `s` by normal (non-throwing) machine steps all taken from program
  counters inside `[lo, hi)`.  `flat_sound`: if `HasHt c h k` and the nodes of `c.flat` sit at `[lo, lo + c.len)` of
  ANY code, then every such run from `(lo, h)` stays inside `[lo, lo + c.len]`, never changes the try frames or the
  variadic markers, finds the operands of every instruction it executes, and if it leaves the fragment it does so at
  its end with exactly `k` operands.
-/
namespace GojaModel.C01

/-- the nodes of the flattened code -/
def Code.nodes (c : Code) : List Node := c.flat.map (fun x => x.2.2)

theorem Code.nodes_length (c : Code) : c.nodes.length = c.len := by
  induction c with
  | nil => rfl
  | ins i => rfl
  | seq a b iha ihb => simp [Code.nodes, Code.flat, Code.len] at *; omega
  | fwd j body ih => simp [Code.nodes, Code.flat, Code.len] at *; omega
  | ifElse j a b iha ihb => simp [Code.nodes, Code.flat, Code.len] at *; omega
  | loop j pre body iha ihb => simp [Code.nodes, Code.flat, Code.len] at *; omega
  | forever body ih => simp [Code.nodes, Code.flat, Code.len] at *; omega
  | doLoop j body ih => simp [Code.nodes, Code.flat, Code.len] at *; omega

theorem Code.nodes_seq (a b : Code) : (Code.seq a b).nodes = a.nodes ++ b.nodes := by
  simp [Code.nodes, Code.flat]

theorem Code.nodes_fwd (j : JKind) (body : Code) :
    (Code.fwd j body).nodes = j.node (body.len + 1) :: body.nodes := by
  simp [Code.nodes, Code.flat]

theorem Code.nodes_ifElse (j : JKind) (a b : Code) :
    (Code.ifElse j a b).nodes = j.node (a.len + 2) :: (a.nodes ++ jumpNode (b.len + 1) :: b.nodes) := by
  simp [Code.nodes, Code.flat]

theorem Code.nodes_loop (j : JKind) (pre body : Code) :
    (Code.loop j pre body).nodes =
      pre.nodes ++ (j.node (body.len + 2) :: (body.nodes ++ [jumpBackNode (pre.len + 1 + body.len)])) := by
  simp [Code.nodes, Code.flat]

theorem Code.nodes_forever (body : Code) : (Code.forever body).nodes = body.nodes ++ [jumpBackNode body.len] := by
  simp [Code.nodes, Code.flat]

theorem Code.nodes_doLoop (j : JKind) (body : Code) : (Code.doLoop j body).nodes = body.nodes ++ [j.nodeBack body.len] := by
  simp [Code.nodes, Code.flat]

/-- the fragment `ns` sits at offset `lo` of `code` -/
def Placed (code : List Node) (lo : Nat) (ns : List Node) : Prop :=
  ∀ i (n : Node), ns[i]? = some n → code[lo + i]? = some n

theorem Placed.left {code lo} {a b : List Node} (h : Placed code lo (a ++ b)) : Placed code lo a := by
  intro i n hi
  apply h
  have hlt : i < a.length := (List.getElem?_eq_some_iff.mp hi).1
  rw [List.getElem?_append_left hlt]
  exact hi

theorem Placed.right {code lo} {a b : List Node} (h : Placed code lo (a ++ b)) : Placed code (lo + a.length) b := by
  intro i n hi
  have := h (a.length + i) n (by rw [List.getElem?_append_right (by omega)]; simpa using hi)
  rw [← Nat.add_assoc] at this
  exact this

theorem Placed.tail {code lo} {x : Node} {a : List Node} (h : Placed code lo (x :: a)) : Placed code (lo + 1) a := by
  intro i n hi
  have := h (i + 1) n (by simpa using hi)
  rw [show lo + (i + 1) = lo + 1 + i by omega] at this
  exact this

theorem Placed.head {code lo} {x : Node} {a : List Node} (h : Placed code lo (x :: a)) : code[lo]? = some x := by
  have := h 0 x (by simp)
  simpa using this

/-- runs by normal steps taken from pcs in `[lo, hi)` -/
inductive RunIn (code : List Node) (lo hi : Nat) : St → St → Prop
  | refl {s} : RunIn code lo hi s s
  | step {s t u} : RunIn code lo hi s t → lo ≤ t.pc → t.pc < hi → u ∈ stepNormal code t → RunIn code lo hi s u

/-- what `flat_sound` guarantees about every state of a run through a fragment `[lo, lo+len)` entered with `h`
operands, frames `fs`, markers `vs`, and leaving with `k` -/
structure Within (code : List Node) (lo len h k : Nat) (vs : List Nat) (fs : List Frame) (t : St) : Prop where
  lo_le : lo ≤ t.pc
  le_hi : t.pc ≤ lo + len
  vs_eq : t.vs = vs
  fs_eq : t.fs = fs
  exit_h : t.pc = lo + len → t.h = k
  need_ok : ∀ n, t.pc < lo + len → code[t.pc]? = some n → n.need ≤ t.h

/-- a plain node's normal successors -/
theorem stepNormal_plain {code : List Node} {t u : St} {n : Node} (hn : code[t.pc]? = some n) (hk : n.kind = .plain)
    (hu : u ∈ stepNormal code t) : ∃ e ∈ n.edges, edgeSucc t e = some u := by
  unfold stepNormal at hu
  rw [hn] at hu
  simp only [hk] at hu
  rw [List.mem_filterMap] at hu
  exact hu

theorem edgeSucc_eq {t u : St} {e : Int × Int} (h : edgeSucc t e = some u) :
    (u.pc : Int) = t.pc + e.1 ∧ (u.h : Int) = t.h + e.2 ∧ u.vs = t.vs ∧ u.fs = t.fs := by
  unfold edgeSucc at h
  simp only at h
  split at h
  · rename_i hc
    cases h
    refine ⟨?_, ?_, rfl, rfl⟩
    · simp only; omega
    · simp only; omega
  · cases h

theorem RunIn.empty {code : List Node} {lo : Nat} {s t : St} (hr : RunIn code lo lo s t) : t = s := by
  induction hr with
  | refl => rfl
  | step _ h1 h2 _ _ => omega

theorem RunIn.trans {code : List Node} {lo hi : Nat} {s t u : St} (h1 : RunIn code lo hi s t) (h2 : RunIn code lo hi t u) :
    RunIn code lo hi s u := by
  induction h2 with
  | refl => exact h1
  | step _ a b c ih => exact RunIn.step ih a b c

/-- splitting a run through `[lo, lo+la+lb)` at the boundary `lo+la`, given that runs through the first part stay
at or below it and runs through the second part stay at or above it -/
theorem RunIn.split {code : List Node} {lo la lb : Nat} {s0 t : St}
    (hA : ∀ t, RunIn code lo (lo + la) s0 t → t.pc ≤ lo + la)
    (hB : ∀ m, RunIn code lo (lo + la) s0 m → m.pc = lo + la →
          ∀ x, RunIn code (lo + la) (lo + la + lb) m x → lo + la ≤ x.pc)
    (hr : RunIn code lo (lo + la + lb) s0 t) :
    RunIn code lo (lo + la) s0 t ∨
    ∃ m, RunIn code lo (lo + la) s0 m ∧ m.pc = lo + la ∧ RunIn code (lo + la) (lo + la + lb) m t := by
  induction hr with
  | refl => exact Or.inl RunIn.refl
  | @step t u hst h1 h2 hu ih =>
    rcases ih with ha | ⟨m, hm, hmpc, hmt⟩
    · have hle := hA t ha
      by_cases hlt : t.pc < lo + la
      · exact Or.inl (RunIn.step ha h1 hlt hu)
      · have hpc : t.pc = lo + la := by omega
        exact Or.inr ⟨t, ha, hpc, RunIn.step RunIn.refl (by omega) h2 hu⟩
    · exact Or.inr ⟨m, hm, hmpc, RunIn.step hmt (hB m hm hmpc t hmt) h2 hu⟩

/-- successors of a plain node with a single edge -/
theorem succ_single {code : List Node} {t u : St} {need : Nat} {e : Int × Int}
    (hn : code[t.pc]? = some ⟨need, [e], .plain⟩) (hu : u ∈ stepNormal code t) : edgeSucc t e = some u := by
  obtain ⟨e', he', hs⟩ := stepNormal_plain hn rfl hu
  simp at he'
  subst he'
  exact hs

theorem succ_none {code : List Node} {t u : St} {need : Nat}
    (hn : code[t.pc]? = some ⟨need, [], .plain⟩) (hu : u ∈ stepNormal code t) : False := by
  obtain ⟨e', he', _⟩ := stepNormal_plain hn rfl hu
  simp at he'

theorem succ_two {code : List Node} {t u : St} {need : Nat} {e1 e2 : Int × Int}
    (hn : code[t.pc]? = some ⟨need, [e1, e2], .plain⟩) (hu : u ∈ stepNormal code t) :
    edgeSucc t e1 = some u ∨ edgeSucc t e2 = some u := by
  obtain ⟨e', he', hs⟩ := stepNormal_plain hn rfl hu
  simp at he'
  rcases he' with rfl | rfl
  · exact Or.inl hs
  · exact Or.inr hs

/-- Bridging theorem: the structured judgement is sound for the flat code run by the abstract machine. -/
theorem flat_sound {c : Code} {h k : Nat} (hh : HasHt c h k) :
    ∀ (code : List Node) (lo : Nat) (vs : List Nat) (fs : List Frame), Placed code lo c.nodes →
    ∀ t, RunIn code lo (lo + c.len) ⟨lo, h, vs, fs⟩ t → Within code lo c.len h k vs fs t := by
  induction hh with
  | @nil h =>
    intro code lo vs fs _ t hr
    have : t = ⟨lo, h, vs, fs⟩ := RunIn.empty (by simpa [Code.len] using hr)
    subst this
    exact ⟨Nat.le_refl _, by simp [Code.len], rfl, rfl, fun _ => rfl, fun n hlt _ => by simp [Code.len] at hlt⟩
  | @ins i h h1 h2 h3 =>
    intro code lo vs fs hp t hr
    have hn : code[lo]? = some ⟨i.need, [(1, (i.pushes : Int) - i.pops)], .plain⟩ := by
      have := hp 0 i.node (by simp [Code.nodes, Code.flat])
      simpa [Instr.node, h3] using this
    have inv : t = ⟨lo, h, vs, fs⟩ ∨ t = ⟨lo + 1, h - i.pops + i.pushes, vs, fs⟩ := by
      induction hr with
      | refl => exact Or.inl rfl
      | @step t u _ a b hu ih =>
        rcases ih with rfl | rfl
        · have he := edgeSucc_eq (succ_single (by simpa using hn) hu)
          right
          obtain ⟨e1, e2, e3, e4⟩ := he
          cases u
          simp only at e1 e2 e3 e4
          subst e3 e4
          congr <;> omega
        · simp [Code.len] at b
    rcases inv with rfl | rfl
    · refine ⟨Nat.le_refl _, by simp [Code.len], rfl, rfl, fun hx => by simp [Code.len] at hx, ?_⟩
      intro n _ hc
      rw [hn] at hc
      cases hc
      exact h1
    · exact ⟨by simp, by simp [Code.len], rfl, rfl, fun _ => rfl, fun n hlt _ => by simp [Code.len] at hlt⟩
  | @term i h k h1 h2 h3 =>
    intro code lo vs fs hp t hr
    have hn : code[lo]? = some ⟨i.need, [], .plain⟩ := by
      have := hp 0 i.node (by simp [Code.nodes, Code.flat])
      simpa [Instr.node, h3] using this
    have inv : t = ⟨lo, h, vs, fs⟩ := by
      induction hr with
      | refl => rfl
      | @step t u _ a b hu ih =>
        subst ih
        exact (succ_none (by simpa using hn) hu).elim
    subst inv
    refine ⟨Nat.le_refl _, by simp [Code.len], rfl, rfl, fun hx => by simp [Code.len] at hx, ?_⟩
    intro n _ hc
    rw [hn] at hc
    cases hc
    exact h1
  | @seq a b h k1 k2 _ _ iha ihb =>
    intro code lo vs fs hp t hr
    have hpa : Placed code lo a.nodes := by rw [Code.nodes_seq] at hp; exact hp.left
    have hpb : Placed code (lo + a.len) b.nodes := by
      rw [Code.nodes_seq] at hp
      have := hp.right
      rwa [Code.nodes_length] at this
    have hlen : lo + (Code.seq a b).len = lo + a.len + b.len := by simp [Code.len]; omega
    rw [hlen] at hr
    have hA := fun t ht => (iha code lo vs fs hpa t ht).le_hi
    have hB : ∀ m, RunIn code lo (lo + a.len) ⟨lo, h, vs, fs⟩ m → m.pc = lo + a.len →
        ∀ x, RunIn code (lo + a.len) (lo + a.len + b.len) m x → lo + a.len ≤ x.pc := by
      intro m hm hmpc x hx
      have wa := iha code lo vs fs hpa m hm
      have : m = ⟨lo + a.len, k1, vs, fs⟩ := by
        cases m
        simp only at hmpc
        have e1 := wa.exit_h (by simpa using hmpc)
        have e2 := wa.vs_eq
        have e3 := wa.fs_eq
        simp only at e1 e2 e3
        subst hmpc e1 e2 e3
        rfl
      subst this
      exact (ihb code (lo + a.len) vs fs hpb x hx).lo_le
    rcases RunIn.split hA hB hr with ha | ⟨m, hm, hmpc, hmt⟩
    · have wa := iha code lo vs fs hpa t ha
      refine ⟨wa.lo_le, by simp [Code.len]; have := wa.le_hi; omega, wa.vs_eq, wa.fs_eq, ?_, ?_⟩
      · intro hx
        -- t at the very end of the whole fragment while still an a-run: then b is empty there
        have hb0 : b.len = 0 := by simp [Code.len] at hx; have := wa.le_hi; omega
        have hta : t.pc = lo + a.len := by simp [Code.len] at hx; omega
        have hk1 : t.h = k1 := wa.exit_h hta
        have wb := ihb code (lo + a.len) vs fs hpb ⟨lo + a.len, k1, vs, fs⟩ RunIn.refl
        have := wb.exit_h (by simp [hb0])
        simpa [hk1] using this
      · intro n hlt hc
        by_cases hin : t.pc < lo + a.len
        · exact wa.need_ok n hin hc
        · have hta : t.pc = lo + a.len := by have := wa.le_hi; omega
          have hk1 : t.h = k1 := wa.exit_h hta
          have wb := ihb code (lo + a.len) vs fs hpb ⟨lo + a.len, k1, vs, fs⟩ RunIn.refl
          have := wb.need_ok n (by simp [Code.len] at hlt; simp; omega) (by simpa [hta] using hc)
          simpa [hk1] using this
    · have wa := iha code lo vs fs hpa m hm
      have hm' : m = ⟨lo + a.len, k1, vs, fs⟩ := by
        cases m
        simp only at hmpc
        have e1 := wa.exit_h (by simpa using hmpc)
        have e2 := wa.vs_eq
        have e3 := wa.fs_eq
        simp only at e1 e2 e3
        subst hmpc e1 e2 e3
        rfl
      subst hm'
      have wb := ihb code (lo + a.len) vs fs hpb t hmt
      refine ⟨by have := wb.lo_le; omega, by simp [Code.len]; have := wb.le_hi; omega, wb.vs_eq, wb.fs_eq, ?_, ?_⟩
      · intro hx
        exact wb.exit_h (by simp [Code.len] at hx; omega)
      · intro n hlt hc
        exact wb.need_ok n (by simp [Code.len] at hlt; omega) hc
  | @fwd j body h g1 g2 g3 _ ih =>
    intro code lo vs fs hp t hr
    rw [Code.nodes_fwd] at hp
    have hn : code[lo]? = some ⟨j.need, [(((body.len + 1 : Nat) : Int), -(j.popJump : Int)), (1, -(j.popFall : Int))], .plain⟩ := by
      simpa [JKind.node] using hp.head
    have hpb : Placed code (lo + 1) body.nodes := hp.tail
    -- every state is the entry, or a state of a body run, or the exit
    have inv : t = ⟨lo, h, vs, fs⟩ ∨ RunIn code (lo + 1) (lo + 1 + body.len) ⟨lo + 1, h - j.popFall, vs, fs⟩ t ∨
        t = ⟨lo + 1 + body.len, h - j.popJump, vs, fs⟩ := by
      induction hr with
      | refl => exact Or.inl rfl
      | @step t u _ a b hu ih' =>
        rcases ih' with rfl | hb | rfl
        · rcases succ_two (by simpa using hn) hu with he | he
          · obtain ⟨e1, e2, e3, e4⟩ := edgeSucc_eq he
            right; right
            cases u
            simp only at e1 e2 e3 e4
            subst e3 e4
            congr <;> omega
          · obtain ⟨e1, e2, e3, e4⟩ := edgeSucc_eq he
            right; left
            have : u = ⟨lo + 1, h - j.popFall, vs, fs⟩ := by
              cases u
              simp only at e1 e2 e3 e4
              subst e3 e4
              congr <;> omega
            subst this
            exact RunIn.refl
        · have wb := ih code (lo + 1) vs fs hpb t hb
          by_cases hlt : t.pc < lo + 1 + body.len
          · exact Or.inr (Or.inl (RunIn.step hb wb.lo_le hlt hu))
          · -- t is at the exit of the body = exit of the whole fragment: no step is taken from there
            simp [Code.len] at b
            have := wb.le_hi
            omega
        · simp [Code.len] at b
          omega
    rcases inv with rfl | hb | rfl
    · refine ⟨Nat.le_refl _, by simp [Code.len], rfl, rfl, fun hx => by simp [Code.len] at hx, ?_⟩
      intro n _ hc
      rw [hn] at hc
      cases hc
      exact g1
    · have wb := ih code (lo + 1) vs fs hpb t hb
      refine ⟨by have := wb.lo_le; omega, by simp [Code.len]; have := wb.le_hi; omega, wb.vs_eq, wb.fs_eq, ?_, ?_⟩
      · intro hx
        exact wb.exit_h (by simp [Code.len] at hx; omega)
      · intro n hlt hc
        exact wb.need_ok n (by simp [Code.len] at hlt; omega) hc
    · exact ⟨by simp; omega, by simp [Code.len]; omega, rfl, rfl, fun _ => rfl,
        fun n hlt _ => by simp [Code.len] at hlt; omega⟩
  | @ifElse j a b h k g1 g2 g3 _ _ iha ihb =>
    intro code lo vs fs hp t hr
    rw [Code.nodes_ifElse] at hp
    have hn : code[lo]? = some ⟨j.need, [(((a.len + 2 : Nat) : Int), -(j.popJump : Int)), (1, -(j.popFall : Int))], .plain⟩ := by
      simpa [JKind.node] using hp.head
    have hp1 : Placed code (lo + 1) (a.nodes ++ jumpNode (b.len + 1) :: b.nodes) := hp.tail
    have hpa : Placed code (lo + 1) a.nodes := hp1.left
    have hp2 : Placed code (lo + 1 + a.len) (jumpNode (b.len + 1) :: b.nodes) := by
      have := hp1.right
      rwa [Code.nodes_length] at this
    have hj : code[lo + 1 + a.len]? = some ⟨0, [(((b.len + 1 : Nat) : Int), 0)], .plain⟩ := by
      simpa [jumpNode] using hp2.head
    have hpb : Placed code (lo + 1 + a.len + 1) b.nodes := hp2.tail
    have hend : lo + (Code.ifElse j a b).len = lo + 1 + a.len + 1 + b.len := by simp [Code.len]; omega
    have inv : t = ⟨lo, h, vs, fs⟩ ∨
        RunIn code (lo + 1) (lo + 1 + a.len) ⟨lo + 1, h - j.popFall, vs, fs⟩ t ∨
        RunIn code (lo + 1 + a.len + 1) (lo + 1 + a.len + 1 + b.len) ⟨lo + 1 + a.len + 1, h - j.popJump, vs, fs⟩ t ∨
        t = ⟨lo + 1 + a.len + 1 + b.len, k, vs, fs⟩ := by
      induction hr with
      | refl => exact Or.inl rfl
      | @step t u _ x y hu ih' =>
        rw [hend] at y
        rcases ih' with rfl | ha | hb | rfl
        · rcases succ_two (by simpa using hn) hu with he | he
          · obtain ⟨e1, e2, e3, e4⟩ := edgeSucc_eq he
            right; right; left
            have : u = ⟨lo + 1 + a.len + 1, h - j.popJump, vs, fs⟩ := by
              cases u
              simp only at e1 e2 e3 e4
              subst e3 e4
              congr <;> omega
            subst this
            exact RunIn.refl
          · obtain ⟨e1, e2, e3, e4⟩ := edgeSucc_eq he
            right; left
            have : u = ⟨lo + 1, h - j.popFall, vs, fs⟩ := by
              cases u
              simp only at e1 e2 e3 e4
              subst e3 e4
              congr <;> omega
            subst this
            exact RunIn.refl
        · have wa := iha code (lo + 1) vs fs hpa t ha
          by_cases hlt : t.pc < lo + 1 + a.len
          · exact Or.inr (Or.inl (RunIn.step ha wa.lo_le hlt hu))
          · -- t sits on the `jump` that follows the then-branch
            have hta : t.pc = lo + 1 + a.len := by have := wa.le_hi; omega
            have hk : t.h = k := wa.exit_h hta
            obtain ⟨e1, e2, e3, e4⟩ := edgeSucc_eq (succ_single (by simpa [hta] using hj) hu)
            right; right; right
            cases u
            cases t
            simp only at e1 e2 e3 e4 hta hk
            have v1 := wa.vs_eq
            have v2 := wa.fs_eq
            simp only at v1 v2
            subst e3 e4 v1 v2
            congr <;> omega
        · have wb := ihb code (lo + 1 + a.len + 1) vs fs hpb t hb
          by_cases hlt : t.pc < lo + 1 + a.len + 1 + b.len
          · exact Or.inr (Or.inr (Or.inl (RunIn.step hb wb.lo_le hlt hu)))
          · have := wb.le_hi
            omega
        · simp only at y
          omega
    rcases inv with rfl | ha | hb | rfl
    · refine ⟨Nat.le_refl _, by simp [Code.len], rfl, rfl, fun hx => by simp [Code.len] at hx, ?_⟩
      intro n _ hc
      rw [hn] at hc
      cases hc
      exact g1
    · have wa := iha code (lo + 1) vs fs hpa t ha
      refine ⟨by have := wa.lo_le; omega, by simp [Code.len]; have := wa.le_hi; omega, wa.vs_eq, wa.fs_eq, ?_, ?_⟩
      · intro hx
        have := wa.le_hi
        simp [Code.len] at hx
        omega
      · intro n hlt hc
        by_cases hin : t.pc < lo + 1 + a.len
        · exact wa.need_ok n hin hc
        · have hta : t.pc = lo + 1 + a.len := by have := wa.le_hi; omega
          rw [hta, hj] at hc
          cases hc
          exact Nat.zero_le _
    · have wb := ihb code (lo + 1 + a.len + 1) vs fs hpb t hb
      refine ⟨by have := wb.lo_le; omega, by simp [Code.len]; have := wb.le_hi; omega, wb.vs_eq, wb.fs_eq, ?_, ?_⟩
      · intro hx
        exact wb.exit_h (by simp [Code.len] at hx; omega)
      · intro n hlt hc
        exact wb.need_ok n (by simp [Code.len] at hlt; omega) hc
    · exact ⟨by simp; omega, by simp [Code.len]; omega, rfl, rfl, fun _ => rfl,
        fun n hlt _ => by simp [Code.len] at hlt; omega⟩
  | @loop j pre body h k1 _ g1 g2 g3 _ iha ihb =>
    intro code lo vs fs hp t hr
    rw [Code.nodes_loop] at hp
    have hpp : Placed code lo pre.nodes := hp.left
    have hp1 : Placed code (lo + pre.len)
        (j.node (body.len + 2) :: (body.nodes ++ [jumpBackNode (pre.len + 1 + body.len)])) := by
      have := hp.right
      rwa [Code.nodes_length] at this
    have hn : code[lo + pre.len]? = some ⟨j.need, [(((body.len + 2 : Nat) : Int), -(j.popJump : Int)), (1, -(j.popFall : Int))], .plain⟩ := by
      simpa [JKind.node] using hp1.head
    have hp2 : Placed code (lo + pre.len + 1) (body.nodes ++ [jumpBackNode (pre.len + 1 + body.len)]) := hp1.tail
    have hpb : Placed code (lo + pre.len + 1) body.nodes := hp2.left
    have hjb : code[lo + pre.len + 1 + body.len]? = some ⟨0, [(-((pre.len + 1 + body.len : Nat) : Int), 0)], .plain⟩ := by
      have := hp2.right
      rw [Code.nodes_length] at this
      simpa [jumpBackNode] using this.head
    have hend : lo + (Code.loop j pre body).len = lo + pre.len + 1 + body.len + 1 := by simp [Code.len]; omega
    -- every state is a state of a run through the test, or of a run through the body, or the exit
    have inv : RunIn code lo (lo + pre.len) ⟨lo, h, vs, fs⟩ t ∨
        RunIn code (lo + pre.len + 1) (lo + pre.len + 1 + body.len) ⟨lo + pre.len + 1, k1 - j.popFall, vs, fs⟩ t ∨
        t = ⟨lo + pre.len + 1 + body.len + 1, k1 - j.popJump, vs, fs⟩ := by
      induction hr with
      | refl => exact Or.inl RunIn.refl
      | @step t u _ x y hu ih' =>
        rw [hend] at y
        rcases ih' with ha | hb | rfl
        · have wa := iha code lo vs fs hpp t ha
          by_cases hlt : t.pc < lo + pre.len
          · exact Or.inl (RunIn.step ha wa.lo_le hlt hu)
          · -- t sits on the conditional exit jump
            have hta : t.pc = lo + pre.len := by have := wa.le_hi; omega
            have hk : t.h = k1 := wa.exit_h hta
            have v1 := wa.vs_eq
            have v2 := wa.fs_eq
            rcases succ_two (by simpa [hta] using hn) hu with he | he
            · obtain ⟨e1, e2, e3, e4⟩ := edgeSucc_eq he
              right; right
              cases u
              cases t
              simp only at e1 e2 e3 e4 hta hk v1 v2
              subst e3 e4 v1 v2
              congr <;> omega
            · obtain ⟨e1, e2, e3, e4⟩ := edgeSucc_eq he
              right; left
              have : u = ⟨lo + pre.len + 1, k1 - j.popFall, vs, fs⟩ := by
                cases u
                cases t
                simp only at e1 e2 e3 e4 hta hk v1 v2
                subst e3 e4 v1 v2
                congr <;> omega
              subst this
              exact RunIn.refl
        · have wb := ihb code (lo + pre.len + 1) vs fs hpb t hb
          by_cases hlt : t.pc < lo + pre.len + 1 + body.len
          · exact Or.inr (Or.inl (RunIn.step hb wb.lo_le hlt hu))
          · -- t sits on the back jump: the loop head is re-entered with the entry height
            have hta : t.pc = lo + pre.len + 1 + body.len := by have := wb.le_hi; omega
            have hk : t.h = h := wb.exit_h hta
            have v1 := wb.vs_eq
            have v2 := wb.fs_eq
            obtain ⟨e1, e2, e3, e4⟩ := edgeSucc_eq (succ_single (by simpa [hta] using hjb) hu)
            left
            have : u = ⟨lo, h, vs, fs⟩ := by
              cases u
              cases t
              simp only at e1 e2 e3 e4 hta hk v1 v2
              subst e3 e4 v1 v2
              congr <;> omega
            subst this
            exact RunIn.refl
        · simp only at y
          omega
    rcases inv with ha | hb | rfl
    · have wa := iha code lo vs fs hpp t ha
      refine ⟨wa.lo_le, by simp [Code.len]; have := wa.le_hi; omega, wa.vs_eq, wa.fs_eq, ?_, ?_⟩
      · intro hx
        have := wa.le_hi
        simp [Code.len] at hx
        omega
      · intro n hlt hc
        by_cases hin : t.pc < lo + pre.len
        · exact wa.need_ok n hin hc
        · have hta : t.pc = lo + pre.len := by have := wa.le_hi; omega
          have hk : t.h = k1 := wa.exit_h hta
          rw [hta, hn] at hc
          cases hc
          simp only
          omega
    · have wb := ihb code (lo + pre.len + 1) vs fs hpb t hb
      refine ⟨by have := wb.lo_le; omega, by simp [Code.len]; have := wb.le_hi; omega, wb.vs_eq, wb.fs_eq, ?_, ?_⟩
      · intro hx
        have := wb.le_hi
        simp [Code.len] at hx
        omega
      · intro n hlt hc
        by_cases hin : t.pc < lo + pre.len + 1 + body.len
        · exact wb.need_ok n hin hc
        · have hta : t.pc = lo + pre.len + 1 + body.len := by have := wb.le_hi; omega
          rw [hta, hjb] at hc
          cases hc
          exact Nat.zero_le _
    · exact ⟨by simp; omega, by simp [Code.len]; omega, rfl, rfl, fun _ => rfl,
        fun n hlt _ => by simp [Code.len] at hlt; omega⟩
  | @forever body h k _ ih =>
    intro code lo vs fs hp t hr
    rw [Code.nodes_forever] at hp
    have hpb : Placed code lo body.nodes := hp.left
    have hjb : code[lo + body.len]? = some ⟨0, [(-((body.len : Nat) : Int), 0)], .plain⟩ := by
      have := hp.right
      rw [Code.nodes_length] at this
      simpa [jumpBackNode] using this.head
    have hend : lo + (Code.forever body).len = lo + body.len + 1 := by simp [Code.len]; omega
    have inv : RunIn code lo (lo + body.len) ⟨lo, h, vs, fs⟩ t := by
      induction hr with
      | refl => exact RunIn.refl
      | @step t u _ x y hu ih' =>
        rw [hend] at y
        have wb := ih code lo vs fs hpb t ih'
        by_cases hlt : t.pc < lo + body.len
        · exact RunIn.step ih' wb.lo_le hlt hu
        · have hta : t.pc = lo + body.len := by have := wb.le_hi; omega
          have hk : t.h = h := wb.exit_h hta
          have v1 := wb.vs_eq
          have v2 := wb.fs_eq
          obtain ⟨e1, e2, e3, e4⟩ := edgeSucc_eq (succ_single (by simpa [hta] using hjb) hu)
          have : u = ⟨lo, h, vs, fs⟩ := by
            cases u
            cases t
            simp only at e1 e2 e3 e4 hta hk v1 v2
            subst e3 e4 v1 v2
            congr <;> omega
          subst this
          exact RunIn.refl
    have wb := ih code lo vs fs hpb t inv
    refine ⟨wb.lo_le, by simp [Code.len]; have := wb.le_hi; omega, wb.vs_eq, wb.fs_eq, ?_, ?_⟩
    · intro hx
      have := wb.le_hi
      simp [Code.len] at hx
      omega
    · intro n hlt hc
      by_cases hin : t.pc < lo + body.len
      · exact wb.need_ok n hin hc
      · have hta : t.pc = lo + body.len := by have := wb.le_hi; omega
        rw [hta, hjb] at hc
        cases hc
        exact Nat.zero_le _
  | @doLoop j body h k1 _ g1 g2 g3 g4 ih =>
    intro code lo vs fs hp t hr
    rw [Code.nodes_doLoop] at hp
    have hpb : Placed code lo body.nodes := hp.left
    have hj : code[lo + body.len]? = some ⟨j.need, [(-((body.len : Nat) : Int), -(j.popJump : Int)), (1, -(j.popFall : Int))], .plain⟩ := by
      have := hp.right
      rw [Code.nodes_length] at this
      simpa [JKind.nodeBack] using this.head
    have hend : lo + (Code.doLoop j body).len = lo + body.len + 1 := by simp [Code.len]; omega
    have inv : RunIn code lo (lo + body.len) ⟨lo, h, vs, fs⟩ t ∨ t = ⟨lo + body.len + 1, k1 - j.popFall, vs, fs⟩ := by
      induction hr with
      | refl => exact Or.inl RunIn.refl
      | @step t u _ x y hu ih' =>
        rw [hend] at y
        rcases ih' with hb | rfl
        · have wb := ih code lo vs fs hpb t hb
          by_cases hlt : t.pc < lo + body.len
          · exact Or.inl (RunIn.step hb wb.lo_le hlt hu)
          · have hta : t.pc = lo + body.len := by have := wb.le_hi; omega
            have hk : t.h = k1 := wb.exit_h hta
            have v1 := wb.vs_eq
            have v2 := wb.fs_eq
            rcases succ_two (by simpa [hta] using hj) hu with he | he
            · -- the back edge arrives at the loop head with the entry height
              obtain ⟨e1, e2, e3, e4⟩ := edgeSucc_eq he
              left
              have : u = ⟨lo, h, vs, fs⟩ := by
                cases u
                cases t
                simp only at e1 e2 e3 e4 hta hk v1 v2
                subst e3 e4 v1 v2
                congr <;> omega
              subst this
              exact RunIn.refl
            · obtain ⟨e1, e2, e3, e4⟩ := edgeSucc_eq he
              right
              cases u
              cases t
              simp only at e1 e2 e3 e4 hta hk v1 v2
              subst e3 e4 v1 v2
              congr <;> omega
        · simp only at y
          omega
    rcases inv with hb | rfl
    · have wb := ih code lo vs fs hpb t hb
      refine ⟨wb.lo_le, by simp [Code.len]; have := wb.le_hi; omega, wb.vs_eq, wb.fs_eq, ?_, ?_⟩
      · intro hx
        have := wb.le_hi
        simp [Code.len] at hx
        omega
      · intro n hlt hc
        by_cases hin : t.pc < lo + body.len
        · exact wb.need_ok n hin hc
        · have hta : t.pc = lo + body.len := by have := wb.le_hi; omega
          have hk : t.h = k1 := wb.exit_h hta
          rw [hta, hj] at hc
          cases hc
          simp only
          omega
    · exact ⟨by simp; omega, by simp [Code.len]; omega, rfl, rfl, fun _ => rfl,
        fun n hlt _ => by simp [Code.len] at hlt; omega⟩

end GojaModel.C01
