import GojaModel.C01.Driver
import GojaModel.C01.Stmt2
/-!
  C01 model driver, second part (IO glue): `emits2 <strict> <nr> <statement tokens…>` for the statement model with
  `break` / `continue` (Stmt2.lean); every other command is passed to `Driver.step`.
-/
namespace GojaModel.C01.Driver
open GojaModel.C01 GojaModel.Proto

mutual
partial def pS2 : P S2 := do
  let t ← next
  let f := t.splitOn ":"
  let a (i : Nat) : String := f.getD i ""
  if a 0 != "s" then throw ("statement token expected, got " ++ t) else
  match a 1 with
  | "expr" => do pure (.expr (← pExpr))
  | "empty" => pure .empty
  | "var0" => pure .varBare
  | "var" => do let c ← need (idClass? (a 2)) "class"; pure (.varInit c (← pExpr))
  | "block" => do pure (.block (← pSS2 ((a 2).toNat?.getD 0)))
  | "if" => do let c ← pExpr; pure (.ifS c (← pS2))
  | "ifelse" => do let c ← pExpr; let x ← pS2; pure (.ifElse c x (← pS2))
  | "while" => do let c ← pExpr; pure (.whileS c (← pS2))
  | "do" => do let b ← pS2; pure (.doWhile b (← pExpr))
  | "for" => do
      let i : ForInit ← (match (a 2).toList.getD 0 '0' with
        | '1' => do pure (ForInit.expr (← pExpr))
        | 'v' => pure ForInit.var0
        | 'V' => do let c ← need (idClass? (a 3)) "class"; pure (ForInit.varInit c (← pExpr))
        | _ => pure ForInit.none)
      let c ← pOpt (bit (a 2) 1)
      let u ← pOpt (bit (a 2) 2)
      pure (.forS i c u (← pS2))
  | "ret0" => pure (.ret none)
  | "ret" => do pure (.ret (some (← pExpr)))
  | "throw" => do pure (.throwS (← pExpr))
  | "brk" => pure .brk
  | "cont" => pure .cont
  | "trycatch" => do
      let b ← pSS2 ((a 2).toNat?.getD 0)
      pure (.tryCatch (b01 (a 4)) b (← pSS2 ((a 3).toNat?.getD 0)))
  | "tryfin" => do
      let b ← pSS2 ((a 2).toNat?.getD 0)
      pure (.tryFinally b (← pSS2 ((a 3).toNat?.getD 0)))
  | "trycf" => do
      let b ← pSS2 ((a 2).toNat?.getD 0)
      let c ← pSS2 ((a 3).toNat?.getD 0)
      pure (.tryCatchFinally (b01 (a 5)) b c (← pSS2 ((a 4).toNat?.getD 0)))
  | other => throw ("unknown statement token " ++ other)
partial def pSS2 : Nat → P SS2
  | 0 => pure .nil
  | n + 1 => do let s ← pS2; pure (.cons s (← pSS2 n))
end

/-- as `emits`, for the model with branch statements; the whole flat body also goes through the proven verifier -/
def cmdEmitS2 (strict nr : Bool) (toks : List String) : String :=
  match (pS2.run toks) with
  | .error e => "error " ++ e
  | .ok (s, rest) =>
    if !rest.isEmpty then "error trailing tokens" else
    let cfg : Cfg := ⟨strict⟩
    let m1 : S2 := .expr (.dot (.lit (.str "@@1")) "m")
    let m2 : S2 := if nr then .varInit .global (.lit (.str "@@2")) else .expr (.dot (.lit (.str "@@2")) "m")
    let c := emitBody2 cfg (.cons m1 (.cons s (.cons m2 .nil))) nr
    let flat := c.flatAt 0 0 0
    let mid := (flat.drop 3).take (flat.length - 6)
    let nodes := flat.mapM (fun x =>
      if x.1 == "try" then resolve Gen.table x.1 [("catchOffset", x.2 / 10000), ("finallyOffset", x.2 % 10000)]
      else if x.1 == "enterBlock" then resolve Gen.table x.1 [("stackSize", 0), ("stashSize", 0)]   -- the parameter is the adopted slot
      else if x.1 == "leaveBlock" then resolve Gen.table x.1 [("stackSize", 1), ("popStash", 0)]
      else resolve Gen.table x.1 [("n", x.2)])
    let v := match nodes with
      | .ok ns => toString (verify ns true)
      | .error e => "unresolved:" ++ e
    " ".intercalate (mid.map (fun x => s!"{x.1}:{x.2}")) ++ s!" | len={c.len == flat.length} verify={v}"

def step2 (line : String) : String :=
  match words line with
  | "emits2" :: s :: nr :: toks => cmdEmitS2 (b01 s) (b01 nr) toks
  | _ => step line

partial def interactive2 : IO Unit := do
  let stdin ← IO.getStdin
  let stdout ← IO.getStdout
  let rec loop : IO Unit := do
    let line ← stdin.getLine
    if line.isEmpty then
      stdout.flush
      return ()
    let l := String.ofList (dropEol line.toList.reverse).reverse
    stdout.putStrLn (step2 l)
    stdout.flush
    loop
  loop

def main2 : IO Unit := interactive2

end GojaModel.C01.Driver
