/-
C17 — byte results of `%TypedArray%.of` / `.from` (and `set(array-like)`) into a typed array handed back by a USER
constructor, under a detaching adversary.

ECMA-262 TypedArraySetElement converts the value (callback point: the adversary may detach anything, including the
target), then writes iff the index is still valid.  `Specs.lean` proves these writes memory safe.  Here: if the target's
buffer is still attached when the loop ends, then it was attached all along (a detached buffer never re-attaches), every
write happened, and the target holds exactly the encoded values — whatever the adversary detached in between.
-/
import GojaModel.C17.SortPerm

namespace GojaModel.C17

theorem writeElems_data_congr (v : View) : ∀ (ys : List (List UInt8)) (s t : State) (k : Nat),
    s.data? v.buf = t.data? v.buf → (writeElems s v k ys).data? v.buf = (writeElems t v k ys).data? v.buf := by
  intro ys
  induction ys with
  | nil => intro s t k h; exact h
  | cons y ys ih =>
    intro s t k h
    simp only [writeElems]
    apply ih
    rw [writeElem_data, writeElem_data, h]

theorem data?_applyDet_none (s : State) (det : List Nat) (b : Nat) (h : s.data? b = none) :
    (s.applyDet det).data? b = none := by
  rcases data?_applyDet_cases det s b with h' | h'
  · exact h'
  · rw [h', h]

/-- a detached target never comes back -/
theorem setArrLoop_none (v : View) : ∀ (vals : List VArg) (s : State) (k : Nat), s.data? v.buf = none →
    (setArrLoop s v k vals).2.data? v.buf = none := by
  intro vals
  induction vals with
  | nil => intro s k h; exact h
  | cons a as ih =>
    intro s k h
    unfold setArrLoop; dsimp only
    have h1 := data?_applyDet_none s a.det v.buf h
    split
    · exact h1
    · apply ih
      split
      · rw [writeElem_data, h1]; rfl
      · exact h1

theorem setArrLoop_res (v : View) : ∀ (vals : List VArg) (s : State) (k : Nat),
    (setArrLoop s v k vals).1 = .ok ∨ (setArrLoop s v k vals).1 = .err .type := by
  intro vals
  induction vals with
  | nil => intro s k; left; rfl
  | cons a as ih =>
    intro s k
    unfold setArrLoop; dsimp only
    split
    · right; rfl
    · exact ih _ _

def encRaw (k : Kind) (a : VArg) : List UInt8 := (encode k a.num).getD []

/-- the TypedArraySetElement loop under ANY adversary: if it completes and the target's buffer is attached at the end,
every value was convertible and the target's bytes are those of `writeElems` of the encoded values -/
theorem setArrLoop_adv (v : View) : ∀ (vals : List VArg) (s : State) (k : Nat) (d : List UInt8),
    s.data? v.buf = some d → k + vals.length ≤ v.length → (setArrLoop s v k vals).1 = .ok →
    ((setArrLoop s v k vals).2.data? v.buf).isSome = true →
    (setArrLoop s v k vals).2.data? v.buf = (writeElems s v k (vals.map (encRaw v.kind))).data? v.buf := by
  intro vals
  induction vals with
  | nil => intro s k d _ _ _ _; rfl
  | cons a as ih =>
    intro s k d hd hk hok hsome
    simp only [List.length_cons] at hk
    unfold setArrLoop at hok hsome ⊢; dsimp only at hok hsome ⊢
    cases henc : encode v.kind a.num with
    | none => rw [henc] at hok; dsimp only at hok; cases hok
    | some raw =>
      rw [henc] at hok hsome; dsimp only at hok hsome ⊢
      rcases data?_applyDet_cases a.det s v.buf with h1 | h1
      · -- detached by this conversion: the final state cannot be attached
        have hn : (if isValidIntegerIndex ((s.applyDet a.det).attached v.buf) v.length (k : Int) = true
            then (s.applyDet a.det).writeElem v k raw else s.applyDet a.det).data? v.buf = none := by
          split
          · rw [writeElem_data, h1]; rfl
          · exact h1
        rw [setArrLoop_none v as _ (k + 1) hn] at hsome
        cases hsome
      · have ha : (s.applyDet a.det).attached v.buf = true := by unfold State.attached; rw [h1, hd]; rfl
        have hvalid : isValidIntegerIndex ((s.applyDet a.det).attached v.buf) v.length (k : Int) = true := by
          simp [isValidIntegerIndex, ha]; omega
        rw [if_pos hvalid] at hok hsome ⊢
        have hd1 : ((s.applyDet a.det).writeElem v k raw).data? v.buf =
            some (splice d ((v.offset + k) * v.kind.size) (fit v.kind.size raw)) := by
          rw [writeElem_data, h1, hd]; rfl
        rw [ih _ (k + 1) _ hd1 (by omega) hok hsome]
        simp only [List.map_cons, writeElems]
        apply writeElems_data_congr
        rw [writeElem_data, writeElem_data, h1]
        simp [encRaw, henc]

/-- **`%TypedArray%.of` / `.from` with a user constructor under an adversary**: the constructor detaches `det` and returns
the existing typed array `dst`; every value conversion may detach more. If the call completes normally and `dst`'s buffer
is still attached afterwards, then elements `[0, n)` of `dst` hold exactly the encoded values, the buffer keeps its
length, and every byte range outside those elements is unchanged. -/
theorem of_user_bytes_eq_spec (s : State) (di : Nat) (det : List Nat) (dst : View) (vals : List VArg) (d : List UInt8)
    (hi : Inv s) (hv : s.views[di]? = some dst) (hd : s.data? dst.buf = some d)
    (lo n : Nat) (hres : (opOf s (.user di det) vals).1 = .view lo n)
    (d' : List UInt8) (hd' : (opOf s (.user di det) vals).2.data? dst.buf = some d') :
    d'.length = d.length ∧
      (∀ i, i < vals.length → elemAt d' dst i = fit dst.kind.size (encRaw dst.kind (vals.getD i ⟨.undef, []⟩))) ∧
      (∀ lo n, (lo + n ≤ dst.lo ∨ (dst.offset + vals.length) * dst.kind.size ≤ lo) → window d' lo n = window d lo n) := by
  have ha : s.attached dst.buf = true := by unfold State.attached; rw [hd]; rfl
  have hb : dst.hi ≤ d.length := by
    have := (hi.views dst (List.mem_of_getElem? hv)).2 ha
    unfold State.blen at this; rw [hd] at this; exact this
  unfold opOf at hres hd'; dsimp only at hres hd'; rw [hv] at hres hd'; dsimp only at hres hd'
  by_cases c1 : (!(s.applyDet det).attached dst.buf) = true
  · rw [if_pos c1] at hres; cases hres
  · rw [if_neg c1] at hres hd'
    by_cases c2 : dst.length < vals.length
    · rw [if_pos c2] at hres; cases hres
    · rw [if_neg c2] at hres hd'
      have hd0 : (s.applyDet det).data? dst.buf = some d := by
        rcases data?_applyDet_cases det s dst.buf with h | h
        · exfalso; apply c1; unfold State.attached; rw [h]; rfl
        · rw [h, hd]
      generalize hr : setArrLoop (s.applyDet det) dst 0 vals = r at hres hd'
      obtain ⟨r1, r2⟩ := r
      have hres' := setArrLoop_res dst vals (s.applyDet det) 0
      rw [hr] at hres'; dsimp only at hres'
      cases r1 with
      | ok =>
        dsimp only at hres hd'
        have hd2 : r2.data? dst.buf = some d' := hd'
        have key := setArrLoop_adv dst vals (s.applyDet det) 0 d hd0 (by omega) (by rw [hr]) (by rw [hr]; dsimp only; rw [hd2]; rfl)
        rw [hr] at key; dsimp only at key
        have hbound : (dst.offset + 0 + (vals.map (encRaw dst.kind)).length) * dst.kind.size ≤ d.length := by
          rw [List.length_map]
          exact Nat.le_trans (Nat.mul_le_mul_right _ (by omega : dst.offset + 0 + vals.length ≤ dst.offset + dst.length)) hb
        obtain ⟨d2, h1, h2, h3, h4⟩ := writeElems_elems dst (vals.map (encRaw dst.kind)) (s.applyDet det) 0 d hd0 hbound
        have e : d' = d2 := by
          have : some d' = some d2 := by rw [← hd2, key, h1]
          exact Option.some.inj this
        subst e
        refine ⟨h2, ?_, ?_⟩
        · intro i hi'
          have := h3 i (by rw [List.length_map]; exact hi')
          unfold elemAt
          rw [Nat.add_zero] at this
          rw [this]
          congr 1
          rw [List.getD_eq_getElem?_getD, List.getElem?_map, List.getD_eq_getElem?_getD, List.getElem?_eq_getElem hi']
          rfl
        · intro lo n hlo
          apply h4
          rw [List.length_map, Nat.add_zero]
          exact hlo
      | err e => dsimp only at hres; cases hres
      | _ => rcases hres' with h | h <;> cases h

/-! ## `map` into the typed array returned by a user species constructor -/

theorem mapRead_data (s : State) (v : View) (k b : Nat) : (mapRead s v k).data? b = s.data? b := by
  unfold mapRead
  split
  · exact readElem_data s v k b
  · rfl

theorem putValid_data_none (s : State) (dst : View) (k : Nat) (raw : List UInt8) (h : s.data? dst.buf = none) :
    (putValid s dst k raw).data? dst.buf = none := by
  unfold putValid
  split
  · rw [writeElem_data, h]; rfl
  · exact h

theorem mapLoopDst_none (v dst : View) (vals : List VArg) : ∀ (n : Nat) (s : State) (k : Nat), s.data? dst.buf = none →
    (mapLoopDst s v dst vals k n).2.data? dst.buf = none := by
  intro n
  induction n with
  | zero => intro s k h; exact h
  | succ n ih =>
    intro s k h
    unfold mapLoopDst; dsimp only
    have h1 : ((mapRead s v k).applyDet (valAt vals k).det).data? dst.buf = none :=
      data?_applyDet_none _ _ _ (by rw [mapRead_data]; exact h)
    split
    · exact h1
    · exact ih _ _ (putValid_data_none _ _ _ _ h1)

theorem mapLoopDst_res (v dst : View) (vals : List VArg) : ∀ (n : Nat) (s : State) (k : Nat),
    (mapLoopDst s v dst vals k n).1 = .ok ∨ (mapLoopDst s v dst vals k n).1 = .err .type := by
  intro n
  induction n with
  | zero => intro s k; left; rfl
  | succ n ih =>
    intro s k
    unfold mapLoopDst; dsimp only
    split
    · right; rfl
    · exact ih _ _

/-- the callback results `k, k+1, …, k+n-1`, encoded for the target kind -/
def mapRaws (dst : View) (vals : List VArg) (k n : Nat) : List (List UInt8) :=
  (List.range' k n).map (fun i => encRaw dst.kind (valAt vals i))

theorem mapLoopDst_adv (v dst : View) (vals : List VArg) : ∀ (n : Nat) (s : State) (k : Nat) (d : List UInt8),
    s.data? dst.buf = some d → k + n ≤ dst.length → (mapLoopDst s v dst vals k n).1 = .ok →
    ((mapLoopDst s v dst vals k n).2.data? dst.buf).isSome = true →
    (mapLoopDst s v dst vals k n).2.data? dst.buf = (writeElems s dst k (mapRaws dst vals k n)).data? dst.buf := by
  intro n
  induction n with
  | zero => intro s k d _ _ _ _; rfl
  | succ n ih =>
    intro s k d hd hk hok hsome
    unfold mapLoopDst at hok hsome ⊢; dsimp only at hok hsome ⊢
    cases henc : encode dst.kind (valAt vals k).num with
    | none => rw [henc] at hok; dsimp only at hok; cases hok
    | some raw =>
      rw [henc] at hok hsome; dsimp only at hok hsome ⊢
      have hm : (mapRead s v k).data? dst.buf = some d := by rw [mapRead_data]; exact hd
      rcases data?_applyDet_cases (valAt vals k).det (mapRead s v k) dst.buf with h1 | h1
      · rw [mapLoopDst_none v dst vals n _ (k + 1) (putValid_data_none _ _ _ _ h1)] at hsome
        cases hsome
      · rw [hm] at h1
        have ha : ((mapRead s v k).applyDet (valAt vals k).det).attached dst.buf = true := by
          unfold State.attached; rw [h1]; rfl
        have hvalid : isValidIntegerIndex (((mapRead s v k).applyDet (valAt vals k).det).attached dst.buf) dst.length (k : Int) = true := by
          simp [isValidIntegerIndex, ha]; omega
        have hput : putValid ((mapRead s v k).applyDet (valAt vals k).det) dst k raw =
            ((mapRead s v k).applyDet (valAt vals k).det).writeElem dst k raw := by
          unfold putValid; rw [if_pos hvalid]
        rw [hput] at hok hsome ⊢
        have hd1 : (((mapRead s v k).applyDet (valAt vals k).det).writeElem dst k raw).data? dst.buf =
            some (splice d ((dst.offset + k) * dst.kind.size) (fit dst.kind.size raw)) := by
          rw [writeElem_data, h1]; rfl
        rw [ih _ (k + 1) _ hd1 (by omega) hok hsome]
        unfold mapRaws
        simp only [List.range'_succ, List.map_cons, writeElems]
        apply writeElems_data_congr
        rw [writeElem_data, writeElem_data, h1, hd]
        simp [encRaw, henc]

/-- **`map` with a user species constructor under an adversary**: the constructor detaches `det` and returns the existing
typed array `dst` (possibly a view of the receiver's own buffer); every callback result conversion may detach more. If
the call completes normally and `dst`'s buffer is still attached afterwards, then elements `[0, n)` of `dst` (`n` = the
receiver's length) hold exactly the encoded callback results, the buffer keeps its length, and every byte range outside
those elements is unchanged. -/
theorem map_species_bytes_eq_spec (s : State) (vi di : Nat) (det : List Nat) (v dst : View) (vals : List VArg)
    (d : List UInt8) (hi : Inv s) (hv : s.views[vi]? = some v) (hdv : s.views[di]? = some dst)
    (hd : s.data? dst.buf = some d)
    (lo n : Nat) (hres : (opMap s vi (some (di, det)) vals).1 = .view lo n)
    (d' : List UInt8) (hd' : (opMap s vi (some (di, det)) vals).2.data? dst.buf = some d') :
    d'.length = d.length ∧
      (∀ i, i < v.length → elemAt d' dst i = fit dst.kind.size (encRaw dst.kind (valAt vals i))) ∧
      (∀ lo n, (lo + n ≤ dst.lo ∨ (dst.offset + v.length) * dst.kind.size ≤ lo) → window d' lo n = window d lo n) := by
  have ha : s.attached dst.buf = true := by unfold State.attached; rw [hd]; rfl
  have hb : dst.hi ≤ d.length := by
    have := (hi.views dst (List.mem_of_getElem? hdv)).2 ha
    unfold State.blen at this; rw [hd] at this; exact this
  unfold opMap at hres hd'; rw [hv] at hres hd'; dsimp only at hres hd'
  by_cases c0 : speciesBad s (some (di, det)) = true
  · rw [if_pos c0] at hres; cases hres
  · rw [if_neg c0] at hres hd'
    by_cases c00 : (!s.attached v.buf) = true
    · rw [if_pos c00] at hres; cases hres
    · rw [if_neg c00, hdv] at hres hd'; dsimp only at hres hd'
      by_cases c1 : (!(s.applyDet det).attached dst.buf) = true
      · rw [if_pos c1] at hres; cases hres
      · rw [if_neg c1] at hres hd'
        by_cases c2 : dst.length < v.length
        · rw [if_pos c2] at hres; cases hres
        · rw [if_neg c2] at hres hd'
          have hd0 : (s.applyDet det).data? dst.buf = some d := by
            rcases data?_applyDet_cases det s dst.buf with h | h
            · exfalso; apply c1; unfold State.attached; rw [h]; rfl
            · rw [h, hd]
          generalize hr : mapLoopDst (s.applyDet det) v dst vals 0 v.length = r at hres hd'
          obtain ⟨r1, r2⟩ := r
          have hres' := mapLoopDst_res v dst vals v.length (s.applyDet det) 0
          rw [hr] at hres'; dsimp only at hres'
          cases r1 with
          | ok =>
            dsimp only at hres hd'
            have hd2 : r2.data? dst.buf = some d' := hd'
            have key := mapLoopDst_adv v dst vals v.length (s.applyDet det) 0 d hd0 (by omega) (by rw [hr])
              (by rw [hr]; dsimp only; rw [hd2]; rfl)
            rw [hr] at key; dsimp only at key
            have hlenR : (mapRaws dst vals 0 v.length).length = v.length := by simp [mapRaws]
            have hbound : (dst.offset + 0 + (mapRaws dst vals 0 v.length).length) * dst.kind.size ≤ d.length := by
              rw [hlenR]
              exact Nat.le_trans (Nat.mul_le_mul_right _ (by omega : dst.offset + 0 + v.length ≤ dst.offset + dst.length)) hb
            obtain ⟨d2, h1, h2, h3, h4⟩ := writeElems_elems dst (mapRaws dst vals 0 v.length) (s.applyDet det) 0 d hd0 hbound
            have e : d' = d2 := by
              have : some d' = some d2 := by rw [← hd2, key, h1]
              exact Option.some.inj this
            subst e
            refine ⟨h2, ?_, ?_⟩
            · intro i hi'
              have := h3 i (by rw [hlenR]; exact hi')
              unfold elemAt
              rw [Nat.add_zero] at this
              rw [this]
              congr 1
              unfold mapRaws
              rw [List.getD_eq_getElem?_getD, List.getElem?_map, List.getElem?_range' hi']
              simp
            · intro lo n hlo
              apply h4
              rw [hlenR, Nat.add_zero]
              exact hlo
          | err e => dsimp only at hres; cases hres
          | _ => rcases hres' with h | h <;> cases h

end GojaModel.C17
